#!/usr/bin/env python3
"""Regenerates MANIFEST.json from checks_table.py + manifest_meta.py (kept in sync by hand)."""
import json, subprocess, sys, os
ROOT = os.path.dirname(os.path.abspath(__file__))
sys.path.insert(0, ROOT)
from checks_table import CHECKS
from manifest_meta import META, NOT_APPLICABLE, HOOK_COMMITS

props = [json.loads(l)["id"] for l in open(os.path.join(ROOT, "properties.jsonl"))]
checks = []
for pid in props:
    if pid not in CHECKS or pid not in META:
        continue
    m = META[pid]
    checks.append({
        "property_id": pid,
        "quick_cmd": f"./check {pid} --tier quick",
        "thorough_cmd": f"./check {pid} --tier thorough",
        "evidence_file": f"evidence/{pid}.json",
        "replay_cmd_template": "./check --replay {path}",
        "engine": "kevo-pbt",
        "level_claimed": {"category": CHECKS[pid]["level"], "text": m["text"], "design_ref": m["design_ref"]},
        "level_note": m["note"],
        "technique": m["technique"],
    })
na = [{"property_id": pid, "reason": NOT_APPLICABLE.get(pid, "check not built yet in this round; design in DESIGN.md section 5")}
      for pid in props if pid not in [c["property_id"] for c in checks]]
man = {
    "version": 1,
    "setup_cmd": "./check --build",
    "hooks": {
        "guard": "verif (Go build tag)",
        "enable": "checks build the harness with `go test -c -tags verif`; the harness module replaces github.com/KevoDB/kevo with /repo, so every build uses /repo's current working tree",
        "baseline_off_cmd": "cd /repo && go build ./... && go test -vet=off -count=1 -timeout 25m ./...",
        "source_commits": HOOK_COMMITS,
        "add_only": True,
    },
    "engines": [{
        "name": "kevo-pbt", "path": "harness/",
        "serves_properties": [c["property_id"] for c in checks],
        "kind_free_text": "Go test binaries (one per property) using pgregory.net/rapid v1.3.0 generators, explicit oracles (reference models, round trips, prefix-state, porcupine) and child-process crash/race runners; python3 driver ./check shards, merges evidence and matches known findings",
    }],
    "checks": checks,
    "not_applicable": na,
    "notes": "Property-based testing / fuzzing only. Exit 0 = held on everything explored, 1 = VIOLATION, 2 = inconclusive (infrastructure). known_findings.json lists genuine defects (fixed/open).",
}
json.dump(man, open(os.path.join(ROOT, "MANIFEST.json"), "w"), indent=1)
print("checks:", [c["property_id"] for c in checks], "n/a:", len(na))

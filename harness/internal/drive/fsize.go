package drive

import (
	"os/signal"
	"sync"
	"syscall"
)

var xfszOnce sync.Once

// SetFsizeLimit lowers the process's RLIMIT_FSIZE (soft) to n bytes: the
// write(2) that would grow any file past n fails with EFBIG after a partial
// write, the way a full disk fails it. SIGXFSZ is ignored.
func SetFsizeLimit(n uint64) error {
	xfszOnce.Do(func() { signal.Ignore(syscall.SIGXFSZ) })
	var cur syscall.Rlimit
	if err := syscall.Getrlimit(syscall.RLIMIT_FSIZE, &cur); err != nil {
		return err
	}
	cur.Cur = n
	return syscall.Setrlimit(syscall.RLIMIT_FSIZE, &cur)
}

// LiftFsizeLimit raises the soft limit back to the hard limit.
func LiftFsizeLimit() {
	var cur syscall.Rlimit
	if err := syscall.Getrlimit(syscall.RLIMIT_FSIZE, &cur); err == nil {
		cur.Cur = cur.Max
		_ = syscall.Setrlimit(syscall.RLIMIT_FSIZE, &cur)
	}
}

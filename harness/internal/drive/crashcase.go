package drive

import (
	"fmt"
	"os"
	"os/exec"
	"sort"
	"strings"

	"github.com/KevoDB/kevo/pkg/engine"

	"verif/internal/ev"
)

func count(name string, n int) {
	if ev.R() != nil {
		ev.R().Count(name, n)
	}
}

func note(s string) {
	if ev.R() != nil {
		ev.R().Note(s)
	}
}

// CrashRound is one process lifetime.
type CrashRound struct {
	To    int    `json:"to"`             // executes steps [prev.To, To)
	Clean bool   `json:"clean"`          // close cleanly instead of crashing
	SelA  uint32 `json:"sel_a"`          // selects the site from the round's profile
	SelB  uint32 `json:"sel_b"`          // selects the hit number
	Late  bool   `json:"late,omitempty"` // choose among the last quarter of the site's hits (the end of the segment)
	// Abandon: no crash site; the process executes the whole segment and then
	// dies without closing the engine (what sits in user-space buffers is lost)
	Abandon bool `json:"abandon,omitempty"`
	// resolved by the run (recorded for replay and evidence)
	Site string `json:"site,omitempty"`
	N    int    `json:"n,omitempty"`
}

// CrashCase is a program with a crash plan.
type CrashCase struct {
	Program Program      `json:"program"`
	Rounds  []CrashRound `json:"rounds"`
	// ChildVerifies: the state left by round r is observed by the CHILD of round
	// r+1 right after it opened (recovered) the directory and before it writes, so
	// that recovery and further writes happen in one process (a parent open in
	// between would hand the next process an already repaired directory).
	ChildVerifies bool `json:"child_verifies,omitempty"`
}

// Failure is an oracle failure with its signature.
type Failure struct {
	Sig, Msg string
}

func copyDir(src, dst string) error {
	return exec.Command("cp", "-a", src, dst).Run()
}

// verify opens dir in-process and compares with the candidate prefix states.
// It returns the index of the matching state.
func VerifyState(dir string, p *Program, states []Model, lower, upper int, site string) (int, *Failure) {
	e, err := engine.NewEngineFacade(dir)
	if err != nil {
		return 0, &Failure{"open-error@" + site, "reopen after " + site + ": " + err.Error()}
	}
	snap := Observe(e, p)
	_ = e.Close()
	return MatchSnapshot(snap, p, states, lower, upper, site)
}

// MatchSnapshot compares an observed state with the candidate prefix states.
func MatchSnapshot(snap *Snapshot, p *Program, states []Model, lower, upper int, site string) (int, *Failure) {
	first := ""
	for q := upper; q >= lower; q-- {
		d := snap.EqualModel(states[q], p)
		if d == "" {
			return q, nil
		}
		if q == upper {
			first = d
		}
	}
	// classify: does it equal a state outside the window?
	for q := range states {
		if snap.EqualModel(states[q], p) == "" {
			if q < lower {
				return 0, &Failure{"acked-write-lost@" + site,
					fmt.Sprintf("state after %s equals prefix %d but %d writes were acknowledged (window %d..%d)", site, q, lower, lower, upper)}
			}
			return 0, &Failure{"future-state@" + site, fmt.Sprintf("state equals prefix %d beyond the issued window %d..%d", q, lower, upper)}
		}
	}
	return 0, &Failure{"not-a-prefix@" + site, fmt.Sprintf("state after %s equals no prefix state (window %d..%d); vs newest candidate: %s", site, lower, upper, first)}
}

func IdleSite(site string) bool {
	// sites that lie between operations rather than inside one
	return site == "" || site == "storage.put.after_mem" || site == "storage.batch.after_mem"
}

// runCase executes the plan. resolved reports the crash points actually used.
// SiteFilter, when non-nil, restricts the crash sites a round may pick.
type SiteFilter func(site string) bool

// RunCrashCase executes the plan; it resolves (site, n) of every round from the
// round's profile unless replay is set and the round carries them already.
func RunCrashCase(c *CrashCase, replay bool, filter SiteFilter) (*Failure, []string) {
	root, err := os.MkdirTemp("", "c02-")
	if err != nil {
		panic(err)
	}
	defer os.RemoveAll(root)
	dir := root + "/db"
	p := &c.Program
	var classes []string
	base := Model{}
	from := 0
	type pendingVerify struct {
		states       []Model
		lower, upper int
		site, msg    string
	}
	var pending *pendingVerify
	for ri := range c.Rounds {
		rd := &c.Rounds[ri]
		to := rd.To
		if to > len(p.Steps) {
			to = len(p.Steps)
		}
		if to < from {
			to = from
		}
		spec := ChildSpec{Dir: dir, Program: p, From: from, To: to}
		if pending != nil {
			spec.SnapOut = fmt.Sprintf("%s/snap-r%d.json", root, ri)
			_ = os.Remove(spec.SnapOut)
		}
		spec.EndSnap = fmt.Sprintf("%s/endsnap-r%d.json", root, ri)
		_ = os.Remove(spec.EndSnap)
		site := "clean-close"
		if rd.Abandon {
			spec.NoClose = true
			site = "abandon-after-segment"
		}
		if !rd.Clean && !rd.Abandon {
			if !replay || rd.Site == "" {
				// profile this round on a copy of the directory
				pdir := root + "/prof"
				_ = os.RemoveAll(pdir)
				if _, err := os.Stat(dir); err == nil {
					if err := copyDir(dir, pdir); err != nil {
						panic(err)
					}
					// the manifest stores absolute wal/sst paths: profile in place instead
					_ = os.RemoveAll(pdir)
				}
				prof, err := ProfileRound(root, dir, spec)
				if spec.SnapOut != "" {
					_ = os.Remove(spec.SnapOut) // the profile child wrote one too; only the real child's counts
				}
				if err != nil {
					return &Failure{"child-error@profile", err.Error()}, classes
				}
				sites := make([]string, 0, len(prof))
				for s := range prof {
					if filter == nil || filter(s) {
						sites = append(sites, s)
					}
				}
				sort.Strings(sites)
				if len(sites) == 0 {
					rd.Clean = true
				} else {
					rd.Site = sites[int(rd.SelA)%len(sites)]
					rd.N = 1 + int(rd.SelB)%prof[rd.Site]
					if rd.Late {
						h := prof[rd.Site]
						span := h / 4
						if span < 1 {
							span = 1
						}
						rd.N = h - int(rd.SelB)%span
					}
				}
			}
		}
		if !rd.Clean && !rd.Abandon {
			spec.CrashSite, spec.CrashN = rd.Site, rd.N
			site = rd.Site
		}
		res, err := RunChild(spec, root, fmt.Sprintf("r%d", ri))
		if err != nil {
			return &Failure{"child-error@" + site, err.Error()}, classes
		}
		if pending != nil {
			// the previous round's outcome as seen by this child right after recovery
			snap, serr := LoadSnapshot(spec.SnapOut)
			if serr != nil {
				// the child died before it could observe (crash point inside open): the
				// previous round can no longer be judged on its own; abandon the case
				count("child_snapshot_missing", 1)
				return nil, append(classes, "abandoned:child_snapshot_missing")
			}
			q, f := MatchSnapshot(snap, p, pending.states, pending.lower, pending.upper, pending.site)
			if f != nil {
				f.Sig += "(observed-by-next-process)"
				f.Msg = pending.msg + f.Msg
				return f, classes
			}
			base = pending.states[q]
			pending = nil
			classes = append(classes, "round_observed_by_next_process")
		}
		// prefix states of this round's segment
		states := []Model{base.Clone()}
		cur := base.Clone()
		for i := from; i < to; i++ {
			if p.Steps[i].IsWrite() {
				cur.Apply(p, p.Steps[i])
				states = append(states, cur.Clone())
			}
		}
		if res.WriteError != "" {
			count("rounds_with_write_error", 1)
			note("write error in child: " + res.WriteError)
		}
		if rd.Abandon && !res.Crashed && res.ExitCode == 0 {
			res.Crashed = true // died without closing
		}
		acked := len(res.Acked)
		upper := acked + 1
		if upper > len(states)-1 {
			upper = len(states) - 1
		}
		lower := 0
		if !res.Crashed {
			// clean close: exactly what was acknowledged
			lower, upper = acked, acked
			if res.WriteError != "" {
				upper = acked + 1
				if upper > len(states)-1 {
					upper = len(states) - 1
				}
			}
			if !rd.Clean {
				count("crash_point_not_reached", 1)
			}
			site = "clean-close"
		} else if p.Cfg.SyncMode == 2 {
			lower = acked
		}
		if res.Crashed {
			classes = append(classes, "crash:"+strings.SplitN(site, ".", 2)[0])
			if !IdleSite(site) {
				classes = append(classes, "crash_inside_operation")
			}
		} else {
			classes = append(classes, "clean_round")
		}
		msg := fmt.Sprintf("round %d steps [%d,%d) acked=%d: ", ri, from, to, acked)
		if !res.Crashed && res.WriteError == "" {
			// the process ended by closing cleanly: what it saw itself right before
			// the close must be exactly the acknowledged state (a write made after a
			// recovery is visible in the process that made it, and the close/reopen
			// judged below must not change the visible state)
			if snap, serr := LoadSnapshot(spec.EndSnap); serr == nil {
				if _, f := MatchSnapshot(snap, p, states, acked, acked, "before-clean-close"); f != nil {
					f.Sig = strings.Replace(f.Sig, "acked-write-lost@", "acked-write-invisible@", 1)
					f.Msg = msg + "observed by the writing process itself before it closed: " + f.Msg
					return f, classes
				}
				classes = append(classes, "state_before_clean_close_observed")
			}
		}
		if c.ChildVerifies && ri < len(c.Rounds)-1 {
			pending = &pendingVerify{states, lower, upper, site, msg}
			from = to
			continue
		}
		q, f := VerifyState(dir, p, states, lower, upper, site)
		if f != nil {
			f.Msg = msg + f.Msg
			return f, classes
		}
		base = states[q]
		from = to
	}
	// final: open, close cleanly, reopen: exact
	for k := 0; k < 2; k++ {
		if _, f := VerifyState(dir, p, []Model{base}, 0, 0, "final-clean-reopen"); f != nil {
			f.Msg = fmt.Sprintf("final reopen %d: %s", k, f.Msg)
			return f, classes
		}
	}
	return nil, classes
}

// profileRound runs the round's segment in profile mode on a scratch copy of
// the database. The manifest holds absolute paths, so the copy is made by
// moving the real directory aside and restoring it afterwards.
func ProfileRound(root, dir string, spec ChildSpec) (map[string]int, error) {
	bak := root + "/bak"
	_ = os.RemoveAll(bak)
	had := false
	if _, err := os.Stat(dir); err == nil {
		had = true
		if err := copyDir(dir, bak); err != nil {
			return nil, err
		}
	}
	spec.Profile = true
	res, err := RunChild(spec, root, "prof")
	// restore
	_ = os.RemoveAll(dir)
	if had {
		if err2 := os.Rename(bak, dir); err2 != nil {
			return nil, err2
		}
	}
	if err != nil {
		return nil, err
	}
	if res.Profile == nil {
		return nil, fmt.Errorf("no profile written; stderr: %s", res.Stderr)
	}
	return res.Profile, nil
}

package drive

import (
	"bytes"
	"errors"
	"fmt"
	"os"
	"path/filepath"
	"strings"
	"sync/atomic"
	"time"

	"github.com/KevoDB/kevo/pkg/config"
	"github.com/KevoDB/kevo/pkg/engine"
	"github.com/KevoDB/kevo/pkg/engine/storage"
	"github.com/KevoDB/kevo/pkg/wal"
)

// Mismatch describes the first disagreement between engine and model.
type Mismatch struct {
	Step int    `json:"step"` // index of the step after which it was seen (-1 = before any)
	Kind string `json:"kind"` // stale | lost | resurrected | wrong | error | open-error | ryw | write-error
	Key  int    `json:"key"`
	Msg  string `json:"msg"`
	Ctx  string `json:"ctx"` // context used in the signature (e.g. last maintenance op)
}

func (m *Mismatch) Error() string {
	return fmt.Sprintf("step %d key k%d: %s (%s) ctx=%s", m.Step, m.Key, m.Kind, m.Msg, m.Ctx)
}

// Signature is what known findings are matched on.
func (m *Mismatch) Signature() string { return m.Kind + "@" + m.Ctx }

// ApplyCfg writes the program's configuration as the directory's manifest
// (only when the directory has none yet).
func ApplyCfg(dir string, c Cfg) error {
	if _, err := os.Stat(dir + "/MANIFEST"); err == nil {
		return nil
	}
	cfg := config.NewDefaultConfig(dir)
	if c.MemTableSize > 0 {
		cfg.MemTableSize = c.MemTableSize
	}
	if c.MaxMemTables > 0 {
		cfg.MaxMemTables = c.MaxMemTables
	}
	cfg.WALSyncMode = config.SyncMode(c.SyncMode)
	if c.SyncBytes > 0 {
		cfg.WALSyncBytes = c.SyncBytes
	}
	cfg.CompactionInterval = 3600
	return cfg.SaveManifest(dir)
}

// Open opens the engine on dir with the configuration c.
func Open(dir string, c Cfg) (*engine.EngineFacade, error) {
	if err := ApplyCfg(dir, c); err != nil {
		return nil, err
	}
	return engine.NewEngineFacade(dir)
}

// Quiesce waits until the background flush goroutine has nothing left to do.
// VerifImmutableCount takes the flush mutex, so a flush in progress is waited
// for. Immutable tables that nobody was signalled about (the ones recovered at
// open are only picked up by the 10 s ticker) would make it wait for nothing:
// when the count has not moved for 25 ms the engine is idle and Quiesce
// returns false ("left-over immutables"), which callers only count.
func Quiesce(e *engine.EngineFacade) bool {
	sm, ok := e.VerifStorage().(*storage.Manager)
	if !ok {
		return true
	}
	last, lastChange := -1, time.Now()
	for {
		n := sm.VerifImmutableCount()
		if n == 0 {
			return true
		}
		if n != last {
			last, lastChange = n, time.Now()
		} else if time.Since(lastChange) > 25*time.Millisecond {
			return false
		}
		time.Sleep(100 * time.Microsecond)
	}
}

// ErrRetireRaced is returned by Retire when the harness's own retention call
// overlapped a rotation of the engine's background flusher and the damage (the
// live log file unlinked) could not be undone by a further rotation.
var ErrRetireRaced = errors.New("harness: log retention overlapped a background log rotation")

// RetireRepairs counts how often Retire had to rotate once more because its
// retention call had overlapped a background rotation (see Retire).
var RetireRepairs atomic.Int64

// Retire flushes everything (immutable tables, then the active table) and
// removes all log files except the current one through WAL.ManageRetention.
// Afterwards reads can only be served from SSTables.
//
// ManageRetention is a call of the HARNESS on a log handle it fetched itself;
// the engine's background flusher may rotate the log at any moment (a queued
// flush signal, the periodic tick), and a handle that is being rotated out
// keeps ITS file and removes the newer, live one. That is a consequence of how
// the harness retires logs, not a step of any property's programs, so Retire
// makes its own call safe: after the retention it waits for a flush in
// progress and, if an unlinked log file is still held open by this process,
// rotates once more (nothing was written in between: the client is this
// goroutine), so that the live log is a file that exists.
func Retire(e *engine.EngineFacade, dir string) error {
	Quiesce(e)
	for i := 0; i < 2; i++ {
		if err := e.FlushImMemTables(); err != nil {
			return err
		}
		Quiesce(e)
	}
	var err error
	for tries := 0; tries < 20; tries++ {
		w := e.GetWAL()
		if w == nil {
			return errors.New("no WAL")
		}
		_, err = w.ManageRetention(wal.WALRetentionConfig{MaxFileCount: 1})
		if errors.Is(err, wal.ErrWALClosed) {
			// rotated out completely before the call: nothing was removed
			continue
		}
		break
	}
	if rerr := settleLog(e, dir); rerr != nil {
		return rerr
	}
	return err
}

// settleLog is the second half of Retire: wait for a flush in progress and
// rotate again as long as this process holds an unlinked log file open.
func settleLog(e *engine.EngineFacade, dir string) error {
	sm, _ := e.VerifStorage().(*storage.Manager)
	for tries := 0; ; tries++ {
		if sm != nil {
			sm.VerifImmutableCount() // barrier: a flush in progress (and its rotation) is over
		}
		if !unlinkedLogOpen(dir) {
			return nil
		}
		if tries == 8 {
			return ErrRetireRaced
		}
		RetireRepairs.Add(1)
		if ferr := e.FlushImMemTables(); ferr != nil {
			return ferr
		}
	}
}

// unlinkedLogOpen reports whether this process holds a removed *.wal file of
// the database in dir open.
func unlinkedLogOpen(dir string) bool {
	root, rerr := filepath.Abs(dir)
	if rerr == nil {
		if r2, err := filepath.EvalSymlinks(root); err == nil {
			root = r2
		}
	}
	ents, err := os.ReadDir("/proc/self/fd")
	if err != nil {
		return false
	}
	for _, en := range ents {
		l, err := os.Readlink("/proc/self/fd/" + en.Name())
		if err != nil || !strings.HasSuffix(l, ".wal (deleted)") {
			continue
		}
		if rerr != nil || strings.HasPrefix(l, root+string(os.PathSeparator)) {
			return true
		}
	}
	return false
}

// IsNotFound classifies an error of a read as "key absent".
func IsNotFound(err error) bool {
	return err != nil && strings.Contains(err.Error(), "not found")
}

// Runner interprets a program against a real engine next to the model.
type Runner struct {
	Dir   string
	P     *Program
	Eng   *engine.EngineFacade
	Model Model
	// History of which tags each key ever held, to tell stale from wrong.
	past map[string][][]byte
	// bookkeeping for signatures / classification
	LastMaint     string
	QuiesceMisses int
	MaintErrors   int
	WriteErrors   int
	NoQuiesce     bool
	// observers
	AfterWrite func(stepIdx int) // called after every acknowledged write step
}

// NewRunner opens the engine in dir.
func NewRunner(dir string, p *Program) (*Runner, *Mismatch) {
	e, err := Open(dir, p.Cfg)
	if err != nil {
		return nil, &Mismatch{Step: -1, Kind: "open-error", Key: -1, Msg: err.Error(), Ctx: "initial"}
	}
	return &Runner{Dir: dir, P: p, Eng: e, Model: Model{}, past: map[string][][]byte{}, LastMaint: "none", NoQuiesce: p.Cfg.NoQuiesce}, nil
}

// Close closes the engine (ignoring errors).
func (r *Runner) Close() {
	if r.Eng != nil {
		_ = r.Eng.Close()
		r.Eng = nil
	}
}

func (r *Runner) remember(k string, v []byte) {
	r.past[k] = append(r.past[k], v)
}

func (r *Runner) rememberStep(s Step) {
	switch s.Op {
	case "put":
		r.remember(string(r.P.Keys[s.K]), nonNil(s.V.Bytes()))
	case "batch", "tx":
		for _, o := range s.Tx {
			if o.Op == "put" {
				r.remember(string(r.P.Keys[o.K]), nonNil(o.V.Bytes()))
			}
		}
	}
}

// classify names the kind of disagreement for one key.
func (r *Runner) classify(k string, got []byte, gotFound bool, want []byte, wantFound bool) string {
	switch {
	case wantFound && !gotFound:
		return "lost"
	case !wantFound && gotFound:
		for _, old := range r.past[k] {
			if bytes.Equal(old, got) {
				return "resurrected"
			}
		}
		return "wrong"
	default:
		for _, old := range r.past[k] {
			if bytes.Equal(old, got) {
				return "stale"
			}
		}
		return "wrong"
	}
}

func brief(b []byte) string {
	if len(b) <= 12 {
		return fmt.Sprintf("%x(len %d)", b, len(b))
	}
	return fmt.Sprintf("%x..(len %d)", b[:12], len(b))
}

// CheckAll reads every pool key and compares with the model.
func (r *Runner) CheckAll(step int) *Mismatch {
	for i, key := range r.P.Keys {
		got, err := r.Eng.Get(key)
		want, wantFound := r.Model[string(key)]
		if err != nil && !IsNotFound(err) {
			return &Mismatch{Step: step, Kind: "error", Key: i, Msg: "Get: " + err.Error(), Ctx: r.LastMaint}
		}
		gotFound := err == nil
		if gotFound != wantFound || (gotFound && !bytes.Equal(got, want)) {
			kind := r.classify(string(key), got, gotFound, want, wantFound)
			return &Mismatch{Step: step, Kind: kind, Key: i,
				Msg: fmt.Sprintf("got found=%v %s want found=%v %s", gotFound, brief(got), wantFound, brief(want)), Ctx: r.LastMaint}
		}
	}
	return nil
}

// ErrWrite is returned by Do when a write operation reported an error; the
// case cannot be continued against the model.
var ErrWrite = errors.New("write reported an error")

// Do executes step i. It returns a mismatch for oracle failures inside the
// step (read-your-writes), ErrWrite-wrapped errors for failed writes.
func (r *Runner) Do(i int) (*Mismatch, error) {
	s := r.P.Steps[i]
	p := r.P
	switch s.Op {
	case "put":
		k, v := p.Keys[s.K], s.V.Bytes()
		if i%2 == 1 && v != nil {
			// like a caller that carves key and value out of one request buffer:
			// adjacent sub-slices of one arena (the key's capacity extends over the value)
			arena := make([]byte, len(k)+len(v)+16)
			copy(arena, k)
			copy(arena[len(k):], v)
			k, v = arena[:len(k)], arena[len(k):len(k)+len(v)]
		}
		err := r.Eng.Put(k, v)
		if i%2 == 1 && v != nil {
			// ... and that re-uses the buffer as soon as the call has returned
			for j := range k {
				k[j] ^= 0x5A
			}
			for j := range v {
				v[j] ^= 0xA5
			}
		}
		if err != nil {
			r.WriteErrors++
			return nil, fmt.Errorf("%w: put: %v", ErrWrite, err)
		}
	case "del":
		// the key is handed over in a buffer of the caller that is overwritten
		// right after the call
		kb := append([]byte{}, p.Keys[s.K]...)
		err := r.Eng.Delete(kb)
		for j := range kb {
			kb[j] ^= 0x5A
		}
		if err != nil {
			r.WriteErrors++
			return nil, fmt.Errorf("%w: delete: %v", ErrWrite, err)
		}
	case "batch":
		ents := make([]*wal.Entry, 0, len(s.Tx))
		for _, o := range s.Tx {
			if o.Op == "put" {
				ents = append(ents, &wal.Entry{Type: wal.OpTypePut, Key: p.Keys[o.K], Value: o.V.Bytes()})
			} else if o.Op == "del" {
				ents = append(ents, &wal.Entry{Type: wal.OpTypeDelete, Key: p.Keys[o.K]})
			}
		}
		if err := r.Eng.ApplyBatch(ents); err != nil {
			r.WriteErrors++
			return nil, fmt.Errorf("%w: batch: %v", ErrWrite, err)
		}
	case "tx":
		tx, err := r.Eng.BeginTransaction(false)
		if err != nil {
			return &Mismatch{Step: i, Kind: "error", Key: -1, Msg: "begin: " + err.Error(), Ctx: r.LastMaint}, nil
		}
		overlay := map[string][]byte{}
		deleted := map[string]bool{}
		for _, o := range s.Tx {
			k := p.Keys[o.K]
			switch o.Op {
			case "put":
				// in every second transaction the caller re-uses its key and value
				// buffers as soon as the call has returned (long before the commit)
				kb, vb := k, o.V.Bytes()
				if i%2 == 1 {
					kb = append([]byte{}, k...)
				}
				err := tx.Put(kb, vb)
				if i%2 == 1 {
					for j := range kb {
						kb[j] ^= 0x5A
					}
					for j := range vb {
						vb[j] ^= 0xA5
					}
				}
				if err != nil {
					_ = tx.Rollback()
					return nil, fmt.Errorf("%w: tx put: %v", ErrWrite, err)
				}
				overlay[string(k)] = nonNil(o.V.Bytes())
				delete(deleted, string(k))
			case "del":
				kb := k
				if i%2 == 1 {
					kb = append([]byte{}, k...)
				}
				err := tx.Delete(kb)
				if i%2 == 1 {
					for j := range kb {
						kb[j] ^= 0x5A
					}
				}
				if err != nil {
					_ = tx.Rollback()
					return nil, fmt.Errorf("%w: tx delete: %v", ErrWrite, err)
				}
				delete(overlay, string(k))
				deleted[string(k)] = true
			case "last":
				// SeekToLast on the transaction's full iterator: the greatest live key
				// of (committed state + own writes), with the value the transaction
				// itself would Get. A deletion marker may surface instead (consumers
				// skip it and there is no backward step), but never a smaller live key
				// and never a value other than the newest one.
				var wantK string
				var wantV []byte
				have := false
				view := r.Model.Clone()
				for kk, vv := range overlay {
					view[kk] = vv
				}
				for kk := range deleted {
					delete(view, kk)
				}
				if ks := view.SortedKeys(); len(ks) > 0 {
					wantK, wantV, have = ks[len(ks)-1], view[ks[len(ks)-1]], true
				}
				it := tx.NewIterator()
				it.SeekToLast()
				switch {
				case !it.Valid():
					if have {
						_ = tx.Rollback()
						return &Mismatch{Step: i, Kind: "ryw", Key: o.K, Msg: fmt.Sprintf("tx SeekToLast: invalid, the greatest live key is %s", brief([]byte(wantK))), Ctx: "tx-last"}, nil
					}
				case it.IsTombstone():
					if have && bytes.Compare(it.Key(), []byte(wantK)) < 0 {
						_ = tx.Rollback()
						return &Mismatch{Step: i, Kind: "ryw", Key: o.K, Msg: fmt.Sprintf("tx SeekToLast: deletion marker %s below the greatest live key %s", brief(it.Key()), brief([]byte(wantK))), Ctx: "tx-last"}, nil
					}
				default:
					gv := it.Value()
					if gv == nil {
						gv = []byte{}
					}
					if !have || !bytes.Equal(it.Key(), []byte(wantK)) || !bytes.Equal(gv, wantV) {
						_ = tx.Rollback()
						return &Mismatch{Step: i, Kind: "ryw", Key: o.K, Msg: fmt.Sprintf("tx SeekToLast: live entry %s = %s, want %s = %s (found=%v)", brief(it.Key()), brief(gv), brief([]byte(wantK)), brief(wantV), have), Ctx: "tx-last"}, nil
					}
				}
				if it.Valid() {
					// nothing lies behind the last entry
					at := append([]byte{}, it.Key()...)
					it.Next()
					if it.Valid() {
						_ = tx.Rollback()
						return &Mismatch{Step: i, Kind: "ryw", Key: o.K, Msg: fmt.Sprintf("tx SeekToLast landed on %s, Next then yields %s instead of ending", brief(at), brief(it.Key())), Ctx: "tx-last-next"}, nil
					}
				}
			case "get":
				got, err := tx.Get(k)
				if err != nil && !IsNotFound(err) {
					_ = tx.Rollback()
					return &Mismatch{Step: i, Kind: "error", Key: o.K, Msg: "tx get: " + err.Error(), Ctx: "tx"}, nil
				}
				var want []byte
				wantFound := false
				if v, ok := overlay[string(k)]; ok {
					want, wantFound = v, true
				} else if !deleted[string(k)] {
					want, wantFound = r.Model[string(k)]
				}
				if (err == nil) != wantFound || (err == nil && !bytes.Equal(got, want)) {
					_ = tx.Rollback()
					return &Mismatch{Step: i, Kind: "ryw", Key: o.K,
						Msg: fmt.Sprintf("tx get: found=%v %s want found=%v %s", err == nil, brief(got), wantFound, brief(want)), Ctx: "tx"}, nil
				}
			}
		}
		if s.Commit {
			if err := tx.Commit(); err != nil {
				r.WriteErrors++
				return nil, fmt.Errorf("%w: commit: %v", ErrWrite, err)
			}
		} else {
			if err := tx.Rollback(); err != nil {
				return &Mismatch{Step: i, Kind: "error", Key: -1, Msg: "rollback: " + err.Error(), Ctx: "tx"}, nil
			}
		}
	case "flush":
		if err := r.Eng.FlushImMemTables(); err != nil {
			r.MaintErrors++
		}
		r.LastMaint = "flush"
	case "compact":
		if err := r.Eng.TriggerCompaction(); err != nil {
			r.MaintErrors++
		}
		r.LastMaint = "compact"
	case "crange":
		var a, b []byte
		if s.A >= 0 {
			a = p.Keys[s.A]
		}
		if s.B >= 0 {
			b = p.Keys[s.B]
		}
		if err := r.Eng.CompactRange(a, b); err != nil {
			r.MaintErrors++
		}
		r.LastMaint = "crange"
	case "retire":
		// make every write durable in SSTables, then drop the flushed log files
		// with the repository's own retention code
		if err := Retire(r.Eng, r.Dir); err != nil {
			if errors.Is(err, ErrRetireRaced) {
				return nil, err
			}
			r.MaintErrors++
		}
		r.LastMaint = "retire"
	case "reopen":
		if !r.NoQuiesce {
			Quiesce(r.Eng)
		}
		if err := r.Eng.Close(); err != nil {
			r.MaintErrors++
		}
		r.Eng = nil
		e, err := engine.NewEngineFacade(r.Dir)
		if err != nil {
			return &Mismatch{Step: i, Kind: "open-error", Key: -1, Msg: err.Error(), Ctx: "reopen"}, nil
		}
		r.Eng = e
		r.LastMaint = "reopen"
	default:
		return nil, fmt.Errorf("unknown op %q", s.Op)
	}
	if s.IsWrite() {
		r.Model.Apply(p, s)
		r.rememberStep(s)
		if r.AfterWrite != nil {
			r.AfterWrite(i)
		}
	}
	if !r.NoQuiesce && r.Eng != nil {
		if !Quiesce(r.Eng) {
			r.QuiesceMisses++
		}
	}
	return nil, nil
}

package drive

import (
	"bytes"
	"encoding/json"
	"fmt"
	"os"
	"os/exec"
	"sort"
	"strings"
	"sync"

	"github.com/KevoDB/kevo/pkg/engine"
	"github.com/KevoDB/kevo/pkg/verifhook"
)

// ChildSpec tells a child process what to execute and where to die.
type ChildSpec struct {
	Dir       string   `json:"dir"`
	Program   *Program `json:"program"`
	From      int      `json:"from"` // steps [From,To) are executed
	To        int      `json:"to"`
	Profile   bool     `json:"profile"`    // count hook hits, no crash
	CrashSite string   `json:"crash_site"` // die at the CrashN-th hit of this site
	CrashN    int      `json:"crash_n"`
	AckFile   string   `json:"ack_file"`    // one line per acknowledged write step
	ProfOut   string   `json:"profile_out"` // hook hit counts (profile mode)
	NoClose   bool     `json:"no_close"`    // exit without closing the engine at the end
	SnapOut   string   `json:"snap_out"`    // when set: observe the state right after open and write it here
	EndSnap   string   `json:"end_snap"`    // when set: observe the state after the last step, before a clean close, and write it here
}

// ChildExitCrash is the exit status of a child that died at its crash point.
const ChildExitCrash = 77

// ChildMain is called from TestChild in the re-executed test binary.
// It never returns normally when the crash point is reached.
func ChildMain(specPath string) error {
	b, err := os.ReadFile(specPath)
	if err != nil {
		return err
	}
	var spec ChildSpec
	if err := json.Unmarshal(b, &spec); err != nil {
		return err
	}
	var mu sync.Mutex
	counts := map[string]int{}
	verifhook.Set(func(site string) {
		mu.Lock()
		counts[site]++
		n := counts[site]
		mu.Unlock()
		if !spec.Profile && site == spec.CrashSite && n == spec.CrashN {
			os.Exit(ChildExitCrash)
		}
	})
	ack, err := os.OpenFile(spec.AckFile, os.O_CREATE|os.O_WRONLY|os.O_APPEND, 0o644)
	if err != nil {
		return err
	}
	r, mm := NewRunner(spec.Dir, spec.Program)
	if mm != nil {
		return fmt.Errorf("child open: %v", mm)
	}
	if spec.SnapOut != "" {
		// hooks are live: a crash point inside this observation is a crash point like any other
		snap := Observe(r.Eng, spec.Program)
		if err := SaveSnapshot(spec.SnapOut, snap); err != nil {
			return err
		}
	}
	r.AfterWrite = func(i int) {
		// plain write(2), no buffering: survives process death
		seq := uint64(0)
		if v, ok := r.Eng.GetStats()["storage_last_sequence"].(uint64); ok {
			seq = v
		}
		_, _ = ack.Write([]byte(fmt.Sprintf("%d %d\n", i, seq)))
	}
	for i := spec.From; i < spec.To; i++ {
		mm, err := r.Do(i)
		if mm != nil {
			return fmt.Errorf("child step %d: %v", i, mm)
		}
		if err != nil {
			// a write that reports an error: stop issuing (the parent sees it in the ack file)
			_, _ = ack.Write([]byte(fmt.Sprintf("E%d %s\n", i, strings.ReplaceAll(err.Error(), "\n", " "))))
			break
		}
	}
	if spec.NoClose {
		os.Exit(0)
	}
	Quiesce(r.Eng)
	if spec.EndSnap != "" && !spec.Profile {
		// what a client of THIS process sees after its last write (hooks are live:
		// a crash point inside the observation is a crash point like any other)
		if err := SaveSnapshot(spec.EndSnap, Observe(r.Eng, spec.Program)); err != nil {
			return err
		}
	}
	r.Close()
	verifhook.Reset()
	if spec.Profile && spec.ProfOut != "" {
		mu.Lock()
		pb, _ := json.Marshal(counts)
		mu.Unlock()
		if err := os.WriteFile(spec.ProfOut, pb, 0o644); err != nil {
			return err
		}
	}
	return nil
}

// ChildResult is what the parent learns from one child run.
type ChildResult struct {
	ExitCode   int
	Crashed    bool
	Acked      []int    // indexes of acknowledged write steps, in order
	AckedSeq   []uint64 // storage_last_sequence reported right after each acknowledged write
	WriteError string   // first write error reported by the child, if any
	ErrStep    int
	Stderr     string
	Profile    map[string]int
}

// RunChild re-executes the test binary as a crash child. scratch is a
// directory for the spec/ack/profile files.
func RunChild(spec ChildSpec, scratch string, tag string) (*ChildResult, error) {
	spec.AckFile = fmt.Sprintf("%s/ack-%s", scratch, tag)
	spec.ProfOut = fmt.Sprintf("%s/prof-%s", scratch, tag)
	_ = os.Remove(spec.AckFile)
	_ = os.Remove(spec.ProfOut)
	sp := fmt.Sprintf("%s/spec-%s.json", scratch, tag)
	b, err := json.Marshal(&spec)
	if err != nil {
		return nil, err
	}
	if err := os.WriteFile(sp, b, 0o644); err != nil {
		return nil, err
	}
	cmd := exec.Command(os.Args[0], "-test.run", "^TestChild$", "-test.timeout", "120s")
	cmd.Env = append(os.Environ(), "VERIF_CHILD_SPEC="+sp)
	var stderr bytes.Buffer
	cmd.Stderr = &stderr
	cmd.Stdout = nil
	err = cmd.Run()
	res := &ChildResult{ErrStep: -1}
	if err != nil {
		if ee, ok := err.(*exec.ExitError); ok {
			res.ExitCode = ee.ExitCode()
		} else {
			return nil, err
		}
	}
	res.Crashed = res.ExitCode == ChildExitCrash
	res.Stderr = stderr.String()
	if ab, err := os.ReadFile(spec.AckFile); err == nil {
		for _, ln := range strings.Split(string(ab), "\n") {
			if ln == "" {
				continue
			}
			if ln[0] == 'E' {
				var st int
				fmt.Sscanf(ln[1:], "%d", &st)
				if res.WriteError == "" {
					res.WriteError = ln
					res.ErrStep = st
				}
				continue
			}
			var st int
			var sq uint64
			if n, _ := fmt.Sscanf(ln, "%d %d", &st, &sq); n >= 1 {
				res.Acked = append(res.Acked, st)
				res.AckedSeq = append(res.AckedSeq, sq)
			}
		}
	}
	if pb, err := os.ReadFile(spec.ProfOut); err == nil {
		_ = json.Unmarshal(pb, &res.Profile)
	}
	if res.ExitCode != 0 && !res.Crashed {
		return res, fmt.Errorf("child failed: exit %d: %s", res.ExitCode, tail(res.Stderr, 1500))
	}
	return res, nil
}

func tail(s string, n int) string {
	if len(s) <= n {
		return s
	}
	return s[len(s)-n:]
}

// CrashPoint is one (site, n-th hit) pair.
type CrashPoint struct {
	Site string `json:"site"`
	N    int    `json:"n"`
}

// AllCrashPoints lists every (site, n) of a profile in a stable order.
func AllCrashPoints(profile map[string]int) []CrashPoint {
	sites := make([]string, 0, len(profile))
	for s := range profile {
		sites = append(sites, s)
	}
	sort.Strings(sites)
	var out []CrashPoint
	for _, s := range sites {
		for n := 1; n <= profile[s]; n++ {
			out = append(out, CrashPoint{s, n})
		}
	}
	return out
}

// Snapshot is the observable state of an engine: Get of every pool key plus
// a full scan (tombstones skipped, the way the service consumes iterators).
type Snapshot struct {
	Gets map[string][]byte // found keys only
	Scan []KV
	Err  string
}

// KV is one scan result.
type KV struct {
	K, V []byte
}

// Observe reads the whole observable state.
func Observe(e *engine.EngineFacade, p *Program) *Snapshot {
	s := &Snapshot{Gets: map[string][]byte{}}
	for _, k := range p.Keys {
		v, err := e.Get(k)
		if err != nil {
			if !IsNotFound(err) {
				s.Err = "Get: " + err.Error()
				return s
			}
			continue
		}
		s.Gets[string(k)] = nonNil(v)
	}
	it, err := e.GetIterator()
	if err != nil {
		s.Err = "GetIterator: " + err.Error()
		return s
	}
	n := 0
	for it.SeekToFirst(); it.Valid(); it.Next() {
		if !it.IsTombstone() {
			s.Scan = append(s.Scan, KV{append([]byte{}, it.Key()...), nonNil(append([]byte{}, it.Value()...))})
		}
		n++
		if n > 100000 {
			s.Err = "scan does not terminate"
			return s
		}
	}
	return s
}

// EqualModel compares a snapshot with a model state; "" = equal.
func (s *Snapshot) EqualModel(m Model, p *Program) string {
	if s.Err != "" {
		return s.Err
	}
	for _, k := range p.Keys {
		got, gf := s.Gets[string(k)]
		want, wf := m[string(k)]
		if gf != wf || (gf && !bytes.Equal(got, want)) {
			return fmt.Sprintf("get %q: found=%v %s want found=%v %s", trunc(k), gf, brief(got), wf, brief(want))
		}
	}
	keys := m.SortedKeys()
	if len(keys) != len(s.Scan) {
		return fmt.Sprintf("scan yields %d live keys, model has %d", len(s.Scan), len(keys))
	}
	for i, k := range keys {
		if string(s.Scan[i].K) != k {
			return fmt.Sprintf("scan position %d: key %q want %q", i, trunc(s.Scan[i].K), trunc([]byte(k)))
		}
		if !bytes.Equal(s.Scan[i].V, m[k]) {
			return fmt.Sprintf("scan key %q: value %s want %s", trunc([]byte(k)), brief(s.Scan[i].V), brief(m[k]))
		}
	}
	return ""
}

func trunc(b []byte) []byte {
	if len(b) > 16 {
		return b[:16]
	}
	return b
}

type snapDoc struct {
	Gets map[string][]byte `json:"gets"` // hex(key) -> value
	Scan []KV              `json:"scan"`
	Err  string            `json:"err"`
}

// SaveSnapshot writes a snapshot as JSON (atomically: temp file + rename).
func SaveSnapshot(path string, s *Snapshot) error {
	d := snapDoc{Gets: map[string][]byte{}, Scan: s.Scan, Err: s.Err}
	for k, v := range s.Gets {
		d.Gets[fmt.Sprintf("%x", k)] = v
	}
	b, err := json.Marshal(&d)
	if err != nil {
		return err
	}
	if err := os.WriteFile(path+".tmp", b, 0o644); err != nil {
		return err
	}
	return os.Rename(path+".tmp", path)
}

// LoadSnapshot reads a snapshot written by SaveSnapshot.
func LoadSnapshot(path string) (*Snapshot, error) {
	b, err := os.ReadFile(path)
	if err != nil {
		return nil, err
	}
	var d snapDoc
	if err := json.Unmarshal(b, &d); err != nil {
		return nil, err
	}
	s := &Snapshot{Gets: map[string][]byte{}, Scan: d.Scan, Err: d.Err}
	for hk, v := range d.Gets {
		var k []byte
		if _, err := fmt.Sscanf(hk, "%x", &k); err != nil && hk != "" {
			return nil, err
		}
		if v == nil {
			v = []byte{}
		}
		s.Gets[string(k)] = v
	}
	for i := range s.Scan {
		if s.Scan[i].V == nil {
			s.Scan[i].V = []byte{}
		}
	}
	return s, nil
}

// Package drive holds the operation-program value type shared by the engine
// level checks, its deterministic value encoding, the reference KV model and
// the interpreter that runs a program against a real engine.
package drive

import (
	"encoding/binary"
	"fmt"
	"sort"
)

// Cfg is the part of the engine configuration that programs vary.
type Cfg struct {
	MemTableSize int64 `json:"memtable_size"`
	MaxMemTables int   `json:"max_memtables"`
	SyncMode     int   `json:"sync_mode"` // 0 none, 1 batch, 2 immediate
	SyncBytes    int64 `json:"sync_bytes"`
	// NoQuiesce is for the harness, not the engine: the runner does not wait for
	// the background flush goroutine between steps, so flushes run while the
	// client goes on writing and reading
	NoQuiesce bool `json:"no_quiesce,omitempty"`
}

// Val describes a value without carrying its bytes: the content is a pure
// function of (Tag, Len). Nil means a nil slice (Len must be 0).
type Val struct {
	Len int    `json:"len"`
	Tag uint32 `json:"tag"`
	Nil bool   `json:"nil,omitempty"`
}

// Bytes renders the value. The first bytes carry the tag so a read identifies
// which write it returns.
func (v Val) Bytes() []byte {
	if v.Nil {
		return nil
	}
	b := make([]byte, v.Len)
	var hdr [4]byte
	binary.LittleEndian.PutUint32(hdr[:], v.Tag) // low byte first: even 1-byte values differ between writes
	for i := range b {
		if i < 4 {
			b[i] = hdr[i]
		} else {
			b[i] = byte(uint32(i)*2654435761>>24) ^ hdr[0] ^ hdr[1]
		}
	}
	return b
}

// TxOp is one operation inside a transaction or batch.
type TxOp struct {
	Op string `json:"op"` // put | del | get
	K  int    `json:"k"`
	V  *Val   `json:"v,omitempty"`
}

// Step is one operation of a program.
type Step struct {
	Op     string `json:"op"` // put del tx batch flush compact crange reopen retire
	K      int    `json:"k,omitempty"`
	V      *Val   `json:"v,omitempty"`
	Tx     []TxOp `json:"tx,omitempty"`
	Commit bool   `json:"commit,omitempty"`
	A      int    `json:"a,omitempty"` // crange bounds: key index, -1 = nil
	B      int    `json:"b,omitempty"`
}

// Program is a complete case: configuration, key pool and steps.
type Program struct {
	Cfg   Cfg      `json:"cfg"`
	Keys  [][]byte `json:"keys"`
	Steps []Step   `json:"steps"`
}

// IsWrite reports whether the step is a write operation of the history (one
// prefix state per write operation; a transaction or batch is one operation).
func (s Step) IsWrite() bool {
	switch s.Op {
	case "put", "del", "batch":
		return true
	case "tx":
		if !s.Commit {
			return false
		}
		for _, o := range s.Tx {
			if o.Op != "get" && o.Op != "last" {
				return true
			}
		}
	}
	return false
}

// Model is the reference: key -> value bytes (present) ; absent = not found.
type Model map[string][]byte

// Clone copies the model.
func (m Model) Clone() Model {
	c := make(Model, len(m))
	for k, v := range m {
		c[k] = v
	}
	return c
}

// Apply applies a write step to the model.
func (m Model) Apply(p *Program, s Step) {
	switch s.Op {
	case "put":
		m[string(p.Keys[s.K])] = nonNil(s.V.Bytes())
	case "del":
		delete(m, string(p.Keys[s.K]))
	case "batch":
		for _, o := range s.Tx {
			m.applyOp(p, o)
		}
	case "tx":
		if s.Commit {
			for _, o := range s.Tx {
				m.applyOp(p, o)
			}
		}
	}
}

func (m Model) applyOp(p *Program, o TxOp) {
	switch o.Op {
	case "put":
		m[string(p.Keys[o.K])] = nonNil(o.V.Bytes())
	case "del":
		delete(m, string(p.Keys[o.K]))
	}
}

func nonNil(b []byte) []byte {
	if b == nil {
		return []byte{}
	}
	return b
}

// SortedKeys returns the live keys in ascending byte order.
func (m Model) SortedKeys() []string {
	ks := make([]string, 0, len(m))
	for k := range m {
		ks = append(ks, k)
	}
	sort.Strings(ks)
	return ks
}

// PrefixStates returns S0..Sn, one state per write operation of the program.
func PrefixStates(p *Program) []Model {
	cur := Model{}
	out := []Model{cur.Clone()}
	for _, s := range p.Steps {
		if s.IsWrite() {
			cur.Apply(p, s)
			out = append(out, cur.Clone())
		}
	}
	return out
}

// Describe renders a short human readable form of a step.
func (s Step) Describe(p *Program) string {
	switch s.Op {
	case "put":
		return fmt.Sprintf("put k%d len=%d tag=%d nil=%v", s.K, s.V.Len, s.V.Tag, s.V.Nil)
	case "del":
		return fmt.Sprintf("del k%d", s.K)
	case "tx", "batch":
		return fmt.Sprintf("%s n=%d commit=%v", s.Op, len(s.Tx), s.Commit)
	case "crange":
		return fmt.Sprintf("crange a=%d b=%d", s.A, s.B)
	}
	return s.Op
}

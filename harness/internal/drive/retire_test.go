//go:build verif

package drive

import (
	"os"
	"path/filepath"
	"sort"
	"testing"
)

// TestRetireRepairsUnlinkedLiveLog simulates the overlap Retire guards against
// (the live log file unlinked by the harness's own retention call) and checks
// that the repair leaves a live log that exists and that nothing is lost.
func TestRetireRepairsUnlinkedLiveLog(t *testing.T) {
	dir := t.TempDir()
	e, err := Open(dir, Cfg{MemTableSize: 1 << 20, MaxMemTables: 4, SyncMode: 2})
	if err != nil {
		t.Fatal(err)
	}
	if err := e.Put([]byte("a"), []byte("1")); err != nil {
		t.Fatal(err)
	}
	if unlinkedLogOpen(dir) {
		t.Fatal("unlinked log reported on a fresh database")
	}
	files, _ := filepath.Glob(filepath.Join(dir, "wal", "*.wal"))
	sort.Strings(files)
	if len(files) == 0 {
		t.Fatal("no log file")
	}
	if err := e.FlushImMemTables(); err != nil { // "a" is in an SSTable now
		t.Fatal(err)
	}
	files, _ = filepath.Glob(filepath.Join(dir, "wal", "*.wal"))
	sort.Strings(files)
	if err := os.Remove(files[len(files)-1]); err != nil { // the live one
		t.Fatal(err)
	}
	if !unlinkedLogOpen(dir) {
		t.Fatal("unlinked live log not detected")
	}
	before := RetireRepairs.Load()
	if err := settleLog(e, dir); err != nil {
		t.Fatal(err)
	}
	if RetireRepairs.Load() == before {
		t.Fatal("no repair counted")
	}
	if unlinkedLogOpen(dir) {
		t.Fatal("still writing to an unlinked log after settleLog")
	}
	if err := e.Put([]byte("b"), []byte("2")); err != nil {
		t.Fatal(err)
	}
	if err := e.Close(); err != nil {
		t.Fatal(err)
	}
	e, err = Open(dir, Cfg{MemTableSize: 1 << 20, MaxMemTables: 4, SyncMode: 2})
	if err != nil {
		t.Fatal(err)
	}
	defer e.Close()
	for k, want := range map[string]string{"a": "1", "b": "2"} {
		got, err := e.Get([]byte(k))
		if err != nil || string(got) != want {
			t.Fatalf("key %s: %q %v", k, got, err)
		}
	}
}

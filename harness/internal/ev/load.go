package ev

import (
	"os"
	"runtime"
	"strconv"
	"strings"
)

// LoadFactor is how much longer than on an idle machine a wall-clock bound
// should be right now: the 1-minute load average divided by the number of
// CPUs, clamped to [1, 6]. On a machine that runs one check at a time (16
// shards on 16 cores) it is 1 to 1.5; it only grows when the machine is
// oversubscribed several times, where "did not return within 10 s" says
// something about the scheduler and not about the code. Checks multiply their
// progress bounds with it and print it in the verdict.
func LoadFactor() float64 {
	b, err := os.ReadFile("/proc/loadavg")
	if err != nil {
		return 1
	}
	f := strings.Fields(string(b))
	if len(f) == 0 {
		return 1
	}
	l, err := strconv.ParseFloat(f[0], 64)
	if err != nil {
		return 1
	}
	x := l / float64(runtime.NumCPU())
	if x < 1 {
		return 1
	}
	if x > 6 {
		return 6
	}
	return x
}

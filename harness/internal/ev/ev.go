// Package ev collects per-process evidence (case counts, non-trivial hashes,
// class histogram, samples, failures) and writes it as a partial JSON file
// that the python driver merges into evidence/<ID>.json.
package ev

import (
	"encoding/json"
	"fmt"
	"hash/fnv"
	"os"
	"path/filepath"
	"sort"
	"strconv"
	"sync"
	"time"
)

// Failure is one failing case reported by a check.
type Failure struct {
	Signature string `json:"signature"`
	Message   string `json:"message"`
	Replay    string `json:"replay"`
	Size      int    `json:"size"`
}

// Partial is what one process contributes.
type Partial struct {
	Property    string            `json:"property"`
	Rule        string            `json:"rule"`
	Evaluations int               `json:"evaluations"`
	Nontrivial  []string          `json:"nontrivial_hashes"`
	Classes     map[string]int    `json:"classes"`
	Excluded    map[string]int    `json:"excluded_by_known_finding"`
	Samples     []json.RawMessage `json:"samples"`
	Failures    []Failure         `json:"failures"`
	Extra       map[string]int    `json:"extra"`
	Exhaustive  bool              `json:"exhaustive"`
	WallS       float64           `json:"wall_s"`
	Completed   bool              `json:"completed"`
	Notes       []string          `json:"notes"`
}

// Recorder accumulates evidence for one process.
type Recorder struct {
	mu       sync.Mutex
	p        Partial
	nt       map[uint64]struct{}
	start    time.Time
	outDir   string
	shard    string
	maxSamp  int
	failBest map[string]int // signature -> index in p.Failures
}

var global *Recorder

// Init creates the global recorder. outDir and shard come from the driver
// (VERIF_OUT, VERIF_SHARD); both default to something usable by hand.
func Init(property, rule string) *Recorder {
	out := os.Getenv("VERIF_OUT")
	if out == "" {
		out = filepath.Join(os.TempDir(), "verif-out-"+property)
	}
	_ = os.MkdirAll(out, 0o755)
	shard := os.Getenv("VERIF_SHARD")
	if shard == "" {
		shard = "0"
	}
	if os.Getenv("VERIF_FUZZ") != "" {
		// native fuzzing runs one coordinator and several worker processes from
		// the same binary: give each its own partial file
		shard = fmt.Sprintf("%s-fuzz%d", shard, os.Getpid())
	}
	global = &Recorder{
		p: Partial{Property: property, Rule: rule, Classes: map[string]int{},
			Excluded: map[string]int{}, Extra: map[string]int{}},
		nt: map[uint64]struct{}{}, start: time.Now(), outDir: out, shard: shard,
		maxSamp: 4, failBest: map[string]int{},
	}
	return global
}

// R returns the global recorder.
func R() *Recorder { return global }

// OutDir returns the directory for this run's artefacts.
func (r *Recorder) OutDir() string { return r.outDir }

// Shard returns the shard label of this process.
func (r *Recorder) Shard() string { return r.shard }

// Hash returns FNV-64a of the canonical JSON encoding of v.
func Hash(v any) uint64 {
	b, err := json.Marshal(v)
	if err != nil {
		panic(err)
	}
	h := fnv.New64a()
	h.Write(b)
	return h.Sum64()
}

// HashBytes returns FNV-64a of b.
func HashBytes(b []byte) uint64 {
	h := fnv.New64a()
	h.Write(b)
	return h.Sum64()
}

// Case records one evaluated case. hash identifies the generated input;
// nontrivial is decided by the check's stated rule; classes are labels counted
// in the histogram; sample (may be nil) is rendered only while samples are
// still wanted.
func (r *Recorder) Case(hash uint64, nontrivial bool, classes []string, sample func() any) {
	r.mu.Lock()
	defer r.mu.Unlock()
	r.p.Evaluations++
	if r.p.Evaluations%1000 == 0 && os.Getenv("VERIF_FUZZ") != "" {
		// fuzz workers are stopped by the coordinator without running TestMain's epilogue
		defer r.flushLocked(true)
	}
	for _, c := range classes {
		r.p.Classes[c]++
	}
	if nontrivial {
		if _, ok := r.nt[hash]; !ok {
			r.nt[hash] = struct{}{}
			if sample != nil && len(r.p.Samples) < r.maxSamp {
				if b, err := json.Marshal(sample()); err == nil {
					if len(b) > 6000 {
						b, _ = json.Marshal(map[string]any{"truncated_sample_prefix": string(b[:6000])})
					}
					r.p.Samples = append(r.p.Samples, b)
				}
			}
		}
	}
}

// Count adds n to a free-form counter reported under coverage.extra.
func (r *Recorder) Count(name string, n int) {
	r.mu.Lock()
	r.p.Extra[name] += n
	r.mu.Unlock()
}

// Exclude counts one generator draw redirected because of a known finding.
func (r *Recorder) Exclude(flag string) {
	r.mu.Lock()
	r.p.Excluded[flag]++
	r.mu.Unlock()
}

// Note adds a free-text note.
func (r *Recorder) Note(s string) {
	r.mu.Lock()
	if len(r.p.Notes) < 20 {
		r.p.Notes = append(r.p.Notes, s)
	}
	r.mu.Unlock()
}

// SetExhaustive marks the explored sub-space as fully enumerated.
func (r *Recorder) SetExhaustive(b bool) { r.mu.Lock(); r.p.Exhaustive = b; r.mu.Unlock() }

// Fail records a failing case. The replay document is written to
// <out>/fail-<shard>-<sighash>.json; for one signature the smallest document
// seen so far is kept (rapid's shrinking re-runs the property many times, the
// minimal case is the one that survives). It returns the replay path.
func (r *Recorder) Fail(signature, message string, replay any) string {
	b, err := json.MarshalIndent(replay, "", " ")
	if err != nil {
		b = []byte(fmt.Sprintf("{\"marshal_error\":%q}", err.Error()))
	}
	r.mu.Lock()
	defer r.mu.Unlock()
	name := fmt.Sprintf("fail-%s-%016x.json", r.shard, HashBytes([]byte(signature)))
	path := filepath.Join(r.outDir, name)
	if i, ok := r.failBest[signature]; ok {
		if len(b) <= r.p.Failures[i].Size {
			_ = os.WriteFile(path, b, 0o644)
			r.p.Failures[i].Size = len(b)
			r.p.Failures[i].Message = message
		}
		r.flushLocked(false)
		return path
	}
	_ = os.WriteFile(path, b, 0o644)
	r.failBest[signature] = len(r.p.Failures)
	r.p.Failures = append(r.p.Failures, Failure{Signature: signature, Message: message, Replay: path, Size: len(b)})
	r.flushLocked(false)
	return path
}

// Flush writes the partial file; completed marks a normal end of the process.
func (r *Recorder) Flush(completed bool) {
	r.mu.Lock()
	defer r.mu.Unlock()
	r.flushLocked(completed)
}

func (r *Recorder) flushLocked(completed bool) {
	r.p.Completed = completed
	r.p.WallS = time.Since(r.start).Seconds()
	r.p.Nontrivial = r.p.Nontrivial[:0]
	for h := range r.nt {
		r.p.Nontrivial = append(r.p.Nontrivial, strconv.FormatUint(h, 16))
	}
	sort.Strings(r.p.Nontrivial)
	b, _ := json.Marshal(&r.p)
	tmp := filepath.Join(r.outDir, "part-"+r.shard+".json.tmp")
	_ = os.WriteFile(tmp, b, 0o644)
	_ = os.Rename(tmp, filepath.Join(r.outDir, "part-"+r.shard+".json"))
}

// Tier returns "quick" or "thorough".
func Tier() string {
	if os.Getenv("VERIF_TIER") == "thorough" {
		return "thorough"
	}
	return "quick"
}

// Flag reports whether a generator feature flag is on. Flags default to on;
// the driver switches off the flags named by open known findings through
// VERIF_OFF (comma separated).
func Flag(name string) bool {
	off := os.Getenv("VERIF_OFF")
	for len(off) > 0 {
		i := 0
		for i < len(off) && off[i] != ',' {
			i++
		}
		if off[:i] == name {
			return false
		}
		if i == len(off) {
			break
		}
		off = off[i+1:]
	}
	return true
}

// ReplayResult is written by TestReplay so the driver can read the outcome.
type ReplayResult struct {
	File      string `json:"file"`
	Outcome   string `json:"outcome"` // "pass" | "fail"
	Signature string `json:"signature,omitempty"`
	Message   string `json:"message,omitempty"`
}

// WriteReplayResult writes the outcome of a replay to VERIF_REPLAY_RESULT.
func WriteReplayResult(res ReplayResult) {
	p := os.Getenv("VERIF_REPLAY_RESULT")
	if p == "" {
		return
	}
	b, _ := json.Marshal(res)
	_ = os.WriteFile(p, b, 0o644)
}

// Silence points os.Stdout at /dev/null (the repository prints a lot) and
// returns the original stdout.
func Silence() *os.File {
	orig := os.Stdout
	if os.Getenv("VERIF_VERBOSE") != "" {
		return orig
	}
	if f, err := os.OpenFile(os.DevNull, os.O_WRONLY, 0); err == nil {
		os.Stdout = f
	}
	return orig
}

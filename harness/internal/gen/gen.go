// Package gen holds the rapid generators shared by the engine-level checks.
// Every random choice is a rapid draw.
package gen

import (
	"bytes"
	"fmt"
	"sort"

	"pgregory.net/rapid"

	"verif/internal/drive"
	"verif/internal/ev"
)

// Keys draws a pool of n distinct keys in one of several shapes, inside the
// service's documented key limits (1..4096 bytes): usable for every API.
func Keys(t *rapid.T, minN, maxN int) [][]byte { return keys(t, minN, maxN, false) }

// KeysWide is Keys for the EMBEDDED API, which has no key limit of its own:
// one pool in six also holds the zero-length key, and the "huge" shape may
// hold one key longer than a physical log record.
func KeysWide(t *rapid.T, minN, maxN int) [][]byte { return keys(t, minN, maxN, true) }

func keys(t *rapid.T, minN, maxN int, wide bool) [][]byte {
	n := rapid.IntRange(minN, maxN).Draw(t, "nkeys")
	shape := rapid.SampledFrom([]string{"ascii", "ascii", "binary", "prefixchain", "longprefix", "adjacent", "huge", "composite"}).Draw(t, "keyshape")
	seen := map[string]bool{}
	var out [][]byte
	add := func(k []byte) {
		if len(k) == 0 || len(k) > 4096 || seen[string(k)] {
			return
		}
		seen[string(k)] = true
		out = append(out, k)
	}
	switch shape {
	case "ascii":
		for tries := 0; len(out) < n && tries < 10*n; tries++ {
			add([]byte(rapid.StringMatching(`[a-e]{1,3}`).Draw(t, "k")))
		}
	case "binary":
		alphabet := []byte{0x00, 0x01, 0x7f, 0x80, 0xfe, 0xff, 'a'}
		for tries := 0; len(out) < n && tries < 10*n; tries++ {
			l := rapid.IntRange(1, 4).Draw(t, "kl")
			k := make([]byte, l)
			for i := range k {
				k[i] = rapid.SampledFrom(alphabet).Draw(t, "kb")
			}
			add(k)
		}
	case "prefixchain":
		base := []byte(rapid.StringMatching(`[a-c]{1,2}`).Draw(t, "base"))
		add(base)
		for _, suf := range [][]byte{{0}, {0, 0}, {0xff}, {0, 0xff}, {'a'}, {0xff, 0xff}, {1}, {0, 1}} {
			if len(out) >= n {
				break
			}
			add(append(append([]byte{}, base...), suf...))
		}
		for tries := 0; len(out) < n && tries < 10*n; tries++ {
			add([]byte(rapid.StringMatching(`[a-c]{1,3}`).Draw(t, "k")))
		}
	case "longprefix":
		pl := rapid.SampledFrom([]int{200, 1000, 4000}).Draw(t, "plen")
		pre := bytes.Repeat([]byte{'p'}, pl)
		for tries := 0; len(out) < n && tries < 10*n; tries++ {
			add(append(append([]byte{}, pre...), []byte(rapid.StringMatching(`[a-d]{1,3}`).Draw(t, "tail"))...))
		}
	case "adjacent":
		// keys k, k+"\x00" style neighbours so that "between" targets exist
		for tries := 0; len(out) < n && tries < 10*n; tries++ {
			b := byte(rapid.IntRange('a', 'h').Draw(t, "c"))
			l := rapid.IntRange(1, 2).Draw(t, "l")
			add(bytes.Repeat([]byte{b}, l))
		}
	case "composite":
		// the varying field sits in the middle: shared head, field, shared tail
		head := []byte(rapid.StringMatching(`[a-c/]{0,10}`).Draw(t, "head"))
		tails := [][]byte{[]byte(rapid.StringMatching(`[/a-z]{1,14}`).Draw(t, "tail1")), []byte(rapid.StringMatching(`[/a-z]{1,14}`).Draw(t, "tail2"))}
		w := rapid.IntRange(1, 6).Draw(t, "fieldw")
		for tries := 0; len(out) < n && tries < 10*n; tries++ {
			f := []byte(fmt.Sprintf("%0*d", w, rapid.IntRange(0, 999999).Draw(t, "field")))
			add(append(append(append([]byte{}, head...), f[len(f)-w:]...), tails[rapid.IntRange(0, 1).Draw(t, "tailpick")]...))
		}
	case "huge":
		add(bytes.Repeat([]byte{'z'}, 4096))
		add(append(bytes.Repeat([]byte{'z'}, 4095), 'a'))
		if wide && rapid.Bool().Draw(t, "key_beyond_one_log_record") {
			// the embedded API has no key limit of its own (4096 is the service's):
			// the log lets a key span fragments, the table format stores key
			// lengths in 16 bits. One key longer than a physical log record.
			// around the largest key whose delete (13 + key bytes) or empty-valued put
			// (17 + key bytes) still fits ONE record of 32768 bytes, or well beyond it
			kl := rapid.OneOf(rapid.IntRange(32747, 32758), rapid.IntRange(32747, 32758), rapid.SampledFrom([]int{32769, 40000, 65000})).Draw(t, "longkeylen")
			k := bytes.Repeat([]byte{'y'}, kl)
			if !seen[string(k)] {
				seen[string(k)] = true
				out = append(out, k)
			}
		}
		for tries := 0; len(out) < n && tries < 10*n; tries++ {
			add([]byte(rapid.StringMatching(`[a-e]{1,3}`).Draw(t, "k")))
		}
	}
	for i := 0; len(out) < 2; i++ { // never fewer than two keys
		add([]byte{'q', byte('0' + i)})
	}
	// the zero-length key: the embedded API accepts it (put, get, delete, scan,
	// flush and reopen work with it on the unchanged tree), so it is an input
	if wide && rapid.IntRange(0, 5).Draw(t, "emptykey") == 0 && !seen[""] {
		seen[""] = true
		out = append(out, []byte{})
	}
	// a fixed order (sorted) makes index order = byte order, handy for bounds
	sort.Slice(out, func(i, j int) bool { return bytes.Compare(out[i], out[j]) < 0 })
	return out
}

// ValOpts steers the value length classes.
type ValOpts struct {
	Big      bool // allow 32 KiB+ classes
	Huge     bool // allow 1-10 MiB (thorough only, rare)
	MaxSmall int  // upper bound of the "small" class (default 64)
	KeyLen   int  // length of the key the value is written under (for exact record-boundary sizes)
}

// Value draws a value spec; tag must be unique per write within the case.
func Value(t *rapid.T, tag uint32, o ValOpts) *drive.Val {
	maxSmall := o.MaxSmall
	if maxSmall == 0 {
		maxSmall = 64
	}
	classes := []string{"small", "small", "small", "small", "small", "small", "medium", "medium", "empty"}
	if o.Big {
		classes = append(classes, "fragedge", "buf", "multi")
	}
	if o.Huge {
		classes = append(classes, "huge")
	}
	c := rapid.SampledFrom(classes).Draw(t, "vclass")
	switch c {
	case "empty":
		if !ev.Flag("empty_values") {
			ev.R().Exclude("empty_values")
			return &drive.Val{Len: rapid.IntRange(1, 8).Draw(t, "vlen"), Tag: tag}
		}
		if rapid.Bool().Draw(t, "vnil") {
			return &drive.Val{Len: 0, Tag: tag, Nil: true}
		}
		return &drive.Val{Len: 0, Tag: tag}
	case "small":
		return &drive.Val{Len: rapid.IntRange(1, maxSmall).Draw(t, "vlen"), Tag: tag}
	case "medium":
		return &drive.Val{Len: rapid.IntRange(200, 4000).Draw(t, "vlen"), Tag: tag}
	case "fragedge":
		// Exact physical-record boundaries of the log. An entry's payload is
		// 1+8+4+len(key)+4+len(value) bytes; up to MaxRecordSize (32768) it is one
		// record, above it the first fragment carries 13 bytes + the key and the
		// remainder (4 + len(value) for short keys) is cut into 32768-byte pieces.
		// Boundaries: payload == 32768 and remainder == k*32768, each +-2.
		d := rapid.IntRange(-2, 2).Draw(t, "vedge_d")
		if rapid.Bool().Draw(t, "vedge_single") {
			n := 32768 - 17 - o.KeyLen + d
			if n < 1 {
				n = 1
			}
			return &drive.Val{Len: n, Tag: tag}
		}
		k := rapid.IntRange(1, 3).Draw(t, "vedge_k")
		return &drive.Val{Len: k*32768 - 4 + d, Tag: tag}
	case "buf":
		return &drive.Val{Len: rapid.IntRange(32*1024, 70*1024).Draw(t, "vlen"), Tag: tag}
	case "multi":
		return &drive.Val{Len: rapid.IntRange(100*1024, 300*1024).Draw(t, "vlen"), Tag: tag}
	default:
		return &drive.Val{Len: rapid.IntRange(1<<20, 10<<20).Draw(t, "vlen"), Tag: tag}
	}
}

// Config draws an engine configuration that moves data between layers inside
// short programs.
func Config(t *rapid.T) drive.Cfg {
	return drive.Cfg{
		MemTableSize: rapid.SampledFrom([]int64{256, 256, 1024, 1024, 4096, 64 * 1024, 32 << 20}).Draw(t, "memtable"),
		MaxMemTables: rapid.SampledFrom([]int{1, 2, 4, 8}).Draw(t, "maxmem"),
		SyncMode:     rapid.IntRange(0, 2).Draw(t, "sync"),
		SyncBytes:    rapid.SampledFrom([]int64{1, 4096, 1 << 20}).Draw(t, "syncbytes"),
	}
}

// ProgOpts steers program generation.
type ProgOpts struct {
	MinSteps, MaxSteps int
	Weights            map[string]int // op -> weight; ops: put del tx batch flush compact crange reopen
	Val                ValOpts
	MaxTxOps           int
	TxGets             bool
}

// DefaultWeights is the C01-style mix.
func DefaultWeights() map[string]int {
	return map[string]int{"put": 10, "del": 4, "tx": 4, "batch": 2, "flush": 3, "compact": 1, "crange": 1, "reopen": 2, "retire": 1}
}

// Program draws a complete program.
func Program(t *rapid.T, o ProgOpts) drive.Program {
	p := drive.Program{Cfg: Config(t), Keys: KeysWide(t, 4, 16)}
	p.Steps = Steps(t, &p, o)
	return p
}

// Steps draws the step list for a program with a fixed key pool.
func Steps(t *rapid.T, p *drive.Program, o ProgOpts) []drive.Step {
	if o.MaxTxOps == 0 {
		o.MaxTxOps = 6
	}
	var ops []string
	names := make([]string, 0, len(o.Weights))
	for k := range o.Weights {
		names = append(names, k)
	}
	sort.Strings(names)
	for _, k := range names {
		for i := 0; i < o.Weights[k]; i++ {
			ops = append(ops, k)
		}
	}
	n := rapid.IntRange(o.MinSteps, o.MaxSteps).Draw(t, "nsteps")
	nk := len(p.Keys)
	tag := uint32(1)
	steps := make([]drive.Step, 0, n)
	// committed value per key at this point of the program (nil = absent): lets a
	// write put back EXACTLY the bytes the database already holds (toggle and
	// restore, undo), which unique tags alone never produce
	committed := map[int]*drive.Val{}
	for i := 0; i < n; i++ {
		op := rapid.SampledFrom(ops).Draw(t, "op")
		switch op {
		case "put":
			k := rapid.IntRange(0, nk-1).Draw(t, "k")
			vo := o.Val
			vo.KeyLen = len(p.Keys[k])
			v := Value(t, tag, vo)
			if cv := committed[k]; cv != nil && rapid.IntRange(0, 9).Draw(t, "sameval") == 0 {
				v = &drive.Val{Len: cv.Len, Tag: cv.Tag, Nil: cv.Nil}
			}
			steps = append(steps, drive.Step{Op: "put", K: k, V: v})
			committed[k] = v
			tag++
		case "del":
			k := rapid.IntRange(0, nk-1).Draw(t, "k")
			steps = append(steps, drive.Step{Op: "del", K: k})
			delete(committed, k)
		case "tx", "batch":
			// size 0 included: an empty batch / a transaction that commits nothing
			m := rapid.IntRange(0, o.MaxTxOps).Draw(t, "ntx")
			var body []drive.TxOp
			used := map[int]bool{}
			touchedInBody := map[int]bool{}
			for j := 0; j < m; j++ {
				k := rapid.IntRange(0, nk-1).Draw(t, "k")
				if op == "batch" && used[k] {
					continue // ApplyBatch: distinct keys
				}
				used[k] = true
				kinds := []string{"put", "put", "del"}
				if op == "tx" && o.TxGets {
					kinds = append(kinds, "get", "get", "last")
				}
				switch rapid.SampledFrom(kinds).Draw(t, "txop") {
				case "put":
					vo := o.Val
					if !ev.Flag("big_tx_records") {
						if vo.Big {
							ev.R().Exclude("big_tx_records")
						}
						vo.Big, vo.Huge = false, false
					}
					vo.KeyLen = len(p.Keys[k])
					v := Value(t, tag, vo)
					// a later operation of the body on a key the body already changed
					// often puts the committed value back
					if cv := committed[k]; cv != nil && touchedInBody[k] && rapid.IntRange(0, 2).Draw(t, "restore") == 0 {
						v = &drive.Val{Len: cv.Len, Tag: cv.Tag, Nil: cv.Nil}
					}
					touchedInBody[k] = true
					body = append(body, drive.TxOp{Op: "put", K: k, V: v})
					tag++
				case "del":
					touchedInBody[k] = true
					body = append(body, drive.TxOp{Op: "del", K: k})
				case "last":
					body = append(body, drive.TxOp{Op: "last", K: k})
				default:
					body = append(body, drive.TxOp{Op: "get", K: k})
				}
			}
			commit := true
			if op == "tx" {
				commit = rapid.IntRange(0, 4).Draw(t, "commit") != 0
			}
			steps = append(steps, drive.Step{Op: op, Tx: body, Commit: commit})
			if commit {
				for _, bo := range body {
					switch bo.Op {
					case "put":
						committed[bo.K] = bo.V
					case "del":
						delete(committed, bo.K)
					}
				}
			}
		case "crange":
			a := rapid.IntRange(-1, nk-1).Draw(t, "a")
			b := rapid.IntRange(-1, nk-1).Draw(t, "b")
			steps = append(steps, drive.Step{Op: "crange", A: a, B: b})
		default:
			steps = append(steps, drive.Step{Op: op})
		}
	}
	return steps
}

package gen

import (
	"pgregory.net/rapid"

	"verif/internal/drive"
)

// BufEdge draws a case in which the process dies while the log's 64 KiB
// user-space buffer has been written out exactly once: with buffered sync modes
// the file then ends at byte 65536 of the record stream, wherever that falls.
// The sizes are chosen so that it falls inside, right behind or a few bytes
// behind a record HEADER (7 bytes), the positions a generic program almost
// never produces. The rest of the program runs after the recovery, in one or
// two more process lifetimes.
func BufEdge(t *rapid.T) drive.CrashCase {
	p := drive.Program{}
	for _, k := range KeysWide(t, 3, 10) {
		if len(k) <= 4096 { // the byte arithmetic below assumes unfragmented records
			p.Keys = append(p.Keys, k)
		}
	}
	p.Cfg = drive.Cfg{MemTableSize: 32 << 20, MaxMemTables: 2,
		SyncMode:  rapid.IntRange(0, 1).Draw(t, "sync"),
		SyncBytes: 1 << 20}
	const bufSize = 64 * 1024
	nk := len(p.Keys)
	// two kinds of edge: (header) the record that follows the filler starts at
	// bufSize-7+d, so the buffer boundary falls inside / right behind its 7-byte
	// header; (fragment) that record is a fragmented put (value > 32 KiB) whose
	// FIRST fragment (7 + 13 + key bytes) ends at bufSize+d: the file then ends
	// exactly between two fragments of one entry
	fragEdge := rapid.IntRange(0, 2).Draw(t, "edge_fragment") == 0
	straddlerKey := rapid.IntRange(0, nk-1).Draw(t, "straddler_k")
	var d, target int
	if fragEdge {
		d = rapid.IntRange(-2, 2).Draw(t, "edge_fd")
		target = bufSize - (7 + 13 + len(p.Keys[straddlerKey])) + d
	} else {
		d = rapid.IntRange(-9, 9).Draw(t, "edge_d")
		target = bufSize - 7 + d
	}
	tag := uint32(1)
	sum := 0
	recPut := func(k, vlen int) int { return 7 + 1 + 8 + 4 + len(p.Keys[k]) + 4 + vlen }
	recDel := func(k int) int { return 7 + 1 + 8 + 4 + len(p.Keys[k]) }
	for {
		k := rapid.IntRange(0, nk-1).Draw(t, "k")
		if rapid.IntRange(0, 5).Draw(t, "del") == 0 {
			if sum+recDel(k)+recPut(0, 0)+200 > target {
				break
			}
			p.Steps = append(p.Steps, drive.Step{Op: "del", K: k})
			sum += recDel(k)
			continue
		}
		vlen := rapid.IntRange(1, 6000).Draw(t, "vlen")
		if sum+recPut(k, vlen)+recPut(0, 0)+200 > target {
			break
		}
		p.Steps = append(p.Steps, drive.Step{Op: "put", K: k, V: &drive.Val{Len: vlen, Tag: tag}})
		tag++
		sum += recPut(k, vlen)
	}
	// filler put: brings the stream to exactly target bytes
	fk := rapid.IntRange(0, nk-1).Draw(t, "fk")
	fill := target - sum - recPut(fk, 0)
	for fill < 0 { // cannot happen with the 200-byte reserve unless keys are huge
		fk = 0
		fill = target - sum - recPut(fk, 0)
		if fill < 0 {
			p.Steps = p.Steps[:len(p.Steps)-1]
			sum = 0
			for _, s := range p.Steps {
				if s.Op == "put" {
					sum += recPut(s.K, s.V.Len)
				} else {
					sum += recDel(s.K)
				}
			}
			fill = target - sum - recPut(fk, 0)
		}
	}
	p.Steps = append(p.Steps, drive.Step{Op: "put", K: fk, V: &drive.Val{Len: fill, Tag: tag}})
	tag++
	// the straddling record and 0-3 more small writes that stay in the buffer
	for i, n := 0, rapid.IntRange(1, 4).Draw(t, "after"); i < n; i++ {
		k := rapid.IntRange(0, nk-1).Draw(t, "ak")
		vl := rapid.IntRange(1, 300).Draw(t, "avlen")
		if i == 0 {
			k = straddlerKey
			if fragEdge {
				// one middle fragment and a short last one: no further buffer flush
				// happens during this put, the file keeps ending behind the first fragment
				vl = rapid.IntRange(33000, 60000).Draw(t, "fragvlen")
			}
		}
		p.Steps = append(p.Steps, drive.Step{Op: "put", K: k, V: &drive.Val{Len: vl, Tag: tag}})
		tag++
	}
	cut := len(p.Steps)
	// after the recovery: ordinary small writes
	for i, n := 0, rapid.IntRange(2, 12).Draw(t, "post"); i < n; i++ {
		k := rapid.IntRange(0, nk-1).Draw(t, "pk")
		if rapid.IntRange(0, 3).Draw(t, "pdel") == 0 {
			p.Steps = append(p.Steps, drive.Step{Op: "del", K: k})
		} else {
			p.Steps = append(p.Steps, drive.Step{Op: "put", K: k, V: &drive.Val{Len: rapid.IntRange(1, 300).Draw(t, "pvlen"), Tag: tag}})
			tag++
		}
	}
	rounds := []drive.CrashRound{{To: cut, Abandon: true}}
	if rapid.Bool().Draw(t, "clean_first") {
		// an earlier process lifetime that ended cleanly: its writes are durable
		// whatever the sync mode. The log buffer of the next lifetime starts empty,
		// so the byte arithmetic above is relative to that lifetime's first write:
		// the earlier lifetime gets steps of its own, put in front
		var pre []drive.Step
		for i, n := 0, rapid.IntRange(1, 6).Draw(t, "npre"); i < n; i++ {
			k := rapid.IntRange(0, nk-1).Draw(t, "prek")
			if rapid.IntRange(0, 4).Draw(t, "predel") == 0 {
				pre = append(pre, drive.Step{Op: "del", K: k})
			} else {
				pre = append(pre, drive.Step{Op: "put", K: k, V: &drive.Val{Len: rapid.IntRange(1, 400).Draw(t, "prevlen"), Tag: tag}})
				tag++
			}
		}
		p.Steps = append(pre, p.Steps...)
		cut += len(pre)
		rounds = []drive.CrashRound{{To: len(pre), Clean: true}, {To: cut, Abandon: true}}
	}
	if rapid.Bool().Draw(t, "three") {
		mid := rapid.IntRange(cut, len(p.Steps)).Draw(t, "mid")
		rounds = append(rounds, drive.CrashRound{To: mid, Clean: rapid.Bool().Draw(t, "clean2"), SelA: rapid.Uint32().Draw(t, "selA"), SelB: rapid.Uint32().Draw(t, "selB")})
	}
	rounds = append(rounds, drive.CrashRound{To: len(p.Steps), Clean: true})
	return drive.CrashCase{Program: p, Rounds: rounds, ChildVerifies: rapid.Bool().Draw(t, "childverifies")}
}

// Executor of C17 scenarios: runs inside a CHILD process (one per case), so a
// wedged engine or a fatal runtime error ("sync: Unlock of unlocked RWMutex")
// cannot take the generator process down and is itself an observation.
package c17

import (
	"bytes"
	"context"
	"errors"
	"fmt"
	"os"
	"reflect"
	"runtime"
	"sort"
	"strings"
	"sync"
	"sync/atomic"
	"time"
	"unsafe"

	"google.golang.org/grpc"

	"github.com/KevoDB/kevo/pkg/common/iterator"
	"github.com/KevoDB/kevo/pkg/engine"
	"github.com/KevoDB/kevo/pkg/engine/interfaces"
	"github.com/KevoDB/kevo/pkg/grpc/service"
	"github.com/KevoDB/kevo/pkg/transaction"
	"github.com/KevoDB/kevo/pkg/wal"
	pb "github.com/KevoDB/kevo/proto/kevo"
)

// The liveness bound of the property ("never blocked forever"): a begin that
// nothing legitimately stands in the way of must return within slowBound
// (normal latency: microseconds). fastBound is used only once there is
// time-independent evidence that a transaction nobody can reach any more is
// still active (then the wait can never succeed and is merely confirmed).
const (
	slowBound    = 5 * time.Second
	fastBound    = 1 * time.Second
	tickEvery    = 10 * time.Millisecond
	infraBound   = 60 * time.Second
	maxLateBegin = 3
	nKeys        = 3
	maxRetired   = 4
	probeKey     = "probe"
)

// The bounds are measured on a heartbeat: a goroutine of this process that
// sleeps 10 ms and counts. Time during which the whole process (or machine)
// stands still does not count, and 5 s on this clock means that the Go
// scheduler was demonstrably running goroutines of this process, the blocked
// one included had it been runnable, for at least 5 s of wall-clock time.
var ticks atomic.Int64

func startHeartbeat() {
	go func() {
		for {
			time.Sleep(tickEvery)
			ticks.Add(1)
		}
	}()
}

func ticksOf(d time.Duration) int64 { return int64(d / tickEvery) }

func keyOf(i int) string { return fmt.Sprintf("k%d", ((i%nKeys)+nKeys)%nKeys) }

// ---- instrumented engine ---------------------------------------------------

// beginRec is one call of BeginTransaction on the engine, whoever made it
// (the driver directly, the goroutine inside Registry.Begin, ...).
type beginRec struct {
	n        int
	client   int
	path     string
	ro       bool
	ghost    bool   // the caller gave up (deadline) while this call was queued for the lock
	how      string // last thing the model knows about the transaction created here
	owner    *txn
	entered  chan struct{}
	acquired atomic.Bool
	tx       interfaces.Transaction // valid once acquired is true
	err      error
	// "the client gives up exactly when the lock is granted": cancel is the
	// CancelFunc of the context handed to Registry.Begin / the service handler
	giveUp string // "" | before_grant | at_grant | soon_after
	cancel context.CancelFunc
}

func (r *beginRec) mode() string {
	if r.ro {
		return "ro"
	}
	return "rw"
}

// wrapEngine passes everything through to the real engine; BeginTransaction
// additionally records the call and the transaction object it returned, so
// that the check knows about EVERY transaction that exists (also the ones a
// timed-out Registry.Begin creates after its caller has left).
type wrapEngine struct {
	*engine.EngineFacade
	mgr  *transaction.Manager // own manager (wrapped backend and/or short lifetime limit) over the engine's storage manager
	mu   sync.Mutex
	next *beginRec
	recs []*beginRec
}

// faultBackend is the engine's real storage manager behind a pass-through
// wrapper whose ApplyBatch reports an injected error (and applies nothing)
// when armed: a storage fault at commit.
type faultBackend struct {
	real     transaction.StorageBackend
	armed    atomic.Bool
	injected atomic.Int64
	delay    atomic.Int64  // one-shot: the next ApplyBatch announces itself on inApply and sleeps this long first (slow commit)
	inApply  chan struct{} // buffered
	getDelay atomic.Int64  // one-shot: the next Get announces itself on inGet and sleeps this long first (slow read)
	inGet    chan struct{} // buffered
}

var errInjected = errors.New("injected storage fault (C17)")

func (b *faultBackend) Get(key []byte) ([]byte, error) {
	if d := b.getDelay.Swap(0); d > 0 {
		select {
		case b.inGet <- struct{}{}:
		default:
		}
		time.Sleep(time.Duration(d))
	}
	return b.real.Get(key)
}
func (b *faultBackend) ApplyBatch(entries []*wal.Entry) error {
	if b.armed.CompareAndSwap(true, false) {
		b.injected.Add(1)
		return errInjected
	}
	if d := b.delay.Swap(0); d > 0 {
		select {
		case b.inApply <- struct{}{}:
		default:
		}
		time.Sleep(time.Duration(d))
	}
	return b.real.ApplyBatch(entries)
}
func (b *faultBackend) GetIterator() (iterator.Iterator, error) { return b.real.GetIterator() }
func (b *faultBackend) GetRangeIterator(start, end []byte) (iterator.Iterator, error) {
	return b.real.GetRangeIterator(start, end)
}

func (w *wrapEngine) BeginTransaction(readOnly bool) (interfaces.Transaction, error) {
	w.mu.Lock()
	rec := w.next
	w.next = nil
	if rec == nil {
		rec = &beginRec{n: len(w.recs), client: -1, path: "untracked", ro: readOnly, how: "untracked", entered: make(chan struct{})}
		w.recs = append(w.recs, rec)
	}
	w.mu.Unlock()
	close(rec.entered)
	if rec.giveUp == "before_grant" && rec.cancel != nil {
		rec.cancel()
	}
	var tx interfaces.Transaction
	var err error
	if w.mgr != nil {
		var t transaction.Transaction
		t, err = w.mgr.BeginTransaction(readOnly)
		if t != nil {
			tx = t
		}
	} else {
		tx, err = w.EngineFacade.BeginTransaction(readOnly)
	}
	rec.tx, rec.err = tx, err
	rec.acquired.Store(true)
	// the lock has just been granted to the goroutine inside Registry.Begin
	switch {
	case rec.cancel == nil:
	case rec.giveUp == "at_grant":
		rec.cancel()
	case rec.giveUp == "soon_after":
		go func() {
			time.Sleep(50 * time.Microsecond)
			rec.cancel()
		}()
	}
	return tx, err
}

// ---- model -----------------------------------------------------------------

const (
	stInflight = "inflight" // begin issued, queued for the lock (or not yet observed)
	stOpen     = "open"
	stGone     = "gone"    // abandoned by its (remote) client, not yet cleaned by the server
	stDone     = "done"    // finished by the client
	stCleaned  = "cleaned" // rolled back by the server
	stDropped  = "dropped" // handle forgotten by the server while the transaction is still active (defect state)
)

type txn struct {
	client       int
	path         string
	ro           bool
	conn         string
	id           string
	rec          *beginRec
	call         *beginCall
	overlay      map[string]*string
	state        string
	registered   bool
	issued       time.Time
	giveUp       string
	commitsSince int  // value of world.commits right after this transaction committed
	queued       bool // a settle() has left this begin waiting at least once
	epoch        int  // value of world.epoch when the begin was issued
}

func (t *txn) mode() string {
	if t.ro {
		return "ro"
	}
	return "rw"
}
func (t *txn) holds() bool  { return t.state == stOpen || t.state == stGone }
func (t *txn) closed() bool { return t.state == stDone || t.state == stCleaned }

type beginCall struct {
	done chan struct{}
	id   string
	err  error
}

type world struct {
	c         *Case
	rep       int
	dir       string
	eng       *engine.EngineFacade
	weng      *wrapEngine
	fb        *faultBackend // nil: transactions come from the engine's own manager
	reg       *regProxy     // the registry behind bounded (tracked) calls
	svc       *svcProxy     // the service handlers behind bounded (tracked) calls
	agedSlept int           // aged mode: number of sweeps that waited for an age band
	committed map[string]string
	cur       []*txn // current transaction record per client (nil = never began)
	retired   []*txn // finished transactions whose client has begun a new one since; the old handles stay usable for "later use"
	all       []*txn
	shutdown  bool
	commits   int // number of commits that wrote something
	epoch     int // number of server-side cleanup calls so far
	late      int
	releases  []release
	features  map[string]bool
	counters  map[string]int
	trace     []string
	stepNo    int
	wedged    bool
	lastWait  time.Duration
	faultNext bool // the next commit of an open read-write transaction with buffered writes hits a storage fault
	notes     []string
	abort     bool // go straight to the final probe
}

// verdict is a property violation.
type verdict struct {
	Sig  string `json:"sig"`
	Msg  string `json:"msg"`
	Step int    `json:"step"`
	Rep  int    `json:"rep"`
}

type diverged struct{ why string }

func (w *world) fail(sig, format string, a ...any) {
	panic(&verdict{Sig: sig, Msg: fmt.Sprintf(format, a...), Step: w.stepNo, Rep: w.rep})
}

// diverge stops a case whose execution left the model's assumptions for a
// reason that is not this property's business (counted, never a verdict).
func (w *world) diverge(format string, a ...any) {
	panic(&diverged{fmt.Sprintf(format, a...)})
}

func (w *world) logf(format string, a ...any) {
	if len(w.trace) < 200 {
		w.trace = append(w.trace, fmt.Sprintf("%d: ", w.stepNo)+fmt.Sprintf(format, a...))
	}
}

func newWorld(c *Case, rep int, scratch string) *world {
	w := &world{c: c, rep: rep, committed: map[string]string{}, features: map[string]bool{}, counters: map[string]int{}}
	dir, err := os.MkdirTemp(scratch, "db-")
	if err != nil {
		panic(err)
	}
	w.dir = dir
	e, err := engine.NewEngineFacade(dir)
	if err != nil {
		panic(fmt.Errorf("open engine: %w", err))
	}
	w.eng = e
	w.weng = &wrapEngine{EngineFacade: e}
	limit := time.Duration(c.LimitMs) * time.Millisecond
	idle := time.Hour
	if c.Backend == "wrapped" || c.Mode == "short_ttl" || c.Mode == "aged" {
		w.fb = &faultBackend{real: e.VerifStorage(), inApply: make(chan struct{}, 1), inGet: make(chan struct{}, 1)}
		w.features["backend_wrapped"] = true
	}
	switch c.Mode {
	case "short_idle":
		idle = limit
		if w.fb != nil {
			w.weng.mgr = transaction.NewManager(w.fb, nil)
		}
	case "short_ttl":
		w.weng.mgr = transaction.NewManagerWithTTL(w.fb, nil, limit, limit, time.Hour)
	case "aged":
		// idle limit = limit, lifetime limit = 10 x limit: sweeps meet transactions of every age band
		idle = limit
		w.weng.mgr = transaction.NewManagerWithTTL(w.fb, nil, w.lifetime(), w.lifetime(), time.Hour)
	default:
		if w.fb != nil {
			w.weng.mgr = transaction.NewManager(w.fb, nil)
		}
	}
	warn, crit := 75, 90
	if c.Warn > 0 {
		warn, crit = c.Warn, c.Warn+25
		if crit > 95 {
			crit = 95
		}
	}
	real := transaction.NewRegistryWithTTL(time.Hour, idle, warn, crit)
	w.reg = &regProxy{real: real, impl: real.(*transaction.RegistryImpl)}
	w.svc = &svcProxy{real: service.NewKevoServiceServer(w.weng, real, nil)}
	curWorld.Store(w)
	w.cur = make([]*txn, c.Clients)
	for _, kv := range c.Init {
		k := keyOf(kv.K)
		if err := e.Put([]byte(k), []byte(kv.V)); err != nil {
			panic(fmt.Errorf("initial put: %w", err))
		}
		w.committed[k] = kv.V
	}
	w.features["mode_"+c.Mode] = true
	return w
}

func (w *world) short() bool { return w.c.Mode != "long" }

func (w *world) lifetime() time.Duration { return 10 * time.Duration(w.c.LimitMs) * time.Millisecond }

// ageBand: in aged mode a sweep may first wait until the oldest registered
// transaction that still holds its lock has reached pct % of its lifetime limit
// (it is idle for longer than the idle limit in any case), so that the sweep
// meets it below the warning threshold, between the thresholds, above the
// critical threshold or past the lifetime limit.
func (w *world) ageBand(pct int) {
	if w.c.Mode != "aged" || pct <= 0 || w.agedSlept >= 1 {
		return
	}
	var oldest *txn
	for _, t := range w.all {
		if t.registered && t.holds() && (oldest == nil || t.issued.Before(oldest.issued)) {
			oldest = t
		}
	}
	if oldest == nil {
		return
	}
	w.agedSlept++
	want := time.Duration(pct) * w.lifetime() / 100
	if d := want - time.Since(oldest.issued); d > 0 {
		time.Sleep(d)
	}
	age := int(100 * time.Since(oldest.issued) / w.lifetime())
	warn, crit := 75, 90
	if w.c.Warn > 0 {
		warn, crit = w.c.Warn, w.c.Warn+25
	}
	switch {
	case age > 100:
		w.features["aged_sweep_past_lifetime"] = true
	case age > crit:
		w.features["aged_sweep_above_critical"] = true
	case age > warn:
		w.features["aged_sweep_warning_to_critical"] = true
	default:
		w.features["aged_sweep_below_warning"] = true
	}
	w.logf("  oldest registered holder is at about %d%% of its lifetime limit", age)
}

func (w *world) sleepPastLimit() {
	time.Sleep(time.Duration(w.c.LimitMs)*time.Millisecond + 5*time.Millisecond)
}

// ---- observation helpers ---------------------------------------------------

func isClosedErr(err error) bool {
	return err != nil && (errors.Is(err, transaction.ErrTransactionClosed) ||
		strings.Contains(err.Error(), transaction.ErrTransactionClosed.Error()))
}

// isGoneErr: what the RPC layer answers for a handle that no longer exists.
func isGoneErr(err error) bool {
	return err != nil && (isClosedErr(err) || strings.Contains(err.Error(), "transaction not found"))
}

func txActive(tx interfaces.Transaction) bool {
	_, err := tx.Get([]byte(keyOf(0)))
	return !isClosedErr(err)
}

// keptLock looks at the unexported lock flags of a TransactionImpl (the
// "lock-held flags" named in the property's anchors): true if the transaction
// still considers itself owner of the read or the write lock. Only used to
// speed up and to name a failure, never as a verdict; when the fields cannot
// be found (refactored code) it reports false.
func keptLock(tx interfaces.Transaction) (kept bool) {
	defer func() {
		if recover() != nil {
			kept = false
		}
	}()
	v := reflect.ValueOf(tx)
	if v.Kind() != reflect.Ptr || v.Elem().Kind() != reflect.Struct {
		return false
	}
	for _, name := range []string{"hasReadLock", "hasWriteLock"} {
		f := v.Elem().FieldByName(name)
		if !f.IsValid() || !f.CanAddr() || f.Type() != reflect.TypeOf(atomic.Bool{}) {
			continue
		}
		if (*atomic.Bool)(unsafe.Pointer(f.UnsafeAddr())).Load() {
			return true
		}
	}
	return false
}

func (w *world) recHolding(r *beginRec) bool {
	return r.owner != nil && (r.owner.state == stInflight || r.owner.holds())
}

// beginGoroutineRunning reports whether some goroutine started by
// RegistryImpl.Begin exists that is not parked inside the RW lock, i.e. one
// that may still be about to hand over or roll back the transaction it got.
// runtime.Stack(all) stops the world, so the answer is a consistent snapshot.
func beginGoroutineRunning() bool {
	buf := make([]byte, 1<<20)
	n := runtime.Stack(buf, true)
	for _, g := range bytes.Split(buf[:n], []byte("\n\n")) {
		if bytes.Contains(g, []byte("(*RegistryImpl).Begin.func")) &&
			!bytes.Contains(g, []byte("sync.(*RWMutex).Lock(")) && !bytes.Contains(g, []byte("sync.(*RWMutex).RLock(")) {
			return true
		}
	}
	return false
}

// leak returns a description of a transaction that keeps the lock although
// nobody who could finish it knows it any more: it is still active, or it is
// closed but its lock flag says that it never let go. needCertain: only
// evidence that does not depend on timing (for a late begin: its goroutine
// inside Registry.Begin has ended, so nothing is going to roll it back).
func (w *world) leak(needCertain bool) (desc string, found bool) {
	w.weng.mu.Lock()
	recs := append([]*beginRec{}, w.weng.recs...)
	w.weng.mu.Unlock()
	checkedStack, running := false, false
	for _, r := range recs {
		if !r.acquired.Load() || r.tx == nil || w.recHolding(r) || r.how == "probe_open" {
			continue
		}
		look := func() string {
			if txActive(r.tx) {
				return "holder="
			}
			if keptLock(r.tx) {
				return "holder=closed_but_kept_lock:"
			}
			return ""
		}
		kind := look()
		if kind == "" {
			continue
		}
		if r.ghost && needCertain {
			if !checkedStack {
				running, checkedStack = beginGoroutineRunning(), true
			}
			if running {
				continue
			}
			if kind = look(); kind == "" {
				continue
			}
		}
		return fmt.Sprintf("%s%s:%s:%s", kind, r.how, r.path, r.mode()), true
	}
	return "", false
}

func (w *world) diagnose() string {
	if d, ok := w.leak(false); ok {
		return d
	}
	var rel []string
	for _, r := range w.releases {
		rel = append(rel, r.what)
	}
	for _, g := range w.ghosts() {
		if g.acquired.Load() {
			rel = append(rel, "late_begin_rolled_back:"+g.mode())
		}
	}
	sort.Strings(rel)
	out := rel[:0]
	for i, s := range rel {
		if i == 0 || s != rel[i-1] {
			out = append(out, s)
		}
	}
	return "holder=none_active:after=" + strings.Join(out, ",")
}

// release is one event after which a lock should be free. When later somebody
// is blocked although every transaction is inactive, one of these events kept
// its lock. A begin that succeeded afterwards exonerates: any begin for
// read-write events (a kept write lock lets nobody in), a read-write begin for
// read-only events (a kept read lock still lets readers in).
type release struct {
	what string
	ro   bool
}

func (w *world) released(op string, t *txn) {
	w.releases = append(w.releases, release{op + ":" + t.mode(), t.ro})
}

// acquired: a begin (read-only or not) got the lock just now.
func (w *world) acquired(ro bool) {
	if !ro {
		w.releases = w.releases[:0]
		return
	}
	keep := w.releases[:0]
	for _, r := range w.releases {
		if r.ro {
			keep = append(keep, r)
		}
	}
	w.releases = keep
}

// waitFor polls cond until it holds or the liveness bound (on the heartbeat
// clock) expires.
func (w *world) waitFor(cond func() bool) bool {
	start := time.Now()
	defer func() { w.lastWait = time.Since(start) }()
	t0 := ticks.Load()
	limit := ticksOf(slowBound)
	nextLeakCheck := t0 + 2
	fast := false
	pause := 20 * time.Microsecond
	for {
		if cond() {
			return true
		}
		now := ticks.Load()
		if now-t0 >= limit {
			return cond()
		}
		if !fast && now >= nextLeakCheck {
			nextLeakCheck = now + 5
			if _, ok := w.leak(true); ok {
				fast = true
				if l := now - t0 + ticksOf(fastBound); l < limit {
					limit = l
				}
			}
		}
		time.Sleep(pause)
		if pause < time.Millisecond {
			pause *= 2
		}
	}
}

func isDone(c *beginCall) bool {
	select {
	case <-c.done:
		return true
	default:
		return false
	}
}

func (w *world) blocked(what string) {
	w.wedged = true
	// a begin that has been granted the lock but does not return is stuck in the registry
	for _, t := range w.all {
		if t.state == stInflight && t.path != "direct" && t.rec != nil && t.rec.acquired.Load() && !isDone(t.call) {
			t0 := ticks.Load()
			for ticks.Load()-t0 < ticksOf(fastBound) && !isDone(t.call) {
				time.Sleep(time.Millisecond)
			}
			if !isDone(t.call) {
				panic(registryBlockedVerdict("Begin", w))
			}
		}
	}
	d := w.diagnose()
	why := ""
	if strings.HasPrefix(d, "holder=none_active") {
		why = "; every transaction ever created is inactive, so a finished one kept its lock"
	} else if strings.HasPrefix(d, "holder=closed_but_kept_lock") {
		why = "; a finished transaction never released its lock (" + d + ")"
	} else {
		why = "; a transaction that no client and no registry entry can reach any more is still active (" + d + ")"
	}
	w.fail("blocked_forever:"+d, "%s did not get the lock within %v (bound %v; %v once a transaction that nobody can finish any more is shown to keep the lock) although no transaction known to any client holds it%s",
		what, w.lastWait.Round(time.Millisecond), slowBound, fastBound, why)
}

// stateDiff compares the database with a model map; "" = equal.
func (w *world) stateDiff(m map[string]string) string {
	keys := make([]string, 0, nKeys+1)
	for i := 0; i < nKeys; i++ {
		keys = append(keys, keyOf(i))
	}
	keys = append(keys, probeKey)
	for _, k := range keys {
		got, err := w.eng.Get([]byte(k))
		want, has := m[k]
		if err != nil {
			if !errors.Is(err, engine.ErrKeyNotFound) && !strings.Contains(err.Error(), "not found") {
				w.diverge("engine.Get(%s): %v", k, err)
			}
			if has {
				return fmt.Sprintf("database key %s is missing, the model has %q", k, want)
			}
			continue
		}
		if !has {
			return fmt.Sprintf("database key %s = %q, the model says it does not exist", k, got)
		}
		if string(got) != want {
			return fmt.Sprintf("database key %s = %q, the model has %q", k, got, want)
		}
	}
	return ""
}

func (w *world) checkState(ctx string) {
	if d := w.stateDiff(w.committed); d != "" {
		w.fail("state_mismatch_after:"+ctx, "%s", d)
	}
}

// callCtx is the request context of a service call: live, or dead before the
// handler runs (the way gRPC presents a client that abandoned the call).
func callCtx(kind string) (context.Context, context.CancelFunc) {
	switch kind {
	case "cancelled":
		ctx, cancel := context.WithCancel(context.Background())
		cancel()
		return ctx, cancel
	case "expired":
		return context.WithDeadline(context.Background(), time.Now().Add(-time.Second))
	}
	return context.Background(), func() {}
}

// afterDeadCtx: a service call with a dead request context has returned on the
// open transaction t. Its result is not judged; what it left behind is
// observed. ended=true: the transaction is over (state and lock bookkeeping
// updated by the caller); in the defect state (handle gone, transaction alive)
// the case goes straight to the probe.
func (w *world) afterDeadCtx(t *txn, what string) (present, active bool) {
	_, present = w.reg.Get(t.id)
	active = txActive(t.rec.tx)
	if active && !present {
		t.registered = false
		t.state = stDropped
		t.rec.how = "handle_dropped_by_" + what + "_with_dead_ctx"
		w.abort = true
		w.logf("  handle dropped, transaction still active")
	}
	return
}

// ---- lock-aware bookkeeping ------------------------------------------------

func (w *world) holders() (act []*txn, inf []*txn) {
	for _, t := range w.all {
		switch {
		case t.holds():
			act = append(act, t)
		case t.state == stInflight:
			inf = append(inf, t)
		}
	}
	return
}

func (w *world) ghostWriterQueued() bool {
	w.weng.mu.Lock()
	defer w.weng.mu.Unlock()
	for _, r := range w.weng.recs {
		if r.ghost && !r.ro && !r.acquired.Load() {
			return true
		}
	}
	return false
}

func anyWriter(ts []*txn) bool {
	for _, t := range ts {
		if !t.ro {
			return true
		}
	}
	return false
}

// promote: the begin call of t has returned; t is open now.
func (w *world) promote(t *txn) {
	c := t.call
	if c.err != nil && t.giveUp != "" {
		// The client gave up around the moment the lock was granted and the call reports
		// that (legal, as is success). Whatever the goroutine inside Begin created or
		// still creates is the implementation's to roll back: from here on it is a late begin.
		t.rec.ghost, t.rec.how, t.rec.owner = true, "cancel_at_grant", nil
		if strings.HasPrefix(t.giveUp, "dead_") {
			t.rec.how = "begin_with_dead_ctx"
		}
		t.state = stCleaned
		if w.cur[t.client] == t {
			w.cur[t.client] = nil
		}
		if !strings.HasPrefix(t.giveUp, "dead_") {
			w.features["cancel_at_grant_reported_error"] = true
		}
		w.logf("  client %d: begin gave up (%s): %v", t.client, t.giveUp, c.err)
		return
	}
	if c.err != nil {
		if strings.Contains(c.err.Error(), "timed out") && time.Since(t.issued) > 9*time.Second {
			// Registry.Begin's own 10 s limit: this begin turned into a late begin.
			t.rec.ghost, t.rec.how, t.rec.owner = true, "late_begin", nil
			t.state = stCleaned
			w.counters["hard_timeout_begin"]++
			return
		}
		w.diverge("begin of client %d (%s) failed: %v", t.client, t.path, c.err)
	}
	if t.path != "direct" {
		t.id = c.id
		if _, ok := w.reg.Get(c.id); !ok {
			// The call registered its handle before it returned. The handle can only be
			// missing if a server-side cleanup ran between registration and now.
			if w.epoch == t.epoch {
				w.fail("registry_lost_open_tx", "begin of client %d returned handle %s which the registry does not know", t.client, c.id)
			}
			if txActive(t.rec.tx) {
				w.fail("not_rolled_back:cleanup_during_begin:"+t.mode(), "handle %s was removed by a cleanup that ran while its begin call was returning, but the transaction is still active", c.id)
			}
			t.state = stCleaned
			t.rec.how = "cleaned_during_begin"
			w.counters["cleaned_during_begin"]++
			w.acquired(t.ro)
			w.released("cleaned_during_begin", t)
			return
		}
		t.registered = true
	}
	t.state = stOpen
	t.rec.how = "begin"
	if t.giveUp != "" && !strings.HasPrefix(t.giveUp, "dead_") {
		w.features["cancel_at_grant_succeeded"] = true
	}
	w.acquired(t.ro)
	w.logf("  client %d: begin returned (%s %s %s)", t.client, t.path, t.mode(), t.id)
}

// settle brings the model up to date after anything that may have released a
// lock. Every wait in here is for something that MUST happen in every
// interleaving if transactions release what they hold:
//   - nobody known to any client holds the lock and begins are queued: one of
//     them returns (late begins in the queue are transient: they acquire,
//     notice that their caller left, roll back);
//   - only readers hold it, only readers are queued and no late writer stands
//     between them: all of them return.
func (w *world) settle() {
	for {
		for _, t := range w.all {
			if t.state == stInflight && t.giveUp != "" && isDone(t.call) && t.call.err != nil {
				w.promote(t)
			}
		}
		act, inf := w.holders()
		if len(inf) == 0 {
			return
		}
		if len(act) == 0 {
			var got *txn
			ok := w.waitFor(func() bool {
				for _, t := range inf {
					if isDone(t.call) {
						got = t
						return true
					}
				}
				return false
			})
			if !ok {
				w.blocked(fmt.Sprintf("a queued begin call (%d waiting, the first of them must go ahead)", len(inf)))
			}
			if got.queued {
				w.features["queued_begin_resumed"] = true
			}
			w.promote(got)
			continue
		}
		if !anyWriter(act) && !anyWriter(inf) && !w.ghostWriterQueued() {
			for _, t := range inf {
				t := t
				if !w.waitFor(func() bool { return isDone(t.call) }) {
					w.blocked(fmt.Sprintf("read-only begin of client %d next to other readers", t.client))
				}
				w.promote(t)
			}
			continue
		}
		for _, t := range inf {
			t.queued = true
		}
		return
	}
}

// ---- calls -----------------------------------------------------------------

func (w *world) ctxFor(t *txn, deadlineMs int) (context.Context, context.CancelFunc) {
	ctx := context.Background()
	if t.conn != "unknown" {
		ctx = context.WithValue(ctx, "peer", t.conn) //nolint: the registry reads exactly this key
	}
	if deadlineMs > 0 {
		return context.WithTimeout(ctx, time.Duration(deadlineMs)*time.Millisecond)
	}
	switch t.giveUp {
	case "":
		return ctx, func() {}
	case "dead_cancelled":
		c, cancel := context.WithCancel(ctx)
		cancel()
		return c, cancel
	case "dead_expired":
		return context.WithDeadline(ctx, time.Now().Add(-time.Second))
	}
	return context.WithCancel(ctx)
}

// issue starts the begin call of t in its own goroutine and returns once the
// call has reached the engine (so anything the call does before, such as the
// service's stale-transaction sweep, has happened).
func (w *world) issue(t *txn, deadlineMs int) {
	rec := &beginRec{client: t.client, path: t.path, ro: t.ro, how: "begin_queued", owner: t, entered: make(chan struct{})}
	w.weng.mu.Lock()
	rec.n = len(w.weng.recs)
	w.weng.recs = append(w.weng.recs, rec)
	w.weng.next = rec
	w.weng.mu.Unlock()
	t.rec = rec
	call := &beginCall{done: make(chan struct{})}
	t.call = call
	t.issued = time.Now()
	t.epoch = w.epoch
	t.state = stInflight
	var ctx context.Context
	cancel := context.CancelFunc(func() {})
	if t.path != "direct" {
		ctx, cancel = w.ctxFor(t, deadlineMs)
		if t.giveUp != "" {
			rec.giveUp, rec.cancel = t.giveUp, cancel
		}
	}
	go func() {
		defer close(call.done)
		switch t.path {
		case "direct":
			_, call.err = w.weng.BeginTransaction(t.ro)
		case "reg":
			defer cancel()
			call.id, call.err = w.reg.Begin(ctx, w.weng, t.ro)
		case "svc":
			defer cancel()
			resp, err := w.svc.BeginTransaction(ctx, &pb.BeginTransactionRequest{ReadOnly: t.ro})
			call.err = err
			if err == nil {
				call.id = resp.TransactionId
			}
		}
	}()
	// Wait until the call has reached the engine, and for nothing else: a call with a
	// short deadline may return before its goroutine inside Registry.Begin has even
	// been scheduled, and that goroutine must not pick up the record of a later call.
	select {
	case <-rec.entered:
	case <-call.done:
		// Returned without having reached the engine: either refused before (then nothing
		// will ever come), or its goroutine inside Registry.Begin has not been scheduled yet.
		// Give that goroutine a generous second of heartbeat time before the record is retired.
		t0 := ticks.Load()
		for entered := false; !entered && ticks.Load()-t0 < ticksOf(time.Second); {
			select {
			case <-rec.entered:
				entered = true
			default:
				time.Sleep(200 * time.Microsecond)
			}
		}
		w.weng.mu.Lock()
		if w.weng.next == rec {
			w.weng.next = nil
			w.counters["begin_returned_without_reaching_engine"]++
		}
		w.weng.mu.Unlock()
	case <-time.After(infraBound):
		panic("begin call never reached the engine")
	}
}

type scanSink struct {
	grpc.ServerStream
	n   int
	ctx context.Context
}

func (s *scanSink) Send(*pb.TxScanResponse) error { s.n++; return nil }
func (s *scanSink) Context() context.Context {
	if s.ctx != nil {
		return s.ctx
	}
	return context.Background()
}

// object returns the transaction object a non-RPC client works with.
func (w *world) object(t *txn) interfaces.Transaction {
	if t.path == "reg" && t.state == stOpen {
		tx, ok := w.reg.Get(t.id)
		if !ok {
			w.fail("registry_lost_open_tx", "the registry does not know the open transaction %s of client %d (last event %s)", t.id, t.client, t.rec.how)
		}
		return tx
	}
	return t.rec.tx
}

// ---- steps -----------------------------------------------------------------

func pick(app []int, sel int) (int, bool) {
	if len(app) == 0 {
		return 0, false
	}
	return app[((sel%len(app))+len(app))%len(app)], true
}

func (w *world) clientsWhere(f func(t *txn) bool) []int {
	var out []int
	for i, t := range w.cur {
		if f(t) {
			out = append(out, i)
		}
	}
	return out
}

// doWriteTx is a generator macro, not an API of its own: begin read-write, and
// if the lock was free, one put and commit. It makes "commit, somebody else
// commits the same key, first handle commits again" likely enough to happen.
func (w *world) doWriteTx(s Step) {
	b := s
	b.Op, b.RO, b.DeadlineMs = "begin", false, 0
	t := w.doBegin(b)
	if t == nil || t.state != stOpen || w.abort {
		return
	}
	w.logf("put client %d (%s rw open) key=%s", t.client, t.path, keyOf(s.K))
	if s.Ctx != "" && t.path == "svc" {
		switch s.DeadAt {
		case "op":
			w.useOpen(t, "put", keyOf(s.K), s.V, s.Ctx)
			if t.state == stOpen && !w.abort {
				w.finish(t, "commit", false)
			}
		case "rollback":
			w.useOpen(t, "put", keyOf(s.K), s.V, "")
			w.finishDeadCtx(t, "rollback", s.Ctx)
		default:
			w.useOpen(t, "put", keyOf(s.K), s.V, "")
			w.finishDeadCtx(t, "commit", s.Ctx)
		}
		return
	}
	w.useOpen(t, "put", keyOf(s.K), s.V, "")
	if s.SlowMs > 0 && w.overlappable(t, "commit") {
		w.finishOverlapped(t, s.SlowMs, s.During, s.Keep)
		return
	}
	w.faultNext = s.Fault
	w.finish(t, "commit", s.Keep)
	w.faultNext = false
}

func (w *world) doBegin(s Step) *txn {
	if w.shutdown {
		return nil
	}
	ci, ok := pick(w.clientsWhere(func(t *txn) bool { return t == nil || t.closed() }), s.C)
	if !ok {
		w.counters["skipped_begin"]++
		return nil
	}
	t := &txn{client: ci, path: s.Path, ro: s.RO, conn: "unknown", overlay: map[string]*string{}}
	if s.Peer {
		t.conn = fmt.Sprintf("conn-%d", ci)
	}
	if t.path == "direct" {
		t.conn = ""
	}
	w.features["path_"+t.path] = true

	sweep := t.path == "svc" // the service sweeps stale transactions before every begin
	var swept []*txn
	if sweep && w.short() {
		for _, o := range w.all {
			if o.registered {
				swept = append(swept, o)
			}
		}
		if len(swept) > 0 {
			w.sleepPastLimit()
		}
	}
	// will the call have to wait longer than its deadline? Only transactions that
	// certainly hold an incompatible lock for the whole call count.
	mustBlock := false
	for _, o := range w.all {
		if !o.holds() || (sweep && w.short() && o.registered) {
			continue
		}
		if !t.ro || !o.ro {
			mustBlock = true
		}
	}
	deadline := 0
	if s.DeadlineMs > 0 && t.path != "direct" && mustBlock && w.late < maxLateBegin {
		deadline = s.DeadlineMs
	}
	if deadline == 0 && s.GiveUp != "" && t.path != "direct" {
		t.giveUp = s.GiveUp
		w.features["cancel_at_grant"] = true
	} else if deadline == 0 && s.Ctx != "" && t.path != "direct" {
		t.giveUp = "dead_" + s.Ctx
		w.features["ctx_dead_at_begin"] = true
	}
	if old := w.cur[ci]; old != nil && old.closed() && old.rec != nil && (old.rec.tx != nil || old.id != "") {
		w.retired = append(w.retired, old)
		if len(w.retired) > maxRetired {
			w.retired = w.retired[1:]
		}
	}
	w.all = append(w.all, t)
	w.cur[ci] = t
	w.logf("begin client %d %s %s conn=%q deadline=%dms give_up=%q", ci, t.path, t.mode(), t.conn, deadline, t.giveUp)
	if sweep && w.short() {
		w.epoch++
	}
	w.issue(t, deadline)
	if len(swept) > 0 {
		for _, o := range swept {
			w.expectCleaned(o, "stale_"+w.c.Mode+"_sweep_by_begin")
		}
		w.checkState("stale_" + w.c.Mode + "_sweep_by_begin")
	}
	if deadline > 0 {
		w.late++
		call := t.call
		start, t0 := time.Now(), ticks.Load()
		for !isDone(call) {
			if ticks.Load()-t0 > ticksOf(time.Duration(deadline)*time.Millisecond+slowBound) {
				w.wedged = true
				w.fail("begin_with_deadline_never_returned:"+t.path, "begin with a %d ms deadline has not returned after %v", deadline, time.Since(start))
			}
			time.Sleep(200 * time.Microsecond)
		}
		if call.err == nil {
			w.diverge("begin with deadline succeeded although client(s) hold an incompatible lock")
		}
		// the caller has left; its goroutine is still queued for the lock
		t.rec.ghost, t.rec.how, t.rec.owner = true, "late_begin", nil
		t.state = stCleaned // the client holds nothing and may try again
		w.cur[ci] = nil
		w.features["late_begin"] = true
		w.features["late_begin_"+t.mode()] = true
		w.logf("  timed out: %v", call.err)
	}
	w.settle()
	return t
}

// target selects the transaction of a use/finish step. Without Again: an open
// transaction if there is one, else a finished one. With Again: a finished one
// if there is one (later use, repeated finish), including older handles whose
// client has meanwhile begun a new transaction, else an open one.
func (w *world) target(s Step) *txn {
	if s.Ctx != "" {
		// a dead request context only means something on the service path, and most on an open transaction
		if ci, ok := pick(w.clientsWhere(func(t *txn) bool { return t != nil && t.state == stOpen && t.path == "svc" }), s.C); ok {
			return w.cur[ci]
		}
	}
	if s.Again {
		var closed []*txn
		for _, t := range w.cur {
			if t != nil && t.closed() {
				closed = append(closed, t)
			}
		}
		closed = append(closed, w.retired...)
		if s.Op == "commit" {
			// a repeated commit is most interesting on a handle whose first commit wrote something
			var wrote []*txn
			for _, t := range closed {
				if t.rec.how == "commit" && len(t.overlay) > 0 {
					wrote = append(wrote, t)
				}
			}
			if len(wrote) > 0 {
				closed = wrote
			}
		}
		if n := len(closed); n > 0 {
			return closed[((s.C%n)+n)%n]
		}
	}
	if ci, ok := pick(w.clientsWhere(func(t *txn) bool { return t != nil && t.state == stOpen }), s.C); ok {
		return w.cur[ci]
	}
	if ci, ok := pick(w.clientsWhere(func(t *txn) bool { return t != nil && t.closed() }), s.C); ok {
		return w.cur[ci]
	}
	return nil
}

func (w *world) doUse(s Step) {
	t := w.target(s)
	if t == nil {
		w.counters["skipped_"+s.Op]++
		return
	}
	ci := t.client
	k, v := keyOf(s.K), s.V
	w.logf("%s client %d (%s %s %s) key=%s", s.Op, ci, t.path, t.mode(), t.state, k)
	if t.state == stOpen {
		w.useOpen(t, s.Op, k, v, s.Ctx)
		return
	}
	// later use of a finished transaction: closed error, no side effect
	w.features["use_after_finish"] = true
	var err error
	svcGone := func(e error) {
		if !isGoneErr(e) {
			w.fail(fmt.Sprintf("use_after_finish_succeeded:%s:%s:%s", s.Op, t.path, t.rec.how), "%s through the service on transaction %s (%s) returned %v", s.Op, t.id, t.rec.how, e)
		}
	}
	if t.path == "svc" {
		ctx, cancel := callCtx(s.Ctx)
		defer cancel()
		switch s.Op {
		case "put":
			_, err = w.svc.TxPut(ctx, &pb.TxPutRequest{TransactionId: t.id, Key: []byte(k), Value: []byte(v)})
		case "del":
			_, err = w.svc.TxDelete(ctx, &pb.TxDeleteRequest{TransactionId: t.id, Key: []byte(k)})
		case "get":
			_, err = w.svc.TxGet(ctx, &pb.TxGetRequest{TransactionId: t.id, Key: []byte(k)})
		case "scan":
			err = w.svc.TxScan(&pb.TxScanRequest{TransactionId: t.id}, &scanSink{ctx: ctx})
		}
		if s.Ctx == "" {
			svcGone(err)
		} else {
			w.features["ctx_dead_on_finished_handle"] = true // result not judged, only that nothing changes
		}
	} else {
		obj := t.rec.tx
		if obj == nil {
			return
		}
		if s.Op == "scan" {
			it := obj.NewIterator()
			it.SeekToFirst()
			if it.Valid() {
				w.fail(fmt.Sprintf("use_after_finish_succeeded:scan:%s:%s", t.path, t.rec.how), "an iterator of the finished transaction (%s) yields key %q", t.rec.how, it.Key())
			}
		} else {
			switch s.Op {
			case "put":
				err = obj.Put([]byte(k), []byte(v))
			case "del":
				err = obj.Delete([]byte(k))
			case "get":
				_, err = obj.Get([]byte(k))
			}
			if !isClosedErr(err) {
				w.fail(fmt.Sprintf("use_after_finish_succeeded:%s:%s:%s", s.Op, t.path, t.rec.how), "%s on the finished transaction (%s) returned %v, want the closed error", s.Op, t.rec.how, err)
			}
		}
	}
	w.checkState("use_of_closed:" + s.Op + ":" + t.rec.how)
}

func (w *world) useOpen(t *txn, op, k, v, ctxKind string) {
	var err error
	if t.path == "svc" && ctxKind != "" {
		w.useOpenDeadCtx(t, op, k, v, ctxKind)
		return
	}
	if t.path == "svc" {
		switch op {
		case "put":
			_, err = w.svc.TxPut(context.Background(), &pb.TxPutRequest{TransactionId: t.id, Key: []byte(k), Value: []byte(v)})
		case "del":
			_, err = w.svc.TxDelete(context.Background(), &pb.TxDeleteRequest{TransactionId: t.id, Key: []byte(k)})
		case "get":
			_, err = w.svc.TxGet(context.Background(), &pb.TxGetRequest{TransactionId: t.id, Key: []byte(k)})
		case "scan":
			err = w.svc.TxScan(&pb.TxScanRequest{TransactionId: t.id}, &scanSink{})
		}
		if err != nil && strings.Contains(err.Error(), "transaction not found") {
			w.fail("registry_lost_open_tx", "the service does not know the open transaction %s of client %d (last event %s): %v", t.id, t.client, t.rec.how, err)
		}
	} else {
		obj := w.object(t)
		switch op {
		case "put":
			err = obj.Put([]byte(k), []byte(v))
		case "del":
			err = obj.Delete([]byte(k))
		case "get":
			_, err = obj.Get([]byte(k))
			if err != nil && !isClosedErr(err) {
				err = nil // not found
			}
		case "scan":
			it := obj.NewIterator()
			n := 0
			for it.SeekToFirst(); it.Valid() && n < 1000; it.Next() {
				n++
			}
		}
	}
	if isClosedErr(err) {
		w.fail("open_tx_reports_closed:"+op+":"+t.path+":"+t.rec.how, "%s on the open transaction of client %d returned %v", op, t.client, err)
	}
	if t.ro || (op != "put" && op != "del") {
		return // reads and rejected writes of read-only transactions are C05/C19 matter
	}
	if err != nil {
		w.diverge("%s in open read-write transaction failed: %v", op, err)
	}
	if op == "put" {
		vv := v
		t.overlay[k] = &vv
	} else {
		t.overlay[k] = nil
	}
}

// useOpenDeadCtx: TxPut/TxDelete/TxGet/TxScan on an open service transaction
// with a request context that is already dead. The call may fail or succeed;
// afterwards the transaction has either ended without a trace, or is still
// open and reachable, and whether a write was buffered is read back through
// the handle.
func (w *world) useOpenDeadCtx(t *txn, op, k, v, ctxKind string) {
	ctx, cancel := callCtx(ctxKind)
	defer cancel()
	var err error
	switch op {
	case "put":
		_, err = w.svc.TxPut(ctx, &pb.TxPutRequest{TransactionId: t.id, Key: []byte(k), Value: []byte(v)})
	case "del":
		_, err = w.svc.TxDelete(ctx, &pb.TxDeleteRequest{TransactionId: t.id, Key: []byte(k)})
	case "get":
		_, err = w.svc.TxGet(ctx, &pb.TxGetRequest{TransactionId: t.id, Key: []byte(k)})
	case "scan":
		err = w.svc.TxScan(&pb.TxScanRequest{TransactionId: t.id}, &scanSink{ctx: ctx})
	}
	w.features["ctx_dead_at_op"] = true
	w.logf("  %s with %s context returned %v", op, ctxKind, err)
	present, active := w.afterDeadCtx(t, op)
	if w.abort {
		return
	}
	if !active {
		// the server ended the transaction on this call: it was rolled back, no trace
		t.registered = present
		t.state = stCleaned
		t.rec.how = op + "_with_dead_ctx_ended_tx"
		w.released(t.rec.how, t)
		w.checkState(t.rec.how)
		w.settle()
		return
	}
	if t.ro || (op != "put" && op != "del") {
		return
	}
	// still open and reachable: was the write buffered? Read it back with a live context.
	resp, gerr := w.svc.TxGet(context.Background(), &pb.TxGetRequest{TransactionId: t.id, Key: []byte(k)})
	if gerr != nil {
		w.diverge("TxGet after a %s with dead context: %v", op, gerr)
	}
	if op == "put" {
		if resp.Found && string(resp.Value) == v {
			vv := v
			t.overlay[k] = &vv
		}
		return
	}
	if !resp.Found {
		t.overlay[k] = nil // buffered, or the key exists nowhere (then the marker changes nothing)
	}
	_ = err
}

func (w *world) applyOverlay(t *txn) {
	for k, v := range t.overlay {
		if v == nil {
			delete(w.committed, k)
		} else {
			w.committed[k] = *v
		}
	}
}

func (w *world) contended(t *txn) bool {
	for _, o := range w.all {
		if o != t && (o.holds() || o.state == stInflight) {
			return true
		}
	}
	return false
}

func (w *world) doFinish(s Step) {
	t := w.target(s)
	if t == nil {
		w.counters["skipped_"+s.Op]++
		return
	}
	if s.Ctx != "" && t.path == "svc" {
		w.finishDeadCtx(t, s.Op, s.Ctx)
		return
	}
	if (s.SlowMs > 0 || s.Fault) && s.Op == "commit" && w.fb != nil && t.state == stOpen && !t.ro && len(t.overlay) == 0 {
		// a slow or failing commit needs a batch: the client writes one key first
		w.logf("put client %d (%s rw open) key=%s", t.client, t.path, keyOf(s.K))
		w.useOpen(t, "put", keyOf(s.K), fmt.Sprintf("m%d", w.stepNo), "")
	}
	if s.SlowMs > 0 && w.overlappable(t, s.Op) {
		w.finishOverlapped(t, s.SlowMs, s.During, s.Keep)
		return
	}
	w.faultNext = s.Fault
	w.finish(t, s.Op, s.Keep)
	w.faultNext = false
}

func (w *world) overlappable(t *txn, op string) bool {
	return op == "commit" && w.fb != nil && t.state == stOpen && !t.ro && len(t.overlay) > 0 && t.path != "direct"
}

// finishOverlapped: the commit of t is slow (the storage takes slowMs for the
// batch), and while it is inside the storage a second actor goes for the same
// transaction: the client retries the commit or sends a rollback on the same
// handle, or the server runs CleanupConnection / the stale sweep (limits
// expired) / GracefulShutdown. Both have found the handle in the registry.
// Afterwards exactly one finisher has taken effect, the other one got the
// closed / not-found error, the handle is gone, the lock is free and the
// registry still answers.
func (w *world) finishOverlapped(t *txn, slowMs int, during string, keep bool) {
	if during == "" {
		during = "rollback"
	}
	if during == "cleanup_stale" && !w.short() {
		during = "commit"
	}
	if during == "shutdown" && w.shutdown {
		during = "cleanup_conn"
	}
	w.logf("commit client %d (%s rw open id=%s) slow %d ms, meanwhile %s", t.client, t.path, t.id, slowMs, during)
	w.features["finish_overlapped"] = true
	w.features["finish_overlapped_by_"+during] = true
	if during == "cleanup_stale" {
		w.sleepPastLimit()
	}
	select {
	case <-w.fb.inApply:
	default:
	}
	w.fb.delay.Store(int64(time.Duration(slowMs) * time.Millisecond))
	defer w.fb.delay.Store(0)
	first := make(chan error, 1)
	go func() {
		if t.path == "svc" {
			_, e := w.svc.CommitTransaction(context.Background(), &pb.CommitTransactionRequest{TransactionId: t.id})
			first <- e
			return
		}
		// registry-level client, doing what the service handler does: Get, finish, Remove
		tx, ok := w.reg.Get(t.id)
		if !ok {
			first <- fmt.Errorf("transaction not found: %s", t.id)
			return
		}
		e := tx.Commit()
		w.reg.Remove(t.id)
		first <- e
	}()
	var err1 error
	firstReturned := false
	entered := w.waitFor(func() bool {
		select {
		case <-w.fb.inApply:
			return true
		case err1 = <-first:
			firstReturned = true
			return true
		default:
			return false
		}
	})
	if !entered {
		panic(registryBlockedVerdict("first finisher (commit)", w))
	}
	// ---- the second actor, while the first is inside the storage
	var err2 error
	secondIsFinisher := during == "commit" || during == "rollback"
	var hit []*txn
	switch during {
	case "commit", "rollback":
		if t.path == "svc" {
			if during == "commit" {
				_, err2 = w.svc.CommitTransaction(context.Background(), &pb.CommitTransactionRequest{TransactionId: t.id})
			} else {
				_, err2 = w.svc.RollbackTransaction(context.Background(), &pb.RollbackTransactionRequest{TransactionId: t.id})
			}
		} else if tx, ok := w.reg.Get(t.id); ok {
			if during == "commit" {
				err2 = tx.Commit()
			} else {
				err2 = tx.Rollback()
			}
			w.reg.Remove(t.id)
		} else {
			err2 = fmt.Errorf("transaction not found: %s", t.id)
		}
	case "cleanup_conn":
		w.epoch++
		for _, o := range w.registered() {
			if o != t && o.conn == t.conn {
				hit = append(hit, o)
			}
		}
		w.reg.CleanupConnection(t.conn)
	case "cleanup_stale":
		w.epoch++
		for _, o := range w.registered() {
			if o != t {
				hit = append(hit, o)
			}
		}
		w.reg.CleanupStaleTransactions()
	case "shutdown":
		w.epoch++
		w.shutdown = true
		w.features["shutdown"] = true
		for _, o := range w.registered() {
			if o != t {
				hit = append(hit, o)
			}
		}
		_ = w.reg.GracefulShutdown(context.Background())
	}
	if !firstReturned {
		if !w.waitFor(func() bool {
			select {
			case err1 = <-first:
				return true
			default:
				return false
			}
		}) {
			panic(registryBlockedVerdict("first finisher (commit)", w))
		}
	}
	w.logf("  commit returned %v, %s returned %v", err1, during, err2)
	// ---- who took effect
	ok1 := err1 == nil
	applied := ok1
	how := "commit"
	if secondIsFinisher {
		ok2 := err2 == nil
		switch {
		case ok1 && ok2:
			w.fail("both_finishers_succeeded:commit+"+during+":"+t.path, "a slow commit and a concurrent %s of the same transaction both reported success", during)
		case !ok1 && !ok2:
			w.fail("no_finisher_succeeded:commit+"+during+":"+t.path, "a slow commit (%v) and a concurrent %s (%v) of the same open transaction both failed", err1, during, err2)
		case ok1 && !isGoneErr(err2):
			w.fail("second_finisher_wrong_error:"+during+":"+t.path, "the losing %s returned %v, want the closed / not-found error", during, err2)
		case ok2 && !isGoneErr(err1):
			w.fail("second_finisher_wrong_error:commit:"+t.path, "the losing commit returned %v, want the closed / not-found error", err1)
		}
		if ok2 {
			applied = during == "commit"
			how = during
		}
	} else if !ok1 {
		if !isGoneErr(err1) {
			w.diverge("slow commit during %s failed: %v", during, err1)
		}
		how = during // the server's rollback came first
	}
	if applied {
		w.applyOverlay(t)
		w.commits++
		t.commitsSince = w.commits
	}
	t.state = stDone
	t.rec.how = how
	t.registered = false
	w.released(how, t)
	if _, still := w.reg.Get(t.id); still {
		w.fail("not_cleaned:finish_overlapped_by_"+during, "after a commit overlapped by %s the registry still knows %s", during, t.id)
	}
	for _, o := range hit {
		w.expectCleaned(o, during+"_during_commit")
	}
	w.checkState("finish_overlapped_by_" + during)
	w.settle()
}

// finishDeadCtx: CommitTransaction / RollbackTransaction through the service
// with a request context that is already dead. Whatever the call answers, the
// transaction must afterwards have ended (committed: all of it visible; rolled
// back: no trace) or still be open and reachable through its handle, so that
// its client or the server's cleanup can end it.
func (w *world) finishDeadCtx(t *txn, op, ctxKind string) {
	w.logf("%s client %d (svc %s %s id=%s) with %s context", op, t.client, t.mode(), t.state, t.id, ctxKind)
	ctx, cancel := callCtx(ctxKind)
	defer cancel()
	var err error
	ok := false
	if op == "commit" {
		var resp *pb.CommitTransactionResponse
		resp, err = w.svc.CommitTransaction(ctx, &pb.CommitTransactionRequest{TransactionId: t.id})
		ok = err == nil && resp != nil && resp.Success
	} else {
		var resp *pb.RollbackTransactionResponse
		resp, err = w.svc.RollbackTransaction(ctx, &pb.RollbackTransactionRequest{TransactionId: t.id})
		ok = err == nil && resp != nil && resp.Success
	}
	w.logf("  returned ok=%v err=%v", ok, err)
	if t.state != stOpen {
		// finished handle: the result is not judged, nothing may change
		w.features["ctx_dead_on_finished_handle"] = true
		w.checkState(op + "_with_dead_ctx:repeat_after_" + t.rec.how)
		return
	}
	w.features["ctx_dead_at_"+op] = true
	present, active := w.afterDeadCtx(t, op)
	if w.abort {
		return
	}
	if active {
		// nothing happened to the transaction and its handle is still there. A client
		// that was told "done" will not come back: then the server has to reap it.
		if ok {
			t.state = stGone
			w.counters["dead_ctx_finish_reported_ok_but_tx_open"]++
		}
		return
	}
	// the transaction has ended: committed as a whole or not at all
	t.registered = present
	with := map[string]string{}
	for k, v := range w.committed {
		with[k] = v
	}
	if op == "commit" && !t.ro {
		for k, v := range t.overlay {
			if v == nil {
				delete(with, k)
			} else {
				with[k] = *v
			}
		}
	}
	dWithout, dWith := w.stateDiff(w.committed), w.stateDiff(with)
	how := op + "_with_dead_ctx"
	switch {
	case dWith == "" && (dWithout != "" || ok):
		// took effect (or there was nothing to write)
		if op == "commit" && !t.ro {
			w.applyOverlay(t)
			if len(t.overlay) > 0 && dWithout != "" {
				w.commits++
				if !ok {
					w.counters["dead_ctx_commit_reported_failure_but_applied"]++
				}
			}
			t.commitsSince = w.commits
			how = "commit"
		}
	case dWithout == "":
		if ok && op == "commit" && !t.ro && len(t.overlay) > 0 {
			w.fail("state_mismatch_after:commit_with_dead_ctx:reported_success", "CommitTransaction with a %s context reported success but the transaction's writes are not visible: %s", ctxKind, dWith)
		}
	default:
		w.fail("state_mismatch_after:"+how, "after %s with a %s context the database matches neither 'applied' (%s) nor 'not applied' (%s)", op, ctxKind, dWith, dWithout)
	}
	t.state = stDone
	t.rec.how = how
	w.released(how, t)
	w.settle()
}

func (w *world) finish(t *txn, op string, keep bool) {
	w.logf("%s client %d (%s %s %s id=%s keep=%v)", op, t.client, t.path, t.mode(), t.state, t.id, keep)
	var err error
	call := func(obj interfaces.Transaction) error {
		if op == "commit" {
			return obj.Commit()
		}
		return obj.Rollback()
	}
	svcCall := func() error {
		if op == "commit" {
			_, e := w.svc.CommitTransaction(context.Background(), &pb.CommitTransactionRequest{TransactionId: t.id})
			return e
		}
		_, e := w.svc.RollbackTransaction(context.Background(), &pb.RollbackTransactionRequest{TransactionId: t.id})
		return e
	}
	if t.state == stOpen {
		faulty := false
		if w.faultNext && w.fb != nil && op == "commit" && !t.ro && len(t.overlay) > 0 {
			w.fb.armed.Store(true)
			faulty = true
		}
		w.faultNext = false
		defer w.fbDisarm()
		if t.path == "svc" {
			err = svcCall()
			if err != nil && strings.Contains(err.Error(), "transaction not found") {
				w.fail("registry_lost_open_tx", "the service does not know the open transaction %s of client %d (last event %s): %v", t.id, t.client, t.rec.how, err)
			}
			t.registered = false
		} else {
			err = call(w.object(t))
			if t.path == "reg" && !keep {
				w.reg.Remove(t.id)
				t.registered = false
			}
		}
		if isClosedErr(err) {
			w.fail("open_tx_reports_closed:"+op+":"+t.path+":"+t.rec.how, "%s of the open transaction of client %d returned %v", op, t.client, err)
		}
		if faulty && !w.fb.armed.Load() && err != nil {
			// The storage refused the batch and Commit reports it: the commit took no
			// effect, the transaction is finished all the same (closed for every later use,
			// lock released, service handle gone).
			w.features["commit_fault_injected"] = true
			w.logf("  commit failed on the injected storage fault: %v", err)
			t.state = stDone
			t.rec.how = "commit_failed"
			w.released("commit_failed", t)
			w.checkState("commit_failed:open")
			if t.path == "svc" {
				if _, ok := w.reg.Get(t.id); ok {
					w.counters["failed_commit_handle_kept"]++
					t.registered = true // legal too: then the cleanup paths still reach it
				}
			}
			w.settle()
			return
		}
		if err != nil {
			w.diverge("%s of an open transaction failed: %v", op, err)
		}
		if op == "commit" && !t.ro {
			w.applyOverlay(t)
			if len(t.overlay) > 0 {
				w.commits++
			}
			t.commitsSince = w.commits
		}
		t.state = stDone
		t.rec.how = op
		w.released(op, t)
		w.checkState(op + ":open")
		w.settle()
		return
	}
	// second and later finish calls: closed error, nothing changes
	w.features["double_finish"] = true
	if t.commitsSince != w.commits && len(t.overlay) > 0 && t.rec.how == "commit" && op == "commit" {
		w.features["recommit_after_other_commits"] = true
	}
	if w.contended(t) {
		w.features["double_finish_contended"] = true
	}
	how := t.rec.how
	if t.path == "svc" {
		err = svcCall()
		if !isGoneErr(err) {
			w.fail(fmt.Sprintf("repeated_finish_accepted:%s:svc:%s", op, how), "%s through the service on the finished transaction %s (%s) returned %v", op, t.id, how, err)
		}
	} else if t.rec.tx != nil {
		err = call(t.rec.tx)
		if !isClosedErr(err) {
			w.fail(fmt.Sprintf("repeated_finish_accepted:%s:%s:%s", op, t.path, how), "%s on the finished transaction (%s) returned %v, want the closed error", op, how, err)
		}
		if t.path == "reg" && t.id != "" && !t.registered {
			// like the service handler, a registry-level client takes the handle out after
			// finishing, also the second time, when the registry no longer has it
			w.reg.Remove(t.id)
			w.features["remove_of_unknown_handle"] = true
		}
	}
	w.checkState(op + ":repeat_after_" + how)
}

func (w *world) fbDisarm() {
	if w.fb != nil {
		w.fb.armed.Store(false)
	}
}

func (w *world) doAbandon(s Step) {
	ci, ok := pick(w.clientsWhere(func(t *txn) bool { return t != nil && t.state == stOpen && t.path != "direct" }), s.C)
	if !ok {
		w.counters["skipped_abandon"]++
		return
	}
	t := w.cur[ci]
	t.state = stGone
	w.features["abandon"] = true
	w.logf("abandon client %d (%s %s id=%s)", ci, t.path, t.mode(), t.id)
}

// expectCleaned: the server has (according to the property) rolled t back.
func (w *world) expectCleaned(t *txn, kind string) {
	if !t.registered {
		return
	}
	if _, ok := w.reg.Get(t.id); ok {
		w.fail("not_cleaned:"+kind+":"+t.state, "after %s the registry still knows transaction %s (%s, %s)", kind, t.id, t.state, t.mode())
	}
	t.registered = false
	if !t.holds() {
		return
	}
	if txActive(t.rec.tx) {
		w.fail("not_rolled_back:"+kind+":"+t.mode(), "after %s transaction %s (%s) was dropped by the registry but is still active", kind, t.id, t.state)
	}
	if t.state == stGone {
		w.features["abandoned_cleaned"] = true
		w.features["abandoned_cleaned_by_"+strings.SplitN(kind, "_sweep", 2)[0]] = true
	}
	t.state = stCleaned
	t.rec.how = kind
	w.released(kind, t)
}

func (w *world) registered() []*txn {
	var out []*txn
	for _, t := range w.all {
		if t.registered {
			out = append(out, t)
		}
	}
	return out
}

func (w *world) doCleanupStale(s Step) {
	w.logf("cleanup_stale (%s)", w.c.Mode)
	regd := w.registered()
	w.epoch++
	if w.short() {
		w.sleepPastLimit()
		w.ageBand(s.AgePct)
		w.reg.CleanupStaleTransactions()
		kind := "stale_" + w.c.Mode
		for _, t := range regd {
			w.expectCleaned(t, kind)
		}
		w.checkState(kind)
		w.settle()
		return
	}
	w.reg.CleanupStaleTransactions()
	for _, t := range regd {
		if _, ok := w.reg.Get(t.id); !ok {
			w.fail("cleanup_removed_fresh_tx:"+t.state, "CleanupStaleTransactions removed transaction %s although neither its idle nor its lifetime limit (1 h / 1 min) has expired", t.id)
		}
	}
}

func (w *world) doCleanupConn(s Step) {
	conn := fmt.Sprintf("conn-%d", ((s.C%w.c.Clients)+w.c.Clients)%w.c.Clients)
	if !s.Peer {
		conn = "unknown"
	}
	w.logf("cleanup_conn %s", conn)
	var hit []*txn
	for _, t := range w.registered() {
		if t.conn == conn {
			hit = append(hit, t)
		}
	}
	w.epoch++
	if s.Svc {
		w.svc.CleanupConnection(conn)
	} else {
		w.reg.CleanupConnection(conn)
	}
	for _, t := range hit {
		w.expectCleaned(t, "cleanup_conn")
	}
	w.checkState("cleanup_conn")
	w.settle()
}

func (w *world) doShutdown() {
	if w.shutdown {
		return
	}
	w.logf("shutdown")
	w.shutdown = true
	w.features["shutdown"] = true
	regd := w.registered()
	w.epoch++
	if err := w.reg.GracefulShutdown(context.Background()); err != nil {
		w.counters["shutdown_reports_error"]++
	}
	for _, t := range regd {
		w.expectCleaned(t, "shutdown")
	}
	w.checkState("shutdown")
	w.settle()
}

func (w *world) doBadGet(s Step) {
	ci, ok := pick(w.clientsWhere(func(t *txn) bool {
		return t != nil && t.path == "svc" && ((t.state == stOpen && !s.OnlyClosed) || t.closed())
	}), s.C)
	if !ok {
		w.counters["skipped_bad_get"]++
		return
	}
	t := w.cur[ci]
	key := []byte{}
	if s.Big {
		key = bytes.Repeat([]byte("x"), 4097)
	}
	w.logf("bad_get client %d (%s id=%s) keylen=%d", ci, t.state, t.id, len(key))
	_, err := w.svc.TxGet(context.Background(), &pb.TxGetRequest{TransactionId: t.id, Key: key})
	if err == nil {
		w.counters["invalid_key_accepted"]++
	}
	if t.state != stOpen {
		w.checkState("rejected_get:closed")
		return
	}
	w.features["rejected_request_on_open_handle"] = true
	w.checkState("rejected_get:open")
	if _, ok := w.reg.Get(t.id); ok {
		return // no side effect: the handle lives on
	}
	// The service chose to let go of the handle. Then it must also have ended the transaction.
	t.registered = false
	if txActive(t.rec.tx) {
		t.state = stDropped
		t.rec.how = "handle_dropped_by_rejected_get"
		w.abort = true
		w.logf("  handle dropped, transaction still active")
		return
	}
	t.state = stCleaned
	t.rec.how = "released_by_rejected_get"
	w.released("rejected_get", t)
	w.settle()
}

// ---- epilogue and probe ----------------------------------------------------

func (w *world) finishEverything() {
	deadTried := map[*txn]bool{}
	for guard := 0; guard < 1000; guard++ {
		w.settle()
		act, inf := w.holders()
		if len(act) == 0 {
			if len(inf) == 0 {
				return
			}
			continue
		}
		t := act[0]
		mode := w.c.End
		if strings.HasSuffix(mode, "_dead_ctx") {
			if t.path == "svc" && t.state == stOpen && !deadTried[t] {
				// the client sends its last request and hangs up
				deadTried[t] = true
				w.finishDeadCtx(t, strings.TrimSuffix(mode, "_dead_ctx"), "cancelled")
				if w.abort {
					return
				}
				continue
			}
			mode = "conn" // whatever is left open after that is the server's to reap
			if t.state == stOpen && t.path == "svc" {
				t.state = stGone
			}
		}
		if t.path == "direct" {
			mode = "rollback"
		}
		if mode == "shutdown" && w.shutdown {
			mode = "conn"
		}
		if mode == "stale" && !w.short() {
			mode = "conn"
		}
		if w.c.Mode == "aged" && t.path != "direct" && w.agedSlept == 0 {
			mode = "stale" // every aged case ends with a sweep that meets the holder in a drawn age band
		}
		if mode == "rollback" && t.state == stGone {
			mode = "conn"
		}
		switch mode {
		case "rollback":
			w.finish(t, "rollback", false)
		case "conn":
			w.doCleanupConn(Step{Op: "cleanup_conn", C: t.client, Peer: t.conn != "unknown"})
		case "stale":
			pct := w.c.EndAgePct
			if pct == 0 {
				pct = 80
			}
			w.doCleanupStale(Step{Op: "cleanup_stale", AgePct: pct})
		case "shutdown":
			w.doShutdown()
		}
		if t.holds() {
			panic("epilogue did not finish a transaction")
		}
	}
	panic("epilogue does not terminate")
}

// probe: a fresh read-write transaction must begin within the bound, and a put
// plus commit must work.
func (w *world) probe(n int) {
	rec := &beginRec{client: -1, path: "probe", how: "probe_open", entered: make(chan struct{})}
	w.weng.mu.Lock()
	rec.n = len(w.weng.recs)
	w.weng.recs = append(w.weng.recs, rec)
	w.weng.next = rec
	w.weng.mu.Unlock()
	done := make(chan struct{})
	go func() {
		defer close(done)
		_, _ = w.weng.BeginTransaction(false)
	}()
	if !w.waitFor(func() bool {
		select {
		case <-done:
			return true
		default:
			return false
		}
	}) {
		w.blocked("a fresh read-write transaction (probe)")
	}
	if rec.err != nil || rec.tx == nil {
		w.diverge("probe begin failed: %v", rec.err)
	}
	w.acquired(false)
	val := fmt.Sprintf("p%d.%d", w.rep, n)
	if err := rec.tx.Put([]byte(probeKey), []byte(val)); err != nil {
		w.fail("probe_put_failed", "put in the fresh transaction: %v", err)
	}
	if err := rec.tx.Commit(); err != nil {
		w.fail("probe_commit_failed", "commit of the fresh transaction: %v", err)
	}
	rec.how = "probe_done"
	w.committed[probeKey] = val
	w.checkState("probe")
}

// refinishAll: at the very end one more transaction overwrites every pool key,
// and then EVERY handle that was ever finished (by its client or by the server)
// is committed and rolled back once more. Each call must report the closed
// error and the database must stay exactly as it is: a finish that takes
// effect a second time puts an old value back.
func (w *world) refinishAll() {
	w.stepNo = len(w.c.Steps) + 1
	rec := &beginRec{client: -1, path: "probe", how: "probe_open", entered: make(chan struct{})}
	w.weng.mu.Lock()
	rec.n = len(w.weng.recs)
	w.weng.recs = append(w.weng.recs, rec)
	w.weng.next = rec
	w.weng.mu.Unlock()
	done := make(chan struct{})
	go func() {
		defer close(done)
		_, _ = w.weng.BeginTransaction(false)
	}()
	if !w.waitFor(func() bool {
		select {
		case <-done:
			return true
		default:
			return false
		}
	}) {
		w.blocked("the final overwriting transaction")
	}
	if rec.err != nil || rec.tx == nil {
		w.diverge("final begin failed: %v", rec.err)
	}
	for i := 0; i < nKeys; i++ {
		k, v := keyOf(i), fmt.Sprintf("z%d", i)
		if i == nKeys-1 {
			if err := rec.tx.Delete([]byte(k)); err != nil {
				w.diverge("final delete: %v", err)
			}
			delete(w.committed, k)
			continue
		}
		if err := rec.tx.Put([]byte(k), []byte(v)); err != nil {
			w.diverge("final put: %v", err)
		}
		w.committed[k] = v
	}
	if err := rec.tx.Commit(); err != nil {
		w.diverge("final commit: %v", err)
	}
	rec.how = "probe_done"
	w.checkState("final_overwrite")
	n := 0
	for _, t := range w.all {
		if !t.closed() || t.rec == nil || t.rec.ghost {
			continue // (a late begin's transaction belongs to the goroutine inside Registry.Begin, not to a client)
		}
		for _, op := range []string{"commit", "rollback"} {
			var err error
			how := t.rec.how
			switch {
			case t.path == "svc" && t.id != "":
				if op == "commit" {
					_, err = w.svc.CommitTransaction(context.Background(), &pb.CommitTransactionRequest{TransactionId: t.id})
				} else {
					_, err = w.svc.RollbackTransaction(context.Background(), &pb.RollbackTransactionRequest{TransactionId: t.id})
				}
				if !isGoneErr(err) {
					w.fail(fmt.Sprintf("repeated_finish_accepted:%s:svc:%s", op, how), "final %s through the service on the finished transaction %s (%s) returned %v", op, t.id, how, err)
				}
			case t.rec.acquired.Load() && t.rec.tx != nil:
				if op == "commit" {
					err = t.rec.tx.Commit()
				} else {
					err = t.rec.tx.Rollback()
				}
				if !isClosedErr(err) {
					w.fail(fmt.Sprintf("repeated_finish_accepted:%s:%s:%s", op, t.path, how), "final %s on the finished transaction (%s) returned %v, want the closed error", op, how, err)
				}
			default:
				continue
			}
			n++
			w.checkState(op + ":repeat_after_" + how)
		}
	}
	w.counters["final_refinish_calls"] += n
}

// registryProbe: at the very end every kind of registry call must still return
// within the bound: Begin (through the registry, read-write), Get, Remove,
// CleanupConnection, the sweep.
func (w *world) registryProbe() {
	if w.shutdown {
		// no new transactions on a registry that was shut down; the other calls must still answer
		w.reg.Get("tx-0")
		w.reg.CleanupConnection("conn-probe")
		w.reg.CleanupStaleTransactions()
		return
	}
	t := &txn{client: -1, path: "reg", conn: "conn-probe", overlay: map[string]*string{}}
	w.all = append(w.all, t)
	w.issue(t, 0)
	if !w.waitFor(func() bool { return isDone(t.call) }) {
		if t.rec.acquired.Load() {
			panic(registryBlockedVerdict("Begin", w))
		}
		w.blocked("a fresh read-write transaction through Registry.Begin (registry probe)")
	}
	if t.call.err != nil {
		w.diverge("registry probe begin: %v", t.call.err)
	}
	t.id, t.state, t.rec.how = t.call.id, stOpen, "begin"
	tx, ok := w.reg.Get(t.id)
	if !ok {
		w.fail("registry_lost_open_tx", "the registry does not know the handle %s it has just returned (registry probe)", t.id)
	}
	if err := tx.Rollback(); err != nil {
		w.diverge("registry probe rollback: %v", err)
	}
	t.state, t.rec.how = stDone, "rollback"
	w.reg.Remove(t.id)
	w.reg.CleanupConnection("conn-probe")
	w.reg.CleanupStaleTransactions()
	if _, ok := w.reg.Get(t.id); ok {
		w.fail("not_cleaned:remove", "the registry still knows %s after Remove", t.id)
	}
}

func (w *world) ghosts() []*beginRec {
	w.weng.mu.Lock()
	defer w.weng.mu.Unlock()
	var out []*beginRec
	for _, r := range w.weng.recs {
		if r.ghost {
			out = append(out, r)
		}
	}
	return out
}

func (w *world) run() {
	if w.c.Long != nil {
		w.runLongLived()
		w.stepNo = w.c.Long.Lives
		w.probe(0)
		w.registryProbe()
		return
	}
	for i, s := range w.c.Steps {
		if w.abort {
			break
		}
		w.stepNo = i
		w.counters["steps"]++
		switch s.Op {
		case "begin":
			w.doBegin(s)
		case "write_tx":
			w.doWriteTx(s)
		case "put", "del", "get", "scan":
			w.doUse(s)
		case "commit", "rollback":
			w.doFinish(s)
		case "abandon":
			w.doAbandon(s)
		case "bad_get":
			w.doBadGet(s)
		case "cleanup_stale":
			w.doCleanupStale(s)
		case "cleanup_conn":
			w.doCleanupConn(s)
		case "shutdown":
			w.doShutdown()
		case "race_finish":
			w.doRaceFinish(s)
		}
	}
	w.stepNo = len(w.c.Steps)
	if !w.abort {
		w.logf("epilogue (%s)", w.c.End)
		w.finishEverything()
	}
	// According to the model nothing holds the lock now.
	w.logf("probe")
	w.probe(0)
	gs := w.ghosts()
	if len(gs) > 0 {
		drained := w.waitFor(func() bool {
			for _, g := range gs {
				if !g.acquired.Load() || (g.tx != nil && txActive(g.tx)) {
					return false
				}
			}
			return true
		})
		if !drained {
			w.counters["late_begin_not_drained"]++
			for _, g := range gs {
				act := g.acquired.Load() && g.tx != nil && txActive(g.tx)
				w.notes = append(w.notes, fmt.Sprintf("late begin not drained: rec %d %s %s acquired=%v active=%v mode=%s trace=%s", g.n, g.path, g.mode(), g.acquired.Load(), act, w.c.Mode, strings.Join(w.trace, " | ")))
			}
			buf := make([]byte, 1<<20)
			n := runtime.Stack(buf, true)
			for _, gr := range bytes.Split(buf[:n], []byte("\n\n")) {
				if bytes.Contains(gr, []byte("RegistryImpl")) {
					w.notes = append(w.notes, "goroutine: "+string(gr))
				}
			}
		}
		w.probe(1)
	}
	w.refinishAll()
	w.registryProbe()
	if d, ok := w.leak(false); ok {
		// active, unreachable, yet nobody is blocked: cannot happen while begin takes the lock
		w.counters["active_unreachable_tx_not_blocking"]++
		w.logf("note: %s is still active", d)
	}
}

func (w *world) close() {
	if !w.shutdown {
		_ = w.reg.GracefulShutdown(context.Background())
	}
	_ = w.eng.Close()
	_ = os.RemoveAll(w.dir)
}

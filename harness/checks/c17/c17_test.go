// C17 — every transaction ends and releases the database.
// Lock-aware stateful model over transaction.Manager (through the engine),
// transaction.Registry and the KevoServiceServer handlers (DESIGN.md 5/C17).
//
// The generator process (rapid) only draws and classifies cases. Each case is
// executed in a child process of its own (exec_test.go): a leaked lock leaves
// the engine wedged for good and a double unlock is a fatal runtime error,
// neither of which may take the generator down; a dying child is a verdict.
package c17

import (
	"bytes"
	"encoding/json"
	"fmt"
	"os"
	"os/exec"
	"path/filepath"
	"sort"
	"strings"
	"testing"
	"time"

	"pgregory.net/rapid"

	"verif/internal/ev"
)

const rule = "cases = rapid-drawn scenarios (registry mode long/short idle limit/short lifetime limit/aged (idle limit 20-50 ms, lifetime 10x, drawn warning threshold), 2-5 logical clients each holding at most one transaction, " +
	"6-32 steps over begin{direct,Registry.Begin,service RPC; ro/rw; optional 20-100 ms deadline or caller cancels before/at/50us after the lock grant}/write_tx(=begin rw+put+commit)/put/del/get/scan/commit{optionally on an injected ApplyBatch fault}/rollback{every service call with a live, cancelled or expired request context}/abandon/rejected TxGet/" +
	"CleanupStaleTransactions/CleanupConnection/GracefulShutdown, drawn way of ending what is still open), each executed in a child process on its own engine; " +
	"oracle = lock-aware model (who holds the RW lock, which begins are queued) + map model of the database + closed-error rule + 'a fresh read-write " +
	"transaction begins within 5 s and put+commit works' after every scenario (scenarios with a timed-out begin are run 4 times); " +
	"non-trivial = the executed scenario contains a begin that timed out while queued for the lock, a begin whose caller gives up at the moment the lock is granted, " +
	"two finishers queued behind a slow read of the same transaction, a long-lived server (1000-1500 abandoned client lives against one service instance, about 1 case in 200), a slow commit overlapped by a second finisher or a server-side cleanup of the same transaction, a sweep that meets a transaction in the last quarter of its lifetime, a commit that hit an injected storage fault, a service call on an open transaction whose request context is already cancelled or expired, an abandoned transaction cleaned up by the server, " +
	"or a repeated commit/rollback while another client holds or waits for the lock; distinct by FNV-64 of the case JSON"

// KV is one initial database entry.
type KV struct {
	K int    `json:"k"`
	V string `json:"v"`
}

// Step is one scenario step. C is a SELECTOR: the step applies to the
// (C mod n)-th of the n clients it can apply to at that moment (a step nobody
// can take is skipped), so steps can be drawn independently of each other and
// deleted freely while shrinking.
type Step struct {
	Op string `json:"op"` // begin put del get scan commit rollback abandon bad_get cleanup_stale cleanup_conn shutdown; write_tx = begin rw + put + commit

	C          int    `json:"c"`
	Path       string `json:"path,omitempty"`        // begin: direct | reg | svc
	RO         bool   `json:"ro,omitempty"`          // begin
	Peer       bool   `json:"peer,omitempty"`        // begin: context carries a "peer" connection id; cleanup_conn: clean conn-<C> (else "unknown")
	DeadlineMs int    `json:"deadline_ms,omitempty"` // begin: context deadline, used when the call certainly has to wait longer
	GiveUp     string `json:"give_up,omitempty"`     // begin (reg/svc): the caller's context is cancelled before_grant | at_grant | soon_after the lock is granted inside Registry.Begin
	Ctx        string `json:"ctx,omitempty"`         // request context of a service call: "" live | cancelled | expired (dead before the handler runs); begin: registry path too
	DeadAt     string `json:"dead_at,omitempty"`     // write_tx on the service path with a dead Ctx: which call gets it: op (the put) | commit | rollback (instead of the commit)
	SlowMs     int    `json:"slow_ms,omitempty"`     // commit/write_tx (registry or service path, wrapped backend): the storage takes this long for the batch, and meanwhile ...
	During     string `json:"during,omitempty"`      // ... commit | rollback (second finisher on the same handle) | cleanup_conn | cleanup_stale | shutdown happens
	AgePct     int    `json:"age_pct,omitempty"`     // cleanup_stale in aged mode: first wait until the oldest registered holder is at this % of its lifetime limit
	Pair       string `json:"pair,omitempty"`        // race_finish: the two finish calls issued while a slow read (slow_ms) of the transaction is inside the storage, e.g. commit+rollback
	Fault      bool   `json:"fault,omitempty"`       // commit/write_tx: the storage refuses the batch of this commit (wrapped backend only)
	K          int    `json:"k,omitempty"`
	V          string `json:"v,omitempty"`
	Again      bool   `json:"again,omitempty"`       // put/del/get/scan/commit/rollback: prefer a client whose transaction is already finished
	Keep       bool   `json:"keep,omitempty"`        // commit/rollback on the registry path: leave the handle in the registry
	Svc        bool   `json:"svc,omitempty"`         // cleanup_conn through KevoServiceServer.CleanupConnection
	Big        bool   `json:"big,omitempty"`         // bad_get: 4097-byte key instead of an empty one
	OnlyClosed bool   `json:"only_closed,omitempty"` // bad_get: never on an open handle (generator flag reject_on_open_handle off)
}

// Case is one generated scenario.
type Case struct {
	Mode      string    `json:"mode"`              // long | short_idle | short_ttl
	Backend   string    `json:"backend,omitempty"` // "" = transactions from the engine's own manager; wrapped = own manager over the engine's storage manager behind the fault-injecting pass-through
	LimitMs   int       `json:"limit_ms"`
	Warn      int       `json:"warn,omitempty"`        // registry warning threshold in % of the lifetime limit (critical = +25, at most 95); 0 = 75/90
	EndAgePct int       `json:"end_age_pct,omitempty"` // aged mode: age band (% of the lifetime limit) in which the final sweep meets the oldest holder
	Clients   int       `json:"clients"`
	Init      []KV      `json:"init,omitempty"`
	Steps     []Step    `json:"steps"`
	End       string    `json:"end"`            // rollback | conn | stale | shutdown | commit_dead_ctx | rollback_dead_ctx (service transactions: finish call with a cancelled request context first)
	Long      *LongSpec `json:"long,omitempty"` // long-lived server case (steps unused)
}

// Result is what the child reports.
type Result struct {
	Verdict  *verdict       `json:"verdict,omitempty"`
	Features []string       `json:"features"`
	Counters map[string]int `json:"counters"`
	Diverged string         `json:"diverged,omitempty"`
	Infra    string         `json:"infra,omitempty"`
	Trace    []string       `json:"trace,omitempty"`
	Notes    []string       `json:"notes,omitempty"`
	Reps     int            `json:"reps"`
}

// Doc is the replay document.
type Doc struct {
	Property  string   `json:"property"`
	Comment   string   `json:"comment,omitempty"`
	Case      Case     `json:"case"`
	Signature string   `json:"signature,omitempty"`
	Message   string   `json:"message,omitempty"`
	Trace     []string `json:"trace,omitempty"`
}

func TestMain(m *testing.M) {
	if spec := os.Getenv("VERIF_C17_CHILD"); spec != "" {
		childMain(spec, os.Getenv("VERIF_C17_RESULT"))
		os.Exit(0)
	}
	ev.Silence()
	rec := ev.Init("C17", rule)
	code := m.Run()
	rec.Flush(true)
	os.Exit(code)
}

// ---- child -----------------------------------------------------------------

func childMain(specPath, resPath string) {
	if f, err := os.OpenFile(os.DevNull, os.O_WRONLY, 0); err == nil {
		os.Stdout = f
	}
	res := &Result{Counters: map[string]int{}}
	curRes, curResPath = res, resPath
	write := func() {
		curResMu.Lock()
		defer curResMu.Unlock()
		writeResult()
	}
	b, err := os.ReadFile(specPath)
	if err != nil {
		res.Infra = err.Error()
		write()
		return
	}
	var c Case
	if err := json.Unmarshal(b, &c); err != nil {
		res.Infra = err.Error()
		write()
		return
	}
	scratch := filepath.Dir(specPath)
	startHeartbeat()
	startWatchdog()
	feats := map[string]bool{}
	reps := 1
	for rep := 0; rep < reps; rep++ {
		w, stop := runOnce(&c, rep, scratch, res)
		if w != nil {
			for f := range w.features {
				feats[f] = true
			}
			for k, v := range w.counters {
				res.Counters[k] += v
			}
			res.Notes = append(res.Notes, w.notes...)
		}
		res.Reps = rep + 1
		if stop {
			break
		}
		// the outcome of a begin that timed out in the queue is a coin flip per
		// late begin on a tree with the leak: run such scenarios 4 times
		if rep == 0 && (feats["late_begin"] || feats["cancel_at_grant"] || feats["ctx_dead_at_begin"]) {
			reps = 4
		}
	}
	for f := range feats {
		res.Features = append(res.Features, f)
	}
	sort.Strings(res.Features)
	write()
	// never wait for anything: a wedged engine is simply abandoned with the process
	os.Exit(0)
}

// runOnce executes the case once on a fresh engine. stop=true: do not repeat.
func runOnce(c *Case, rep int, scratch string, res *Result) (w *world, stop bool) {
	defer func() {
		if r := recover(); r != nil {
			switch x := r.(type) {
			case *verdict:
				res.Verdict = x
				if w != nil {
					res.Trace = w.trace
				}
			case *diverged:
				res.Diverged = x.why
				if w != nil {
					res.Trace = w.trace
				}
			default:
				res.Infra = fmt.Sprintf("harness panic: %v", r)
			}
			stop = true
		}
	}()
	w = newWorld(c, rep, scratch)
	w.run()
	w.close()
	return w, false
}

// ---- parent ----------------------------------------------------------------

var caseSeq int

// runCase executes one case in a child process.
func runCase(c *Case) *Result {
	caseSeq++
	scratch, err := os.MkdirTemp("", "c17-")
	if err != nil {
		panic(err)
	}
	defer os.RemoveAll(scratch)
	spec := filepath.Join(scratch, "case.json")
	resf := filepath.Join(scratch, "result.json")
	b, _ := json.Marshal(c)
	if err := os.WriteFile(spec, b, 0o644); err != nil {
		panic(err)
	}
	cmd := exec.Command(os.Args[0], "-test.run", "^$")
	cmd.Env = append(os.Environ(), "VERIF_C17_CHILD="+spec, "VERIF_C17_RESULT="+resf, "TMPDIR="+scratch)
	var stderr bytes.Buffer
	cmd.Stderr = &stderr
	cmd.Stdout = nil
	if err := cmd.Start(); err != nil {
		panic(err)
	}
	done := make(chan error, 1)
	go func() { done <- cmd.Wait() }()
	var werr error
	select {
	case werr = <-done:
	case <-time.After(600 * time.Second):
		_ = cmd.Process.Kill()
		<-done
		panic("C17 child exceeded 600 s (infrastructure problem): " + tailStr(stderr.String(), 2000))
	}
	if rb, err := os.ReadFile(resf); err == nil {
		var res Result
		if err := json.Unmarshal(rb, &res); err != nil {
			panic(fmt.Sprintf("unreadable child result: %v", err))
		}
		if res.Infra != "" {
			panic("C17 child: " + res.Infra)
		}
		return &res
	}
	// no result: the process died. A Go runtime fatal error / panic raised under
	// the scenario is an observation about the code under test.
	se := stderr.String()
	line := deathLine(se)
	if line == "" {
		panic(fmt.Sprintf("C17 child ended without a result (%v): %s", werr, tailStr(se, 2000)))
	}
	return &Result{Verdict: &verdict{Sig: "process_died:" + line, Msg: "the process running the scenario died: " + tailStr(firstLines(se, 40), 3000), Step: -1}, Counters: map[string]int{}}
}

func deathLine(stderr string) string {
	for _, ln := range strings.Split(stderr, "\n") {
		ln = strings.TrimSpace(ln)
		if strings.HasPrefix(ln, "fatal error:") || strings.HasPrefix(ln, "panic:") {
			if i := strings.Index(ln, "0x"); i > 0 {
				ln = ln[:i]
			}
			if len(ln) > 120 {
				ln = ln[:120]
			}
			return ln
		}
	}
	return ""
}

func firstLines(s string, n int) string {
	ls := strings.Split(s, "\n")
	if len(ls) > n {
		ls = ls[:n]
	}
	return strings.Join(ls, "\n")
}

func tailStr(s string, n int) string {
	if len(s) <= n {
		return s
	}
	return s[len(s)-n:]
}

// ---- generator -------------------------------------------------------------

var opTable = func() []string {
	w := []struct {
		op string
		n  int
	}{
		{"begin", 19}, {"write_tx", 12}, {"put", 11}, {"del", 4}, {"get", 3}, {"scan", 2}, {"commit", 16}, {"rollback", 10},
		{"abandon", 8}, {"race_finish", 6}, {"bad_get", 4}, {"cleanup_stale", 5}, {"cleanup_conn", 6}, {"shutdown", 1},
	}
	var out []string
	for _, e := range w {
		for i := 0; i < e.n; i++ {
			out = append(out, e.op)
		}
	}
	return out
}()

// keys: key 0 is drawn most often so that different transactions meet on it
var keyTable = []int{0, 0, 0, 1, 2}

// request context of a service call (ignored on the other paths): dead in 5 of 10
var ctxTable = []string{"", "", "", "", "", "cancelled", "cancelled", "cancelled", "expired", "expired"}
var ctxBeginTable = []string{"", "", "", "", "", "", "", "", "cancelled", "expired"}

// slow commits (ms inside the storage) and what happens to the same transaction meanwhile
var slowTable = []int{0, 0, 0, 0, 0, 2, 2, 5, 10, 30}
var duringTable = []string{"commit", "rollback", "rollback", "cleanup_conn", "cleanup_stale", "shutdown"}

func genStep(t *rapid.T) Step {
	s := Step{Op: rapid.SampledFrom(opTable).Draw(t, "op"), C: rapid.IntRange(0, 11).Draw(t, "c")}
	switch s.Op {
	case "begin":
		s.Path = rapid.SampledFrom([]string{"direct", "direct", "reg", "reg", "reg", "svc", "svc", "svc", "svc", "svc"}).Draw(t, "path")
		s.RO = rapid.IntRange(0, 9).Draw(t, "ro") < 4
		if s.Path != "direct" {
			s.Peer = rapid.IntRange(0, 9).Draw(t, "peer") < 8
			s.DeadlineMs = rapid.SampledFrom([]int{0, 0, 0, 0, 0, 20, 20, 30, 50, 100}).Draw(t, "deadline_ms")
			if s.Path == "svc" && rapid.IntRange(0, 9).Draw(t, "plain") < 4 {
				// enough plain service transactions for the calls with dead request contexts to land on
				s.DeadlineMs = 0
				return s
			}
			if s.DeadlineMs > 0 && !ev.Flag("late_begin_timeout") {
				ev.R().Exclude("late_begin_timeout")
				s.DeadlineMs = 0
			}
			if g := rapid.SampledFrom([]string{"", "", "", "", "", "", "", "at_grant", "before_grant", "soon_after"}).Draw(t, "give_up"); s.DeadlineMs == 0 {
				s.GiveUp = g
			}
			if c := rapid.SampledFrom(ctxBeginTable).Draw(t, "ctx"); s.DeadlineMs == 0 && s.GiveUp == "" {
				s.Ctx = c
			}
		}
	case "write_tx":
		s.Path = rapid.SampledFrom([]string{"direct", "reg", "svc", "svc"}).Draw(t, "path")
		s.Peer = s.Path != "direct" && rapid.IntRange(0, 9).Draw(t, "peer") < 8
		s.K = rapid.SampledFrom(keyTable).Draw(t, "k")
		s.V = fmt.Sprintf("w%d", rapid.IntRange(0, 999).Draw(t, "v"))
		s.Keep = rapid.IntRange(0, 9).Draw(t, "keep") < 3
		s.Fault = rapid.IntRange(0, 9).Draw(t, "fault") < 5
		if s.Path != "direct" {
			s.SlowMs = rapid.SampledFrom(slowTable).Draw(t, "slow_ms")
			s.During = rapid.SampledFrom(duringTable).Draw(t, "during")
			if s.SlowMs == 0 {
				s.During = ""
			}
		}
		if s.Path == "svc" && s.SlowMs == 0 {
			s.Ctx = rapid.SampledFrom(ctxTable).Draw(t, "ctx")
			s.DeadAt = rapid.SampledFrom([]string{"commit", "rollback", "op"}).Draw(t, "dead_at")
			if s.Ctx == "" {
				s.DeadAt = ""
			}
		}
	case "put":
		s.K = rapid.SampledFrom(keyTable).Draw(t, "k")
		s.V = fmt.Sprintf("v%d", rapid.IntRange(0, 999).Draw(t, "v"))
		s.Again = rapid.IntRange(0, 9).Draw(t, "again") < 3
		s.Ctx = rapid.SampledFrom(ctxTable).Draw(t, "ctx")
	case "del", "get":
		s.K = rapid.SampledFrom(keyTable).Draw(t, "k")
		s.Again = rapid.IntRange(0, 9).Draw(t, "again") < 3
		s.Ctx = rapid.SampledFrom(ctxTable).Draw(t, "ctx")
	case "scan":
		s.Again = rapid.IntRange(0, 9).Draw(t, "again") < 3
		s.Ctx = rapid.SampledFrom(ctxTable).Draw(t, "ctx")
	case "commit", "rollback":
		s.Keep = rapid.IntRange(0, 9).Draw(t, "keep") < 3
		s.Again = rapid.IntRange(0, 9).Draw(t, "again") < 4
		if s.Op == "commit" {
			s.Fault = rapid.IntRange(0, 9).Draw(t, "fault") < 5
		}
		s.Ctx = rapid.SampledFrom(ctxTable).Draw(t, "ctx")
		if s.Op == "commit" {
			s.SlowMs = rapid.SampledFrom(slowTable).Draw(t, "slow_ms")
			s.During = rapid.SampledFrom(duringTable).Draw(t, "during")
			if s.SlowMs == 0 {
				s.During = ""
			} else {
				s.Ctx = ""
			}
		}
	case "race_finish":
		s.SlowMs = rapid.SampledFrom([]int{2, 5, 10, 30}).Draw(t, "slow_ms")
		s.Pair = rapid.SampledFrom([]string{"commit+rollback", "commit+rollback", "rollback+commit", "rollback+rollback", "commit+commit"}).Draw(t, "pair")
	case "cleanup_stale":
		s.AgePct = rapid.SampledFrom([]int{0, 30, 60, 80, 80, 95}).Draw(t, "age_pct")
	case "cleanup_conn":
		s.Peer = rapid.IntRange(0, 9).Draw(t, "peer") < 8
		s.Svc = rapid.Bool().Draw(t, "via_service")
	case "bad_get":
		s.Big = rapid.Bool().Draw(t, "big")
		if !ev.Flag("reject_on_open_handle") {
			ev.R().Exclude("reject_on_open_handle")
			s.OnlyClosed = true
		}
	}
	return s
}

func genCase(t *rapid.T) Case {
	// about one long-lived-server case per process of the quick tier
	// (a residue of a 64-bit draw: rapid's small ranges are heavily biased towards their ends)
	if rapid.Uint64().Draw(t, "long_lived")%251 == 57 {
		return Case{Mode: "short_idle", LimitMs: 10, Clients: 1, End: "rollback", Long: &LongSpec{
			Lives:  rapid.IntRange(1000, 1500).Draw(t, "lives"),
			Seed:   int64(rapid.IntRange(1, 1<<30).Draw(t, "life_seed")),
			RoPct:  rapid.IntRange(20, 70).Draw(t, "ro_pct"),
			Polite: rapid.IntRange(5, 25).Draw(t, "polite_pct"),
			Batch:  rapid.IntRange(10, 40).Draw(t, "batch"),
		}}
	}
	c := Case{
		Mode:    rapid.SampledFrom([]string{"long", "long", "short_idle", "short_ttl", "aged", "aged"}).Draw(t, "mode"),
		Clients: rapid.IntRange(2, 5).Draw(t, "clients"),
		End:     rapid.SampledFrom([]string{"rollback", "conn", "stale", "shutdown", "commit_dead_ctx", "rollback_dead_ctx"}).Draw(t, "end"),
	}
	if rapid.IntRange(0, 2).Draw(t, "wrapped_backend") > 0 {
		c.Backend = "wrapped"
	}
	if c.Mode == "aged" {
		c.Warn = rapid.SampledFrom([]int{0, 50}).Draw(t, "warn")
		c.EndAgePct = rapid.SampledFrom([]int{60, 80, 80, 95}).Draw(t, "end_age_pct")
	}
	if c.Mode != "long" {
		c.LimitMs = rapid.SampledFrom([]int{20, 30, 50}).Draw(t, "limit_ms")
		if c.Mode == "aged" && c.LimitMs > 30 {
			c.LimitMs = 30 // lifetime limit = 10 x: keep the waiting short
		}
	}
	nInit := rapid.IntRange(0, 3).Draw(t, "n_init")
	for i := 0; i < nInit; i++ {
		c.Init = append(c.Init, KV{K: i, V: fmt.Sprintf("i%d", i)})
	}
	c.Steps = rapid.SliceOfN(rapid.Custom(genStep), 6, 32).Draw(t, "steps")
	return c
}

// ---- classification --------------------------------------------------------

func classify(res *Result) (nontrivial bool, classes []string) {
	f := map[string]bool{}
	for _, x := range res.Features {
		f[x] = true
		classes = append(classes, x)
	}
	nontrivial = f["late_begin"] || f["finish_overlapped"] || f["race_finish"] || f["long_lived_server"] || f["aged_sweep_warning_to_critical"] || f["aged_sweep_above_critical"] || f["cancel_at_grant"] || f["commit_fault_injected"] || f["ctx_dead_at_commit"] || f["ctx_dead_at_rollback"] || f["ctx_dead_at_op"] || f["ctx_dead_at_begin"] || f["abandoned_cleaned"] || f["double_finish_contended"]
	if nontrivial {
		classes = append(classes, "nontrivial")
	}
	if res.Diverged != "" {
		classes = append(classes, "diverged")
	}
	return
}

func record(c *Case, res *Result) {
	nt, classes := classify(res)
	ev.R().Case(ev.Hash(c), nt, classes, func() any { return c })
	for k, v := range res.Counters {
		ev.R().Count(k, v)
	}
	ev.R().Count("scenario_executions", res.Reps)
	for _, n := range res.Notes {
		ev.R().Note(n)
	}
	if res.Diverged != "" {
		ev.R().Count("cases_diverged", 1)
		ev.R().Note("diverged: " + res.Diverged)
	}
}

func TestProp(t *testing.T) {
	rapid.Check(t, func(t *rapid.T) {
		c := genCase(t)
		res := runCase(&c)
		record(&c, res)
		if v := res.Verdict; v != nil {
			path := ev.R().Fail(v.Sig, v.Msg, Doc{Property: "C17", Case: c, Signature: v.Sig, Message: v.Msg, Trace: res.Trace})
			// The message given to rapid is constant on purpose: rapid gives up shrinking as
			// soon as two runs of one case end with different messages, and the identity of
			// the leaked transaction (or the waiting time) may differ from run to run.
			t.Logf("C17 violated: %s: %s (step %d, run %d; replay %s)", v.Sig, v.Msg, v.Step, v.Rep, path)
			t.Fatalf("C17 violated")
		}
	})
}

// TestReplay re-runs a saved case without the library. A scenario whose
// outcome depends on the coin flip inside Registry.Begin is tried several
// times (each try already runs it 4 times).
func TestReplay(t *testing.T) {
	f := os.Getenv("VERIF_REPLAY")
	if f == "" {
		t.Skip("no VERIF_REPLAY")
	}
	b, err := os.ReadFile(f)
	if err != nil {
		t.Fatal(err)
	}
	var d Doc
	if err := json.Unmarshal(b, &d); err != nil {
		t.Fatal(err)
	}
	tries := 1
	for i := 0; i < tries; i++ {
		res := runCase(&d.Case)
		if res.Diverged != "" {
			t.Logf("replay diverged: %s", res.Diverged)
		}
		if v := res.Verdict; v != nil {
			ev.WriteReplayResult(ev.ReplayResult{File: f, Outcome: "fail", Signature: v.Sig, Message: v.Msg})
			t.Logf("replay fails: %s: %s\n%s", v.Sig, v.Msg, strings.Join(res.Trace, "\n"))
			return
		}
		for _, x := range res.Features {
			if (x == "late_begin" || x == "cancel_at_grant" || x == "ctx_dead_at_begin") && i == 0 {
				tries = 3
			}
		}
	}
	ev.WriteReplayResult(ev.ReplayResult{File: f, Outcome: "pass"})
}

// Bounded registry / service calls: every synchronous call the driver (or a
// finisher goroutine of the driver) makes into the transaction registry or a
// service handler is tracked; a watchdog on the heartbeat clock turns a call
// that does not return within the liveness bound into the verdict
// registry_call_blocked:<call> (with the stacks of the goroutines inside the
// registry / service), writes the result and ends the child process.
package c17

import (
	"bytes"
	"context"
	"encoding/json"
	"fmt"
	"os"
	"runtime"
	"sort"
	"strings"
	"sync"
	"sync/atomic"
	"time"

	"github.com/KevoDB/kevo/pkg/grpc/service"
	"github.com/KevoDB/kevo/pkg/transaction"
	pb "github.com/KevoDB/kevo/proto/kevo"
)

type outCall struct {
	name string
	t0   int64
}

type callTracker struct {
	mu  sync.Mutex
	seq int
	out map[int]*outCall
}

var calls = &callTracker{out: map[int]*outCall{}}

func (c *callTracker) do(name string, f func()) {
	c.mu.Lock()
	c.seq++
	id := c.seq
	c.out[id] = &outCall{name: name, t0: ticks.Load()}
	c.mu.Unlock()
	defer func() {
		c.mu.Lock()
		delete(c.out, id)
		c.mu.Unlock()
	}()
	f()
}

// overdue returns the name of the longest outstanding call that has exceeded the bound.
func (c *callTracker) overdue() (string, bool) {
	now := ticks.Load()
	c.mu.Lock()
	defer c.mu.Unlock()
	name, worst := "", int64(-1)
	for _, oc := range c.out {
		if d := now - oc.t0; d >= ticksOf(slowBound) && d > worst {
			name, worst = oc.name, d
		}
	}
	return name, worst >= 0
}

// child-process globals used by the watchdog
var (
	curWorld   atomic.Pointer[world]
	curRes     *Result
	curResPath string
	curResMu   sync.Mutex
)

func writeResult() {
	b, _ := json.Marshal(curRes)
	tmp := curResPath + ".tmp"
	_ = os.WriteFile(tmp, b, 0o644)
	_ = os.Rename(tmp, curResPath)
}

// stacksInside returns the stacks of all goroutines that are inside the
// transaction registry or the service handlers.
func stacksInside() string {
	buf := make([]byte, 1<<20)
	n := runtime.Stack(buf, true)
	var out []string
	for _, g := range bytes.Split(buf[:n], []byte("\n\n")) {
		if bytes.Contains(g, []byte("transaction.(*RegistryImpl)")) || bytes.Contains(g, []byte("service.(*KevoServiceServer)")) {
			s := string(g)
			if len(s) > 1800 {
				s = s[:1800] + "\n\t..."
			}
			out = append(out, s)
		}
	}
	sort.Strings(out)
	if len(out) > 8 {
		out = out[:8]
	}
	return strings.Join(out, "\n\n")
}

func registryBlockedVerdict(name string, w *world) *verdict {
	v := &verdict{Sig: "registry_call_blocked:" + name,
		Msg: fmt.Sprintf("the registry/service call %s has not returned within %v (heartbeat clock); goroutines inside the registry or the service:\n%s", name, slowBound, stacksInside())}
	if w != nil {
		v.Step, v.Rep = w.stepNo, w.rep
	}
	return v
}

func startWatchdog() {
	go func() {
		for {
			time.Sleep(50 * time.Millisecond)
			name, late := calls.overdue()
			if !late {
				continue
			}
			curResMu.Lock()
			w := curWorld.Load()
			curRes.Verdict = registryBlockedVerdict(name, w)
			if w != nil {
				curRes.Trace = append([]string{}, w.trace...)
				for f := range w.features {
					curRes.Features = append(curRes.Features, f)
				}
				sort.Strings(curRes.Features)
				curRes.Reps = w.rep + 1
			}
			writeResult()
			os.Exit(0)
		}
	}()
}

// regProxy is what the driver uses instead of the registry itself. Begin is
// not tracked (a begin legitimately waits for the lock; it has its own bounds).
type regProxy struct {
	real transaction.Registry
	impl *transaction.RegistryImpl
}

func (r *regProxy) Begin(ctx context.Context, eng interface{}, ro bool) (string, error) {
	return r.real.Begin(ctx, eng, ro)
}
func (r *regProxy) Get(id string) (tx transaction.Transaction, ok bool) {
	calls.do("Get", func() { tx, ok = r.real.Get(id) })
	return
}
func (r *regProxy) Remove(id string) { calls.do("Remove", func() { r.real.Remove(id) }) }
func (r *regProxy) CleanupConnection(c string) {
	calls.do("CleanupConnection", func() { r.real.CleanupConnection(c) })
}
func (r *regProxy) GracefulShutdown(ctx context.Context) (err error) {
	calls.do("GracefulShutdown", func() { err = r.real.GracefulShutdown(ctx) })
	return
}
func (r *regProxy) CleanupStaleTransactions() {
	calls.do("CleanupStaleTransactions", func() { r.impl.CleanupStaleTransactions() })
}

// svcProxy: the service handlers, tracked (BeginTransaction excepted).
type svcProxy struct{ real *service.KevoServiceServer }

func (s *svcProxy) BeginTransaction(ctx context.Context, req *pb.BeginTransactionRequest) (*pb.BeginTransactionResponse, error) {
	return s.real.BeginTransaction(ctx, req)
}
func (s *svcProxy) CommitTransaction(ctx context.Context, req *pb.CommitTransactionRequest) (resp *pb.CommitTransactionResponse, err error) {
	calls.do("service.CommitTransaction", func() { resp, err = s.real.CommitTransaction(ctx, req) })
	return
}
func (s *svcProxy) RollbackTransaction(ctx context.Context, req *pb.RollbackTransactionRequest) (resp *pb.RollbackTransactionResponse, err error) {
	calls.do("service.RollbackTransaction", func() { resp, err = s.real.RollbackTransaction(ctx, req) })
	return
}
func (s *svcProxy) TxGet(ctx context.Context, req *pb.TxGetRequest) (resp *pb.TxGetResponse, err error) {
	calls.do("service.TxGet", func() { resp, err = s.real.TxGet(ctx, req) })
	return
}
func (s *svcProxy) TxPut(ctx context.Context, req *pb.TxPutRequest) (resp *pb.TxPutResponse, err error) {
	calls.do("service.TxPut", func() { resp, err = s.real.TxPut(ctx, req) })
	return
}
func (s *svcProxy) TxDelete(ctx context.Context, req *pb.TxDeleteRequest) (resp *pb.TxDeleteResponse, err error) {
	calls.do("service.TxDelete", func() { resp, err = s.real.TxDelete(ctx, req) })
	return
}
func (s *svcProxy) TxScan(req *pb.TxScanRequest, stream pb.KevoService_TxScanServer) (err error) {
	calls.do("service.TxScan", func() { err = s.real.TxScan(req, stream) })
	return
}
func (s *svcProxy) CleanupConnection(c string) {
	calls.do("service.CleanupConnection", func() { s.real.CleanupConnection(c) })
}

// Two further scenario kinds of C17:
//
//   - race_finish: while a read of transaction T is inside the storage (and
//     therefore holds T's own mutex), two other goroutines finish T (commit and
//     rollback in both orders, rollback twice, commit twice). Exactly one of them
//     may take effect.
//   - long-lived server: 1000-1500 short client lives against ONE service
//     instance; each begins a transaction and vanishes, the server ends it
//     (CleanupConnection or the idle sweep); a few well-behaved clients in
//     between. A fresh read-write begin through the service must keep working.
package c17

import (
	"context"
	"fmt"
	"math/rand"
	"regexp"
	"strings"
	"time"

	pb "github.com/KevoDB/kevo/proto/kevo"
)

const slowReadKey = "slowread" // never written: a Get of it always goes to the storage

// finisher runs one finish call on t the way a client of t's path does it.
func (w *world) finisher(t *txn, op string) error {
	switch t.path {
	case "svc":
		if op == "commit" {
			_, e := w.svc.CommitTransaction(context.Background(), &pb.CommitTransactionRequest{TransactionId: t.id})
			return e
		}
		_, e := w.svc.RollbackTransaction(context.Background(), &pb.RollbackTransactionRequest{TransactionId: t.id})
		return e
	case "reg":
		tx, ok := w.reg.Get(t.id)
		if !ok {
			return fmt.Errorf("transaction not found: %s", t.id)
		}
		var e error
		if op == "commit" {
			e = tx.Commit()
		} else {
			e = tx.Rollback()
		}
		w.reg.Remove(t.id)
		return e
	}
	if op == "commit" {
		return t.rec.tx.Commit()
	}
	return t.rec.tx.Rollback()
}

func (w *world) doRaceFinish(s Step) {
	if w.fb == nil {
		w.counters["skipped_race_finish"]++
		return
	}
	ci, ok := pick(w.clientsWhere(func(t *txn) bool { return t != nil && t.state == stOpen }), s.C)
	if !ok {
		w.counters["skipped_race_finish"]++
		return
	}
	t := w.cur[ci]
	pair := strings.SplitN(s.Pair, "+", 2)
	if len(pair) != 2 {
		pair = []string{"commit", "rollback"}
	}
	slow := s.SlowMs
	if slow <= 0 {
		slow = 5
	}
	w.logf("race_finish client %d (%s %s open id=%s): read slow %d ms, meanwhile %s and %s", ci, t.path, t.mode(), t.id, slow, pair[0], pair[1])
	w.features["race_finish"] = true
	w.features["race_finish_"+pair[0]+"+"+pair[1]] = true
	w.features["race_finish_path_"+t.path] = true

	select {
	case <-w.fb.inGet:
	default:
	}
	w.fb.getDelay.Store(int64(time.Duration(slow) * time.Millisecond))
	defer w.fb.getDelay.Store(0)
	readDone := make(chan struct{})
	go func() {
		defer close(readDone)
		if t.path == "svc" {
			_, _ = w.svc.TxGet(context.Background(), &pb.TxGetRequest{TransactionId: t.id, Key: []byte(slowReadKey)})
			return
		}
		_, _ = t.rec.tx.Get([]byte(slowReadKey))
	}()
	inStorage := w.waitFor(func() bool {
		select {
		case <-w.fb.inGet:
			return true
		default:
			return false
		}
	})
	if !inStorage {
		w.diverge("the slow read of client %d never reached the storage", ci)
	}
	// the read holds the transaction's mutex now; both finishers arrive behind it
	errs := make([]error, 2)
	done := make([]chan struct{}, 2)
	for i := 0; i < 2; i++ {
		i := i
		done[i] = make(chan struct{})
		go func() {
			defer close(done[i])
			errs[i] = w.finisher(t, pair[i])
		}()
		if i == 0 {
			time.Sleep(200 * time.Microsecond) // usually, not necessarily, the first queues first
		}
	}
	all := func() bool {
		for _, c := range []chan struct{}{readDone, done[0], done[1]} {
			select {
			case <-c:
			default:
				return false
			}
		}
		return true
	}
	if !w.waitFor(all) {
		panic(registryBlockedVerdict("finish behind a slow read ("+s.Pair+")", w))
	}
	w.logf("  %s returned %v, %s returned %v", pair[0], errs[0], pair[1], errs[1])
	ok0, ok1 := errs[0] == nil, errs[1] == nil
	ctx := s.Pair + ":" + t.path
	switch {
	case ok0 && ok1:
		w.fail("both_finishers_succeeded:"+ctx, "%s and %s of one transaction, both queued behind a read of that transaction, both reported success", pair[0], pair[1])
	case !ok0 && !ok1:
		w.fail("no_finisher_succeeded:"+ctx, "%s (%v) and %s (%v) of an open transaction both failed", pair[0], errs[0], pair[1], errs[1])
	}
	winner, loserErr := pair[0], errs[1]
	if ok1 {
		winner, loserErr = pair[1], errs[0]
	}
	if !isGoneErr(loserErr) {
		w.fail("second_finisher_wrong_error:"+ctx, "the losing finisher returned %v, want the closed / not-found error", loserErr)
	}
	if winner == "commit" && !t.ro {
		w.applyOverlay(t)
		if len(t.overlay) > 0 {
			w.commits++
		}
		t.commitsSince = w.commits
	}
	t.state = stDone
	t.rec.how = winner
	if t.path != "direct" {
		t.registered = false
		if _, still := w.reg.Get(t.id); still {
			w.fail("not_cleaned:race_finish", "after two finishers the registry still knows %s", t.id)
		}
	}
	w.released(winner, t)
	w.checkState("race_finish:" + s.Pair)
	w.settle()
}

// ---- long-lived server -------------------------------------------------------

// LongSpec describes a long-lived server case. All choices per client life
// come from a PRNG seeded with Seed, so the case is a value and replays.
type LongSpec struct {
	Lives  int   `json:"lives"` // 1000-1500
	Seed   int64 `json:"seed"`
	RoPct  int   `json:"ro_pct"`     // share of read-only lives
	Polite int   `json:"polite_pct"` // share of lives that commit / roll back themselves
	Batch  int   `json:"batch"`      // abandoned read-only lives left to ONE idle sweep
}

var digits = regexp.MustCompile(`[0-9]+`)

// svcBegin: BeginTransaction through the service, bounded; the lock is free by
// construction, so anything but a prompt success is a finding.
func (w *world) svcBegin(conn string, ro bool, what string) *txn {
	t := &txn{client: -1, path: "svc", ro: ro, conn: conn, overlay: map[string]*string{}}
	w.issue(t, 0)
	if !w.waitFor(func() bool { return isDone(t.call) }) {
		if t.rec.acquired.Load() {
			panic(registryBlockedVerdict("Begin", w))
		}
		w.blocked(what)
	}
	if t.call.err != nil {
		msg := digits.ReplaceAllString(t.call.err.Error(), "N")
		if len(msg) > 90 {
			msg = msg[:90]
		}
		w.fail("service_begin_refused:"+msg, "%s: BeginTransaction through the service failed although no transaction is open: %v", what, t.call.err)
	}
	t.id, t.state, t.rec.how = t.call.id, stOpen, "begin"
	return t
}

func (w *world) runLongLived() {
	sp := w.c.Long
	w.features["long_lived_server"] = true
	rng := rand.New(rand.NewSource(sp.Seed))
	var waiting []*txn // abandoned transactions left to the idle sweep
	var all []*txn
	sweepNow := func() {
		if len(waiting) == 0 {
			return
		}
		w.sleepPastLimit()
		w.reg.CleanupStaleTransactions()
		for _, t := range waiting {
			t.state = stCleaned
		}
		waiting = waiting[:0]
	}
	gone := func(err error) bool { return err != nil && strings.Contains(err.Error(), "transaction not found") }
	checkpoint := func(i int) {
		sweepNow()
		w.stepNo = i
		pt := w.svcBegin("conn-probe", false, fmt.Sprintf("probe after %d client lives", i))
		id := pt.id
		val := fmt.Sprintf("p%d", i)
		if _, err := w.svc.TxPut(context.Background(), &pb.TxPutRequest{TransactionId: id, Key: []byte(probeKey), Value: []byte(val)}); err != nil {
			w.fail("probe_put_failed", "TxPut in the fresh transaction after %d lives: %v", i, err)
		}
		if _, err := w.svc.CommitTransaction(context.Background(), &pb.CommitTransactionRequest{TransactionId: id}); err != nil {
			w.fail("probe_commit_failed", "CommitTransaction of the fresh transaction after %d lives: %v", i, err)
		}
		pt.state, pt.rec.how = stDone, "commit"
		w.committed[probeKey] = val
		w.checkState("long_lived_probe")
		for _, t := range all {
			if r := t.rec; r.acquired.Load() && r.tx != nil && txActive(r.tx) {
				w.fail("not_rolled_back:long_lived:"+r.how, "a transaction that was %s is still active after %d client lives", r.how, i)
			}
		}
		all = all[:0]
	}
	for i := 0; i < sp.Lives; i++ {
		w.stepNo = i
		conn := fmt.Sprintf("c%d", i)
		ro := rng.Intn(100) < sp.RoPct
		if !ro && len(waiting) > 0 {
			ro = true // abandoned readers are waiting for their sweep: no writer gets in before it, more readers do
		}
		lt := w.svcBegin(conn, ro, fmt.Sprintf("client life %d", i))
		id, rec := lt.id, lt.rec
		all = append(all, lt)
		k, v := keyOf(rng.Intn(nKeys)), fmt.Sprintf("l%d", i)
		wrote := false
		if !ro && rng.Intn(100) < 60 {
			_, err := w.svc.TxPut(context.Background(), &pb.TxPutRequest{TransactionId: id, Key: []byte(k), Value: []byte(v)})
			if err != nil && !gone(err) {
				w.diverge("TxPut in life %d: %v", i, err)
			}
			wrote = err == nil
		}
		switch {
		case rng.Intn(100) < sp.Polite:
			// a well-behaved client
			if rng.Intn(2) == 0 {
				_, err := w.svc.CommitTransaction(context.Background(), &pb.CommitTransactionRequest{TransactionId: id})
				if err != nil && !gone(err) {
					w.diverge("commit in life %d: %v", i, err)
				}
				if gone(err) {
					w.counters["long_lived_reaped_mid_life"]++ // the sweep of somebody's begin was faster (machine stalled > idle limit)
				} else if wrote {
					w.committed[k] = v
				}
				rec.how = "commit"
			} else {
				_, err := w.svc.RollbackTransaction(context.Background(), &pb.RollbackTransactionRequest{TransactionId: id})
				if err != nil && !gone(err) {
					w.diverge("rollback in life %d: %v", i, err)
				}
				rec.how = "rollback"
			}
			lt.state = stDone
			w.counters["long_lived_polite"]++
		case ro && rng.Intn(100) < 50:
			// vanishes; the idle sweep will find it
			rec.how = "abandoned_to_idle_sweep"
			waiting = append(waiting, lt)
			if len(waiting) >= sp.Batch {
				sweepNow()
			}
			w.counters["long_lived_reaped_by_sweep"]++
		case !ro && rng.Intn(100) < 4:
			// a vanished writer: nobody gets in before the sweep has found it
			rec.how = "abandoned_to_idle_sweep"
			waiting = append(waiting, lt)
			sweepNow()
			w.counters["long_lived_reaped_by_sweep"]++
		default:
			// vanishes; the transport notices and the server cleans the connection up
			rec.how = "abandoned_to_connection_cleanup"
			if rng.Intn(2) == 0 {
				w.svc.CleanupConnection(conn)
			} else {
				w.reg.CleanupConnection(conn)
			}
			lt.state = stCleaned
			w.counters["long_lived_reaped_by_cleanup_conn"]++
		}
		if (i+1)%400 == 0 {
			checkpoint(i + 1)
		}
	}
	checkpoint(sp.Lives)
	w.counters["long_lived_lives"] += sp.Lives
}

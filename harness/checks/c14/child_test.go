package c14

import (
	"encoding/json"
	"fmt"
	"os"
	"path/filepath"
	"runtime"
	"strconv"
	"strings"
	"sync"
	"time"

	"github.com/KevoDB/kevo/pkg/engine"
	"github.com/KevoDB/kevo/pkg/replication"

	"verif/internal/drive"
	"verif/internal/ev"
)

// Result is what the child writes BEFORE any teardown; process exit is the
// teardown.
type Result struct {
	Verdict string `json:"verdict"` // ok | violation | abandon | infra
	Sig     string `json:"sig,omitempty"`
	Msg     string `json:"msg,omitempty"`
	// measurements
	ConvergeMs      int64            `json:"converge_ms"` // last write/event -> first time every replica equalled the primary
	BoundMs         int64            `json:"bound_ms"`
	WorkMs          int64            `json:"work_ms"` // duration of the write phases incl. pauses
	MaxWriteUs      int64            `json:"max_write_us"`
	PrimaryWALs     int              `json:"primary_wal_files"`
	PrimarySeq      uint64           `json:"primary_seq"`
	LiveKeys        int              `json:"live_keys"`
	Replicas        []map[string]any `json:"replicas,omitempty"`
	Sessions        int              `json:"primary_sessions"`
	WaitMisses      int              `json:"wait_misses,omitempty"`
	Regressions     int              `json:"regressions,omitempty"` // equal, then different again 2 s later, before settling
	ApplyFaultFired bool             `json:"apply_fault_fired,omitempty"`
}

// ChildSpec is the input of a child.
type ChildSpec struct {
	Case   Case   `json:"case"`
	Out    string `json:"out"`     // result file
	Base   string `json:"base"`    // scratch directory for the databases
	LogTo  string `json:"log_to"`  // optional: file receiving the repository's stdout chatter and logger
	HoldMs int    `json:"hold_ms"` // stability re-check delay (default 2000)
}

func writeResult(path string, r *Result) {
	b, _ := json.Marshal(r)
	tmp := path + ".tmp"
	_ = os.WriteFile(tmp, b, 0o644)
	_ = os.Rename(tmp, path)
}

func childMain(specPath string) {
	b, err := os.ReadFile(specPath)
	if err != nil {
		fmt.Fprintln(os.Stderr, "child: read spec:", err)
		os.Exit(3)
	}
	var spec ChildSpec
	if err := json.Unmarshal(b, &spec); err != nil {
		fmt.Fprintln(os.Stderr, "child: parse spec:", err)
		os.Exit(3)
	}
	if spec.LogTo != "" {
		if f, err := os.Create(spec.LogTo); err == nil {
			os.Stdout = f
			quietLogs(f)
		}
	} else {
		quietLogs(nil)
	}
	if v, err := strconv.Atoi(os.Getenv("VERIF_CHILD_CAP_S")); err == nil && v > 0 {
		// never outlive the parent's cap, whatever happens to the parent
		time.AfterFunc(time.Duration(v)*time.Second, func() { os.Exit(4) })
	}
	res := runCase(&spec)
	writeResult(spec.Out, res)
	os.Exit(0)
}

func bound(c *Case) time.Duration {
	return 60*time.Second + 3*time.Second*time.Duration(len(c.Phases))
}

// step/stepSince are what the watchdog looks at.
var (
	stepMu    sync.Mutex
	stepName  string
	stepSince time.Time
)

func setStep(format string, a ...any) {
	stepMu.Lock()
	stepName, stepSince = fmt.Sprintf(format, a...), time.Now()
	stepMu.Unlock()
}

// watchdog: a step of the driver (one primary operation, one replica event,
// one observation) that does not return within 60 s ends the case with the
// verdict "abandon" and a goroutine dump. A blocked primary is C15's subject,
// not C14's, so it is reported but not judged here.
func watchdog(out string, res *Result) {
	for {
		time.Sleep(500 * time.Millisecond)
		stepMu.Lock()
		name, since := stepName, stepSince
		stepMu.Unlock()
		if strings.HasPrefix(name, "primary-op") && time.Since(since) > time.Duration(float64(30*time.Second)*ev.LoadFactor()) {
			// A write on the primary that does not return (normal: well below 1 ms) is
			// reported with its own signature: the history of the property cannot even
			// be completed. (That replicas must not block the primary is C15's
			// statement; here the blocked write is what stands between the replicas
			// and the primary's state.)
			buf := make([]byte, 2<<20)
			buf = buf[:runtime.Stack(buf, true)]
			r := *res
			where := blockedWriter(string(buf))
			r.Verdict, r.Sig = "violation", "primary-write-blocked:at="+where
			r.Msg = fmt.Sprintf("step %q on the primary did not return within 30 s; blocked at %s\n%s", name, where, interesting(string(buf)))
			writeResult(out, &r)
			os.Exit(0)
		}
		if name != "" && time.Since(since) > 60*time.Second {
			buf := make([]byte, 1<<20)
			buf = buf[:runtime.Stack(buf, true)]
			r := *res
			r.Verdict, r.Sig = "abandon", "driver-step-hang:"+strings.SplitN(name, " ", 2)[0]
			r.Msg = fmt.Sprintf("step %q did not return within 60 s\n%s", name, interesting(string(buf)))
			writeResult(out, &r)
			os.Exit(0)
		}
	}
}

// interesting keeps the goroutines of a dump that have a kevo frame.
func interesting(dump string) string {
	var keep []string
	for _, g := range strings.Split(dump, "\n\n") {
		if strings.Contains(g, "KevoDB/kevo") || strings.Contains(g, "checks/c1") {
			keep = append(keep, g)
		}
	}
	s := strings.Join(keep, "\n\n")
	if len(s) > 60000 {
		s = s[:60000]
	}
	return s
}

// runCase executes the case and judges it. Nothing is torn down.
func runCase(spec *ChildSpec) *Result {
	c := &spec.Case
	res := &Result{BoundMs: bound(c).Milliseconds()}
	go watchdog(spec.Out, res)
	infra := func(format string, a ...any) *Result {
		res.Verdict, res.Msg = "infra", fmt.Sprintf(format, a...)
		return res
	}
	var pc *replication.PrimaryConfig
	if c.FastHeartbeat {
		pc = replication.DefaultPrimaryConfig()
		to := time.Second
		if c.HBTimeoutMs > 0 {
			to = time.Duration(c.HBTimeoutMs) * time.Millisecond
		}
		pc.HeartbeatConfig = &replication.HeartbeatConfig{Interval: 200 * time.Millisecond, Timeout: to, SendEmptyResponses: !c.HBNoEmpty}
	}
	prim, err := startPrimary(mkdir(spec.Base, "primary"), c.PCfg, pc)
	if err != nil {
		return infra("%v", err)
	}
	reps := make([]*Node, len(c.Replicas))
	var faults []*applyFault
	waitSession := func(n *Node) {
		for dl := time.Now().Add(10 * time.Second); time.Now().Before(dl); time.Sleep(5 * time.Millisecond) {
			if hasSession(prim.Mgr, n.Addr) {
				return
			}
		}
		res.WaitMisses++
	}
	// doEvents runs the replica events of one boundary. hot=false: the ordinary
	// events, before the phase starts; hot=true: the events of replicas marked
	// Hot, executed by a second goroutine WHILE the phase's writes run.
	var evMu sync.Mutex // reps / faults / res.WaitMisses are touched by both goroutines
	doEvents := func(boundary int, hot bool) *Result {
		for i, rp := range c.Replicas {
			// a Hot replica's JOIN at boundary 0 of a case whose burst comes later is an
			// ordinary join (hot_restart role); its other events are hot
			isHot := rp.Hot && !(rp.RestartAt >= 0 && boundary == rp.JoinAt && boundary != rp.RestartAt)
			if boundary == len(c.Phases) {
				isHot = false // no phase left to overlap
			}
			if isHot != hot {
				continue
			}
			name := fmt.Sprintf("replica%d", i)
			if !hot {
				setStep("event boundary %d %s", boundary, name)
			}
			if rp.RestartAt == boundary && reps[i] != nil && reps[i].Joined {
				if !reps[i].stopReplica(30 * time.Second) {
					buf := make([]byte, 1<<20)
					buf = buf[:runtime.Stack(buf, true)]
					res.Verdict, res.Sig, res.Msg = "abandon", "replica-stop-hang", name+": Manager.Stop/Engine.Close did not return within 30 s\n"+interesting(string(buf))
					return res
				}
			}
			if rp.JoinAt == boundary {
				var af *applyFault
				if rp.FailApplyAt > 0 && !rp.FailAfterRestart {
					af = &applyFault{At: int64(rp.FailApplyAt)}
					faults = append(faults, af)
				}
				n, err := startReplica(name, mkdir(spec.Base, name), rp.Cfg, prim.Addr, fmt.Sprintf("replica-%d.test:7000", i), replicaCfgFor(c), af)
				if err != nil {
					return infra("%v", err)
				}
				evMu.Lock()
				reps[i] = n
				evMu.Unlock()
				if rp.Wait {
					waitSession(n)
				}
			}
			if rp.UpAgainAt == boundary && reps[i] != nil && !reps[i].Joined {
				if rp.FailApplyAt > 0 && rp.FailAfterRestart {
					reps[i].ApplyFault = &applyFault{At: int64(rp.FailApplyAt)}
					faults = append(faults, reps[i].ApplyFault)
				}
				if err := reps[i].restartReplica(prim.Addr, replicaCfgFor(c)); err != nil {
					// a replica that cannot reopen its own database after a clean
					// stop is a defect, but of the engine, not of replication
					res.Verdict, res.Sig, res.Msg = "abandon", "replica-reopen-error", err.Error()
					return res
				}
				if rp.Wait {
					waitSession(reps[i])
				}
			}
		}
		return nil
	}
	t0 := time.Now()
	for p := 0; p <= len(c.Phases); p++ {
		if r := doEvents(p, false); r != nil {
			return r
		}
		if p == len(c.Phases) {
			break
		}
		var hotDone chan *Result
		for _, rp := range c.Replicas {
			hotHere := rp.Hot && (rp.RestartAt == p || rp.UpAgainAt == p || (rp.JoinAt == p && rp.RestartAt < 0))
			if hotHere && hotDone == nil {
				hotDone = make(chan *Result, 1)
				go func(p int) { hotDone <- doEvents(p, true) }(p)
			}
		}
		for i, o := range c.Phases[p].Ops {
			w0 := time.Now()
			setStep("primary-op phase %d op %d (%s)", p, i, o.Op)
			if err := doOp(prim.Eng, c, o); err != nil {
				// the primary refuses or fails a write: not this property's statement
				// (C15/C01); the case cannot be judged against "what the primary executed"
				res.Verdict, res.Sig, res.Msg = "abandon", "primary-write-error", fmt.Sprintf("phase %d op %d (%s): %v", p, i, o.Op, err)
				return res
			}
			if d := time.Since(w0).Microseconds(); d > res.MaxWriteUs {
				res.MaxWriteUs = d
			}
		}
		setStep("")
		if hotDone != nil {
			setStep("wait-hot-events phase %d", p)
			if r := <-hotDone; r != nil {
				return r
			}
			setStep("")
		}
		if ms := c.Phases[p].PauseMs; ms > 0 {
			time.Sleep(time.Duration(ms) * time.Millisecond)
		}
	}
	res.WorkMs = time.Since(t0).Milliseconds()

	// ---- oracle: bounded-time convergence, then stability -------------------
	prog := &drive.Program{Keys: c.Keys}
	setStep("observe primary")
	drive.Quiesce(prim.Eng)
	want := drive.Observe(prim.Eng, prog)
	if want.Err != "" {
		return infra("primary scan: %s", want.Err)
	}
	res.LiveKeys = len(want.Scan)
	start := time.Now()
	deadline := start.Add(bound(c))
	hold := 2000
	if spec.HoldMs > 0 {
		hold = spec.HoldMs
	}
	fill := func() {
		setStep("status")
		res.PrimarySeq = 0
		if v, ok := prim.Mgr.Status()["current_wal_sequence"].(uint64); ok {
			res.PrimarySeq = v
		}
		res.Sessions = len(sessions(prim.Mgr))
		if m, _ := filepath.Glob(filepath.Join(prim.Dir, "wal", "*.wal")); m != nil {
			res.PrimaryWALs = len(m)
		}
		for _, f := range faults {
			if f.fired.Load() {
				res.ApplyFaultFired = true
			}
		}
		res.Replicas = nil
		for _, n := range reps {
			res.Replicas = append(res.Replicas, replicaStatus(n.Mgr))
		}
	}
	compare := func() (string, int) {
		for i, n := range reps {
			setStep("observe replica%d", i)
			got := drive.Observe(n.Eng, prog)
			if d := diffSnap(c.Keys, want, got, "primary", n.Name); d != "" {
				setStep("")
				return d, i
			}
		}
		setStep("")
		return "", -1
	}
	// The property holds if there is a moment within the bound at which every
	// replica equals the primary and still does 2 s later. An equality that does
	// not last is not yet "reached": a replica restarted on its own directory
	// already holds the final state, replays the log from sequence 1 (visibly
	// going back in time) and only then settles. Such episodes are counted.
	var lastDiff, regressDiff string
	lastIdx, regressIdx := -1, -1
	firstEqual := int64(-1)
	for {
		lastDiff, lastIdx = compare()
		if lastDiff == "" {
			if firstEqual < 0 {
				firstEqual = time.Since(start).Milliseconds()
			}
			res.ConvergeMs = time.Since(start).Milliseconds()
			time.Sleep(time.Duration(hold) * time.Millisecond)
			setStep("observe primary again")
			want2 := drive.Observe(prim.Eng, prog)
			if d := diffSnap(c.Keys, want, want2, "primary", "primary-later"); d != "" {
				return infra("primary state moved without writes: %s", d)
			}
			d, i := compare()
			if d == "" {
				break // reached and stayed
			}
			res.Regressions++
			regressDiff, regressIdx = d, i
			lastDiff, lastIdx = d, i
		}
		if time.Now().After(deadline) {
			break
		}
		time.Sleep(25 * time.Millisecond)
	}
	if lastDiff != "" {
		res.ConvergeMs = time.Since(start).Milliseconds()
		fill()
		res.Verdict = "violation"
		if regressDiff != "" {
			res.Sig = "left-converged-state:" + cause(c, res, regressIdx)
			res.Msg = fmt.Sprintf("replica%d equalled the primary %d ms after the last write but %d time(s) differed again %d ms later and had not settled %d ms after the last write (bound %d ms): %s; replica status %v",
				regressIdx, firstEqual, res.Regressions, hold, res.ConvergeMs, res.BoundMs, regressDiff, res.Replicas[regressIdx])
			return res
		}
		res.Sig = "no-convergence:" + cause(c, res, lastIdx)
		res.Msg = fmt.Sprintf("replica%d differs from the primary %d ms after the last write (bound %d ms): %s; replica status %v",
			lastIdx, res.ConvergeMs, res.BoundMs, lastDiff, res.Replicas[lastIdx])
		return res
	}
	fill()
	res.Verdict = "ok"
	return res
}

// cause names the features of the case that are present, so that a violation
// reached through a different feature gets a different signature.
func cause(c *Case, res *Result, idx int) string {
	s := shapeOf(c)
	out := ""
	add := func(b bool, name string) {
		if b {
			if out != "" {
				out += "+"
			}
			out += name
		}
	}
	add(s.txs > 0, "tx")
	add(res.PrimaryWALs > 1, "rotation")
	lw := 0
	for _, o := range c.Phases[len(c.Phases)-1].Ops {
		if o.Op != "flush" {
			lw++
		}
	}
	add(lw == 1, "singlelastwrite")
	np := len(c.Phases)
	add(np >= 2 && c.Phases[np-2].PauseMs >= 3000 && lw >= 2 && lw <= 5, "fewafteridle")
	bulk := false
	for _, ph := range c.Phases {
		nb := 0
		for _, o := range ph.Ops {
			if o.Op == "put" && o.V.Len >= 8000 {
				nb++
			}
		}
		if nb >= 90 {
			bulk = true
		}
	}
	add(bulk, "bulk")
	huge := false
	for _, ph := range c.Phases {
		for _, o := range ph.Ops {
			if o.Op == "put" && o.V.Len >= 260<<10 {
				huge = true
			}
		}
	}
	add(huge, "hugevalue")
	add(c.Shape == "hot_phase", "hotphase")
	add(c.Shape == "aged_burst", "agedburst")
	add(c.Shape == "aged_burst" && c.FastHeartbeat, "fasthb")
	if idx >= 0 && idx < len(c.Replicas) {
		add(c.Replicas[idx].FailApplyAt > 0, "applyfault")
	}
	if idx >= 0 && idx < len(c.Replicas) {
		rp := c.Replicas[idx]
		add(rp.RestartAt >= 0, "restart")
		add(rp.JoinAt == len(c.Phases), "latejoin")
		add(rp.JoinAt > 0 && rp.JoinAt < len(c.Phases), "midjoin")
	}
	add(s.second, "tworeplicas")
	if out == "" {
		out = "plain"
	}
	return out
}

func doOp(e *engine.EngineFacade, c *Case, o Op) error {
	switch o.Op {
	case "put":
		return e.Put(c.Keys[o.K], o.V.Bytes())
	case "del":
		return e.Delete(c.Keys[o.K])
	case "flush":
		return e.FlushImMemTables()
	case "tx":
		tx, err := e.BeginTransaction(false)
		if err != nil {
			return err
		}
		for _, x := range o.Tx {
			if x.Op == "put" {
				err = tx.Put(c.Keys[x.K], x.V.Bytes())
			} else {
				err = tx.Delete(c.Keys[x.K])
			}
			if err != nil {
				_ = tx.Rollback()
				return err
			}
		}
		return tx.Commit()
	}
	return fmt.Errorf("unknown op %q", o.Op)
}

// blockedWriter names the innermost repository frame (plus wait reason) of
// the goroutine that executes the primary's operations (the one with doOp).
func blockedWriter(dump string) string {
	for _, g := range strings.Split(dump, "\n\n") {
		if !strings.Contains(g, "checks/c14.doOp") {
			continue
		}
		lines := strings.Split(g, "\n")
		reason := ""
		if i := strings.IndexByte(lines[0], '['); i >= 0 {
			reason = strings.TrimSuffix(strings.TrimSpace(lines[0][i+1:]), "]:")
			if j := strings.IndexByte(reason, ','); j >= 0 {
				reason = reason[:j]
			}
		}
		for _, l := range lines[1:] {
			if strings.HasPrefix(l, "github.com/KevoDB/kevo/pkg/") {
				fn := strings.TrimPrefix(l, "github.com/KevoDB/kevo/pkg/")
				if k := strings.LastIndexByte(fn, '('); k > 0 {
					fn = fn[:k]
				}
				return fn + "[" + reason + "]"
			}
		}
		return "?[" + reason + "]"
	}
	return "?"
}

// replicaCfgFor: DefaultReplicaConfig with the short dial timeout and, when the
// case says so, a short reconnect delay (ReplicaConfig.Connection.RetryBaseDelay).
func replicaCfgFor(c *Case) *replication.ReplicaConfig {
	rc := replicaConfig()
	if c.RetryBaseMs > 0 {
		rc.Connection.RetryBaseDelay = time.Duration(c.RetryBaseMs) * time.Millisecond
	}
	return rc
}

package c14

import (
	"fmt"

	"pgregory.net/rapid"

	"verif/internal/drive"
	"verif/internal/ev"
	"verif/internal/gen"
)

// Op is one primary operation.
type Op struct {
	Op string       `json:"op"` // put | del | tx | flush
	K  int          `json:"k,omitempty"`
	V  *drive.Val   `json:"v,omitempty"`
	Tx []drive.TxOp `json:"tx,omitempty"` // committed transaction body (put/del)
}

// Phase is a run of primary operations executed back to back, followed by a
// pause. Replica events happen at the boundaries between phases.
type Phase struct {
	Ops     []Op `json:"ops"`
	PauseMs int  `json:"pause_ms"`
}

// ReplicaPlan says when a replica joins and whether/when it is restarted.
// Boundaries are numbered 0..len(Phases): boundary b lies before phase b,
// boundary len(Phases) after the last write.
type ReplicaPlan struct {
	JoinAt    int `json:"join_at"`
	RestartAt int `json:"restart_at"`  // -1: never; else > JoinAt: manager stopped, engine closed
	UpAgainAt int `json:"up_again_at"` // >= RestartAt: engine reopened on the same directory, new manager
	// Wait: after starting (or restarting) the replica, wait (at most 10 s) until
	// the primary reports its session, so that the following phase is pushed to
	// a replica that is already streaming. Without it the writes race with the
	// connection set-up.
	Wait bool      `json:"wait"`
	Cfg  drive.Cfg `json:"cfg"`
	// FailApplyAt > 0: the FailApplyAt-th replicated entry this replica is asked to
	// apply (counted from its first start, or from its restart when
	// FailAfterRestart) reports one transient storage error; every other call
	// succeeds. The replica must still converge.
	// Hot: this replica's join / stop / restart events are executed by a second
	// goroutine WHILE the writes of the phase that follows their boundary run
	// (instead of before the phase starts)
	Hot              bool `json:"hot,omitempty"`
	FailApplyAt      int  `json:"fail_apply_at,omitempty"`
	FailAfterRestart bool `json:"fail_after_restart,omitempty"`
}

// Case is one generated end-to-end case.
type Case struct {
	PCfg     drive.Cfg     `json:"primary_cfg"`
	Keys     [][]byte      `json:"keys"`
	Phases   []Phase       `json:"phases"`
	Replicas []ReplicaPlan `json:"replicas"`
	// FastHeartbeat: PrimaryConfig = DefaultPrimaryConfig with heartbeat interval
	// 200 ms / timeout 1 s (so that pauses cross the heartbeat timeout and empty
	// heartbeat messages reach the replica); false: PrimaryConfig nil, what
	// cmd/kevo passes (10 s / 30 s).
	FastHeartbeat bool `json:"fast_heartbeat"`
	// With FastHeartbeat: the heartbeat timeout (0 = 1000 ms) and whether empty
	// heartbeat messages are switched off (then an idle session simply times out)
	HBTimeoutMs int  `json:"hb_timeout_ms,omitempty"`
	HBNoEmpty   bool `json:"hb_no_empty,omitempty"`
	// Shape "aged_burst": a replica connects before the writes, receives a few
	// early writes (and with them goes through its receive/reconnect cycles), sits
	// connected through 16-22 s of silence and then gets a burst of 150-400
	// single-key writes (more than one catch-up round of 100 entries).
	//
	// Shape "hot_phase": 2000-4000 back-to-back single-key writes (a few hundred
	// milliseconds without any pacing) while replicas open streams: a replica
	// that is already streaming and reconnects after every batch, a replica that
	// joins, or one that is restarted, during the burst. The replicas' reconnect
	// delay (RetryBaseMs) is 20-100 ms so that several stream openings fall into
	// the burst and the backlog is fetched at 100 entries per ~0.1 s.
	Shape string `json:"shape,omitempty"`
	// RetryBaseMs > 0: ReplicaConfig.Connection.RetryBaseDelay of every replica
	RetryBaseMs int `json:"retry_base_ms,omitempty"`
}

const bigMem = 32 << 20

func genCase(t *rapid.T) Case {
	var c Case
	flushOK := ev.Flag("primary_flush")
	txOK := ev.Flag("primary_tx")
	// primary engine: a 1-4 KiB memtable rotates the log after a few dozen
	// writes (every memtable flush rotates it); 32 MiB never does
	mem := rapid.SampledFrom([]int64{1024, 2048, 4096, 4096, bigMem}).Draw(t, "pmem")
	if mem != bigMem && !flushOK {
		ev.R().Exclude("primary_flush")
		mem = bigMem
	}
	c.PCfg = drive.Cfg{MemTableSize: mem, MaxMemTables: 4, SyncMode: rapid.IntRange(0, 2).Draw(t, "psync"), SyncBytes: 4096}
	c.Keys = gen.Keys(t, 4, 24)
	nk := len(c.Keys)
	tag := uint32(1)
	vo := gen.ValOpts{MaxSmall: 120}
	if rapid.IntRange(0, 6).Draw(t, "aged_burst") == 0 {
		// minority class (the age costs wall time)
		c.Shape = "aged_burst"
		single := func(n int) (ops []Op) {
			for i := 0; i < n; i++ {
				if rapid.IntRange(0, 4).Draw(t, "ab_del") == 0 {
					ops = append(ops, Op{Op: "del", K: rapid.IntRange(0, nk-1).Draw(t, "k")})
				} else {
					ops = append(ops, Op{Op: "put", K: rapid.IntRange(0, nk-1).Draw(t, "k"), V: value(t, tag, vo)})
					tag++
				}
			}
			return
		}
		c.Phases = []Phase{
			{Ops: single(rapid.IntRange(2, 12).Draw(t, "ab_early")), PauseMs: rapid.SampledFrom(agedAges()).Draw(t, "ab_age")},
			{Ops: single(rapid.IntRange(150, 400).Draw(t, "ab_burst"))},
		}
		c.FastHeartbeat = rapid.Bool().Draw(t, "fast_heartbeat")
		if c.FastHeartbeat {
			c.HBTimeoutMs = rapid.SampledFrom([]int{700, 1000, 2000}).Draw(t, "hb_timeout")
			c.HBNoEmpty = rapid.IntRange(0, 3).Draw(t, "hb_no_empty") == 0
		}
		if c.FastHeartbeat && !ev.Flag("idle_heartbeat_backlog") {
			// open finding: with a heartbeat interval below the replica's receive
			// period (about one Recv per second while it waits) the empty heartbeat
			// messages of an idle period queue up in the stream in front of the data;
			// the replica needs about 1.5 x the idle time to work through them
			ev.R().Exclude("idle_heartbeat_backlog")
			c.FastHeartbeat = false
		}
		c.Replicas = []ReplicaPlan{{JoinAt: 0, RestartAt: -1, UpAgainAt: -1, Wait: true,
			Cfg: drive.Cfg{MemTableSize: rapid.SampledFrom([]int64{4096, bigMem, bigMem}).Draw(t, "rmem"), MaxMemTables: 4, SyncBytes: 4096}}}
		if rapid.IntRange(0, 2).Draw(t, "ab_second") == 0 {
			c.Replicas = append(c.Replicas, ReplicaPlan{JoinAt: rapid.IntRange(0, 2).Draw(t, "join"), RestartAt: -1, UpAgainAt: -1,
				Wait: rapid.Bool().Draw(t, "wait"), Cfg: drive.Cfg{MemTableSize: bigMem, MaxMemTables: 4, SyncBytes: 4096}})
		}
		return c
	}
	if rapid.IntRange(0, 4).Draw(t, "hot_phase") == 0 {
		c.Shape = "hot_phase"
		single := func(n int) (ops []Op) {
			for i := 0; i < n; i++ {
				if rapid.IntRange(0, 4).Draw(t, "hp_del") == 0 {
					ops = append(ops, Op{Op: "del", K: rapid.IntRange(0, nk-1).Draw(t, "k")})
				} else {
					ops = append(ops, Op{Op: "put", K: rapid.IntRange(0, nk-1).Draw(t, "k"), V: &drive.Val{Len: rapid.IntRange(1, 200).Draw(t, "vlen"), Tag: tag}})
					tag++
				}
			}
			return
		}
		hot := 0
		if rapid.Bool().Draw(t, "hp_early") {
			c.Phases = append(c.Phases, Phase{Ops: single(rapid.IntRange(1, 20).Draw(t, "hp_nearly")), PauseMs: rapid.SampledFrom([]int{0, 300, 1500}).Draw(t, "pause")})
			hot = 1
		}
		c.Phases = append(c.Phases, Phase{Ops: single(rapid.IntRange(2000, 4000).Draw(t, "hp_n"))})
		if rapid.Bool().Draw(t, "hp_tail") {
			c.Phases[hot].PauseMs = rapid.SampledFrom([]int{0, 300}).Draw(t, "pause")
			c.Phases = append(c.Phases, Phase{Ops: single(rapid.IntRange(2, 10).Draw(t, "hp_ntail"))})
		}
		c.RetryBaseMs = rapid.SampledFrom([]int{20, 20, 50}).Draw(t, "retry_base")
		c.FastHeartbeat = rapid.Bool().Draw(t, "fast_heartbeat")
		if c.FastHeartbeat {
			c.HBTimeoutMs = rapid.SampledFrom([]int{700, 1000, 2000}).Draw(t, "hb_timeout")
		}
		nrep := 2 // two replicas: twice as many stream openings inside the burst
		for r := 0; r < nrep; r++ {
			rp := ReplicaPlan{RestartAt: -1, UpAgainAt: -1, Cfg: drive.Cfg{MemTableSize: bigMem, MaxMemTables: 4, SyncBytes: 4096}}
			switch rapid.SampledFrom([]string{"streaming", "hot_join", "hot_restart"}).Draw(t, "hp_role") {
			case "streaming": // connected before the burst; its own reconnects overlap the writes
				rp.JoinAt, rp.Wait = rapid.IntRange(0, hot).Draw(t, "join"), true
			case "hot_join":
				rp.JoinAt, rp.Hot = hot, true
			case "hot_restart":
				if hot == 0 {
					rp.JoinAt, rp.Hot = 0, true // nothing before the burst: a join during the burst
					break
				}
				// joined and caught up before the burst, stopped and restarted during it
				rp.JoinAt, rp.Wait = 0, true
				rp.RestartAt, rp.UpAgainAt = hot, hot
				rp.Hot = true
			}
			c.Replicas = append(c.Replicas, rp)
		}
		return c
	}
	nph := rapid.IntRange(1, 4).Draw(t, "nphases")
	bulkAt, idleFew := -1, false
	for p := 0; p < nph; p++ {
		var ph Phase
		n := rapid.IntRange(1, 30).Draw(t, "nops")
		kinds := []string{"burst", "burst", "burst", "big", "bulk", "bulk", "trickle"}
		if p == nph-1 && nph >= 2 {
			// how the history ends decides what only the catch-up machinery can deliver
			kinds = []string{"burst", "bulk", "trickle", "idle_few", "idle_few", "idle_few"}
		}
		phaseKind := rapid.SampledFrom(kinds).Draw(t, "phasekind")
		switch phaseKind {
		case "big":
			// more than one catch-up round (the primary sends at most 100 entries per round)
			n = rapid.IntRange(101, 160).Draw(t, "nops_big")
		case "bulk":
			// 100-160 puts of 11-33 KB: every catch-up message of 100 entries weighs
			// 1.1-3.3 MiB (below gRPC's default 4 MiB receive limit, which the replica
			// does not raise); a replica is made to join or come back after this phase
			n = rapid.IntRange(100, 160).Draw(t, "nops_bulk")
			bulkAt = p
		case "trickle":
			// one or two writes pushed to a replica that has been idle for longer than
			// its 1 s receive timeout (state WAITING_FOR_DATA, abandoned Recv calls
			// pending on the stream): only the primary's periodic catch-up can deliver them
			n = rapid.IntRange(1, 2).Draw(t, "nops_trickle")
			if p > 0 {
				c.Phases[p-1].PauseMs = rapid.SampledFrom([]int{1300, 2500}).Draw(t, "idle_before")
			}
		case "idle_few":
			// LAST phase: the replicas have caught up and then sat idle for 3-6 s (several
			// abandoned Recv calls are pending on the stream and will swallow the next
			// messages), then 1-5 writes arrive, then silence
			n = rapid.IntRange(1, 5).Draw(t, "nops_few")
			c.Phases[p-1].PauseMs = rapid.SampledFrom([]int{3000, 4500, 6000}).Draw(t, "long_idle_before")
			idleFew = true
		}
		for i := 0; i < n; i++ {
			kind := rapid.SampledFrom([]string{"put", "put", "put", "put", "put", "put", "del", "del", "tx", "tx", "flush"}).Draw(t, "op")
			if kind == "tx" && !txOK {
				ev.R().Exclude("primary_tx")
				kind = "put"
			}
			if kind == "flush" && !flushOK {
				ev.R().Exclude("primary_flush")
				kind = "del"
			}
			if phaseKind == "bulk" && kind != "del" {
				ph.Ops = append(ph.Ops, Op{Op: "put", K: rapid.IntRange(0, nk-1).Draw(t, "k"),
					V: &drive.Val{Len: rapid.IntRange(11000, 33000).Draw(t, "vlen_bulk"), Tag: tag}})
				tag++
				continue
			}
			switch kind {
			case "put":
				ph.Ops = append(ph.Ops, Op{Op: "put", K: rapid.IntRange(0, nk-1).Draw(t, "k"), V: value(t, tag, vo)})
				tag++
			case "del":
				ph.Ops = append(ph.Ops, Op{Op: "del", K: rapid.IntRange(0, nk-1).Draw(t, "k")})
			case "tx":
				m := rapid.IntRange(2, 5).Draw(t, "ntx")
				var body []drive.TxOp
				for j := 0; j < m; j++ {
					k := rapid.IntRange(0, nk-1).Draw(t, "k")
					if rapid.IntRange(0, 3).Draw(t, "txdel") == 0 {
						body = append(body, drive.TxOp{Op: "del", K: k})
					} else {
						body = append(body, drive.TxOp{Op: "put", K: k, V: value(t, tag, vo)})
						tag++
					}
				}
				ph.Ops = append(ph.Ops, Op{Op: "tx", Tx: body})
			case "flush":
				ph.Ops = append(ph.Ops, Op{Op: "flush"})
			}
		}
		ph.PauseMs = rapid.SampledFrom([]int{0, 0, 50, 300, 1500}).Draw(t, "pause")
		c.Phases = append(c.Phases, ph)
	}
	// open finding D18c: a single last write that arrives after a replica (re)opened
	// its stream with exactly that sequence number as start sequence is neither
	// pushed (broadcastToReplicas skips entries <= StartSequence) nor polled
	// (LastAckSequence starts at StartSequence). With the flag off the last phase
	// holds at least two writes (the second one makes the replica ask for the first).
	if !ev.Flag("single_trailing_write") {
		last := &c.Phases[len(c.Phases)-1]
		w := 0
		for _, o := range last.Ops {
			if o.Op != "flush" {
				w++
			}
		}
		if w < 2 {
			ev.R().Exclude("single_trailing_write")
			for ; w < 2; w++ {
				last.Ops = append(last.Ops, Op{Op: "put", K: rapid.IntRange(0, nk-1).Draw(t, "k_extra"), V: value(t, tag, vo)})
				tag++
			}
		}
	}
	c.FastHeartbeat = rapid.Bool().Draw(t, "fast_heartbeat")
	if c.FastHeartbeat {
		// timeouts shorter than the idle periods of the trickle / idle_few phases
		c.HBTimeoutMs = rapid.SampledFrom([]int{700, 1000, 2000}).Draw(t, "hb_timeout")
		c.HBNoEmpty = rapid.IntRange(0, 3).Draw(t, "hb_no_empty") == 0
	}
	// huge single values (a quarter of the cases without a bulk phase): 1-3 puts of
	// 260 KiB - 1.5 MiB, 3 MiB in total at most so that a 100-entry catch-up message
	// stays below gRPC's default 4 MiB receive limit; placed as the very first
	// entry, in the middle of small ones, or last; a replica joins or comes back
	// afterwards (see the bulk rule below)
	if bulkAt < 0 && rapid.IntRange(0, 3).Draw(t, "huge") == 0 {
		budget := 3 << 20
		nh := rapid.IntRange(1, 3).Draw(t, "nhuge")
		for i := 0; i < nh; i++ {
			l := rapid.IntRange(260<<10, 1536<<10).Draw(t, "hugelen")
			if l > budget {
				break
			}
			budget -= l
			ph := rapid.IntRange(0, nph-1).Draw(t, "hugephase")
			if idleFew && ph == nph-1 {
				ph = nph - 2 // the last few writes after the idle period stay small
			}
			ops := c.Phases[ph].Ops
			pos := 0
			switch rapid.SampledFrom([]string{"first", "middle", "last"}).Draw(t, "hugepos") {
			case "middle":
				pos = len(ops) / 2
			case "last":
				pos = len(ops)
			}
			op := Op{Op: "put", K: rapid.IntRange(0, nk-1).Draw(t, "k_huge"), V: &drive.Val{Len: l, Tag: tag}}
			tag++
			ops = append(ops[:pos:pos], append([]Op{op}, ops[pos:]...)...)
			c.Phases[ph].Ops = ops
			if bulkAt < 0 || ph < bulkAt {
				bulkAt = ph
			}
		}
	}
	nrep := rapid.SampledFrom([]int{1, 1, 2}).Draw(t, "nrep")
	for r := 0; r < nrep; r++ {
		rp := ReplicaPlan{RestartAt: -1, UpAgainAt: -1}
		rp.JoinAt = rapid.IntRange(0, nph).Draw(t, "join")
		if rp.JoinAt < nph && rapid.IntRange(0, 2).Draw(t, "restart") == 0 {
			rp.RestartAt = rapid.IntRange(rp.JoinAt+1, nph).Draw(t, "restart_at")
			rp.UpAgainAt = rapid.IntRange(rp.RestartAt, nph).Draw(t, "up_at")
		}
		rp.Wait = rapid.Bool().Draw(t, "wait")
		rp.Cfg = drive.Cfg{MemTableSize: rapid.SampledFrom([]int64{4096, bigMem, bigMem}).Draw(t, "rmem"), MaxMemTables: 4, SyncMode: 0, SyncBytes: 4096}
		c.Replicas = append(c.Replicas, rp)
	}
	// transient apply failure on a replica (a quarter of the cases that have at
	// least 5 writes): the failing call is placed inside the first multi-entry
	// catch-up message of a replica that joins late or replays after a restart
	writesBefore := func(b int) int {
		n := 0
		for _, ph := range c.Phases[:b] {
			for _, o := range ph.Ops {
				if o.Op != "flush" {
					n++
				}
			}
		}
		return n
	}
	if writesBefore(nph) >= 5 && rapid.IntRange(0, 3).Draw(t, "applyfault") == 0 {
		pick, w, after := -1, 0, false
		for i, rp := range c.Replicas {
			if rp.UpAgainAt >= 0 && writesBefore(rp.UpAgainAt) >= 5 {
				pick, w, after = i, writesBefore(rp.UpAgainAt), true
				break
			}
			if writesBefore(rp.JoinAt) >= 5 {
				pick, w, after = i, writesBefore(rp.JoinAt), false
				break
			}
		}
		if pick < 0 {
			// make the last replica join after the writes
			pick, w, after = len(c.Replicas)-1, writesBefore(nph), false
			rp := &c.Replicas[pick]
			rp.JoinAt, rp.RestartAt, rp.UpAgainAt = nph, -1, -1
		}
		c.Replicas[pick].FailApplyAt = rapid.IntRange(2, min(w, 100)).Draw(t, "fail_apply_at")
		c.Replicas[pick].FailAfterRestart = after
	}
	// by construction: after a bulk phase some replica joins or comes back (a
	// restarted replica replays from sequence 1), so the bulk travels in 100-entry
	// catch-up messages and not only as single-entry pushes
	if bulkAt >= 0 && !idleFew {
		ok := false
		for _, rp := range c.Replicas {
			if rp.JoinAt > bulkAt || rp.UpAgainAt > bulkAt {
				ok = true
			}
		}
		if !ok {
			r0 := &c.Replicas[0]
			if rapid.Bool().Draw(t, "bulk_restart") && r0.JoinAt <= bulkAt {
				r0.RestartAt = rapid.IntRange(max(r0.JoinAt+1, bulkAt+1), nph).Draw(t, "bulk_restart_at")
				r0.UpAgainAt = rapid.IntRange(r0.RestartAt, nph).Draw(t, "bulk_up_at")
			} else {
				r0.JoinAt = rapid.IntRange(bulkAt+1, nph).Draw(t, "bulk_join")
				r0.RestartAt, r0.UpAgainAt = -1, -1
			}
		}
	}
	// by construction: the first replica is connected throughout the long idle
	// period that precedes the last few writes
	if idleFew {
		r0 := &c.Replicas[0]
		r0.JoinAt = rapid.IntRange(0, nph-2).Draw(t, "idle_join")
		r0.RestartAt, r0.UpAgainAt = -1, -1
		if rapid.IntRange(0, 2).Draw(t, "idle_restart") == 0 && r0.JoinAt+1 <= nph-2 {
			// an earlier restart is fine as long as the replica is up again before the idle period
			r0.RestartAt = rapid.IntRange(r0.JoinAt+1, nph-2).Draw(t, "idle_restart_at")
			r0.UpAgainAt = rapid.IntRange(r0.RestartAt, nph-2).Draw(t, "idle_up_at")
		}
	}
	return c
}

// value draws a value for the replicated workload: never nil (a nil value and
// an empty value are the same thing on the wire), sizes up to 4000 bytes.
func value(t *rapid.T, tag uint32, o gen.ValOpts) *drive.Val {
	switch rapid.SampledFrom([]string{"small", "small", "small", "small", "medium", "empty"}).Draw(t, "vclass") {
	case "empty":
		return &drive.Val{Len: 0, Tag: tag}
	case "medium":
		return &drive.Val{Len: rapid.IntRange(200, 1500).Draw(t, "vlen"), Tag: tag}
	}
	return &drive.Val{Len: rapid.IntRange(1, o.MaxSmall).Draw(t, "vlen"), Tag: tag}
}

// shape is what classification needs.
type shape struct {
	txs, flushes, writes, bytes int
	lateJoin, midJoin, restart  bool
	second                      bool
	smallMem                    bool
}

func shapeOf(c *Case) shape {
	var s shape
	for _, ph := range c.Phases {
		for _, o := range ph.Ops {
			switch o.Op {
			case "put":
				s.writes++
				s.bytes += o.V.Len + 20
			case "del":
				s.writes++
				s.bytes += 20
			case "tx":
				s.writes++
				s.txs++
				for _, x := range o.Tx {
					s.bytes += 20
					if x.V != nil {
						s.bytes += x.V.Len
					}
				}
			case "flush":
				s.flushes++
			}
		}
	}
	for _, r := range c.Replicas {
		if r.JoinAt == len(c.Phases) {
			s.lateJoin = true
		} else if r.JoinAt > 0 || r.Hot {
			s.midJoin = true // between the write phases, or during one (Hot)
		}
		if r.RestartAt >= 0 {
			s.restart = true
		}
	}
	s.second = len(c.Replicas) >= 2
	s.smallMem = c.PCfg.MemTableSize != bigMem
	return s
}

// classify implements the non-trivial rule of DESIGN.md 5/C14: the workload
// contains a transaction or a flush/rotation on the primary, or a replica
// joins late (after at least one write phase) or restarts.
func classify(c *Case) (bool, []string) {
	s := shapeOf(c)
	var cl []string
	if s.txs > 0 {
		cl = append(cl, "primary_tx")
	}
	rot := s.flushes > 0 || (s.smallMem && int64(s.bytes) >= c.PCfg.MemTableSize)
	if rot {
		cl = append(cl, "primary_flush_or_rotation")
	}
	if s.midJoin {
		cl = append(cl, "join_during_writes")
	}
	if s.lateJoin {
		cl = append(cl, "join_after_writes")
	}
	if s.restart {
		cl = append(cl, "replica_restart")
	}
	if s.second {
		cl = append(cl, "two_replicas")
	}
	joinedFromStart, streaming := false, false
	for _, r := range c.Replicas {
		if r.JoinAt == 0 {
			joinedFromStart = true
		}
		if r.Wait && r.JoinAt < len(c.Phases) {
			streaming = true
		}
	}
	if streaming {
		cl = append(cl, "writes_pushed_to_streaming_replica")
	}
	if joinedFromStart {
		cl = append(cl, "join_before_writes")
	}
	if c.FastHeartbeat {
		to := c.HBTimeoutMs
		if to == 0 {
			to = 1000
		}
		for i := 0; i+1 < len(c.Phases); i++ {
			if c.Phases[i].PauseMs > to+500 {
				cl = append(cl, "idle_longer_than_heartbeat_timeout_then_writes")
				break
			}
		}
		if c.HBNoEmpty {
			cl = append(cl, "heartbeat_without_empty_messages")
		}
	}
	hugeIn := -1
	for i, ph := range c.Phases {
		for _, o := range ph.Ops {
			if o.Op == "put" && o.V.Len >= 260<<10 && hugeIn < 0 {
				hugeIn = i
			}
		}
	}
	if hugeIn >= 0 {
		cl = append(cl, "huge_value(260KiB-1.5MiB)")
		for _, r := range c.Replicas {
			if r.JoinAt > hugeIn || r.UpAgainAt > hugeIn {
				cl = append(cl, "join_or_restart_after_huge_value")
				break
			}
		}
	}
	if c.Shape == "hot_phase" {
		cl = append(cl, "back_to_back_burst(2000-4000)_with_overlapping_stream_openings")
		for _, r := range c.Replicas {
			if r.Hot && r.RestartAt >= 0 {
				cl = append(cl, "restart_during_burst")
			} else if r.Hot {
				cl = append(cl, "join_during_burst")
			} else {
				cl = append(cl, "reconnects_during_burst")
			}
		}
	}
	if c.Shape == "aged_burst" {
		cl = append(cl, "aged_replica_then_burst(150-400)")
		if c.FastHeartbeat {
			cl = append(cl, "aged_burst_with_200ms_heartbeat")
		}
	}
	for _, r := range c.Replicas {
		if r.FailApplyAt > 0 {
			cl = append(cl, "replica_apply_fault_once")
			break
		}
	}
	if np := len(c.Phases); np >= 2 && c.Phases[np-2].PauseMs >= 3000 && len(c.Phases[np-1].Ops) <= 5 {
		for _, r := range c.Replicas {
			if r.JoinAt <= np-2 && (r.RestartAt < 0 || r.UpAgainAt <= np-2) {
				cl = append(cl, "idle_3-6s_then_1-5_last_writes")
				break
			}
		}
	}
	for i, ph := range c.Phases {
		big, bytes := 0, 0
		for _, o := range ph.Ops {
			if o.Op == "put" && o.V.Len >= 8000 {
				big++
				bytes += o.V.Len
			}
		}
		if big < 90 {
			continue
		}
		after := false
		for _, r := range c.Replicas {
			if r.JoinAt > i || r.UpAgainAt > i {
				after = true
			}
		}
		if after {
			cl = append(cl, "join_or_restart_after_bulk(>1MiB_per_100_entries)")
		} else {
			cl = append(cl, "bulk_pushed_only")
		}
		break
	}
	if lw := len(c.Phases[len(c.Phases)-1].Ops); lw == 1 {
		cl = append(cl, "single_trailing_write")
	}
	for i, ph := range c.Phases {
		if i > 0 && len(ph.Ops) <= 2 && c.Phases[i-1].PauseMs >= 1300 {
			cl = append(cl, "trickle_after_idle")
			break
		}
	}
	if s.writes > 100 {
		cl = append(cl, "more_than_100_log_entries")
	}
	if c.FastHeartbeat {
		cl = append(cl, "fast_heartbeat")
	}
	cl = append(cl, fmt.Sprintf("phases=%d", len(c.Phases)))
	nt := s.txs > 0 || rot || s.midJoin || s.lateJoin || s.restart
	return nt, cl
}

// agedAges: how long the replica of an aged_burst case sits idle. The quick
// tier uses the short end (wall time); both are long enough for a reconnect
// pause that grows with the replica's age to break the bound.
func agedAges() []int {
	if ev.Tier() == "thorough" {
		return []int{15000, 18000, 22000}
	}
	return []int{15000, 16000}
}

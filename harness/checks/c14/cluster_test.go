package c14

// In-process replication cluster used by the child process of one case: real
// engines, real replication.Manager on both sides, loopback TCP.
// (checks/c15/cluster_test.go is a copy of this file; shared packages may not
// be edited by the authors of a check.)

import (
	"bytes"
	"context"
	"errors"
	"fmt"
	"io"
	"net"
	"os"
	"path/filepath"
	"strconv"
	"strings"
	"sync/atomic"
	"time"

	"google.golang.org/grpc"
	"google.golang.org/grpc/credentials/insecure"

	"github.com/KevoDB/kevo/pkg/common/log"
	"github.com/KevoDB/kevo/pkg/engine"
	"github.com/KevoDB/kevo/pkg/engine/interfaces"
	"github.com/KevoDB/kevo/pkg/replication"
	rpb "github.com/KevoDB/kevo/proto/kevo/replication"

	"verif/internal/drive"
)

// portBase is the first port of this check's range (C14: 21000-22899,
// C15: 23000-24899); every shard label owns a window of 100 ports in it.
const portBase = 21000

// shardWindow maps VERIF_SHARD ("S.R", "replay", ...) to the first port of its
// window.
func shardWindow() int {
	lab := os.Getenv("VERIF_SHARD")
	s := 18 // anything that is not "S.R" (replay, by hand)
	if i := strings.IndexByte(lab, '.'); i > 0 {
		if v, err := strconv.Atoi(lab[:i]); err == nil && v >= 0 && v < 18 {
			s = v
		}
	}
	return portBase + s*100
}

var portCursor atomic.Int64

func init() { portCursor.Store(int64(os.Getpid()) % 100) }

// quietLogs sends the repository's logger to w (nil: discard). The default
// logger captured os.Stdout when the package was initialised, i.e. before
// ev.Silence.
func quietLogs(w io.Writer) {
	if w == nil {
		w = io.Discard
	}
	log.SetDefaultLogger(log.NewStandardLogger(log.WithOutput(w)))
}

// Node is one engine plus its replication manager.
type Node struct {
	Name   string
	Dir    string
	Cfg    drive.Cfg
	Eng    *engine.EngineFacade
	Mgr    *replication.Manager
	Addr   string // primary: listen address; replica: the address it reports as its own
	Joined bool
	// ApplyFault (replicas, C14 only): when set, the manager is given a wrapper of
	// the engine whose At-th replicated apply reports one transient error
	ApplyFault *applyFault
}

// applyFault makes the At-th PutInternal/DeleteInternal call (what
// replication.EngineApplier uses on a read-only replica engine) fail once.
type applyFault struct {
	At    int64
	calls atomic.Int64
	fired atomic.Bool
}

func (f *applyFault) hit() error {
	if f.calls.Add(1) == f.At {
		f.fired.Store(true)
		return errors.New("transient storage error (injected once by the harness)")
	}
	return nil
}

// flakyEngine is the replica engine as the replication manager sees it.
type flakyEngine struct {
	*engine.EngineFacade
	f *applyFault
}

func (e *flakyEngine) PutInternal(key, value []byte) error {
	if err := e.f.hit(); err != nil {
		return err
	}
	return e.EngineFacade.PutInternal(key, value)
}

func (e *flakyEngine) DeleteInternal(key []byte) error {
	if err := e.f.hit(); err != nil {
		return err
	}
	return e.EngineFacade.DeleteInternal(key)
}

// startPrimary opens the primary engine and starts a primary manager on a
// port of the shard's window. The manager only LOGS a failed Listen, so the
// port is first tested by listening on it ourselves and the running server is
// then identified by a probe stream that must show up in Manager.Status().
func startPrimary(dir string, cfg drive.Cfg, pc *replication.PrimaryConfig) (*Node, error) {
	eng, err := drive.Open(dir, cfg)
	if err != nil {
		return nil, fmt.Errorf("open primary engine: %w", err)
	}
	win := shardWindow()
	var lastErr error
	for try := 0; try < 100; try++ {
		port := win + int(portCursor.Add(1)%100)
		addr := "127.0.0.1:" + strconv.Itoa(port)
		l, err := net.Listen("tcp", addr)
		if err != nil {
			lastErr = err
			continue
		}
		_ = l.Close()
		m, err := replication.NewManager(eng, &replication.ManagerConfig{
			Enabled: true, Mode: replication.ReplicationModePrimary, ListenAddr: addr, PrimaryConfig: pc,
		})
		if err != nil {
			return nil, fmt.Errorf("NewManager(primary): %w", err)
		}
		if err := m.Start(); err != nil {
			return nil, fmt.Errorf("primary Start: %w", err)
		}
		if err := probePrimary(m, addr); err != nil {
			lastErr = err
			// this manager may own no listener; leave it (process exit cleans up)
			// but detach it from the log so that it does not see the writes
			if w := eng.GetWAL(); w != nil {
				w.UnregisterObserver("primary_replication")
			}
			continue
		}
		return &Node{Name: "primary", Dir: dir, Cfg: cfg, Eng: eng, Mgr: m, Addr: addr, Joined: true}, nil
	}
	return nil, fmt.Errorf("no usable port in %d..%d: %v", win, win+99, lastErr)
}

// probePrimary opens StreamWAL with a unique listener address and waits until
// the manager reports that session; then closes the stream and waits until the
// session is gone again.
func probePrimary(m *replication.Manager, addr string) error {
	tag := fmt.Sprintf("probe-%d-%d", os.Getpid(), time.Now().UnixNano())
	ctx, cancel := context.WithTimeout(context.Background(), 10*time.Second)
	defer cancel()
	conn, err := grpc.DialContext(ctx, addr, grpc.WithTransportCredentials(insecure.NewCredentials()), grpc.WithBlock())
	if err != nil {
		return fmt.Errorf("probe dial %s: %w", addr, err)
	}
	defer conn.Close()
	sctx, scancel := context.WithCancel(context.Background())
	// start far behind the end of the log: the probe only wants the session
	st, err := rpb.NewWALReplicationServiceClient(conn).StreamWAL(sctx, &rpb.WALStreamRequest{
		StartSequence: 1 << 62, ProtocolVersion: 1, ListenerAddress: tag})
	if err != nil {
		scancel()
		return fmt.Errorf("probe stream: %w", err)
	}
	if _, err := st.Header(); err != nil {
		scancel()
		return fmt.Errorf("probe header: %w", err)
	}
	seen := false
	for dl := time.Now().Add(5 * time.Second); time.Now().Before(dl); time.Sleep(5 * time.Millisecond) {
		if hasSession(m, tag) {
			seen = true
			break
		}
	}
	scancel()
	if !seen {
		return fmt.Errorf("server on %s is not this manager (probe session not reported)", addr)
	}
	// the server is ours; give the probe session a moment to go away, but do not
	// insist (whether ended sessions leave the topology is C15's question, and
	// the probe's listener address is never looked for again)
	for dl := time.Now().Add(3 * time.Second); time.Now().Before(dl); time.Sleep(5 * time.Millisecond) {
		if !hasSession(m, tag) {
			break
		}
	}
	return nil
}

// sessions lists the listener addresses of the replica sessions a primary
// manager reports through Status().
func sessions(m *replication.Manager) []string {
	st := m.Status()
	reps, _ := st["replicas"].([]map[string]interface{})
	var out []string
	for _, r := range reps {
		if a, ok := r["listener_address"].(string); ok {
			out = append(out, a)
		}
	}
	return out
}

func hasSession(m *replication.Manager, listener string) bool {
	for _, a := range sessions(m) {
		if a == listener {
			return true
		}
	}
	return false
}

// replicaConfig is DefaultReplicaConfig with a short dial timeout (the
// default 10 s blocking dial only matters for teardown).
func replicaConfig() *replication.ReplicaConfig {
	rc := replication.DefaultReplicaConfig()
	rc.Connection.DialTimeout = 2 * time.Second
	return rc
}

// startReplica opens (or reopens) the replica engine in dir and starts a
// replica manager pointed at primaryAddr.
func startReplica(name, dir string, cfg drive.Cfg, primaryAddr, ownAddr string, rc *replication.ReplicaConfig, af *applyFault) (*Node, error) {
	eng, err := drive.Open(dir, cfg)
	if err != nil {
		return nil, fmt.Errorf("open %s engine: %w", name, err)
	}
	n := &Node{Name: name, Dir: dir, Cfg: cfg, Eng: eng, Addr: ownAddr, ApplyFault: af}
	if err := n.startReplicaMgr(primaryAddr, rc); err != nil {
		return nil, err
	}
	return n, nil
}

func (n *Node) startReplicaMgr(primaryAddr string, rc *replication.ReplicaConfig) error {
	if rc == nil {
		rc = replicaConfig()
	}
	var eng interfaces.Engine = n.Eng
	if n.ApplyFault != nil {
		eng = &flakyEngine{EngineFacade: n.Eng, f: n.ApplyFault}
	}
	m, err := replication.NewManager(eng, &replication.ManagerConfig{
		Enabled: true, Mode: replication.ReplicationModeReplica, PrimaryAddr: primaryAddr,
		ListenAddr: n.Addr, ReplicaConfig: rc, ForceReadOnly: true,
	})
	if err != nil {
		return fmt.Errorf("NewManager(%s): %w", n.Name, err)
	}
	if err := m.Start(); err != nil {
		return fmt.Errorf("%s Start: %w", n.Name, err)
	}
	n.Mgr = m
	n.Joined = true
	return nil
}

// stopReplica stops the manager and closes the engine; false = it did not
// return within the cap (the caller abandons the case, it is not judged).
func (n *Node) stopReplica(limit time.Duration) bool {
	done := make(chan struct{})
	go func() {
		_ = n.Mgr.Stop()
		drive.Quiesce(n.Eng)
		_ = n.Eng.Close()
		close(done)
	}()
	select {
	case <-done:
		n.Mgr, n.Eng, n.Joined = nil, nil, false
		return true
	case <-time.After(limit):
		return false
	}
}

// restartReplica reopens the engine on the same directory and starts a new
// manager (what a restarted replica process does).
func (n *Node) restartReplica(primaryAddr string, rc *replication.ReplicaConfig) error {
	eng, err := engine.NewEngineFacade(n.Dir)
	if err != nil {
		return fmt.Errorf("reopen %s engine: %w", n.Name, err)
	}
	n.Eng = eng
	return n.startReplicaMgr(primaryAddr, rc)
}

// diffSnap compares two observations ("" = equal): found keys with values,
// then the scans position by position.
func diffSnap(keys [][]byte, a, b *drive.Snapshot, an, bn string) string {
	if a.Err != "" {
		return an + " read error: " + a.Err
	}
	if b.Err != "" {
		return bn + " read error: " + b.Err
	}
	for i, k := range keys {
		av, af := a.Gets[string(k)]
		bv, bf := b.Gets[string(k)]
		if af != bf || !bytes.Equal(av, bv) {
			return fmt.Sprintf("get k%d: %s found=%v %s, %s found=%v %s", i, an, af, brief(av), bn, bf, brief(bv))
		}
	}
	if len(a.Scan) != len(b.Scan) {
		return fmt.Sprintf("scan: %s has %d live keys, %s has %d", an, len(a.Scan), bn, len(b.Scan))
	}
	for i := range a.Scan {
		if !bytes.Equal(a.Scan[i].K, b.Scan[i].K) {
			return fmt.Sprintf("scan position %d: %s key %q, %s key %q", i, an, clipB(a.Scan[i].K), bn, clipB(b.Scan[i].K))
		}
		if !bytes.Equal(a.Scan[i].V, b.Scan[i].V) {
			return fmt.Sprintf("scan key %q: %s value %s, %s value %s", clipB(a.Scan[i].K), an, brief(a.Scan[i].V), bn, brief(b.Scan[i].V))
		}
	}
	return ""
}

func brief(b []byte) string {
	if len(b) <= 8 {
		return fmt.Sprintf("%x(len %d)", b, len(b))
	}
	return fmt.Sprintf("%x..(len %d)", b[:8], len(b))
}

func clipB(b []byte) []byte {
	if len(b) > 16 {
		return b[:16]
	}
	return b
}

// replicaStatus extracts the interesting numbers of a replica manager.
func replicaStatus(m *replication.Manager) map[string]any {
	out := map[string]any{}
	if m == nil {
		return out
	}
	st := m.Status()
	for _, k := range []string{"state", "last_error", "entries_received", "entries_applied", "batch_count", "errors", "connection_status"} {
		if v, ok := st[k]; ok {
			out[k] = v
		}
	}
	return out
}

func mkdir(base, name string) string {
	d := filepath.Join(base, name)
	_ = os.MkdirAll(d, 0o755)
	return d
}

// C14 — a connected replica converges to the primary's state.
// End-to-end: real engines and real replication.Manager on both sides over
// loopback TCP; generated primary workloads and replica join/restart times;
// bounded-time convergence oracle (DESIGN.md 5/C14). Every case runs in its
// own child process; the verdict is written before teardown and process exit
// is the teardown.
package c14

import (
	"bytes"
	"encoding/json"
	"fmt"
	"os"
	"os/exec"
	"path/filepath"
	"strings"
	"sync"
	"syscall"
	"testing"
	"time"

	"pgregory.net/rapid"

	"verif/internal/ev"
)

const rule = "case = rapid-drawn (primary engine config with a 1-4 KiB or 32 MiB memtable, key pool, 1-4 phases of primary operations " +
	"over put/delete/multi-key transaction/explicit flush; phase kinds: burst 1-30 ops, big 101-160 ops, bulk 100-160 puts of 11-33 KB followed by a " +
	"replica join or restart, trickle 1-2 ops after 1.3-2.5 s of idleness, and as last phase 1-5 writes after 3-6 s of idleness with a connected replica; " +
	"a pause of 0-1.5 s after each other phase; in 1/7 of the cases the shape aged_burst: replica connected before 2-12 early writes, 15-22 s of silence (quick tier: 15-16 s), " +
	"then a burst of 150-400 single-key writes; in 1/5 of the cases the shape hot_phase: 2000-4000 back-to-back single-key writes while two replicas " +
	"with a 20-50 ms reconnect delay open streams (streaming and reconnecting after every batch, joining during the burst, or stopped and restarted " +
	"during it); a primary write that does not return within 30 s is the violation primary-write-blocked; in 1/4 of the other cases one replica that joins late or replays after a restart gets ONE transient error from its " +
	"storage on a drawn non-first entry of its first multi-entry catch-up message; default or 200 ms / 1 s heartbeat; 1-2 replicas each with a join boundary " +
	"(before, between or after the write phases) and optionally a stop+close / reopen+restart pair of boundaries on the same directory); " +
	"executed in a child process with real engines and replication.Manager on both sides over loopback TCP; " +
	"oracle = after the last write, within 60 s + 3 s x phases, Get of every pool key and a full scan of every replica engine equal those of the " +
	"primary engine, and they are still equal 2 s later (an equality that does not last 2 s, e.g. while a restarted replica replays the log from " +
	"sequence 1, is counted and the search for a lasting one continues until the bound). " +
	"non-trivial = the workload contains a transaction or a flush / enough data to rotate the primary's log, or a replica joins after the " +
	"first write phase or is restarted; distinct by FNV-64 of the case JSON"

func TestMain(m *testing.M) {
	if os.Getenv("VERIF_CHILD_SPEC") != "" {
		ev.Silence()
		os.Exit(m.Run())
	}
	ev.Silence()
	rec := ev.Init("C14", rule)
	code := m.Run()
	rec.Flush(true)
	os.Exit(code)
}

// TestChild is the entry point of the re-executed child.
func TestChild(t *testing.T) {
	sp := os.Getenv("VERIF_CHILD_SPEC")
	if sp == "" {
		t.Skip("not a child")
	}
	childMain(sp)
}

// Doc is the replay document.
type Doc struct {
	Property  string `json:"property"`
	Signature string `json:"signature,omitempty"`
	Case      Case   `json:"case"`
	// Cases (optional, replay files only): further cases that belong to the same
	// document; TestReplay executes all of them side by side and fails with the
	// signature of the first one (in order: Case, Cases...) that fails.
	Cases   []Case  `json:"cases,omitempty"`
	Message string  `json:"message,omitempty"`
	Result  *Result `json:"child_result,omitempty"`
	Note    string  `json:"note,omitempty"`
}

// infra stops the process in a way the driver reports as inconclusive
// (partial not completed, non-zero exit), never as a violation.
func infra(msg string) {
	fmt.Fprintln(os.Stderr, "C14 infrastructure error:", msg)
	ev.R().Note("infrastructure: " + clip(msg, 300))
	ev.R().Flush(false)
	os.Exit(3)
}

func clip(s string, n int) string {
	if len(s) > n {
		return s[:n] + "..."
	}
	return s
}

// runChild executes one case in a child process. A child that cannot start,
// dies or exceeds the cap without a result is an infrastructure error.
func runChild(c *Case) *Result {
	base, err := os.MkdirTemp("", "c14-")
	if err != nil {
		return &Result{Verdict: "infra", Msg: err.Error()}
	}
	defer os.RemoveAll(base)
	spec := ChildSpec{Case: *c, Out: filepath.Join(base, "result.json"), Base: base, LogTo: os.Getenv("VERIF_C14_LOG")}
	sp := filepath.Join(base, "spec.json")
	b, _ := json.Marshal(&spec)
	if err := os.WriteFile(sp, b, 0o644); err != nil {
		return &Result{Verdict: "infra", Msg: err.Error()}
	}
	cmd := exec.Command(os.Args[0], "-test.run", "^TestChild$", "-test.timeout", "0")
	cmd.Env = append(os.Environ(), "VERIF_CHILD_SPEC="+sp, fmt.Sprintf("VERIF_CHILD_CAP_S=%d", int(capFor(c).Seconds())+20))
	var stderr bytes.Buffer
	cmd.Stderr = &stderr
	cmd.Stdout = nil
	// the child dies with this process (driver timeout, kill) and, independently,
	// ends itself after the cap
	cmd.SysProcAttr = &syscall.SysProcAttr{Pdeathsig: syscall.SIGKILL}
	if err := cmd.Start(); err != nil {
		return &Result{Verdict: "infra", Msg: "start child: " + err.Error()}
	}
	done := make(chan error, 1)
	go func() { done <- cmd.Wait() }()
	// cap: phases (writes are fast, pauses <= 1.5 s each, stop <= 30 s per replica)
	// + bound + stability delay + generous slack for a loaded machine
	limit := capFor(c)
	var werr error
	select {
	case werr = <-done:
	case <-time.After(limit):
		_ = cmd.Process.Kill()
		<-done
		if r := readResult(spec.Out); r != nil {
			return r
		}
		return &Result{Verdict: "infra", Msg: fmt.Sprintf("child exceeded %v without a verdict; stderr: %s", limit, clip(stderr.String(), 1500))}
	}
	if r := readResult(spec.Out); r != nil {
		return r
	}
	if r := processDied(stderr.String()); r != nil {
		return r
	}
	return &Result{Verdict: "infra", Msg: fmt.Sprintf("child ended without a result (%v); stderr: %s", werr, tailStr(stderr.String(), 1500))}
}

func tailStr(s string, n int) string {
	if len(s) > n {
		return s[len(s)-n:]
	}
	return s
}

func readResult(path string) *Result {
	b, err := os.ReadFile(path)
	if err != nil {
		return nil
	}
	var r Result
	if json.Unmarshal(b, &r) != nil {
		return nil
	}
	return &r
}

func record(c *Case, r *Result) {
	ev.R().Count("converge_ms_total", int(r.ConvergeMs))
	switch {
	case r.ConvergeMs < 1000:
		ev.R().Count("converged_in_<1s", 1)
	case r.ConvergeMs < 5000:
		ev.R().Count("converged_in_1-5s", 1)
	case r.ConvergeMs < 15000:
		ev.R().Count("converged_in_5-15s", 1)
	default:
		ev.R().Count("converged_in_>=15s", 1)
		ev.R().Note(fmt.Sprintf("slow convergence: %d ms (bound %d ms)", r.ConvergeMs, r.BoundMs))
	}
	if r.PrimaryWALs > 1 {
		ev.R().Count("cases_with_rotated_primary_log", 1)
	}
	if r.Regressions > 0 {
		ev.R().Count("cases_equal_then_regressed_before_settling", 1)
	}
	if d := os.Getenv("VERIF_C14_KEEP"); d != "" && r.ConvergeMs >= 15000 {
		b, _ := json.MarshalIndent(Doc{Property: "C14", Signature: "slow", Case: *c, Result: r}, "", " ")
		_ = os.WriteFile(filepath.Join(d, fmt.Sprintf("slow-%d-%d.json", r.ConvergeMs, time.Now().UnixNano())), b, 0o644)
	}
	if r.Verdict == "abandon" {
		ev.R().Count("abandoned:"+r.Sig, 1)
		ev.R().Note("abandoned: " + r.Sig + ": " + clip(r.Msg, 200))
		if d := os.Getenv("VERIF_C14_KEEP"); d != "" {
			b, _ := json.MarshalIndent(Doc{Property: "C14", Signature: r.Sig, Case: *c, Message: r.Msg, Result: r}, "", " ")
			_ = os.WriteFile(filepath.Join(d, fmt.Sprintf("abandon-%s-%d.json", strings.ReplaceAll(r.Sig, ":", "_"), time.Now().UnixNano())), b, 0o644)
		}
	}
}

func TestProp(t *testing.T) {
	rapid.Check(t, func(t *rapid.T) {
		c := genCase(t)
		r := runChild(&c)
		if r.Verdict == "infra" {
			infra(r.Msg)
		}
		nt, classes := classify(&c)
		if r.PrimaryWALs > 1 {
			classes = append(classes, "primary_log_rotated(observed)")
		}
		if r.ApplyFaultFired {
			classes = append(classes, "replica_apply_fault_fired(observed)")
		}
		ev.R().Case(ev.Hash(&c), nt, classes, func() any { return &c })
		record(&c, r)
		if r.Verdict == "violation" {
			path := ev.R().Fail(r.Sig, r.Msg, Doc{Property: "C14", Signature: r.Sig, Case: c, Message: r.Msg, Result: r})
			t.Fatalf("C14 violated: %s (replay %s)", r.Sig, path)
		}
	})
}

// TestReplay re-executes a saved case without the library. The verdict depends
// on the schedule of the replica's state machine, so the case is executed up
// to 3 times and the replay fails as soon as one execution fails.
func TestReplay(t *testing.T) {
	f := os.Getenv("VERIF_REPLAY")
	if f == "" {
		t.Skip("no VERIF_REPLAY")
	}
	b, err := os.ReadFile(f)
	if err != nil {
		t.Fatal(err)
	}
	var d Doc
	if err := json.Unmarshal(b, &d); err != nil {
		t.Fatal(err)
	}
	const n = 3
	cases := append([]Case{d.Case}, d.Cases...)
	// all executions run side by side (every child owns its engines, directories
	// and ports); the verdict of one execution depends on the schedule, so each
	// case is executed n times and the replay fails if any execution fails
	results := make([][]*Result, len(cases))
	var wg sync.WaitGroup
	for ci := range cases {
		results[ci] = make([]*Result, n)
		for i := 0; i < n; i++ {
			wg.Add(1)
			go func(ci, i int) {
				defer wg.Done()
				results[ci][i] = runChild(&cases[ci])
			}(ci, i)
		}
	}
	wg.Wait()
	var msgs []string
	for ci := range cases {
		for i, r := range results[ci] {
			if r.Verdict == "infra" {
				t.Fatalf("infrastructure: %s", r.Msg)
			}
			if os.Getenv("VERIF_VERBOSE") != "" {
				r2 := *r
				r2.Msg = clip(r2.Msg, 1500)
				rb, _ := json.Marshal(&r2)
				fmt.Fprintf(os.Stderr, "case %d execution %d: %s\n", ci, i+1, rb)
			}
		}
	}
	for ci := range cases {
		for i, r := range results[ci] {
			if r.Verdict == "violation" {
				ev.WriteReplayResult(ev.ReplayResult{File: f, Outcome: "fail", Signature: r.Sig,
					Message: fmt.Sprintf("case %d of %d, execution %d of %d: %s", ci+1, len(cases), i+1, n, clip(r.Msg, 3000))})
				t.Logf("replay fails (case %d, execution %d): %s", ci+1, i+1, r.Sig)
				return
			}
			msgs = append(msgs, summary(r))
		}
	}
	ev.WriteReplayResult(ev.ReplayResult{File: f, Outcome: "pass", Message: strings.Join(msgs, " ")})
}

func summary(r *Result) string { return fmt.Sprintf("%s/%dms", r.Verdict, r.ConvergeMs) }

// capFor is the parent's cap for one child: write phases (writes are fast,
// pauses <= 1.5 s each, a replica stop <= 30 s, a wedged driver step 60 s) +
// convergence bound + stability delay + slack for a loaded machine.
func capFor(c *Case) time.Duration {
	return bound(c) + time.Duration(len(c.Phases))*5*time.Second + 90*time.Second + 60*time.Second
}

// processDied turns a child that was killed by the Go runtime (fatal error or
// unrecovered panic) inside repository code into a violation: the process that
// hosts the primary (and the replicas) died. The goroutine that crashed is the
// first one of the dump; it must have a repository frame, otherwise the death
// is the harness's own problem (infrastructure).
func processDied(stderr string) *Result {
	i := strings.Index(stderr, "fatal error: ")
	if j := strings.Index(stderr, "panic: "); j >= 0 && (i < 0 || j < i) {
		i = j
	}
	if i < 0 {
		return nil
	}
	rest := stderr[i:]
	first := rest
	if k := strings.IndexByte(first, '\n'); k >= 0 {
		first = first[:k]
	}
	// the crashing goroutine: from the first "goroutine " header to the next blank line
	g := rest
	if k := strings.Index(g, "\ngoroutine "); k >= 0 {
		g = g[k+1:]
	}
	if k := strings.Index(g, "\n\n"); k >= 0 {
		g = g[:k]
	}
	if !strings.Contains(g, "github.com/KevoDB/kevo/") {
		return nil
	}
	who := "primary"
	if strings.Contains(g, "replication.(*Replica)") {
		who = "replica"
	}
	if len(rest) > 6000 {
		rest = rest[:6000]
	}
	return &Result{Verdict: "violation", Sig: who + "-process-died:" + clip(first, 120),
		Msg: "the process hosting the primary and its replicas was killed by the Go runtime:\n" + rest}
}

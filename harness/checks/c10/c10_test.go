// C10 — log damage is contained: exact prefix recovered, nothing fabricated.
// Fault enumeration over generated logs (DESIGN.md 5/C10).
//
// A case is a value: a log description (key pool, logical appends = single
// entries or batches, rotation points) built through the pkg/wal API, a list of
// faults on the NEWEST log file (truncate at offset o / replace the byte at
// offset p), and an optional engine part (open the database on the damaged
// directory, write more, close, reopen).
//
// Level 1 (every fault): what wal.ReplayWALDir hands to its handler.
// Level 2 (first fault of the case, when case.Engine): engine.NewEngineFacade
// on the damaged directory. Level 3: further writes, clean close, reopen.
package c10

import (
	"bytes"
	"encoding/binary"
	"encoding/json"
	"errors"
	"fmt"
	"hash/crc32"
	"os"
	"path/filepath"
	"runtime"
	"sort"
	"strings"
	"syscall"
	"testing"

	"github.com/KevoDB/kevo/pkg/config"
	"github.com/KevoDB/kevo/pkg/engine"
	"github.com/KevoDB/kevo/pkg/wal"
	"pgregory.net/rapid"

	"verif/internal/drive"
	"verif/internal/ev"
)

const rule = "cases = rapid-drawn log (2-6 pool keys, 1-25 logical appends = single put/delete or AppendBatch, full + fragmented + hostile-content records, 1-3 files, written through pkg/wal) " +
	"x 4-12 faults on the newest file (truncate at offset o | one byte replaced: bit flip, 0x00, 0xFF, +1, -1), stratified by region of our own layout map (crc/len/type/payload, record boundary/interior); " +
	"oracle L1 = set delivered by ReplayWALDir: contains every entry of every logical append completely written before the first damaged byte and of all older files, and only byte-identical appended entries; " +
	"L2 (first fault) = NewEngineFacade succeeds, no *.wal file left the log directory, every pool key reads a value allowed by prefix + any later appended op (truncation: exactly the prefix state); " +
	"L3 = writes after that recovery survive clean close + reopen; " +
	"non-trivial = a fault strictly inside a record with >= 1 complete record before it and >= 1 after it; distinct by FNV-64 of the case JSON (log + faults)"

func TestMain(m *testing.M) {
	ev.Silence()
	wal.DisableRecoveryLogs = true
	rec := ev.Init("C10", rule)
	code := m.Run()
	rec.Flush(true)
	os.Exit(code)
}

// ---------------------------------------------------------------------------
// case value

// Val describes a value: content is a function of (Len, Tag, Hostile).
type Val struct {
	Len     int    `json:"len"`
	Tag     uint32 `json:"tag"`
	Hostile bool   `json:"hostile,omitempty"` // embeds images of valid log entry payloads at the offsets where MIDDLE fragments begin
	Tiled   bool   `json:"tiled,omitempty"`   // the value is a run of complete physical record images (crc|len|type|payload), 32 bytes each
}

// recordImage is a complete, well-formed physical FULL record (32 bytes) whose
// payload is hostileImage with a one-byte key/value less: put, seq 7777777,
// key "FAB", value "R".
func recordImage() []byte {
	p := hostileImage()
	p = p[:len(p)-2]
	binary.LittleEndian.PutUint32(p[16:20], 1)
	b := make([]byte, 7, 7+len(p))
	binary.LittleEndian.PutUint32(b[0:4], crc32.ChecksumIEEE(p))
	binary.LittleEndian.PutUint16(b[4:6], uint16(len(p)))
	b[6] = wal.RecordTypeFull
	return append(b, p...)
}

const maxRec = wal.MaxRecordSize

// hostileImage is a well-formed entry payload (put, seq 7777777, key "FAB",
// value "RIC") that was never appended.
func hostileImage() []byte {
	b := make([]byte, 0, 32)
	b = append(b, wal.OpTypePut)
	b = binary.LittleEndian.AppendUint64(b, 7777777)
	b = binary.LittleEndian.AppendUint32(b, 3)
	b = append(b, "FAB"...)
	b = binary.LittleEndian.AppendUint32(b, 3)
	b = append(b, "RIC"...)
	return b
}

// Bytes renders the value.
func (v Val) Bytes() []byte {
	out := make([]byte, v.Len)
	var hdr [4]byte
	binary.LittleEndian.PutUint32(hdr[:], v.Tag)
	for i := range out {
		if i < 4 {
			out[i] = hdr[i]
		} else {
			out[i] = byte(uint32(i)*2654435761>>24) ^ hdr[0] ^ hdr[1]
		}
	}
	if v.Tiled {
		img := recordImage()
		for off := 4; off+len(img) <= len(out); off += len(img) {
			copy(out[off:], img)
		}
		return out
	}
	if v.Hostile {
		img := hostileImage()
		// a MIDDLE fragment of an entry with a short key starts at value offset
		// k*MaxRecordSize-4-(key bytes beyond the first fragment); plant images
		// for short keys (whole key in the first fragment)
		for off := maxRec - 4; off+len(img) <= len(out); off += maxRec {
			copy(out[off:], img)
		}
		// and a few right at the start, for LAST fragments of short entries
		if len(out) >= 8+len(img) {
			copy(out[8:], img)
		}
	}
	return out
}

// Ent is one entry of a logical append.
type Ent struct {
	T uint8 `json:"t"` // 1 put, 2 delete
	K int   `json:"k"` // index into the key pool
	V *Val  `json:"v,omitempty"`
}

// App is one logical append: a single entry (Append) or a batch (AppendBatch).
type App struct {
	Batch  bool  `json:"batch,omitempty"`
	Ents   []Ent `json:"ents"`
	Rotate bool  `json:"rotate,omitempty"` // after this append: Close, NewWAL, UpdateNextSequence
}

// Fault is one fault on the newest log file.
type Fault struct {
	Kind  string `json:"kind"`            // trunc | byte
	Off   int    `json:"off"`             // trunc: new file length; byte: position
	Class string `json:"class,omitempty"` // byte: flip | zero | ff | plus1 | minus1
	Bit   int    `json:"bit,omitempty"`   // flip: bit index
}

// Case is one generated case.
type Case struct {
	Keys   [][]byte  `json:"keys"`
	Apps   []App     `json:"apps"`
	Faults []Fault   `json:"faults"`
	Engine bool      `json:"engine,omitempty"` // take Faults[0] to level 2/3
	After  []Ent     `json:"after,omitempty"`  // writes after the recovery (level 3)
	Cfg    drive.Cfg `json:"cfg"`
}

// Mismatch is an oracle failure.
type Mismatch struct {
	Level  string `json:"level"` // L1 | L2 | L3
	Fault  Fault  `json:"fault"`
	Region string `json:"region"`
	Kind   string `json:"kind"`
	Msg    string `json:"msg"`
}

func (m *Mismatch) Signature() string {
	// kind first: a known finding can then be listed by exact signature or by a
	// "level/kind/*" prefix, while a different kind of failure on the same
	// fault class stays a new violation
	return m.Level + "/" + m.Kind + "/" + m.Fault.Kind + "/" + m.Region
}
func (m *Mismatch) Error() string {
	return fmt.Sprintf("%s fault=%+v: %s", m.Signature(), m.Fault, m.Msg)
}

// Doc is the replay document.
type Doc struct {
	Property string    `json:"property"`
	Case     Case      `json:"case"`
	Mismatch *Mismatch `json:"mismatch,omitempty"`
}

// ---------------------------------------------------------------------------
// our own model of the physical layout

type rec struct {
	off, plen int   // offset of the 7-byte header in its file, payload length
	typ       uint8 // 1 full 2 first 3 middle 4 last
	app       int   // logical append it belongs to
	ent       int   // global entry index
}

func (r rec) end() int { return r.off + 7 + r.plen }

// entRecords returns the payload lengths/types of the physical records of one
// entry with the given key and value lengths.
func entRecords(del bool, klen, vlen int) (plens []int, typs []uint8) {
	p := 13 + klen
	if !del {
		p += 4 + vlen
	}
	if p <= maxRec {
		return []int{p}, []uint8{wal.RecordTypeFull}
	}
	kf := klen
	if kf > maxRec-13 {
		kf = maxRec - 13
	}
	first := 13 + kf
	rem := p - first
	plens, typs = append(plens, first), append(typs, wal.RecordTypeFirst)
	for rem > maxRec {
		plens, typs = append(plens, maxRec), append(typs, wal.RecordTypeMiddle)
		rem -= maxRec
	}
	if rem > 0 {
		plens, typs = append(plens, rem), append(typs, wal.RecordTypeLast)
	}
	return
}

// entry is one appended entry with its expected replay fields.
type entry struct {
	t    uint8
	k, v []byte
	seq  uint64
	app  int
	file int
}

// layout is what the harness knows about the generated log.
type layout struct {
	ents     []entry
	appFile  []int // file index of each logical append
	appStart []int // offsets within its file
	appEnd   []int
	recs     [][]rec // per file
	sizes    []int   // per file
}

func buildLayout(c *Case) *layout {
	l := &layout{recs: [][]rec{nil}, sizes: []int{0}}
	seq := uint64(1)
	file := 0
	for ai, a := range c.Apps {
		l.appFile = append(l.appFile, file)
		l.appStart = append(l.appStart, l.sizes[file])
		for _, e := range a.Ents {
			x := entry{t: e.T, k: c.Keys[e.K], seq: seq, app: ai, file: file}
			vlen := 0
			if e.T != wal.OpTypeDelete {
				x.v = e.V.Bytes()
				vlen = len(x.v)
			}
			plens, typs := entRecords(e.T == wal.OpTypeDelete, len(x.k), vlen)
			for i := range plens {
				l.recs[file] = append(l.recs[file], rec{off: l.sizes[file], plen: plens[i], typ: typs[i], app: ai, ent: len(l.ents)})
				l.sizes[file] += 7 + plens[i]
			}
			l.ents = append(l.ents, x)
			if !a.Batch {
				seq++
			}
		}
		if a.Batch && len(a.Ents) > 0 {
			seq++
		}
		l.appEnd = append(l.appEnd, l.sizes[file])
		if a.Rotate {
			file++
			l.recs = append(l.recs, nil)
			l.sizes = append(l.sizes, 0)
		}
	}
	return l
}

func (l *layout) last() int { return len(l.sizes) - 1 }

// region classifies a fault position in the newest file.
// It returns the region name, the record hit (index into recs[last]; for a
// boundary: the record that starts there, or len(recs) at the end of file) and
// whether the position is strictly inside a record.
func (l *layout) region(f Fault) (name string, ri int, inside bool) {
	rs := l.recs[l.last()]
	ri = sort.Search(len(rs), func(i int) bool { return rs[i].end() > f.Off })
	if ri == len(rs) {
		return "eof", ri, false
	}
	r := rs[ri]
	d := f.Off - r.off
	if f.Kind == "trunc" {
		switch {
		case d == 0:
			// boundary between records: between logical appends, inside a batch or inside a fragmented entry
			if ri > 0 && rs[ri-1].ent == r.ent {
				return "boundary-in-entry", ri, false
			}
			if ri > 0 && rs[ri-1].app == r.app {
				return "boundary-in-batch", ri, false
			}
			return "boundary", ri, false
		case d < 7:
			return "header", ri, true
		case d == 7:
			// the 7-byte header is complete, no payload byte is: the reader sees a
			// clean EOF there (io.ReadFull with nothing read), unlike any other interior cut
			return "after-header", ri, true
		default:
			return "payload", ri, true
		}
	}
	switch {
	case d < 4:
		return "crc", ri, true
	case d < 6:
		return "len", ri, true
	case d == 6:
		return "type", ri, true
	default:
		return "payload", ri, true
	}
}

func recTypeName(t uint8) string {
	return map[uint8]string{1: "full", 2: "first", 3: "middle", 4: "last"}[t]
}

// ---------------------------------------------------------------------------
// building the log through the wal API

func listLogs(dir string) []string {
	des, err := os.ReadDir(dir)
	if err != nil {
		return nil
	}
	var out []string
	for _, de := range des {
		if !de.IsDir() && strings.HasSuffix(de.Name(), ".wal") {
			out = append(out, de.Name())
		}
	}
	sort.Strings(out)
	return out
}

var errClock = errors.New("wall clock did not advance between two log files")

func newWAL(cfg *config.Config, dir string) (*wal.WAL, error) {
	before := listLogs(dir)
	var w *wal.WAL
	var err error
	for try := 0; try < 10000; try++ {
		w, err = wal.NewWAL(cfg, dir)
		if err == nil || !errors.Is(err, os.ErrExist) {
			break
		}
	}
	if err != nil {
		return nil, err
	}
	after := listLogs(dir)
	if len(after) != len(before)+1 || (len(before) > 0 && after[len(after)-1] == before[len(before)-1]) {
		_ = w.Close()
		return nil, errClock
	}
	return w, nil
}

func infra(err error) {
	if errors.Is(err, syscall.ENOSPC) || errors.Is(err, syscall.EDQUOT) {
		panic("scratch space exhausted: " + err.Error())
	}
	panic("harness: " + err.Error())
}

// writeLog writes the case's log into walDir and checks it against the layout
// model (sizes and sequence numbers). A disagreement there is not C10's
// business (C09 judges the undamaged round trip): the case is abandoned.
func writeLog(c *Case, l *layout, base string) (files []string, ok bool) {
	walDir := filepath.Join(base, "wal")
	cfg := config.NewDefaultConfig(base)
	cfg.WALSyncMode = config.SyncNone
	w, err := newWAL(cfg, walDir)
	if err != nil {
		infra(err)
	}
	ei := 0
	for _, a := range c.Apps {
		if a.Batch {
			var es []*wal.Entry
			for range a.Ents {
				x := l.ents[ei+len(es)]
				es = append(es, &wal.Entry{Type: x.t, Key: x.k, Value: x.v})
			}
			seq, err := w.AppendBatch(es)
			if err != nil {
				infra(err)
			}
			if len(es) > 0 && seq != l.ents[ei].seq {
				ev.R().Count("abandoned_seq_model_disagrees", 1)
				_ = w.Close()
				return nil, false
			}
			ei += len(es)
		} else {
			x := l.ents[ei]
			seq, err := w.Append(x.t, x.k, x.v)
			if err != nil {
				infra(err)
			}
			if seq != x.seq {
				ev.R().Count("abandoned_seq_model_disagrees", 1)
				_ = w.Close()
				return nil, false
			}
			ei++
		}
		if a.Rotate {
			next := w.GetNextSequence()
			if err := w.Close(); err != nil {
				infra(err)
			}
			w, err = newWAL(cfg, walDir)
			if err == errClock {
				ev.R().Count("abandoned_clock", 1)
				return nil, false
			}
			if err != nil {
				infra(err)
			}
			w.UpdateNextSequence(next)
		}
	}
	if err := w.Close(); err != nil {
		infra(err)
	}
	names := listLogs(walDir)
	if len(names) != len(l.sizes) {
		panic(fmt.Sprintf("harness: %d log files, layout has %d", len(names), len(l.sizes)))
	}
	for i, n := range names {
		p := filepath.Join(walDir, n)
		st, err := os.Stat(p)
		if err != nil {
			infra(err)
		}
		if int(st.Size()) != l.sizes[i] {
			ev.R().Count("abandoned_size_model_disagrees", 1)
			return nil, false
		}
		files = append(files, p)
	}
	return files, true
}

// verifyImage checks that the bytes of the newest file are what the layout
// model says (header fields of every record), so that "region" means what it
// claims.
func verifyImage(l *layout, img []byte) bool {
	for _, r := range l.recs[l.last()] {
		h := img[r.off : r.off+7]
		if int(binary.LittleEndian.Uint16(h[4:6])) != r.plen&0xffff || h[6] != r.typ {
			return false
		}
		if binary.LittleEndian.Uint32(h[0:4]) != crc32.ChecksumIEEE(img[r.off+7:r.end()]) {
			return false
		}
	}
	return true
}

// damage returns the damaged image of the newest file.
func damage(orig []byte, f Fault) []byte {
	if f.Kind == "trunc" {
		return orig[:f.Off]
	}
	out := append([]byte{}, orig...)
	old := out[f.Off]
	var nw byte
	switch f.Class {
	case "zero":
		nw = 0
	case "ff":
		nw = 0xff
	case "plus1":
		nw = old + 1
	case "minus1":
		nw = old - 1
	default:
		nw = old ^ (1 << uint(f.Bit&7))
	}
	if nw == old {
		nw = old ^ 0x80
	}
	out[f.Off] = nw
	return out
}

// guarded runs fn and turns a panic raised inside the repository's code into a
// description (function that panicked, message). Recovery that crashes is a
// failure of "opening the database succeeds", not an infrastructure problem.
func guarded(fn func()) (where, msg string, panicked bool) {
	defer func() {
		if r := recover(); r != nil {
			if s, ok := r.(string); ok && (strings.HasPrefix(s, "harness:") || strings.HasPrefix(s, "scratch space")) {
				panic(r)
			}
			panicked = true
			msg = fmt.Sprint(r)
			where = "unknown"
			pcs := make([]uintptr, 64)
			n := runtime.Callers(2, pcs)
			frames := runtime.CallersFrames(pcs[:n])
			for {
				fr, more := frames.Next()
				if strings.Contains(fr.Function, "github.com/KevoDB/kevo/") {
					where = fr.Function[strings.LastIndex(fr.Function, "/")+1:]
					break
				}
				if !more {
					break
				}
			}
		}
	}()
	fn()
	return
}

// ---------------------------------------------------------------------------
// level 1

func brief(b []byte) string {
	if len(b) <= 10 {
		return fmt.Sprintf("%x(len %d)", b, len(b))
	}
	return fmt.Sprintf("%x..(len %d)", b[:10], len(b))
}

type fp struct {
	seq    uint64
	t      uint8
	kl, vl int
	kh, vh uint64
}

func fpOf(t uint8, seq uint64, k, v []byte) fp {
	return fp{seq: seq, t: t, kl: len(k), vl: len(v), kh: ev.HashBytes(k), vh: ev.HashBytes(v)}
}

type index map[fp][]int

func (l *layout) index() index {
	ix := index{}
	for i, e := range l.ents {
		f := fpOf(e.t, e.seq, e.k, e.v)
		ix[f] = append(ix[f], i)
	}
	return ix
}

// prefixEnts returns the number of leading entries that must be recovered:
// all entries of older files and of the logical appends of the newest file that
// end at or before the first damaged byte.
func (l *layout) prefixEnts(f Fault) int {
	n := 0
	for _, e := range l.ents {
		if e.file < l.last() || l.appEnd[e.app] <= f.Off {
			n++
		} else {
			break
		}
	}
	return n
}

type l1stats struct{ reordered, duplicates, beyond int }

func checkL1(l *layout, ix index, walDir string, f Fault, region string) (*Mismatch, l1stats) {
	var st l1stats
	seen := make([]int, len(l.ents))
	var mm *Mismatch
	lastIdx := -1
	handler := func(e *wal.Entry) error {
		if mm != nil {
			return nil
		}
		cands := ix[fpOf(e.Type, e.SequenceNumber, e.Key, e.Value)]
		hit := -1
		for _, i := range cands {
			x := l.ents[i]
			if bytes.Equal(x.k, e.Key) && bytes.Equal(x.v, e.Value) {
				hit = i
				if seen[i] == 0 {
					break
				}
			}
		}
		if hit < 0 {
			kind := "fabricated-unknown"
			for _, x := range l.ents {
				if x.seq == e.SequenceNumber && bytes.Equal(x.k, e.Key) {
					switch {
					case x.t != e.Type:
						kind = "fabricated-altered-type"
					default:
						kind = "fabricated-altered-value"
					}
					break
				}
			}
			if kind == "fabricated-unknown" {
				for _, x := range l.ents {
					if x.seq == e.SequenceNumber {
						kind = "fabricated-altered-key"
						break
					}
				}
			}
			if bytes.Equal(e.Key, []byte("FAB")) && e.SequenceNumber == 7777777 { // the image planted in hostile/tiled values
				kind = "fabricated-from-value-bytes"
			}
			mm = &Mismatch{Level: "L1", Fault: f, Region: region, Kind: kind,
				Msg: fmt.Sprintf("replay delivered an entry that was never appended: type=%d seq=%d key=%s value=%s", e.Type, e.SequenceNumber, brief(e.Key), brief(e.Value))}
			return nil
		}
		if seen[hit] > 0 {
			st.duplicates++
		}
		seen[hit]++
		if hit < lastIdx {
			st.reordered++
		}
		lastIdx = hit
		return nil
	}
	if where, msg, panicked := guarded(func() { _, _ = wal.ReplayWALDir(walDir, handler) }); panicked {
		return &Mismatch{Level: "L1", Fault: f, Region: region, Kind: "panic-in-" + where, Msg: "ReplayWALDir panicked: " + msg}, st
	}
	if mm != nil {
		return mm, st
	}
	np := l.prefixEnts(f)
	for i := 0; i < np; i++ {
		if seen[i] == 0 {
			x := l.ents[i]
			where := "newest file, before the damage"
			if x.file < l.last() {
				where = fmt.Sprintf("undamaged older file %d of %d", x.file+1, len(l.sizes))
			}
			kind := "prefix-lost"
			if x.file < l.last() {
				kind = "older-file-lost"
			}
			return &Mismatch{Level: "L1", Fault: f, Region: region, Kind: kind,
				Msg: fmt.Sprintf("entry #%d (seq %d key %s, %s) was completely written before the first damaged byte (%d of %d must be recovered) but was not delivered",
					i, x.seq, brief(x.k), where, np, len(l.ents))}, st
		}
	}
	for i := np; i < len(l.ents); i++ {
		if seen[i] > 0 {
			st.beyond++
		}
	}
	return nil, st
}

// ---------------------------------------------------------------------------
// level 2 / 3

type kstate struct {
	found bool
	v     []byte
}

func (a kstate) eq(b kstate) bool { return a.found == b.found && (!a.found || bytes.Equal(a.v, b.v)) }
func (a kstate) String() string {
	if !a.found {
		return "not-found"
	}
	return brief(a.v)
}

func apply(st map[string]kstate, e entry) {
	if e.t == wal.OpTypeDelete {
		st[string(e.k)] = kstate{}
	} else {
		v := e.v
		if v == nil {
			v = []byte{}
		}
		st[string(e.k)] = kstate{found: true, v: v}
	}
}

func readAll(e *engine.EngineFacade, keys [][]byte) (map[string]kstate, error) {
	out := map[string]kstate{}
	for _, k := range keys {
		v, err := e.Get(k)
		if err != nil {
			if drive.IsNotFound(err) {
				out[string(k)] = kstate{}
				continue
			}
			return nil, fmt.Errorf("Get(%s): %w", brief(k), err)
		}
		if v == nil {
			v = []byte{}
		}
		out[string(k)] = kstate{found: true, v: v}
	}
	return out, nil
}

// allowedStates returns, per key, the states the key may have after recovery:
// its state after the guaranteed prefix, plus the effect of every later
// appended operation on it (those may or may not have been recovered).
func allowedStates(l *layout, keys [][]byte, np int) map[string][]kstate {
	st := map[string]kstate{}
	for _, k := range keys {
		st[string(k)] = kstate{}
	}
	for _, e := range l.ents[:np] {
		apply(st, e)
	}
	out := map[string][]kstate{}
	for k, s := range st {
		out[k] = []kstate{s}
	}
	for _, e := range l.ents[np:] {
		one := map[string]kstate{}
		apply(one, e)
		out[string(e.k)] = append(out[string(e.k)], one[string(e.k)])
	}
	return out
}

func everWritten(l *layout, k string, s kstate) bool {
	for _, e := range l.ents {
		if string(e.k) == k && e.t != wal.OpTypeDelete && bytes.Equal(e.v, s.v) {
			return true
		}
	}
	return false
}

func checkEngine(c *Case, l *layout, base string, f Fault, region string) *Mismatch {
	mk := func(level, kind, msg string) *Mismatch {
		return &Mismatch{Level: level, Fault: f, Region: region, Kind: kind, Msg: msg}
	}
	walDir := filepath.Join(base, "wal")
	before := listLogs(walDir)
	var eng *engine.EngineFacade
	var err error
	if where, msg, panicked := guarded(func() { eng, err = drive.Open(base, c.Cfg) }); panicked {
		return mk("L2", "panic-in-"+where, "NewEngineFacade on the damaged directory panicked: "+msg)
	}
	if err != nil {
		return mk("L2", "open-error", "NewEngineFacade on the damaged directory: "+err.Error())
	}
	closed := false
	defer func() {
		if !closed {
			_ = eng.Close()
		}
	}()
	// no log file may have left the directory
	after := map[string]bool{}
	for _, n := range listLogs(walDir) {
		after[n] = true
	}
	for i, n := range before {
		if !after[n] {
			which := "the damaged newest file"
			if i < len(before)-1 {
				which = fmt.Sprintf("undamaged older file %d of %d", i+1, len(before))
			}
			des, _ := os.ReadDir(walDir)
			var names []string
			for _, de := range des {
				names = append(names, de.Name())
			}
			if i == len(before)-1 {
				// the property protects undamaged files; what happens to the damaged
				// one is judged through the state it should have contributed
				ev.R().Count("damaged_file_moved_aside", 1)
				continue
			}
			kind := "undamaged-log-file-discarded"
			return mk("L2", kind, fmt.Sprintf("%s (%s) is no longer in the log directory after opening; directory now holds %v", n, which, names))
		}
	}
	np := l.prefixEnts(f)
	got, err := readAll(eng, c.Keys)
	if err != nil {
		return mk("L2", "read-error", err.Error())
	}
	allowed := allowedStates(l, c.Keys, np)
	exact := f.Kind == "trunc"
	if exact {
		// truncation: the state is the prefix state, or — when the cut tore a
		// batch — the prefix plus the first j complete records of that batch
		// (C10 does not judge batch atomicity, C03 does)
		cands := []map[string]kstate{{}}
		for _, k := range c.Keys {
			cands[0][string(k)] = kstate{}
		}
		for _, e := range l.ents[:np] {
			apply(cands[0], e)
		}
		if np < len(l.ents) && l.ents[np].file == l.last() && c.Apps[l.ents[np].app].Batch {
			cur := cands[0]
			for _, r := range l.recs[l.last()] {
				if r.app != l.ents[np].app || r.end() > f.Off {
					continue
				}
				if r.typ == wal.RecordTypeFull || r.typ == wal.RecordTypeLast {
					nx := map[string]kstate{}
					for k, v := range cur {
						nx[k] = v
					}
					apply(nx, l.ents[r.ent])
					cands = append(cands, nx)
					cur = nx
				}
			}
		}
		okAny := false
		for _, cand := range cands {
			ok := true
			for k, s := range cand {
				if !got[k].eq(s) {
					ok = false
					break
				}
			}
			if ok {
				okAny = true
				break
			}
		}
		if !okAny {
			// name the first key that differs from the plain prefix state
			for i, k := range c.Keys {
				w, g := cands[0][string(k)], got[string(k)]
				if !g.eq(w) {
					return mk("L2", stateKind(l, string(k), g, w), fmt.Sprintf("after recovery key k%d reads %s, the prefix state (%d of %d entries complete before the cut) has %s", i, g, np, len(l.ents), w))
				}
			}
		}
	} else {
		for i, k := range c.Keys {
			g := got[string(k)]
			ok := false
			for _, s := range allowed[string(k)] {
				if g.eq(s) {
					ok = true
					break
				}
			}
			if !ok {
				w := allowed[string(k)][0]
				return mk("L2", stateKind(l, string(k), g, w), fmt.Sprintf("after recovery key k%d reads %s; the %d entries before the damage give %s and no later appended operation gives what was read", i, g, np, w))
			}
		}
	}

	// ---- level 3: writes after the recovery must themselves be recoverable
	if len(c.After) == 0 {
		return nil
	}
	final := map[string]kstate{}
	for _, a := range c.After {
		x := entry{t: a.T, k: c.Keys[a.K]}
		var err error
		if a.T == wal.OpTypeDelete {
			err = eng.Delete(x.k)
		} else {
			x.v = a.V.Bytes()
			err = eng.Put(x.k, x.v)
		}
		if err != nil {
			// not acknowledged: nothing is claimed about it; stop writing
			ev.R().Count("after_write_errors", 1)
			break
		}
		apply(final, x)
	}
	mid, err := readAll(eng, c.Keys)
	if err != nil {
		return mk("L3", "read-error", err.Error())
	}
	for i, k := range c.Keys {
		if s, ok := final[string(k)]; ok && !mid[string(k)].eq(s) {
			return mk("L3", "write-after-recovery-not-visible", fmt.Sprintf("key k%d written after the recovery reads %s at once, want %s", i, mid[string(k)], s))
		}
	}
	closed = true
	if err := eng.Close(); err != nil {
		return mk("L3", "close-error", err.Error())
	}
	var eng2 *engine.EngineFacade
	if where, msg, panicked := guarded(func() { eng2, err = engine.NewEngineFacade(base) }); panicked {
		return mk("L3", "panic-in-"+where, "second open panicked: "+msg)
	}
	if err != nil {
		return mk("L3", "reopen-error", "second open: "+err.Error())
	}
	defer eng2.Close()
	got2, err := readAll(eng2, c.Keys)
	if err != nil {
		return mk("L3", "read-error", err.Error())
	}
	for i, k := range c.Keys {
		g := got2[string(k)]
		if s, ok := final[string(k)]; ok {
			if !g.eq(s) {
				kind := "write-after-recovery-lost"
				if g.found && !everWritten(l, string(k), g) {
					kind = "write-after-recovery-replaced-by-unknown"
				}
				return mk("L3", kind, fmt.Sprintf("key k%d was written after the recovery (acknowledged, then clean close); after reopen it reads %s, want %s (first recovery had %s)", i, g, s, got[string(k)]))
			}
			continue
		}
		ok := false
		for _, s := range allowed[string(k)] {
			if g.eq(s) {
				ok = true
				break
			}
		}
		if exact {
			ok = g.eq(got[string(k)])
		}
		if !ok {
			return mk("L3", "recovered-state-changed-"+stateKind(l, string(k), g, got[string(k)]), fmt.Sprintf("key k%d (not written after the recovery) reads %s after the second recovery; first recovery had %s", i, g, got[string(k)]))
		}
		if !g.eq(got[string(k)]) {
			ev.R().Count("second_recovery_differs_within_allowed", 1)
		}
	}
	for _, n := range before[:len(before)-1] {
		found := false
		for _, m := range listLogs(walDir) {
			if m == n {
				found = true
			}
		}
		if !found {
			return mk("L3", "undamaged-log-file-discarded", n+" left the log directory at the second open")
		}
	}
	return nil
}

func stateKind(l *layout, k string, got, want kstate) string {
	switch {
	case want.found && !got.found:
		return "lost"
	case got.found && !everWritten(l, k, got):
		return "fabricated-value"
	case !want.found && got.found:
		return "resurrected"
	default:
		return "stale-or-wrong-version"
	}
}

// ---------------------------------------------------------------------------
// running one case

type outcome struct {
	mm        *Mismatch
	failFault int
	abandoned bool
}

func runCase(c *Case) outcome {
	base, err := os.MkdirTemp("", "c10-")
	if err != nil {
		panic(err)
	}
	defer os.RemoveAll(base)
	l := buildLayout(c)
	files, ok := writeLog(c, l, base)
	if !ok {
		return outcome{abandoned: true}
	}
	newest := files[len(files)-1]
	orig, err := os.ReadFile(newest)
	if err != nil {
		infra(err)
	}
	if !verifyImage(l, orig) {
		ev.R().Count("abandoned_image_model_disagrees", 1)
		return outcome{abandoned: true}
	}
	ix := l.index()
	walDir := filepath.Join(base, "wal")
	for i, f := range c.Faults {
		if f.Off < 0 || f.Off >= len(orig) {
			panic(fmt.Sprintf("fault offset %d outside the newest file (%d bytes)", f.Off, len(orig)))
		}
		region, _, _ := l.region(f)
		if err := os.WriteFile(newest, damage(orig, f), 0o644); err != nil {
			infra(err)
		}
		mm, st := checkL1(l, ix, walDir, f, region)
		ev.R().Count("faults_level1", 1)
		ev.R().Count("l1_reordered_deliveries", st.reordered)
		ev.R().Count("l1_duplicate_deliveries", st.duplicates)
		ev.R().Count("l1_entries_recovered_beyond_damage", st.beyond)
		if mm != nil {
			return outcome{mm: mm, failFault: i}
		}
	}
	if c.Engine && len(c.Faults) > 0 {
		f := c.Faults[0]
		region, _, _ := l.region(f)
		if err := os.WriteFile(newest, damage(orig, f), 0o644); err != nil {
			infra(err)
		}
		ev.R().Count("faults_level2", 1)
		if mm := checkEngine(c, l, base, f, region); mm != nil {
			return outcome{mm: mm, failFault: 0}
		}
	}
	return outcome{}
}

// ---------------------------------------------------------------------------
// generator

func genKeys(t *rapid.T) [][]byte {
	n := rapid.IntRange(2, 6).Draw(t, "nkeys")
	seen := map[string]bool{}
	var out [][]byte
	for tries := 0; len(out) < n && tries < 10*n; tries++ {
		var k []byte
		switch rapid.IntRange(0, 9).Draw(t, "kshape") {
		case 0:
			k = bytes.Repeat([]byte{'L'}, rapid.SampledFrom([]int{200, 1000, 4096}).Draw(t, "klen"))
			k = append(k[:len(k)-1], byte('a'+len(out)))
		case 1, 2:
			k = rapid.SliceOfN(rapid.Byte(), 1, 6).Draw(t, "kraw")
		default:
			k = []byte(rapid.StringMatching(`[a-d]{1,3}`).Draw(t, "k"))
		}
		if len(k) == 0 || seen[string(k)] || string(k) == "FAB" {
			continue
		}
		seen[string(k)] = true
		out = append(out, k)
	}
	for i := 0; len(out) < 2; i++ {
		k := []byte{'q', byte('0' + i)}
		if !seen[string(k)] {
			out = append(out, k)
		}
	}
	return out
}

var valShapes = func() []string {
	w := []struct {
		s string
		n int
	}{{"small", 52}, {"medium", 14}, {"full_edge", 5}, {"big", 8}, {"rem_edge", 6}, {"resync", 4}, {"multi", 4}, {"hostile", 7}}
	var out []string
	for _, x := range w {
		for i := 0; i < x.n; i++ {
			out = append(out, x.s)
		}
	}
	return out
}()

func genVal(t *rapid.T, tag *uint32, klen int, small bool) *Val {
	shape := "small"
	if !small {
		shape = rapid.SampledFrom(valShapes).Draw(t, "vshape")
	}
	return genValShape(t, tag, klen, shape)
}

func genValShape(t *rapid.T, tag *uint32, klen int, shape string) *Val {
	*tag++
	v := &Val{Tag: *tag}
	d := 0
	switch shape {
	case "small":
		v.Len = rapid.IntRange(1, 64).Draw(t, "vlen")
		v.Hostile = v.Len >= 40 && rapid.IntRange(0, 3).Draw(t, "hostile") == 0
	case "medium":
		v.Len = rapid.IntRange(200, 4000).Draw(t, "vlen")
	case "full_edge":
		d = rapid.IntRange(-2, 2).Draw(t, "delta")
		v.Len = maxRec + d - 17 - klen
	case "big":
		v.Len = rapid.IntRange(33*1024, 70*1024).Draw(t, "vlen")
		v.Hostile = rapid.Bool().Draw(t, "hostile")
	case "rem_edge":
		d = rapid.IntRange(-2, 2).Draw(t, "delta")
		v.Len = rapid.IntRange(1, 2).Draw(t, "nrec")*maxRec + d - 4
	case "resync": // a record that occupies exactly 32 KiB of the file
		v.Len = maxRec - 7 - 17 - klen
	case "multi":
		v.Len = rapid.IntRange(100*1024, 200*1024).Draw(t, "vlen")
		switch rapid.IntRange(0, 3).Draw(t, "hostile") {
		case 0, 1:
			v.Hostile = true
		case 2:
			v.Tiled = true
		}
	case "hostile":
		v.Len = rapid.IntRange(2*maxRec, 3*maxRec+100).Draw(t, "vlen")
		v.Hostile = true
	}
	if v.Len < 1 {
		v.Len = 1
	}
	if (v.Hostile || v.Tiled) && !ev.Flag("hostile_values") {
		ev.R().Exclude("hostile_values")
		v.Hostile, v.Tiled = false, false
	}
	return v
}

func genEnt(t *rapid.T, c *Case, tag *uint32, small bool) Ent {
	k := rapid.IntRange(0, len(c.Keys)-1).Draw(t, "k")
	if rapid.IntRange(0, 4).Draw(t, "del") == 0 {
		return Ent{T: wal.OpTypeDelete, K: k}
	}
	return Ent{T: wal.OpTypePut, K: k, V: genVal(t, tag, len(c.Keys[k]), small)}
}

var byteClasses = []string{"flip", "flip", "zero", "ff", "plus1", "minus1"}

// genFault draws one fault by construction from the layout of the newest file.
func genFault(t *rapid.T, c *Case, l *layout) Fault {
	rs := l.recs[l.last()]
	size := l.sizes[l.last()]
	// record to hit: first / last / any
	var ri int
	switch rapid.IntRange(0, 5).Draw(t, "which") {
	case 0:
		ri = 0
	case 1:
		ri = len(rs) - 1
	default:
		ri = rapid.IntRange(0, len(rs)-1).Draw(t, "rec")
	}
	// records after which the reader's blind skip re-aligns: the next record
	// occupies exactly 32 KiB (damage the CRC/payload of this one), or this
	// one carries a 32 KiB payload (give it an invalid type byte)
	var alignA, alignB []int
	for i, x := range rs {
		if x.typ != wal.RecordTypeFull && i+1 < len(rs) && 7+rs[i+1].plen == maxRec && x.ent != rs[i+1].ent {
			alignA = append(alignA, i)
		}
		if x.plen == maxRec && x.typ != wal.RecordTypeFull && i+1 < len(rs) {
			alignB = append(alignB, i)
		}
	}
	forced := ""
	if len(alignA)+len(alignB) > 0 && ev.Flag("corrupt_with_32k_tail") && rapid.IntRange(0, 2).Draw(t, "aligned") == 0 {
		j := rapid.IntRange(0, len(alignA)+len(alignB)-1).Draw(t, "alignrec")
		if j < len(alignA) {
			ri, forced = alignA[j], "payload"
		} else if ev.Flag("header_byte_faults") {
			ri, forced = alignB[j-len(alignA)], "badtype"
		}
	}
	r := rs[ri]
	if forced == "badtype" {
		return Fault{Kind: "byte", Off: r.off + 6, Class: rapid.SampledFrom([]string{"zero", "ff"}).Draw(t, "class")}
	}
	inBatchInterior := func(off int) bool { // strictly inside the span of a batch
		a := r.app
		return c.Apps[a].Batch && off > l.appStart[a] && off < l.appEnd[a]
	}
	kind := rapid.SampledFrom([]string{"trunc", "byte", "byte"}).Draw(t, "fkind")
	if forced != "" {
		kind = "byte"
	}
	if kind == "trunc" {
		reg := rapid.SampledFrom([]string{"boundary", "header", "after-header", "payload", "payload", "payload"}).Draw(t, "region")
		var off int
		switch reg {
		case "boundary":
			off = r.off
		case "after-header":
			off = r.off + 7
		case "header":
			off = r.off + rapid.IntRange(1, 6).Draw(t, "d")
		default:
			off = r.off + 7 + rapid.IntRange(0, r.plen-1).Draw(t, "d")
			if rapid.IntRange(0, 3).Draw(t, "edge") == 0 {
				off = r.end() - 1
			}
		}
		if off == r.off+7 && !ev.Flag("cut_after_header") {
			// header complete, payload absent (see region "after-header")
			ev.R().Exclude("cut_after_header")
			off = r.off + 8
		}
		tornTail := off != l.appStart[r.app] // anything that is not a boundary between logical appends
		if tornTail && !ev.Flag("torn_tail") {
			ev.R().Exclude("torn_tail")
			off = l.appStart[r.app]
		} else if inBatchInterior(off) && !ev.Flag("cut_inside_batch") {
			ev.R().Exclude("cut_inside_batch")
			off = l.appStart[r.app]
		}
		if off >= size {
			off = size - 1
		}
		return Fault{Kind: "trunc", Off: off}
	}
	reg := rapid.SampledFrom([]string{"crc", "len", "type", "payload", "payload"}).Draw(t, "region")
	if forced == "payload" && reg != "crc" {
		reg = "payload"
	}
	if (reg == "len" || reg == "type") && !ev.Flag("header_byte_faults") {
		ev.R().Exclude("header_byte_faults")
		reg = "payload"
	}
	if size-(r.off+7) >= 32*1024 && !ev.Flag("corrupt_with_32k_tail") {
		// the reader answers a corrupt record by skipping 32 KiB blindly; with
		// that much log behind the damaged record it resumes parsing in the
		// middle of data
		ev.R().Exclude("corrupt_with_32k_tail")
		for ri < len(rs)-1 && size-(rs[ri].off+7) >= 32*1024 { // (a damaged length or type byte makes the reader consume only the header)
			ri++
		}
		r = rs[ri]
		if size-(r.off+7) >= 32*1024 && (reg == "len" || reg == "type") {
			reg = "payload" // last record, itself 32 KiB: only faults that make the reader consume all of it
		}
	}
	var off int
	switch reg {
	case "crc":
		off = r.off + rapid.IntRange(0, 3).Draw(t, "d")
	case "len":
		off = r.off + rapid.IntRange(4, 5).Draw(t, "d")
	case "type":
		off = r.off + 6
	default:
		off = r.off + 7 + rapid.IntRange(0, r.plen-1).Draw(t, "d")
		if r.plen > 20 && rapid.IntRange(0, 2).Draw(t, "hdrfield") == 0 {
			off = r.off + 7 + rapid.IntRange(0, 16).Draw(t, "d2") // op, seq, key length of the entry
		}
	}
	f := Fault{Kind: "byte", Off: off, Class: rapid.SampledFrom(byteClasses).Draw(t, "class")}
	if f.Class == "flip" {
		f.Bit = rapid.IntRange(0, 7).Draw(t, "bit")
	}
	return f
}

func genLog(t *rapid.T, maxApps int, smallOnly bool) Case {
	c := Case{Keys: genKeys(t)}
	n := rapid.IntRange(1, maxApps).Draw(t, "napps")
	tag := uint32(0)
	rot := 0
	for i := 0; i < n; i++ {
		a := App{}
		if rapid.IntRange(0, 3).Draw(t, "batch") == 0 {
			a.Batch = true
			m := rapid.IntRange(1, 5).Draw(t, "nbatch")
			for j := 0; j < m; j++ {
				a.Ents = append(a.Ents, genEnt(t, &c, &tag, smallOnly || rapid.IntRange(0, 2).Draw(t, "smallb") != 0))
			}
		} else {
			a.Ents = []Ent{genEnt(t, &c, &tag, smallOnly)}
		}
		if !smallOnly && !a.Batch && rapid.IntRange(0, 9).Draw(t, "aligned") == 0 {
			// a fragmented entry, then a record that occupies exactly 32 KiB of the
			// file, then another fragmented entry: the arrangement in which the
			// reader's blind 32 KiB skip after a damaged record lands on a record
			// boundary again
			k := rapid.IntRange(0, len(c.Keys)-1).Draw(t, "k")
			sh := rapid.SampledFrom([]string{"big", "rem_edge", "multi"}).Draw(t, "ashape")
			c.Apps = append(c.Apps, App{Ents: []Ent{{T: wal.OpTypePut, K: k, V: genValShape(t, &tag, len(c.Keys[k]), sh)}}})
			if rapid.Bool().Draw(t, "withresync") {
				k = rapid.IntRange(0, len(c.Keys)-1).Draw(t, "k")
				c.Apps = append(c.Apps, App{Ents: []Ent{{T: wal.OpTypePut, K: k, V: genValShape(t, &tag, len(c.Keys[k]), "resync")}}})
			}
			k = rapid.IntRange(0, len(c.Keys)-1).Draw(t, "k")
			a = App{Ents: []Ent{{T: wal.OpTypePut, K: k, V: genValShape(t, &tag, len(c.Keys[k]), "big")}}}
		}
		if i < n-1 && rot < 2 && rapid.IntRange(0, 7).Draw(t, "rotate") == 0 {
			a.Rotate = true
			rot++
		}
		c.Apps = append(c.Apps, a)
	}
	return c
}

func genCase(t *rapid.T) Case {
	c := genLog(t, 25, false)
	l := buildLayout(&c)
	nf := rapid.IntRange(4, 12).Draw(t, "nfaults")
	for i := 0; i < nf; i++ {
		c.Faults = append(c.Faults, genFault(t, &c, l))
	}
	c.Cfg = drive.Cfg{MemTableSize: 32 << 20, MaxMemTables: 4, SyncMode: rapid.IntRange(0, 2).Draw(t, "sync"), SyncBytes: 4096}
	c.Engine = rapid.IntRange(0, 2).Draw(t, "engine") != 0
	if c.Engine {
		tag := uint32(1 << 20)
		m := rapid.IntRange(0, 4).Draw(t, "nafter")
		for i := 0; i < m; i++ {
			c.After = append(c.After, genEnt(t, &c, &tag, true))
		}
	}
	return c
}

// ---------------------------------------------------------------------------
// classification

func classify(c *Case) (nontrivial bool, classes []string) {
	l := buildLayout(c)
	set := map[string]bool{}
	rs := l.recs[l.last()]
	for i, f := range c.Faults {
		reg, ri, inside := l.region(f)
		set[f.Kind+"_"+reg] = true
		if ri < len(rs) {
			set["damaged_record_"+recTypeName(rs[ri].typ)] = true
			if c.Apps[rs[ri].app].Batch {
				set["damage_in_batch"] = true
			}
		}
		nt := inside && (ri > 0 || l.last() > 0) && ri < len(rs)-1
		if nt {
			nontrivial = true
			set["nontrivial_fault"] = true
			if i == 0 && c.Engine {
				set["engine_level_nontrivial_fault"] = true
			}
		}
	}
	if len(l.sizes) >= 2 {
		set["files>=2"] = true
	}
	for _, r := range rs {
		if r.typ != wal.RecordTypeFull {
			set["newest_file_has_fragmented_entry"] = true
		}
	}
	for _, a := range c.Apps {
		if a.Batch {
			set["has_batch"] = true
		}
		for _, e := range a.Ents {
			if e.V != nil && (e.V.Hostile || e.V.Tiled) {
				set["hostile_value"] = true
			}
		}
	}
	if c.Engine {
		set["engine_level"] = true
		if len(c.After) > 0 {
			set["writes_after_recovery"] = true
		}
	}
	for k := range set {
		classes = append(classes, k)
	}
	sort.Strings(classes)
	return
}

// ---------------------------------------------------------------------------
// tests

func report(t *rapid.T, c *Case, o outcome) {
	mm := o.mm
	d := Doc{Property: "C10", Case: *c, Mismatch: mm}
	d.Case.Faults = []Fault{c.Faults[o.failFault]}
	if mm.Level == "L1" {
		d.Case.Engine, d.Case.After = false, nil
	}
	path := ev.R().Fail(mm.Signature(), mm.Error(), d)
	t.Fatalf("C10 violated: %v (replay %s)", mm, path)
}

func TestProp(t *testing.T) {
	rapid.Check(t, func(t *rapid.T) {
		c := genCase(t)
		nt, classes := classify(&c)
		o := runCase(&c)
		ev.R().Case(ev.Hash(&c), nt && !o.abandoned, classes, func() any { return &c })
		if o.mm != nil {
			report(t, &c, o)
		}
	})
}

// TestPropExhaustive (thorough tier): for small generated logs (newest file
// <= 3 KiB) every truncation offset and every byte position x {bit flip, 0x00,
// 0xFF, +1} is checked at level 1. Six logs per process; the remaining
// iterations return at once.
func TestPropExhaustive(t *testing.T) {
	if ev.Tier() != "thorough" {
		t.Skip("thorough tier only")
	}
	done := 0
	rapid.Check(t, func(t *rapid.T) {
		if done >= 6 {
			return
		}
		c := genLog(t, 12, true)
		l := buildLayout(&c)
		size := l.sizes[l.last()]
		if size > 3*1024 || size == 0 {
			return
		}
		done++
		tornOK, batchOK, hdrOK := ev.Flag("torn_tail"), ev.Flag("cut_inside_batch"), ev.Flag("header_byte_faults")
		rs := l.recs[l.last()]
		for off := 0; off < size; off++ {
			f := Fault{Kind: "trunc", Off: off}
			reg, ri, _ := l.region(f)
			a := rs[ri].app
			if off != l.appStart[a] && !tornOK {
				continue
			}
			if reg == "after-header" && !ev.Flag("cut_after_header") {
				continue
			}
			if c.Apps[a].Batch && off > l.appStart[a] && off < l.appEnd[a] && !batchOK {
				continue
			}
			c.Faults = append(c.Faults, f)
		}
		for off := 0; off < size; off++ {
			reg, _, _ := l.region(Fault{Kind: "byte", Off: off})
			if (reg == "len" || reg == "type") && !hdrOK {
				continue
			}
			bit := rapid.IntRange(0, 7).Draw(t, "bit")
			c.Faults = append(c.Faults, Fault{Kind: "byte", Off: off, Class: "flip", Bit: bit},
				Fault{Kind: "byte", Off: off, Class: "zero"}, Fault{Kind: "byte", Off: off, Class: "ff"}, Fault{Kind: "byte", Off: off, Class: "plus1"})
		}
		o := runCase(&c)
		ev.R().Count("exhaustive_logs", 1)
		ev.R().Count("exhaustive_faults", len(c.Faults))
		if tornOK && batchOK && hdrOK {
			ev.R().SetExhaustive(true)
		}
		if o.mm != nil {
			report(t, &c, o)
		}
	})
}

// TestReplay re-runs a saved case without the library.
func TestReplay(t *testing.T) {
	f := os.Getenv("VERIF_REPLAY")
	if f == "" {
		t.Skip("no VERIF_REPLAY")
	}
	b, err := os.ReadFile(f)
	if err != nil {
		t.Fatal(err)
	}
	var d Doc
	if err := json.Unmarshal(b, &d); err != nil {
		t.Fatal(err)
	}
	if d.Case.Cfg.MemTableSize == 0 {
		d.Case.Cfg = drive.Cfg{MemTableSize: 32 << 20, MaxMemTables: 4, SyncMode: 2, SyncBytes: 4096}
	}
	o := runCase(&d.Case)
	switch {
	case o.abandoned:
		t.Fatalf("replay could not build its log (layout model disagrees with the writer)")
	case o.mm != nil:
		ev.WriteReplayResult(ev.ReplayResult{File: f, Outcome: "fail", Signature: o.mm.Signature(), Message: o.mm.Error()})
		t.Logf("replay fails: %v", o.mm)
	default:
		ev.WriteReplayResult(ev.ReplayResult{File: f, Outcome: "pass"})
	}
}

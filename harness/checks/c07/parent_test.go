// C07 — the parent side: runs a case in a child process built with -race and
// turns race log, stderr and exit status into violations.
package c07

import (
	"encoding/json"
	"fmt"
	"os"
	"os/exec"
	"path/filepath"
	"regexp"
	"sort"
	"strings"
	"syscall"
	"time"
)

const kevoPrefix = "github.com/KevoDB/kevo/"

// Violation is one oracle failure of one execution.
type Violation struct {
	Sig string `json:"signature"`
	Msg string `json:"message"`
}

// Outcome of one execution of a case.
type Outcome struct {
	Infra     string       // non-empty: the execution says nothing about the property
	Viol      []Violation  // distinct signatures, sorted
	Res       *ChildResult // may be nil (crash before join)
	ExitCode  int
	OtherRace int // race reports without any kevo frame (harness / runtime), not judged
	WallMs    int64
}

func runChild(c *Case) *Outcome {
	out := &Outcome{}
	t0 := time.Now()
	defer func() { out.WallMs = time.Since(t0).Milliseconds() }()
	scratch, err := os.MkdirTemp("", "c07-")
	if err != nil {
		out.Infra = "mkdtemp: " + err.Error()
		return out
	}
	defer os.RemoveAll(scratch)
	spec := ChildSpec{Dir: scratch, Result: filepath.Join(scratch, "result.json"), Case: *c}
	sp := filepath.Join(scratch, "spec.json")
	b, err := json.Marshal(&spec)
	if err != nil {
		out.Infra = "marshal spec: " + err.Error()
		return out
	}
	if err := os.WriteFile(sp, b, 0o644); err != nil {
		out.Infra = "write spec: " + err.Error()
		return out
	}
	tmp := filepath.Join(scratch, "tmp")
	_ = os.MkdirAll(tmp, 0o755)
	raceLog := filepath.Join(scratch, "racelog")
	errPath := filepath.Join(scratch, "stderr.txt")
	errF, err := os.Create(errPath)
	if err != nil {
		out.Infra = "create stderr file: " + err.Error()
		return out
	}
	cmd := exec.Command(os.Args[0], "-test.run", "^TestChild$", "-test.timeout", "0")
	var env []string
	for _, kv := range os.Environ() {
		if strings.HasPrefix(kv, "GORACE=") || strings.HasPrefix(kv, "TMPDIR=") || strings.HasPrefix(kv, "GOTRACEBACK=") ||
			strings.HasPrefix(kv, "VERIF_REPLAY") {
			continue
		}
		env = append(env, kv)
	}
	env = append(env, "VERIF_CHILD_SPEC="+sp, "TMPDIR="+tmp, "GOTRACEBACK=all",
		"GORACE=halt_on_error=0 exitcode=66 atexit_sleep_ms=0 history_size=2 log_path="+raceLog)
	cmd.Env = env
	cmd.Stderr = errF
	cmd.Stdout = nil
	cmd.Dir = scratch
	if err := cmd.Start(); err != nil {
		errF.Close()
		out.Infra = "cannot start child: " + err.Error()
		return out
	}
	done := make(chan error, 1)
	go func() { done <- cmd.Wait() }()
	var werr error
	parentKilled := ""
	select {
	case werr = <-done:
	case <-time.After(caseLimit + callLimit + parentGrace):
		// the child's own watchdog did not fire: ask the runtime for a dump
		_ = cmd.Process.Signal(syscall.SIGQUIT)
		parentKilled = "SIGQUIT"
		select {
		case werr = <-done:
		case <-time.After(20 * time.Second):
			_ = cmd.Process.Kill()
			parentKilled = "SIGKILL"
			werr = <-done
		}
	}
	errF.Close()
	if werr != nil {
		if ee, ok := werr.(*exec.ExitError); ok {
			out.ExitCode = ee.ExitCode() // -1 when killed by a signal
		} else {
			out.Infra = "wait: " + werr.Error()
			return out
		}
	}
	stderrB, _ := os.ReadFile(errPath)
	stderr := string(stderrB)
	if rb, err := os.ReadFile(spec.Result); err == nil {
		var r ChildResult
		if json.Unmarshal(rb, &r) == nil {
			out.Res = &r
		}
	}
	var raceText strings.Builder
	if files, _ := filepath.Glob(raceLog + "*"); len(files) > 0 {
		sort.Strings(files)
		for _, f := range files {
			if fb, err := os.ReadFile(f); err == nil {
				raceText.Write(fb)
				raceText.WriteString("\n")
			}
		}
	}
	judge(out, stderr, raceText.String(), parentKilled)
	return out
}

// judge fills out.Viol / out.Infra from what the child left behind.
func judge(out *Outcome, stderr, raceText, parentKilled string) {
	if out.ExitCode == exitSetup || strings.Contains(stderr, "C07-CHILD-SETUP-ERROR") {
		out.Infra = "child setup failed: " + firstLineWith(stderr, "C07-CHILD-SETUP-ERROR")
		return
	}
	seen := map[string]bool{}
	add := func(sig, msg string) {
		if !seen[sig] {
			seen[sig] = true
			out.Viol = append(out.Viol, Violation{sig, msg})
		}
	}
	// 1. race reports (log file; stderr as well in case the log could not be opened)
	reports := parseRaces(raceText + "\n" + stderr)
	for _, r := range reports {
		if !r.kevo {
			out.OtherRace++
			continue
		}
		add(r.sig, clip(r.text, 6000))
	}
	// 2. runtime fatal error / panic
	if sig, msg := parseCrash(stderr); sig != "" {
		add(sig, msg)
	}
	// 3. watchdog
	if sig, msg := parseHang(stderr, parentKilled); sig != "" {
		add(sig, msg)
	}
	sort.Slice(out.Viol, func(i, j int) bool { return out.Viol[i].Sig < out.Viol[j].Sig })
	if len(out.Viol) > 0 {
		return
	}
	// 4. exit status
	switch {
	case parentKilled == "SIGKILL":
		out.Infra = "child had to be killed and left no goroutine dump"
	case out.ExitCode == 0:
		if out.Res == nil || !out.Res.Closed {
			out.Infra = "child exited 0 without a complete result file"
		}
	case out.ExitCode == exitRace:
		if len(reports) == 0 {
			out.Infra = "child exited with the race exit code but no report could be parsed"
		}
		// only reports without kevo frames: not judged (counted in OtherRace)
	case out.ExitCode == -1:
		out.Infra = "child was killed by a signal: " + clip(lastLines(stderr, 5), 400)
	default:
		add(fmt.Sprintf("exit:%d:%s", out.ExitCode, normalize(firstNonEmptyLine(stderr))),
			fmt.Sprintf("child exited with status %d; stderr tail:\n%s", out.ExitCode, clip(lastLines(stderr, 40), 4000)))
	}
}

// ---- race reports -----------------------------------------------------------

type frame struct{ fn, file string }

type raceReport struct {
	sig  string
	text string
	kevo bool
}

var (
	accessHdr = regexp.MustCompile(`(?i)^(previous )?(atomic )?(read|write) at 0x[0-9a-f]+ by `)
	fileLine  = regexp.MustCompile(`^\s+(\S.*\.go):(\d+)( \+0x[0-9a-f]+)?$`)
)

func parseRaces(text string) []raceReport {
	var out []raceReport
	for _, blk := range strings.Split(text, "==================") {
		i := strings.Index(blk, "WARNING: DATA RACE")
		if i < 0 {
			continue
		}
		blk = blk[i:]
		lines := strings.Split(blk, "\n")
		var accesses [][]frame
		cur := -1
		inAccess := false
		anyKevo := false
		for li := 0; li < len(lines); li++ {
			ln := lines[li]
			if ln == "" {
				inAccess = false
				continue
			}
			if !strings.HasPrefix(ln, " ") {
				if accessHdr.MatchString(ln) {
					accesses = append(accesses, nil)
					cur = len(accesses) - 1
					inAccess = true
				} else {
					inAccess = false
				}
				continue
			}
			// a frame: "  func()" followed by "      file:line +0x.."
			if strings.HasPrefix(ln, "  ") && !strings.HasPrefix(ln, "   ") {
				fn := strings.TrimSuffix(strings.TrimSpace(ln), "()")
				file := ""
				if li+1 < len(lines) {
					if m := fileLine.FindStringSubmatch(lines[li+1]); m != nil {
						file = m[1]
						li++
					}
				}
				if strings.HasPrefix(fn, kevoPrefix) {
					anyKevo = true
				}
				if inAccess && cur >= 0 {
					accesses[cur] = append(accesses[cur], frame{fn, file})
				}
			}
		}
		var sides []string
		accessKevo := false
		for i := 0; i < 2; i++ {
			if i >= len(accesses) {
				sides = append(sides, "?")
				continue
			}
			s, k := topFrame(accesses[i])
			accessKevo = accessKevo || k
			sides = append(sides, s)
		}
		sort.Strings(sides)
		out = append(out, raceReport{
			sig:  "race:" + sides[0] + " <-> " + sides[1],
			text: strings.TrimSpace(blk),
			kevo: anyKevo,
		})
		_ = accessKevo
	}
	return out
}

// topFrame: the top-most kevo frame of a stack as "function@file"; without a
// kevo frame the top-most frame of this package, else the top frame.
func topFrame(fs []frame) (string, bool) {
	for _, f := range fs {
		if strings.HasPrefix(f.fn, kevoPrefix) {
			return shortFn(f.fn) + "@" + shortFile(f.file), true
		}
	}
	for _, f := range fs {
		if strings.Contains(f.fn, "/checks/c07.") {
			return "harness:" + f.fn[strings.LastIndex(f.fn, "/")+1:], false
		}
	}
	if len(fs) > 0 {
		return "other:" + fs[0].fn, false
	}
	return "?", false
}

func shortFn(fn string) string {
	fn = strings.TrimPrefix(fn, kevoPrefix)
	return strings.TrimPrefix(fn, "pkg/")
}

func shortFile(p string) string {
	if i := strings.LastIndex(p, "/pkg/"); i >= 0 {
		return p[i+1:]
	}
	return filepath.Base(p)
}

// ---- fatal errors and panics ------------------------------------------------

var (
	crashLine = regexp.MustCompile(`(?m)^(fatal error: .*|panic: .*|unexpected fault address .*|runtime: .*out of memory.*)$`)
	gorHdr    = regexp.MustCompile(`^goroutine (\d+)( gp=\S+ m=\S+( mp=\S+)?)? \[([^\]]*)\]:$`)
	callArgs  = regexp.MustCompile(`^(.*)\(.*\)$`)
	hexNum    = regexp.MustCompile(`0x[0-9a-fA-F]+`)
	decNum    = regexp.MustCompile(`[0-9]+`)
)

type gblock struct {
	id     string
	state  string
	frames []frame
	text   string
}

// parseGoroutines parses a Go traceback (panic output, SIGQUIT dump or
// runtime.Stack(all)) into goroutine blocks.
func parseGoroutines(text string) []gblock {
	var out []gblock
	lines := strings.Split(text, "\n")
	for i := 0; i < len(lines); i++ {
		m := gorHdr.FindStringSubmatch(strings.TrimRight(lines[i], "\r"))
		if m == nil {
			continue
		}
		g := gblock{id: m[1], state: m[4]}
		var tb strings.Builder
		tb.WriteString(lines[i] + "\n")
		j := i + 1
		for ; j < len(lines) && strings.TrimSpace(lines[j]) != ""; j++ {
			ln := lines[j]
			tb.WriteString(ln + "\n")
			if strings.HasPrefix(ln, "\t") || strings.HasPrefix(ln, " ") {
				continue
			}
			fn := ln
			if strings.HasPrefix(fn, "created by ") {
				continue
			}
			if mm := callArgs.FindStringSubmatch(fn); mm != nil {
				fn = mm[1]
			}
			file := ""
			if j+1 < len(lines) {
				if fm := fileLine.FindStringSubmatch(lines[j+1]); fm != nil {
					file = fm[1]
				}
			}
			g.frames = append(g.frames, frame{fn, file})
		}
		g.text = tb.String()
		out = append(out, g)
		i = j
	}
	return out
}

func normalize(s string) string {
	s = hexNum.ReplaceAllString(s, "X")
	s = decNum.ReplaceAllString(s, "N")
	if len(s) > 160 {
		s = s[:160]
	}
	return strings.TrimSpace(s)
}

func parseCrash(stderr string) (sig, msg string) {
	loc := crashLine.FindStringIndex(stderr)
	if loc == nil {
		return "", ""
	}
	line := stderr[loc[0]:loc[1]]
	if strings.HasPrefix(line, "panic: test timed out") {
		return "", "" // not used (-test.timeout 0); would be a harness matter
	}
	rest := stderr[loc[1]:]
	gs := parseGoroutines(rest)
	where := "?"
	if len(gs) > 0 {
		where, _ = topFrameNoFile(gs[0].frames)
	}
	kind := "panic:"
	body := strings.TrimPrefix(line, "panic: ")
	if strings.HasPrefix(line, "fatal error: ") {
		kind, body = "fatal:", strings.TrimPrefix(line, "fatal error: ")
	} else if !strings.HasPrefix(line, "panic: ") {
		kind, body = "fatal:", line
	}
	sig = kind + normalize(body) + "@" + where
	msg = clip(stderr[loc[0]:], 6000)
	return
}

func topFrameNoFile(fs []frame) (string, bool) {
	for _, f := range fs {
		if strings.HasPrefix(f.fn, kevoPrefix) {
			return shortFn(f.fn), true
		}
	}
	for _, f := range fs {
		if strings.Contains(f.fn, "/checks/c07.") {
			return "harness:" + f.fn[strings.LastIndex(f.fn, "/")+1:], false
		}
	}
	if len(fs) > 0 {
		return "other:" + fs[0].fn, false
	}
	return "?", false
}

// ---- watchdog ---------------------------------------------------------------

var hangHdr = regexp.MustCompile(`(?m)^C07-HANG kind=(\S+) op=(\S+) worker=(-?\d+) gid=(\d+) elapsed_ms=(\d+)$`)

func parseHang(stderr, parentKilled string) (sig, msg string) {
	if m := hangHdr.FindStringSubmatchIndex(stderr); m != nil {
		kind := stderr[m[2]:m[3]]
		op := stderr[m[4]:m[5]]
		gid := stderr[m[8]:m[9]]
		dump := stderr[m[1]:]
		where := ""
		var stuck string
		for _, g := range parseGoroutines(dump) {
			if g.id == gid {
				where, _ = topFrameNoFile(g.frames)
				stuck = g.text
				break
			}
		}
		if where == "" || where == "?" {
			where = "call:" + op
		}
		sig = "hang:" + where
		if kind == "case" {
			sig = "hang:case-budget:" + where
		}
		msg = fmt.Sprintf("watchdog (%s): %s did not return; stuck goroutine:\n%s\nfull dump:\n%s",
			kind, op, clip(stuck, 3000), clip(dump, 20000))
		return
	}
	if parentKilled != "" && strings.Contains(stderr, "SIGQUIT") {
		// dump printed by the runtime on the parent's SIGQUIT: the first
		// worker goroutine that sits inside an engine call
		i := strings.Index(stderr, "SIGQUIT")
		for _, g := range parseGoroutines(stderr[i:]) {
			if !strings.Contains(g.text, "c07.(*worker).") && !strings.Contains(g.text, "c07.childMain") {
				continue
			}
			if w, ok := topFrameNoFile(g.frames); ok {
				return "hang:" + w, fmt.Sprintf("parent watchdog: the child neither finished nor reported; goroutine:\n%s\nfull dump:\n%s",
					clip(g.text, 3000), clip(stderr[i:], 20000))
			}
		}
		return "hang:unknown", "parent watchdog fired; dump:\n" + clip(stderr[i:], 20000)
	}
	return "", ""
}

// ---- small helpers ----------------------------------------------------------

func clip(s string, n int) string {
	if len(s) <= n {
		return s
	}
	return s[:n] + "\n...[clipped]"
}

func firstLineWith(s, sub string) string {
	for _, ln := range strings.Split(s, "\n") {
		if strings.Contains(ln, sub) {
			return ln
		}
	}
	return ""
}

func firstNonEmptyLine(s string) string {
	for _, ln := range strings.Split(s, "\n") {
		if strings.TrimSpace(ln) != "" {
			return ln
		}
	}
	return ""
}

func lastLines(s string, n int) string {
	ls := strings.Split(strings.TrimRight(s, "\n"), "\n")
	if len(ls) > n {
		ls = ls[len(ls)-n:]
	}
	return strings.Join(ls, "\n")
}

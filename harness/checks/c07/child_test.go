// C07 — the child process: opens an engine, runs the goroutine scripts of a
// case under the race detector, watches every call, joins, closes.
package c07

import (
	"bytes"
	"context"
	"encoding/json"
	"fmt"
	"os"
	"path/filepath"
	"runtime"
	"runtime/debug"
	"sort"
	"strings"
	"sync"
	"sync/atomic"
	"time"

	"github.com/KevoDB/kevo/pkg/common/iterator"
	"github.com/KevoDB/kevo/pkg/compaction"
	"github.com/KevoDB/kevo/pkg/config"
	"github.com/KevoDB/kevo/pkg/engine"
	"github.com/KevoDB/kevo/pkg/engine/interfaces"
	"github.com/KevoDB/kevo/pkg/sstable"
	"github.com/KevoDB/kevo/pkg/transaction"
	"github.com/KevoDB/kevo/pkg/verifhook"
	"github.com/KevoDB/kevo/pkg/wal"

	"verif/internal/drive"
)

const (
	exitSetup = 3  // the child could not set the case up (infrastructure)
	exitHang  = 67 // the child's watchdog fired
	exitRace  = 66 // GORACE exitcode

	softCalls  = 2000 // per goroutine and case: beyond this the goroutine slows down (the engine never prunes its immutable list)
	maxCalls   = 8000 // per goroutine and case: hard bound of the work
	auxKeys    = 40
	auxReaders = 3
	sleepCapUs = 1_500_000 // total time the yield plan may sleep in one case
)

// Time bounds of the watchdog: at least 1000x the normal latency of a call
// (tens of microseconds to a few milliseconds under the race detector) and
// ~100x the normal duration of a case. VERIF_C07_LIMITS="call,case,grace"
// (seconds) exists only to test the watchdog paths themselves.
var (
	callLimit   = 30 * time.Second  // every API call
	caseLimit   = 120 * time.Second // all scripts of a case
	parentGrace = 45 * time.Second  // parent: beyond callLimit+caseLimit before it sends SIGQUIT itself
)

func init() {
	var a, b, c int
	if n, _ := fmt.Sscanf(os.Getenv("VERIF_C07_LIMITS"), "%d,%d,%d", &a, &b, &c); n == 3 {
		callLimit, caseLimit, parentGrace = time.Duration(a)*time.Second, time.Duration(b)*time.Second, time.Duration(c)*time.Second
	}
}

// ChildSpec is what the parent writes for the child.
type ChildSpec struct {
	Dir    string `json:"dir"`
	Result string `json:"result"`
	Case   Case   `json:"case"`
}

// ChildResult is what the child reports (plain facts, no verdict).
type ChildResult struct {
	Ops        map[string]int   `json:"ops"`
	Errs       map[string]int   `json:"errs,omitempty"`
	ErrSamples []string         `json:"err_samples,omitempty"`
	Rounds     []int            `json:"rounds"`
	ElapsedMs  int64            `json:"elapsed_ms"`
	Sites      map[string]int64 `json:"sites"`
	Stats      map[string]int64 `json:"stats"`
	Joined     bool             `json:"joined"`
	Closed     bool             `json:"closed"`
	CloseErr   string           `json:"close_err,omitempty"`
}

// ---- hook handler -----------------------------------------------------------
//
// The handler must not add happens-before edges between the goroutines of the
// engine (an atomic counter shared by two goroutines would hide races between
// them from the detector), so it uses plain memory and is excluded from race
// instrumentation. Lost updates of the counters only blur the statistics.

type siteState struct {
	hits  int64
	every int64
	sleep time.Duration
	yield int
}

var (
	siteTab map[string]*siteState // read-only after installHook
	sleptUs int64
)

var knownSites = []string{
	"compaction.cleanup.before_remove", "compaction.cycle.after_compact", "compaction.cycle.before_cleanup",
	"compaction.delete.before_remove", "compaction.files.after_output", "compaction.range.after_compact",
	"compaction.range.after_delete", "sstable.finish.after_sync", "sstable.finish.before_footer",
	"sstable.finish.before_sync", "sstable.flushblock.after_write", "storage.batch.after_mem",
	"storage.batch.after_wal", "storage.batch.between_inserts", "storage.delete.after_wal",
	"storage.flush.before_clear", "storage.flush.begin", "storage.flushmem.after_finish",
	"storage.flushmem.before_publish", "storage.flushmem.before_writer", "storage.put.after_mem",
	"storage.put.after_wal", "storage.rotate.after_close", "storage.rotate.after_newwal",
	"storage.rotate.after_setrotating", "storage.rotate.after_swap", "storage.rotate.begin",
	"storage.scheduleflush", "storage.scheduleflush.after_switch", "tx.begin.after_lock", "tx.begin.before_lock",
	"tx.commit.after_apply", "tx.commit.after_unlock", "tx.commit.before_apply", "tx.registry.begin.after_tx",
	"wal.append.after_write", "wal.append.before_sync", "wal.append.locked", "wal.batch.after_write",
	"wal.batch.before_sync", "wal.batch.before_write", "wal.batch.between_records", "wal.close.after_flush",
	"wal.close.after_sync", "wal.frag.between", "wal.sync.after_flush",
}

func installHook(plan []Yield) {
	siteTab = map[string]*siteState{}
	for _, s := range knownSites {
		st := &siteState{}
		for i := range plan {
			y := &plan[i]
			if strings.HasPrefix(s, y.Site) && y.Every > 0 {
				st.every = int64(y.Every)
				if y.Kind == "sleep" {
					st.sleep = time.Duration(y.Amount) * time.Microsecond
				} else {
					st.yield = y.Amount
				}
			}
		}
		siteTab[s] = st
	}
	verifhook.Set(hookHandler)
}

//go:norace
func hookHandler(site string) {
	st := siteTab[site]
	if st == nil {
		return
	}
	st.hits++
	if st.every == 0 || st.hits%st.every != 0 {
		return
	}
	if st.sleep > 0 && sleptUs < sleepCapUs {
		sleptUs += int64(st.sleep / time.Microsecond)
		time.Sleep(st.sleep)
		return
	}
	n := st.yield
	if n == 0 {
		n = 1
	}
	for i := 0; i < n; i++ {
		runtime.Gosched()
	}
}

// ---- workers ----------------------------------------------------------------

type worker struct {
	id        int
	gid       atomic.Int64
	callStart atomic.Int64 // unix nanoseconds of the call in progress, 0 = none
	callOp    atomic.Value // string
	ops       map[string]int
	errs      map[string]int
	samples   []string
	calls     int
	rounds    int
	sink      byte
}

type env struct {
	c   *Case
	eng *engine.EngineFacade
	cm  interfaces.CompactionManager
	// aux components
	auxR    []*sstable.Reader
	auxCo   *compaction.DefaultCompactionCoordinator
	auxFT   *compaction.DefaultFileTracker
	auxDir  string
	started time.Time
	reg     transaction.Registry
}

func auxKey(i int) []byte { return []byte(fmt.Sprintf("aux%04d", i)) }

func (w *worker) call(op string, f func() error) {
	w.callOp.Store(op)
	w.callStart.Store(time.Now().UnixNano())
	err := f()
	w.callStart.Store(0)
	w.calls++
	w.ops[op]++
	if err != nil && !isBenign(err) {
		w.errs[op]++
		if len(w.samples) < 4 {
			w.samples = append(w.samples, op+": "+err.Error())
		}
	}
}

// isBenign: outcomes that are part of the normal contract of a call.
func isBenign(err error) bool {
	s := err.Error()
	return strings.Contains(s, "not found") || strings.Contains(s, "read-only")
}

func (w *worker) consume(b []byte) {
	var x byte
	for _, c := range b {
		x ^= c
	}
	w.sink ^= x
}

func (w *worker) scan(op string, it iterator.Iterator, keys [][]byte, seek, n int) {
	if it == nil {
		return
	}
	w.call(op+".scan", func() error {
		if seek >= 0 && seek < len(keys) {
			it.Seek(keys[seek])
		} else {
			it.SeekToFirst()
		}
		for i := 0; i < n && it.Valid(); i++ {
			w.consume(it.Key())
			if !it.IsTombstone() {
				w.consume(it.Value())
			}
			it.Next()
		}
		return nil
	})
}

func bounds(keys [][]byte, a, b int) (lo, hi []byte) {
	if a >= 0 && b >= 0 && a > b {
		a, b = b, a
	}
	if a >= 0 && a < len(keys) {
		lo = keys[a]
	}
	if b >= 0 && b < len(keys) {
		hi = keys[b]
	}
	return
}

func (w *worker) step(e *env, s *Step) {
	keys := e.c.Keys
	key := func(i int) []byte {
		if i < 0 || i >= len(keys) {
			return keys[0]
		}
		return keys[i]
	}
	switch s.Op {
	case opPut:
		v := s.V.Bytes()
		w.call(opPut, func() error { return e.eng.Put(key(s.K), v) })
	case opGet:
		w.call(opGet, func() error {
			v, err := e.eng.Get(key(s.K))
			w.consume(v)
			return err
		})
	case opDel:
		w.call(opDel, func() error { return e.eng.Delete(key(s.K)) })
	case opIsDel:
		w.call(opIsDel, func() error { _, err := e.eng.IsDeleted(key(s.K)); return err })
	case opBatch:
		entries := make([]*wal.Entry, 0, len(s.Body))
		for _, o := range s.Body {
			if o.Op == "del" {
				entries = append(entries, &wal.Entry{Type: wal.OpTypeDelete, Key: key(o.K)})
			} else {
				entries = append(entries, &wal.Entry{Type: wal.OpTypePut, Key: key(o.K), Value: o.V.Bytes()})
			}
		}
		if len(entries) == 0 {
			return
		}
		w.call(opBatch, func() error { return e.eng.ApplyBatch(entries) })
	case opIter:
		var it iterator.Iterator
		w.call(opIter, func() (err error) { it, err = e.eng.GetIterator(); return })
		w.scan(opIter, it, keys, s.Seek, s.N)
	case opRIter:
		var it iterator.Iterator
		lo, hi := bounds(keys, s.A, s.B)
		w.call(opRIter, func() (err error) { it, err = e.eng.GetRangeIterator(lo, hi); return })
		w.scan(opRIter, it, keys, s.Seek, s.N)
	case opTx:
		w.tx(e, s)
	case opRTx:
		w.rtx(e, s)
	case opRClean:
		if r, ok := e.reg.(*transaction.RegistryImpl); ok {
			w.call(opRClean, func() error { r.CleanupStaleTransactions(); return nil })
		}
	case opRConn:
		if e.reg != nil {
			w.call(opRConn, func() error { e.reg.CleanupConnection(peerName(s.K % len(e.c.Scripts))); return nil })
		}
	case opGetWAL:
		w.call(opGetWAL, func() error {
			if l := e.eng.GetWAL(); l != nil {
				_ = l.GetNextSequence() // what the replication primary asks the log
			}
			return nil
		})
	case opROToggle:
		w.call(opROToggle, func() error {
			e.eng.SetReadOnly(true)
			_ = e.eng.IsReadOnly()
			e.eng.SetReadOnly(false)
			return nil
		})
	case opIsRO:
		w.call(opIsRO, func() error { _ = e.eng.IsReadOnly(); return nil })
	case opFlush:
		w.call(opFlush, func() error { return e.eng.FlushImMemTables() })
	case opCompact:
		w.call(opCompact, func() error { return e.eng.TriggerCompaction() })
	case opCRange:
		lo, hi := bounds(keys, s.A, s.B)
		w.call(opCRange, func() error { return e.eng.CompactRange(lo, hi) })
	case opStats:
		w.call(opStats, func() error {
			m := e.eng.GetStats()
			w.consume([]byte(fmt.Sprint(m))) // a caller prints / serialises the statistics
			return nil
		})
	case opCStats:
		w.call(opCStats, func() error {
			m, err := e.eng.GetCompactionStats()
			w.consume([]byte(fmt.Sprint(m)))
			return err
		})
	case opTomb:
		w.call(opTomb, func() error { e.cm.TrackTombstone(key(s.K)); return nil })
	case opPreserve:
		w.call(opPreserve, func() error { e.cm.ForcePreserveTombstone(key(s.K)); return nil })
	case opPause:
		time.Sleep(time.Duration(s.Us) * time.Microsecond)
	case opSstGet:
		if len(e.auxR) == 0 {
			return
		}
		r := e.auxR[s.A%len(e.auxR)]
		w.call(opSstGet, func() error {
			v, err := r.Get(auxKey(s.K % auxKeys))
			w.consume(v)
			return err
		})
	case opFtMark:
		if e.auxCo != nil {
			w.call(opFtMark, func() error {
				e.auxCo.MarkFileObsolete(filepath.Join(e.auxDir, fmt.Sprintf("gone-%d", s.K)))
				return nil
			})
		}
	case opFtQuery:
		if e.auxFT != nil {
			w.call(opFtQuery, func() error {
				p := filepath.Join(e.auxDir, fmt.Sprintf("gone-%d", s.K))
				_ = e.auxFT.IsFileObsolete(p)
				_ = e.auxFT.IsFilePending(p)
				return nil
			})
		}
	case opFtClean:
		if e.auxCo != nil {
			w.call(opFtClean, func() error { return e.auxCo.CleanupObsoleteFiles() })
		}
	case opAuxCompact:
		if e.auxCo != nil {
			w.call(opAuxCompact, func() error { return e.auxCo.TriggerCompaction() })
		}
	}
}

// tx runs begin + body + commit/rollback as one script step: the goroutine
// never holds the transaction lock across think time and has at most one
// transaction open.
func (w *worker) tx(e *env, s *Step) {
	var tx interfaces.Transaction
	w.call("tx.begin", func() (err error) { tx, err = e.eng.BeginTransaction(s.RO); return })
	if tx == nil {
		return
	}
	w.txBody(e, s, tx)
}

func peerName(i int) string { return fmt.Sprintf("peer-%d", i) }

// rtx is the same through the transaction registry (what the gRPC service
// does per request): Begin, Get by id, body, Commit/Rollback, Remove.
func (w *worker) rtx(e *env, s *Step) {
	if e.reg == nil {
		return
	}
	ctx := context.WithValue(context.Background(), "peer", peerName(w.id)) //nolint: the registry reads this exact key
	var id string
	w.call("rtx.begin", func() (err error) { id, err = e.reg.Begin(ctx, e.eng, s.RO); return })
	if id == "" {
		return
	}
	var tx txLike
	w.call("rtx.get", func() error {
		if t, ok := e.reg.Get(id); ok {
			tx = t
		}
		return nil
	})
	if tx != nil {
		w.txBody(e, s, tx)
	}
	w.call("rtx.remove", func() error { e.reg.Remove(id); return nil })
}

// txLike is the method set shared by interfaces.Transaction and transaction.Transaction.
type txLike interface {
	Get(key []byte) ([]byte, error)
	Put(key, value []byte) error
	Delete(key []byte) error
	NewIterator() iterator.Iterator
	NewRangeIterator(startKey, endKey []byte) iterator.Iterator
	Commit() error
	Rollback() error
}

// sharedHelper runs the body's operations in reverse order on the same
// transaction object from a second goroutine (no worker bookkeeping: the
// worker's counters belong to its own goroutine).
func sharedHelper(e *env, s *Step, tx txLike, done chan<- struct{}) {
	defer close(done)
	keys := e.c.Keys
	var sink byte
	eat := func(b []byte) {
		for _, c := range b {
			sink ^= c
		}
	}
	scan := func(it iterator.Iterator, seek, n int) {
		if it == nil {
			return
		}
		if seek >= 0 && seek < len(keys) {
			it.Seek(keys[seek])
		} else {
			it.SeekToFirst()
		}
		for i := 0; i < n && it.Valid(); i++ {
			eat(it.Key())
			if !it.IsTombstone() {
				eat(it.Value())
			}
			it.Next()
		}
	}
	for i := len(s.Body) - 1; i >= 0; i-- {
		o := &s.Body[i]
		k := keys[0]
		if o.K >= 0 && o.K < len(keys) {
			k = keys[o.K]
		}
		switch o.Op {
		case "get":
			v, _ := tx.Get(k)
			eat(v)
		case "put":
			_ = tx.Put(k, o.V.Bytes())
		case "del":
			_ = tx.Delete(k)
		case "iter":
			scan(tx.NewIterator(), o.Seek, o.N)
		case "riter":
			lo, hi := bounds(keys, o.A, o.B)
			scan(tx.NewRangeIterator(lo, hi), o.Seek, o.N)
		}
	}
	_ = sink
}

func (w *worker) txBody(e *env, s *Step, tx txLike) {
	keys := e.c.Keys
	var helperDone chan struct{}
	if s.Shared && len(s.Body) > 0 {
		helperDone = make(chan struct{})
		go sharedHelper(e, s, tx, helperDone)
	}
	for i := range s.Body {
		o := &s.Body[i]
		k := keys[0]
		if o.K >= 0 && o.K < len(keys) {
			k = keys[o.K]
		}
		switch o.Op {
		case "get":
			w.call("tx.get", func() error { v, err := tx.Get(k); w.consume(v); return err })
		case "put":
			v := o.V.Bytes()
			w.call("tx.put", func() error { return tx.Put(k, v) })
		case "del":
			w.call("tx.del", func() error { return tx.Delete(k) })
		case "iter":
			var it iterator.Iterator
			w.call("tx.iter", func() error { it = tx.NewIterator(); return nil })
			w.scan("tx.iter", it, keys, o.Seek, o.N)
		case "riter":
			var it iterator.Iterator
			lo, hi := bounds(keys, o.A, o.B)
			w.call("tx.riter", func() error { it = tx.NewRangeIterator(lo, hi); return nil })
			w.scan("tx.riter", it, keys, o.Seek, o.N)
		}
	}
	if helperDone != nil {
		// the second goroutine is joined before the transaction is finished
		w.call("tx.shared.join", func() error { <-helperDone; return nil })
	}
	if s.Commit {
		w.call("tx.commit", func() error { return tx.Commit() })
	} else {
		w.call("tx.rollback", func() error { return tx.Rollback() })
	}
}

func (w *worker) run(e *env, sc *Script, start <-chan struct{}, wg *sync.WaitGroup) {
	defer wg.Done()
	w.gid.Store(curGoroutineID())
	<-start
	c := e.c
	for round := 0; ; round++ {
		for i := range sc.Steps {
			if w.calls >= maxCalls {
				break
			}
			w.step(e, &sc.Steps[i])
		}
		w.rounds++
		if round+1 >= c.MaxRounds || w.calls >= maxCalls ||
			time.Since(e.started) >= time.Duration(c.MinRunMs)*time.Millisecond {
			return
		}
		pause := time.Duration(c.RoundPauseUs) * time.Microsecond
		if w.calls >= softCalls && pause < 10*time.Millisecond {
			pause = 10 * time.Millisecond
		}
		if pause > 0 {
			time.Sleep(pause)
		}
	}
}

func curGoroutineID() int64 {
	var buf [64]byte
	n := runtime.Stack(buf[:], false)
	var id int64
	fmt.Sscanf(string(buf[:n]), "goroutine %d ", &id)
	return id
}

// ---- watchdog ---------------------------------------------------------------

func dumpAndExit(kind, op string, wid int, gid int64, elapsed time.Duration) {
	debug.SetTraceback("all")
	buf := make([]byte, 16<<20)
	n := runtime.Stack(buf, true)
	fmt.Fprintf(os.Stderr, "\nC07-HANG kind=%s op=%s worker=%d gid=%d elapsed_ms=%d\n", kind, op, wid, gid, elapsed.Milliseconds())
	os.Stderr.Write(buf[:n])
	fmt.Fprintf(os.Stderr, "\nC07-HANG-END\n")
	os.Exit(exitHang)
}

func watchdog(ws []*worker, caseStart time.Time, caseActive *atomic.Bool, stop <-chan struct{}) {
	tk := time.NewTicker(200 * time.Millisecond)
	defer tk.Stop()
	for {
		select {
		case <-stop:
			return
		case <-tk.C:
		}
		now := time.Now()
		var longest *worker
		var longestD time.Duration
		for _, w := range ws {
			st := w.callStart.Load()
			if st == 0 {
				continue
			}
			d := now.Sub(time.Unix(0, st))
			if d > longestD {
				longest, longestD = w, d
			}
		}
		if longest != nil && longestD > callLimit {
			op, _ := longest.callOp.Load().(string)
			dumpAndExit("call", op, longest.id, longest.gid.Load(), longestD)
		}
		if caseActive.Load() && now.Sub(caseStart) > caseLimit {
			op, wid, gid := "none", -1, int64(0)
			if longest != nil {
				op, _ = longest.callOp.Load().(string)
				wid, gid = longest.id, longest.gid.Load()
			}
			dumpAndExit("case", op, wid, gid, now.Sub(caseStart))
		}
	}
}

// ---- child main -------------------------------------------------------------

func setupFail(format string, a ...any) {
	fmt.Fprintf(os.Stderr, "C07-CHILD-SETUP-ERROR: "+format+"\n", a...)
	os.Exit(exitSetup)
}

func writeManifest(dir string, c Cfg) error {
	cfg := config.NewDefaultConfig(dir)
	cfg.MemTableSize = c.MemTableSize
	cfg.MaxMemTables = c.MaxMemTables
	cfg.WALSyncMode = config.SyncMode(c.SyncMode)
	cfg.WALSyncBytes = c.SyncBytes
	cfg.CompactionInterval = c.CompactionInterval
	return cfg.SaveManifest(dir)
}

func setupAux(e *env, dir string) error {
	e.auxDir = filepath.Join(dir, "aux")
	if err := os.MkdirAll(e.auxDir, 0o755); err != nil {
		return err
	}
	// a table with several data blocks (blocks are cut at ~64 KiB)
	p := filepath.Join(e.auxDir, "aux-table.sst")
	wr, err := sstable.NewWriter(p)
	if err != nil {
		return err
	}
	val := bytes.Repeat([]byte{'v'}, 9000)
	for i := 0; i < auxKeys; i++ {
		if err := wr.Add(auxKey(i), val); err != nil {
			return err
		}
	}
	if err := wr.Finish(); err != nil {
		return err
	}
	for i := 0; i < auxReaders; i++ {
		r, err := sstable.OpenReader(p)
		if err != nil {
			return err
		}
		e.auxR = append(e.auxR, r)
	}
	cfg := config.NewDefaultConfig(e.auxDir)
	cfg.CompactionInterval = 1
	e.auxFT = compaction.NewFileTracker()
	e.auxCo = compaction.NewCompactionCoordinator(cfg, filepath.Join(e.auxDir, "sst"),
		compaction.CompactionCoordinatorOptions{FileTracker: e.auxFT, CompactionInterval: 1})
	if err := os.MkdirAll(filepath.Join(e.auxDir, "sst"), 0o755); err != nil {
		return err
	}
	return e.auxCo.Start()
}

func childMain(specPath string) {
	b, err := os.ReadFile(specPath)
	if err != nil {
		setupFail("read spec: %v", err)
	}
	var spec ChildSpec
	if err := json.Unmarshal(b, &spec); err != nil {
		setupFail("parse spec: %v", err)
	}
	c := &spec.Case
	if len(c.Keys) == 0 || len(c.Scripts) == 0 {
		setupFail("empty case")
	}
	db := filepath.Join(spec.Dir, "db")
	if err := os.MkdirAll(db, 0o755); err != nil {
		setupFail("mkdir: %v", err)
	}
	if err := writeManifest(db, c.Cfg); err != nil {
		setupFail("manifest: %v", err)
	}
	eng, err := engine.NewEngineFacade(db)
	if err != nil {
		setupFail("open engine: %v", err)
	}
	e := &env{c: c, eng: eng, cm: eng.VerifCompaction()}
	if c.Aux {
		if err := setupAux(e, spec.Dir); err != nil {
			setupFail("aux: %v", err)
		}
	}
	for _, sc := range c.Scripts {
		for _, st := range sc.Steps {
			if e.reg == nil && (st.Op == opRTx || st.Op == opRClean || st.Op == opRConn) {
				e.reg = transaction.NewRegistry()
			}
		}
	}
	installHook(c.Yields)

	ws := make([]*worker, len(c.Scripts))
	start := make(chan struct{})
	var wg sync.WaitGroup
	for i := range c.Scripts {
		ws[i] = &worker{id: i, ops: map[string]int{}, errs: map[string]int{}}
		wg.Add(1)
		go ws[i].run(e, &c.Scripts[i], start, &wg)
	}
	// the main goroutine is watched too (join, close)
	mainW := &worker{id: -1, ops: map[string]int{}, errs: map[string]int{}}
	mainW.gid.Store(curGoroutineID())
	var caseActive atomic.Bool
	stop := make(chan struct{})
	e.started = time.Now()
	caseActive.Store(true)
	go watchdog(append(append([]*worker{}, ws...), mainW), e.started, &caseActive, stop)
	close(start)
	wg.Wait()
	caseActive.Store(false)
	elapsed := time.Since(e.started)

	res := &ChildResult{Ops: map[string]int{}, Errs: map[string]int{}, Sites: map[string]int64{}, Stats: map[string]int64{},
		ElapsedMs: elapsed.Milliseconds(), Joined: true}
	for _, w := range ws {
		for k, v := range w.ops {
			res.Ops[k] += v
		}
		for k, v := range w.errs {
			res.Errs[k] += v
		}
		if len(res.ErrSamples) < 8 {
			res.ErrSamples = append(res.ErrSamples, w.samples...)
		}
		res.Rounds = append(res.Rounds, w.rounds)
	}
	st := eng.GetStats()
	for _, k := range []string{"flush_count", "compaction_count", "storage_sstable_count", "storage_immutable_memtable_count", "put_ops", "delete_ops"} {
		switch v := st[k].(type) {
		case uint64:
			res.Stats[k] = int64(v)
		case int:
			res.Stats[k] = int64(v)
		case int64:
			res.Stats[k] = v
		}
	}
	collectSites(res)
	writeResult(spec.Result, res)

	if e.reg != nil {
		mainW.call("registry.shutdown", func() error { return e.reg.GracefulShutdown(context.Background()) })
	}
	// all callers have returned: now close (Close concurrent with calls is out of scope)
	if !c.CloseBusy {
		// a flush signal that was queued while the last flush ran starts
		// another flush (of the active table) right after it: wait twice
		mainW.call("quiesce", func() error {
			for i := 0; i < 3; i++ {
				drive.Quiesce(eng)
				time.Sleep(40 * time.Millisecond)
			}
			drive.Quiesce(eng)
			return nil
		})
	}
	mainW.call("close", func() error {
		err := eng.Close()
		if err != nil {
			res.CloseErr = err.Error()
		}
		return nil
	})
	if e.auxCo != nil {
		mainW.call("aux.stop", func() error { return e.auxCo.Stop() })
		for _, r := range e.auxR {
			r.Close()
		}
	}
	close(stop)
	verifhook.Reset()
	res.Closed = true
	collectSites(res)
	writeResult(spec.Result, res)
}

func collectSites(res *ChildResult) {
	for s, stt := range siteTab {
		if stt.hits > 0 {
			res.Sites[s] = stt.hits
		}
	}
}

func writeResult(path string, res *ChildResult) {
	b, _ := json.Marshal(res)
	_ = os.WriteFile(path+".tmp", b, 0o644)
	_ = os.Rename(path+".tmp", path)
}

func sortedKeys(m map[string]int) []string {
	ks := make([]string, 0, len(m))
	for k := range m {
		ks = append(ks, k)
	}
	sort.Strings(ks)
	return ks
}

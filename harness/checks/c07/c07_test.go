// C07 — concurrent use never races, crashes or hangs the process.
// Generated API mixes (goroutine scripts over the whole public surface of an
// open engine) are executed in a CHILD process built with the race detector;
// the parent turns race reports, runtime fatal errors / panics, exit status
// and the call watchdog into violations (DESIGN.md 5/C07).
package c07

import (
	"encoding/json"
	"fmt"
	"os"
	"strconv"
	"strings"
	"testing"

	"pgregory.net/rapid"

	"verif/internal/ev"
)

const rule = "case = rapid-drawn (engine config with 256 B-64 KiB memtables and compaction interval 1 s in 5/6 of the cases, key pool, " +
	"2-12 goroutine scripts of 3-40 steps over Put/Get/Delete/IsDeleted/ApplyBatch, full/range iterators with SeekToFirst/Seek/Next loops, " +
	"read-only and read-write transactions with bodies, FlushImMemTables, TriggerCompaction, CompactRange, GetStats, GetCompactionStats, " +
	"TrackTombstone/ForcePreserveTombstone, optional component extras (shared sstable.Reader.Get, file tracker of a second coordinator), " +
	"yield plan for verifhook sites, minimum run time 0-1.5 s); executed in a child process built with -race " +
	"(GORACE halt_on_error=0 exitcode=66); oracle = no DATA RACE report with a kevo frame, no fatal error / panic, no unexpected exit status, " +
	"every call returns within 30 s and the case within 120 s; all goroutines are joined before Close. " +
	"non-trivial = at least 2 goroutines whose scripts write (put/delete/batch/committing read-write transaction) run concurrently AND " +
	"(a script calls flush/compaction OR the child observed at least one memtable flush during the run); distinct by FNV-64 of the case JSON"

func TestMain(m *testing.M) {
	if os.Getenv("VERIF_CHILD_SPEC") != "" {
		ev.Silence()
		os.Exit(m.Run())
	}
	ev.Silence()
	rec := ev.Init("C07", rule)
	code := m.Run()
	rec.Flush(true)
	os.Exit(code)
}

// TestChild is the entry point of the re-executed child.
func TestChild(t *testing.T) {
	sp := os.Getenv("VERIF_CHILD_SPEC")
	if sp == "" {
		t.Skip("not a child")
	}
	childMain(sp)
}

// Doc is the replay document.
type Doc struct {
	Property  string       `json:"property"`
	Signature string       `json:"signature"`
	Case      Case         `json:"case"`
	Message   string       `json:"message,omitempty"`
	Result    *ChildResult `json:"child_result,omitempty"`
	Note      string       `json:"note,omitempty"`
}

// infra stops the process in a way the driver reports as inconclusive
// (exit 2), never as a violation: partial not completed, non-zero exit.
func infra(msg string) {
	fmt.Fprintln(os.Stderr, "C07 infrastructure error:", msg)
	ev.R().Note("infrastructure: " + clip(msg, 300))
	ev.R().Flush(false)
	os.Exit(3)
}

func classify(c *Case, o *Outcome) (bool, []string) {
	sh := shapeOf(c)
	var cl []string
	flushSeen := false
	rotations := int64(0)
	if o.Res != nil {
		flushSeen = o.Res.Sites["storage.flushmem.before_writer"] > 0
		rotations = o.Res.Sites["storage.rotate.begin"]
		if o.Res.Sites["compaction.files.after_output"] > 0 {
			cl = append(cl, "compaction_wrote_files")
		}
		if o.Res.ElapsedMs >= 1000 && c.Cfg.CompactionInterval == 1 {
			cl = append(cl, "background_compaction_tick")
		}
		if len(o.Res.Errs) > 0 {
			cl = append(cl, "some_call_returned_error")
		}
	}
	if sh.writers >= 2 {
		cl = append(cl, "writers>=2")
	}
	if sh.deleters >= 2 {
		cl = append(cl, "deleters>=2")
	}
	if sh.scanners >= 1 && sh.writers >= 1 {
		cl = append(cl, "scan_vs_write")
	}
	if sh.txers >= 2 {
		cl = append(cl, "tx_goroutines>=2")
	}
	if sh.maint >= 1 {
		cl = append(cl, "explicit_maintenance")
	}
	if sh.statsG >= 1 && sh.writers >= 1 {
		cl = append(cl, "stats_vs_write")
	}
	if flushSeen {
		cl = append(cl, "flush_during_run")
	}
	if rotations >= 2 {
		cl = append(cl, "rotations>=2")
	}
	if c.Aux {
		cl = append(cl, "aux_components")
	}
	if len(c.Yields) > 0 {
		cl = append(cl, "yield_plan")
	}
	if len(c.Scripts) >= 6 {
		cl = append(cl, "goroutines>=6")
	}
	nt := sh.writers >= 2 && (sh.maint >= 1 || flushSeen)
	if nt {
		cl = append(cl, "nontrivial")
	}
	return nt, cl
}

// A failing execution does not stop the search of this process: the verdict of
// one execution depends on the schedule, rapid's shrinking (which needs a
// reproducible failure and many re-executions) is of little use at 1-2 s per
// execution, and an open finding that shows up in every tenth case would
// otherwise hide everything behind it. Every violation is recorded (for one
// signature the smallest failing case seen is kept as the replay file); the
// test function fails at the end. VERIF_C07_STOP=1 restores stop-and-shrink.
var (
	sawFailure bool
	stopMode   = os.Getenv("VERIF_C07_STOP") != ""
)

const retriesWhenShrinking = 2

func execute(c *Case) *Outcome {
	o := runChild(c)
	if o.Infra != "" {
		return o
	}
	if len(o.Viol) == 0 && sawFailure && stopMode {
		for i := 1; i < retriesWhenShrinking; i++ {
			o2 := runChild(c)
			if o2.Infra != "" {
				return o2
			}
			if len(o2.Viol) > 0 {
				return o2
			}
		}
	}
	return o
}

func TestProp(t *testing.T) {
	var failed []string
	rapid.Check(t, func(t *rapid.T) {
		c := genCase(t)
		o := execute(&c)
		if o.Infra != "" {
			infra(o.Infra)
		}
		nt, classes := classify(&c, o)
		ev.R().Case(ev.Hash(&c), nt, classes, func() any { return &c })
		if o.Res != nil {
			n := 0
			for _, v := range o.Res.Ops {
				n += v
			}
			ev.R().Count("api_calls", n)
			ev.R().Count("child_ms", int(o.WallMs))
			for _, k := range sortedKeys(o.Res.Errs) {
				ev.R().Count("call_errors:"+k, o.Res.Errs[k])
			}
			for _, s := range o.Res.ErrSamples {
				ev.R().Note("call error: " + clip(s, 200))
			}
		}
		if o.OtherRace > 0 {
			ev.R().Count("race_reports_without_kevo_frame", o.OtherRace)
		}
		if len(o.Viol) > 0 {
			sawFailure = true
			var sigs []string
			var path string
			for _, v := range o.Viol {
				path = ev.R().Fail(v.Sig, v.Msg, Doc{Property: "C07", Signature: v.Sig, Case: c, Message: v.Msg, Result: o.Res})
				sigs = append(sigs, v.Sig)
			}
			ev.R().Count("violating_executions", 1)
			if stopMode {
				// the message is kept stable (signatures only) so that rapid
				// can recognise the same failure while shrinking
				t.Fatalf("C07 violated: %s (replay %s)", strings.Join(sigs, " | "), path)
			}
			failed = append(failed, sigs...)
			for _, sg := range sigs {
				if strings.HasPrefix(sg, "hang:") {
					// every further hanging case would cost this process another 30 s
					t.Fatalf("C07 violated: %s (replay %s); search of this process stopped after a hang", strings.Join(sigs, " | "), path)
				}
			}
		}
	})
	if len(failed) > 0 {
		t.Errorf("C07 violated in %d execution(s); signatures: %s", len(failed), strings.Join(uniq(failed), " | "))
	}
}

func uniq(in []string) []string {
	seen := map[string]bool{}
	var out []string
	for _, s := range in {
		if !seen[s] {
			seen[s] = true
			out = append(out, s)
		}
	}
	return out
}

// TestReplay re-executes a saved case without the library. The verdict of one
// execution depends on the schedule, so the case is executed up to N times
// (VERIF_C07_REPLAYS, default 4 quick / 20 thorough) and the replay fails as
// soon as one execution violates the property (the saved signature is
// preferred when several are seen).
func TestReplay(t *testing.T) {
	f := os.Getenv("VERIF_REPLAY")
	if f == "" {
		t.Skip("no VERIF_REPLAY")
	}
	b, err := os.ReadFile(f)
	if err != nil {
		t.Fatal(err)
	}
	var d Doc
	if err := json.Unmarshal(b, &d); err != nil {
		t.Fatal(err)
	}
	n := 4
	if ev.Tier() == "thorough" {
		n = 20
	}
	if s := os.Getenv("VERIF_C07_REPLAYS"); s != "" {
		if v, err := strconv.Atoi(s); err == nil && v > 0 {
			n = v
		}
	}
	var first *Violation
	for i := 0; i < n; i++ {
		o := runChild(&d.Case)
		if o.Infra != "" {
			t.Fatalf("infrastructure: %s", o.Infra) // no result file: the driver reports an error, not a verdict
		}
		for j := range o.Viol {
			v := o.Viol[j]
			if v.Sig == d.Signature {
				ev.WriteReplayResult(ev.ReplayResult{File: f, Outcome: "fail", Signature: v.Sig,
					Message: fmt.Sprintf("execution %d of %d: %s", i+1, n, clip(v.Msg, 3000))})
				t.Logf("replay fails (execution %d): %s", i+1, v.Sig)
				return
			}
			if first == nil {
				first = &v
			}
		}
		if first != nil && d.Signature == "" {
			break
		}
	}
	if first != nil {
		ev.WriteReplayResult(ev.ReplayResult{File: f, Outcome: "fail", Signature: first.Sig, Message: clip(first.Msg, 3000)})
		t.Logf("replay fails with another signature: %s", first.Sig)
		return
	}
	ev.WriteReplayResult(ev.ReplayResult{File: f, Outcome: "pass", Message: fmt.Sprintf("%d executions without a violation", n)})
}

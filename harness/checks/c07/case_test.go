// C07 — the case value (configuration, goroutine scripts, yield plan) and its
// rapid generator. A case is data: it is hashed, sampled, shipped to the child
// process as JSON and saved as the replay file.
package c07

import (
	"sort"

	"pgregory.net/rapid"

	"verif/internal/drive"
	"verif/internal/ev"
	"verif/internal/gen"
)

// Cfg is the engine configuration of a case (written as the manifest before
// the engine is opened).
type Cfg struct {
	MemTableSize       int64 `json:"memtable_size"`
	MaxMemTables       int   `json:"max_memtables"`
	SyncMode           int   `json:"sync_mode"`
	SyncBytes          int64 `json:"sync_bytes"`
	CompactionInterval int64 `json:"compaction_interval"`
}

// TxOp is one call inside a transaction body or one entry of a batch.
type TxOp struct {
	Op   string     `json:"op"` // get put del iter riter
	K    int        `json:"k,omitempty"`
	V    *drive.Val `json:"v,omitempty"`
	A    int        `json:"a,omitempty"`    // riter bounds: key index, -1 = nil
	B    int        `json:"b,omitempty"`    //
	Seek int        `json:"seek,omitempty"` // iter/riter: -1 = SeekToFirst, else Seek(key)
	N    int        `json:"n,omitempty"`    // iter/riter: at most N Next calls
}

// Step is one script step = one API call (or one whole transaction / scan).
type Step struct {
	Op     string     `json:"op"`
	K      int        `json:"k,omitempty"`
	V      *drive.Val `json:"v,omitempty"`
	A      int        `json:"a,omitempty"`
	B      int        `json:"b,omitempty"`
	Seek   int        `json:"seek,omitempty"`
	N      int        `json:"n,omitempty"`
	Body   []TxOp     `json:"body,omitempty"`
	RO     bool       `json:"ro,omitempty"`
	Commit bool       `json:"commit,omitempty"`
	Us     int        `json:"us,omitempty"` // pause: think time in microseconds
	// Shared (tx / rtx steps): a second goroutine works on the SAME transaction
	// object while the body runs (the gRPC service does that when a client
	// pipelines requests for one transaction id): it executes the body's
	// operations in reverse order, scans included; both are joined before the
	// transaction is finished
	Shared bool `json:"shared,omitempty"`
}

// Script is what one goroutine executes (round after round, see Case.MinRunMs).
type Script struct {
	Role  string `json:"role"`
	Steps []Step `json:"steps"`
}

// Yield is one entry of the perturbation plan: at every Every-th hit of a hook
// site whose name starts with Site, yield (Gosched x Amount) or sleep (Amount
// microseconds).
type Yield struct {
	Site   string `json:"site"`
	Every  int    `json:"every"`
	Kind   string `json:"kind"` // gosched | sleep
	Amount int    `json:"amount"`
}

// Case is one complete generated input.
type Case struct {
	Cfg     Cfg      `json:"cfg"`
	Keys    [][]byte `json:"keys"`
	Scripts []Script `json:"scripts"`
	Yields  []Yield  `json:"yields"`
	// Every goroutine repeats its script until MinRunMs of wall clock have
	// passed (at least one round, at most MaxRounds). The number of rounds
	// depends on the machine; the oracle does not.
	MinRunMs     int `json:"min_run_ms"`
	MaxRounds    int `json:"max_rounds"`
	RoundPauseUs int `json:"round_pause_us"`
	// Aux: component-level extras next to the engine (see child_test.go):
	// a shared sstable.Reader that is read with Reader.Get (the only user of
	// sstable.BlockCache) and a second compaction coordinator whose public
	// file-tracker entry points are called.
	Aux bool `json:"aux"`
	// CloseBusy: Close is called right after the last caller returned, while
	// the background flush goroutine may still be working. false = the child
	// first waits until the flush goroutine is idle.
	CloseBusy bool `json:"close_busy"`
}

// Operation names. Facade ops, then compaction-manager ops, then aux ops.
const (
	opPut, opGet, opDel, opIsDel, opBatch = "put", "get", "del", "isdel", "batch"
	opIter, opRIter, opTx                 = "iter", "riter", "tx"
	opFlush, opCompact, opCRange          = "flush", "compact", "crange"
	opStats, opCStats                     = "stats", "cstats"
	opTomb, opPreserve                    = "tomb", "preserve"
	opPause                               = "pause"
	opSstGet, opFtMark, opFtClean         = "sstget", "ftmark", "ftclean"
	opFtQuery, opAuxCompact               = "ftquery", "auxcompact"
	// replication-facing entry points of the facade
	opGetWAL, opROToggle, opIsRO = "getwal", "rotoggle", "isro"
	// transactions through the registry the gRPC service uses
	opRTx, opRClean, opRConn = "rtx", "rclean", "rconn"
)

var roles = map[string]map[string]int{
	"writer":  {opPut: 12, opDel: 6, opBatch: 4, opGet: 2, opTx: 1},
	"deleter": {opDel: 12, opPut: 3, opBatch: 3, opIsDel: 3, opTomb: 1, opPreserve: 1},
	"reader":  {opGet: 8, opIsDel: 3, opIter: 4, opRIter: 4, opStats: 1, opTx: 2},
	"scanner": {opIter: 8, opRIter: 8, opGet: 2},
	"txer":    {opTx: 10, opRTx: 5, opRClean: 1, opRConn: 1, opGet: 2, opPut: 2},
	"repl":    {opGetWAL: 8, opROToggle: 1, opIsRO: 3, opStats: 2, opPause: 3, opPut: 2},
	"maint":   {opFlush: 6, opCompact: 4, opCRange: 4, opStats: 3, opCStats: 3, opPause: 4, opPut: 3},
	"stats":   {opStats: 8, opCStats: 8, opGet: 2, opPause: 2},
	"mixed": {opPut: 6, opGet: 4, opDel: 3, opIsDel: 1, opBatch: 2, opIter: 2, opRIter: 2, opTx: 3,
		opFlush: 2, opCompact: 1, opCRange: 1, opStats: 1, opCStats: 1, opTomb: 1, opPreserve: 1,
		opRTx: 1, opRClean: 1, opGetWAL: 1, opIsRO: 1},
	"aux": {opSstGet: 14, opFtMark: 4, opFtClean: 3, opFtQuery: 2, opAuxCompact: 1, opPut: 2},
}

// opFlags maps an operation to the generator feature flag that switches it
// off (ev.Flag, default on). An operation that is switched off is redirected
// to a replacement so the rest of the search continues.
var opFlags = map[string]string{
	// RegistryImpl.CleanupStaleTransactions reads TransactionImpl.lastActiveTime without the transaction's lock
	opRClean: "registry_cleanup_stale",
}

func weighted(t *rapid.T, w map[string]int, label string) string {
	names := make([]string, 0, len(w))
	for k := range w {
		names = append(names, k)
	}
	sort.Strings(names)
	var bag []string
	for _, k := range names {
		for i := 0; i < w[k]; i++ {
			bag = append(bag, k)
		}
	}
	return rapid.SampledFrom(bag).Draw(t, label)
}

func genVal(t *rapid.T, tag uint32) *drive.Val {
	switch rapid.SampledFrom([]string{"s", "s", "s", "s", "s", "m", "m", "e", "big"}).Draw(t, "vclass") {
	case "e":
		return &drive.Val{Len: 0, Tag: tag}
	case "m":
		return &drive.Val{Len: rapid.IntRange(100, 1500).Draw(t, "vlen"), Tag: tag}
	case "big":
		// crosses the 32 KiB WAL record limit / 16 KiB block target now and then
		return &drive.Val{Len: rapid.IntRange(8*1024, 40*1024).Draw(t, "vlen"), Tag: tag}
	}
	return &drive.Val{Len: rapid.IntRange(1, 64).Draw(t, "vlen"), Tag: tag}
}

func genCfg(t *rapid.T) Cfg {
	return Cfg{
		MemTableSize:       rapid.SampledFrom([]int64{256, 256, 512, 1024, 1024, 4096, 4096, 64 * 1024}).Draw(t, "memtable"),
		MaxMemTables:       rapid.SampledFrom([]int{1, 2, 2, 4, 8}).Draw(t, "maxmem"),
		SyncMode:           rapid.IntRange(0, 2).Draw(t, "sync"),
		SyncBytes:          rapid.SampledFrom([]int64{1, 4096, 1 << 20}).Draw(t, "syncbytes"),
		CompactionInterval: rapid.SampledFrom([]int64{1, 1, 1, 1, 1, 3600}).Draw(t, "cinterval"),
	}
}

var yieldSites = []string{
	"storage.put.after_wal", "storage.put.after_mem", "storage.delete.after_wal", "storage.batch.",
	"storage.scheduleflush", "storage.rotate.", "storage.flush.", "storage.flushmem.",
	"compaction.cycle.", "compaction.files.", "compaction.cleanup.", "compaction.range.", "compaction.delete.",
	"tx.begin.", "tx.commit.", "wal.append.", "wal.batch.", "wal.sync.", "wal.close.", "sstable.finish.", "sstable.flushblock.",
}

func genYields(t *rapid.T) []Yield {
	n := rapid.IntRange(0, 5).Draw(t, "nyield")
	var out []Yield
	for i := 0; i < n; i++ {
		y := Yield{
			Site:  rapid.SampledFrom(yieldSites).Draw(t, "ysite"),
			Every: rapid.IntRange(1, 6).Draw(t, "yevery"),
			Kind:  rapid.SampledFrom([]string{"gosched", "gosched", "sleep"}).Draw(t, "ykind"),
		}
		if y.Kind == "gosched" {
			y.Amount = rapid.IntRange(1, 5).Draw(t, "yamount")
		} else {
			y.Amount = rapid.SampledFrom([]int{10, 50, 200, 1000}).Draw(t, "yamount")
		}
		out = append(out, y)
	}
	return out
}

type genState struct {
	nk  int
	tag uint32
}

func (g *genState) key(t *rapid.T) int { return rapid.IntRange(0, g.nk-1).Draw(t, "k") }
func (g *genState) bound(t *rapid.T) int {
	return rapid.IntRange(-1, g.nk-1).Draw(t, "bound")
}
func (g *genState) val(t *rapid.T) *drive.Val { g.tag++; return genVal(t, g.tag) }

func (g *genState) scanArgs(t *rapid.T) (seek, n int) {
	seek = -1
	if rapid.IntRange(0, 2).Draw(t, "seekkind") == 0 {
		seek = g.key(t)
	}
	n = rapid.SampledFrom([]int{0, 1, 3, 10, 1000}).Draw(t, "nnext")
	return
}

// redirect applies the generator feature flags (known findings).
func redirect(op string) string {
	for {
		f, ok := opFlags[op]
		if !ok || ev.Flag(f) {
			return op
		}
		ev.R().Exclude(f)
		switch op {
		case opGet:
			return opPause
		default:
			op = opGet
		}
	}
}

func (g *genState) step(t *rapid.T, role string) Step {
	op := redirect(weighted(t, roles[role], "op"))
	switch op {
	case opPut:
		return Step{Op: op, K: g.key(t), V: g.val(t)}
	case opGet, opDel, opIsDel, opTomb, opPreserve:
		return Step{Op: op, K: g.key(t)}
	case opBatch:
		m := rapid.IntRange(1, 6).Draw(t, "nbatch")
		var body []TxOp
		used := map[int]bool{}
		for j := 0; j < m; j++ {
			k := g.key(t)
			if used[k] {
				continue
			}
			used[k] = true
			if rapid.IntRange(0, 2).Draw(t, "bdel") == 0 {
				body = append(body, TxOp{Op: "del", K: k})
			} else {
				body = append(body, TxOp{Op: "put", K: k, V: g.val(t)})
			}
		}
		return Step{Op: op, Body: body}
	case opIter:
		s, n := g.scanArgs(t)
		return Step{Op: op, Seek: s, N: n}
	case opRIter:
		s, n := g.scanArgs(t)
		return Step{Op: op, A: g.bound(t), B: g.bound(t), Seek: s, N: n}
	case opRConn:
		return Step{Op: op, K: rapid.IntRange(0, 11).Draw(t, "peer")}
	case opTx, opRTx:
		ro := rapid.IntRange(0, 2).Draw(t, "ro") == 0
		m := rapid.IntRange(0, 6).Draw(t, "ntx")
		var body []TxOp
		for j := 0; j < m; j++ {
			kinds := []string{"get", "get", "iter", "riter"}
			if !ro {
				kinds = append(kinds, "put", "put", "put", "del", "del")
			} else if rapid.IntRange(0, 9).Draw(t, "rowrite") == 0 {
				kinds = append(kinds, "put") // a write inside a read-only tx must fail cleanly
			}
			switch k := rapid.SampledFrom(kinds).Draw(t, "txop"); k {
			case "get", "del":
				body = append(body, TxOp{Op: k, K: g.key(t)})
			case "put":
				body = append(body, TxOp{Op: k, K: g.key(t), V: g.val(t)})
			case "iter":
				s, n := g.scanArgs(t)
				body = append(body, TxOp{Op: k, Seek: s, N: n})
			case "riter":
				s, n := g.scanArgs(t)
				body = append(body, TxOp{Op: k, A: g.bound(t), B: g.bound(t), Seek: s, N: n})
			}
		}
		return Step{Op: op, RO: ro, Body: body, Commit: rapid.IntRange(0, 3).Draw(t, "commit") != 0,
			Shared: rapid.IntRange(0, 3).Draw(t, "sharedtx") == 0}
	case opCRange:
		return Step{Op: op, A: g.bound(t), B: g.bound(t)}
	case opPause:
		return Step{Op: op, Us: rapid.SampledFrom([]int{10, 100, 1000, 5000, 20000}).Draw(t, "us")}
	case opSstGet:
		return Step{Op: op, K: rapid.IntRange(0, auxKeys-1).Draw(t, "auxk"), A: rapid.IntRange(0, auxReaders-1).Draw(t, "auxr")}
	case opFtMark, opFtQuery:
		return Step{Op: op, K: rapid.IntRange(0, 15).Draw(t, "ftk")}
	}
	return Step{Op: op} // flush compact stats cstats ftclean auxcompact
}

// genCase draws a complete case.
func genCase(t *rapid.T) Case {
	c := Case{Cfg: genCfg(t), Keys: gen.Keys(t, 4, 12)}
	g := &genState{nk: len(c.Keys)}
	c.Aux = rapid.IntRange(0, 3).Draw(t, "aux") == 0
	ng := rapid.IntRange(2, 12).Draw(t, "ngoroutines")
	mixes := [][]string{
		{"writer", "writer", "deleter", "reader", "scanner", "txer", "maint", "stats", "mixed", "mixed"},
		{"writer", "deleter", "mixed"},
		{"mixed"},
		{"writer", "deleter", "maint", "maint"},
		{"txer", "writer", "scanner", "maint"},
		{"stats", "writer", "maint", "deleter"},
		{"repl", "writer", "writer", "deleter", "maint", "txer"},
	}
	mix := rapid.SampledFrom(mixes).Draw(t, "mix")
	if c.Aux {
		mix = append(append([]string{}, mix...), "aux", "aux", "aux")
	}
	for i := 0; i < ng; i++ {
		role := rapid.SampledFrom(mix).Draw(t, "role")
		n := rapid.IntRange(3, 40).Draw(t, "nsteps")
		s := Script{Role: role}
		for j := 0; j < n; j++ {
			s.Steps = append(s.Steps, g.step(t, role))
		}
		c.Scripts = append(c.Scripts, s)
	}
	c.Yields = genYields(t)
	c.MinRunMs = rapid.SampledFrom([]int{0, 0, 300, 600, 1100, 1100, 1300, 1500}).Draw(t, "minrun")
	c.MaxRounds = rapid.SampledFrom([]int{1, 20, 1000, 1000, 1000}).Draw(t, "maxrounds")
	c.RoundPauseUs = rapid.SampledFrom([]int{0, 200, 1000, 5000, 20000}).Draw(t, "roundpause")
	c.CloseBusy = rapid.IntRange(0, 3).Draw(t, "closebusy") != 0
	if c.CloseBusy && !ev.Flag("close_while_flushing") {
		ev.R().Exclude("close_while_flushing")
		c.CloseBusy = false
	}
	return c
}

// ---- classification ---------------------------------------------------------

func isWriteStep(s Step) bool {
	switch s.Op {
	case opPut, opDel:
		return true
	case opBatch:
		return len(s.Body) > 0
	case opTx, opRTx:
		if s.RO || !s.Commit {
			return false
		}
		for _, o := range s.Body {
			if o.Op == "put" || o.Op == "del" {
				return true
			}
		}
	}
	return false
}

type shape struct {
	writers, deleters, scanners, txers, maint, statsG int
	ops                                               map[string]int
}

func shapeOf(c *Case) shape {
	sh := shape{ops: map[string]int{}}
	for _, s := range c.Scripts {
		var w, d, sc, tx, m, st bool
		for _, x := range s.Steps {
			sh.ops[x.Op]++
			if isWriteStep(x) {
				w = true
			}
			switch x.Op {
			case opDel:
				d = true
			case opBatch:
				for _, o := range x.Body {
					if o.Op == "del" {
						d = true
					}
				}
			case opIter, opRIter:
				sc = true
			case opTx, opRTx:
				tx = true
			case opFlush, opCompact, opCRange:
				m = true
			case opStats, opCStats:
				st = true
			}
		}
		for _, p := range []struct {
			b bool
			n *int
		}{{w, &sh.writers}, {d, &sh.deleters}, {sc, &sh.scanners}, {tx, &sh.txers}, {m, &sh.maint}, {st, &sh.statsG}} {
			if p.b {
				*p.n++
			}
		}
	}
	return sh
}

package c20

import (
	"bytes"
	"fmt"
	"os"
	"path/filepath"
	"strconv"
	"strings"
	"time"

	"pgregory.net/rapid"

	"github.com/KevoDB/kevo/pkg/config"
	"github.com/KevoDB/kevo/pkg/engine"
	"github.com/KevoDB/kevo/pkg/engine/storage"

	"verif/internal/ev"
)

// ---------------------------------------------------------------------------
// generator: sane, table-valid, non-default configurations the engine can run
// with inside a test (small memtable, no background compaction during the
// case, no age-triggered switch), directories inside the scratch root.

var dirNames = []string{"logs", "w a l", "журнал", "wal-ü", "deep/er/dir", "sst2", "tables x", "表", "W"}

func pickS(t *rapid.T, label string, vals ...string) string {
	return rapid.SampledFrom(vals).Draw(t, label)
}

func genEngineSets(t *rapid.T) []Set {
	var sets []Set
	add := func(field, val string) {
		if _, ok := fieldByName(field); ok {
			sets = append(sets, Set{Field: field, Val: val})
		}
	}
	add("MemTableSize", pickS(t, "mts", "512", "1024", "2048", "4096", "8192", "16384"))
	add("MaxMemTables", pickS(t, "mmt", "1", "2", "3", "5", "8"))
	add("MaxMemTableAge", pickS(t, "age", "3600", "7200"))
	add("MemTablePoolCap", strconv.Itoa(rapid.IntRange(1, 8).Draw(t, "cap")))
	add("WALSyncMode", strconv.Itoa(rapid.IntRange(0, 2).Draw(t, "sync")))
	add("WALSyncBytes", pickS(t, "sb", "1", "512", "4096", "1048576"))
	add("WALMaxSize", pickS(t, "wms", "0", "67108864"))
	add("SSTableBlockSize", pickS(t, "bs", "1024", "4096", "65536"))
	add("SSTableIndexSize", pickS(t, "is", "1024", "65536"))
	add("SSTableMaxSize", pickS(t, "ms", "1048576", "67108864"))
	add("SSTableRestartSize", pickS(t, "rs", "1", "8", "32"))
	add("CompactionLevels", pickS(t, "cl", "3", "5", "9"))
	add("CompactionRatio", pickS(t, "cr", "2", "4.5", "1.0000000000000002", "10"))
	add("CompactionThreads", pickS(t, "ct", "1", "4"))
	add("CompactionInterval", pickS(t, "ci", "600", "3600"))
	add("MaxLevelWithTombstones", pickS(t, "mlt", "0", "2"))
	add("ReadOnlyTxTTL", strconv.Itoa(rapid.IntRange(1, 1000).Draw(t, "rottl")))
	add("ReadWriteTxTTL", strconv.Itoa(rapid.IntRange(1, 1000).Draw(t, "rwttl")))
	add("IdleTxTimeout", strconv.Itoa(rapid.IntRange(1, 1000).Draw(t, "idle")))
	add("TxCleanupInterval", strconv.Itoa(rapid.IntRange(1, 1000).Draw(t, "tci")))
	w := rapid.IntRange(1, 97).Draw(t, "warn")
	add("TxWarningThreshold", strconv.Itoa(w))
	add("TxCriticalThreshold", strconv.Itoa(rapid.IntRange(w+1, 99).Draw(t, "crit")))
	// directories: default, inside the database directory, or beside it
	idx := []int{-1} // -1 = keep the default directory
	for i := range dirNames {
		idx = append(idx, i, i)
	}
	wi := rapid.SampledFrom(idx).Draw(t, "waldir")
	si := rapid.SampledFrom(idx).Draw(t, "sstdir")
	if si == wi && si >= 0 {
		si = (si + 1) % len(dirNames)
	}
	loc := func(label string) string { return pickS(t, label, "$ROOT/db/", "$ROOT/db/", "$ROOT/") }
	if wi >= 0 {
		add("WALDir", loc("walloc")+dirNames[wi])
	}
	if si >= 0 {
		add("SSTDir", loc("sstloc")+dirNames[si])
	}
	return sets
}

func engineDirClasses(sets []Set) []string {
	var out []string
	for _, s := range sets {
		if s.Field == "WALDir" {
			out = append(out, "engine:custom_waldir")
		}
		if s.Field == "SSTDir" {
			out = append(out, "engine:custom_sstdir")
		}
	}
	return out
}

func genEngine(t *rapid.T) Case {
	c := Case{Kind: "engine", Sets: genEngineSets(t), Engine: &Engine{}}
	e := c.Engine
	e.ValLen = rapid.SampledFrom([]int{64, 200, 1000}).Draw(t, "vallen")
	if rapid.IntRange(0, 4).Draw(t, "ecreated") == 0 {
		e.Mode = "created"
		e.PathForm = rapid.SampledFrom([]string{"absolute", "relative", "relative", "dot_relative", "unclean"}).Draw(t, "pathform")
		e.PreFlush = rapid.Bool().Draw(t, "cpreflush")
		e.Reopens = rapid.IntRange(1, 2).Draw(t, "creopens")
		c.Sets = nil
		return c
	}
	if rapid.Bool().Draw(t, "evalid") {
		e.Mode = "valid"
		e.Reopens = rapid.IntRange(1, 2).Draw(t, "reopens")
		return c
	}
	e.Mode = "invalid"
	e.PreFlush = rapid.Bool().Draw(t, "preflush")
	e.AllTrunc = rapid.IntRange(0, 2).Draw(t, "alltrunc") == 0
	cur := finalCfg(c.Sets)
	n := rapid.IntRange(1, 5).Draw(t, "ndamage")
	if e.AllTrunc {
		n = rapid.IntRange(0, 2).Draw(t, "ndamage2")
	}
	for i := 0; i < n; i++ {
		if rapid.IntRange(0, 2).Draw(t, "dkind") == 0 {
			// a cut: from the front (absolute) or from the end (negative)
			e.Damage = append(e.Damage, Mut{Op: "trunc", N: rapid.SampledFrom([]int{0, 1, 2, 10, 100, 300, 500, -1, -2, -3, -10, -50}).Draw(t, "cut")})
			continue
		}
		e.Damage = append(e.Damage, genMut(t, cur))
	}
	return c
}

// ---------------------------------------------------------------------------
// helpers

func engCfgValue(cfg *config.Config) (walDir, sstDir string, memSize int64) {
	return cfg.WALDir, cfg.SSTDir, cfg.MemTableSize
}

func within(dir, p string) bool {
	rel, err := filepath.Rel(dir, p)
	return err == nil && rel != ".." && !strings.HasPrefix(rel, ".."+string(filepath.Separator))
}

// strayFile returns a regular file under root that is neither MANIFEST nor
// inside the configured WAL / SST directory.
func strayFile(root, db, walDir, sstDir string) string {
	for rel, e := range snapshot(root) {
		if e.Dir {
			continue
		}
		p := filepath.Join(root, rel)
		if p == filepath.Join(db, manifestName) || within(walDir, p) || within(sstDir, p) {
			continue
		}
		return rel
	}
	return ""
}

func countFiles(dir, suffix string) int {
	n := 0
	ents, _ := os.ReadDir(dir)
	for _, e := range ents {
		if !e.IsDir() && strings.HasSuffix(e.Name(), suffix) {
			n++
		}
	}
	return n
}

func immutables(e *engine.EngineFacade) int {
	if sm, ok := e.VerifStorage().(*storage.Manager); ok {
		return sm.VerifImmutableCount()
	}
	return 0
}

func manifestIs(db string, want []byte) (bool, string) {
	b, err := os.ReadFile(filepath.Join(db, manifestName))
	if err != nil {
		return false, "unreadable: " + err.Error()
	}
	if !bytes.Equal(b, want) {
		return false, fmt.Sprintf("%d bytes %s, stored were %d bytes %s", len(b), clip(b), len(want), clip(want))
	}
	return true, ""
}

// fill writes entries of valLen bytes until the raw payload is at least
// 2*memSize (so any size accounting that counts at least the payload bytes
// has crossed the configured size). It returns the number of writes.
func fill(e *engine.EngineFacade, prefix string, valLen int, memSize int64) (int, error) {
	if min := int(memSize / 64); valLen < min {
		valLen = min // bounds the number of writes by ~130
	}
	val := bytes.Repeat([]byte{'v'}, valLen)
	total, n := int64(0), 0
	for total < 2*memSize+int64(valLen) {
		key := []byte(fmt.Sprintf("%s%05d", prefix, n))
		if err := e.Put(key, val); err != nil {
			return n, err
		}
		settle(e)
		total += int64(len(key) + len(val))
		n++
	}
	return n, nil
}

// settle waits until no immutable memtable is waiting and no flush is in
// progress (VerifImmutableCount takes the flush mutex). It is called after
// EVERY write, so a memtable switch is always flushed before the next write:
// the flush signal channel is then empty and the background goroutine idle
// whenever settle returns — in particular before Close. (Without this a
// left-over signal makes the goroutine of an already closed engine write one
// more table file, which would be blamed on whatever the case does next.)
// Every switch sends a signal, so the wait always ends; the cap only turns a
// hang into an infrastructure error instead of a verdict.
func settle(e *engine.EngineFacade) {
	start := time.Now()
	for immutables(e) != 0 {
		if time.Since(start) > 120*time.Second {
			panic("c20: background flush did not finish within 120 s (infrastructure)")
		}
		time.Sleep(100 * time.Microsecond)
	}
}

func closeQuiet(e *engine.EngineFacade) {
	settle(e)
	_ = e.Close()
}

// ---------------------------------------------------------------------------
// engine on a valid stored configuration

func runEngineValid(c *Case) *Fail {
	root, err := os.MkdirTemp("", "c20e-")
	must(err)
	defer os.RemoveAll(root)
	db := filepath.Join(root, "db")
	cfg, ref, fl := saveReference(c, root, db)
	if fl != nil {
		return fl
	}
	walDir, sstDir, memSize := engCfgValue(cfg)
	if memSize < 256 || memSize > 1<<20 {
		panic("engine cases need 256 <= MemTableSize <= 1MiB")
	}
	checkManifest := func(when string) *Fail {
		if ok, desc := manifestIs(db, ref); !ok {
			return failf("engine/manifest-changed/"+when, "manifest bytes differ %s: %s", when, desc)
		}
		return nil
	}
	checkPlaces := func(when string) *Fail {
		if rel := strayFile(root, db, walDir, sstDir); rel != "" {
			return failf("engine/file-outside-configured-dirs/"+when,
				"%s: file %q is neither MANIFEST nor inside the stored WALDir %q / SSTDir %q", when, rel, walDir, sstDir)
		}
		return nil
	}

	e, err := engine.NewEngineFacade(db)
	if err != nil {
		return failf("engine/open-fails-valid-manifest/initial", "NewEngineFacade over a valid stored configuration: %v", err)
	}
	open := true
	defer func() {
		if open {
			closeQuiet(e)
		}
	}()
	if f := checkManifest("after-open"); f != nil {
		return f
	}
	if countFiles(walDir, "") == 0 {
		return failf("engine/no-log-in-configured-waldir", "after open the stored WALDir %q holds no file", walDir)
	}
	if f := checkPlaces("after-open"); f != nil {
		return f
	}
	// one small entry: raw payload <= MemTableSize/8 -> no switch yet
	small := bytes.Repeat([]byte{'s'}, int(memSize/8)-2)
	if err := e.Put([]byte("a0"), small); err != nil {
		return failf("engine/write-error", "Put: %v", err)
	}
	if n := immutables(e) + countFiles(sstDir, ".sst"); n != 0 {
		return failf("engine/memtable-switched-below-configured-size",
			"one entry of %d payload bytes with stored MemTableSize %d: %d immutable tables / table files exist", len(small)+2, memSize, n)
	}
	// at least twice the configured size -> at least one switch
	writes, err := fill(e, "k", c.Engine.ValLen, memSize)
	if err != nil {
		return failf("engine/write-error", "Put: %v", err)
	}
	if f := checkPlaces("after-writes"); f != nil {
		return f
	}
	if n := countFiles(sstDir, ".sst"); n == 0 {
		return failf("engine/no-switch-at-configured-size",
			"%d writes (> 2 x stored MemTableSize %d bytes of payload), background flush idle: no table file in the stored SSTDir %q",
			writes, memSize, sstDir)
	}
	if f := checkManifest("after-writes"); f != nil {
		return f
	}
	for r := 0; r < c.Engine.Reopens; r++ {
		closeQuiet(e)
		open = false
		if f := checkManifest("after-close"); f != nil {
			return f
		}
		e, err = engine.NewEngineFacade(db)
		if err != nil {
			return failf("engine/open-fails-valid-manifest/reopen", "reopen over the unchanged manifest: %v", err)
		}
		open = true
		if f := checkManifest("after-reopen"); f != nil {
			return f
		}
		before := countFiles(sstDir, ".sst")
		if err := e.Put([]byte(fmt.Sprintf("r%d", r)), []byte("after reopen")); err != nil {
			return failf("engine/write-error", "Put after reopen: %v", err)
		}
		if err := e.FlushImMemTables(); err != nil {
			ev.R().Count("explicit_flush_errors", 1)
		} else {
			settle(e)
			if after := countFiles(sstDir, ".sst"); after <= before {
				return failf("engine/reopen-no-table-in-configured-sstdir",
					"after reopen, a write and a flush the stored SSTDir %q still holds %d .sst files", sstDir, after)
			}
		}
		if f := checkPlaces("after-reopen"); f != nil {
			return f
		}
	}
	closeQuiet(e)
	open = false
	return checkManifest("after-final-close")
}

// ---------------------------------------------------------------------------
// engine on a damaged stored configuration over existing data

func runEngineInvalid(c *Case) *Fail {
	root, err := os.MkdirTemp("", "c20x-")
	must(err)
	defer os.RemoveAll(root)
	db := filepath.Join(root, "db")
	cfg, ref, fl := saveReference(c, root, db)
	if fl != nil {
		return fl
	}
	_, _, memSize := engCfgValue(cfg)
	if memSize < 256 || memSize > 1<<20 {
		panic("engine cases need 256 <= MemTableSize <= 1MiB")
	}
	e, err := engine.NewEngineFacade(db)
	if err != nil {
		return failf("engine/open-fails-valid-manifest/initial", "NewEngineFacade over a valid stored configuration: %v", err)
	}
	if c.Engine.PreFlush {
		// enough for at least one memtable switch: table files exist
		if _, err := fill(e, "k", c.Engine.ValLen, memSize); err != nil {
			closeQuiet(e)
			return failf("engine/write-error", "Put: %v", err)
		}
	} else {
		// one small entry: the data lives in the log only
		if err := e.Put([]byte("a0"), bytes.Repeat([]byte{'s'}, int(memSize/8)-2)); err != nil {
			closeQuiet(e)
			return failf("engine/write-error", "Put: %v", err)
		}
	}
	closeQuiet(e)

	try := func(x *expectation, label string) *Fail {
		putManifest(db, x)
		before := snapshot(root)
		e, err := engine.NewEngineFacade(db)
		if err == nil {
			_ = e.Close()
			return failf("engine/open-succeeds-on-damaged-manifest/"+label,
				"directory with data, %s: NewEngineFacade returned no error; manifest %s", x.why, clip(x.bytes))
		}
		if kind, desc := diffSnap(before, snapshot(root), nil); kind != "" {
			what := kind
			if strings.Contains(desc, `"`+filepath.Join("db", manifestName)+`"`) {
				what = "manifest-" + kind
			}
			return failf("engine/failed-open-changed-directory/"+what,
				"NewEngineFacade failed (%v) but the directory changed: %s", err, desc)
		}
		return nil
	}
	cut := func(n int) *expectation {
		return &expectation{mustFail: true, bytes: ref[:n], why: fmt.Sprintf("manifest cut to %d of %d bytes", n, len(ref))}
	}
	tried := 0
	if c.Engine.AllTrunc {
		for n := 0; n < len(ref); n++ {
			if f := try(cut(n), "truncated"); f != nil {
				return f
			}
		}
		tried += len(ref)
		ev.R().Count("engine_manifests_fully_truncated", 1)
	}
	for _, m := range c.Engine.Damage {
		if m.Op == "trunc" {
			n := m.N
			if n < 0 {
				n += len(ref)
			}
			if n < 0 {
				n = 0
			}
			if n > len(ref)-1 {
				n = len(ref) - 1
			}
			if f := try(cut(n), "truncated"); f != nil {
				return f
			}
			tried++
			continue
		}
		x := mutate(ref, cfg, []Mut{m})
		if !x.mustFail {
			ev.R().Count("engine_damage_not_invalid_skipped", 1)
			continue
		}
		if f := try(&x, x.tag); f != nil {
			return f
		}
		tried++
	}
	ev.R().Count("engine_damaged_opens", tried)
	return nil
}

// runEngineCreated: a database CREATED by the engine (no manifest stored
// beforehand) through a path of the drawn form - absolute, relative to the
// working directory ("reldb", "./reldb", "sub/../reldb") - is reopened through
// the same path with what it was created with: the data written in the first
// session is there, the manifest bytes are unchanged, and no file appears
// outside <db>/MANIFEST, <db>/wal, <db>/sst.
func runEngineCreated(c *Case) *Fail {
	root, err := os.MkdirTemp("", "c20r-")
	must(err)
	defer os.RemoveAll(root)
	form := c.Engine.PathForm
	dbPath := filepath.Join(root, "reldb")
	if form != "absolute" {
		old, err := os.Getwd()
		must(err)
		must(os.Chdir(root))
		defer func() { _ = os.Chdir(old) }()
		switch form {
		case "relative":
			dbPath = "reldb"
		case "dot_relative":
			dbPath = "./reldb"
		default: // unclean
			must(os.Mkdir(filepath.Join(root, "sub"), 0o755))
			dbPath = "sub/../reldb"
		}
	}
	abs := filepath.Join(root, "reldb")
	e, err := engine.NewEngineFacade(dbPath)
	if err != nil {
		return failf("engine/create-fails/"+form, "NewEngineFacade(%q) on a fresh path: %v", dbPath, err)
	}
	n := 3 + c.Engine.ValLen%5
	for i := 0; i < n; i++ {
		if err := e.Put([]byte(fmt.Sprintf("k%02d", i)), bytes.Repeat([]byte{byte('a' + i)}, c.Engine.ValLen)); err != nil {
			closeQuiet(e)
			return failf("engine/write-error", "Put: %v", err)
		}
	}
	if c.Engine.PreFlush {
		_ = e.FlushImMemTables()
	}
	closeQuiet(e)
	ref, rerr := os.ReadFile(filepath.Join(abs, manifestName))
	if rerr != nil {
		return failf("engine/no-manifest-after-create/"+form, "after create+close: %v", rerr)
	}
	listing := func() string {
		var bad []string
		_ = filepath.Walk(root, func(p string, info os.FileInfo, err error) error {
			if err != nil || info.IsDir() {
				return nil
			}
			rel, _ := filepath.Rel(abs, p)
			if rel == manifestName || strings.HasPrefix(rel, "wal"+string(filepath.Separator)) || strings.HasPrefix(rel, "sst"+string(filepath.Separator)) {
				return nil
			}
			bad = append(bad, rel)
			return nil
		})
		return strings.Join(bad, ", ")
	}
	if bad := listing(); bad != "" {
		return failf("engine/file-outside-database-dirs/created/"+form, "after create+close files outside MANIFEST, wal/, sst/ of %q: %s", dbPath, bad)
	}
	for round := 0; round < max(c.Engine.Reopens, 1); round++ {
		e, err = engine.NewEngineFacade(dbPath)
		if err != nil {
			return failf("engine/reopen-fails/"+form, "reopen %d of a database created through %q: %v", round, dbPath, err)
		}
		for i := 0; i < n; i++ {
			v, gerr := e.Get([]byte(fmt.Sprintf("k%02d", i)))
			if gerr != nil || len(v) != c.Engine.ValLen {
				closeQuiet(e)
				return failf("engine/reopened-with-other-configuration/"+form,
					"database created through %q, reopen %d: key k%02d written in the first session reads %d bytes, err=%v (the engine did not come back on the directories it was created with)", dbPath, round, i, len(v), gerr)
			}
		}
		closeQuiet(e)
		if now, _ := os.ReadFile(filepath.Join(abs, manifestName)); !bytes.Equal(now, ref) {
			return failf("engine/manifest-changed/created/"+form, "manifest bytes differ after reopen %d", round)
		}
		if bad := listing(); bad != "" {
			return failf("engine/file-outside-database-dirs/reopened/"+form, "after reopen %d files outside MANIFEST, wal/, sst/ of %q: %s", round, dbPath, bad)
		}
	}
	return nil
}

// C20, concurrent variant: config.Config carries a mutex and an Update method,
// so SaveManifest may run while another goroutine changes the configuration.
// Whatever the interleaving: a SaveManifest that reports success has stored a
// configuration that loads back and passes validation ("a configuration
// violating a documented constraint is rejected before anything is written"),
// a SaveManifest that fails has left the stored manifest as it was, and both
// calls return (no hang).
package c20

import (
	"bytes"
	"fmt"
	"os"
	"runtime"
	"strings"
	"sync"
	"sync/atomic"
	"time"

	"testing"

	"pgregory.net/rapid"

	"github.com/KevoDB/kevo/pkg/config"

	"verif/internal/ev"
)

// Conc describes the concurrent sub-check.
type Conc struct {
	Field    string `json:"field"`   // constrained field the updaters toggle
	Valid    string `json:"valid"`   // a value the table accepts
	Invalid  string `json:"invalid"` // a value the table rejects
	Updaters int    `json:"updaters"`
	Saves    int    `json:"saves"`
	Depth    int    `json:"depth"` // the database directory lies this many not yet existing directories deep
}

func genConc(t *rapid.T) Case {
	c := Case{Kind: "concurrent", Sets: genSets(t, "validfew")}
	base := finalCfg(c.Sets)
	if v, _ := tableVerdict(base); v != vValid {
		c.Sets = nil
		base = finalCfg(nil)
	}
	var constrained []finfo
	for _, f := range usable() {
		if ruleFor(f.Name) != nil && (isInt(f.Kind) || isFloat(f.Kind)) {
			constrained = append(constrained, f)
		}
	}
	f := constrained[rapid.IntRange(0, len(constrained)-1).Draw(t, "cfield")]
	co := &Conc{Field: f.Name,
		Updaters: rapid.IntRange(1, 3).Draw(t, "updaters"),
		Saves:    rapid.IntRange(5, 60).Draw(t, "saves"),
		Depth:    rapid.SampledFrom([]int{0, 0, 3, 30, 200}).Draw(t, "depth")}
	// a valid and an invalid value for that field in the context of base
	for tries := 0; tries < 40 && (co.Valid == "" || co.Invalid == ""); tries++ {
		v := drawValue(t, f, base, "any")
		if verdictWith(base, f.Name, v) == vValid {
			if co.Valid == "" {
				co.Valid = v
			}
		} else if co.Invalid == "" {
			co.Invalid = v
		}
	}
	c.Conc = co
	return c
}

func runConc(c *Case) *Fail {
	co := c.Conc
	if co == nil || co.Valid == "" || co.Invalid == "" {
		return nil // the draw found no valid/invalid pair for this field: nothing to run
	}
	root, err := os.MkdirTemp("", "c20c-")
	must(err)
	defer os.RemoveAll(root)
	dir := root
	for i := 0; i < co.Depth; i++ {
		dir += fmt.Sprintf("/d%d", i)
	}
	dir += "/db"
	cfg := config.NewDefaultConfig(dir)
	if err := applySets(cfg, c.Sets, root); err != nil {
		return nil
	}
	if err := setField(cfg, co.Field, co.Valid, root); err != nil {
		return nil
	}
	var stop atomic.Bool
	var wg sync.WaitGroup
	for u := 0; u < co.Updaters; u++ {
		wg.Add(1)
		go func() {
			defer wg.Done()
			for !stop.Load() {
				cfg.Update(func(x *config.Config) { _ = setField(x, co.Field, co.Invalid, root) })
				runtime.Gosched()
				cfg.Update(func(x *config.Config) { _ = setField(x, co.Field, co.Valid, root) })
				runtime.Gosched()
			}
		}()
	}
	result := make(chan *Fail, 1)
	go func() {
		var prev []byte
		ok, rejected := 0, 0
		for i := 0; i < co.Saves; i++ {
			err := cfg.SaveManifest(dir)
			now, rerr := os.ReadFile(dir + "/MANIFEST")
			if err != nil {
				rejected++
				if rerr == nil && prev != nil && !bytes.Equal(now, prev) {
					result <- failf("concurrent/rejected-but-written", "SaveManifest number %d failed (%v) but the stored manifest changed", i, err)
					return
				}
				if rerr == nil && prev == nil {
					result <- failf("concurrent/rejected-but-written", "SaveManifest number %d failed (%v) but a manifest exists now", i, err)
					return
				}
				continue
			}
			ok++
			if rerr != nil {
				result <- failf("concurrent/accepted-not-written", "SaveManifest number %d reported success, reading the manifest: %v", i, rerr)
				return
			}
			prev = now
			if _, lerr := config.LoadConfigFromManifest(dir); lerr != nil {
				result <- failf("concurrent/stored-invalid", "SaveManifest number %d reported success while %d goroutine(s) toggled %s between %s and %s, but the stored manifest does not load: %v",
					i, co.Updaters, co.Field, co.Valid, co.Invalid, lerr)
				return
			}
		}
		ev.R().Count("concurrent_saves_accepted", ok)
		ev.R().Count("concurrent_saves_rejected", rejected)
		result <- nil
	}()
	var f *Fail
	select {
	case f = <-result:
	case <-time.After(20 * time.Second):
		buf := make([]byte, 1<<16)
		n := runtime.Stack(buf, true)
		var where []string
		for _, g := range strings.Split(string(buf[:n]), "\n\n") {
			if strings.Contains(g, "config.(*Config)") {
				lines := strings.Split(g, "\n")
				if len(lines) > 7 {
					lines = lines[:7]
				}
				where = append(where, strings.Join(lines, " | "))
			}
		}
		f = failf("concurrent/hang", "SaveManifest next to Update did not finish within 20 s; goroutines inside config.Config: %s", strings.Join(where, " ;; "))
	}
	stop.Store(true)
	if f == nil || f.Sig != "concurrent/hang" {
		wg.Wait()
	}
	return f
}

func TestPropConcurrent(t *testing.T) {
	rapid.Check(t, func(t *rapid.T) {
		c := genConc(t)
		check(t, &c)
	})
}

package c20

import (
	"encoding/json"
	"fmt"
	"math"
	"os"
	"path/filepath"
	"reflect"
	"regexp"
	"sort"
	"strconv"
	"strings"

	"pgregory.net/rapid"

	"github.com/KevoDB/kevo/pkg/config"

	"verif/internal/ev"
)

// ---------------------------------------------------------------------------
// generator

var (
	illNumber = []string{`"12"`, `true`, `[1]`, `{"a":1}`, `""`}
	illInt    = []string{`1.5`, `9223372036854775808`, `-9223372036854775809`}
	illFloat  = []string{`1e999`, `"10"`}
	illString = []string{`12`, `true`, `["a"]`, `{}`}
	wholeDocs = []string{`null`, `{}`, `[]`, `[1]`, `0`, `"x"`, `true`, ``, " \n", `{`, `{"version":`, `$DOC$DOC`}
	garbage   = []string{"x", "}", "{}", ",", "\x00", "null", "//c", "]"}
	blanks    = []string{"\n", " ", " \t\r\n", "\n\n\n"}
)

// rawFor turns a textual field value into a JSON literal.
func rawFor(f finfo, val string) string {
	switch {
	case isFloat(f.Kind):
		x, _ := strconv.ParseFloat(val, 64)
		if math.IsNaN(x) || math.IsInf(x, 0) {
			return `1e999` // not representable: becomes an out-of-range number
		}
		return val
	case f.Kind == reflect.String:
		b, _ := json.Marshal(val)
		return string(b)
	}
	return val
}

func genMut(t *rapid.T, cur *config.Config) Mut {
	var fs []finfo
	for _, f := range usable() {
		if f.JSON != "" {
			fs = append(fs, f)
		}
	}
	op := rapid.SampledFrom([]string{"delete", "delete", "null", "ill", "ill", "ill", "invalid", "invalid", "invalid",
		"valid", "valid", "valid", "valid", "unknown_key", "whole", "whole", "append", "append", "prepend", "isdir"}).Draw(t, "mop")
	f := fs[rapid.IntRange(0, len(fs)-1).Draw(t, "mfield")]
	switch op {
	case "delete", "null":
		return Mut{Op: op, Key: f.JSON}
	case "ill":
		var c []string
		switch {
		case isInt(f.Kind) || isUint(f.Kind):
			c = append(append(c, illNumber...), illInt...)
		case isFloat(f.Kind):
			c = append(append(c, illNumber...), illFloat...)
		case f.Kind == reflect.String:
			c = illString
		default:
			c = []string{`"x"`, `[true]`}
		}
		return Mut{Op: "set", Key: f.JSON, Raw: rapid.SampledFrom(c).Draw(t, "ill")}
	case "invalid":
		// pick a constrained field so that a table-invalid value exists
		var cf []finfo
		for _, g := range fs {
			if ruleFor(g.Name) != nil {
				cf = append(cf, g)
			}
		}
		if len(cf) > 0 {
			f = cf[rapid.IntRange(0, len(cf)-1).Draw(t, "cfield")]
		}
		return Mut{Op: "set", Key: f.JSON, Raw: rawFor(f, drawValue(t, f, cur, "any"))}
	case "valid":
		return Mut{Op: "set", Key: f.JSON, Raw: rawFor(f, drawValue(t, f, cur, "valid"))}
	case "unknown_key":
		return Mut{Op: "unknown_key", Key: "zz_not_a_member", Raw: rapid.SampledFrom([]string{`1`, `"x"`, `{"a":[1]}`, `null`}).Draw(t, "uk")}
	case "whole":
		return Mut{Op: "whole", Raw: rapid.SampledFrom(wholeDocs).Draw(t, "whole")}
	case "append", "prepend":
		pool := garbage
		if rapid.Bool().Draw(t, "blank") {
			pool = blanks
		}
		return Mut{Op: op, Raw: rapid.SampledFrom(pool).Draw(t, "affix")}
	}
	return Mut{Op: "isdir"}
}

func genValidSets(t *rapid.T) []Set {
	return genSets(t, rapid.SampledFrom([]string{"none", "validfew", "validfew", "validall"}).Draw(t, "base"))
}

func genStored(t *rapid.T) Case {
	c := Case{Kind: "stored", Sets: genValidSets(t), Stored: &Stored{}}
	if rapid.Bool().Draw(t, "truncall") {
		c.Stored.Mode = "trunc_all"
		return c
	}
	c.Stored.Mode = "mutate"
	cur := finalCfg(c.Sets)
	n := rapid.SampledFrom([]int{1, 1, 1, 2, 3}).Draw(t, "nmuts")
	for i := 0; i < n; i++ {
		c.Stored.Muts = append(c.Stored.Muts, genMut(t, cur))
	}
	return c
}

// ---------------------------------------------------------------------------
// oracle for a mutated document

var intLit = regexp.MustCompile(`^-?(0|[1-9][0-9]*)$`)

// typed interprets a raw JSON literal for a field kind; ok=false means the
// literal has another type than the member (or does not fit it).
func typed(f finfo, raw string) (val string, ok bool) {
	switch {
	case isInt(f.Kind):
		if !intLit.MatchString(raw) {
			return "", false
		}
		if _, err := strconv.ParseInt(raw, 10, f.Bits); err != nil {
			return "", false
		}
		return raw, true
	case isUint(f.Kind):
		if !intLit.MatchString(raw) || strings.HasPrefix(raw, "-") {
			return "", false
		}
		if _, err := strconv.ParseUint(raw, 10, f.Bits); err != nil {
			return "", false
		}
		return raw, true
	case isFloat(f.Kind):
		if raw == "" || !strings.ContainsRune("-0123456789", rune(raw[0])) || !json.Valid([]byte(raw)) {
			return "", false
		}
		x, err := strconv.ParseFloat(raw, f.Bits)
		if err != nil {
			return "", false
		}
		return fmtFloat(x), true
	case f.Kind == reflect.String:
		var s string
		if !strings.HasPrefix(raw, `"`) || json.Unmarshal([]byte(raw), &s) != nil {
			return "", false
		}
		return s, true
	case f.Kind == reflect.Bool:
		return raw, raw == "true" || raw == "false"
	}
	return "", false
}

type expectation struct {
	mustFail bool
	lenient  bool            // neither outcome is demanded; a loaded value is still compared
	why      string          // first reason for mustFail
	tag      string          // short reason tag for the signature
	skip     map[string]bool // fields not compared (member absent / null)
	want     *config.Config
	isDir    bool
	bytes    []byte
}

func zeroField(c *config.Config, name string) {
	f := reflect.ValueOf(c).Elem().FieldByName(name)
	if f.IsValid() {
		f.Set(reflect.Zero(f.Type()))
	}
}

// serialise writes the members in sorted key order.
func serialise(doc map[string]json.RawMessage) string {
	keys := make([]string, 0, len(doc))
	for k := range doc {
		keys = append(keys, k)
	}
	sort.Strings(keys)
	var sb strings.Builder
	sb.WriteString("{\n")
	for i, k := range keys {
		kb, _ := json.Marshal(k)
		fmt.Fprintf(&sb, "  %s: %s", kb, doc[k])
		if i < len(keys)-1 {
			sb.WriteString(",")
		}
		sb.WriteString("\n")
	}
	sb.WriteString("}")
	return sb.String()
}

// mutate applies the mutations to the reference manifest ref (written by
// SaveManifest for base) and derives what loading must do.
func mutate(ref []byte, base *config.Config, muts []Mut) expectation {
	e := expectation{skip: map[string]bool{}, want: cloneCfg(base)}
	var doc map[string]json.RawMessage
	if err := json.Unmarshal(ref, &doc); err != nil {
		panic("reference manifest is not a JSON object: " + err.Error())
	}
	fail := func(tag, why string) {
		if !e.mustFail {
			e.mustFail, e.tag, e.why = true, tag, why
		}
	}
	whole, pre, post := "", "", ""
	hasWhole := false
	var touched []string // member names changed by a mutation, in first-touch order
	touch := func(k string) {
		for _, x := range touched {
			if x == k {
				return
			}
		}
		touched = append(touched, k)
	}
	for _, m := range muts {
		switch m.Op {
		case "delete", "null", "set":
			if _, ok := fieldByJSON(m.Key); !ok {
				continue
			}
			switch m.Op {
			case "delete":
				delete(doc, m.Key)
			case "null":
				doc[m.Key] = json.RawMessage("null")
			default:
				doc[m.Key] = json.RawMessage(m.Raw)
			}
			touch(m.Key)
		case "unknown_key":
			doc[m.Key] = json.RawMessage(m.Raw)
			e.lenient = true
		case "whole":
			hasWhole, whole = true, m.Raw
			fail("not-a-config-object", "the document is not a configuration object")
		case "append":
			post += m.Raw
			if strings.Trim(m.Raw, " \t\r\n") != "" {
				fail("trailing-garbage", fmt.Sprintf("bytes %q follow the JSON document", m.Raw))
			}
		case "prepend":
			pre = m.Raw + pre
			if strings.Trim(m.Raw, " \t\r\n") != "" {
				fail("leading-garbage", fmt.Sprintf("bytes %q precede the JSON document", m.Raw))
			}
		case "isdir":
			e.isDir = true
			fail("manifest-is-directory", "MANIFEST is a directory (unreadable)")
		}
	}
	// what the FINAL document says about every touched member
	for _, k := range touched {
		f, _ := fieldByJSON(k)
		raw, present := doc[k]
		if !present || string(raw) == "null" {
			// absent / null: the member carries no value; the table decides
			// over the zero value, the field itself is not compared
			zeroField(e.want, f.Name)
			e.skip[f.Name] = true
			e.lenient = true
			continue
		}
		val, ok := typed(f, string(raw))
		if !ok {
			fail("ill-typed/"+f.Name, fmt.Sprintf("member %q holds %s, which is no %s", k, raw, f.Kind))
			continue
		}
		if err := setField(e.want, f.Name, val, "$ROOT"); err != nil { // "$ROOT" stays literal in a stored document
			panic(err)
		}
	}
	body := serialise(doc)
	if hasWhole {
		body = strings.ReplaceAll(whole, "$DOC", body)
	}
	e.bytes = []byte(pre + body + post)
	if !e.mustFail {
		v, fl := tableVerdict(e.want)
		switch v {
		case vInvalid:
			fail("invalid-value/"+fl.Field+"/"+fl.Class, fmt.Sprintf("stored configuration violates %q (%s)", fl.Doc, fl.Field))
		case vEither:
			e.lenient = true
		}
	}
	return e
}

func classifyMuts(sets []Set, muts []Mut) (nt bool, classes []string) {
	base := finalCfg(sets)
	e := mutate(mustJSON(base), base, muts)
	for _, m := range muts {
		classes = append(classes, "mut_"+m.Op)
		f, ok := fieldByJSON(m.Key)
		if !ok {
			continue
		}
		constrained := ruleFor(f.Name) != nil
		switch m.Op {
		case "delete", "null":
			if constrained {
				nt = true
				classes = append(classes, "mut_removes_constrained")
			}
		case "set":
			if val, ok := typed(f, m.Raw); !ok {
				classes = append(classes, "mut_ill_typed")
				if constrained {
					nt = true
				}
			} else if nearBoundary(Set{Field: f.Name, Val: val}, e.want) {
				nt = true
				classes = append(classes, "mut_near_boundary")
			}
		}
	}
	switch {
	case e.mustFail:
		classes = append(classes, "expect_fail")
	case e.lenient:
		classes = append(classes, "expect_lenient")
	default:
		classes = append(classes, "expect_load")
	}
	return nt, classes
}

func mustJSON(c *config.Config) []byte {
	b, err := json.MarshalIndent(c, "", "  ")
	if err != nil {
		return []byte("{}")
	}
	return b
}

// ---------------------------------------------------------------------------
// running

// saveReference stores the case's (table-valid) configuration with
// SaveManifest and returns the manifest bytes.
func saveReference(c *Case, root, db string) (*config.Config, []byte, *Fail) {
	cfg := config.NewDefaultConfig(db)
	if err := applySets(cfg, c.Sets, root); err != nil {
		panic(err)
	}
	if v, fl := tableVerdict(cfg); v != vValid {
		panic(fmt.Sprintf("case %s needs a table-valid base configuration (%s %s)", c.Kind, fl.Field, fl.Class))
	}
	if err := cfg.SaveManifest(db); err != nil {
		return nil, nil, failf(c.Kind+"/setup-save-fails-valid/"+fieldsOf(c.Sets), "valid configuration, SaveManifest: %v", err)
	}
	b, err := os.ReadFile(filepath.Join(db, manifestName))
	if err != nil {
		return nil, nil, failf(c.Kind+"/setup-no-manifest-after-save", "SaveManifest returned nil, reading MANIFEST: %v", err)
	}
	return cfg, b, nil
}

func putManifest(db string, e *expectation) {
	p := filepath.Join(db, manifestName)
	must(os.RemoveAll(p))
	if e.isDir {
		must(os.Mkdir(p, 0o755))
		return
	}
	must(os.WriteFile(p, e.bytes, 0o644))
}

func clip(b []byte) string {
	if len(b) > 120 {
		return fmt.Sprintf("%q...(%d bytes)", b[:120], len(b))
	}
	return fmt.Sprintf("%q", b)
}

func runStored(c *Case) *Fail {
	root, err := os.MkdirTemp("", "c20s-")
	must(err)
	defer os.RemoveAll(root)
	db := filepath.Join(root, "db")
	cfg, ref, fl := saveReference(c, root, db)
	if fl != nil {
		return fl
	}
	mpath := filepath.Join(db, manifestName)

	if c.Stored.Mode == "trunc_all" {
		// every strict prefix: a JSON object ends with its closing brace, so no
		// strict prefix is a complete document (asserted, not assumed)
		for n := 0; n < len(ref); n++ {
			if json.Valid(ref[:n]) {
				panic(fmt.Sprintf("harness assumption broken: prefix %d of the manifest is a complete JSON document", n))
			}
			must(os.WriteFile(mpath, ref[:n], 0o644))
			got, err := config.LoadConfigFromManifest(db)
			if err == nil {
				return failf("stored/truncated-manifest-loads", "manifest cut to %d of %d bytes loads without error (%+v)", n, len(ref), fieldsSummary(got))
			}
		}
		ev.R().Count("truncation_lengths_checked", len(ref))
		ev.R().Count("manifests_fully_truncated", 1)
		// the full length and the full length followed by blanks must load equal
		for _, tail := range []string{"", "\n", " \t\r\n"} {
			must(os.WriteFile(mpath, append(append([]byte{}, ref...), tail...), 0o644))
			got, err := config.LoadConfigFromManifest(db)
			if err != nil {
				return failf("stored/complete-manifest-fails", "complete manifest (+%q) does not load: %v", tail, err)
			}
			if f, desc := cmpCfg(cfg, got, nil); f != "" {
				return failf("stored/roundtrip-mismatch/"+f, "complete manifest (+%q) loads a different value: %s", tail, desc)
			}
		}
		ev.R().SetExhaustive(true)
		return nil
	}

	e := mutate(ref, cfg, c.Stored.Muts)
	putManifest(db, &e)
	got, lerr := config.LoadConfigFromManifest(db)
	if e.mustFail {
		if lerr == nil {
			return failf("stored/damaged-manifest-loads/"+e.tag, "%s, but LoadConfigFromManifest returned no error; document %s", e.why, clip(e.bytes))
		}
		return nil
	}
	if lerr != nil {
		if e.lenient {
			ev.R().Count("lenient_manifest_rejected", 1)
			return nil
		}
		return failf("stored/valid-manifest-fails", "document holds a complete valid configuration, LoadConfigFromManifest: %v; document %s", lerr, clip(e.bytes))
	}
	if e.lenient {
		ev.R().Count("lenient_manifest_loaded", 1)
	}
	if f, desc := cmpCfg(e.want, got, e.skip); f != "" {
		return failf("stored/loaded-differs-from-document/"+f, "%s; document %s", desc, clip(e.bytes))
	}
	if v, fl := tableVerdict(got); v == vInvalid {
		return failf("stored/load-returns-invalid/"+fl.Field, "LoadConfigFromManifest returned a configuration violating %q", fl.Doc)
	}
	return nil
}

func fieldsSummary(c *config.Config) string {
	if c == nil {
		return "<nil>"
	}
	return string(mustJSON(c))
}

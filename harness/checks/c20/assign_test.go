package c20

import (
	"encoding/json"
	"os"
	"path/filepath"
	"strings"

	"github.com/KevoDB/kevo/pkg/config"
)

const manifestName = "MANIFEST"

// prepareDir creates the target directory state and returns the db path.
func prepareDir(root, mode string) string {
	db := filepath.Join(root, "db")
	switch mode {
	case "empty":
		must(os.Mkdir(db, 0o755))
	case "existing", "stale_tmp":
		must(os.MkdirAll(filepath.Join(db, "wal"), 0o755))
		old := config.NewDefaultConfig(db)
		old.MemTableSize = 12345
		b, err := json.MarshalIndent(old, "", "  ")
		must(err)
		must(os.WriteFile(filepath.Join(db, manifestName), b, 0o644))
		must(os.WriteFile(filepath.Join(db, "wal", "0000000001.wal"), []byte("not really a log"), 0o644))
		must(os.WriteFile(filepath.Join(db, "note.txt"), []byte("bystander"), 0o644))
		if mode == "stale_tmp" {
			// left behind by a save that died between writing the temporary file
			// and renaming it; longer than any manifest this check stores
			stale := append(append([]byte{}, b...), []byte("\n"+strings.Repeat("{\"left\": \"over\"}\n", 300))...)
			must(os.WriteFile(filepath.Join(db, manifestName+".tmp"), stale, 0o644))
		}
	}
	return db
}

func must(err error) {
	if err != nil {
		panic(err)
	}
}

func errStr(err error) string {
	if err == nil {
		return "<nil>"
	}
	return err.Error()
}

// onlyManifest is the skip function for a successful save: the database
// directory itself (it may have been created) and MANIFEST may differ.
func onlyManifest(rel string) bool {
	return rel == "db" || rel == filepath.Join("db", manifestName)
}

// onlyManifestOrStaleTmp: additionally a stale MANIFEST.tmp planted by the
// case (left by an earlier, interrupted save) may be consumed.
func onlyManifestOrStaleTmp(rel string) bool {
	return onlyManifest(rel) || rel == filepath.Join("db", manifestName+".tmp")
}

// runAssign: part (a) of the rule.
func runAssign(c *Case) *Fail {
	root, err := os.MkdirTemp("", "c20a-")
	must(err)
	defer os.RemoveAll(root)
	db := prepareDir(root, c.Dir)
	cfg := config.NewDefaultConfig(db)
	if err := applySets(cfg, c.Sets, root); err != nil {
		panic(err)
	}
	want, fl := tableVerdict(cfg)
	who := fieldsOf(c.Sets)
	if fl != nil {
		who = fl.Field + "/" + fl.Class
	}

	before := snapshot(root)
	verr := cfg.Validate()
	serr := cfg.SaveManifest(db)
	after := snapshot(root)

	accepted := serr == nil
	switch want {
	case vInvalid:
		if verr == nil {
			return failf("assign/validate-accepts-invalid/"+who,
				"table: %s violates %q, but Validate returned nil (SaveManifest: %s)", fl.Field, fl.Doc, errStr(serr))
		}
		if serr == nil {
			return failf("assign/save-accepts-invalid/"+who,
				"table: %s violates %q; Validate rejected it (%v) but SaveManifest stored it", fl.Field, fl.Doc, verr)
		}
	case vValid:
		if verr != nil {
			return failf("assign/validate-rejects-valid/"+who, "no documented constraint is violated, Validate: %v", verr)
		}
		if serr != nil {
			return failf("assign/save-fails-valid/"+who, "configuration passes validation but SaveManifest: %v", serr)
		}
	case vEither:
		if (verr == nil) != (serr == nil) {
			return failf("assign/validate-and-save-disagree/"+who,
				"Validate: %s, SaveManifest: %s — a configuration that passes validation must be stored, a rejected one must not",
				errStr(verr), errStr(serr))
		}
	}
	if !accepted {
		if kind, desc := diffSnap(before, after, nil); kind != "" {
			return failf("assign/rejected-save-changed-directory/"+kind,
				"SaveManifest returned %q but the target changed: %s", errStr(serr), desc)
		}
		return nil
	}
	// accepted: only MANIFEST may differ, and it must load back equal
	skip := onlyManifest
	if c.Dir == "stale_tmp" {
		skip = onlyManifestOrStaleTmp
	}
	if kind, desc := diffSnap(before, after, skip); kind != "" {
		sig := "assign/save-changed-other-files/" + kind
		if strings.Contains(desc, manifestName+".tmp") {
			sig = "assign/save-left-temp-file"
		}
		return failf(sig, "SaveManifest succeeded but besides MANIFEST: %s", desc)
	}
	got, lerr := config.LoadConfigFromManifest(db)
	if lerr != nil {
		return failf("assign/load-fails-after-save/"+who, "SaveManifest succeeded, LoadConfigFromManifest: %v", lerr)
	}
	if f, desc := cmpCfg(cfg, got, nil); f != "" {
		return failf("assign/roundtrip-mismatch/"+f, "loaded configuration differs from the stored one: %s", desc)
	}
	return nil
}

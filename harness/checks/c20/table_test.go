package c20

// The INDEPENDENT constraint table. It is written from the documentation the
// repository gives for configuration validity — the error messages of
// config.Config.Validate ("MemTable size must be positive", "Compaction ratio
// must be greater than 1.0", "Transaction warning threshold must be between 1
// and 99", ...) — and it, not Validate, decides which verdict the check
// expects. A field that has no entry here has no documented constraint: every
// value of it is a valid configuration.

import (
	"fmt"
	"math"
	"reflect"

	"github.com/KevoDB/kevo/pkg/config"
)

type ruleKind int

const (
	minInt     ruleKind = iota // value >= Min                       ("must be positive": Min = 1)
	rangeInt                   // Min <= value <= Max                ("between 1 and 99")
	nonEmpty                   // string != ""                       ("... directory not specified")
	gtFloat                    // value > Bound                      ("must be greater than 1.0")
	aboveField                 // Other < value <= Max               ("between warning threshold and 99")
)

type rule struct {
	Field string
	Kind  ruleKind
	Min   int64
	Max   int64
	Bound float64
	Other string
	Doc   string // the documented sentence the rule is taken from
}

var table = []rule{
	{Field: "Version", Kind: minInt, Min: 1, Doc: "invalid version %d (reported for version <= 0)"},
	{Field: "WALDir", Kind: nonEmpty, Doc: "WAL directory not specified"},
	{Field: "SSTDir", Kind: nonEmpty, Doc: "SSTable directory not specified"},
	{Field: "MemTableSize", Kind: minInt, Min: 1, Doc: "MemTable size must be positive"},
	{Field: "MaxMemTables", Kind: minInt, Min: 1, Doc: "Max MemTables must be positive"},
	{Field: "SSTableBlockSize", Kind: minInt, Min: 1, Doc: "SSTable block size must be positive"},
	{Field: "SSTableIndexSize", Kind: minInt, Min: 1, Doc: "SSTable index size must be positive"},
	{Field: "CompactionLevels", Kind: minInt, Min: 1, Doc: "Compaction levels must be positive"},
	{Field: "CompactionRatio", Kind: gtFloat, Bound: 1.0, Doc: "Compaction ratio must be greater than 1.0"},
	{Field: "ReadOnlyTxTTL", Kind: minInt, Min: 1, Doc: "Read-only transaction TTL must be positive"},
	{Field: "ReadWriteTxTTL", Kind: minInt, Min: 1, Doc: "Read-write transaction TTL must be positive"},
	{Field: "IdleTxTimeout", Kind: minInt, Min: 1, Doc: "Idle transaction timeout must be positive"},
	{Field: "TxCleanupInterval", Kind: minInt, Min: 1, Doc: "Transaction cleanup interval must be positive"},
	{Field: "TxWarningThreshold", Kind: rangeInt, Min: 1, Max: 99, Doc: "Transaction warning threshold must be between 1 and 99"},
	{Field: "TxCriticalThreshold", Kind: aboveField, Other: "TxWarningThreshold", Max: 99,
		Doc: "Transaction critical threshold must be between warning threshold and 99"},
}

func ruleFor(field string) *rule {
	for i := range table {
		if table[i].Field == field {
			return &table[i]
		}
	}
	return nil
}

type verdict int

const (
	vValid verdict = iota
	vInvalid
	// vEither: the documentation does not decide. Two situations:
	//  * critical threshold == warning threshold ("between warning threshold
	//    and 99" next to "between 1 and 99", which includes its end points);
	//  * +Inf for a "greater than" rule (it is greater than 1.0, but no
	//    finite ratio). The check then only demands consistency (Validate and
	//    SaveManifest agree; accepted => round trip, rejected => nothing written).
	vEither
)

func (v verdict) String() string {
	return [...]string{"valid", "invalid", "either"}[v]
}

// flagged describes the first rule that is not satisfied.
type flagged struct {
	Field string
	Class string // below-min | above-max | empty | not-greater | nan | +inf | not-above-<other> | equals-<other>
	Doc   string
}

func isIntKind(k reflect.Kind) bool {
	return k >= reflect.Int && k <= reflect.Int64
}

// tableVerdict evaluates the table over the exported fields of c (read by
// reflection; a rule whose field does not exist or has another kind than the
// rule expects is skipped and reported through stale).
func tableVerdict(c *config.Config) (verdict, *flagged) {
	v := reflect.ValueOf(c).Elem()
	var either *flagged
	for i := range table {
		r := &table[i]
		f := v.FieldByName(r.Field)
		if !f.IsValid() {
			continue
		}
		switch r.Kind {
		case minInt:
			if isIntKind(f.Kind()) && f.Int() < r.Min {
				return vInvalid, &flagged{r.Field, "below-min", r.Doc}
			}
		case rangeInt:
			if isIntKind(f.Kind()) {
				if f.Int() < r.Min {
					return vInvalid, &flagged{r.Field, "below-min", r.Doc}
				}
				if f.Int() > r.Max {
					return vInvalid, &flagged{r.Field, "above-max", r.Doc}
				}
			}
		case nonEmpty:
			if f.Kind() == reflect.String && f.String() == "" {
				return vInvalid, &flagged{r.Field, "empty", r.Doc}
			}
		case gtFloat:
			if f.Kind() == reflect.Float64 || f.Kind() == reflect.Float32 {
				x := f.Float()
				switch {
				case math.IsNaN(x):
					return vInvalid, &flagged{r.Field, "nan", r.Doc} // NaN is not greater than anything
				case math.IsInf(x, 1):
					if either == nil {
						either = &flagged{r.Field, "+inf", r.Doc}
					}
				case !(x > r.Bound):
					return vInvalid, &flagged{r.Field, "not-greater", r.Doc}
				}
			}
		case aboveField:
			o := v.FieldByName(r.Other)
			if isIntKind(f.Kind()) && o.IsValid() && isIntKind(o.Kind()) {
				switch {
				case f.Int() > r.Max:
					return vInvalid, &flagged{r.Field, "above-max", r.Doc}
				case f.Int() < o.Int():
					return vInvalid, &flagged{r.Field, "not-above-" + r.Other, r.Doc}
				case f.Int() == o.Int():
					if either == nil {
						either = &flagged{r.Field, "equals-" + r.Other, r.Doc}
					}
				}
			}
		}
	}
	// A non-finite value in a float field WITHOUT a documented constraint
	// (none exists today) is not decided by the table either.
	t := v.Type()
	for i := 0; i < t.NumField(); i++ {
		if !t.Field(i).IsExported() || ruleFor(t.Field(i).Name) != nil {
			continue
		}
		if k := t.Field(i).Type.Kind(); k == reflect.Float64 || k == reflect.Float32 {
			if x := v.Field(i).Float(); math.IsNaN(x) || math.IsInf(x, 0) {
				if either == nil {
					either = &flagged{t.Field(i).Name, "nonfinite-unconstrained", "no documented constraint"}
				}
			}
		}
	}
	if either != nil {
		return vEither, either
	}
	return vValid, nil
}

// staleRules lists table entries that do not match the struct any more.
func staleRules() []string {
	t := reflect.TypeOf((*config.Config)(nil)).Elem()
	var out []string
	for _, r := range table {
		f, ok := t.FieldByName(r.Field)
		if !ok {
			out = append(out, fmt.Sprintf("table rule for missing field %s", r.Field))
			continue
		}
		k := f.Type.Kind()
		okKind := false
		switch r.Kind {
		case minInt, rangeInt, aboveField:
			okKind = isIntKind(k)
		case nonEmpty:
			okKind = k == reflect.String
		case gtFloat:
			okKind = k == reflect.Float64 || k == reflect.Float32
		}
		if !okKind {
			out = append(out, fmt.Sprintf("table rule for %s expects another kind than %s", r.Field, k))
		}
	}
	return out
}

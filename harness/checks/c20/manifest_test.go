// C20, manifest-type sub-check: pkg/config also offers the Manifest type
// (NewManifest / Save / LoadManifest / UpdateConfig: a history of
// configuration entries, the last one current). The same sentences hold for
// it: a configuration that passes validation is stored and loaded back
// unchanged, an update that violates a documented constraint is rejected
// before anything changes, and an update changes exactly what it sets.
package c20

import (
	"bytes"
	"os"
	"path/filepath"
	"reflect"
	"testing"

	"pgregory.net/rapid"

	"github.com/KevoDB/kevo/pkg/config"

	"verif/internal/ev"
)

// ManifestCase: base configuration (Sets on the default), then updates.
type ManifestCase struct {
	Updates []Set `json:"updates"` // applied one by one through UpdateConfig, each followed by Save + LoadManifest
	// Pokes: assignments made directly through the pointer GetConfig() hands out
	// (the manifest shares it), each followed by Save: an invalid configuration
	// must be rejected by Save before anything is written
	Pokes []Set `json:"pokes,omitempty"`
	// Trunc: after the updates the stored manifest (a history of entries) is cut
	// to strict prefixes and loaded: "all" = every length, "structural" = every
	// length that ends behind a '}', ']', ',' or line break (where a cut leaves
	// complete entries behind). Every such load must fail.
	Trunc string `json:"trunc,omitempty"`
}

func runManifest(c *Case) *Fail {
	root, err := os.MkdirTemp("", "c20m-")
	must(err)
	defer os.RemoveAll(root)
	db := filepath.Join(root, "db")
	base := config.NewDefaultConfig(db)
	if err := applySets(base, c.Sets, root); err != nil {
		panic(err)
	}
	if v, _ := tableVerdict(base); v != vValid {
		return nil // the draw did not produce a valid base
	}
	m, err := config.NewManifest(db, cloneCfg(base))
	if err != nil {
		return failf("manifest/new-rejects-valid", "NewManifest over a configuration without any documented violation: %v", err)
	}
	if err := m.Save(); err != nil {
		return failf("manifest/save-fails-valid", "Save: %v", err)
	}
	reload := func(when string, want *config.Config) *Fail {
		l, err := config.LoadManifest(db)
		if err != nil {
			return failf("manifest/load-fails/"+when, "LoadManifest %s: %v", when, err)
		}
		if f, desc := cmpCfg(want, l.GetConfig(), nil); f != "" {
			return failf("manifest/roundtrip-mismatch/"+f, "%s: the loaded current configuration differs: %s", when, desc)
		}
		return nil
	}
	if f := reload("after the first save", base); f != nil {
		return f
	}
	cur := cloneCfg(base)
	mpath := filepath.Join(db, manifestName)
	for ui, u := range c.Manifest.Updates {
		want := cloneCfg(cur)
		if err := setField(want, u.Field, u.Val, root); err != nil {
			continue
		}
		verdict, fl := tableVerdict(want)
		before, _ := os.ReadFile(mpath)
		uerr := m.UpdateConfig(func(x *config.Config) { _ = setField(x, u.Field, u.Val, root) })
		switch {
		case verdict == vInvalid && uerr == nil:
			return failf("manifest/update-accepts-invalid/"+fl.Field+"/"+fl.Class, "update %d sets %s=%s, which violates %q, but UpdateConfig returned nil", ui, u.Field, u.Val, fl.Doc)
		case verdict == vValid && uerr != nil:
			return failf("manifest/update-rejects-valid/"+u.Field, "update %d sets %s=%s (no documented violation): %v", ui, u.Field, u.Val, uerr)
		}
		if uerr != nil {
			// rejected: nothing may have changed, in memory or on disk
			if f, desc := cmpCfg(cur, m.GetConfig(), nil); f != "" {
				return failf("manifest/rejected-update-changed-config/"+f, "update %d was rejected (%v) but the current configuration changed: %s", ui, uerr, desc)
			}
			if now, _ := os.ReadFile(mpath); !bytes.Equal(now, before) {
				return failf("manifest/rejected-update-changed-file", "update %d was rejected (%v) but the stored manifest changed", ui, uerr)
			}
			continue
		}
		// accepted: exactly the assigned field differs from the previous current configuration
		if f, desc := cmpCfg(want, m.GetConfig(), nil); f != "" {
			return failf("manifest/update-changed-other-field/"+f, "update %d set only %s=%s, but afterwards: %s", ui, u.Field, u.Val, desc)
		}
		cur = want
		if err := m.Save(); err != nil {
			return failf("manifest/save-fails-valid", "Save after update %d: %v", ui, err)
		}
		if f := reload("after update "+u.Field, cur); f != nil {
			return f
		}
	}
	if c.Manifest.Trunc != "" {
		data, err := os.ReadFile(mpath)
		must(err)
		const ws = " \t\r\n"
		whole := bytes.TrimRight(data, ws)
		db2 := filepath.Join(root, "cut")
		must(os.MkdirAll(db2, 0o755))
		tried := 0
		for n := 0; n < len(data); n++ {
			if c.Manifest.Trunc == "structural" && n > 0 && !bytes.ContainsRune([]byte("}],\n"), rune(data[n-1])) {
				continue
			}
			if bytes.Equal(bytes.TrimRight(data[:n], ws), whole) {
				continue // only trailing white space is missing
			}
			must(os.WriteFile(filepath.Join(db2, manifestName), data[:n], 0o644))
			tried++
			if l, err := config.LoadManifest(db2); err == nil {
				same, _ := cmpCfg(cur, l.GetConfig(), nil)
				return failf("manifest/truncated-history-loads", "the stored manifest (%d bytes) cut to its first %d bytes loads without error (current configuration equals the stored one: %v)", len(data), n, same == "")
			}
		}
		ev.R().Count("manifest_history_truncations_tried", tried)
	}
	for pi, u := range c.Manifest.Pokes {
		live := m.GetConfig()
		saved := cloneCfg(live)
		want := cloneCfg(live)
		if err := setField(want, u.Field, u.Val, root); err != nil {
			continue
		}
		verdict, fl := tableVerdict(want)
		before, _ := os.ReadFile(mpath)
		_ = setField(live, u.Field, u.Val, root)
		serr := m.Save()
		now, _ := os.ReadFile(mpath)
		switch {
		case verdict == vInvalid && serr == nil:
			return failf("manifest/save-accepts-invalid/"+fl.Field+"/"+fl.Class, "poke %d: %s=%s assigned through GetConfig() violates %q, but Save returned nil (stored manifest changed: %v)", pi, u.Field, u.Val, fl.Doc, !bytes.Equal(now, before))
		case verdict == vInvalid && !bytes.Equal(now, before):
			return failf("manifest/rejected-save-changed-file", "poke %d: Save rejected %s=%s (%v) but the stored manifest changed", pi, u.Field, u.Val, serr)
		case verdict == vValid && serr != nil:
			return failf("manifest/save-fails-valid", "poke %d: %s=%s (no documented violation): Save: %v", pi, u.Field, u.Val, serr)
		}
		if verdict == vValid && serr == nil {
			if f := reload("after poke "+u.Field, want); f != nil {
				return f
			}
			continue
		}
		// put the shared configuration back so that the next step starts valid
		reflectCopy(live, saved)
	}
	return nil
}

func genManifest(t *rapid.T) Case {
	c := Case{Kind: "manifest", Sets: genSets(t, rapid.SampledFrom([]string{"validfew", "validall", "validall"}).Draw(t, "basemode")), Manifest: &ManifestCase{}}
	cur := finalCfg(c.Sets)
	fs := usable()
	n := rapid.IntRange(1, 5).Draw(t, "nupdates")
	for i := 0; i < n; i++ {
		f := fs[rapid.IntRange(0, len(fs)-1).Draw(t, "ufield")]
		v := drawValue(t, f, cur, rapid.SampledFrom([]string{"valid", "valid", "any"}).Draw(t, "uside"))
		c.Manifest.Updates = append(c.Manifest.Updates, Set{Field: f.Name, Val: v})
		if verdictWith(cur, f.Name, v) == vValid {
			_ = setField(cur, f.Name, v, genRoot)
		}
	}
	c.Manifest.Trunc = rapid.SampledFrom([]string{"", "", "", "", "structural", "structural", "structural", "structural", "structural", "all"}).Draw(t, "mtrunc")
	for i, n := 0, rapid.IntRange(0, 3).Draw(t, "npokes"); i < n; i++ {
		f := fs[rapid.IntRange(0, len(fs)-1).Draw(t, "pfield")]
		v := drawValue(t, f, cur, "any")
		c.Manifest.Pokes = append(c.Manifest.Pokes, Set{Field: f.Name, Val: v})
		if verdictWith(cur, f.Name, v) == vValid {
			_ = setField(cur, f.Name, v, genRoot)
		}
	}
	return c
}

func TestPropManifest(t *testing.T) {
	rapid.Check(t, func(t *rapid.T) {
		c := genManifest(t)
		check(t, &c)
	})
}

// reflectCopy copies the exported fields of src into dst (in place).
func reflectCopy(dst, src *config.Config) {
	d, s := reflect.ValueOf(dst).Elem(), reflect.ValueOf(src).Elem()
	t := d.Type()
	for i := 0; i < t.NumField(); i++ {
		if t.Field(i).IsExported() {
			d.Field(i).Set(s.Field(i))
		}
	}
}

package c20

import (
	"crypto/sha256"
	"encoding/hex"
	"fmt"
	"io/fs"
	"os"
	"path/filepath"
	"sort"
)

// fentry is one entry of a recursive directory listing.
type fentry struct {
	Dir   bool
	Size  int64
	Hash  string
	ModNs int64 // regular files only
}

// snapshot lists root recursively (root itself is "."); a missing root gives
// an empty map.
func snapshot(root string) map[string]fentry {
	out := map[string]fentry{}
	_ = filepath.WalkDir(root, func(p string, d fs.DirEntry, err error) error {
		if err != nil {
			return nil
		}
		rel, _ := filepath.Rel(root, p)
		if d.IsDir() {
			out[rel] = fentry{Dir: true}
			return nil
		}
		info, err := d.Info()
		if err != nil {
			return nil
		}
		b, err := os.ReadFile(p)
		if err != nil {
			out[rel] = fentry{Size: info.Size(), Hash: "unreadable", ModNs: info.ModTime().UnixNano()}
			return nil
		}
		h := sha256.Sum256(b)
		out[rel] = fentry{Size: info.Size(), Hash: hex.EncodeToString(h[:8]), ModNs: info.ModTime().UnixNano()}
		return nil
	})
	return out
}

// diffSnap returns "" when both listings are equal, else a short kind
// ("added", "removed", "modified", "touched") and a description of the first
// difference in path order. Paths for which skip returns true are ignored.
func diffSnap(before, after map[string]fentry, skip func(rel string) bool) (kind, desc string) {
	var paths []string
	seen := map[string]bool{}
	for p := range before {
		paths = append(paths, p)
		seen[p] = true
	}
	for p := range after {
		if !seen[p] {
			paths = append(paths, p)
		}
	}
	sort.Strings(paths)
	for _, p := range paths {
		if skip != nil && skip(p) {
			continue
		}
		b, inB := before[p]
		a, inA := after[p]
		switch {
		case !inB:
			return "added", fmt.Sprintf("%q appeared (dir=%v size=%d)", p, a.Dir, a.Size)
		case !inA:
			return "removed", fmt.Sprintf("%q disappeared", p)
		case a.Dir != b.Dir || a.Size != b.Size || a.Hash != b.Hash:
			return "modified", fmt.Sprintf("%q changed: size %d -> %d, hash %s -> %s", p, b.Size, a.Size, b.Hash, a.Hash)
		case a.ModNs != b.ModNs:
			return "touched", fmt.Sprintf("%q was rewritten with the same content (mtime changed)", p)
		}
	}
	return "", ""
}

// C20 — configuration is validated and persists with the database
// (DESIGN.md 5/C20).
//
// Three sub-checks over generated cases (all values, all replayable):
//
//	assign  field assignments (by reflection over config.Config) around every
//	        documented validity boundary; the independent table in
//	        table_test.go decides the expected verdict.
//	stored  manifests on disk: every truncation length of a stored manifest,
//	        and syntactically valid JSON with missing / ill-typed / invalid /
//	        changed fields, read back with config.LoadConfigFromManifest.
//	engine  engine.NewEngineFacade over directories with a valid non-default
//	        stored configuration (must be used, manifest bytes stay) and over
//	        directories with data and a damaged manifest (must fail, must not
//	        write anything).
package c20

import (
	"encoding/json"
	"fmt"
	"math"
	"os"
	"reflect"
	"strconv"
	"strings"
	"testing"
	"unicode/utf8"

	"pgregory.net/rapid"

	"github.com/KevoDB/kevo/pkg/config"

	"verif/internal/ev"
)

const ruleText = "cases = (a) assign: 1..all exported config.Config fields (found by reflection) set from a valid base to values around " +
	"each documented boundary (min-1,min,min+1,typical,max-int; floats 1.0,nextafter,NaN,+-Inf,huge; strings empty,space,unicode,paths), " +
	"target directory fresh/empty/with an older manifest and other files; oracle = independent table of the constraints documented by " +
	"Validate's messages: invalid => Validate and SaveManifest fail and the directory tree is byte-identical, valid => SaveManifest " +
	"succeeds, only MANIFEST changes, LoadConfigFromManifest returns equal exported fields; (b) stored: the manifest written for a generated " +
	"valid configuration is cut at EVERY prefix length 0..len-1 (exhaustively enumerated sub-space: all truncation lengths of each generated " +
	"manifest; every strict prefix must fail to load, the full length must load equal) or rewritten as valid JSON with deleted / null / " +
	"ill-typed / table-invalid / table-valid / unknown members, surrounding whitespace or garbage, or a non-object document; " +
	"(c) engine: NewEngineFacade on a directory holding a valid non-default manifest (custom absolute WAL/SST directories, small memtable) " +
	"must put WAL and SST files only into the configured directories, must not switch the memtable below and must switch it above the " +
	"configured size, and must leave the manifest bytes unchanged over open/write/close/reopen; on a directory with data and a damaged " +
	"manifest (every strict prefix, or generated JSON damage) it must return an error and leave the recursive listing (sizes, hashes, " +
	"mtimes) unchanged. non-trivial = an assignment within +-1 (one ulp for floats, <=1 character for strings) of a table boundary, or a " +
	"truncation, or a stored mutation that removes/ill-types a constrained member or sets a near-boundary value, or an engine case whose " +
	"writes cross the configured memtable size, or a concurrent case (d: SaveManifest called repeatedly while 1-3 goroutines toggle one " +
	"constrained field between a valid and an invalid value through Config.Update; a save that reports success must have stored a manifest " +
	"that loads, a rejected save must leave the stored bytes alone, nothing may hang); distinct by FNV-64 of the case JSON"

func TestMain(m *testing.M) {
	ev.Silence()
	rec := ev.Init("C20", ruleText)
	for _, s := range staleRules() {
		rec.Note(s)
	}
	code := m.Run()
	rec.Flush(true)
	os.Exit(code)
}

// ---------------------------------------------------------------------------
// case types

// Set assigns one exported Config field. Val is the decimal integer, the
// strconv 'g' float ("NaN", "+Inf", "-Inf" included), true/false, or the
// string itself ("$ROOT" is replaced by the case's scratch directory).
type Set struct {
	Field string `json:"field"`
	Val   string `json:"val"`
}

// Mut is one change of a stored manifest.
//
//	delete K | null K | set K Raw (raw JSON literal) | unknown_key |
//	whole Raw ("$DOC" = the document) | append Raw | prepend Raw |
//	isdir (MANIFEST is a directory) | trunc N (prefix length N, N<0: len+N)
type Mut struct {
	Op  string `json:"op"`
	Key string `json:"key,omitempty"`
	Raw string `json:"raw,omitempty"`
	N   int    `json:"n,omitempty"`
}

// Stored describes the stored-manifest sub-check.
type Stored struct {
	Mode string `json:"mode"` // trunc_all | mutate
	Muts []Mut  `json:"muts,omitempty"`
}

// Engine describes the engine-level sub-check.
type Engine struct {
	Mode     string `json:"mode"`                // valid | invalid | created
	PathForm string `json:"path_form,omitempty"` // created: absolute | relative | dot_relative | unclean
	ValLen   int    `json:"val_len"`             // value length of the filling writes
	PreFlush bool   `json:"pre_flush"`           // invalid: flush explicitly before closing so table files exist
	AllTrunc bool   `json:"all_trunc"`           // invalid: every strict prefix of the manifest
	Damage   []Mut  `json:"damage,omitempty"`    // invalid: further damaged manifests (each tried separately)
	Reopens  int    `json:"reopens,omitempty"`   // valid: number of close/reopen rounds (>=1)
}

// Case is one generated case.
type Case struct {
	Kind     string        `json:"kind"` // assign | stored | engine
	Sets     []Set         `json:"sets"`
	Dir      string        `json:"dir,omitempty"` // assign: fresh | empty | existing
	Stored   *Stored       `json:"stored,omitempty"`
	Engine   *Engine       `json:"engine,omitempty"`
	Conc     *Conc         `json:"conc,omitempty"`
	Manifest *ManifestCase `json:"manifest,omitempty"`
}

// Doc is the replay document.
type Doc struct {
	Property  string `json:"property"`
	Case      Case   `json:"case"`
	Signature string `json:"signature,omitempty"`
	Message   string `json:"message,omitempty"`
}

// Fail is an oracle failure.
type Fail struct{ Sig, Msg string }

func failf(sig, format string, a ...any) *Fail {
	return &Fail{Sig: sig, Msg: fmt.Sprintf(format, a...)}
}

// ---------------------------------------------------------------------------
// reflection helpers

type finfo struct {
	Name string
	Kind reflect.Kind
	Bits int
	JSON string // member name encoding/json uses ("" = not stored, tag "-")
}

func cfgType() reflect.Type { return reflect.TypeOf((*config.Config)(nil)).Elem() }

// fields lists the exported fields of config.Config in declaration order.
func fields() []finfo {
	t := cfgType()
	var out []finfo
	for i := 0; i < t.NumField(); i++ {
		f := t.Field(i)
		if !f.IsExported() {
			continue
		}
		name := f.Name
		if tag, ok := f.Tag.Lookup("json"); ok {
			n := strings.Split(tag, ",")[0]
			if n == "-" && !strings.Contains(tag, ",") {
				name = ""
			} else if n != "" {
				name = n
			}
		}
		fi := finfo{Name: f.Name, Kind: f.Type.Kind(), JSON: name}
		switch fi.Kind {
		case reflect.Int, reflect.Int8, reflect.Int16, reflect.Int32, reflect.Int64,
			reflect.Uint, reflect.Uint8, reflect.Uint16, reflect.Uint32, reflect.Uint64,
			reflect.Float32, reflect.Float64:
			fi.Bits = f.Type.Bits()
		}
		out = append(out, fi)
	}
	return out
}

func fieldByName(name string) (finfo, bool) {
	for _, f := range fields() {
		if f.Name == name {
			return f, true
		}
	}
	return finfo{}, false
}

func fieldByJSON(key string) (finfo, bool) {
	for _, f := range fields() {
		if f.JSON == key && key != "" {
			return f, true
		}
	}
	return finfo{}, false
}

func isInt(k reflect.Kind) bool   { return k >= reflect.Int && k <= reflect.Int64 }
func isUint(k reflect.Kind) bool  { return k >= reflect.Uint && k <= reflect.Uint64 }
func isFloat(k reflect.Kind) bool { return k == reflect.Float32 || k == reflect.Float64 }
func supported(k reflect.Kind) bool {
	return isInt(k) || isUint(k) || isFloat(k) || k == reflect.String || k == reflect.Bool
}

// setField assigns the textual value to the field; an unparsable value or an
// unknown field is an error of the case document, not of the code under test.
func setField(c *config.Config, name, val, root string) error {
	f := reflect.ValueOf(c).Elem().FieldByName(name)
	if !f.IsValid() {
		return fmt.Errorf("no field %s", name)
	}
	switch k := f.Kind(); {
	case isInt(k):
		n, err := strconv.ParseInt(val, 10, f.Type().Bits())
		if err != nil {
			return err
		}
		f.SetInt(n)
	case isUint(k):
		n, err := strconv.ParseUint(val, 10, f.Type().Bits())
		if err != nil {
			return err
		}
		f.SetUint(n)
	case isFloat(k):
		x, err := strconv.ParseFloat(val, 64)
		if err != nil && !math.IsInf(x, 0) {
			return err
		}
		f.SetFloat(x)
	case k == reflect.String:
		f.SetString(strings.ReplaceAll(val, "$ROOT", root))
	case k == reflect.Bool:
		f.SetBool(val == "true")
	default:
		return fmt.Errorf("field %s has unsupported kind %s", name, k)
	}
	return nil
}

func applySets(c *config.Config, sets []Set, root string) error {
	for _, s := range sets {
		if err := setField(c, s.Field, s.Val, root); err != nil {
			return fmt.Errorf("set %s=%q: %w", s.Field, s.Val, err)
		}
	}
	return nil
}

// cloneCfg copies the exported fields (the struct holds a mutex).
func cloneCfg(c *config.Config) *config.Config {
	out := new(config.Config)
	src, dst := reflect.ValueOf(c).Elem(), reflect.ValueOf(out).Elem()
	t := src.Type()
	for i := 0; i < t.NumField(); i++ {
		if t.Field(i).IsExported() {
			dst.Field(i).Set(src.Field(i))
		}
	}
	return out
}

// cmpCfg compares the exported fields; skip names are not compared. NaN equals NaN.
func cmpCfg(want, got *config.Config, skip map[string]bool) (field, desc string) {
	a, b := reflect.ValueOf(want).Elem(), reflect.ValueOf(got).Elem()
	t := a.Type()
	for i := 0; i < t.NumField(); i++ {
		f := t.Field(i)
		if !f.IsExported() || skip[f.Name] {
			continue
		}
		x, y := a.Field(i), b.Field(i)
		if isFloat(f.Type.Kind()) {
			if x.Float() == y.Float() && math.Signbit(x.Float()) == math.Signbit(y.Float()) {
				continue
			}
			if math.IsNaN(x.Float()) && math.IsNaN(y.Float()) {
				continue
			}
			return f.Name, fmt.Sprintf("%s: stored %v, loaded %v", f.Name, x.Float(), y.Float())
		}
		if !reflect.DeepEqual(x.Interface(), y.Interface()) {
			return f.Name, fmt.Sprintf("%s: stored %#v, loaded %#v", f.Name, x.Interface(), y.Interface())
		}
	}
	return "", ""
}

func fieldsOf(sets []Set) string {
	seen := map[string]bool{}
	var names []string
	for _, s := range sets {
		if !seen[s.Field] {
			seen[s.Field] = true
			names = append(names, s.Field)
		}
	}
	if len(names) == 0 {
		return "default"
	}
	if len(names) > 3 {
		return "multi"
	}
	return strings.Join(names, "+")
}

// ---------------------------------------------------------------------------
// value generators

func fmtFloat(x float64) string { return strconv.FormatFloat(x, 'g', -1, 64) }

var stringCands = []string{
	"", "", " ", "a", "/", ".", "wal", "$ROOT/db/wal", "$ROOT/db/sst", "relative/dir", "/tmp/with space/wal",
	"/данные/журнал", "日本語/パス", "emoji-\U0001F600", "tab\there", "line\nbreak", "quote\"back\\slash",
	"<html>&amp;", "sep\u2028\u2029", "nul\x00byte", "\ufffd", "e\u0301", strings.Repeat("long/", 60),
}

// intCands returns the candidate values for an integer field given the
// current values of the other fields (for cross-field rules).
func intCands(t *rapid.T, f finfo, cur *config.Config) []int64 {
	var c []int64
	v := reflect.ValueOf(cur).Elem()
	if r := ruleFor(f.Name); r != nil {
		switch r.Kind {
		case minInt:
			c = append(c, r.Min-1, r.Min, r.Min+1, r.Min-1, r.Min, r.Min+1, r.Min-1, r.Min-1)
		case rangeInt:
			c = append(c, r.Min-1, r.Min, r.Min+1, r.Max-1, r.Max, r.Max+1, r.Min-1, r.Max+1)
		case aboveField:
			if o := v.FieldByName(r.Other); o.IsValid() && isInt(o.Kind()) {
				c = append(c, o.Int()-1, o.Int(), o.Int()+1, o.Int()+1)
			}
			c = append(c, r.Max-1, r.Max, r.Max+1)
		}
	}
	for i := range table { // f is the "other" side of a cross-field rule
		if r := &table[i]; r.Kind == aboveField && r.Other == f.Name {
			if o := v.FieldByName(r.Field); o.IsValid() && isInt(o.Kind()) {
				c = append(c, o.Int()-1, o.Int(), o.Int()+1)
			}
		}
	}
	maxV, minV := int64(math.MaxInt64), int64(math.MinInt64)
	if f.Bits > 0 && f.Bits < 64 {
		maxV, minV = int64(1)<<(f.Bits-1)-1, -(int64(1) << (f.Bits - 1))
	}
	typ := rapid.Int64Range(2, 1<<20).Draw(t, "typical")
	base := v.FieldByName(f.Name).Int()
	c = append(c, 0, 1, -1, 2, typ, typ, math.MaxInt32, math.MaxInt32+1, maxV, minV)
	if base > minV && base < maxV {
		c = append(c, base-1, base+1)
	}
	out := c[:0]
	for _, x := range c {
		if x >= minV && x <= maxV {
			out = append(out, x)
		}
	}
	return out
}

func floatCands(t *rapid.T, f finfo) []float64 {
	var c []float64
	if r := ruleFor(f.Name); r != nil && r.Kind == gtFloat {
		up, down := math.Nextafter(r.Bound, math.Inf(1)), math.Nextafter(r.Bound, math.Inf(-1))
		c = append(c, r.Bound, up, down, r.Bound, up, down)
	}
	typ := rapid.Float64Range(1.0001, 1e6).Draw(t, "typicalf")
	c = append(c, 0, math.Copysign(0, -1), -1, 0.5, 1.5, 2, 10, typ, typ, 1e308, math.MaxFloat64,
		math.SmallestNonzeroFloat64, math.NaN(), math.Inf(1), math.Inf(-1), math.NaN(), math.Inf(1))
	return c
}

// verdictWith evaluates the table for cur with one field replaced.
func verdictWith(cur *config.Config, name, val string) verdict {
	s := cloneCfg(cur)
	if err := setField(s, name, val, "/r"); err != nil {
		return vInvalid
	}
	v, _ := tableVerdict(s)
	return v
}

// drawValue draws a textual value for field f. side "valid" keeps only
// candidates the table accepts in the context of cur (when cur itself is
// valid); side "any" takes every candidate.
func drawValue(t *rapid.T, f finfo, cur *config.Config, side string) string {
	var cands []string
	switch {
	case isInt(f.Kind):
		for _, x := range intCands(t, f, cur) {
			cands = append(cands, strconv.FormatInt(x, 10))
		}
	case isUint(f.Kind):
		cands = []string{"0", "1", "2", strconv.FormatUint(rapid.Uint64Range(2, 1<<20).Draw(t, "typicalu"), 10)}
	case isFloat(f.Kind):
		for _, x := range floatCands(t, f) {
			cands = append(cands, fmtFloat(x))
		}
	case f.Kind == reflect.String:
		cands = append(cands, stringCands...)
		s := rapid.StringOfN(rapid.Rune(), 1, 24, -1).Draw(t, "str")
		if !utf8.ValidString(s) {
			s = strings.ToValidUTF8(s, "\ufffd")
		}
		cands = append(cands, s, s)
	case f.Kind == reflect.Bool:
		cands = []string{"true", "false"}
	default:
		return ""
	}
	if side == "valid" {
		if base, _ := tableVerdict(cur); base == vValid {
			var ok []string
			for _, c := range cands {
				if verdictWith(cur, f.Name, c) == vValid {
					ok = append(ok, c)
				}
			}
			if len(ok) > 0 {
				cands = ok
			}
		}
	}
	val := rapid.SampledFrom(cands).Draw(t, "val")
	if isFloat(f.Kind) && (val == "NaN" || val == "+Inf") && !ev.Flag("nonfinite_ratio") {
		ev.R().Exclude("nonfinite_ratio")
		val = "10.5"
	}
	return val
}

// usable lists the fields the generators can assign.
func usable() []finfo {
	var out []finfo
	for _, f := range fields() {
		if supported(f.Kind) {
			out = append(out, f)
		} else {
			ev.R().Count("unsupported_field_kind_"+f.Name, 1)
		}
	}
	return out
}

const genRoot = "/r"

// genSets draws assignments. mode: single | few | all | validfew | validall | none.
func genSets(t *rapid.T, mode string) []Set {
	fs := usable()
	cur := config.NewDefaultConfig(genRoot + "/db")
	var sets []Set
	add := func(f finfo, side string) {
		v := drawValue(t, f, cur, side)
		sets = append(sets, Set{Field: f.Name, Val: v})
		_ = setField(cur, f.Name, v, genRoot)
	}
	var constrained []finfo
	for _, f := range fs {
		if ruleFor(f.Name) != nil {
			constrained = append(constrained, f)
		}
	}
	pick := func() finfo {
		// two of three picks go to a field with a documented constraint
		if len(constrained) > 0 && rapid.IntRange(0, 2).Draw(t, "constrained") != 0 {
			return constrained[rapid.IntRange(0, len(constrained)-1).Draw(t, "cfield")]
		}
		return fs[rapid.IntRange(0, len(fs)-1).Draw(t, "field")]
	}
	switch mode {
	case "single":
		add(pick(), "any")
	case "few":
		n := rapid.IntRange(2, 4).Draw(t, "nsets")
		for i := 0; i < n; i++ {
			add(pick(), rapid.SampledFrom([]string{"any", "valid", "valid"}).Draw(t, "side"))
		}
	case "all":
		for _, f := range fs {
			add(f, "valid")
		}
		n := rapid.IntRange(0, 2).Draw(t, "nextra")
		for i := 0; i < n; i++ {
			add(pick(), "any")
		}
	case "validfew":
		n := rapid.IntRange(1, 4).Draw(t, "nsets")
		for i := 0; i < n; i++ {
			add(pick(), "valid")
		}
	case "validall":
		for _, f := range fs {
			add(f, "valid")
		}
	}
	return sets
}

// ---------------------------------------------------------------------------
// classification

// nearBoundary reports whether the assignment s (evaluated in the final
// configuration fin) lies within +-1 of a table boundary.
func nearBoundary(s Set, fin *config.Config) bool {
	f, ok := fieldByName(s.Field)
	if !ok {
		return false
	}
	v := reflect.ValueOf(fin).Elem()
	near := func(x, b int64) bool { return x >= b-1 && x <= b+1 }
	if isInt(f.Kind) {
		x, err := strconv.ParseInt(s.Val, 10, 64)
		if err != nil {
			return false
		}
		if r := ruleFor(s.Field); r != nil {
			switch r.Kind {
			case minInt:
				if near(x, r.Min) {
					return true
				}
			case rangeInt:
				if near(x, r.Min) || near(x, r.Max) {
					return true
				}
			case aboveField:
				if o := v.FieldByName(r.Other); o.IsValid() && isInt(o.Kind()) && near(x, o.Int()) {
					return true
				}
				if near(x, r.Max) {
					return true
				}
			}
		}
		for i := range table {
			if r := &table[i]; r.Kind == aboveField && r.Other == s.Field {
				if o := v.FieldByName(r.Field); o.IsValid() && isInt(o.Kind()) && near(x, o.Int()) {
					return true
				}
			}
		}
		return false
	}
	r := ruleFor(s.Field)
	if r == nil {
		return false
	}
	switch {
	case isFloat(f.Kind) && r.Kind == gtFloat:
		x, _ := strconv.ParseFloat(s.Val, 64)
		return x == r.Bound || x == math.Nextafter(r.Bound, math.Inf(1)) || x == math.Nextafter(r.Bound, math.Inf(-1))
	case f.Kind == reflect.String && r.Kind == nonEmpty:
		return utf8.RuneCountInString(s.Val) <= 1
	}
	return false
}

func finalCfg(sets []Set) *config.Config {
	c := config.NewDefaultConfig(genRoot + "/db")
	_ = applySets(c, sets, genRoot)
	return c
}

func classifySets(sets []Set) (near bool, classes []string) {
	fin := finalCfg(sets)
	for _, s := range sets {
		if nearBoundary(s, fin) {
			near = true
		}
		f, _ := fieldByName(s.Field)
		switch {
		case isFloat(f.Kind):
			if x, _ := strconv.ParseFloat(s.Val, 64); math.IsNaN(x) || math.IsInf(x, 0) {
				classes = append(classes, "float_nonfinite")
			}
		case f.Kind == reflect.String:
			for _, r := range s.Val {
				if r > 127 {
					classes = append(classes, "string_non_ascii")
					break
				}
			}
		case isInt(f.Kind):
			if x, err := strconv.ParseInt(s.Val, 10, 64); err == nil && (x >= math.MaxInt32 || x <= math.MinInt32) {
				classes = append(classes, "int_extreme")
			}
		}
		if ruleFor(s.Field) == nil {
			classes = append(classes, "unconstrained_field_set")
		}
	}
	if near {
		classes = append(classes, "near_boundary")
	}
	if len(sets) > 1 {
		classes = append(classes, "multi_field")
	}
	v, _ := tableVerdict(fin)
	classes = append(classes, "table_"+v.String())
	return near, dedup(classes)
}

func dedup(in []string) []string {
	seen := map[string]bool{}
	var out []string
	for _, s := range in {
		if !seen[s] {
			seen[s] = true
			out = append(out, s)
		}
	}
	return out
}

func classify(c *Case) (bool, []string) {
	near, setClasses := classifySets(c.Sets)
	classes := []string{"kind_" + c.Kind}
	nt := false
	switch c.Kind {
	case "assign":
		nt = near
		for _, cl := range setClasses {
			classes = append(classes, "assign:"+cl)
		}
		classes = append(classes, "assign:dir_"+c.Dir)
		if len(c.Sets) == 1 {
			classes = append(classes, "assign:single_field")
		}
	case "manifest":
		nt = c.Manifest != nil && len(c.Manifest.Updates) > 0
		classes = append(classes, fmt.Sprintf("manifest:updates_%d", len(c.Manifest.Updates)))
		if c.Manifest.Trunc != "" {
			nt = true
			classes = append(classes, "manifest:history_truncations_"+c.Manifest.Trunc, "truncation")
		}
	case "concurrent":
		if c.Conc != nil && c.Conc.Valid != "" && c.Conc.Invalid != "" {
			nt = true
			classes = append(classes, "concurrent:field_"+c.Conc.Field, fmt.Sprintf("concurrent:depth_%d", c.Conc.Depth))
		}
	case "stored":
		if len(c.Sets) > 0 {
			classes = append(classes, "stored:non_default_base")
		}
		if c.Stored.Mode == "trunc_all" {
			nt = true
			classes = append(classes, "stored:all_truncations", "truncation")
		} else {
			n, cl := classifyMuts(c.Sets, c.Stored.Muts)
			nt = n
			for _, x := range cl {
				classes = append(classes, "stored:"+x)
			}
		}
	case "engine":
		classes = append(classes, "engine:"+c.Engine.Mode)
		if c.Engine.Mode == "valid" {
			nt = true // the writes always cross the configured memtable size (see runEngineValid)
			classes = append(classes, engineDirClasses(c.Sets)...)
			if c.Engine.Reopens > 1 {
				classes = append(classes, "engine:two_reopens")
			}
		} else {
			if c.Engine.PreFlush {
				classes = append(classes, "engine:data_in_tables_and_log")
			} else {
				classes = append(classes, "engine:data_in_log_only")
			}
			if c.Engine.AllTrunc {
				nt = true
				classes = append(classes, "engine:all_truncations", "truncation")
			}
			for _, m := range c.Engine.Damage {
				classes = append(classes, "engine:damage_"+m.Op)
				if m.Op == "trunc" {
					nt = true
					classes = append(classes, "truncation")
				}
			}
			if n, _ := classifyMuts(c.Sets, c.Engine.Damage); n {
				nt = true
			}
		}
	}
	return nt, dedup(classes)
}

// ---------------------------------------------------------------------------
// running

func runCase(c *Case) *Fail {
	switch c.Kind {
	case "assign":
		return runAssign(c)
	case "stored":
		return runStored(c)
	case "concurrent":
		return runConc(c)
	case "manifest":
		return runManifest(c)
	case "engine":
		if c.Engine != nil && c.Engine.Mode == "valid" {
			return runEngineValid(c)
		}
		if c.Engine != nil && c.Engine.Mode == "created" {
			return runEngineCreated(c)
		}
		return runEngineInvalid(c)
	}
	panic("unknown case kind " + c.Kind)
}

func check(t *rapid.T, c *Case) {
	nt, classes := classify(c)
	f := runCase(c)
	ev.R().Case(ev.Hash(c), nt, classes, func() any { return c })
	if f != nil {
		path := ev.R().Fail(f.Sig, f.Msg, Doc{Property: "C20", Case: *c, Signature: f.Sig, Message: f.Msg})
		t.Fatalf("C20 violated: %s: %s (replay %s)", f.Sig, f.Msg, path)
	}
}

func TestPropAssign(t *testing.T) {
	rapid.Check(t, func(t *rapid.T) {
		mode := rapid.SampledFrom([]string{"single", "single", "single", "few", "few", "all", "all"}).Draw(t, "mode")
		c := Case{Kind: "assign", Sets: genSets(t, mode),
			Dir: rapid.SampledFrom([]string{"fresh", "empty", "existing", "stale_tmp"}).Draw(t, "dir")}
		check(t, &c)
	})
}

func TestPropStored(t *testing.T) {
	rapid.Check(t, func(t *rapid.T) {
		c := genStored(t)
		check(t, &c)
	})
}

func TestPropEngine(t *testing.T) {
	rapid.Check(t, func(t *rapid.T) {
		c := genEngine(t)
		check(t, &c)
	})
}

// TestReplay re-runs a saved case without the library.
func TestReplay(t *testing.T) {
	f := os.Getenv("VERIF_REPLAY")
	if f == "" {
		t.Skip("no VERIF_REPLAY")
	}
	b, err := os.ReadFile(f)
	if err != nil {
		t.Fatal(err)
	}
	var d Doc
	if err := json.Unmarshal(b, &d); err != nil {
		t.Fatal(err)
	}
	if fl := runCase(&d.Case); fl != nil {
		ev.WriteReplayResult(ev.ReplayResult{File: f, Outcome: "fail", Signature: fl.Sig, Message: fl.Msg})
		t.Logf("replay fails: %s: %s", fl.Sig, fl.Msg)
		return
	}
	ev.WriteReplayResult(ev.ReplayResult{File: f, Outcome: "pass"})
}

// C05 — scans return exactly the live keys, once, in order, within bounds
// (DESIGN.md 5/C05). Model-based: a generated program builds a layer
// arrangement, then generated queries are compared with the sorted model.
// A concurrent phase checks scans running next to writers of other keys.
package c05

import (
	"bytes"
	"context"
	"encoding/json"
	"fmt"
	"os"
	"sort"
	"sync"
	"sync/atomic"
	"testing"

	"pgregory.net/rapid"

	"github.com/KevoDB/kevo/pkg/common/iterator"
	"github.com/KevoDB/kevo/pkg/common/iterator/bounded"
	"github.com/KevoDB/kevo/pkg/common/iterator/filtered"
	"github.com/KevoDB/kevo/pkg/engine"
	"github.com/KevoDB/kevo/pkg/engine/storage"
	"github.com/KevoDB/kevo/pkg/grpc/service"
	"github.com/KevoDB/kevo/pkg/transaction"
	pb "github.com/KevoDB/kevo/proto/kevo"
	"google.golang.org/grpc"

	"verif/internal/drive"
	"verif/internal/ev"
	"verif/internal/gen"
)

const rule = "case = rapid-drawn build program (put/del/tx/batch/flush/reopen and, unless excluded, 'retire' = flush everything then drop the " +
	"flushed log files so reads are served from SSTables only) over small memtables, followed by 20-60 drawn queries: full scan, range " +
	"[start,end) with bounds present/absent/between keys/equal/inverted/nil, Seek(t)+Next*k, SeekToLast, the same through BoundedIterator " +
	"and prefix/suffix FilteredIterator as the service composes them, sessions on ONE re-used iterator (Seek/SeekToFirst/SeekToLast/Next in any order, " +
	"each followed by reading k entries), read-write transactions that alternate writes (often re-writing their own keys) and scans, a bulk-load " +
	"class that produces SSTables of 3 and more data blocks, KevoService.Scan/TxScan called directly with prefix/suffix/range/limit options that have a documented meaning, and inside read-write transactions with uncommitted puts/deletes " +
	"overlaid and read-only transactions; oracle = sorted live keys of the map model (with overlay) filtered by the query, iterators read " +
	"the way KevoService.Scan reads them (tombstones skipped); concurrent phase: scans next to writers of a disjoint key set must be strictly " +
	"ascending, duplicate-free and contain every stable key. non-trivial = at least 3 layers (memtables+SSTables) hold data and at least " +
	"one key has versions in 2 or more layers or is shadowed by a tombstone; distinct by (program, queries) hash"

func TestMain(m *testing.M) {
	ev.Silence()
	rec := ev.Init("C05", rule)
	code := m.Run()
	rec.Flush(true)
	os.Exit(code)
}

// Query is one read-side request.
type Query struct {
	Kind  string       `json:"kind"` // full | range | seek | last | bounded | prefix | suffix | presuf
	Via   string       `json:"via"`  // engine | rotx | rwtx
	A     int          `json:"a"`    // target index (-1 = nil)
	B     int          `json:"b"`
	NextN int          `json:"next_n"`
	Pre   []byte       `json:"pre,omitempty"`
	Suf   []byte       `json:"suf,omitempty"`
	Over  []drive.TxOp `json:"over,omitempty"` // uncommitted writes of the read-write transaction
	// kind "session": ONE iterator (full, or the range [A,B) when either is >= 0)
	// is re-positioned and read repeatedly
	Ops []SessOp `json:"ops,omitempty"`
	// kind "txsession" (via rwtx): ONE read-write transaction alternates between
	// more writes and queries; the overlay accumulates
	Phases []Phase `json:"phases,omitempty"`
}

// SessOp is one operation on a re-used iterator.
type SessOp struct {
	Op string `json:"op"` // seek | first | last | next | write (another client puts a NEW key next to target T; engine sessions only)
	T  int    `json:"t"`  // seek target index
	N  int    `json:"n"`  // live entries to read afterwards
}

// Phase is one step of a transaction session: writes, then a query.
type Phase struct {
	Over []drive.TxOp `json:"over,omitempty"`
	Q    Query        `json:"q"`
}

// Case is a build program plus queries.
type Case struct {
	Program drive.Program `json:"program"`
	Queries []Query       `json:"queries"`
	Conc    *ConcPlan     `json:"conc,omitempty"`
}

// ConcPlan describes the concurrent phase.
type ConcPlan struct {
	Writers  int `json:"writers"`
	Scanners int `json:"scanners"`
	Ops      int `json:"ops"` // operations per writer
	Flushes  int `json:"flushes"`
}

// Doc is the replay document.
type Doc struct {
	Property string `json:"property"`
	Case     Case   `json:"case"`
	Failure  string `json:"failure,omitempty"`
}

type failure struct{ sig, msg string }

// targets derives seek targets / bounds from the key pool: every key, a value
// just above and just below each key, before-first and after-last.
func targets(keys [][]byte) [][]byte {
	var out [][]byte
	seen := map[string]bool{}
	add := func(b []byte) {
		if len(b) == 0 || seen[string(b)] {
			return
		}
		seen[string(b)] = true
		out = append(out, append([]byte{}, b...))
	}
	for _, k := range keys {
		if len(k) == 0 {
			add([]byte{0}) // successor of the empty key; it has no predecessor and nil already means "no bound"
			continue
		}
		add(k)
		add(append(append([]byte{}, k...), 0)) // immediate successor
		// a predecessor-ish value: last byte decremented (or dropped when 0)
		p := append([]byte{}, k...)
		if p[len(p)-1] > 0 {
			p[len(p)-1]--
			add(append(p, 0xff))
		} else {
			add(p[:len(p)-1])
		}
	}
	add([]byte{0})
	add([]byte{0xff, 0xff, 0xff, 0xff, 0xff})
	sort.Slice(out, func(i, j int) bool { return bytes.Compare(out[i], out[j]) < 0 })
	return out
}

type kv struct{ k, v []byte }

// expected computes the sorted live view of model+overlay filtered by f.
func expected(m drive.Model, p *drive.Program, over []drive.TxOp, keep func(k []byte) bool) []kv {
	mm := m.Clone()
	for _, o := range over {
		k := string(p.Keys[o.K])
		if o.Op == "put" {
			v := o.V.Bytes()
			if v == nil {
				v = []byte{}
			}
			mm[k] = v
		} else if o.Op == "del" {
			delete(mm, k)
		}
	}
	var out []kv
	for _, k := range mm.SortedKeys() {
		if keep == nil || keep([]byte(k)) {
			out = append(out, kv{[]byte(k), mm[k]})
		}
	}
	return out
}

// drain reads an already positioned iterator the way KevoService.Scan does.
func drain(it iterator.Iterator, max int) ([]kv, *failure) {
	var out []kv
	n := 0
	var prev []byte
	for it.Valid() {
		k := append([]byte{}, it.Key()...)
		if prev != nil && bytes.Compare(k, prev) <= 0 {
			return out, &failure{"order", fmt.Sprintf("iterator yields %q after %q (not strictly ascending)", trunc(k), trunc(prev))}
		}
		prev = k
		if !it.IsTombstone() {
			v := it.Value()
			if v == nil {
				v = []byte{}
			}
			out = append(out, kv{k, append([]byte{}, v...)})
			if max > 0 && len(out) >= max {
				return out, nil
			}
		}
		it.Next()
		n++
		if n > 200000 {
			return out, &failure{"endless", "iteration does not terminate"}
		}
	}
	return out, nil
}

// drainSkipping is drain with a set of keys that are left out of the result
// (they still take part in the order check).
func drainSkipping(it iterator.Iterator, max int, skip map[string]bool) ([]kv, *failure) {
	if len(skip) == 0 {
		return drain(it, max)
	}
	var out []kv
	n := 0
	var prev []byte
	for it.Valid() {
		k := append([]byte{}, it.Key()...)
		if prev != nil && bytes.Compare(k, prev) <= 0 {
			return out, &failure{"order", fmt.Sprintf("iterator yields %q after %q (not strictly ascending)", trunc(k), trunc(prev))}
		}
		prev = k
		if !it.IsTombstone() && !skip[string(k)] {
			v := it.Value()
			if v == nil {
				v = []byte{}
			}
			out = append(out, kv{k, append([]byte{}, v...)})
			if max > 0 && len(out) >= max {
				return out, nil
			}
		}
		it.Next()
		n++
		if n > 200000 {
			return out, &failure{"endless", "iteration does not terminate"}
		}
	}
	return out, nil
}

func trunc(b []byte) []byte {
	if len(b) > 14 {
		return b[:14]
	}
	return b
}

func equalKV(got, want []kv) string {
	for i := 0; i < len(got) && i < len(want); i++ {
		if !bytes.Equal(got[i].k, want[i].k) {
			return fmt.Sprintf("position %d: key %q, want %q (got %d keys, want %d)", i, trunc(got[i].k), trunc(want[i].k), len(got), len(want))
		}
		if !bytes.Equal(got[i].v, want[i].v) {
			return fmt.Sprintf("key %q: value len %d first bytes %x, want len %d first bytes %x", trunc(got[i].k), len(got[i].v), trunc(got[i].v), len(want[i].v), trunc(want[i].v))
		}
	}
	if len(got) != len(want) {
		if len(got) > len(want) {
			return fmt.Sprintf("%d keys, want %d: extra key %q", len(got), len(want), trunc(got[len(want)].k))
		}
		return fmt.Sprintf("%d keys, want %d: missing key %q", len(got), len(want), trunc(want[len(got)].k))
	}
	return ""
}

type txLike interface {
	NewIterator() iterator.Iterator
	NewRangeIterator(a, b []byte) iterator.Iterator
	Put(k, v []byte) error
	Delete(k []byte) error
	Rollback() error
}

// runQuery executes one query against the engine and compares with the model.
func runQuery(e *engine.EngineFacade, m drive.Model, p *drive.Program, tg [][]byte, q *Query) *failure {
	if q.Kind == "svc" {
		return runSvcQuery(e, m, p, tg, q)
	}
	var over []drive.TxOp
	var tx txLike
	apply := func(t txLike, ops []drive.TxOp) *failure {
		for _, o := range ops {
			var err error
			if o.Op == "put" {
				err = t.Put(p.Keys[o.K], o.V.Bytes())
			} else {
				err = t.Delete(p.Keys[o.K])
			}
			if err != nil {
				return &failure{"tx-write-error", err.Error()}
			}
		}
		return nil
	}
	if q.Via == "rotx" || q.Via == "rwtx" {
		t, err := e.BeginTransaction(q.Via == "rotx")
		if err != nil {
			return &failure{"begin-error", err.Error()}
		}
		tx = t
		defer t.Rollback()
		if q.Via == "rwtx" {
			over = q.Over
			if f := apply(t, over); f != nil {
				return f
			}
		}
	}
	if q.Kind == "txsession" {
		if tx == nil || q.Via != "rwtx" {
			return &failure{"bad-query", "txsession needs via=rwtx"}
		}
		for pi := range q.Phases {
			ph := &q.Phases[pi]
			if f := apply(tx, ph.Over); f != nil {
				return f
			}
			over = append(over, ph.Over...)
			sub := ph.Q
			sub.Via = "rwtx"
			if f := execQuery(e, tx, over, m, p, tg, &sub); f != nil {
				return &failure{f.sig + "/txsession", fmt.Sprintf("phase %d (%d uncommitted writes so far, %s): %s", pi, len(over), briefQ(&sub, tg), f.msg)}
			}
		}
		return nil
	}
	return execQuery(e, tx, over, m, p, tg, q)
}

// execQuery runs one query on the engine (tx == nil) or inside the given
// transaction, whose uncommitted writes so far are over.
func execQuery(e *engine.EngineFacade, tx txLike, over []drive.TxOp, m drive.Model, p *drive.Program, tg [][]byte, q *Query) *failure {
	bound := func(i int) []byte {
		if i < 0 || i >= len(tg) {
			return nil
		}
		return tg[i]
	}
	a, b := bound(q.A), bound(q.B)
	full := func() (iterator.Iterator, *failure) {
		if tx != nil {
			return tx.NewIterator(), nil
		}
		it, err := e.GetIterator()
		if err != nil {
			return nil, &failure{"iterator-error", err.Error()}
		}
		return it, nil
	}
	rng := func(a, b []byte) (iterator.Iterator, *failure) {
		if tx != nil {
			return tx.NewRangeIterator(a, b), nil
		}
		it, err := e.GetRangeIterator(a, b)
		if err != nil {
			return nil, &failure{"iterator-error", err.Error()}
		}
		return it, nil
	}
	inRange := func(k []byte) bool {
		if a != nil && bytes.Compare(k, a) < 0 {
			return false
		}
		if b != nil && bytes.Compare(k, b) >= 0 {
			return false
		}
		return true
	}
	ctx := q.Kind + "/" + q.Via
	cmp := func(got []kv, f *failure, want []kv) *failure {
		if f != nil {
			return &failure{f.sig + "@" + ctx, f.msg}
		}
		if d := equalKV(got, want); d != "" {
			return &failure{"content@" + ctx, d}
		}
		return nil
	}
	switch q.Kind {
	case "full":
		it, f := full()
		if f != nil {
			return f
		}
		it.SeekToFirst()
		got, f := drain(it, 0)
		return cmp(got, f, expected(m, p, over, nil))
	case "range":
		it, f := rng(a, b)
		if f != nil {
			return f
		}
		it.SeekToFirst()
		got, f := drain(it, 0)
		return cmp(got, f, expected(m, p, over, inRange))
	case "bounded":
		it, f := full()
		if f != nil {
			return f
		}
		bi := bounded.NewBoundedIterator(it, a, b)
		bi.SeekToFirst()
		got, f := drain(bi, 0)
		return cmp(got, f, expected(m, p, over, inRange))
	case "prefix", "suffix", "presuf":
		it, f := full()
		if f != nil {
			return f
		}
		var fi iterator.Iterator
		keep := func(k []byte) bool { return true }
		switch q.Kind {
		case "prefix":
			fi = filtered.NewPrefixIterator(it, q.Pre)
			keep = func(k []byte) bool { return bytes.HasPrefix(k, q.Pre) }
		case "suffix":
			fi = filtered.NewSuffixIterator(it, q.Suf)
			keep = func(k []byte) bool { return bytes.HasSuffix(k, q.Suf) }
		default:
			fi = filtered.NewSuffixIterator(filtered.NewPrefixIterator(it, q.Pre), q.Suf)
			keep = func(k []byte) bool { return bytes.HasPrefix(k, q.Pre) && bytes.HasSuffix(k, q.Suf) }
		}
		fi.SeekToFirst()
		got, f := drain(fi, q.NextN) // NextN doubles as the limit (0 = none), like the service's limit
		want := expected(m, p, over, keep)
		if q.NextN > 0 && len(want) > q.NextN {
			want = want[:q.NextN]
		}
		return cmp(got, f, want)
	case "seek":
		// Seek(t) on the full iterator (or on a range iterator when B >= 0),
		// then read on: must yield exactly the live keys >= t (within the range)
		var it iterator.Iterator
		var f *failure
		keep := func(k []byte) bool { return a == nil || bytes.Compare(k, a) >= 0 }
		if q.B >= 0 {
			// range iterator [nil, b) then Seek(a)
			it, f = rng(nil, b)
			keep = func(k []byte) bool {
				return (a == nil || bytes.Compare(k, a) >= 0) && (b == nil || bytes.Compare(k, b) < 0)
			}
		} else {
			it, f = full()
		}
		if f != nil {
			return f
		}
		if a == nil {
			it.SeekToFirst()
		} else {
			ok := it.Seek(a)
			if ok != it.Valid() {
				return &failure{"seek-result@" + ctx, fmt.Sprintf("Seek(%q) returned %v but Valid() is %v", trunc(a), ok, it.Valid())}
			}
			if it.Valid() && bytes.Compare(it.Key(), a) < 0 {
				return &failure{"seek-before-target@" + ctx, fmt.Sprintf("Seek(%q) landed on smaller key %q", trunc(a), trunc(it.Key()))}
			}
		}
		limit := 0
		if q.NextN > 0 {
			limit = q.NextN
		}
		got, f := drain(it, limit)
		want := expected(m, p, over, keep)
		if limit > 0 && len(want) > limit {
			want = want[:limit]
		}
		return cmp(got, f, want)
	case "session":
		var it iterator.Iterator
		var f *failure
		keep := func(k []byte) bool { return true }
		if q.B >= 0 || q.A >= 0 {
			it, f = rng(a, b)
			keep = inRange
		} else {
			it, f = full()
		}
		if f != nil {
			return f
		}
		want := expected(m, p, over, keep)
		pos := -1 // index in want of the next live entry the iterator must yield; -1 = not positioned
		// keys another client wrote after this iterator was created: the scan may or
		// may not show them ("every key that existed before it started and is not
		// written during it"), so they are taken out of what it yields
		during := map[string]bool{}
		for oi, op := range q.Ops {
			octx := fmt.Sprintf("%s op %d (%s)", ctx, oi, op.Op)
			switch op.Op {
			case "write":
				if tx != nil {
					continue
				}
				base := bound(op.T)
				if base == nil {
					base = []byte{'m'}
				}
				fk := append(append([]byte{}, base...), 0x00, '~', 'w', byte(len(m)>>8), byte(len(m)))
				if _, exists := m[string(fk)]; exists {
					continue
				}
				fv := []byte{0xEE, byte(oi)}
				if err := e.Put(fk, fv); err != nil {
					return &failure{"foreign-write-error@" + ctx, err.Error()}
				}
				m[string(fk)] = fv // an acknowledged write: later queries must see it
				during[string(fk)] = true
				continue
			case "first":
				it.SeekToFirst()
				pos = 0
			case "seek":
				t := bound(op.T)
				if t == nil {
					it.SeekToFirst()
					pos = 0
					break
				}
				ok := it.Seek(t)
				if ok != it.Valid() {
					return &failure{"seek-result@" + ctx, fmt.Sprintf("%s: Seek(%q) returned %v but Valid() is %v", octx, trunc(t), ok, it.Valid())}
				}
				if it.Valid() && bytes.Compare(it.Key(), t) < 0 {
					return &failure{"seek-before-target@" + ctx, fmt.Sprintf("%s: Seek(%q) on the re-used iterator landed on smaller key %q", octx, trunc(t), trunc(it.Key()))}
				}
				pos = sort.Search(len(want), func(i int) bool { return bytes.Compare(want[i].k, t) >= 0 })
			case "last":
				it.SeekToLast()
				if it.Valid() && during[string(it.Key())] {
					// stands on a key written during the session: nothing to judge, and
					// nothing defined to continue from
					pos = -1
					continue
				}
				if f := checkLast(it, want, keep, ctx); f != nil {
					f.msg = octx + ": " + f.msg
					return f
				}
				// continue from the greatest live key when the iterator stands on it
				pos = len(want)
				if it.Valid() && !it.IsTombstone() {
					pos = len(want) - 1
				}
			case "next":
				if pos < 0 {
					continue // not positioned yet: nothing defined to continue from
				}
			}
			if op.N <= 0 || pos < 0 {
				continue
			}
			got, f := drainSkipping(it, op.N, during)
			if f != nil {
				return &failure{f.sig + "@" + ctx, octx + ": " + f.msg}
			}
			w := want[min(pos, len(want)):]
			if len(w) > op.N {
				w = w[:op.N]
			}
			if d := equalKV(got, w); d != "" {
				return &failure{"content@" + ctx, fmt.Sprintf("%s, reading %d entries from position %d of %d: %s", octx, op.N, pos, len(want), d)}
			}
			// drain stops ON the last entry it returned when the limit was reached,
			// behind the end otherwise
			if len(got) == op.N {
				pos += len(got) - 1
				// step off the entry already returned so that a following "next" continues behind it
				if it.Valid() {
					it.Next()
				}
				pos++
			} else {
				pos = len(want)
			}
		}
		return nil
	case "last":
		var it iterator.Iterator
		var f *failure
		keep := func(k []byte) bool { return true }
		if q.B >= 0 || q.A >= 0 {
			it, f = rng(a, b)
			keep = inRange
		} else {
			it, f = full()
		}
		if f != nil {
			return f
		}
		it.SeekToLast()
		want := expected(m, p, over, keep)
		return checkLast(it, want, keep, ctx)
	}
	return &failure{"bad-query", q.Kind}
}

// checkLast judges the position of an iterator right after SeekToLast.
func checkLast(it iterator.Iterator, want []kv, keep func(k []byte) bool, ctx string) *failure {
	{
		if !it.Valid() {
			if len(want) > 0 {
				return &failure{"last-invalid@" + ctx, fmt.Sprintf("SeekToLast is invalid but %d live keys exist (greatest %q)", len(want), trunc(want[len(want)-1].k))}
			}
			return nil
		}
		k := it.Key()
		if !keep(k) {
			return &failure{"last-out-of-bounds@" + ctx, fmt.Sprintf("SeekToLast landed on %q outside the range", trunc(k))}
		}
		if len(want) > 0 {
			g := want[len(want)-1]
			if bytes.Compare(k, g.k) < 0 {
				return &failure{"last-too-small@" + ctx, fmt.Sprintf("SeekToLast landed on %q, greatest live key is %q", trunc(k), trunc(g.k))}
			}
			if !it.IsTombstone() {
				v := it.Value()
				if v == nil {
					v = []byte{}
				}
				if !bytes.Equal(k, g.k) || !bytes.Equal(v, g.v) {
					return &failure{"last-wrong@" + ctx, fmt.Sprintf("SeekToLast landed on live entry %q (value len %d), want %q (value len %d)", trunc(k), len(v), trunc(g.k), len(g.v))}
				}
			}
		} else if !it.IsTombstone() {
			return &failure{"last-wrong@" + ctx, fmt.Sprintf("SeekToLast landed on live entry %q but no live key exists", trunc(k))}
		}
		return nil
	}
}

// scanStream collects what KevoService.Scan / TxScan send.
type scanStream struct {
	grpc.ServerStream
	out []kv
}

func (s *scanStream) Context() context.Context { return context.Background() }
func (s *scanStream) Send(r *pb.ScanResponse) error {
	s.out = append(s.out, kv{append([]byte{}, r.Key...), append([]byte{}, r.Value...)})
	return nil
}

type txScanStream struct {
	grpc.ServerStream
	out []kv
}

func (s *txScanStream) Context() context.Context { return context.Background() }
func (s *txScanStream) Send(r *pb.TxScanResponse) error {
	s.out = append(s.out, kv{append([]byte{}, r.Key...), append([]byte{}, r.Value...)})
	return nil
}

// runSvcQuery drives KevoService.Scan (Via engine/rotx) or TxScan on an open
// read-write handle with an overlay (Via rwtx). Only option combinations with
// a documented meaning are generated: filters only (prefix, suffix, both),
// range only, or neither; Limit <= 0 means no limit.
func runSvcQuery(e *engine.EngineFacade, m drive.Model, p *drive.Program, tg [][]byte, q *Query) *failure {
	reg := transaction.NewRegistry()
	defer reg.GracefulShutdown(context.Background())
	svc := service.NewKevoServiceServer(e, reg, nil)
	bound := func(i int) []byte {
		if i < 0 || i >= len(tg) {
			return nil
		}
		return tg[i]
	}
	var a, b []byte
	keep := func(k []byte) bool { return true }
	mode := "neither"
	switch {
	case len(q.Pre) > 0 && len(q.Suf) > 0:
		mode = "prefix+suffix"
		keep = func(k []byte) bool { return bytes.HasPrefix(k, q.Pre) && bytes.HasSuffix(k, q.Suf) }
	case len(q.Pre) > 0:
		mode = "prefix"
		keep = func(k []byte) bool { return bytes.HasPrefix(k, q.Pre) }
	case len(q.Suf) > 0:
		mode = "suffix"
		keep = func(k []byte) bool { return bytes.HasSuffix(k, q.Suf) }
	case q.A >= 0 || q.B >= 0:
		mode = "range"
		a, b = bound(q.A), bound(q.B)
		keep = func(k []byte) bool {
			return (a == nil || bytes.Compare(k, a) >= 0) && (b == nil || bytes.Compare(k, b) < 0)
		}
	}
	ctx := "svc:" + mode + "/" + q.Via
	var got []kv
	var over []drive.TxOp
	if q.Via == "rwtx" {
		over = nil
		for _, o := range q.Over {
			if n := len(p.Keys[o.K]); n > 0 && n <= 4096 { // the service refuses keys outside 1..4096 bytes (documented key limits)
				over = append(over, o)
			}
		}
		br, err := svc.BeginTransaction(context.Background(), &pb.BeginTransactionRequest{ReadOnly: false})
		if err != nil {
			return &failure{"begin-error@" + ctx, err.Error()}
		}
		id := br.TransactionId
		defer svc.RollbackTransaction(context.Background(), &pb.RollbackTransactionRequest{TransactionId: id})
		for _, o := range over {
			var err error
			if o.Op == "put" {
				_, err = svc.TxPut(context.Background(), &pb.TxPutRequest{TransactionId: id, Key: p.Keys[o.K], Value: o.V.Bytes()})
			} else {
				_, err = svc.TxDelete(context.Background(), &pb.TxDeleteRequest{TransactionId: id, Key: p.Keys[o.K]})
			}
			if err != nil {
				return &failure{"tx-write-error@" + ctx, err.Error()}
			}
		}
		st := &txScanStream{}
		req := &pb.TxScanRequest{TransactionId: id, Prefix: q.Pre, Suffix: q.Suf, Limit: int32(q.NextN)}
		if mode == "range" {
			req.StartKey, req.EndKey = a, b
		}
		if err := svc.TxScan(req, st); err != nil {
			return &failure{"scan-error@" + ctx, err.Error()}
		}
		got = st.out
	} else {
		st := &scanStream{}
		req := &pb.ScanRequest{Prefix: q.Pre, Suffix: q.Suf, Limit: int32(q.NextN)}
		if mode == "range" {
			req.StartKey, req.EndKey = a, b
		}
		if err := svc.Scan(req, st); err != nil {
			return &failure{"scan-error@" + ctx, err.Error()}
		}
		got = st.out
	}
	want := expected(m, p, over, keep)
	if q.NextN > 0 && len(want) > q.NextN {
		want = want[:q.NextN]
	}
	for i := range got {
		if got[i].v == nil {
			got[i].v = []byte{}
		}
	}
	if d := equalKV(got, want); d != "" {
		return &failure{"content@" + ctx, d}
	}
	return nil
}

type layerStats struct {
	layers     int
	multiLayer bool
}

func layerInfo(e *engine.EngineFacade) (int, int) {
	st := e.GetStats()
	imm, _ := st["storage_immutable_memtable_count"].(int)
	sst, _ := st["storage_sstable_count"].(int)
	return imm, sst
}

// runCase builds the data set and runs the queries.
func runCase(c *Case) (*failure, []string, bool) {
	dir, err := os.MkdirTemp("", "c05-")
	if err != nil {
		panic(err)
	}
	defer os.RemoveAll(dir)
	p := &c.Program
	r, mm := drive.NewRunner(dir, p)
	if mm != nil {
		return &failure{"open-error", mm.Error()}, nil, false
	}
	defer r.Close()
	retired := false
	switches := 0
	for i := range p.Steps {
		if p.Steps[i].Op == "retire" {
			retired = true
		}
		mm, err := r.Do(i)
		if mm != nil {
			return &failure{"build:" + mm.Signature(), mm.Error()}, nil, false
		}
		if err != nil {
			ev.R().Count("cases_stopped_at_write_error", 1)
			return nil, []string{"stopped_at_write_error"}, false
		}
	}
	_ = switches
	imm, sst := layerInfo(r.Eng)
	// versions per key across steps: a key written in >= 2 different "epochs"
	// (separated by flush/reopen/retire or memtable switches) lives in >= 2 layers
	epoch := 0
	firstEpoch := map[int]int{}
	multi := false
	for _, s := range p.Steps {
		switch s.Op {
		case "flush", "reopen", "retire":
			epoch++
		}
		touch := func(k int) {
			if e0, ok := firstEpoch[k]; ok && e0 != epoch {
				multi = true
			} else if !ok {
				firstEpoch[k] = epoch
			}
		}
		switch s.Op {
		case "put", "del":
			touch(s.K)
		case "tx", "batch":
			if s.Op == "batch" || s.Commit {
				for _, o := range s.Tx {
					if o.Op != "get" && o.Op != "last" {
						touch(o.K)
					}
				}
			}
		}
	}
	classes := []string{}
	if sst >= 2 {
		classes = append(classes, "sstables>=2")
	}
	if retired {
		classes = append(classes, "log_retired(sst_only_reads)")
	}
	if multi {
		classes = append(classes, "key_in_several_layers")
	}
	if ents, err := os.ReadDir(dir + "/sst"); err == nil {
		for _, de := range ents {
			if fi, err := de.Info(); err == nil && fi.Size() >= 3*64*1024 {
				classes = append(classes, "sstable_with_3+_blocks")
				break
			}
		}
	}
	hasSess, hasTxSess := false, false
	for qi := range c.Queries {
		switch c.Queries[qi].Kind {
		case "session":
			hasSess = true
		case "txsession":
			hasTxSess = true
		}
	}
	if hasSess {
		classes = append(classes, "reused_iterator_session")
	}
	if hasTxSess {
		classes = append(classes, "tx_write_scan_write_scan")
	}
	layers := 1 + imm + sst
	nt := layers >= 3 && multi
	tg := targets(p.Keys)
	for qi := range c.Queries {
		q := &c.Queries[qi]
		if f := runQuery(r.Eng, r.Model, p, tg, q); f != nil {
			f.msg = fmt.Sprintf("query %d %+v (layers: imm=%d sst=%d retired=%v): %s", qi, briefQ(q, tg), imm, sst, retired, f.msg)
			return f, classes, nt
		}
	}
	if c.Conc != nil {
		classes = append(classes, "concurrent_phase")
		if f := runConc(r.Eng, r.Model, p, c.Conc); f != nil {
			return f, classes, nt
		}
	}
	return nil, classes, nt
}

func briefQ(q *Query, tg [][]byte) string {
	b := func(i int) string {
		if i < 0 || i >= len(tg) {
			return "nil"
		}
		return fmt.Sprintf("%q", trunc(tg[i]))
	}
	extra := ""
	if q.Kind == "session" {
		for _, o := range q.Ops {
			if o.Op == "seek" {
				extra += fmt.Sprintf(" seek(%s)+%d", b(o.T), o.N)
			} else {
				extra += fmt.Sprintf(" %s+%d", o.Op, o.N)
			}
		}
	}
	if q.Kind == "txsession" {
		extra = fmt.Sprintf(" phases=%d", len(q.Phases))
	}
	return fmt.Sprintf("{%s via %s a=%s b=%s n=%d pre=%q suf=%q over=%d%s}", q.Kind, q.Via, b(q.A), b(q.B), q.NextN, q.Pre, q.Suf, len(q.Over), extra)
}

// runConc: scanners iterate while writers put/delete keys of a disjoint key
// set ("w..." keys) and flush; every scan must be strictly ascending,
// duplicate-free and contain every stable key (the model's keys) with its value.
func runConc(e *engine.EngineFacade, m drive.Model, p *drive.Program, cp *ConcPlan) *failure {
	stable := expected(m, p, nil, nil)
	var stop atomic.Bool
	var mu sync.Mutex
	var fail *failure
	var wg, wwg sync.WaitGroup
	for w := 0; w < cp.Writers; w++ {
		wwg.Add(1)
		go func(w int) {
			defer wwg.Done()
			for i := 0; i < cp.Ops; i++ {
				k := []byte(fmt.Sprintf("\xff\xffw%d-%03d", w, i%17))
				if i%5 == 4 {
					_ = e.Delete(k)
				} else {
					_ = e.Put(k, []byte(fmt.Sprintf("wv%d-%d", w, i)))
				}
				if cp.Flushes > 0 && i%(cp.Ops/cp.Flushes+1) == 0 && w == 0 {
					_ = e.FlushImMemTables()
				}
			}
		}(w)
	}
	scans := atomic.Int64{}
	for s := 0; s < cp.Scanners; s++ {
		wg.Add(1)
		go func() {
			defer wg.Done()
			for !stop.Load() {
				it, err := e.GetIterator()
				if err != nil {
					continue
				}
				it.SeekToFirst()
				got, f := drain(it, 0)
				scans.Add(1)
				if f == nil {
					// project on stable keys (writers use keys >= "\xff\xffw", outside the pool)
					var proj []kv
					for _, x := range got {
						if !bytes.HasPrefix(x.k, []byte("\xff\xffw")) {
							proj = append(proj, x)
						}
					}
					if d := equalKV(proj, stable); d != "" {
						f = &failure{"content", d}
					}
				}
				if f != nil {
					mu.Lock()
					if fail == nil {
						fail = &failure{"conc:" + f.sig, "scan concurrent with writers of other keys: " + f.msg}
					}
					mu.Unlock()
					stop.Store(true)
					return
				}
			}
		}()
	}
	wwg.Wait()
	stop.Store(true)
	wg.Wait()
	ev.R().Count("concurrent_scans", int(scans.Load()))
	// leave the engine in a state in which the writers' keys do not disturb anything: nothing else follows
	_ = storage.ErrKeyNotFound
	return fail
}

func genCase(t *rapid.T) Case {
	w := map[string]int{"put": 10, "del": 4, "tx": 3, "batch": 2, "flush": 4, "reopen": 2}
	if ev.Flag("sst_only_reads") {
		w["retire"] = 2
	} else {
		ev.R().Exclude("sst_only_reads")
	}
	o := gen.ProgOpts{MinSteps: 8, MaxSteps: 60, Weights: w}
	o.Val.Big = rapid.IntRange(0, 3).Draw(t, "bigvals") == 0
	p := gen.Program(t, o)
	// bias: small memtables so that several layers exist
	if rapid.IntRange(0, 3).Draw(t, "smallmt") != 0 {
		p.Cfg.MemTableSize = rapid.SampledFrom([]int64{256, 512, 1024}).Draw(t, "mt")
	}
	// a quarter of the cases: a bulk load first, so that one SSTable has many
	// (>= 3) data blocks (a block is closed at 64 KiB): 12-40 keys with
	// 12-48 KiB values in one memtable, flushed, logs dropped, reopened
	if ev.Flag("sst_only_reads") && rapid.IntRange(0, 3).Draw(t, "multiblock") == 0 {
		p.Cfg.MemTableSize = 32 << 20
		n := rapid.IntRange(12, 40).Draw(t, "mb_keys")
		for len(p.Keys) < n {
			p.Keys = append(p.Keys, []byte(fmt.Sprintf("mb-%03d", len(p.Keys))))
		}
		var pre []drive.Step
		for k := range p.Keys {
			pre = append(pre, drive.Step{Op: "put", K: k, V: &drive.Val{Len: rapid.IntRange(12*1024, 48*1024).Draw(t, "mb_vlen"), Tag: uint32(800000 + k)}})
		}
		pre = append(pre, drive.Step{Op: "retire"}, drive.Step{Op: "reopen"})
		if len(p.Steps) > 12 {
			p.Steps = p.Steps[:12]
		}
		p.Steps = append(pre, p.Steps...)
	}
	tg := targets(p.Keys)
	var neKeys [][]byte // prefixes and suffixes are cut from non-empty keys
	for _, k := range p.Keys {
		if len(k) > 0 && len(k) <= 4096 {
			neKeys = append(neKeys, k)
		}
	}
	nq := rapid.IntRange(20, 60).Draw(t, "nq")
	c := Case{Program: p}
	kinds := []string{"full", "range", "range", "seek", "seek", "seek", "last", "bounded", "prefix", "suffix", "presuf", "svc", "svc", "svc",
		"session", "session", "session", "txsession", "txsession"}
	overlay := func(label string, base int) []drive.TxOp {
		var out []drive.TxOp
		no := rapid.IntRange(0, 4).Draw(t, label)
		for j := 0; j < no; j++ {
			k := rapid.IntRange(0, len(p.Keys)-1).Draw(t, "ok")
			if rapid.Bool().Draw(t, "odel") {
				out = append(out, drive.TxOp{Op: "del", K: k})
			} else {
				out = append(out, drive.TxOp{Op: "put", K: k, V: gen.Value(t, uint32(base+j), gen.ValOpts{})})
			}
		}
		return out
	}
	session := func(q *Query) {
		if rapid.IntRange(0, 2).Draw(t, "sessfull") != 0 {
			q.A, q.B = -1, -1
		}
		n := rapid.IntRange(2, 8).Draw(t, "nsess")
		for j := 0; j < n; j++ {
			q.Ops = append(q.Ops, SessOp{
				Op: rapid.SampledFrom([]string{"seek", "seek", "seek", "seek", "first", "last", "next", "write", "write"}).Draw(t, "sop"),
				T:  rapid.IntRange(0, len(tg)-1).Draw(t, "st"),
				N:  rapid.SampledFrom([]int{0, 1, 1, 2, 3, 6}).Draw(t, "sn"),
			})
		}
	}
	for i := 0; i < nq; i++ {
		q := Query{
			Kind: rapid.SampledFrom(kinds).Draw(t, "qkind"),
			Via:  rapid.SampledFrom([]string{"engine", "engine", "rotx", "rwtx"}).Draw(t, "via"),
			A:    rapid.IntRange(-1, len(tg)-1).Draw(t, "a"),
			B:    rapid.IntRange(-1, len(tg)-1).Draw(t, "b"),
		}
		switch q.Kind {
		case "session":
			session(&q)
		case "txsession":
			// one read-write transaction: writes, query, more writes (often to the
			// SAME keys: overwrite, delete, re-put), query again, ...
			q.Via = "rwtx"
			q.A, q.B = -1, -1
			np := rapid.IntRange(2, 5).Draw(t, "nphases")
			var touched []int
			for j := 0; j < np; j++ {
				ph := Phase{}
				if j > 0 && len(touched) > 0 && rapid.IntRange(0, 2).Draw(t, "rewrite") != 0 {
					// only keys the transaction already wrote
					m := rapid.IntRange(1, 3).Draw(t, "nrew")
					for x := 0; x < m; x++ {
						k := touched[rapid.IntRange(0, len(touched)-1).Draw(t, "rk")]
						if rapid.Bool().Draw(t, "rdel") {
							ph.Over = append(ph.Over, drive.TxOp{Op: "del", K: k})
						} else {
							ph.Over = append(ph.Over, drive.TxOp{Op: "put", K: k, V: gen.Value(t, uint32(700000+i*100+j*10+x), gen.ValOpts{})})
						}
					}
				} else {
					ph.Over = overlay("nphover", 600000+i*100+j*10)
				}
				for _, o := range ph.Over {
					touched = append(touched, o.K)
				}
				sub := Query{Kind: rapid.SampledFrom([]string{"full", "full", "range", "seek", "session", "last"}).Draw(t, "phkind"),
					A: rapid.IntRange(-1, len(tg)-1).Draw(t, "pa"), B: rapid.IntRange(-1, len(tg)-1).Draw(t, "pb")}
				switch sub.Kind {
				case "seek":
					sub.NextN = rapid.IntRange(0, 4).Draw(t, "pnextn")
					sub.B = -1
				case "session":
					session(&sub)
				case "last":
					sub.A, sub.B = -1, -1
				}
				ph.Q = sub
				q.Phases = append(q.Phases, ph)
			}
		case "seek":
			q.NextN = rapid.IntRange(0, 4).Draw(t, "nextn")
			if rapid.IntRange(0, 2).Draw(t, "seekrange") != 0 {
				q.B = -1
			}
		case "last":
			if rapid.Bool().Draw(t, "lastfull") {
				q.A, q.B = -1, -1
			}
		case "svc":
			// one of: prefix | suffix | prefix+suffix | range | neither
			mode := rapid.SampledFrom([]string{"prefix", "prefix", "suffix", "both", "range", "neither"}).Draw(t, "svcmode")
			k := neKeys[rapid.IntRange(0, len(neKeys)-1).Draw(t, "sfk")]
			if mode == "prefix" || mode == "both" {
				pl := rapid.IntRange(1, min(len(k), 4)).Draw(t, "spl")
				q.Pre = append([]byte{}, k[:pl]...)
			}
			if mode == "suffix" || mode == "both" {
				k2 := neKeys[rapid.IntRange(0, len(neKeys)-1).Draw(t, "sfk2")]
				sl := rapid.IntRange(1, min(len(k2), 2)).Draw(t, "ssl")
				q.Suf = append([]byte{}, k2[len(k2)-sl:]...)
			}
			if mode != "range" {
				q.A, q.B = -1, -1
			} else if q.A < 0 && q.B < 0 {
				q.A = 0
			}
			q.NextN = rapid.SampledFrom([]int{0, 0, -1, 1, 2, 7}).Draw(t, "slimit")
			if q.Via == "rotx" {
				q.Via = "engine"
			}
		case "prefix", "suffix", "presuf":
			k := neKeys[rapid.IntRange(0, len(neKeys)-1).Draw(t, "fk")]
			pl := rapid.IntRange(1, min(len(k), 3)).Draw(t, "pl")
			q.Pre = append([]byte{}, k[:pl]...)
			k2 := neKeys[rapid.IntRange(0, len(neKeys)-1).Draw(t, "fk2")]
			sl := rapid.IntRange(1, min(len(k2), 2)).Draw(t, "sl")
			q.Suf = append([]byte{}, k2[len(k2)-sl:]...)
			q.NextN = rapid.SampledFrom([]int{0, 0, 1, 2, 5}).Draw(t, "limit")
		}
		if q.Via == "rwtx" {
			q.Over = overlay("nover", 900000+i*10)
		}
		c.Queries = append(c.Queries, q)
	}
	if rapid.IntRange(0, 3).Draw(t, "conc") == 0 {
		c.Conc = &ConcPlan{
			Writers:  rapid.IntRange(1, 3).Draw(t, "cw"),
			Scanners: rapid.IntRange(1, 3).Draw(t, "cs"),
			Ops:      rapid.IntRange(20, 200).Draw(t, "cops"),
			Flushes:  rapid.IntRange(0, 3).Draw(t, "cfl"),
		}
	}
	return c
}

func TestProp(t *testing.T) {
	rapid.Check(t, func(t *rapid.T) {
		c := genCase(t)
		f, classes, nt := runCase(&c)
		ev.R().Case(ev.Hash(&c), nt, classes, func() any { return &c })
		if f != nil {
			path := ev.R().Fail(f.sig, f.msg, Doc{Property: "C05", Case: c, Failure: f.sig + ": " + f.msg})
			t.Fatalf("C05 violated: %s: %s (replay %s)", f.sig, f.msg, path)
		}
	})
}

func TestReplay(t *testing.T) {
	fn := os.Getenv("VERIF_REPLAY")
	if fn == "" {
		t.Skip("no VERIF_REPLAY")
	}
	b, err := os.ReadFile(fn)
	if err != nil {
		t.Fatal(err)
	}
	var d Doc
	if err := json.Unmarshal(b, &d); err != nil {
		t.Fatal(err)
	}
	n := 1
	if d.Case.Conc != nil {
		n = 10 // schedule dependent part: re-execute a few times
	}
	for i := 0; i < n; i++ {
		f, _, _ := runCase(&d.Case)
		if f != nil {
			ev.WriteReplayResult(ev.ReplayResult{File: fn, Outcome: "fail", Signature: f.sig, Message: f.msg})
			return
		}
	}
	ev.WriteReplayResult(ev.ReplayResult{File: fn, Outcome: "pass"})
}

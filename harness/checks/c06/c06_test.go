// C06 — concurrent gets, puts and deletes are linearizable.
// Recorded histories of the real embedded engine under a generated workload and
// a generated schedule-perturbation plan, checked with porcupine against a
// register-per-key model (DESIGN.md 5/C06).
package c06

import (
	"bytes"
	"encoding/binary"
	"encoding/json"
	"fmt"
	"os"
	"runtime"
	"sort"
	"strings"
	"sync"
	"sync/atomic"
	"testing"
	"time"

	"github.com/KevoDB/kevo/pkg/config"
	"github.com/KevoDB/kevo/pkg/engine"
	"github.com/KevoDB/kevo/pkg/verifhook"
	"pgregory.net/rapid"

	"verif/internal/drive"
	"verif/internal/ev"
)

const rule = "case = rapid-drawn (engine configuration with a 256 B - 4 KiB memtable, 2-6 keys, 2-8 client scripts of 30-300 " +
	"put/delete/get calls with unique put values, every write handing over private key/value buffers that the client overwrites as soon as the call has returned, optional maintenance goroutine calling FlushImMemTables/TriggerCompaction, " +
	"compaction interval 1 s or off, yield/sleep plan consumed cyclically at the verifhook sites of the chosen groups, optional " +
	"long stall inside a log rotation); executed against the real engine from concurrent goroutines, every call recorded with " +
	"monotonic invoke/return times; oracle = porcupine linearizability per key against a register (failed writes have no effect) " +
	"over the concurrent calls + a quiescent read of every key + a read of every key after close and reopen; " +
	"non-trivial = at least one log rotation AND one memtable flush completed while >= 2 clients had a call in flight " +
	"(measured by a trace handler); distinct by FNV-64 of the case JSON. Second sub-check (hot neighbour): one writer inserts " +
	"300-3000 fresh keys that sort immediately before/after/around a target key and rewrites the target every 1-100 inserts while " +
	"2-8 readers get the target without pause (optional flushing goroutine); oracle = single-writer register: a get returns a " +
	"round between the one acknowledged before it began and the one issued when it ended, never not-found; non-trivial = " +
	">= 200 gets and >= 3 rounds of the target in the case"

func TestMain(m *testing.M) {
	ev.Silence()
	rec := ev.Init("C06", rule)
	code := m.Run()
	rec.Flush(true)
	os.Exit(code)
}

// ------------------------------------------------------------------ case ----

// Op is one call of a client script.
type Op struct {
	Op    string `json:"op"` // put | del | get
	K     int    `json:"k"`
	Len   int    `json:"len,omitempty"`   // put: value length (>= 8)
	Think uint8  `json:"think,omitempty"` // before the call: 0 nothing, 1 Gosched, 2 sleep 20us, 3 sleep 200us
}

// MaintOp is one call of the maintenance goroutine.
type MaintOp struct {
	Op      string `json:"op"` // flush | compact
	PauseUs int    `json:"pause_us"`
}

// Case is a complete generated case (workload + configuration + perturbation plan).
type Case struct {
	Cfg         drive.Cfg `json:"cfg"`
	CompactionS int64     `json:"compaction_interval_s"`
	Keys        [][]byte  `json:"keys"`
	Clients     [][]Op    `json:"clients"`
	Rounds      int       `json:"rounds"` // the scripts are cut into this many equal parts; after each part: quiescent read, close, reopen, read
	Maint       []MaintOp `json:"maint,omitempty"`
	Groups      []string  `json:"groups"`                // hook site groups the plan applies to
	Plan        []uint16  `json:"plan"`                  // consumed cyclically: 0 nothing, 1 Gosched, n >= 10 sleep n microseconds
	StallMs     int       `json:"stall_ms,omitempty"`    // sleep this long inside a rotation (after the old log is marked rotating)
	StallEvery  int       `json:"stall_every,omitempty"` // ... at every n-th rotation (at most 3 times per case)
	Faults      []Fault   `json:"faults,omitempty"`      // resource-limit windows during the client phase (see fault_test.go)
}

// Doc is the replay document.
type Doc struct {
	Property string   `json:"property"`
	Mode     string   `json:"mode"` // "history": the recorded history is re-checked; "rerun": the workload is executed again Runs times
	Runs     int      `json:"runs,omitempty"`
	Case     Case     `json:"case"`
	Hot      *HotCase `json:"hot,omitempty"` // mode "hot": the second sub-check (hot_test.go)
	Verdict  *Verdict `json:"verdict,omitempty"`
	Stats    *Stats   `json:"stats,omitempty"`
	History  []Rec    `json:"history,omitempty"`
}

// Stats are measurements of one execution.
type Stats struct {
	Rotations       int            `json:"rotations"`
	Flushes         int            `json:"flushes"`
	RotationsLoaded int            `json:"rotations_with_2_clients_in_flight"`
	FlushesLoaded   int            `json:"flushes_with_2_clients_in_flight"`
	Stalls          int            `json:"stalls"`
	WriteErrors     map[string]int `json:"write_errors,omitempty"`
	Converted       int            `json:"writes_converted_to_reads_after_error"`
	MaintErrors     int            `json:"maint_errors"`
	Overlaps        int            `json:"overlapping_same_key_pairs"`
	FaultWindows    int            `json:"fault_windows"`
}

const idStride = 1000

func valueID(client, idx int) uint32 { return uint32(client*idStride + idx + 1) }

// valueBytes renders the unique value of a put: id, then a fill derived from it.
func valueBytes(id uint32, n int) []byte {
	if n < 8 {
		n = 8
	}
	b := make([]byte, n)
	binary.BigEndian.PutUint32(b, id)
	for j := 4; j < n; j++ {
		b[j] = byte(id*131 + uint32(j)*7)
	}
	return b
}

// decode maps bytes returned by a get back to the id of the put that wrote them (-1 = nobody).
func (c *Case) decode(v []byte) int64 {
	if len(v) < 8 {
		return -1
	}
	id := binary.BigEndian.Uint32(v)
	if id == 0 {
		return -1
	}
	cl, idx := int(id-1)/idStride, int(id-1)%idStride
	if cl >= len(c.Clients) || idx >= len(c.Clients[cl]) || c.Clients[cl][idx].Op != "put" {
		return -1
	}
	if !bytes.Equal(v, valueBytes(id, c.Clients[cl][idx].Len)) {
		return -1
	}
	return int64(id)
}

// ------------------------------------------------------------- generator ----

var allGroups = []string{"put", "wal", "rotate", "flush", "compact"}

func groupOf(site string) string {
	switch {
	case strings.HasPrefix(site, "storage.put."), strings.HasPrefix(site, "storage.delete."):
		return "put"
	case strings.HasPrefix(site, "wal."):
		return "wal"
	case strings.HasPrefix(site, "storage.rotate."), strings.HasPrefix(site, "storage.scheduleflush"):
		return "rotate"
	case strings.HasPrefix(site, "storage.flush"), strings.HasPrefix(site, "sstable."):
		return "flush"
	case strings.HasPrefix(site, "compaction."):
		return "compact"
	}
	return ""
}

func genKeys(t *rapid.T) [][]byte {
	n := rapid.IntRange(2, 6).Draw(t, "nkeys")
	var pool [][]byte
	switch rapid.SampledFrom([]string{"plain", "plain", "nested", "long"}).Draw(t, "keyshape") {
	case "plain":
		for i := 0; i < 6; i++ {
			pool = append(pool, []byte(fmt.Sprintf("key%d", i)))
		}
	case "nested":
		pool = [][]byte{[]byte("a"), {'a', 0}, {'a', 0, 0}, {'a', 0xff}, []byte("ab"), []byte("b")}
	default:
		pre := bytes.Repeat([]byte{'p'}, 120)
		for i := 0; i < 6; i++ {
			pool = append(pool, append(append([]byte{}, pre...), byte('a'+i)))
		}
	}
	return pool[:n]
}

func genCase(t *rapid.T) Case {
	c := Case{
		Cfg: drive.Cfg{
			MemTableSize: rapid.SampledFrom([]int64{256, 256, 512, 1024, 1024, 4096}).Draw(t, "memtable"),
			MaxMemTables: rapid.SampledFrom([]int{1, 2, 4}).Draw(t, "maxmem"),
			SyncMode:     rapid.IntRange(0, 2).Draw(t, "sync"),
			SyncBytes:    rapid.SampledFrom([]int64{1, 4096}).Draw(t, "syncbytes"),
		},
		CompactionS: rapid.SampledFrom([]int64{1, 1, 3600}).Draw(t, "compaction_s"),
		Keys:        genKeys(t),
	}
	nk := len(c.Keys)
	ncl := rapid.IntRange(2, 8).Draw(t, "clients")
	maxLen := rapid.SampledFrom([]int{16, 64, 200}).Draw(t, "maxlen")
	kinds := []string{"put", "put", "put", "put", "get", "get", "get", "get", "del"}
	if rapid.Bool().Draw(t, "more_deletes") {
		kinds = append(kinds, "del", "del")
	}
	thinks := []uint8{0, 0, 0, 0, 0, 0, 1, 1, 2, 3}
	// all scripts have the same length so that the clients stop at about the same time: the last
	// writes of a part, the ones the reads after the reopen can tell apart, are then concurrent ones
	n := rapid.IntRange(30, 300).Draw(t, "nops")
	c.Rounds = rapid.SampledFrom([]int{1, 2, 2, 3, 4, 6}).Draw(t, "rounds")
	for cl := 0; cl < ncl; cl++ {
		ops := make([]Op, n)
		for i := range ops {
			o := Op{Op: rapid.SampledFrom(kinds).Draw(t, "op"), K: rapid.IntRange(0, nk-1).Draw(t, "k"),
				Think: rapid.SampledFrom(thinks).Draw(t, "think")}
			if o.Op == "put" {
				o.Len = rapid.IntRange(8, maxLen).Draw(t, "len")
			}
			ops[i] = o
		}
		c.Clients = append(c.Clients, ops)
	}
	if rapid.IntRange(0, 2).Draw(t, "maint") != 0 {
		n := rapid.IntRange(1, 12).Draw(t, "nmaint")
		for i := 0; i < n; i++ {
			c.Maint = append(c.Maint, MaintOp{
				Op:      rapid.SampledFrom([]string{"flush", "flush", "compact"}).Draw(t, "mop"),
				PauseUs: rapid.SampledFrom([]int{0, 50, 200, 1000, 3000}).Draw(t, "mpause"),
			})
		}
	}
	// perturbation plan
	mask := rapid.IntRange(1, 1<<len(allGroups)-1).Draw(t, "groups")
	for i, g := range allGroups {
		if mask&(1<<i) != 0 {
			c.Groups = append(c.Groups, g)
		}
	}
	np := rapid.IntRange(4, 48).Draw(t, "nplan")
	for i := 0; i < np; i++ {
		var d uint16
		switch rapid.SampledFrom([]string{"none", "none", "none", "none", "none", "yield", "yield", "short", "short", "mid", "long"}).Draw(t, "pkind") {
		case "yield":
			d = 1
		case "short":
			d = uint16(rapid.IntRange(10, 60).Draw(t, "us"))
		case "mid":
			d = uint16(rapid.IntRange(100, 500).Draw(t, "us"))
		case "long":
			d = uint16(rapid.IntRange(1000, 2000).Draw(t, "us"))
		}
		c.Plan = append(c.Plan, d)
	}
	if rapid.IntRange(0, 3).Draw(t, "stall") == 0 {
		c.StallMs = rapid.IntRange(25, 40).Draw(t, "stall_ms")
		c.StallEvery = rapid.IntRange(1, 6).Draw(t, "stall_every")
	}
	if ev.Flag("resource_faults") && rapid.IntRange(0, 3).Draw(t, "faults") == 0 {
		c.Faults = genFaults(t, &c)
	}
	return c
}

// ---------------------------------------------------------------- runner ----

func openEngine(dir string, c *Case) (*engine.EngineFacade, error) {
	if _, err := os.Stat(dir + "/MANIFEST"); err != nil {
		cfg := config.NewDefaultConfig(dir)
		cfg.MemTableSize = c.Cfg.MemTableSize
		cfg.MaxMemTables = c.Cfg.MaxMemTables
		cfg.WALSyncMode = config.SyncMode(c.Cfg.SyncMode)
		cfg.WALSyncBytes = c.Cfg.SyncBytes
		cfg.CompactionInterval = c.CompactionS
		if err := cfg.SaveManifest(dir); err != nil {
			return nil, err
		}
	}
	return engine.NewEngineFacade(dir)
}

func errClass(s string) string {
	for _, m := range []string{"WAL is rotating", "WAL is closed", "after 3 retries", "storage is closed", "engine is closed", "read-only"} {
		if strings.Contains(s, m) {
			return m
		}
	}
	if len(s) > 60 {
		s = s[:60]
	}
	return s
}

// runCase executes the case once and returns the recorded history and measurements.
// A non-nil verdict reports a failure that is not a matter of the history (open errors).
func runCase(c *Case) ([]Rec, *Stats, *Verdict) {
	dir, err := os.MkdirTemp("", "c06-")
	if err != nil {
		panic(err)
	}
	defer os.RemoveAll(dir)
	e, err := openEngine(dir, c)
	if err != nil {
		panic("C06: cannot open a fresh engine: " + err.Error())
	}
	st := &Stats{WriteErrors: map[string]int{}}
	enabled := map[string]bool{}
	for _, g := range c.Groups {
		enabled[g] = true
	}
	var inflight, planCtr, rotN, stalls, rot, fl, rotL, flL atomic.Int64
	var hooksOn atomic.Bool
	verifhook.Set(func(site string) {
		if !hooksOn.Load() {
			return
		}
		switch site {
		case "storage.rotate.after_close":
			rot.Add(1)
			if inflight.Load() >= 2 {
				rotL.Add(1)
			}
		case "storage.flushmem.before_publish":
			fl.Add(1)
			if inflight.Load() >= 2 {
				flL.Add(1)
			}
		case "storage.rotate.after_setrotating":
			if c.StallMs > 0 && c.StallEvery > 0 && rotN.Add(1)%int64(c.StallEvery) == 0 && stalls.Add(1) <= 3 {
				time.Sleep(time.Duration(c.StallMs) * time.Millisecond)
			}
		}
		if len(c.Plan) == 0 || !enabled[groupOf(site)] {
			return
		}
		switch d := c.Plan[int(planCtr.Add(1))%len(c.Plan)]; {
		case d == 0:
		case d < 10:
			runtime.Gosched()
		default:
			time.Sleep(time.Duration(d) * time.Microsecond)
		}
	})
	defer verifhook.Reset()

	base := time.Now()
	now := func() int64 { return int64(time.Since(base)) }
	errKeys := make([]atomic.Bool, len(c.Keys))
	var converted, maintErrs atomic.Int64
	var errMu sync.Mutex
	var all []Rec

	client := func(e *engine.EngineFacade, cl, from, to int) []Rec {
		recs := make([]Rec, 0, to-from)
		for i := from; i < to; i++ {
			o := c.Clients[cl][i]
			switch o.Think {
			case 1:
				runtime.Gosched()
			case 2:
				time.Sleep(20 * time.Microsecond)
			case 3:
				time.Sleep(200 * time.Microsecond)
			}
			kind := o.Op
			if kind != "get" && errKeys[o.K].Load() {
				// after a write error on this key the remaining writes to it become reads, so that
				// a failed write that did reach the log stays the newest record of its key
				kind = "get"
				converted.Add(1)
			}
			r := Rec{C: cl, I: i, Op: kind, K: o.K}
			key := c.Keys[o.K]
			switch kind {
			case "put":
				r.W = valueID(cl, i)
				val := valueBytes(r.W, o.Len)
				// the client's own request buffers: private copies of key and value are
				// handed over and overwritten as soon as the call has returned, the way a
				// client that re-uses one encode buffer does; the write must have taken
				// effect with the bytes it had at call time
				kb := append([]byte{}, key...)
				inflight.Add(1)
				r.Call = now()
				err := e.Put(kb, val)
				r.Ret = now()
				inflight.Add(-1)
				scribble(kb)
				scribble(val)
				if err != nil {
					r.Err = err.Error()
				}
			case "del":
				inflight.Add(1)
				kb := append([]byte{}, key...)
				r.Call = now()
				err := e.Delete(kb)
				r.Ret = now()
				inflight.Add(-1)
				scribble(kb)
				if err != nil {
					r.Err = err.Error()
				}
			default:
				inflight.Add(1)
				r.Call = now()
				v, err := e.Get(key)
				r.Ret = now()
				inflight.Add(-1)
				switch {
				case err == nil:
					r.R = c.decode(v)
				case drive.IsNotFound(err):
					r.R = 0
				default:
					r.Err = err.Error()
				}
			}
			if r.Err != "" && kind != "get" {
				errKeys[o.K].Store(true)
				errMu.Lock()
				st.WriteErrors[errClass(r.Err)]++
				errMu.Unlock()
			}
			recs = append(recs, r)
		}
		return recs
	}
	readAll := func(e *engine.EngineFacade, pseudo, round int) {
		for k, key := range c.Keys {
			r := Rec{C: pseudo, I: round*100 + k, Op: "get", K: k}
			r.Call = now()
			v, err := e.Get(key)
			r.Ret = now()
			switch {
			case err == nil:
				r.R = c.decode(v)
			case drive.IsNotFound(err):
			default:
				r.Err = err.Error()
			}
			all = append(all, r)
		}
	}

	rounds := max(c.Rounds, 1)
	for round := 0; round < rounds; round++ {
		hist := make([][]Rec, len(c.Clients))
		start := make(chan struct{})
		var wg, mwg sync.WaitGroup
		var done atomic.Bool
		for cl := range c.Clients {
			n := len(c.Clients[cl])
			from, to := n*round/rounds, n*(round+1)/rounds
			wg.Add(1)
			go func(cl int) {
				defer wg.Done()
				<-start
				hist[cl] = client(e, cl, from, to)
			}(cl)
		}
		if nm := len(c.Maint); nm > 0 {
			maint := c.Maint[nm*round/rounds : nm*(round+1)/rounds]
			mwg.Add(1)
			go func() {
				defer mwg.Done()
				<-start
				for _, m := range maint {
					if done.Load() {
						return
					}
					if m.PauseUs > 0 {
						time.Sleep(time.Duration(m.PauseUs) * time.Microsecond)
					}
					var err error
					if m.Op == "flush" {
						err = e.FlushImMemTables()
					} else {
						err = e.TriggerCompaction()
					}
					if err != nil {
						maintErrs.Add(1)
					}
				}
			}()
		}
		hooksOn.Store(true)
		stopFaults := startFaults(c, round, start, st)
		close(start)
		wg.Wait()
		done.Store(true)
		stopFaults() // every limit is lifted before anything else opens or grows a file
		mwg.Wait()
		for _, h := range hist {
			all = append(all, h...)
		}
		// quiescent read: no client call is in flight any more (the background flush may still run)
		readAll(e, -1, round)
		// close (nothing of ours is using the engine; the background flush is idle) and reopen
		drive.Quiesce(e)
		hooksOn.Store(false)
		_ = e.Close()
		e, err = engine.NewEngineFacade(dir)
		if err != nil {
			return all, st, &Verdict{Sig: "reopen-open-error", Msg: "reopen after a clean close failed: " + err.Error()}
		}
		readAll(e, -2, round)
	}
	_ = e.Close()
	st.Rotations, st.Flushes = int(rot.Load()), int(fl.Load())
	st.RotationsLoaded, st.FlushesLoaded = int(rotL.Load()), int(flL.Load())
	st.Stalls = int(min(stalls.Load(), 3))
	st.Converted = int(converted.Load())
	st.MaintErrors = int(maintErrs.Load())
	return all, st, nil
}

// overlaps counts pairs of operations on the same key by different clients
// that overlap in real time with at least one write (capped).
func overlaps(h []Rec) int {
	s := append([]Rec(nil), h...)
	sort.Slice(s, func(i, j int) bool { return s[i].Call < s[j].Call })
	n := 0
	for i := range s {
		for j := i + 1; j < len(s) && s[j].Call <= s[i].Ret; j++ {
			if s[i].K == s[j].K && s[i].C != s[j].C && (s[i].Op != "get" || s[j].Op != "get") {
				n++
				if n >= 1000 {
					return n
				}
			}
		}
	}
	return n
}

func evaluate(c *Case) (*Verdict, []Rec, *Stats, int) {
	h, st, v := runCase(c)
	if v != nil {
		return v, h, st, 0
	}
	st.Overlaps = overlaps(h)
	res := checkHistory(h, len(c.Keys), 10*time.Second)
	return res.V, h, st, res.Inconclusive
}

func classify(c *Case, st *Stats) (bool, []string) {
	var cl []string
	nt := st.RotationsLoaded >= 1 && st.FlushesLoaded >= 1
	if nt {
		cl = append(cl, "rotation+flush_with_2_clients_in_flight")
	}
	if st.RotationsLoaded >= 5 && st.FlushesLoaded >= 5 {
		cl = append(cl, "rotations>=5+flushes>=5_under_load")
	}
	if st.Overlaps >= 10 {
		cl = append(cl, "same_key_overlaps>=10")
	}
	if len(c.Clients) >= 4 {
		cl = append(cl, "clients>=4")
	}
	if c.Rounds >= 2 {
		cl = append(cl, "reopen_between_parts")
	}
	if len(c.Maint) > 0 {
		cl = append(cl, "maintenance_goroutine")
	}
	if c.CompactionS == 1 {
		cl = append(cl, "compaction_interval_1s")
	}
	if st.Stalls > 0 {
		cl = append(cl, "stalled_rotation")
	}
	cl = append(cl, fmt.Sprintf("sync_mode:%d", c.Cfg.SyncMode))
	if len(st.WriteErrors) > 0 {
		cl = append(cl, "has_write_errors")
	}
	for _, f := range c.Faults {
		cl = append(cl, "fault:"+f.Kind)
	}
	return nt, cl
}

func record(c *Case, st *Stats, inconclusive int) {
	nt, classes := classify(c, st)
	ev.R().Case(ev.Hash(c), nt, classes, func() any { return c })
	ev.R().Count("operations", func() int {
		n := 0
		for _, s := range c.Clients {
			n += len(s)
		}
		return n
	}())
	ev.R().Count("rotations", st.Rotations)
	ev.R().Count("flushes", st.Flushes)
	ev.R().Count("rotations_under_load", st.RotationsLoaded)
	ev.R().Count("flushes_under_load", st.FlushesLoaded)
	ev.R().Count("porcupine_timeouts_inconclusive", inconclusive)
	ev.R().Count("writes_converted_after_error", st.Converted)
	ev.R().Count("maintenance_errors", st.MaintErrors)
	for k, n := range st.WriteErrors {
		ev.R().Count("write_error:"+k, n)
	}
}

func TestProp(t *testing.T) {
	rapid.Check(t, func(t *rapid.T) {
		c := genCase(t)
		v, h, st, inc := evaluate(&c)
		record(&c, st, inc)
		if v != nil {
			path := ev.R().Fail(v.Sig, v.Msg, Doc{Property: "C06", Mode: "history", Case: c, Verdict: v, Stats: st, History: h})
			t.Fatalf("C06 violated: %s: %s (replay %s)", v.Sig, v.Msg, path)
		}
	})
}

// TestReplay re-checks a saved history (mode "history": the recorded execution
// is the reproducible unit, it is checked again with the same oracle; the
// workload is also executed a few more times, best effort, and the recurrence
// count is reported) or executes the saved workload again (mode "rerun",
// regression files of repaired defects: fails when any of Runs executions fails).
func TestReplay(t *testing.T) {
	f := os.Getenv("VERIF_REPLAY")
	if f == "" {
		t.Skip("no VERIF_REPLAY")
	}
	b, err := os.ReadFile(f)
	if err != nil {
		t.Fatal(err)
	}
	var d Doc
	if err := json.Unmarshal(b, &d); err != nil {
		t.Fatal(err)
	}
	if d.Mode == "hot" && d.Hot != nil {
		replayHot(f, &d)
		return
	}
	if d.Mode == "rerun" {
		runs := d.Runs
		if runs <= 0 {
			runs = 10
		}
		for i := 0; i < runs; i++ {
			if v, _, _, _ := evaluate(&d.Case); v != nil {
				ev.WriteReplayResult(ev.ReplayResult{File: f, Outcome: "fail", Signature: v.Sig,
					Message: fmt.Sprintf("execution %d of %d: %s", i+1, runs, v.Msg)})
				t.Logf("replay fails: %s: %s", v.Sig, v.Msg)
				return
			}
		}
		ev.WriteReplayResult(ev.ReplayResult{File: f, Outcome: "pass"})
		return
	}
	var v *Verdict
	if len(d.History) > 0 {
		v = checkHistory(d.History, len(d.Case.Keys), 60*time.Second).V
	}
	again := 0
	const reruns = 5
	var first *Verdict
	for i := 0; i < reruns; i++ {
		if rv, _, _, _ := evaluate(&d.Case); rv != nil {
			again++
			if first == nil {
				first = rv
			}
		}
	}
	if v == nil && first != nil {
		v = first
	}
	if v != nil {
		ev.WriteReplayResult(ev.ReplayResult{File: f, Outcome: "fail", Signature: v.Sig,
			Message: fmt.Sprintf("%s (the workload failed again in %d of %d fresh executions)", v.Msg, again, reruns)})
		t.Logf("replay fails: %s: %s", v.Sig, v.Msg)
		return
	}
	ev.WriteReplayResult(ev.ReplayResult{File: f, Outcome: "pass"})
}

// scribble overwrites a request buffer after the call that used it has returned.
func scribble(b []byte) {
	for i := range b {
		b[i] ^= 0xA5
	}
}

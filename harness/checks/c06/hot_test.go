// C06, second sub-check: a hot key next to a stream of fresh neighbour keys.
//
// The porcupine sub-check (c06_test.go) draws its calls over a pool of 2-6
// keys, so a get almost never runs while ANOTHER key is linked into the
// memtable directly next to the one it looks for. Here one writer inserts a
// stream of fresh keys that sort immediately before / after / around a target
// key and rewrites the target every few inserts, while 2-8 readers get the
// target without pause. For a register with ONE writer linearizability is
// decidable per call without a search: a get that began after round n had been
// acknowledged, and ended before round m+1 was issued, returns a round in
// [n, m] - and never not-found, the target is never deleted.
package c06

import (
	"encoding/binary"

	"fmt"
	"os"
	"sync"
	"sync/atomic"
	"testing"

	"pgregory.net/rapid"

	"verif/internal/drive"
	"verif/internal/ev"
)

// HotCase is one generated case of the sub-check.
type HotCase struct {
	Cfg       drive.Cfg `json:"cfg"`
	Readers   int       `json:"readers"`
	Inserts   int       `json:"inserts"`    // fresh neighbour keys written
	BumpEvery int       `json:"bump_every"` // the target is rewritten after every n-th insert
	Side      string    `json:"side"`       // before | after | both | spread: where the fresh keys sort relative to the target
	Shape     string    `json:"shape"`      // short | long | nested: the target key
	ValLen    int       `json:"val_len"`    // bytes of padding behind the round number
	Flusher   bool      `json:"flusher"`    // a goroutine calls FlushImMemTables now and then
}

func genHot(t *rapid.T) HotCase {
	return HotCase{
		Cfg: drive.Cfg{
			MemTableSize: rapid.SampledFrom([]int64{1024, 4096, 16384, 65536, 1 << 20}).Draw(t, "memtable"),
			MaxMemTables: rapid.SampledFrom([]int{1, 2, 4}).Draw(t, "maxmem"),
			SyncMode:     rapid.SampledFrom([]int{0, 0, 0, 1}).Draw(t, "sync"),
			SyncBytes:    4096,
		},
		Readers:   rapid.IntRange(2, 8).Draw(t, "readers"),
		Inserts:   rapid.IntRange(300, 3000).Draw(t, "inserts"),
		BumpEvery: rapid.SampledFrom([]int{1, 2, 5, 20, 100}).Draw(t, "bump"),
		Side:      rapid.SampledFrom([]string{"before", "before", "after", "both", "spread"}).Draw(t, "side"),
		Shape:     rapid.SampledFrom([]string{"short", "short", "long", "nested"}).Draw(t, "shape"),
		ValLen:    rapid.SampledFrom([]int{0, 8, 100}).Draw(t, "vallen"),
		Flusher:   rapid.IntRange(0, 3).Draw(t, "flusher") == 0,
	}
}

// keys of a hot case: the target and the i-th fresh neighbour.
func (h *HotCase) target() []byte {
	switch h.Shape {
	case "long":
		b := make([]byte, 200)
		for i := range b {
			b[i] = 'q'
		}
		return append(b, 'm')
	case "nested":
		return []byte{'a', 0, 'm'}
	}
	return []byte("m")
}

func (h *HotCase) neighbour(i int) []byte {
	t := h.target()
	base := t[:len(t)-1]
	mk := func(c byte, n int) []byte {
		return append(append(append([]byte{}, base...), c), []byte(fmt.Sprintf("%08d", n))...)
	}
	switch h.Side {
	case "before": // ascending below the target: every new key is the greatest key below it
		return mk('l', i)
	case "after": // descending above the target: every new key is the smallest key above it
		return mk('n', 99999999-i)
	case "both":
		if i%2 == 0 {
			return mk('l', i)
		}
		return mk('n', 99999999-i)
	}
	// spread: pseudo-random places on both sides
	x := uint32(i)*2654435761 + 12345
	if x&1 == 0 {
		return mk('l', int(x>>8)%10000000)
	}
	return mk('n', int(x>>8)%10000000)
}

func hotValue(round uint64, pad int) []byte {
	b := make([]byte, 8+pad)
	binary.BigEndian.PutUint64(b, round)
	for i := 8; i < len(b); i++ {
		b[i] = byte(round) ^ byte(i)
	}
	return b
}

type hotStats struct {
	Gets, Rounds int
}

// runHot executes one case; nil = every get was explained.
func runHot(h *HotCase) (*Verdict, hotStats) {
	var st hotStats
	dir, err := os.MkdirTemp("", "c06hot-")
	if err != nil {
		panic(err)
	}
	defer os.RemoveAll(dir)
	e, err := drive.Open(dir, h.Cfg)
	if err != nil {
		panic(err)
	}
	defer e.Close()
	target := h.target()
	var acked, issued atomic.Uint64
	var stop atomic.Bool
	var mu sync.Mutex
	var verdict *Verdict
	fail := func(sig, msg string) {
		mu.Lock()
		if verdict == nil {
			verdict = &Verdict{Sig: sig, Msg: msg}
		}
		mu.Unlock()
		stop.Store(true)
	}
	// round 1 is written before anybody reads
	issued.Store(1)
	if err := e.Put(target, hotValue(1, h.ValLen)); err != nil {
		return nil, st // a write error is not this sub-check's business
	}
	acked.Store(1)
	var gets atomic.Int64
	var wg sync.WaitGroup
	for r := 0; r < h.Readers; r++ {
		wg.Add(1)
		go func() {
			defer wg.Done()
			for !stop.Load() {
				lo := acked.Load()
				v, err := e.Get(target)
				hi := issued.Load()
				gets.Add(1)
				if err != nil {
					if drive.IsNotFound(err) {
						fail("hot:acknowledged-key-not-found", fmt.Sprintf("get of the target returned not-found although round %d had been acknowledged before the call began (the key is never deleted); side=%s", lo, h.Side))
					} else {
						fail("hot:get-error", "get of the target failed: "+err.Error())
					}
					return
				}
				if len(v) < 8 {
					fail("hot:foreign-value", fmt.Sprintf("get of the target returned %d bytes no put wrote", len(v)))
					return
				}
				got := binary.BigEndian.Uint64(v)
				if got < lo {
					fail("hot:stale-read", fmt.Sprintf("get of the target returned round %d although round %d had been acknowledged before the call began; side=%s", got, lo, h.Side))
					return
				}
				if got > hi {
					fail("hot:value-from-the-future", fmt.Sprintf("get of the target returned round %d, the writer had only issued %d when the call ended", got, hi))
					return
				}
			}
		}()
	}
	if h.Flusher {
		wg.Add(1)
		go func() {
			defer wg.Done()
			for !stop.Load() {
				_ = e.FlushImMemTables()
				for i := 0; i < 200 && !stop.Load(); i++ {
					_, _ = e.Get(target)
				}
			}
		}()
	}
	round := uint64(1)
	for i := 0; i < h.Inserts && !stop.Load(); i++ {
		if err := e.Put(h.neighbour(i), []byte{byte(i)}); err != nil {
			break
		}
		if (i+1)%h.BumpEvery == 0 {
			round++
			issued.Store(round)
			if err := e.Put(target, hotValue(round, h.ValLen)); err != nil {
				break
			}
			acked.Store(round)
		}
	}
	stop.Store(true)
	wg.Wait()
	st.Gets, st.Rounds = int(gets.Load()), int(round)
	return verdict, st
}

func TestPropHotNeighbour(t *testing.T) {
	rapid.Check(t, func(t *rapid.T) {
		h := genHot(t)
		v, st := runHot(&h)
		// non-trivial: readers really overlapped the writer (many more gets than rounds)
		nt := st.Gets >= 200 && st.Rounds >= 3
		ev.R().Case(ev.Hash(&h), nt, []string{"hot_neighbour", "hot_neighbour:" + h.Side, "hot_neighbour:" + h.Shape}, func() any { return &h })
		ev.R().Count("hot_gets", st.Gets)
		ev.R().Count("hot_neighbour_inserts", h.Inserts)
		ev.R().Count("hot_target_rounds", st.Rounds)
		if v != nil {
			path := ev.R().Fail(v.Sig, v.Msg, Doc{Property: "C06", Mode: "hot", Runs: 30, Hot: &h, Verdict: v})
			t.Fatalf("C06 violated: %s: %s (replay %s)", v.Sig, v.Msg, path)
		}
	})
}

// replayHot re-executes a saved hot case up to runs times.
func replayHot(f string, d *Doc) {
	runs := d.Runs
	if runs <= 0 {
		runs = 30
	}
	for i := 0; i < runs; i++ {
		if v, _ := runHot(d.Hot); v != nil {
			ev.WriteReplayResult(ev.ReplayResult{File: f, Outcome: "fail", Signature: v.Sig,
				Message: fmt.Sprintf("execution %d of %d: %s", i+1, runs, v.Msg)})
			return
		}
	}
	ev.WriteReplayResult(ev.ReplayResult{File: f, Outcome: "pass"})
}



package c06

import (
	"fmt"
	"sort"
	"time"

	"github.com/anishathalye/porcupine"
)

// Rec is one recorded call of the history. Timestamps are nanoseconds of the
// process' monotonic clock since the start of the case; Call is taken before
// the engine is invoked, Ret after it returned.
type Rec struct {
	C    int    `json:"c"` // client index; -1 = quiescent reader after all clients stopped; -2 = reader after close + reopen
	I    int    `json:"i"` // index in the client's script
	Op   string `json:"op"`
	K    int    `json:"k"`
	W    uint32 `json:"w,omitempty"` // put: id of the unique value written
	Call int64  `json:"call"`
	Ret  int64  `json:"ret"`
	R    int64  `json:"r,omitempty"`   // get: id of the value read, 0 = absent, -1 = bytes that no put of this case wrote
	Err  string `json:"err,omitempty"` // error text of a failed call ("not found" of a get is R=0, not an error)
}

func (r Rec) String() string {
	who := fmt.Sprintf("c%d#%d", r.C, r.I)
	if r.C == -1 {
		who = "quiet"
	} else if r.C == -2 {
		who = "reopened"
	}
	s := fmt.Sprintf("%s %s k%d", who, r.Op, r.K)
	if r.Op == "put" {
		s += fmt.Sprintf(" v%d", r.W)
	}
	if r.Op == "get" {
		if r.R == 0 {
			s += " -> absent"
		} else {
			s += fmt.Sprintf(" -> v%d", r.R)
		}
	}
	if r.Err != "" {
		s += " ERROR(" + r.Err + ")"
	}
	return s + fmt.Sprintf(" [%d,%d]", r.Call, r.Ret)
}

// Verdict is the result of checking a history.
type Verdict struct {
	Sig string `json:"sig"`
	Msg string `json:"msg"`
}

type regIn struct {
	op string
	id uint32
}

// registerModel is the sequential specification of ONE key: a register that
// holds the id of a unique put value, 0 = absent.
var registerModel = porcupine.Model{
	Init: func() interface{} { return uint32(0) },
	Step: func(state, input, output interface{}) (bool, interface{}) {
		in := input.(regIn)
		switch in.op {
		case "put":
			return true, in.id
		case "del":
			return true, uint32(0)
		default:
			return int64(state.(uint32)) == output.(int64), state
		}
	},
	Equal: func(a, b interface{}) bool { return a.(uint32) == b.(uint32) },
	DescribeOperation: func(in, out interface{}) string {
		i := in.(regIn)
		if i.op == "get" {
			return fmt.Sprintf("get -> %v", out)
		}
		return fmt.Sprintf("%s %d", i.op, i.id)
	},
}

// CheckResult carries counters next to the verdict.
type CheckResult struct {
	V            *Verdict
	Inconclusive int // keys whose porcupine search hit the timeout
}

// checkHistory is the oracle. A write that returned an error is modelled as
// having NO effect (it is left out of the sequential history; reading its value
// is a violation). Direct, specific clauses run first so that different
// violations get different signatures; porcupine decides linearizability of
// every per-key history.
func checkHistory(h []Rec, nkeys int, timeout time.Duration) CheckResult {
	var res CheckResult
	// index writes by value id
	putOf := map[uint32]*Rec{}
	for i := range h {
		if h[i].Op == "put" {
			putOf[h[i].W] = &h[i]
		}
	}
	perKey := make([][]*Rec, nkeys)
	for i := range h {
		perKey[h[i].K] = append(perKey[h[i].K], &h[i])
	}
	// (1) every read is well-formed
	for i := range h {
		r := &h[i]
		if r.Op != "get" {
			continue
		}
		stage := stageOf(r)
		if r.Err != "" {
			res.V = &Verdict{Sig: "get-error@" + stage, Msg: r.String()}
			return res
		}
		if r.R == 0 {
			continue
		}
		if r.R < 0 {
			res.V = &Verdict{Sig: "read-of-unwritten-bytes@" + stage, Msg: r.String() + ": the bytes returned were never written by any put of this history"}
			return res
		}
		p := putOf[uint32(r.R)]
		if p == nil || p.K != r.K {
			res.V = &Verdict{Sig: "read-of-foreign-value@" + stage, Msg: r.String() + ": that value was never put under this key"}
			return res
		}
		if p.Err != "" {
			res.V = &Verdict{Sig: "failed-write-visible@" + stage,
				Msg: fmt.Sprintf("%s returned the value of a write that reported an error: %s", r.String(), p.String())}
			return res
		}
		if p.Call > r.Ret {
			res.V = &Verdict{Sig: "read-from-the-future@" + stage, Msg: fmt.Sprintf("%s returned the value of %s", r.String(), p.String())}
			return res
		}
	}
	// (2) definite stale reads: a successful write W lies completely between
	// the put whose value is returned and the get
	for k := 0; k < nkeys; k++ {
		var writes []*Rec
		for _, r := range perKey[k] {
			if r.Op != "get" && r.Err == "" {
				writes = append(writes, r)
			}
		}
		for _, g := range perKey[k] {
			if g.Op != "get" || g.R <= 0 {
				continue
			}
			p := putOf[uint32(g.R)]
			for _, w := range writes {
				if w != p && w.Call > p.Ret && w.Ret < g.Call {
					kind := "overwritten"
					if w.Op == "del" {
						kind = "deleted"
					}
					res.V = &Verdict{Sig: "stale-read:" + kind + "@" + stageOf(g),
						Msg: fmt.Sprintf("%s returned the value of %s although %s completed in between", g.String(), p.String(), w.String())}
					return res
				}
			}
		}
	}
	// (3) linearizability per key
	for k := 0; k < nkeys; k++ {
		var ops []porcupine.Operation
		var kept []*Rec
		for _, r := range perKey[k] {
			if r.Op != "get" && r.Err != "" {
				continue // failed write: no effect
			}
			ops = append(ops, porcupine.Operation{ClientId: clientID(r.C), Input: regIn{op: r.Op, id: r.W}, Call: r.Call, Output: r.R, Return: r.Ret})
			kept = append(kept, r)
		}
		if len(ops) == 0 {
			continue
		}
		switch porcupine.CheckOperationsTimeout(registerModel, ops, timeout) {
		case porcupine.Unknown:
			res.Inconclusive++
		case porcupine.Illegal:
			res.V = diagnose(k, ops, kept, perKey[k], timeout)
			return res
		}
	}
	return res
}

// diagnose names the point at which the history of one key stops being
// linearizable. The parts of a case are separated by quiescent points (all
// clients stopped, reads by the harness, close, reopen), so the history up to
// any harness read is itself a complete history.
func diagnose(k int, ops []porcupine.Operation, kept []*Rec, allOnKey []*Rec, timeout time.Duration) *Verdict {
	idx := make([]int, len(kept))
	for i := range idx {
		idx[i] = i
	}
	sort.Slice(idx, func(a, b int) bool { return kept[idx[a]].Call < kept[idx[b]].Call })
	legal := func(n int) bool { // first n operations in invocation order
		sub := make([]porcupine.Operation, 0, n)
		for _, i := range idx[:n] {
			sub = append(sub, ops[i])
		}
		return porcupine.CheckOperationsTimeout(registerModel, sub, timeout) != porcupine.Illegal
	}
	stage, upto := "concurrent", len(idx)
	var culprit *Rec
	for n, i := range idx {
		r := kept[i]
		if r.C >= 0 {
			continue
		}
		if !legal(n) {
			upto = n
			break
		}
		if !legal(n + 1) {
			stage, upto, culprit = stageOf(r), n+1, r
			break
		}
	}
	sig := "not-linearizable@" + stage
	if culprit != nil {
		// how does the harness read differ from the read before it
		var prev *Rec
		for _, i := range idx[:upto-1] {
			if r := kept[i]; r.Op == "get" && (prev == nil || r.Ret > prev.Ret) {
				prev = r
			}
		}
		switch {
		case prev == nil:
		case culprit.R == 0 && prev.R != 0:
			sig += ":present->absent"
		case culprit.R != 0 && prev.R == 0:
			sig += ":absent->present"
		case culprit.R != prev.R:
			sig += ":value-changed"
		default:
			sig += ":same-as-previous-read"
		}
	}
	failed := ""
	for _, r := range allOnKey {
		if r.Op != "get" && r.Err != "" {
			if failed == "" && r.Op == "del" {
				sig += "+failed-delete-on-key"
			}
			failed += r.String() + "; "
		}
	}
	if failed != "" {
		failed = " Writes on the key that reported an error (modelled as no effect): " + failed
	}
	tail := ""
	for n, i := range idx[:upto] {
		if n >= upto-14 {
			tail += kept[i].String() + "; "
		}
	}
	return &Verdict{Sig: sig, Msg: fmt.Sprintf("the history of key k%d has no linearization once its first %d operations (of %d, in invocation order) are considered; the last of them: %s%s",
		k, upto, len(idx), tail, failed)}
}

func clientID(c int) int {
	if c < 0 {
		return 100 - c
	}
	return c
}

func stageOf(r *Rec) string {
	switch r.C {
	case -1:
		return "quiet"
	case -2:
		return "reopen"
	}
	return "concurrent"
}

package c06

import (
	"fmt"
	"sort"
	"time"

	"github.com/anishathalye/porcupine"
)

// Rec is one recorded call of the history. Timestamps are nanoseconds of the
// process' monotonic clock since the start of the case; Call is taken before
// the engine is invoked, Ret after it returned.
type Rec struct {
	C    int    `json:"c"` // client index; -1 = quiescent reader after all clients stopped; -2 = reader after close + reopen
	I    int    `json:"i"` // index in the client's script
	Op   string `json:"op"`
	K    int    `json:"k"`
	W    uint32 `json:"w,omitempty"` // put: id of the unique value written
	Call int64  `json:"call"`
	Ret  int64  `json:"ret"`
	R    int64  `json:"r,omitempty"`   // get: id of the value read, 0 = absent, -1 = bytes that no put of this case wrote
	Err  string `json:"err,omitempty"` // error text of a failed call ("not found" of a get is R=0, not an error)
}

func (r Rec) String() string {
	who := fmt.Sprintf("c%d#%d", r.C, r.I)
	if r.C == -1 {
		who = "quiet"
	} else if r.C == -2 {
		who = "reopened"
	}
	s := fmt.Sprintf("%s %s k%d", who, r.Op, r.K)
	if r.Op == "put" {
		s += fmt.Sprintf(" v%d", r.W)
	}
	if r.Op == "get" {
		if r.R == 0 {
			s += " -> absent"
		} else {
			s += fmt.Sprintf(" -> v%d", r.R)
		}
	}
	if r.Err != "" {
		s += " ERROR(" + r.Err + ")"
	}
	return s + fmt.Sprintf(" [%d,%d]", r.Call, r.Ret)
}

// Verdict is the result of checking a history.
type Verdict struct {
	Sig string `json:"sig"`
	Msg string `json:"msg"`
}

type regIn struct {
	op string
	id uint32
}

// registerModel is the sequential specification of ONE key: a register that
// holds the id of a unique put value, 0 = absent.
var registerModel = porcupine.Model{
	Init: func() interface{} { return uint32(0) },
	Step: func(state, input, output interface{}) (bool, interface{}) {
		in := input.(regIn)
		switch in.op {
		case "put":
			return true, in.id
		case "del":
			return true, uint32(0)
		default:
			return int64(state.(uint32)) == output.(int64), state
		}
	},
	Equal: func(a, b interface{}) bool { return a.(uint32) == b.(uint32) },
	DescribeOperation: func(in, out interface{}) string {
		i := in.(regIn)
		if i.op == "get" {
			return fmt.Sprintf("get -> %v", out)
		}
		return fmt.Sprintf("%s %d", i.op, i.id)
	},
}

// CheckResult carries counters next to the verdict.
type CheckResult struct {
	V            *Verdict
	Inconclusive int // keys whose porcupine search hit the timeout
}

// checkHistory is the oracle. A write that returned an error is modelled as
// having NO effect (it is left out of the sequential history; reading its value
// is a violation). Direct, specific clauses run first so that different
// violations get different signatures; porcupine decides linearizability of
// every per-key history.
func checkHistory(h []Rec, nkeys int, timeout time.Duration) CheckResult {
	var res CheckResult
	// index writes by value id
	putOf := map[uint32]*Rec{}
	for i := range h {
		if h[i].Op == "put" {
			putOf[h[i].W] = &h[i]
		}
	}
	perKey := make([][]*Rec, nkeys)
	for i := range h {
		perKey[h[i].K] = append(perKey[h[i].K], &h[i])
	}
	// (1) every read is well-formed
	for i := range h {
		r := &h[i]
		if r.Op != "get" {
			continue
		}
		stage := stageOf(r)
		if r.Err != "" {
			res.V = &Verdict{Sig: "get-error@" + stage, Msg: r.String()}
			return res
		}
		if r.R == 0 {
			continue
		}
		if r.R < 0 {
			res.V = &Verdict{Sig: "read-of-unwritten-bytes@" + stage, Msg: r.String() + ": the bytes returned were never written by any put of this history"}
			return res
		}
		p := putOf[uint32(r.R)]
		if p == nil || p.K != r.K {
			res.V = &Verdict{Sig: "read-of-foreign-value@" + stage, Msg: r.String() + ": that value was never put under this key"}
			return res
		}
		if p.Err != "" {
			res.V = &Verdict{Sig: "failed-write-visible@" + stage,
				Msg: fmt.Sprintf("%s returned the value of a write that reported an error: %s", r.String(), p.String())}
			return res
		}
		if p.Call > r.Ret {
			res.V = &Verdict{Sig: "read-from-the-future@" + stage, Msg: fmt.Sprintf("%s returned the value of %s", r.String(), p.String())}
			return res
		}
	}
	// (2) definite stale reads: a successful write W lies completely between
	// the put whose value is returned and the get
	for k := 0; k < nkeys; k++ {
		var writes []*Rec
		for _, r := range perKey[k] {
			if r.Op != "get" && r.Err == "" {
				writes = append(writes, r)
			}
		}
		for _, g := range perKey[k] {
			if g.Op != "get" || g.R <= 0 {
				continue
			}
			p := putOf[uint32(g.R)]
			for _, w := range writes {
				if w != p && w.Call > p.Ret && w.Ret < g.Call {
					kind := "overwritten"
					if w.Op == "del" {
						kind = "deleted"
					}
					res.V = &Verdict{Sig: "stale-read:" + kind + "@" + stageOf(g),
						Msg: fmt.Sprintf("%s returned the value of %s although %s completed in between", g.String(), p.String(), w.String())}
					return res
				}
			}
		}
	}
	// (3) linearizability per key
	for k := 0; k < nkeys; k++ {
		var ops []porcupine.Operation
		var kept []*Rec
		for _, r := range perKey[k] {
			if r.Op != "get" && r.Err != "" {
				continue // failed write: no effect
			}
			ops = append(ops, porcupine.Operation{ClientId: clientID(r.C), Input: regIn{op: r.Op, id: r.W}, Call: r.Call, Output: r.R, Return: r.Ret})
			kept = append(kept, r)
		}
		if len(ops) == 0 {
			continue
		}
		switch porcupine.CheckOperationsTimeout(registerModel, ops, timeout) {
		case porcupine.Unknown:
			res.Inconclusive++
		case porcupine.Illegal:
			// name the stage at which the history stops being linearizable
			stage := "reopen"
			if !legalUpTo(ops, kept, 0, timeout) {
				stage = "concurrent"
			} else if !legalUpTo(ops, kept, 1, timeout) {
				stage = "quiet"
			}
			sig := "not-linearizable@" + stage
			if stage != "concurrent" {
				sig += ":" + transition(kept, stage)
			}
			failed := ""
			for _, r := range perKey[k] {
				if r.Op != "get" && r.Err != "" {
					if failed == "" && r.Op == "del" {
						sig += "+failed-delete-on-key"
					}
					failed += r.String() + "; "
				}
			}
			if failed != "" {
				failed = " writes on the key that reported an error (modelled as no effect): " + failed
			}
			res.V = &Verdict{Sig: sig,
				Msg: fmt.Sprintf("the history of key k%d (%d operations) has no linearization; %s%s", k, len(ops), explain(kept, stage), failed)}
			return res
		}
	}
	return res
}

func clientID(c int) int {
	if c < 0 {
		return 100 - c
	}
	return c
}

func stageOf(r *Rec) string {
	switch r.C {
	case -1:
		return "quiet"
	case -2:
		return "reopen"
	}
	return "concurrent"
}

// legalUpTo reports whether the history restricted to the client operations
// (limit 0), plus the quiescent reads (limit 1), is linearizable (a timeout
// counts as legal).
func legalUpTo(ops []porcupine.Operation, recs []*Rec, limit int, timeout time.Duration) bool {
	var sub []porcupine.Operation
	for i, r := range recs {
		if r.C >= 0 || (r.C == -1 && limit >= 1) {
			sub = append(sub, ops[i])
		}
	}
	return porcupine.CheckOperationsTimeout(registerModel, sub, timeout) != porcupine.Illegal
}

// transition names how the value seen by the reads of the failing stage
// differs from the value seen by the stage before it.
func transition(recs []*Rec, stage string) string {
	cur, prev := -1, 0 // pseudo clients: quiet (-1) vs. the last client read; reopen (-2) vs. quiet
	if stage == "reopen" {
		cur, prev = -2, -1
	}
	var a, b *Rec
	for _, r := range recs {
		if r.Op != "get" {
			continue
		}
		if r.C == cur {
			a = r
		} else if (prev == -1 && r.C == -1) || (prev == 0 && r.C >= 0 && (b == nil || r.Ret > b.Ret)) {
			b = r
		}
	}
	switch {
	case a == nil || b == nil:
		return "unknown"
	case a.R == 0 && b.R != 0:
		return "present->absent"
	case a.R != 0 && b.R == 0:
		return "absent->present"
	case a.R != b.R:
		return "value-changed"
	}
	return "same-value"
}

// explain renders the tail of a key history for the failure message.
func explain(recs []*Rec, stage string) string {
	s := append([]*Rec(nil), recs...)
	sort.Slice(s, func(i, j int) bool { return s[i].Call < s[j].Call })
	// show the reads of the named stage and the last few writes
	out := ""
	n := 0
	for i := len(s) - 1; i >= 0 && n < 10; i-- {
		out = s[i].String() + "; " + out
		n++
	}
	return "last operations on the key: " + out
}

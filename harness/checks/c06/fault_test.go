// Resource-limit fault windows for C06 ("a write that reports an error took no
// effect"): on the unchanged tree a Put or Delete only fails while a log
// rotation is in progress, so the sentence is hardly exercised. During the
// client phase a fault goroutine lowers one of the process's own limits for a
// generated window and lifts it again:
//
//	fsize:  RLIMIT_FSIZE (SIGXFSZ ignored) - the write(2) that would grow a file
//	        past the limit fails with EFBIG after a partial write, like a full
//	        disk; only generated with synchronous logging, where the failure is
//	        reported by the operation that causes it
//	nofile: RLIMIT_NOFILE lowered to 0 - descriptors already open keep working,
//	        every open/create fails with EMFILE (new log file at a
//	        rotation, new SSTable at a flush, compaction inputs/outputs)
//
// No hook is needed. The limits are lifted before the harness closes or reopens
// the engine.
package c06

import (
	"os/signal"
	"sync"
	"syscall"
	"time"

	"pgregory.net/rapid"
)

// Fault is one limit window.
type Fault struct {
	Kind  string `json:"kind"`  // fsize | nofile
	Round int    `json:"round"` // part of the case it belongs to
	AtUs  int    `json:"at_us"` // delay after the clients start
	DurUs int    `json:"dur_us"`
	Limit int    `json:"limit,omitempty"` // fsize: bytes
}

func genFaults(t *rapid.T, c *Case) []Fault {
	var out []Fault
	n := rapid.IntRange(1, 3).Draw(t, "nfaults")
	for i := 0; i < n; i++ {
		f := Fault{
			Kind:  "nofile",
			Round: rapid.IntRange(0, max(c.Rounds, 1)-1).Draw(t, "fround"),
			AtUs:  rapid.SampledFrom([]int{0, 100, 500, 2000, 5000}).Draw(t, "fat"),
			DurUs: rapid.SampledFrom([]int{200, 1000, 5000, 20000}).Draw(t, "fdur"),
		}
		if c.Cfg.SyncMode == 2 && rapid.Bool().Draw(t, "ffsize") {
			f.Kind = "fsize"
			f.Limit = rapid.IntRange(200, 4000).Draw(t, "flimit")
		}
		out = append(out, f)
	}
	return out
}

var xfszOnce sync.Once

func setLimit(res int, cur uint64) (restore func()) {
	var old syscall.Rlimit
	if err := syscall.Getrlimit(res, &old); err != nil {
		return func() {}
	}
	nl := old
	nl.Cur = cur
	if nl.Cur > nl.Max {
		nl.Cur = nl.Max
	}
	if err := syscall.Setrlimit(res, &nl); err != nil {
		return func() {}
	}
	return func() { _ = syscall.Setrlimit(res, &old) }
}

// startFaults runs the round's fault windows one after the other once start is
// closed. The returned function ends the current window, lifts every limit and
// waits for the goroutine.
func startFaults(c *Case, round int, start <-chan struct{}, st *Stats) (stop func()) {
	var mine []Fault
	for _, f := range c.Faults {
		if f.Round == round {
			mine = append(mine, f)
		}
	}
	if len(mine) == 0 {
		return func() {}
	}
	xfszOnce.Do(func() { signal.Ignore(syscall.SIGXFSZ) })
	quit := make(chan struct{})
	var wg sync.WaitGroup
	wg.Add(1)
	go func() {
		defer wg.Done()
		<-start
		sleep := func(us int) bool {
			select {
			case <-quit:
				return false
			case <-time.After(time.Duration(us) * time.Microsecond):
				return true
			}
		}
		for _, f := range mine {
			if !sleep(f.AtUs) {
				return
			}
			var restore func()
			if f.Kind == "fsize" {
				restore = setLimit(syscall.RLIMIT_FSIZE, uint64(f.Limit))
			} else {
				restore = setLimit(syscall.RLIMIT_NOFILE, 0)
			}
			st.FaultWindows++
			ok := sleep(f.DurUs)
			restore()
			if !ok {
				return
			}
		}
	}()
	return func() {
		close(quit)
		wg.Wait()
	}
}

package c16

// Two additions to the interleaving part:
//
// 1. Client transactions that stay OPEN across replicated applies (read-only
//    ones, "read-write" ones that the replica refuses/downgrades, through the
//    embedded API and through the service by handle), with a progress oracle:
//    "continues to apply replicated operations and to serve reads" is decided
//    as a bound of progressBound (normal latency of an apply or a read is far
//    below a millisecond, the bound is more than 1000 times that). A blocked
//    apply is released by finishing the open transaction, which both confirms
//    the cause and lets the case be torn down.
//
// 2. The lifecycle moment "replication manager stopped, service still
//    answering" (cmd/kevo Server.Shutdown stops the manager first and drains
//    the gRPC server afterwards): the mutator enumeration and the node
//    information probe run again after Manager.Stop. Whatever the node
//    reports then must agree with what mutations experience, and as long as it
//    reports role REPLICA every client mutation must still be refused.

import (
	"bytes"
	"fmt"
	"runtime"
	"strings"
	"sync/atomic"
	"time"

	"github.com/KevoDB/kevo/pkg/engine/interfaces"
	pb "github.com/KevoDB/kevo/proto/kevo"
	"google.golang.org/protobuf/proto"
	"google.golang.org/protobuf/reflect/protoreflect"

	"verif/internal/drive"
	"verif/internal/ev"
)

// HoldSpec: a client transaction begun before the phase's replicated
// operations and finished after them.
type HoldSpec struct {
	Kind   string `json:"kind"`             // ro | rw | svc-ro | svc-rw (rw = begun with readOnly=false: the replica downgrades/refuses it)
	ReadK  int    `json:"read_k"`           // key read inside the transaction after the applies
	Commit bool   `json:"commit,omitempty"` // finish with Commit instead of Rollback
}

// progressBound: how long a replicated apply or a client read may take while
// a client transaction is open before it counts as blocked. After a blocked
// violation has been recorded in this process the library only re-executes
// shrink candidates; those use a shorter bound to keep a failing run short.
var blockedSeen atomic.Bool

func progressBound() time.Duration {
	// stretched on an oversubscribed machine (ev.LoadFactor is 1 on a machine that
	// runs one check at a time)
	if blockedSeen.Load() {
		return time.Duration(float64(1500*time.Millisecond) * ev.LoadFactor())
	}
	return time.Duration(float64(5*time.Second) * ev.LoadFactor())
}

// relevantStacks returns the goroutines that wait on a lock or sit in the
// engine / replication / service code.
func relevantStacks() string {
	buf := make([]byte, 1<<20)
	n := runtime.Stack(buf, true)
	var out []string
	for _, g := range strings.Split(string(buf[:n]), "\n\n") {
		if !strings.Contains(g, "sync.(*RWMutex)") && !strings.Contains(g, "sync.(*Mutex)") {
			continue
		}
		if !strings.Contains(g, "KevoDB/kevo") {
			continue
		}
		lines := strings.Split(g, "\n")
		var keep []string
		for i, l := range lines {
			if i == 0 || (strings.Contains(l, "(") && !strings.HasPrefix(l, "\t") && (strings.Contains(l, "KevoDB/kevo") || strings.Contains(l, "sync.(") || strings.Contains(l, "c16."))) {
				keep = append(keep, strings.TrimSpace(l))
			}
		}
		out = append(out, strings.Join(keep, " < "))
		if len(out) >= 6 {
			break
		}
	}
	s := strings.Join(out, " || ")
	if len(s) > 2500 {
		s = s[:2500] + "..."
	}
	return s
}

// heldTx is an open client transaction.
type heldTx struct {
	spec *HoldSpec
	tx   interfaces.Transaction // embedded
	id   string                 // service handle
	open bool
}

func (x *exec) beginHold(h *HoldSpec) *heldTx {
	ht := &heldTx{spec: h}
	ok := x.bounded(func() {
		switch h.Kind {
		case "ro", "rw":
			tx, err := x.eng.BeginTransaction(h.Kind == "ro")
			if err != nil {
				// a replica may refuse to begin a read-write transaction, if it says why
				if h.Kind == "rw" && saysReadOnly(err) {
					return
				}
				x.fail("hold:begin-error", h.Kind, err.Error())
				return
			}
			ht.tx, ht.open = tx, true
		default:
			id := x.svcBegin(h.Kind == "svc-ro")
			if id == "" {
				ev.R().Count("svc_begin_failed", 1)
				return
			}
			ht.id, ht.open = id, true
		}
	})
	if !ok {
		x.fail("call:blocked", "begin-"+h.Kind, "beginning a client transaction did not return within "+progressBound().String()+": "+relevantStacks())
		x.stuck = true
	}
	return ht
}

// readInside reads one key inside the open transaction.
func (x *exec) readInside(ht *heldTx) {
	if !ht.open {
		return
	}
	key := x.c.Keys[ht.spec.ReadK%len(x.c.Keys)]
	ctx := "held-" + ht.spec.Kind
	if ht.tx != nil {
		v, err := ht.tx.Get(key)
		if err == nil {
			x.judgeRead(ctx+".Get", key, true, nonNil(v))
		} else if drive.IsNotFound(err) {
			x.judgeRead(ctx+".Get", key, false, nil)
		}
		return
	}
	r, ok := x.s.rpc("TxGet")
	if !ok {
		return
	}
	resps, req, err, _ := svcCall(x.srv, r, func(m proto.Message) error {
		setStringField(m, "transaction_id", ht.id)
		if fd := m.ProtoReflect().Descriptor().Fields().ByName("key"); fd != nil {
			m.ProtoReflect().Set(fd, protoreflect.ValueOfBytes(key))
		}
		return nil
	})
	x.judgeResponses(ctx+".TxGet", req, resps, err)
}

func (x *exec) finishHold(ht *heldTx) {
	if ht == nil || !ht.open {
		return
	}
	ht.open = false
	if ht.tx != nil {
		if ht.spec.Commit {
			_ = ht.tx.Commit()
		} else {
			_ = ht.tx.Rollback()
		}
		return
	}
	if ht.spec.Commit {
		x.svcFinish("CommitTransaction", ht.id)
	} else {
		x.svcRollback(ht.id)
	}
}

// bounded runs f and waits for it up to the progress bound.
func (x *exec) bounded(f func()) bool {
	done := make(chan struct{})
	go func() { defer close(done); f() }()
	select {
	case <-done:
		return true
	case <-time.After(progressBound()):
		x.pending = append(x.pending, done)
		return false
	}
}

// drainPending waits (bounded) for calls that were given up on.
func (x *exec) drainPending(d time.Duration) bool {
	deadline := time.After(d)
	for _, ch := range x.pending {
		select {
		case <-ch:
		case <-deadline:
			return false
		}
	}
	x.pending = nil
	return true
}

// blocked reports a call or an apply that made no progress, releases the open
// client transaction (if any) and records whether that let things move again.
func (x *exec) blocked(what, ctx string, ht *heldTx, applierDone <-chan struct{}) {
	stacks := relevantStacks()
	applierStuck := false
	if applierDone != nil {
		select {
		case <-applierDone:
		default:
			applierStuck = true
		}
	}
	kind := "call:blocked"
	if what == "apply" {
		kind = "apply:blocked"
	}
	released := ""
	if ht != nil && ht.open {
		if applierStuck {
			kind = "apply:blocked-by-open-client-transaction"
			ctx = "held-" + ht.spec.Kind
		} else {
			kind = "call:blocked-while-client-transaction-open"
		}
		t0 := time.Now()
		x.finishHold(ht)
		freed := x.drainPending(5 * time.Second)
		if applierStuck {
			select {
			case <-applierDone:
			case <-time.After(5 * time.Second):
				freed = false
			}
		}
		released = fmt.Sprintf("; after the client transaction was finished everything returned within %v: %v", time.Since(t0).Round(time.Millisecond), freed)
	}
	blockedSeen.Store(true)
	x.stuck = true
	x.fail(kind, ctx, fmt.Sprintf("%s made no progress for %v (replicated apply still running: %v)%s; waiting goroutines: %s",
		what, progressBound(), applierStuck, released, stacks))
}

// ---- after Manager.Stop -------------------------------------------------------

type probeResult struct {
	ctx string
	err error
}

// afterStop stops the replication manager the way Server.Shutdown does (the
// service keeps answering) and runs the node-information probe and the
// mutator-table calls again.
func (x *exec) afterStop(calls []Call) {
	if x.mgr == nil || len(calls) == 0 {
		return
	}
	stopped := make(chan struct{})
	go func() { _ = x.mgr.Stop(); close(stopped) }()
	select {
	case <-stopped:
	case <-time.After(10 * time.Second):
		ev.R().Count("manager_stop_hung", 1)
		return
	}
	x.stoppedMgr = true
	r, ok := x.s.rpc("GetNodeInfo")
	if !ok {
		return
	}
	resps, _, err, p := svcCall(x.srv, r, func(proto.Message) error { return nil })
	if err != nil || p != nil || len(resps) != 1 {
		x.fail("nodeinfo:error", "after-stop", fmt.Sprintf("err=%v panic=%v responses=%d", err, p, len(resps)))
		return
	}
	info, ok := resps[0].(*pb.GetNodeInfoResponse)
	if !ok {
		return
	}
	x.probe = &[]probeResult{}
	for i := range calls {
		if !x.bounded(func() { x.doCall(&calls[i]) }) {
			x.blocked("client call "+calls[i].Surface+"."+calls[i].Method, "after-stop", nil, nil)
			return
		}
	}
	res := *x.probe
	x.probe = nil
	accepted, refused, other := "", "", ""
	for _, pr := range res {
		switch {
		case pr.err == nil:
			accepted = pr.ctx
		case saysReadOnly(pr.err):
			refused = pr.ctx
		default:
			other = fmt.Sprintf("%s: %v", pr.ctx, pr.err)
		}
	}
	ev.R().Count("after_stop_probes", 1)
	ev.R().Count("after_stop_reports_"+info.NodeRole.String(), 1)
	if info.NodeRole == pb.GetNodeInfoResponse_REPLICA {
		switch {
		case accepted != "":
			x.fail("after-stop:node-reports-replica-but-accepts-client-write", accepted,
				fmt.Sprintf("after Manager.Stop GetNodeInfo reports role=%v primary=%q read_only=%v, and %s returned no error", info.NodeRole, info.PrimaryAddress, info.ReadOnly, accepted))
			return
		case other != "":
			x.fail("mutator:wrong-error", "after-stop", other)
			return
		case !info.ReadOnly:
			x.fail("nodeinfo:read-only-disagrees-with-mutations", "after-stop", "reports read_only=false while every mutation is refused with a read-only error")
			return
		}
		// still a replica: its data is still exactly the replicated history
		got, err := x.scan()
		if err == nil {
			if d := diffModels(got, x.model); d != "" {
				x.fail("data:client-write-took-effect", "after-stop", d)
			}
		}
		return
	}
	// the node no longer claims to be a replica: accepting writes is its own
	// business, but the flag must say what mutations experience
	if info.ReadOnly && accepted != "" {
		x.fail("nodeinfo:read-only-disagrees-with-mutations", "after-stop", fmt.Sprintf("reports role=%v read_only=true, yet %s returned no error", info.NodeRole, accepted))
	} else if !info.ReadOnly && refused != "" {
		x.fail("nodeinfo:read-only-disagrees-with-mutations", "after-stop", fmt.Sprintf("reports role=%v read_only=false, yet %s is refused with a read-only error", info.NodeRole, refused))
	}
}

var _ = bytes.Equal

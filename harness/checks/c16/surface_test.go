package c16

import (
	"context"
	"errors"
	"fmt"
	"reflect"
	"sort"
	"strings"

	"github.com/KevoDB/kevo/pkg/common/iterator"
	"github.com/KevoDB/kevo/pkg/engine"
	"github.com/KevoDB/kevo/pkg/engine/interfaces"
	"github.com/KevoDB/kevo/pkg/wal"
	pb "github.com/KevoDB/kevo/proto/kevo"
	"google.golang.org/grpc"
	"google.golang.org/grpc/metadata"
	"google.golang.org/protobuf/encoding/protojson"
	"google.golang.org/protobuf/proto"
	"google.golang.org/protobuf/reflect/protoreflect"
)

// ---- run-time enumeration of the API surface --------------------------------

// engineMethods: the method set of interfaces.Engine (Close excluded), sorted.
func engineMethods() []string {
	t := reflect.TypeOf((*interfaces.Engine)(nil)).Elem()
	var out []string
	for i := 0; i < t.NumMethod(); i++ {
		if n := t.Method(i).Name; n != "Close" {
			out = append(out, n)
		}
	}
	sort.Strings(out)
	return out
}

// txMethods: the method set of the Transaction type that BeginTransaction returns.
func txMethods() []string {
	t := reflect.TypeOf((*interfaces.Transaction)(nil)).Elem()
	var out []string
	for i := 0; i < t.NumMethod(); i++ {
		out = append(out, t.Method(i).Name)
	}
	sort.Strings(out)
	return out
}

// internalMethods: the bypass methods of the facade (name ends in "Internal"),
// which is what replication is allowed to use on a read-only engine.
func internalMethods() []string {
	t := reflect.TypeOf(&engine.EngineFacade{})
	var out []string
	for i := 0; i < t.NumMethod(); i++ {
		if n := t.Method(i).Name; strings.HasSuffix(n, "Internal") {
			out = append(out, n)
		}
	}
	sort.Strings(out)
	return out
}

type rpcInfo struct {
	Name   string
	Stream bool
	unary  *grpc.MethodDesc
	stream *grpc.StreamDesc
}

// serviceRPCs: the RPC list of the generated service descriptor, sorted.
func serviceRPCs() []rpcInfo {
	var out []rpcInfo
	d := &pb.KevoService_ServiceDesc
	for i := range d.Methods {
		out = append(out, rpcInfo{Name: d.Methods[i].MethodName, unary: &d.Methods[i]})
	}
	for i := range d.Streams {
		out = append(out, rpcInfo{Name: d.Streams[i].StreamName, Stream: true, stream: &d.Streams[i]})
	}
	sort.Slice(out, func(i, j int) bool { return out[i].Name < out[j].Name })
	return out
}

// The mutator table: entry points that are client-initiated mutations and must
// therefore be refused with a read-only error on a replica (property text: put,
// delete, batch, read-write transaction; embedded or remote API).
var engineMutators = map[string]bool{"Put": true, "Delete": true, "ApplyBatch": true}
var txMutators = map[string]bool{"Put": true, "Delete": true}
var svcMutators = map[string]bool{"Put": true, "Delete": true, "BatchWrite": true, "TxPut": true, "TxDelete": true}

func saysReadOnly(err error) bool {
	if err == nil {
		return false
	}
	if errors.Is(err, engine.ErrReadOnlyMode) || errors.Is(err, interfaces.ErrReadOnlyTransaction) {
		return true
	}
	s := strings.ToLower(err.Error())
	return strings.Contains(s, "read-only") || strings.Contains(s, "read only") || strings.Contains(s, "readonly")
}

// ---- generic calls by reflection -------------------------------------------

// EntrySpec is one element of a []*wal.Entry argument.
type EntrySpec struct {
	Del bool   `json:"del,omitempty"`
	Key []byte `json:"key"`
	Val []byte `json:"val,omitempty"`
	// Seq is the SequenceNumber field the CLIENT filled in (entries read back
	// from a log, copied from another node): a client batch stays a client batch
	Seq uint64 `json:"seq,omitempty"`
}

// Args holds drawn argument values by type, consumed in parameter order.
type Args struct {
	Bytes   [][]byte    `json:"bytes,omitempty"`
	Nil     []bool      `json:"nil,omitempty"` // Bytes[i] is passed as a nil slice
	Bools   []bool      `json:"bools,omitempty"`
	Ints    []int64     `json:"ints,omitempty"`
	Strs    []string    `json:"strs,omitempty"`
	Entries []EntrySpec `json:"entries,omitempty"`
}

var (
	bytesT   = reflect.TypeOf([]byte(nil))
	entriesT = reflect.TypeOf([]*wal.Entry(nil))
	ctxT     = reflect.TypeOf((*context.Context)(nil)).Elem()
	errT     = reflect.TypeOf((*error)(nil)).Elem()
	iterT    = reflect.TypeOf((*iterator.Iterator)(nil)).Elem()
	txT      = reflect.TypeOf((*interfaces.Transaction)(nil)).Elem()
)

// paramKinds describes what a method needs, in order: "bytes", "bool", "int",
// "string", "entries", "ctx", "zero:<type>".
func paramKinds(m reflect.Type, skipRecv bool) []string {
	var out []string
	start := 0
	if skipRecv {
		start = 1
	}
	for i := start; i < m.NumIn(); i++ {
		t := m.In(i)
		switch {
		case t == bytesT:
			out = append(out, "bytes")
		case t == entriesT:
			out = append(out, "entries")
		case t == ctxT:
			out = append(out, "ctx")
		case t.Kind() == reflect.Bool:
			out = append(out, "bool")
		case t.Kind() == reflect.String:
			out = append(out, "string")
		case t.Kind() >= reflect.Int && t.Kind() <= reflect.Uint64:
			out = append(out, "int")
		default:
			out = append(out, "zero:"+t.String())
		}
	}
	return out
}

// buildArgs turns Args into reflect values for the method type.
func buildArgs(m reflect.Type, skipRecv bool, a *Args) []reflect.Value {
	var in []reflect.Value
	bi, bo, ii, si := 0, 0, 0, 0
	start := 0
	if skipRecv {
		start = 1
	}
	for i := start; i < m.NumIn(); i++ {
		t := m.In(i)
		switch {
		case t == bytesT:
			var b []byte
			if bi < len(a.Bytes) {
				if bi < len(a.Nil) && a.Nil[bi] {
					b = nil
				} else {
					b = append([]byte{}, a.Bytes[bi]...)
				}
			}
			bi++
			in = append(in, reflect.ValueOf(b))
		case t == entriesT:
			es := make([]*wal.Entry, 0, len(a.Entries))
			for _, e := range a.Entries {
				if e.Del {
					es = append(es, &wal.Entry{Type: wal.OpTypeDelete, Key: append([]byte{}, e.Key...), SequenceNumber: e.Seq})
				} else {
					es = append(es, &wal.Entry{Type: wal.OpTypePut, Key: append([]byte{}, e.Key...), Value: append([]byte{}, e.Val...), SequenceNumber: e.Seq})
				}
			}
			in = append(in, reflect.ValueOf(es))
		case t == ctxT:
			in = append(in, reflect.ValueOf(context.Background()))
		case t.Kind() == reflect.Bool:
			v := false
			if bo < len(a.Bools) {
				v = a.Bools[bo]
			}
			bo++
			in = append(in, reflect.ValueOf(v).Convert(t))
		case t.Kind() == reflect.String:
			v := ""
			if si < len(a.Strs) {
				v = a.Strs[si]
			}
			si++
			in = append(in, reflect.ValueOf(v).Convert(t))
		case t.Kind() >= reflect.Int && t.Kind() <= reflect.Uint64:
			var v int64
			if ii < len(a.Ints) {
				v = a.Ints[ii]
			}
			ii++
			in = append(in, reflect.ValueOf(v).Convert(t))
		default:
			in = append(in, reflect.Zero(t))
		}
	}
	return in
}

// callResult is what a generic call produced.
type callResult struct {
	err    error
	outs   []reflect.Value
	panicV any
}

func callMethod(recv reflect.Value, name string, a *Args) (res callResult, found bool) {
	m := recv.MethodByName(name)
	if !m.IsValid() {
		return res, false
	}
	defer func() {
		if p := recover(); p != nil {
			res.panicV = p
		}
	}()
	outs := m.Call(buildArgs(m.Type(), false, a))
	res.outs = outs
	for _, o := range outs {
		if o.Type() == errT && !o.IsNil() {
			res.err = o.Interface().(error)
		}
	}
	return res, true
}

// ---- generic service calls ---------------------------------------------------

// fakeServerStream serves the streaming RPC handlers in process.
type fakeServerStream struct {
	ctx  context.Context
	req  proto.Message // request to deliver through RecvMsg
	fill func(proto.Message) error
	sent []proto.Message
}

func (s *fakeServerStream) SetHeader(metadata.MD) error  { return nil }
func (s *fakeServerStream) SendHeader(metadata.MD) error { return nil }
func (s *fakeServerStream) SetTrailer(metadata.MD)       {}
func (s *fakeServerStream) Context() context.Context     { return s.ctx }
func (s *fakeServerStream) SendMsg(m any) error {
	if pm, ok := m.(proto.Message); ok {
		s.sent = append(s.sent, proto.Clone(pm))
	}
	return nil
}
func (s *fakeServerStream) RecvMsg(m any) error {
	pm, ok := m.(proto.Message)
	if !ok {
		return fmt.Errorf("not a proto message")
	}
	return s.fill(pm)
}

// svcCall invokes an RPC handler of the generated service descriptor on srv.
// fill receives the handler's freshly allocated request message (whatever its
// type) and must populate it. It returns the responses and the error.
func svcCall(srv any, r rpcInfo, fill func(proto.Message) error) (resps []proto.Message, req proto.Message, err error, panicV any) {
	defer func() {
		if p := recover(); p != nil {
			panicV = p
		}
	}()
	return svcCallRaw(srv, r, fill)
}

// svcCallRaw is svcCall without the panic guard (used during generation, where
// the generator library's own control-flow panics must pass through).
func svcCallRaw(srv any, r rpcInfo, fill func(proto.Message) error) (resps []proto.Message, req proto.Message, err error, panicV any) {
	capture := func(m proto.Message) error {
		if e := fill(m); e != nil {
			return e
		}
		req = proto.Clone(m)
		return nil
	}
	if r.Stream {
		st := &fakeServerStream{ctx: context.Background(), fill: capture}
		err = r.stream.Handler(srv, st)
		return st.sent, req, err, nil
	}
	out, err := r.unary.Handler(srv, context.Background(), func(in any) error {
		pm, ok := in.(proto.Message)
		if !ok {
			return fmt.Errorf("request is not a proto message")
		}
		return capture(pm)
	}, nil)
	if pm, ok := out.(proto.Message); ok && pm != nil && !reflect.ValueOf(out).IsNil() {
		resps = append(resps, pm)
	}
	return resps, req, err, nil
}

func fromJSON(js string) func(proto.Message) error {
	return func(m proto.Message) error {
		if js == "" {
			return nil
		}
		return protojson.Unmarshal([]byte(js), m)
	}
}

func toJSON(m proto.Message) string {
	if m == nil {
		return ""
	}
	b, err := protojson.Marshal(m)
	if err != nil {
		return ""
	}
	return string(b)
}

// bytesField returns the bytes field `name` of m, if it has one.
func bytesField(m proto.Message, name string) ([]byte, bool) {
	if m == nil {
		return nil, false
	}
	fd := m.ProtoReflect().Descriptor().Fields().ByName(protoreflect.Name(name))
	if fd == nil || fd.Kind() != protoreflect.BytesKind || fd.IsList() {
		return nil, false
	}
	return m.ProtoReflect().Get(fd).Bytes(), true
}

func boolField(m proto.Message, name string) (bool, bool) {
	if m == nil {
		return false, false
	}
	fd := m.ProtoReflect().Descriptor().Fields().ByName(protoreflect.Name(name))
	if fd == nil || fd.Kind() != protoreflect.BoolKind || fd.IsList() {
		return false, false
	}
	return m.ProtoReflect().Get(fd).Bool(), true
}

func stringField(m proto.Message, name string) (string, bool) {
	if m == nil {
		return "", false
	}
	fd := m.ProtoReflect().Descriptor().Fields().ByName(protoreflect.Name(name))
	if fd == nil || fd.Kind() != protoreflect.StringKind || fd.IsList() {
		return "", false
	}
	return m.ProtoReflect().Get(fd).String(), true
}

func setStringField(m proto.Message, name, v string) bool {
	fd := m.ProtoReflect().Descriptor().Fields().ByName(protoreflect.Name(name))
	if fd == nil || fd.Kind() != protoreflect.StringKind || fd.IsList() {
		return false
	}
	m.ProtoReflect().Set(fd, protoreflect.ValueOfString(v))
	return true
}

// C16 — a replica refuses client writes but keeps applying replicated ones.
// API-surface enumeration by reflection + model (DESIGN.md 5/C16): the method
// set of interfaces.Engine, of the Transaction it returns and the RPC list of
// the generated service descriptor are enumerated at run time; every entry
// point is called with arguments drawn by type on an engine in replica mode
// while another goroutine applies a generated replicated history.
package c16

import (
	"bytes"
	"encoding/json"
	"fmt"
	"io"
	"os"
	"reflect"
	"runtime"
	"sort"
	"sync"
	"sync/atomic"
	"testing"
	"time"

	"github.com/KevoDB/kevo/pkg/common/iterator"
	"github.com/KevoDB/kevo/pkg/common/log"
	"github.com/KevoDB/kevo/pkg/engine"
	"github.com/KevoDB/kevo/pkg/engine/interfaces"
	"github.com/KevoDB/kevo/pkg/grpc/service"
	"github.com/KevoDB/kevo/pkg/replication"
	"github.com/KevoDB/kevo/pkg/transaction"
	"github.com/KevoDB/kevo/pkg/verifhook"
	"github.com/KevoDB/kevo/pkg/wal"
	pb "github.com/KevoDB/kevo/proto/kevo"
	"google.golang.org/protobuf/proto"
	"google.golang.org/protobuf/reflect/protoreflect"
	"pgregory.net/rapid"

	"verif/internal/drive"
	"verif/internal/ev"
	"verif/internal/gen"
)

const rule = "case = (engine put in replica mode directly with SetReadOnly(true) or through replication.Manager in replica mode, " +
	"2-6 phases; in each phase one goroutine applies generated replicated operations through EngineApplier.Apply and the facade's *Internal " +
	"bypass methods while the client goroutine calls entry points drawn from the RUN-TIME enumeration of interfaces.Engine (Close excluded), of " +
	"interfaces.Transaction and of pb.KevoService_ServiceDesc, with arguments drawn by type; a hook handler parks the applier inside the storage " +
	"write so that calls start while an apply is in flight); oracle = after every phase the full scan equals the model of the REPLICATED operations only, " +
	"every apply succeeds, entry points of the mutator table fail with a read-only error, reads return a value the key held during the phase and never " +
	"client bytes, the engine stays read-only; GetNodeInfo reports role, primary address and read_only as configured for replica, primary and standalone, and for a replica-role node configured with ForceReadOnly=false read_only follows what a client put experiences while the engine flag is set and lifted; " +
	"in about half of the phases a client transaction (read-only, or read-write and therefore refused/downgraded; embedded or by service handle) stays open across the phase's " +
	"replicated operations: every apply, every client call and the read inside the open transaction must return within 5 s (normal: far below a millisecond); in manager " +
	"cases the mutator table and GetNodeInfo are probed again after Manager.Stop: as long as the node reports role replica every mutation is still refused, and read_only agrees " +
	"with what mutations experience; non-trivial = a mutator-table call started while an apply was in flight; distinct by FNV-64 of the case JSON"

func TestMain(m *testing.M) {
	ev.Silence()
	log.SetDefaultLogger(log.NewStandardLogger(log.WithOutput(io.Discard), log.WithLevel(log.LevelFatal)))
	rec := ev.Init("C16", rule)
	code := m.Run()
	rec.Flush(true)
	os.Exit(code)
}

// ----------------------------------------------------------------- case value

// ReplOp is one replicated operation.
type ReplOp struct {
	Via   string       `json:"via"` // apply | PutInternal | DeleteInternal | ApplyBatchInternal
	Del   bool         `json:"del,omitempty"`
	K     int          `json:"k"`
	V     *drive.Val   `json:"v,omitempty"`
	Batch []drive.TxOp `json:"batch,omitempty"`
}

// Call is one client call.
type Call struct {
	Surface    string `json:"surface"` // engine | tx | svc
	Method     string `json:"method"`
	Sync       bool   `json:"sync,omitempty"` // try to start while an apply is in flight
	Args       *Args  `json:"args,omitempty"`
	TxReadOnly bool   `json:"tx_read_only,omitempty"` // tx surface: flag given to BeginTransaction
	Req        string `json:"req,omitempty"`          // svc: the request (protojson)
	WithTx     string `json:"with_tx,omitempty"`      // svc: rw | ro: begin a transaction through the BeginTransaction RPC and use its id
}

// Phase is a stretch of concurrent apply + client calls, closed by a barrier.
type Phase struct {
	Repl  []ReplOp  `json:"replicated"`
	Calls []Call    `json:"calls"`
	Hold  *HoldSpec `json:"hold,omitempty"` // a client transaction open across this phase's replicated operations
}

// NodeCase is the node-information sub-check on a separate node.
type NodeCase struct {
	Mode        string `json:"mode"` // primary | standalone | none | replica_opt_out
	ListenAddr  string `json:"listen_addr"`
	PrimaryAddr string `json:"primary_addr"`
}

// Case is one generated case.
type Case struct {
	Cfg         drive.Cfg `json:"cfg"`
	Mode        string    `json:"mode"` // direct | manager
	PrimaryAddr string    `json:"primary_addr,omitempty"`
	ListenAddr  string    `json:"listen_addr,omitempty"`
	Keys        [][]byte  `json:"keys"`
	Phases      []Phase   `json:"phases"`
	Node        NodeCase  `json:"node"`
	// manager mode: mutator-table calls made after Manager.Stop while the
	// service still answers (the order of cmd/kevo Server.Shutdown)
	AfterStop []Call `json:"after_stop,omitempty"`
}

// Doc is the replay document.
type Doc struct {
	Property  string     `json:"property"`
	Case      Case       `json:"case"`
	Violation *violation `json:"violation,omitempty"`
}

type violation struct {
	Kind string `json:"kind"`
	Ctx  string `json:"ctx"`
	Msg  string `json:"msg"`
}

func (v *violation) Signature() string { return v.Kind + "@" + v.Ctx }
func (v *violation) Error() string     { return fmt.Sprintf("%s (%s): %s", v.Kind, v.Ctx, v.Msg) }

var clientMark = []byte("CLIENT!")

func clientValue(n int) []byte { return append(append([]byte{}, clientMark...), byte('0'+n%10)) }
func clientKey(n int) []byte   { return append([]byte("zz-"), clientValue(n)...) }

// ------------------------------------------------------------------ generator

func genKeyArg(t *rapid.T, keys [][]byte, valid bool) ([]byte, bool) {
	choices := []string{"pool", "pool", "pool", "pool", "outside"}
	if !valid {
		choices = append(choices, "nil", "empty")
	}
	switch rapid.SampledFrom(choices).Draw(t, "keyarg") {
	case "pool":
		return keys[rapid.IntRange(0, len(keys)-1).Draw(t, "ki")], false
	case "outside":
		return clientKey(rapid.IntRange(0, 3).Draw(t, "ko")), false
	}
	// "nil" and "empty": a nil slice (non-nil empty bounds have no documented meaning)
	return nil, true
}

// genArgs draws arguments by type for a method of the engine or transaction
// interface. The first []byte parameter of a method is a key (non-empty:
// engine-level precondition) unless the method takes a range; further []byte
// parameters are values or bounds.
func genArgs(t *rapid.T, name string, kinds []string, keys [][]byte) *Args {
	a := &Args{}
	nb := 0
	isRange := false
	for _, s := range []string{"Range", "Iterator", "Scan"} {
		if bytes.Contains([]byte(name), []byte(s)) {
			isRange = true
		}
	}
	for _, k := range kinds {
		switch k {
		case "bytes":
			var b []byte
			isNil := false
			switch {
			case isRange:
				b, isNil = genKeyArg(t, keys, false)
			case nb == 0:
				b, isNil = genKeyArg(t, keys, true)
			default:
				if rapid.IntRange(0, 5).Draw(t, "nilval") == 0 {
					isNil = true
				} else {
					b = clientValue(rapid.IntRange(0, 9).Draw(t, "cv"))
				}
			}
			a.Bytes = append(a.Bytes, b)
			a.Nil = append(a.Nil, isNil)
			nb++
		case "bool":
			a.Bools = append(a.Bools, rapid.Bool().Draw(t, "b"))
		case "int":
			a.Ints = append(a.Ints, int64(rapid.IntRange(0, 5).Draw(t, "i")))
		case "string":
			a.Strs = append(a.Strs, rapid.SampledFrom([]string{"", "x", "tx-1"}).Draw(t, "s"))
		case "entries":
			n := rapid.IntRange(1, 3).Draw(t, "nent")
			used := map[string]bool{}
			// in a third of the batches the client's entries carry sequence numbers
			// (read back from a log, copied from another node)
			seqBase := rapid.SampledFrom([]uint64{0, 0, 0, 0, 1, 2, 57, 1 << 33}).Draw(t, "eseq")
			for i := 0; i < n; i++ {
				k, _ := genKeyArg(t, keys, true)
				if used[string(k)] {
					continue
				}
				used[string(k)] = true
				var sq uint64
				if seqBase > 0 {
					sq = seqBase + uint64(i)
				}
				if rapid.IntRange(0, 3).Draw(t, "edel") == 0 {
					a.Entries = append(a.Entries, EntrySpec{Del: true, Key: k, Seq: sq})
				} else {
					a.Entries = append(a.Entries, EntrySpec{Key: k, Val: clientValue(rapid.IntRange(0, 9).Draw(t, "cv")), Seq: sq})
				}
			}
		}
	}
	return a
}

// fillRequest populates a request message of any type by reflection.
func fillRequest(t *rapid.T, m protoreflect.Message, keys [][]byte, valid bool, depth int) {
	fds := m.Descriptor().Fields()
	for i := 0; i < fds.Len(); i++ {
		fd := fds.Get(i)
		if fd.IsMap() {
			continue
		}
		one := func() (protoreflect.Value, bool) {
			name := string(fd.Name())
			switch fd.Kind() {
			case protoreflect.BytesKind:
				switch {
				case name == "key":
					b, _ := genKeyArg(t, keys, valid || rapid.IntRange(0, 4).Draw(t, "validkey") != 0)
					if !valid && rapid.IntRange(0, 30).Draw(t, "bigkey") == 0 {
						b = bytes.Repeat([]byte{'k'}, 4097)
					}
					return protoreflect.ValueOfBytes(b), true
				case name == "value":
					return protoreflect.ValueOfBytes(clientValue(rapid.IntRange(0, 9).Draw(t, "cv"))), true
				case name == "start_key" || name == "end_key":
					if rapid.IntRange(0, 2).Draw(t, "bound") != 0 {
						return protoreflect.Value{}, false
					}
					b, _ := genKeyArg(t, keys, true)
					return protoreflect.ValueOfBytes(b), true
				default: // prefix, suffix, anything new
					if rapid.IntRange(0, 3).Draw(t, "affix") != 0 {
						return protoreflect.Value{}, false
					}
					k := keys[rapid.IntRange(0, len(keys)-1).Draw(t, "ki")]
					return protoreflect.ValueOfBytes(k[:1]), true
				}
			case protoreflect.StringKind:
				return protoreflect.ValueOfString(rapid.SampledFrom([]string{"", "no-such-transaction"}).Draw(t, "str")), true
			case protoreflect.BoolKind:
				return protoreflect.ValueOfBool(rapid.Bool().Draw(t, "flag")), true
			case protoreflect.Int32Kind, protoreflect.Sint32Kind, protoreflect.Sfixed32Kind:
				return protoreflect.ValueOfInt32(int32(rapid.IntRange(0, 4).Draw(t, "n"))), true
			case protoreflect.Int64Kind, protoreflect.Sint64Kind, protoreflect.Sfixed64Kind:
				return protoreflect.ValueOfInt64(int64(rapid.IntRange(0, 4).Draw(t, "n"))), true
			case protoreflect.Uint32Kind, protoreflect.Fixed32Kind:
				return protoreflect.ValueOfUint32(uint32(rapid.IntRange(0, 4).Draw(t, "n"))), true
			case protoreflect.Uint64Kind, protoreflect.Fixed64Kind:
				return protoreflect.ValueOfUint64(uint64(rapid.IntRange(0, 4).Draw(t, "n"))), true
			case protoreflect.EnumKind:
				vs := fd.Enum().Values()
				return protoreflect.ValueOfEnum(vs.Get(rapid.IntRange(0, vs.Len()-1).Draw(t, "enum")).Number()), true
			case protoreflect.MessageKind:
				if depth > 2 {
					return protoreflect.Value{}, false
				}
				sub := m.NewField(fd)
				if fd.IsList() {
					el := sub.List().NewElement()
					fillRequest(t, el.Message(), keys, valid, depth+1)
					return el, true
				}
				fillRequest(t, sub.Message(), keys, valid, depth+1)
				return sub, true
			}
			return protoreflect.Value{}, false
		}
		if fd.IsList() {
			lo := 0
			if valid {
				lo = 1
			}
			n := rapid.IntRange(lo, 3).Draw(t, "nlist")
			l := m.Mutable(fd).List()
			for j := 0; j < n; j++ {
				if v, ok := one(); ok {
					l.Append(v)
				}
			}
			continue
		}
		if v, ok := one(); ok {
			m.Set(fd, v)
		}
	}
}

type surface struct {
	eng  []string
	tx   []string
	rpcs []rpcInfo
	intl []string
}

func enumerate() *surface {
	return &surface{eng: engineMethods(), tx: txMethods(), rpcs: serviceRPCs(), intl: internalMethods()}
}

func (s *surface) rpc(name string) (rpcInfo, bool) {
	for _, r := range s.rpcs {
		if r.Name == name {
			return r, true
		}
	}
	return rpcInfo{}, false
}

func genCall(t *rapid.T, s *surface, keys [][]byte, scratchSrv any, forceMut bool) Call {
	// mutator-table entry points get half of the draws, the rest of the surface the other half
	pickMut := forceMut || rapid.Bool().Draw(t, "mutator")
	c := Call{Sync: rapid.IntRange(0, 3).Draw(t, "sync") != 0}
	switch rapid.SampledFrom([]string{"engine", "engine", "tx", "svc", "svc"}).Draw(t, "surface") {
	case "engine":
		c.Surface = "engine"
		names := s.eng
		if pickMut {
			names = filter(s.eng, engineMutators)
		}
		c.Method = rapid.SampledFrom(names).Draw(t, "emethod")
		m, _ := reflect.TypeOf((*interfaces.Engine)(nil)).Elem().MethodByName(c.Method)
		c.Args = genArgs(t, c.Method, paramKinds(m.Type, false), keys)
	case "tx":
		c.Surface = "tx"
		names := s.tx
		if pickMut {
			names = filter(s.tx, txMutators)
		}
		c.Method = rapid.SampledFrom(names).Draw(t, "tmethod")
		c.TxReadOnly = !pickMut && rapid.Bool().Draw(t, "txro")
		m, _ := reflect.TypeOf((*interfaces.Transaction)(nil)).Elem().MethodByName(c.Method)
		c.Args = genArgs(t, c.Method, paramKinds(m.Type, false), keys)
	default:
		c.Surface = "svc"
		var cands []rpcInfo
		for _, r := range s.rpcs {
			if !pickMut || svcMutators[r.Name] {
				cands = append(cands, r)
			}
		}
		r := cands[rapid.IntRange(0, len(cands)-1).Draw(t, "rpc")]
		c.Method = r.Name
		valid := svcMutators[r.Name]
		// the request type is only known to the handler: let it allocate the
		// message, fill it by reflection, and abort the call
		var req proto.Message
		_, _, _, _ = svcCallRaw(scratchSrv, r, func(m proto.Message) error {
			fillRequest(t, m.ProtoReflect(), keys, valid, 0)
			req = proto.Clone(m)
			return errAbort
		})
		if req != nil {
			if _, has := stringField(req, "transaction_id"); has {
				if valid {
					c.WithTx = "rw"
				} else {
					c.WithTx = rapid.SampledFrom([]string{"rw", "rw", "ro", ""}).Draw(t, "withtx")
				}
			}
			c.Req = toJSON(req)
		}
	}
	return c
}

var errAbort = fmt.Errorf("generation only")

func filter(names []string, keep map[string]bool) []string {
	var out []string
	for _, n := range names {
		if keep[n] {
			out = append(out, n)
		}
	}
	if len(out) == 0 {
		return names
	}
	return out
}

func genReplOp(t *rapid.T, s *surface, nk int, tag *uint32) ReplOp {
	via := rapid.SampledFrom([]string{"apply", "apply", "apply", "apply", "apply", "apply", "PutInternal", "DeleteInternal", "ApplyBatchInternal", "ApplyBatchInternal"}).Draw(t, "via")
	val := func() *drive.Val {
		*tag++
		return gen.Value(t, *tag, gen.ValOpts{})
	}
	op := ReplOp{Via: via, K: rapid.IntRange(0, nk-1).Draw(t, "k")}
	switch via {
	case "apply":
		op.Del = rapid.IntRange(0, 3).Draw(t, "del") == 0
		if !op.Del {
			op.V = val()
		}
	case "PutInternal":
		op.V = val()
	case "DeleteInternal":
		op.Del = true
	default:
		n := rapid.IntRange(1, 3).Draw(t, "nb")
		used := map[int]bool{}
		for i := 0; i < n; i++ {
			k := rapid.IntRange(0, nk-1).Draw(t, "k")
			if used[k] {
				continue
			}
			used[k] = true
			if rapid.IntRange(0, 3).Draw(t, "del") == 0 {
				op.Batch = append(op.Batch, drive.TxOp{Op: "del", K: k})
			} else {
				op.Batch = append(op.Batch, drive.TxOp{Op: "put", K: k, V: val()})
			}
		}
	}
	return op
}

// ------------------------------------------------------------------- executor

type state struct {
	present bool
	val     []byte
}

// parker coordinates "an apply is in flight": the hook handler parks the
// applier goroutine inside the storage write for a bounded time; the client
// goroutine starts its call while it is parked. Time is used for pacing only,
// never as a verdict.
type parker struct {
	applierActive atomic.Int32
	parked        atomic.Int32
	release       atomic.Int64
}

func (p *parker) handler(site string) {
	if site != "storage.put.after_wal" && site != "storage.delete.after_wal" && site != "storage.batch.after_wal" {
		return
	}
	if p.applierActive.Load() == 0 {
		return
	}
	gen := p.release.Load()
	p.parked.Store(1)
	deadline := time.Now().Add(400 * time.Microsecond)
	for p.release.Load() == gen && time.Now().Before(deadline) {
		runtime.Gosched()
	}
	p.parked.Store(0)
}

type exec struct {
	c       *Case
	s       *surface
	dir     string
	eng     *engine.EngineFacade
	mgr     *replication.Manager
	reg     transaction.Registry
	srv     *service.KevoServiceServer
	applier *replication.EngineApplier
	model   drive.Model
	win     map[string][]state
	park    *parker
	viol    *violation
	vmu     sync.Mutex
	// classification
	mutCalls, mutOverlap, calls, overlap int
	methodsSeen                          map[string]bool
	unknownMethods                       int
	// progress oracle / lifecycle probe (hold_test.go)
	stuck      bool
	pending    []chan struct{}
	probe      *[]probeResult
	stoppedMgr bool
	holdKinds  map[string]bool
}

func (x *exec) fail(kind, ctx, msg string) {
	x.vmu.Lock()
	if x.viol == nil {
		x.viol = &violation{Kind: kind, Ctx: ctx, Msg: msg}
	}
	x.vmu.Unlock()
}

func (x *exec) failed() bool {
	x.vmu.Lock()
	defer x.vmu.Unlock()
	return x.viol != nil
}

func managerConfig(mode, primaryAddr, listenAddr string) *replication.ManagerConfig {
	rc := replication.DefaultReplicaConfig()
	rc.Connection.DialTimeout = 200 * time.Millisecond
	rc.Connection.RetryBaseDelay = 50 * time.Millisecond
	return &replication.ManagerConfig{
		Enabled:       true,
		Mode:          mode,
		PrimaryAddr:   primaryAddr,
		ListenAddr:    listenAddr,
		PrimaryConfig: replication.DefaultPrimaryConfig(),
		ReplicaConfig: rc,
		ForceReadOnly: true, // what cmd/kevo always passes
	}
}

func newExec(c *Case, s *surface) (*exec, error) {
	dir, err := os.MkdirTemp("", "c16-")
	if err != nil {
		return nil, err
	}
	x := &exec{c: c, s: s, dir: dir, model: drive.Model{}, park: &parker{}, methodsSeen: map[string]bool{}, holdKinds: map[string]bool{}}
	e, err := drive.Open(dir, c.Cfg)
	if err != nil {
		x.close()
		return nil, err
	}
	x.eng = e
	var provider service.ReplicationInfoProvider
	if c.Mode == "manager" {
		m, err := replication.NewManager(e, managerConfig(replication.ReplicationModeReplica, c.PrimaryAddr, c.ListenAddr))
		if err != nil {
			x.close()
			return nil, err
		}
		if err := m.Start(); err != nil {
			x.close()
			return nil, err
		}
		x.mgr = m
		provider = m
	} else {
		e.SetReadOnly(true)
	}
	x.reg = transaction.NewRegistry()
	x.srv = service.NewKevoServiceServer(e, x.reg, provider)
	x.applier = replication.NewEngineApplier(e)
	return x, nil
}

func (x *exec) close() {
	verifhook.Reset()
	if x.mgr != nil {
		// Replica.Stop can deadlock against its own connect loop (both want
		// the replica's mutex; a liveness matter outside this property): never
		// wait for it without a bound
		done := make(chan struct{})
		go func() { _ = x.mgr.Stop(); close(done) }()
		select {
		case <-done:
		case <-time.After(10 * time.Second):
			ev.R().Count("manager_stop_hung", 1)
		}
	}
	if x.eng != nil {
		closed := make(chan struct{})
		go func() { _ = x.eng.Close(); close(closed) }()
		select {
		case <-closed:
		case <-time.After(15 * time.Second):
			ev.R().Count("engine_close_hung", 1)
		}
	}
	if x.dir != "" {
		_ = os.RemoveAll(x.dir)
	}
}

func nonNil(b []byte) []byte {
	if b == nil {
		return []byte{}
	}
	return b
}

// applyModel applies a replicated operation to the model and extends the
// phase windows.
func (x *exec) applyModel(op *ReplOp) {
	set := func(k []byte, present bool, v []byte) {
		if present {
			x.model[string(k)] = v
		} else {
			delete(x.model, string(k))
		}
		x.win[string(k)] = append(x.win[string(k)], state{present, v})
	}
	if len(op.Batch) > 0 || op.Via == "ApplyBatchInternal" {
		for _, o := range op.Batch {
			if o.Op == "del" {
				set(x.c.Keys[o.K], false, nil)
			} else {
				set(x.c.Keys[o.K], true, nonNil(o.V.Bytes()))
			}
		}
		return
	}
	if op.Del {
		set(x.c.Keys[op.K], false, nil)
	} else {
		set(x.c.Keys[op.K], true, nonNil(op.V.Bytes()))
	}
}

// doRepl performs one replicated operation on the real engine.
func (x *exec) doRepl(op *ReplOp) error {
	key := x.c.Keys[op.K]
	switch op.Via {
	case "apply":
		if op.Del {
			return x.applier.Apply(&wal.Entry{Type: wal.OpTypeDelete, Key: key, SequenceNumber: 1})
		}
		return x.applier.Apply(&wal.Entry{Type: wal.OpTypePut, Key: key, Value: op.V.Bytes(), SequenceNumber: 1})
	case "ApplyBatchInternal":
		if len(op.Batch) == 0 {
			return nil
		}
		a := &Args{}
		for _, o := range op.Batch {
			if o.Op == "del" {
				a.Entries = append(a.Entries, EntrySpec{Del: true, Key: x.c.Keys[o.K]})
			} else {
				a.Entries = append(a.Entries, EntrySpec{Key: x.c.Keys[o.K], Val: o.V.Bytes()})
			}
		}
		res, ok := callMethod(reflect.ValueOf(x.eng), op.Via, a)
		if !ok {
			return fmt.Errorf("facade has no method %s", op.Via)
		}
		if res.panicV != nil {
			return fmt.Errorf("panic: %v", res.panicV)
		}
		return res.err
	default: // PutInternal / DeleteInternal
		a := &Args{Bytes: [][]byte{key}, Nil: []bool{false}}
		if !op.Del {
			a.Bytes = append(a.Bytes, op.V.Bytes())
			a.Nil = append(a.Nil, op.V.Nil)
		}
		res, ok := callMethod(reflect.ValueOf(x.eng), op.Via, a)
		if !ok {
			return fmt.Errorf("facade has no method %s", op.Via)
		}
		if res.panicV != nil {
			return fmt.Errorf("panic: %v", res.panicV)
		}
		return res.err
	}
}

// judgeRead checks one (key, found, value) read result against the window.
func (x *exec) judgeRead(ctx string, key []byte, found bool, val []byte) {
	if found && bytes.HasPrefix(val, clientMark) {
		x.fail("read:client-bytes-visible", ctx, fmt.Sprintf("key %x reads a value written by a client call: %x", trunc(key), trunc(val)))
		return
	}
	if bytes.Contains(key, clientMark) {
		if found {
			x.fail("read:client-key-visible", ctx, fmt.Sprintf("client key %x exists on the replica", trunc(key)))
		}
		return
	}
	w, ok := x.win[string(key)]
	if !ok {
		if found {
			x.fail("read:unknown-key", ctx, fmt.Sprintf("key %x was never replicated but reads as present", trunc(key)))
		}
		return
	}
	for _, s := range w {
		if s.present == found && (!found || bytes.Equal(s.val, val)) {
			return
		}
	}
	x.fail("read:not-a-replicated-value", ctx, fmt.Sprintf("key %x reads found=%v %x, which it did not hold during this phase (%d states)", trunc(key), found, trunc(val), len(w)))
}

func trunc(b []byte) []byte {
	if len(b) > 16 {
		return b[:16]
	}
	return b
}

func (x *exec) drain(ctx string, it iterator.Iterator) {
	n := 0
	for it.SeekToFirst(); it.Valid() && n < 10000; it.Next() {
		n++
		if it.IsTombstone() {
			continue
		}
		x.judgeRead(ctx+":iterator", append([]byte{}, it.Key()...), true, append([]byte{}, it.Value()...))
	}
}

// doCall performs one client call and judges it.
func (x *exec) doCall(c *Call) {
	x.calls++
	overl := false
	if c.Sync {
		for i := 0; i < 4000 && x.park.parked.Load() == 0 && x.park.applierActive.Load() != 0; i++ {
			runtime.Gosched()
		}
		overl = x.park.parked.Load() == 1
	}
	defer func() {
		x.park.release.Add(1)
		if overl {
			x.overlap++
		}
	}()
	ctx := c.Surface + "." + c.Method
	x.methodsSeen[ctx] = true
	mutator := false
	var err error
	var panicV any
	switch c.Surface {
	case "engine":
		mutator = engineMutators[c.Method]
		res, ok := callMethod(reflect.ValueOf(interfaces.Engine(x.eng)), c.Method, c.Args)
		if !ok {
			x.unknownMethods++
			return
		}
		err, panicV = res.err, res.panicV
		x.judgeOuts(ctx, c, res)
	case "tx":
		mutator = txMutators[c.Method] && !c.TxReadOnly
		tx, berr := x.eng.BeginTransaction(c.TxReadOnly)
		if berr != nil {
			// refusing to begin is a refusal too, as long as it says why
			if mutator && !saysReadOnly(berr) {
				x.fail("mutator:wrong-error", ctx, fmt.Sprintf("BeginTransaction(false) failed with %q", berr))
			}
			return
		}
		res, ok := callMethod(reflect.ValueOf(tx), c.Method, c.Args)
		if !ok {
			x.unknownMethods++
			_ = tx.Rollback()
			return
		}
		err, panicV = res.err, res.panicV
		x.judgeOuts(ctx, c, res)
		if c.Method != "Commit" && c.Method != "Rollback" {
			// a transaction that accepted the write must not get it into the data either
			if mutator && err == nil {
				_ = tx.Commit()
			} else {
				_ = tx.Rollback()
			}
		}
	case "svc":
		// a request without content (e.g. a batch without operations) is no mutation
		mutator = svcMutators[c.Method] && c.Req != "" && c.Req != "{}"
		r, ok := x.s.rpc(c.Method)
		if !ok {
			x.unknownMethods++
			return
		}
		txid := ""
		if c.WithTx != "" {
			txid = x.svcBegin(c.WithTx == "ro")
			if txid == "" {
				// the transaction this call needs could not be begun: nothing to judge
				ev.R().Count("svc_begin_failed", 1)
				return
			}
		}
		fill := func(m proto.Message) error {
			if e := fromJSON(c.Req)(m); e != nil {
				return e
			}
			if txid != "" {
				setStringField(m, "transaction_id", txid)
			}
			return nil
		}
		resps, req, e, p := svcCall(x.srv, r, fill)
		err, panicV = e, p
		x.judgeResponses(ctx, req, resps, e)
		// a transaction handed out by this call, or begun for it, is rolled back
		for _, rs := range resps {
			if id, ok := stringField(rs, "transaction_id"); ok && id != "" {
				x.svcRollback(id)
			}
		}
		if txid != "" {
			if mutator && err == nil {
				x.svcFinish("CommitTransaction", txid)
			} else {
				x.svcRollback(txid)
			}
		}
	}
	if panicV != nil {
		x.fail("panic", ctx, fmt.Sprintf("%v", panicV))
		return
	}
	if mutator && x.probe != nil {
		// lifecycle probe: the outcome is judged together with what the node reports
		*x.probe = append(*x.probe, probeResult{ctx, err})
		return
	}
	if mutator {
		x.mutCalls++
		if overl {
			x.mutOverlap++
		}
		switch {
		case err == nil:
			x.fail("mutator:accepted", ctx, "a client-initiated mutation on a replica returned no error")
		case !saysReadOnly(err):
			x.fail("mutator:wrong-error", ctx, fmt.Sprintf("refused with %q, which does not say read-only", err))
		}
	}
}

func (x *exec) svcBegin(readOnly bool) string {
	r, ok := x.s.rpc("BeginTransaction")
	if !ok {
		return ""
	}
	resps, _, err, _ := svcCall(x.srv, r, func(m proto.Message) error {
		if fd := m.ProtoReflect().Descriptor().Fields().ByName("read_only"); fd != nil {
			m.ProtoReflect().Set(fd, protoreflect.ValueOfBool(readOnly))
		}
		return nil
	})
	if err != nil || len(resps) == 0 {
		return ""
	}
	id, _ := stringField(resps[0], "transaction_id")
	return id
}

func (x *exec) svcFinish(rpc, id string) {
	if r, ok := x.s.rpc(rpc); ok {
		_, _, _, _ = svcCall(x.srv, r, func(m proto.Message) error {
			setStringField(m, "transaction_id", id)
			return nil
		})
	}
	x.reg.Remove(id)
}

func (x *exec) svcRollback(id string) { x.svcFinish("RollbackTransaction", id) }

// judgeOuts looks at the results of an engine/transaction method generically.
func (x *exec) judgeOuts(ctx string, c *Call, res callResult) {
	for _, o := range res.outs {
		if !o.IsValid() {
			continue
		}
		switch {
		case o.Type().Implements(iterT) && !o.IsNil():
			x.drain(ctx, o.Interface().(iterator.Iterator))
		case o.Type().Implements(txT) && !o.IsNil():
			_ = o.Interface().(interfaces.Transaction).Rollback()
		}
	}
	if c.Method == "Get" && len(c.Args.Bytes) > 0 && len(res.outs) == 2 && res.outs[0].Type() == bytesT {
		if res.err == nil {
			x.judgeRead(ctx, c.Args.Bytes[0], true, res.outs[0].Bytes())
		} else if drive.IsNotFound(res.err) {
			x.judgeRead(ctx, c.Args.Bytes[0], false, nil)
		}
	}
}

// judgeResponses looks at service responses generically: a response with key
// and value is a scan row, a response with value and found answers the
// request's key.
func (x *exec) judgeResponses(ctx string, req proto.Message, resps []proto.Message, err error) {
	for _, rs := range resps {
		if k, ok := bytesField(rs, "key"); ok {
			if v, ok := bytesField(rs, "value"); ok {
				x.judgeRead(ctx+":row", k, true, nonNil(v))
			}
			continue
		}
		if found, ok := boolField(rs, "found"); ok && err == nil {
			if v, ok := bytesField(rs, "value"); ok {
				if k, ok := bytesField(req, "key"); ok && len(k) > 0 {
					x.judgeRead(ctx, k, found, nonNil(v))
				}
			}
		}
	}
}

func (x *exec) scan() (drive.Model, error) {
	it, err := x.eng.GetIterator()
	if err != nil {
		return nil, err
	}
	m := drive.Model{}
	for it.SeekToFirst(); it.Valid(); it.Next() {
		if it.IsTombstone() {
			continue
		}
		m[string(it.Key())] = append([]byte{}, it.Value()...)
	}
	return m, nil
}

func diffModels(got, want drive.Model) string {
	var ks []string
	for k := range got {
		ks = append(ks, k)
	}
	for k := range want {
		if _, ok := got[k]; !ok {
			ks = append(ks, k)
		}
	}
	sort.Strings(ks)
	for _, k := range ks {
		g, gok := got[k]
		w, wok := want[k]
		if gok != wok || !bytes.Equal(g, w) {
			return fmt.Sprintf("key %x: replica has present=%v %x, replicated history gives present=%v %x", trunc([]byte(k)), gok, trunc(g), wok, trunc(w))
		}
	}
	return ""
}

// barrier: nothing in flight; the data must be exactly the replicated history.
func (x *exec) barrier(phase int, last bool) {
	ctx := fmt.Sprintf("phase-end")
	drive.Quiesce(x.eng)
	got, err := x.scan()
	if err != nil {
		x.fail("scan:error", ctx, err.Error())
		return
	}
	if d := diffModels(got, x.model); d != "" {
		kind := "data:differs-from-replicated-history"
		for k, v := range got {
			if bytes.Contains([]byte(k), clientMark) || bytes.HasPrefix(v, clientMark) || k == "__compact_marker__" {
				kind = "data:client-write-took-effect"
			}
		}
		x.fail(kind, ctx, fmt.Sprintf("after phase %d: %s", phase, d))
		return
	}
	if !x.eng.IsReadOnly() {
		x.fail("flag:replica-no-longer-read-only", ctx, fmt.Sprintf("after phase %d IsReadOnly() is false", phase))
		return
	}
	if last {
		// the remote API serves the same data
		if r, ok := x.s.rpc("Scan"); ok {
			resps, _, err, p := svcCall(x.srv, r, func(proto.Message) error { return nil })
			if p != nil || err != nil {
				x.fail("svc-scan:error", ctx, fmt.Sprintf("err=%v panic=%v", err, p))
				return
			}
			sm := drive.Model{}
			for _, rs := range resps {
				k, _ := bytesField(rs, "key")
				v, _ := bytesField(rs, "value")
				sm[string(k)] = nonNil(v)
			}
			if d := diffModels(sm, x.model); d != "" {
				x.fail("svc-scan:differs-from-replicated-history", ctx, d)
			}
		}
	}
}

func (x *exec) nodeInfo(ctx string, srv *service.KevoServiceServer, wantRole pb.GetNodeInfoResponse_NodeRole, wantPrimary string, wantRO bool) {
	r, ok := x.s.rpc("GetNodeInfo")
	if !ok {
		x.fail("nodeinfo:rpc-missing", ctx, "the service has no GetNodeInfo")
		return
	}
	resps, _, err, p := svcCall(srv, r, func(proto.Message) error { return nil })
	if err != nil || p != nil || len(resps) != 1 {
		x.fail("nodeinfo:error", ctx, fmt.Sprintf("err=%v panic=%v responses=%d", err, p, len(resps)))
		return
	}
	info, ok := resps[0].(*pb.GetNodeInfoResponse)
	if !ok {
		x.fail("nodeinfo:error", ctx, "unexpected response type")
		return
	}
	switch {
	case info.NodeRole != wantRole:
		x.fail("nodeinfo:role", ctx, fmt.Sprintf("reports role %v, configured %v", info.NodeRole, wantRole))
	case info.PrimaryAddress != wantPrimary:
		x.fail("nodeinfo:primary-address", ctx, fmt.Sprintf("reports primary address %q, configured %q", info.PrimaryAddress, wantPrimary))
	case info.ReadOnly != wantRO:
		x.fail("nodeinfo:read-only", ctx, fmt.Sprintf("reports read_only=%v; a node configured like this must report %v", info.ReadOnly, wantRO))
	}
}

// nodeCase: a second node configured as primary / standalone.
func (x *exec) nodeCase(n *NodeCase) {
	dir, err := os.MkdirTemp("", "c16n-")
	if err != nil {
		return
	}
	defer os.RemoveAll(dir)
	e, err := drive.Open(dir, drive.Cfg{MemTableSize: 32 << 20, MaxMemTables: 4, SyncMode: 0, SyncBytes: 4096})
	if err != nil {
		return
	}
	defer e.Close()
	reg := transaction.NewRegistry()
	ctx := "node-" + n.Mode
	switch n.Mode {
	case "none": // replication disabled: cmd/kevo passes no provider
		x.nodeInfo(ctx, service.NewKevoServiceServer(e, reg, nil), pb.GetNodeInfoResponse_STANDALONE, "", false)
	case "standalone":
		m, err := replication.NewManager(e, managerConfig(replication.ReplicationModeStandalone, n.PrimaryAddr, n.ListenAddr))
		if err != nil {
			return
		}
		if err := m.Start(); err != nil {
			x.fail("nodeinfo:start-error", ctx, err.Error())
			return
		}
		defer m.Stop()
		x.nodeInfo(ctx, service.NewKevoServiceServer(e, reg, m), pb.GetNodeInfoResponse_STANDALONE, "", false)
	case "primary":
		m, err := replication.NewManager(e, managerConfig(replication.ReplicationModePrimary, n.PrimaryAddr, n.ListenAddr))
		if err != nil {
			return
		}
		if err := m.Start(); err != nil {
			x.fail("nodeinfo:start-error", ctx, err.Error())
			return
		}
		defer m.Stop()
		// a primary accepts client writes and says so; its own replication
		// address is the primary address it reports
		x.nodeInfo(ctx, service.NewKevoServiceServer(e, reg, m), pb.GetNodeInfoResponse_PRIMARY, n.ListenAddr, false)
		if err := e.Put([]byte("k"), []byte("v")); err != nil {
			x.fail("nodeinfo:primary-refuses-writes", ctx, err.Error())
		}
	case "replica_opt_out":
		// a node in the replica role whose operator opted out of the forced
		// read-only mode (ManagerConfig.ForceReadOnly=false): whether it refuses
		// client writes is then the engine's own flag, and read_only must say what a
		// client mutation experiences at that moment - through the flag being set
		// and lifted again
		paddr := n.PrimaryAddr
		if paddr == "" {
			paddr = "127.0.0.1:1"
		}
		mc := managerConfig(replication.ReplicationModeReplica, paddr, n.ListenAddr)
		mc.ForceReadOnly = false
		m, err := replication.NewManager(e, mc)
		if err != nil {
			return
		}
		if err := m.Start(); err != nil {
			return
		}
		defer func() {
			done := make(chan struct{})
			go func() { _ = m.Stop(); close(done) }()
			select {
			case <-done:
			case <-time.After(10 * time.Second):
				ev.R().Count("manager_stop_hung", 1)
			}
		}()
		srv := service.NewKevoServiceServer(e, reg, m)
		for stage, set := range []int{0, 1, -1} {
			if set == 1 {
				e.SetReadOnly(true)
			} else if set == -1 {
				e.SetReadOnly(false)
			}
			sctx := fmt.Sprintf("%s-stage%d", ctx, stage)
			perr := e.Put([]byte(fmt.Sprintf("k%d", stage)), []byte("v"))
			if perr != nil && !saysReadOnly(perr) {
				return
			}
			x.nodeInfo(sctx, srv, pb.GetNodeInfoResponse_REPLICA, paddr, perr != nil)
			if x.failed() {
				return
			}
		}
		ev.R().Count("node_replica_opt_out_cases", 1)
	}
}

type outcome struct {
	viol      *violation
	abandoned string
	classes   []string
	nontriv   bool
}

func runCase(c *Case, s *surface) (out outcome) {
	x, err := newExec(c, s)
	if err != nil {
		out.abandoned = err.Error()
		return
	}
	defer x.close()
	verifhook.Set(x.park.handler)
	defer verifhook.Reset()

	if c.Mode == "manager" {
		x.nodeInfo("replica-before", x.srv, pb.GetNodeInfoResponse_REPLICA, c.PrimaryAddr, true)
	}
	for pi := range c.Phases {
		if x.failed() {
			break
		}
		ph := &c.Phases[pi]
		// windows: every key starts the phase in its current state
		x.win = map[string][]state{}
		for _, k := range c.Keys {
			v, ok := x.model[string(k)]
			x.win[string(k)] = []state{{ok, v}}
		}
		for i := range ph.Repl {
			x.applyModel(&ph.Repl[i])
		}
		var hold *heldTx
		if ph.Hold != nil {
			hold = x.beginHold(ph.Hold)
			if x.failed() {
				break
			}
			if hold.open && len(ph.Repl) > 0 {
				x.holdKinds[ph.Hold.Kind] = true
			}
		}
		var wg sync.WaitGroup
		wg.Add(1)
		applierDone := make(chan struct{})
		x.park.applierActive.Store(1)
		go func() {
			defer close(applierDone)
			defer wg.Done()
			defer x.park.applierActive.Store(0)
			for i := range ph.Repl {
				if err := x.doRepl(&ph.Repl[i]); err != nil {
					x.fail("apply:error", "via-"+ph.Repl[i].Via, fmt.Sprintf("replicated operation %d of phase %d failed: %v", i, pi, err))
					return
				}
			}
		}()
		for i := range ph.Calls {
			if x.failed() {
				break
			}
			call := &ph.Calls[i]
			if !x.bounded(func() { x.doCall(call) }) {
				x.blocked("client call "+call.Surface+"."+call.Method, call.Surface+"."+call.Method, hold, applierDone)
				break
			}
		}
		// every replicated operation returns within the bound
		select {
		case <-applierDone:
		case <-time.After(progressBound()):
			x.blocked("apply", "no-client-transaction-open", hold, applierDone)
		}
		if x.stuck {
			// give what was released a moment to finish, then give the case up
			x.finishHold(hold)
			x.drainPending(5 * time.Second)
			select {
			case <-applierDone:
			case <-time.After(5 * time.Second):
			}
			break
		}
		wg.Wait()
		if hold != nil && !x.failed() {
			// the open transaction still reads, and only replicated values
			if !x.bounded(func() { x.readInside(hold) }) {
				x.blocked("read inside the open client transaction", "held-"+ph.Hold.Kind, hold, nil)
				break
			}
		}
		x.finishHold(hold)
		if !x.failed() {
			x.barrier(pi, pi == len(c.Phases)-1)
		}
	}
	if c.Mode == "manager" && !x.failed() {
		x.nodeInfo("replica-after", x.srv, pb.GetNodeInfoResponse_REPLICA, c.PrimaryAddr, true)
	}
	if !x.failed() {
		x.nodeCase(&c.Node)
	}
	if c.Mode == "manager" && !x.failed() {
		x.afterStop(c.AfterStop)
	}
	if x.stuck && len(x.pending) > 0 {
		// goroutines of this case are still out: nothing of it may be touched any more
		out.viol = x.viol
		out.classes = []string{"mode_" + c.Mode, "gave_up_on_blocked_goroutines"}
		return
	}
	out.viol = x.viol
	cl := []string{"mode_" + c.Mode, "node_" + c.Node.Mode}
	add := func(b bool, s string) {
		if b {
			cl = append(cl, s)
		}
	}
	add(x.mutCalls > 0, "mutator_call")
	add(x.mutOverlap > 0, "mutator_call_during_apply")
	add(x.overlap > 0, "any_call_during_apply")
	add(x.holdKinds["ro"], "apply_while_client_tx_open(ro)")
	add(x.holdKinds["rw"], "apply_while_client_tx_open(rw-refused)")
	add(x.holdKinds["svc-ro"] || x.holdKinds["svc-rw"], "apply_while_client_tx_open(svc-handle)")
	add(x.stoppedMgr, "lifecycle_after_manager_stop")
	surf := map[string]bool{}
	for m := range x.methodsSeen {
		surf[m[:bytes.IndexByte([]byte(m), '.')]] = true
	}
	for sname := range surf {
		cl = append(cl, "surface_"+sname)
	}
	out.nontriv = x.mutOverlap > 0
	add(out.nontriv, "nontrivial")
	sort.Strings(cl)
	out.classes = cl
	ev.R().Count("client_calls", x.calls)
	ev.R().Count("mutator_calls", x.mutCalls)
	ev.R().Count("mutator_calls_during_apply", x.mutOverlap)
	ev.R().Count("calls_during_apply", x.overlap)
	ev.R().Count("unknown_methods_in_replay", x.unknownMethods)
	for m := range x.methodsSeen {
		ev.R().Count("called:"+m, 1)
	}
	return
}

func TestProp(t *testing.T) {
	s := enumerate()
	ev.R().Note(fmt.Sprintf("surface enumerated at run time: engine=%v tx=%v rpc=%d internal=%v", s.eng, s.tx, len(s.rpcs), s.intl))
	// a scratch service object: only used to let the generated handlers
	// allocate request messages during generation (the calls are aborted)
	scratch := service.NewKevoServiceServer(nil, transaction.NewRegistry(), nil)
	rapid.Check(t, func(t *rapid.T) {
		var c Case
		c.Cfg = gen.Config(t)
		if rapid.IntRange(0, 2).Draw(t, "bigmem") != 0 {
			c.Cfg.MemTableSize = 32 << 20
		}
		c.Mode = rapid.SampledFrom([]string{"direct", "direct", "direct", "direct", "direct", "direct", "manager"}).Draw(t, "mode")
		if c.Mode == "manager" {
			c.PrimaryAddr = rapid.SampledFrom([]string{"127.0.0.1:1", "localhost:1", "127.0.0.1:9"}).Draw(t, "paddr")
			c.ListenAddr = rapid.SampledFrom([]string{"127.0.0.1:0", ":0", "replica.example:50053"}).Draw(t, "laddr")
		}
		c.Keys = gen.Keys(t, 3, 8)
		c.Node = NodeCase{
			Mode:        rapid.SampledFrom([]string{"primary", "standalone", "none", "replica_opt_out"}).Draw(t, "nodemode"),
			ListenAddr:  rapid.SampledFrom([]string{"127.0.0.1:0", "localhost:0", ":0"}).Draw(t, "nladdr"),
			PrimaryAddr: rapid.SampledFrom([]string{"", "127.0.0.1:1", "other.example:50052"}).Draw(t, "npaddr"),
		}
		tag := uint32(0)
		np := rapid.IntRange(2, 6).Draw(t, "nphases")
		for i := 0; i < np; i++ {
			var ph Phase
			nr := rapid.IntRange(0, 10).Draw(t, "nrepl")
			for j := 0; j < nr; j++ {
				ph.Repl = append(ph.Repl, genReplOp(t, s, len(c.Keys), &tag))
			}
			nc := rapid.IntRange(1, 8).Draw(t, "ncalls")
			for j := 0; j < nc; j++ {
				ph.Calls = append(ph.Calls, genCall(t, s, c.Keys, scratch, false))
			}
			if hk := rapid.SampledFrom([]string{"", "", "", "ro", "rw", "svc-ro", "svc-rw"}).Draw(t, "hold"); hk != "" {
				ph.Hold = &HoldSpec{Kind: hk, ReadK: rapid.IntRange(0, len(c.Keys)-1).Draw(t, "holdread"), Commit: rapid.Bool().Draw(t, "holdcommit")}
			}
			c.Phases = append(c.Phases, ph)
		}
		if c.Mode == "manager" {
			for j, n := 0, rapid.IntRange(3, 6).Draw(t, "nafterstop"); j < n; j++ {
				c.AfterStop = append(c.AfterStop, genCall(t, s, c.Keys, scratch, true))
			}
		}
		out := runCase(&c, s)
		if out.abandoned != "" {
			ev.R().Count("abandoned_cases", 1)
			ev.R().Note("abandoned: " + out.abandoned)
		}
		ev.R().Case(ev.Hash(&c), out.nontriv, out.classes, func() any { return &c })
		if out.viol != nil {
			path := ev.R().Fail(out.viol.Signature(), out.viol.Error(), Doc{Property: "C16", Case: c, Violation: out.viol})
			t.Fatalf("C16 violated: %v (replay %s)", out.viol, path)
		}
	})
}

// TestReplay re-runs a saved case without the library.
func TestReplay(t *testing.T) {
	f := os.Getenv("VERIF_REPLAY")
	if f == "" {
		t.Skip("no VERIF_REPLAY")
	}
	b, err := os.ReadFile(f)
	if err != nil {
		t.Fatal(err)
	}
	var d Doc
	if err := json.Unmarshal(b, &d); err != nil {
		t.Fatal(err)
	}
	out := runCase(&d.Case, enumerate())
	if out.abandoned != "" {
		t.Fatalf("replay could not run: %s", out.abandoned)
	}
	if out.viol != nil {
		ev.WriteReplayResult(ev.ReplayResult{File: f, Outcome: "fail", Signature: out.viol.Signature(), Message: out.viol.Error()})
		t.Logf("replay fails: %v", out.viol)
		return
	}
	ev.WriteReplayResult(ev.ReplayResult{File: f, Outcome: "pass"})
}

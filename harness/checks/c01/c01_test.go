// C01 — reads return the latest write through every storage layer.
// Model-based test over generated operation programs (DESIGN.md 5/C01).
package c01

import (
	"encoding/json"
	"errors"
	"os"
	"testing"

	"pgregory.net/rapid"

	"verif/internal/drive"
	"verif/internal/ev"
	"verif/internal/gen"
)

const rule = "programs = rapid-drawn (config, key pool, 10-80 steps over put/del/tx/batch/flush/compact/crange/reopen and retire = flush everything + drop the flushed log files through WAL.ManageRetention, so that after a reopen only SSTables serve the reads); " +
	"oracle = map model, every pool key read after every step; non-trivial = the program has a maintenance step " +
	"(flush/compact/crange/reopen or an automatic memtable switch is implied by small memtables) after which a key written " +
	"before it is overwritten or deleted; distinct by FNV-64 of the program JSON"

func TestMain(m *testing.M) {
	ev.Silence()
	rec := ev.Init("C01", rule)
	code := m.Run()
	rec.Flush(true)
	os.Exit(code)
}

// Doc is the replay document.
type Doc struct {
	Property string          `json:"property"`
	Program  drive.Program   `json:"program"`
	Mismatch *drive.Mismatch `json:"mismatch,omitempty"`
}

func classify(p *drive.Program) (nontrivial bool, classes []string) {
	written := map[int]bool{}
	beforeMaint := map[int]bool{}
	maint, reopens, txs := 0, 0, 0
	retired, sstOnly := false, false
	txKeys := map[int]bool{}
	writeAfterTx := false
	for _, s := range p.Steps {
		touch := func(k int) {
			if beforeMaint[k] {
				nontrivial = true
			}
			if txKeys[k] && s.Op != "tx" {
				writeAfterTx = true
			}
			written[k] = true
		}
		switch s.Op {
		case "put", "del":
			touch(s.K)
		case "tx", "batch":
			if s.Op == "tx" && !s.Commit {
				continue
			}
			n := 0
			for _, o := range s.Tx {
				if o.Op != "get" && o.Op != "last" {
					touch(o.K)
					n++
				}
			}
			if n >= 2 {
				txs++
				for _, o := range s.Tx {
					if o.Op != "get" && o.Op != "last" {
						txKeys[o.K] = true
					}
				}
			}
		case "flush", "compact", "crange", "reopen", "retire":
			maint++
			if s.Op == "retire" {
				retired = true
			}
			if s.Op == "reopen" && retired {
				sstOnly = true
			}
			if s.Op == "reopen" {
				reopens++
			}
			for k := range written {
				beforeMaint[k] = true
			}
		}
	}
	if maint > 0 {
		classes = append(classes, "has_maintenance")
	}
	if nontrivial {
		classes = append(classes, "overwrite_after_maintenance")
	}
	if reopens >= 2 {
		classes = append(classes, "reopens>=2")
	}
	if writeAfterTx {
		classes = append(classes, "single_write_after_multikey_tx")
	}
	if p.Cfg.MemTableSize <= 4096 {
		classes = append(classes, "small_memtable")
	}
	if sstOnly {
		classes = append(classes, "reopen_after_log_retired(reads_from_sstables_only)")
	}
	return
}

// runCase executes one program; nil = the property held.
func runCase(p *drive.Program) *drive.Mismatch {
	dir, err := os.MkdirTemp("", "c01-")
	if err != nil {
		panic(err)
	}
	defer os.RemoveAll(dir)
	r, mm := drive.NewRunner(dir, p)
	if mm != nil {
		return mm
	}
	defer r.Close()
	for i := range p.Steps {
		mm, err := r.Do(i)
		if mm != nil {
			return mm
		}
		if err != nil {
			if errors.Is(err, drive.ErrWrite) {
				ev.R().Count("cases_stopped_at_write_error", 1)
				ev.R().Note("write error: " + err.Error())
				return nil
			}
			if errors.Is(err, drive.ErrRetireRaced) {
				ev.R().Count("cases_dropped_harness_retention_overlapped_rotation", 1)
				return nil
			}
			panic(err)
		}
		if mm := r.CheckAll(i); mm != nil {
			return mm
		}
	}
	// final reopen and full comparison
	p2 := *p
	p2.Steps = append(append([]drive.Step{}, p.Steps...), drive.Step{Op: "reopen"})
	r.P = &p2
	if mm, _ := r.Do(len(p2.Steps) - 1); mm != nil {
		return mm
	}
	if mm := r.CheckAll(len(p2.Steps) - 1); mm != nil {
		mm.Ctx = "final-reopen"
		return mm
	}
	ev.R().Count("retire_rotated_again_after_overlapping_background_rotation", int(drive.RetireRepairs.Swap(0)))
	ev.R().Count("quiesce_cap_hits", r.QuiesceMisses)
	ev.R().Count("maintenance_errors", r.MaintErrors)
	return nil
}

func opts() gen.ProgOpts {
	o := gen.ProgOpts{MinSteps: 10, MaxSteps: 80, Weights: gen.DefaultWeights(), TxGets: true}
	o.Val.Big = true
	if ev.Tier() == "thorough" {
		o.Val.Huge = true
	}
	return o
}

func TestProp(t *testing.T) {
	o := opts()
	rapid.Check(t, func(t *rapid.T) {
		p := gen.Program(t, o)
		// a quarter of the programs run without waiting for the background flush
		// between steps: flushes (and the table switches of small memtables) then
		// happen WHILE the client writes and reads
		p.Cfg.NoQuiesce = rapid.IntRange(0, 3).Draw(t, "noquiesce") == 0
		nt, classes := classify(&p)
		if p.Cfg.NoQuiesce {
			classes = append(classes, "background_flush_not_awaited_between_steps")
		}
		mm := runCase(&p)
		ev.R().Case(ev.Hash(&p), nt, classes, func() any { return &p })
		if mm != nil {
			path := ev.R().Fail(mm.Signature(), mm.Error(), Doc{Property: "C01", Program: p, Mismatch: mm})
			t.Fatalf("C01 violated: %v (replay %s)", mm, path)
		}
	})
}

// TestReplay re-runs a saved program without the library.
func TestReplay(t *testing.T) {
	f := os.Getenv("VERIF_REPLAY")
	if f == "" {
		t.Skip("no VERIF_REPLAY")
	}
	b, err := os.ReadFile(f)
	if err != nil {
		t.Fatal(err)
	}
	var d Doc
	if err := json.Unmarshal(b, &d); err != nil {
		t.Fatal(err)
	}
	mm := runCase(&d.Program)
	if mm != nil {
		ev.WriteReplayResult(ev.ReplayResult{File: f, Outcome: "fail", Signature: mm.Signature(), Message: mm.Error()})
		t.Logf("replay fails: %v", mm)
		return
	}
	ev.WriteReplayResult(ev.ReplayResult{File: f, Outcome: "pass"})
}

package c13

import (
	"context"
	"errors"
	"fmt"
	"os"

	"github.com/KevoDB/kevo/pkg/engine"
	"github.com/KevoDB/kevo/pkg/replication"
	"github.com/KevoDB/kevo/pkg/wal"
	pb "github.com/KevoDB/kevo/proto/kevo/replication"
	"google.golang.org/grpc"
	"google.golang.org/protobuf/proto"

	"verif/internal/drive"
	"verif/internal/ev"
)

// Msg is one delivered stream message, described so that it can be rebuilt
// from the primary (self-contained replay): its source, the sub-slice taken,
// the entries dropped from inside, the encoding and the replica path.
type Msg struct {
	Src  string `json:"src"`            // poll | push | reset
	From uint64 `json:"from,omitempty"` // poll: the primary's answer to "send from this sequence"
	Op   int    `json:"op,omitempty"`   // push: write operation index
	Part int    `json:"part,omitempty"` // push: n-th message the primary pushed for that operation
	Len  int    `json:"len,omitempty"`  // keep only the first Len entries (0 = all)
	Drop []int  `json:"drop,omitempty"` // positions removed from the message (non-contiguous message)
	// Inner: the message keeps its first entry, its last entry and its length but
	// is disturbed inside: "dup" = entry I replaced by a copy of entry J (a
	// duplicate plus a drop), "swap" = entries I and J exchanged, "seqswap" =
	// only the sequence numbers of the envelopes I and J exchanged
	Inner *InnerFault `json:"inner,omitempty"`
	// Enc: "" as the primary produced it (polls: plain; pushes: with the primary's own
	// Compressed/Codec label), "zstd" / "snappy": payloads really compressed and labelled
	Enc    string `json:"enc,omitempty"`
	Ack    bool   `json:"ack,omitempty"`     // handed to the waiting-for-data path (processEntries)
	FailAt int    `json:"fail_at,omitempty"` // the applier reports an error at the n-th Apply of this message (1-based, 0 = never)
	Why    string `json:"why,omitempty"`     // generator's intent (progress, stale, ahead, dup, resend, ...), informational
}

// InnerFault disturbs a message inside without changing its span.
type InnerFault struct {
	Kind string `json:"kind"` // dup | swap | seqswap
	I    int    `json:"i"`
	J    int    `json:"j"`
}

// fakeClient is the replica's view of the primary's unary RPCs.
type fakeClient struct {
	nacks []uint64
	acks  []uint64
}

func (c *fakeClient) StreamWAL(ctx context.Context, in *pb.WALStreamRequest, opts ...grpc.CallOption) (grpc.ServerStreamingClient[pb.WALStreamResponse], error) {
	return nil, errors.New("no stream in the fast path")
}
func (c *fakeClient) Acknowledge(ctx context.Context, in *pb.Ack, opts ...grpc.CallOption) (*pb.AckResponse, error) {
	c.acks = append(c.acks, in.AcknowledgedUpTo)
	return &pb.AckResponse{Success: true}, nil
}
func (c *fakeClient) NegativeAcknowledge(ctx context.Context, in *pb.Nack, opts ...grpc.CallOption) (*pb.NackResponse, error) {
	c.nacks = append(c.nacks, in.MissingFromSequence)
	return &pb.NackResponse{Success: true}, nil
}

// recApplier is the replica's WALEntryApplier: it feeds the oracle and, in the
// engine variant, forwards to the real EngineApplier of a read-only engine.
type recApplier struct {
	o      *oracle
	rep    *replication.Replica
	inner  *replication.EngineApplier
	eng    *engine.EngineFacade
	ctx    string
	at     int
	nInMsg int
	failAt int
	detail string
	log    []string
	viol   *violation
	syncs  int
	failed int
}

var errInjected = errors.New("injected apply failure")

// twinApplier is the applier of the twin replica (see runner.twin): it only
// records what it is handed.
type twinApplier struct {
	log    []string
	nInMsg int
	failAt int
}

func (a *twinApplier) Apply(e *wal.Entry) error {
	a.nInMsg++
	if a.failAt > 0 && a.nInMsg == a.failAt {
		return errInjected
	}
	a.log = append(a.log, fmt.Sprintf("%d/%d/%x/%x", e.SequenceNumber, e.Type, e.Key, e.Value))
	return nil
}
func (a *twinApplier) Sync() error { return nil }

func (a *recApplier) Apply(e *wal.Entry) error {
	a.nInMsg++
	if a.viol != nil {
		return errors.New("oracle already failed")
	}
	if a.failAt > 0 && a.nInMsg == a.failAt {
		a.failed++
		return errInjected
	}
	// the reported sequence must not run ahead of what has been applied
	if a.rep != nil {
		if v := a.o.reported(a.rep.GetLastAppliedSequence(), a.ctx, a.at); v != nil {
			a.viol = v
			return errors.New("oracle failed")
		}
	}
	if v := a.o.beforeApply(e, a.ctx, a.at); v != nil {
		a.viol = v
		return errors.New("oracle failed")
	}
	if a.inner != nil {
		if err := a.inner.Apply(e); err != nil {
			a.viol = &violation{Kind: "engine-applier:apply-error", Ctx: a.ctx, At: a.at,
				Msg: fmt.Sprintf("EngineApplier.Apply(seq %d) on the read-only replica engine: %v", e.SequenceNumber, err)}
			return err
		}
	}
	a.log = append(a.log, fmt.Sprintf("%d/%d/%x/%x", e.SequenceNumber, e.Type, e.Key, e.Value))
	if v := a.o.afterApply(e, a.ctx, a.at); v != nil {
		a.viol = v
		return errors.New("oracle failed")
	}
	if a.inner != nil {
		if v := a.compareEngine(); v != nil {
			a.viol = v
			return errors.New("oracle failed")
		}
	}
	return nil
}

func (a *recApplier) Sync() error {
	a.syncs++
	if a.inner != nil {
		return a.inner.Sync()
	}
	return nil
}

// compareEngine: the replica ENGINE's full scan must equal the data rebuilt
// from the applied entries (which the oracle has just judged).
func (a *recApplier) compareEngine() *violation {
	drive.Quiesce(a.eng)
	got, err := scanAll(a.eng)
	if err != nil {
		return &violation{Kind: "engine-applier:scan-error", Ctx: a.ctx, At: a.at, Msg: err.Error()}
	}
	if !sameState(got, a.o.model) {
		return &violation{Kind: "engine-applier:data-differs-from-applied-entries", Ctx: a.ctx, At: a.at,
			Msg: fmt.Sprintf("replica engine scan %s, applied entries give %s", briefState(got), briefState(a.o.model))}
	}
	return nil
}

func scanAll(e *engine.EngineFacade) (drive.Model, error) {
	it, err := e.GetIterator()
	if err != nil {
		return nil, err
	}
	m := drive.Model{}
	for it.SeekToFirst(); it.Valid(); it.Next() {
		if it.IsTombstone() {
			continue
		}
		k := string(it.Key())
		if _, dup := m[k]; dup {
			return nil, fmt.Errorf("scan yields key %x twice", trunc(k, 12))
		}
		m[k] = append([]byte{}, it.Value()...)
	}
	return m, nil
}

// runner executes a schedule against a real Replica.
type runner struct {
	h      *history
	c      *Case
	o      *oracle
	rep    *replication.Replica
	cl     *fakeClient
	ap     *recApplier
	comp   *replication.CompressionManager
	repDir string
	repEng *engine.EngineFacade
	// observations for classification
	sawDup, sawGap, sawHole, sawReset, sawCompressed, sawMislabel, sawAck, sawNackAnswered, sawFail, sawSplitOp bool
	sawInner                                                                                                    map[string]bool

	nMsgs, nErrs int
	partialCause string
	// twin: a second real Replica that receives the same schedule with every
	// really compressed message replaced by its uncompressed twin. Compression
	// must be transparent: both replicas must apply the same entries.
	twin   *replication.Replica
	twinAp *twinApplier
	twinCl *fakeClient
}

var sharedComp *replication.CompressionManager

func codecOf(enc string) pb.CompressionCodec {
	switch enc {
	case "zstd":
		return pb.CompressionCodec_ZSTD
	case "snappy":
		return pb.CompressionCodec_SNAPPY
	}
	return pb.CompressionCodec_NONE
}

func newRunner(h *history, c *Case) (*runner, error) {
	r := &runner{h: h, c: c, cl: &fakeClient{}, sawInner: map[string]bool{}}
	r.o = newOracle(h.tr, !ev.Flag("tx_atomic_visibility"))
	r.ap = &recApplier{o: r.o}
	if c.Variant == "engine" {
		dir, err := os.MkdirTemp("", "c13r-")
		if err != nil {
			return nil, err
		}
		r.repDir = dir
		e, err := drive.Open(dir, c.RepEngCfg)
		if err != nil {
			r.close()
			return nil, err
		}
		e.SetReadOnly(true)
		r.repEng = e
		r.ap.eng = e
		r.ap.inner = replication.NewEngineApplier(e)
	}
	cfg := replication.DefaultReplicaConfig()
	cfg.CompressionSupported = c.Repl.CompressionSupported
	cfg.PreferredCodec = pb.CompressionCodec(c.Repl.PreferredCodec)
	rep, err := replication.NewReplica(0, r.ap, cfg)
	if err != nil {
		r.close()
		return nil, err
	}
	rep.VerifSetClient(r.cl)
	r.rep = rep
	r.ap.rep = rep
	if c.Variant != "engine" {
		r.twinAp = &twinApplier{}
		r.twinCl = &fakeClient{}
		tw, err := replication.NewReplica(0, r.twinAp, cfg)
		if err != nil {
			r.close()
			return nil, err
		}
		tw.VerifSetClient(r.twinCl)
		r.twin = tw
	}
	if sharedComp == nil {
		// one encoder for the whole process: a zstd encoder allocates its
		// window on first use, which would dominate the cost of a case
		cm, err := replication.NewCompressionManager()
		if err != nil {
			r.close()
			return nil, err
		}
		sharedComp = cm
	}
	r.comp = sharedComp
	return r, nil
}

func (r *runner) close() {
	if r.rep != nil {
		_ = r.rep.Stop()
	}
	if r.twin != nil {
		_ = r.twin.Stop()
	}
	if r.repEng != nil {
		_ = r.repEng.Close()
	}
	if r.repDir != "" {
		_ = os.RemoveAll(r.repDir)
	}
}

// build renders the message m from the primary. nil = the source has nothing
// (e.g. no push was recorded for that operation).
func (r *runner) build(m *Msg, plainTwin bool) (*pb.WALStreamResponse, error) {
	var resp *pb.WALStreamResponse
	switch m.Src {
	case "poll":
		ents, err := r.h.poll(m.From)
		if err != nil {
			ev.R().Note("poll error: " + err.Error())
			return nil, nil // the primary had nothing to send (error on its side): no message
		}
		if len(ents) == 0 {
			return nil, nil
		}
		// exactly what sendInitialEntries / sendUpdatedEntries / resendEntries do
		pes := make([]*pb.WALEntry, 0, len(ents))
		for _, e := range ents {
			pe, err := replication.WALEntryToProto(e, pb.FragmentType_FULL)
			if err != nil {
				continue
			}
			pes = append(pes, pe)
		}
		resp = &pb.WALStreamResponse{Entries: pes, Compressed: false, Codec: pb.CompressionCodec_NONE}
	case "push":
		ps := r.h.pushes[m.Op]
		if m.Part >= len(ps) {
			return nil, nil
		}
		resp = proto.Clone(ps[m.Part]).(*pb.WALStreamResponse)
	default:
		return nil, fmt.Errorf("unknown message source %q", m.Src)
	}
	if m.Len > 0 && m.Len < len(resp.Entries) {
		resp.Entries = resp.Entries[:m.Len]
	}
	if len(m.Drop) > 0 {
		kept := resp.Entries[:0:0]
		for i, e := range resp.Entries {
			dropped := false
			for _, d := range m.Drop {
				if d == i {
					dropped = true
				}
			}
			if !dropped {
				kept = append(kept, e)
			}
		}
		resp.Entries = kept
	}
	if f := m.Inner; f != nil && len(resp.Entries) >= 3 {
		n := len(resp.Entries)
		i, j := f.I, f.J
		if i >= 1 && i <= n-2 && j >= 0 && j <= n-1 && i != j {
			switch f.Kind {
			case "dup":
				resp.Entries[i] = proto.Clone(resp.Entries[j]).(*pb.WALEntry)
			case "swap":
				if j >= 1 && j <= n-2 {
					resp.Entries[i], resp.Entries[j] = resp.Entries[j], resp.Entries[i]
				}
			case "seqswap":
				if j >= 1 && j <= n-2 {
					resp.Entries[i].SequenceNumber, resp.Entries[j].SequenceNumber = resp.Entries[j].SequenceNumber, resp.Entries[i].SequenceNumber
				}
			}
		}
	}
	if plainTwin && m.Enc != "" {
		// the uncompressed twin of a really compressed message
		resp.Compressed = false
		resp.Codec = pb.CompressionCodec_NONE
	} else if m.Enc != "" {
		codec := codecOf(m.Enc)
		for _, e := range resp.Entries {
			c, err := r.comp.Compress(e.Payload, codec)
			if err != nil {
				return nil, err
			}
			e.Payload = c
		}
		resp.Compressed = true
		resp.Codec = codec
	}
	return resp, nil
}

// deliver hands one message to the replica and judges everything observable.
// It returns the NACK position the replica asked for (0 = none).
func (r *runner) deliver(i int, m *Msg) (nack uint64, v *violation, err error) {
	if m.Src == "reset" {
		r.sawReset = true
		return 0, nil, nil
	}
	resp, err := r.build(m, false)
	if err != nil {
		return 0, nil, err
	}
	if resp == nil || len(resp.Entries) == 0 {
		ev.R().Count("messages_with_nothing_to_send", 1)
		if resp == nil {
			return 0, nil, nil
		}
	}
	expected := r.rep.VerifExpectedNext()
	hasHole, hasRep := false, false
	ctx := "empty"
	detail := m.Src
	if m.Ack {
		detail += "+waitingpath"
	}
	if len(resp.Entries) > 0 {
		first := resp.Entries[0].SequenceNumber
		switch {
		case first < expected:
			r.sawDup = true
			ctx = "stale"
		case first > expected:
			r.sawGap = true
			ctx = "ahead"
		default:
			ctx = "next"
		}
		hole, rep := false, false
		for j := 1; j < len(resp.Entries); j++ {
			d := resp.Entries[j].SequenceNumber - resp.Entries[j-1].SequenceNumber
			if d == 0 {
				rep = true
			} else if d != 1 {
				hole = true
			}
		}
		if m.Inner != nil && (hole || rep) {
			// same first entry, last entry and length, disturbed inside
			hole, rep = true, false
			r.sawInner[m.Inner.Kind] = true
			ctx += "+inner-" + m.Inner.Kind
		}
		if hole {
			r.sawHole = true
			ctx += "+hole"
			hasHole = true
		}
		if rep {
			ctx += "+txgroup"
			hasRep = true
		}
		// does the message end inside a write operation?
		last := resp.Entries[len(resp.Entries)-1].SequenceNumber
		if p, ok := r.h.tr.opOf[last]; ok && len(r.h.tr.eff[p]) > 1 {
			n := 0
			for j := len(resp.Entries) - 1; j >= 0 && resp.Entries[j].SequenceNumber == last; j-- {
				n++
			}
			if n < len(r.h.tr.eff[p]) {
				r.sawSplitOp = true
				ctx += "+splitop"
			}
		}
	}
	if resp.Compressed {
		if m.Enc != "" {
			r.sawCompressed = true
			detail += "+" + m.Enc
		} else {
			r.sawMislabel = true
			detail += "+labelled-compressed"
		}
	}
	if m.FailAt > 0 {
		ctx += "+applyerror"
	}
	// a message that follows one the replica applied only in part gets that
	// fact into its context (the damage usually shows at the retransmission)
	if r.partialCause != "" {
		if expected > r.o.maxApplied {
			r.partialCause = ""
		} else {
			ctx = "after-partly-applied-message(" + r.partialCause + ")+" + ctx
		}
	}
	msgCause := "plain"
	switch {
	case m.FailAt > 0:
		msgCause = "applyerror"
	case hasHole:
		msgCause = "hole"
	case hasRep:
		msgCause = "txgroup"
	}
	appliedBefore := r.o.applied
	r.ap.ctx, r.ap.at, r.ap.nInMsg, r.ap.failAt, r.ap.detail = ctx, i, 0, m.FailAt, detail
	nBefore := len(r.cl.nacks)
	failedBefore := r.ap.failed
	var perr error
	if m.Ack {
		r.sawAck = true
		perr = r.rep.VerifProcessBatchAck(resp)
	} else {
		perr = r.rep.VerifProcessBatch(resp)
	}
	r.nMsgs++
	if perr != nil {
		r.nErrs++
	}
	if r.ap.failed > failedBefore {
		r.sawFail = true
	}
	if r.o.applied > appliedBefore && r.rep.VerifExpectedNext() <= r.o.maxApplied {
		r.partialCause = msgCause
		ev.R().Count("messages_applied_in_part", 1)
	}
	if r.ap.viol != nil {
		r.ap.viol.Detail = detail
		return 0, r.ap.viol, nil
	}
	if v := r.o.reported(r.rep.GetLastAppliedSequence(), ctx, i); v != nil {
		v.Detail = detail
		return 0, v, nil
	}
	if r.repEng != nil {
		if v := r.ap.compareEngine(); v != nil {
			v.Detail = detail
			return 0, v, nil
		}
	}
	if r.twin != nil {
		tresp, err := r.build(m, true)
		if err != nil || tresp == nil {
			return 0, nil, fmt.Errorf("twin message could not be built: %v (%+v)", err, *m)
		}
		r.twinAp.nInMsg, r.twinAp.failAt = 0, m.FailAt
		if m.Ack {
			_ = r.twin.VerifProcessBatchAck(tresp)
		} else {
			_ = r.twin.VerifProcessBatch(tresp)
		}
		same := len(r.twinAp.log) == len(r.ap.log) && r.twin.VerifExpectedNext() == r.rep.VerifExpectedNext() &&
			r.twin.GetLastAppliedSequence() == r.rep.GetLastAppliedSequence() && len(r.twinCl.nacks) == len(r.cl.nacks)
		for j := len(r.ap.log) - 1; same && j >= 0 && j >= len(r.ap.log)-len(resp.Entries)-1; j-- {
			same = r.ap.log[j] == r.twinAp.log[j]
		}
		if !same {
			enc := m.Enc
			if enc == "" {
				enc = "no-compression-involved"
			}
			return 0, &violation{Kind: "codec:compressed-message-treated-differently", Ctx: enc, At: i, Detail: detail,
				Msg: fmt.Sprintf("replica: %d entries applied, expects %d, reports %d, %d NACKs; twin fed the uncompressed message: %d applied, expects %d, reports %d, %d NACKs",
					len(r.ap.log), r.rep.VerifExpectedNext(), r.rep.GetLastAppliedSequence(), len(r.cl.nacks),
					len(r.twinAp.log), r.twin.VerifExpectedNext(), r.twin.GetLastAppliedSequence(), len(r.twinCl.nacks))}, nil
		}
	}
	if len(r.cl.nacks) > nBefore {
		return r.cl.nacks[len(r.cl.nacks)-1], nil, nil
	}
	return 0, nil, nil
}

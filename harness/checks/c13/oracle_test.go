package c13

import (
	"bytes"
	"fmt"
	"sort"

	"github.com/KevoDB/kevo/pkg/wal"

	"verif/internal/drive"
)

// effect is what one write operation of the primary does to one key.
type effect struct {
	del bool
	val []byte
}

// truth is the primary's write history as the PROGRAM defines it (independent
// of any log reading): S_0..S_n, the per-operation effects and the sequence
// number the primary's log assigned to each operation when it was written.
type truth struct {
	states []drive.Model       // S_0..S_n, one per write operation
	eff    []map[string]effect // eff[p] for p = 1..n (index 0 unused)
	seqOf  []uint64            // seqOf[p] = log sequence number of operation p (0 = none observed)
	opOf   map[uint64]int      // sequence number -> p
	maxSeq uint64
}

func effectsOf(p *drive.Program, s drive.Step) map[string]effect {
	m := map[string]effect{}
	one := func(op string, k int, v *drive.Val) {
		switch op {
		case "put":
			b := v.Bytes()
			if b == nil {
				b = []byte{}
			}
			m[string(p.Keys[k])] = effect{val: b}
		case "del":
			m[string(p.Keys[k])] = effect{del: true}
		}
	}
	switch s.Op {
	case "put", "del":
		one(s.Op, s.K, s.V)
	case "tx", "batch":
		for _, o := range s.Tx { // last operation per key wins (transaction buffer; batches have distinct keys)
			one(o.Op, o.K, o.V)
		}
	}
	return m
}

// violation is an oracle failure.
type violation struct {
	Kind   string `json:"kind"` // signature head
	Ctx    string `json:"ctx"`  // signature context (what kind of message was being processed)
	Msg    string `json:"msg"`
	At     int    `json:"at"` // index of the schedule message
	Detail string `json:"detail,omitempty"`
}

func (v *violation) Signature() string { return v.Kind + "@" + v.Ctx }
func (v *violation) Error() string {
	return fmt.Sprintf("message %d [%s]: %s (%s): %s", v.At, v.Detail, v.Kind, v.Ctx, v.Msg)
}

// oracle follows the replica's applied entries and data.
type oracle struct {
	tr *truth
	// relaxTx: accept S_q plus an in-progress part of operation q+1 as a state
	// (generator flag tx_atomic_visibility switched off)
	relaxTx bool

	model      drive.Model // state rebuilt from the entries the replica applied
	curMin     int         // smallest prefix index the data can currently stand for
	lastOp     int         // operation index of the last applied entry (0 = none)
	lastKey    string      // key of the last applied entry
	doneInOp   map[string]bool
	maxApplied uint64 // highest sequence number of an entry whose Apply returned nil
	lastRep    uint64 // last reported applied sequence
	applied    int    // number of successful applies
	partialNow bool   // relaxTx: the data currently stands between two prefixes
}

func newOracle(tr *truth, relaxTx bool) *oracle {
	return &oracle{tr: tr, relaxTx: relaxTx, model: drive.Model{}, doneInOp: map[string]bool{}}
}

func sameState(a, b drive.Model) bool {
	if len(a) != len(b) {
		return false
	}
	for k, v := range a {
		w, ok := b[k]
		if !ok || !bytes.Equal(v, w) {
			return false
		}
	}
	return true
}

func briefState(m drive.Model) string {
	ks := make([]string, 0, len(m))
	for k := range m {
		ks = append(ks, k)
	}
	sort.Strings(ks)
	var b bytes.Buffer
	b.WriteString("{")
	for i, k := range ks {
		if i > 0 {
			b.WriteString(" ")
		}
		if i >= 8 {
			fmt.Fprintf(&b, "...+%d", len(ks)-i)
			break
		}
		v := m[k]
		if len(v) > 6 {
			fmt.Fprintf(&b, "%x=%x..(%d)", trunc(k, 6), v[:6], len(v))
		} else {
			fmt.Fprintf(&b, "%x=%x", trunc(k, 6), v)
		}
	}
	b.WriteString("}")
	return b.String()
}

func trunc(s string, n int) string {
	if len(s) > n {
		return s[:n]
	}
	return s
}

// partialOf reports whether st equals S_q with a non-empty strict subset of
// operation q+1's effects applied on top, for some q >= from.
func (o *oracle) partialOf(st drive.Model, from int) (int, bool) {
	for q := from; q+1 < len(o.tr.states); q++ {
		eff := o.tr.eff[q+1]
		if len(eff) < 2 {
			continue
		}
		base, next := o.tr.states[q], o.tr.states[q+1]
		ok, some, all := true, false, true
		// every key outside eff must equal base; keys inside eff equal base or next
		seen := map[string]bool{}
		for k := range st {
			seen[k] = true
		}
		for k := range base {
			seen[k] = true
		}
		for k := range next {
			seen[k] = true
		}
		for k := range seen {
			sv, sok := st[k]
			bv, bok := base[k]
			nv, nok := next[k]
			eqB := sok == bok && (!sok || bytes.Equal(sv, bv))
			eqN := sok == nok && (!sok || bytes.Equal(sv, nv))
			if _, in := eff[k]; !in {
				if !eqB {
					ok = false
				}
				continue
			}
			switch {
			case eqN && !eqB:
				some = true
			case eqB && !eqN:
				all = false
			case eqB && eqN: // this effect changes nothing; says nothing
			default:
				ok = false
			}
			if !ok {
				break
			}
		}
		if ok && some && !all {
			return q, true
		}
	}
	return 0, false
}

// observeState judges the replica's data st at one moment.
func (o *oracle) observeState(st drive.Model, ctx string, at int) *violation {
	o.partialNow = false
	for p := o.curMin; p < len(o.tr.states); p++ {
		if sameState(st, o.tr.states[p]) {
			o.curMin = p
			return nil
		}
	}
	if q, ok := o.partialOf(st, o.curMin); ok {
		if o.relaxTx {
			o.curMin = q
			o.partialNow = true
			return nil
		}
		return &violation{Kind: "state:partial-transaction-visible", Ctx: ctx, At: at,
			Msg: fmt.Sprintf("after %d applied entries the replica's data equals S_%d plus a strict subset of the %d effects of write operation %d: %s",
				o.applied, q, len(o.tr.eff[q+1]), q+1, briefState(st))}
	}
	for p := 0; p < o.curMin; p++ {
		if sameState(st, o.tr.states[p]) {
			return &violation{Kind: "state:regressed", Ctx: ctx, At: at,
				Msg: fmt.Sprintf("after %d applied entries the replica's data went back to S_%d although it had reached S_%d: %s",
					o.applied, p, o.curMin, briefState(st))}
		}
	}
	return &violation{Kind: "state:not-a-prefix", Ctx: ctx, At: at,
		Msg: fmt.Sprintf("after %d applied entries the replica's data equals no prefix state S_%d..S_%d of the primary history: %s",
			o.applied, o.curMin, len(o.tr.states)-1, briefState(st))}
}

// beforeApply is called with the entry handed to the applier BEFORE it takes
// effect: identity with the primary's operation, and order.
func (o *oracle) beforeApply(e *wal.Entry, ctx string, at int) *violation {
	p, ok := o.tr.opOf[e.SequenceNumber]
	if !ok {
		return &violation{Kind: "entry:unknown-sequence", Ctx: ctx, At: at,
			Msg: fmt.Sprintf("the applier was handed an entry with sequence %d, which the primary never assigned", e.SequenceNumber)}
	}
	ef, ok := o.tr.eff[p][string(e.Key)]
	good := ok
	if ok {
		switch e.Type {
		case wal.OpTypePut:
			good = !ef.del && bytes.Equal(ef.val, e.Value)
		case wal.OpTypeDelete:
			good = ef.del
		default:
			good = false
		}
	}
	if !good {
		return &violation{Kind: "entry:not-identical-to-primary-entry", Ctx: ctx, At: at,
			Msg: fmt.Sprintf("entry seq=%d type=%d key=%x value(len %d) handed to the applier is not an effect of primary operation %d",
				e.SequenceNumber, e.Type, trunc(string(e.Key), 12), len(e.Value), p)}
	}
	switch {
	case o.lastOp == 0 && p == 1, p == o.lastOp+1:
		// next operation: the previous one must be complete
		if o.lastOp > 0 && len(o.doneInOp) < len(o.tr.eff[o.lastOp]) {
			return &violation{Kind: "order:skipped-rest-of-operation", Ctx: ctx, At: at,
				Msg: fmt.Sprintf("entry of operation %d (seq %d) applied while only %d of %d entries of operation %d had been applied",
					p, e.SequenceNumber, len(o.doneInOp), len(o.tr.eff[o.lastOp]), o.lastOp)}
		}
	case p == o.lastOp:
		// same operation: a new entry of it, or an immediate in-order repeat of the last one
		if o.doneInOp[string(e.Key)] && string(e.Key) != o.lastKey {
			return &violation{Kind: "order:reapplied-out-of-order", Ctx: ctx, At: at,
				Msg: fmt.Sprintf("entry key=%x of operation %d (seq %d) applied again after another entry of the same operation",
					trunc(string(e.Key), 12), p, e.SequenceNumber)}
		}
	case p < o.lastOp:
		return &violation{Kind: "order:reapplied-out-of-order", Ctx: ctx, At: at,
			Msg: fmt.Sprintf("entry of operation %d (seq %d) applied again after operation %d (seq %d) had been applied",
				p, e.SequenceNumber, o.lastOp, o.tr.seqOf[o.lastOp])}
	default:
		return &violation{Kind: "order:skipped", Ctx: ctx, At: at,
			Msg: fmt.Sprintf("entry of operation %d (seq %d) applied right after operation %d: %d operations skipped",
				p, e.SequenceNumber, o.lastOp, p-o.lastOp-1)}
	}
	return nil
}

// afterApply records a successful apply and judges the resulting data.
func (o *oracle) afterApply(e *wal.Entry, ctx string, at int) *violation {
	p := o.tr.opOf[e.SequenceNumber]
	if p != o.lastOp {
		o.doneInOp = map[string]bool{}
	}
	o.lastOp = p
	o.lastKey = string(e.Key)
	o.doneInOp[string(e.Key)] = true
	o.applied++
	if e.SequenceNumber > o.maxApplied {
		o.maxApplied = e.SequenceNumber
	}
	switch e.Type {
	case wal.OpTypePut:
		v := e.Value
		if v == nil {
			v = []byte{}
		}
		o.model[string(e.Key)] = append([]byte{}, v...)
	case wal.OpTypeDelete:
		delete(o.model, string(e.Key))
	}
	return o.observeState(o.model, ctx, at)
}

// reported judges a value of Replica.GetLastAppliedSequence.
func (o *oracle) reported(r uint64, ctx string, at int) *violation {
	if r < o.lastRep {
		return &violation{Kind: "reported:decreased", Ctx: ctx, At: at,
			Msg: fmt.Sprintf("GetLastAppliedSequence went from %d to %d", o.lastRep, r)}
	}
	o.lastRep = r
	if r > o.maxApplied {
		return &violation{Kind: "reported:exceeds-applied", Ctx: ctx, At: at,
			Msg: fmt.Sprintf("GetLastAppliedSequence = %d but the highest sequence handed to the applier is %d", r, o.maxApplied)}
	}
	if r == 0 {
		return nil
	}
	// the data must contain everything up to the reported sequence
	q, ok := o.tr.opOf[r]
	if !ok {
		return &violation{Kind: "reported:unknown-sequence", Ctx: ctx, At: at,
			Msg: fmt.Sprintf("GetLastAppliedSequence = %d, which the primary never assigned", r)}
	}
	if o.partialNow {
		// relaxed mode, data between S_curMin and S_curMin+1: may report at most curMin's sequence
		if q > o.curMin {
			return &violation{Kind: "reported:exceeds-applied-data", Ctx: ctx, At: at,
				Msg: fmt.Sprintf("GetLastAppliedSequence = %d (operation %d) while operation %d is only partly applied", r, q, o.curMin+1)}
		}
		return nil
	}
	if q <= o.curMin {
		return nil
	}
	for p := q; p < len(o.tr.states); p++ {
		if sameState(o.model, o.tr.states[p]) {
			o.curMin = p
			return nil
		}
	}
	return &violation{Kind: "reported:exceeds-applied-data", Ctx: ctx, At: at,
		Msg: fmt.Sprintf("GetLastAppliedSequence = %d (operation %d) but the replica's data is S_%d", r, q, o.curMin)}
}

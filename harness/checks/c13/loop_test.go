package c13

// The "loop" class: the REAL replica state machine (Replica.Start, the 50 ms
// ticks, error state, backoff, handleErrorState, reconnect, new stream from
// the replica's expected position) catches up with a primary history that was
// written before it connected, while its applier refuses generated entries a
// generated number of times (transient apply failures at the first entry, in
// the middle or at the end of a message). The primary side is an in-process
// WALReplicationServiceClient that answers every StreamWAL request the way the
// primary does - entries from the requested sequence on, taken from the real
// Primary (getWALEntriesFromSequence) over the real log - in messages of
// generated sizes. Nothing in it depends on timing except how long a case
// takes: the fake primary is purely reactive and failures are keyed by
// sequence number, so a saved case replays.

import (
	"context"
	"errors"
	"fmt"
	"sync"
	"time"

	"github.com/KevoDB/kevo/pkg/replication"
	"github.com/KevoDB/kevo/pkg/wal"
	pb "github.com/KevoDB/kevo/proto/kevo/replication"
	"google.golang.org/grpc"
	"google.golang.org/grpc/metadata"
	"pgregory.net/rapid"

	"verif/internal/drive"
	"verif/internal/ev"
)

// FailSpec: the applier refuses the entry of write operation Op, Times times.
type FailSpec struct {
	Op    int `json:"op"`
	Times int `json:"times"`
}

// LoopSpec is the loop class's part of a case.
type LoopSpec struct {
	Chunks []int      `json:"chunks"` // sizes of the messages the primary side serves, used cyclically
	Fails  []FailSpec `json:"fails"`
	Settle bool       `json:"settle,omitempty"` // keep the loop running for one more recovery cycle after the last entry
}

func genLoop(t *rapid.T, p *drive.Program) *LoopSpec {
	nw := 0
	for _, s := range p.Steps {
		if s.IsWrite() {
			nw++
		}
	}
	l := &LoopSpec{Settle: rapid.IntRange(0, 3).Draw(t, "settle") == 0}
	for i, n := 0, rapid.IntRange(1, 3).Draw(t, "nchunks"); i < n; i++ {
		l.Chunks = append(l.Chunks, rapid.SampledFrom([]int{2, 3, 3, 4, 5, 6, 8, 100}).Draw(t, "chunk"))
	}
	budget := 3
	used := map[int]bool{}
	for i, n := 0, rapid.IntRange(1, 2).Draw(t, "nfails"); i < n && budget > 0; i++ {
		op := rapid.IntRange(1, nw).Draw(t, "failop")
		if used[op] {
			continue
		}
		used[op] = true
		times := rapid.SampledFrom([]int{1, 1, 1, 2, 3}).Draw(t, "failtimes")
		if times > budget {
			times = budget
		}
		budget -= times
		l.Fails = append(l.Fails, FailSpec{Op: op, Times: times})
	}
	return l
}

// genLoopProgram: a short history (the replica is behind by all of it).
func genLoopProgram(t *rapid.T) drive.Program {
	p := genProgram(t, "loop")
	return p
}

// loopApplier is the replica's applier in the loop class.
type loopApplier struct {
	mu       sync.Mutex
	o        *oracle
	rep      *replication.Replica
	fails    map[uint64]int
	viol     *violation
	trace    []string
	msgLen   int // length of the message being processed (set by the stream)
	inMsg    int
	lastFail string // position of the most recent injected failure
	pos      map[string]int
	nFail    int
}

func (a *loopApplier) ctx() string {
	if a.lastFail == "" {
		return "loop"
	}
	return "loop+after-apply-failure(" + a.lastFail + ")"
}

func (a *loopApplier) note(s string) {
	if len(a.trace) < 200 {
		a.trace = append(a.trace, s)
	}
}

func (a *loopApplier) Apply(e *wal.Entry) error {
	a.mu.Lock()
	defer a.mu.Unlock()
	a.inMsg++
	if a.viol != nil {
		return errors.New("oracle already failed")
	}
	if a.fails[e.SequenceNumber] > 0 {
		a.fails[e.SequenceNumber]--
		a.nFail++
		switch {
		case a.inMsg == 1:
			a.lastFail = "first"
		case a.inMsg >= a.msgLen:
			a.lastFail = "last"
		default:
			a.lastFail = "middle"
		}
		a.pos[a.lastFail]++
		a.note(fmt.Sprintf("refuse %d (entry %d of %d)", e.SequenceNumber, a.inMsg, a.msgLen))
		return errInjected
	}
	at := len(a.trace)
	if v := a.o.reported(a.rep.GetLastAppliedSequence(), a.ctx(), at); v != nil {
		a.viol = v
		return errors.New("oracle failed")
	}
	if v := a.o.beforeApply(e, a.ctx(), at); v != nil {
		a.note(fmt.Sprintf("apply %d  <-- %s", e.SequenceNumber, v.Kind))
		a.viol = v
		return errors.New("oracle failed")
	}
	a.note(fmt.Sprintf("apply %d", e.SequenceNumber))
	if v := a.o.afterApply(e, a.ctx(), at); v != nil {
		a.viol = v
		return errors.New("oracle failed")
	}
	return nil
}

func (a *loopApplier) Sync() error { return nil }

// loopPrimary is the primary as the replica's client sees it.
type loopPrimary struct {
	h       *history
	ap      *loopApplier
	chunks  []int
	mu      sync.Mutex
	nMsg    int
	streams int
	nacks   int
}

func (p *loopPrimary) StreamWAL(ctx context.Context, in *pb.WALStreamRequest, opts ...grpc.CallOption) (grpc.ServerStreamingClient[pb.WALStreamResponse], error) {
	p.mu.Lock()
	p.streams++
	p.mu.Unlock()
	p.ap.mu.Lock()
	p.ap.note(fmt.Sprintf("stream from %d", in.StartSequence))
	p.ap.mu.Unlock()
	return &loopStream{p: p, ctx: ctx, next: in.StartSequence}, nil
}

func (p *loopPrimary) Acknowledge(ctx context.Context, in *pb.Ack, opts ...grpc.CallOption) (*pb.AckResponse, error) {
	return &pb.AckResponse{Success: true}, nil
}

func (p *loopPrimary) NegativeAcknowledge(ctx context.Context, in *pb.Nack, opts ...grpc.CallOption) (*pb.NackResponse, error) {
	p.mu.Lock()
	p.nacks++
	p.mu.Unlock()
	return &pb.NackResponse{Success: true}, nil
}

// loopStream is one StreamWAL call: initial entries from the requested
// sequence, then whatever follows, in order.
type loopStream struct {
	p    *loopPrimary
	ctx  context.Context
	mu   sync.Mutex
	next uint64
}

func (s *loopStream) Recv() (*pb.WALStreamResponse, error) {
	s.mu.Lock()
	defer s.mu.Unlock()
	if s.ctx.Err() != nil {
		return nil, s.ctx.Err()
	}
	from := s.next
	if from < 1 {
		from = 1
	}
	var ents []*wal.Entry
	if from <= s.p.h.tr.maxSeq {
		s.p.mu.Lock()
		ents, _ = s.p.h.poll(from)
		s.p.mu.Unlock()
	}
	if len(ents) == 0 {
		// nothing (more) to send: the stream stays open until the replica drops it
		<-s.ctx.Done()
		return nil, s.ctx.Err()
	}
	s.p.mu.Lock()
	size := s.p.chunks[s.p.nMsg%len(s.p.chunks)]
	s.p.nMsg++
	s.p.mu.Unlock()
	if size < len(ents) {
		ents = ents[:size]
	}
	resp := &pb.WALStreamResponse{Codec: pb.CompressionCodec_NONE}
	for _, e := range ents {
		pe, err := replication.WALEntryToProto(e, pb.FragmentType_FULL)
		if err != nil {
			continue
		}
		resp.Entries = append(resp.Entries, pe)
	}
	s.next = ents[len(ents)-1].SequenceNumber + 1
	s.p.ap.mu.Lock()
	s.p.ap.msgLen, s.p.ap.inMsg = len(resp.Entries), 0
	s.p.ap.note(fmt.Sprintf("message %d..%d", ents[0].SequenceNumber, ents[len(ents)-1].SequenceNumber))
	s.p.ap.mu.Unlock()
	return resp, nil
}

func (s *loopStream) Header() (metadata.MD, error) {
	return metadata.Pairs("session-id", "loop-session"), nil
}
func (s *loopStream) Trailer() metadata.MD     { return nil }
func (s *loopStream) CloseSend() error         { return nil }
func (s *loopStream) Context() context.Context { return s.ctx }
func (s *loopStream) SendMsg(any) error        { return nil }
func (s *loopStream) RecvMsg(any) error        { return errors.New("use Recv") }

// loopConnector installs the in-process client (what a connector's Connect
// has to do).
type loopConnector struct {
	c pb.WALReplicationServiceClient
}

func (c *loopConnector) Connect(r *replication.Replica) error {
	r.VerifSetClient(c.c)
	return nil
}

// runLoopCase executes a loop-class case.
func runLoopCase(c *Case) (out outcome, trace []string) {
	h, err := buildHistory(&c.Prog, c.Prim, c.Repl)
	if err != nil {
		out.abandoned = err.Error()
		return
	}
	defer h.close()
	if h.nWrite == 0 || c.Loop == nil || len(c.Loop.Chunks) == 0 {
		out.abandoned = "loop case without a write or without a plan"
		return
	}
	o := newOracle(h.tr, !ev.Flag("tx_atomic_visibility"))
	ap := &loopApplier{o: o, fails: map[uint64]int{}, pos: map[string]int{}}
	for _, f := range c.Loop.Fails {
		if f.Op >= 1 && f.Op < len(h.tr.seqOf) {
			ap.fails[h.tr.seqOf[f.Op]] += f.Times
		}
	}
	cfg := replication.DefaultReplicaConfig()
	cfg.CompressionSupported = c.Repl.CompressionSupported
	cfg.PreferredCodec = pb.CompressionCodec(c.Repl.PreferredCodec)
	cfg.Connection.RetryBaseDelay = time.Millisecond
	cfg.Connection.RetryMaxDelay = 2 * time.Millisecond
	rep, err := replication.NewReplica(0, ap, cfg)
	if err != nil {
		out.abandoned = err.Error()
		return
	}
	ap.rep = rep
	lp := &loopPrimary{h: h, ap: ap, chunks: c.Loop.Chunks}
	rep.SetConnector(&loopConnector{c: lp})
	start := time.Now()
	if err := rep.Start(); err != nil {
		out.abandoned = err.Error()
		return
	}
	// wait until everything is applied or the oracle failed; the bound is not a
	// verdict (a replica that does not get there is C14's business)
	converged := false
	deadline := start.Add(20 * time.Second)
	var doneAt time.Time
	for time.Now().Before(deadline) {
		ap.mu.Lock()
		failed := ap.viol != nil
		done := o.maxApplied >= h.tr.maxSeq
		ap.mu.Unlock()
		if failed {
			break
		}
		if done {
			converged = true
			if !c.Loop.Settle {
				break
			}
			// one more error/backoff/reconnect cycle: nothing may be applied again
			if doneAt.IsZero() {
				doneAt = time.Now()
			} else if time.Since(doneAt) > 260*time.Millisecond {
				break
			}
		}
		time.Sleep(2 * time.Millisecond)
	}
	stopped := make(chan struct{})
	go func() { _ = rep.Stop(); close(stopped) }()
	select {
	case <-stopped:
	case <-time.After(15 * time.Second):
		ev.R().Count("loop_stop_hung", 1)
	}
	ap.mu.Lock()
	defer ap.mu.Unlock()
	if ap.viol == nil {
		if v := o.reported(rep.GetLastAppliedSequence(), ap.ctx(), len(ap.trace)); v != nil {
			ap.viol = v
		}
	}
	if ap.viol != nil {
		ap.viol.Detail = fmt.Sprintf("real replica loop; %d streams, %d messages, %d refused applies", lp.streams, lp.nMsg, ap.nFail)
	}
	out.viol = ap.viol
	cl := []string{"variant_loop"}
	add := func(b bool, s string) {
		if b {
			cl = append(cl, s)
		}
	}
	add(ap.pos["first"] > 0, "loop_failure_at_first_entry_of_message")
	add(ap.pos["middle"] > 0, "loop_failure_in_the_middle_of_message")
	add(ap.pos["last"] > 0, "loop_failure_at_last_entry_of_message")
	add(ap.nFail >= 2, "loop_recoveries>=2")
	add(converged, "loop_converged")
	add(c.Loop.Settle, "loop_settle_cycle")
	add(h.flushes > 0, "history_with_flush")
	out.nontriv = ap.pos["middle"]+ap.pos["last"] > 0
	add(out.nontriv, "nontrivial")
	out.classes = cl
	ev.R().Count("loop_cases", 1)
	ev.R().Count("loop_streams", lp.streams)
	ev.R().Count("loop_messages", lp.nMsg)
	ev.R().Count("loop_refused_applies", ap.nFail)
	ev.R().Count("loop_nacks", lp.nacks)
	ev.R().Count("loop_wall_ms", int(time.Since(start).Milliseconds()))
	if !converged && ap.viol == nil {
		ev.R().Count("loop_not_converged_within_bound", 1)
	}
	ev.R().Count("entries_applied", o.applied)
	return out, ap.trace
}

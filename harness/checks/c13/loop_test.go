package c13

// The "loop" class: the REAL replica state machine (Replica.Start, the 50 ms
// ticks, error state, backoff, handleErrorState, reconnect, new stream from
// the replica's expected position) catches up with a primary history that was
// written before it connected, while its applier refuses generated entries a
// generated number of times (transient apply failures at the first entry, in
// the middle or at the end of a message). The primary side is an in-process
// WALReplicationServiceClient that answers every StreamWAL request the way the
// primary does - entries from the requested sequence on, taken from the real
// Primary (getWALEntriesFromSequence) over the real log - in messages of
// generated sizes. Nothing in it depends on timing except how long a case
// takes: the fake primary is purely reactive and failures are keyed by
// sequence number, so a saved case replays.

import (
	"context"
	"errors"
	"fmt"
	"sync"
	"time"

	"github.com/KevoDB/kevo/pkg/replication"
	"github.com/KevoDB/kevo/pkg/wal"
	pb "github.com/KevoDB/kevo/proto/kevo/replication"
	"google.golang.org/grpc"
	"google.golang.org/grpc/metadata"
	"pgregory.net/rapid"

	"verif/internal/drive"
	"verif/internal/ev"
)

// FailSpec: the applier refuses the entry of write operation Op, Times times.
type FailSpec struct {
	Op    int `json:"op"`
	Times int `json:"times"`
}

// LoopSpec is the loop class's part of a case.
type LoopSpec struct {
	Chunks []int      `json:"chunks"` // sizes of the messages the primary side serves, used cyclically
	Fails  []FailSpec `json:"fails"`
	Settle bool       `json:"settle,omitempty"` // keep the loop running for one more recovery cycle after the last entry
	// Slow: the applier's FIRST Apply of write operation Op blocks for StallMs
	// (longer than any plausible per-apply deadline) and then carries the apply
	// out; later attempts for the same entry are prompt. A stalled call that a
	// replica abandons still completes - and must not take effect late.
	Slow *SlowSpec `json:"slow,omitempty"`
}

// SlowSpec is the "slow apply" fault.
type SlowSpec struct {
	Op      int `json:"op"`
	StallMs int `json:"stall_ms"`
}

// slowBudget bounds the number of (6-9 s) slow-apply cases per process. Only a
// case that PASSED uses it up, so a failing one can be re-run while shrinking.
var slowBudget = -1

func slowBudgetLeft() bool {
	if slowBudget < 0 {
		slowBudget = 1
		if ev.Tier() == "thorough" {
			slowBudget = 2
		}
	}
	return slowBudget > 0
}

func genLoop(t *rapid.T, p *drive.Program) *LoopSpec {
	nw := 0
	for _, s := range p.Steps {
		if s.IsWrite() {
			nw++
		}
	}
	l := &LoopSpec{Settle: rapid.IntRange(0, 3).Draw(t, "settle") == 0}
	for i, n := 0, rapid.IntRange(1, 3).Draw(t, "nchunks"); i < n; i++ {
		l.Chunks = append(l.Chunks, rapid.SampledFrom([]int{2, 3, 3, 4, 5, 6, 8, 100}).Draw(t, "chunk"))
	}
	budget := 3
	used := map[int]bool{}
	for i, n := 0, rapid.IntRange(1, 2).Draw(t, "nfails"); i < n && budget > 0; i++ {
		op := rapid.IntRange(1, nw).Draw(t, "failop")
		if used[op] {
			continue
		}
		used[op] = true
		times := rapid.SampledFrom([]int{1, 1, 1, 2, 3}).Draw(t, "failtimes")
		if times > budget {
			times = budget
		}
		budget -= times
		l.Fails = append(l.Fails, FailSpec{Op: op, Times: times})
	}
	// slow apply: rare and expensive; drawn like everything else, demoted when
	// this process has had its share
	if nw >= 2 && rapid.IntRange(0, 3).Draw(t, "slow") == 0 {
		// prefer an entry whose key is written again later (the end state then shows a late apply too)
		var writes []drive.Step
		for _, s := range p.Steps {
			if s.IsWrite() {
				writes = append(writes, s)
			}
		}
		var cands []int
		for i := 0; i < nw-1; i++ {
			for j := i + 1; j < nw; j++ {
				if len(writes[i].Tx) == 0 && len(writes[j].Tx) == 0 && writes[i].K == writes[j].K {
					cands = append(cands, i+1)
					break
				}
			}
		}
		op := rapid.IntRange(1, nw-1).Draw(t, "slowop")
		if len(cands) > 0 && rapid.IntRange(0, 4).Draw(t, "slowoverwritten") != 0 {
			op = cands[rapid.IntRange(0, len(cands)-1).Draw(t, "slowcand")]
		}
		stall := 5500 + 100*rapid.IntRange(0, 25).Draw(t, "stall")
		if slowBudgetLeft() {
			l.Slow = &SlowSpec{Op: op, StallMs: stall}
			l.Fails = nil // one fault kind per case keeps the slow cases as short as they can be
		} else {
			ev.R().Count("loop_slow_apply_demoted_by_budget", 1)
		}
	}
	return l
}

// genLoopProgram: a short history (the replica is behind by all of it).
func genLoopProgram(t *rapid.T) drive.Program {
	p := genProgram(t, "loop")
	return p
}

// loopApplier is the replica's applier in the loop class.
type loopApplier struct {
	mu       sync.Mutex
	o        *oracle
	rep      *replication.Replica
	fails    map[uint64]int
	viol     *violation
	trace    []string
	msgLen   int // length of the message being processed (set by the stream)
	inMsg    int
	lastFail string // position of the most recent injected failure
	pos      map[string]int
	nFail    int
	// slow apply
	stallSeq    uint64
	stallFor    time.Duration
	stallUsed   bool
	stallActive int
	stallDone   time.Time
	lateCtx     bool
}

func (a *loopApplier) ctx() string {
	if a.lateCtx {
		return "loop+after-stalled-apply"
	}
	if a.lastFail == "" {
		return "loop"
	}
	return "loop+after-apply-failure(" + a.lastFail + ")"
}

func (a *loopApplier) note(s string) {
	if len(a.trace) < 200 {
		a.trace = append(a.trace, s)
	}
}

func (a *loopApplier) Apply(e *wal.Entry) error {
	a.mu.Lock()
	defer a.mu.Unlock()
	a.inMsg++
	if a.viol != nil {
		return errors.New("oracle already failed")
	}
	if a.stallFor > 0 && !a.stallUsed && e.SequenceNumber == a.stallSeq {
		// the first attempt stalls (without holding the applier's lock) and is
		// then carried out; it is never refused
		a.stallUsed = true
		a.stallActive++
		a.note(fmt.Sprintf("apply %d stalls for %v", e.SequenceNumber, a.stallFor))
		a.mu.Unlock()
		time.Sleep(a.stallFor)
		a.mu.Lock()
		a.stallActive--
		a.stallDone = time.Now()
		a.lateCtx = true
		a.note(fmt.Sprintf("stalled apply %d resumes", e.SequenceNumber))
		if a.viol != nil {
			return errors.New("oracle already failed")
		}
	}
	if a.fails[e.SequenceNumber] > 0 {
		a.fails[e.SequenceNumber]--
		a.nFail++
		switch {
		case a.inMsg == 1:
			a.lastFail = "first"
		case a.inMsg >= a.msgLen:
			a.lastFail = "last"
		default:
			a.lastFail = "middle"
		}
		a.pos[a.lastFail]++
		a.note(fmt.Sprintf("refuse %d (entry %d of %d)", e.SequenceNumber, a.inMsg, a.msgLen))
		return errInjected
	}
	at := len(a.trace)
	if v := a.o.reported(a.rep.GetLastAppliedSequence(), a.ctx(), at); v != nil {
		a.viol = v
		return errors.New("oracle failed")
	}
	if v := a.o.beforeApply(e, a.ctx(), at); v != nil {
		a.note(fmt.Sprintf("apply %d  <-- %s", e.SequenceNumber, v.Kind))
		a.viol = v
		return errors.New("oracle failed")
	}
	a.note(fmt.Sprintf("apply %d", e.SequenceNumber))
	if v := a.o.afterApply(e, a.ctx(), at); v != nil {
		a.viol = v
		return errors.New("oracle failed")
	}
	return nil
}

func (a *loopApplier) Sync() error { return nil }

// loopPrimary is the primary as the replica's client sees it.
type loopPrimary struct {
	h       *history
	ap      *loopApplier
	chunks  []int
	mu      sync.Mutex
	nMsg    int
	streams int
	nacks   int
}

func (p *loopPrimary) StreamWAL(ctx context.Context, in *pb.WALStreamRequest, opts ...grpc.CallOption) (grpc.ServerStreamingClient[pb.WALStreamResponse], error) {
	p.mu.Lock()
	p.streams++
	p.mu.Unlock()
	p.ap.mu.Lock()
	p.ap.note(fmt.Sprintf("stream from %d", in.StartSequence))
	p.ap.mu.Unlock()
	return &loopStream{p: p, ctx: ctx, next: in.StartSequence}, nil
}

func (p *loopPrimary) Acknowledge(ctx context.Context, in *pb.Ack, opts ...grpc.CallOption) (*pb.AckResponse, error) {
	return &pb.AckResponse{Success: true}, nil
}

func (p *loopPrimary) NegativeAcknowledge(ctx context.Context, in *pb.Nack, opts ...grpc.CallOption) (*pb.NackResponse, error) {
	p.mu.Lock()
	p.nacks++
	p.mu.Unlock()
	return &pb.NackResponse{Success: true}, nil
}

// loopStream is one StreamWAL call: initial entries from the requested
// sequence, then whatever follows, in order.
type loopStream struct {
	p    *loopPrimary
	ctx  context.Context
	mu   sync.Mutex
	next uint64
}

func (s *loopStream) Recv() (*pb.WALStreamResponse, error) {
	s.mu.Lock()
	defer s.mu.Unlock()
	if s.ctx.Err() != nil {
		return nil, s.ctx.Err()
	}
	from := s.next
	if from < 1 {
		from = 1
	}
	var ents []*wal.Entry
	if from <= s.p.h.tr.maxSeq {
		s.p.mu.Lock()
		ents, _ = s.p.h.poll(from)
		s.p.mu.Unlock()
	}
	if len(ents) == 0 {
		// nothing (more) to send: the stream stays open until the replica drops it
		<-s.ctx.Done()
		return nil, s.ctx.Err()
	}
	s.p.mu.Lock()
	size := s.p.chunks[s.p.nMsg%len(s.p.chunks)]
	s.p.nMsg++
	s.p.mu.Unlock()
	if size < len(ents) {
		ents = ents[:size]
	}
	resp := &pb.WALStreamResponse{Codec: pb.CompressionCodec_NONE}
	for _, e := range ents {
		pe, err := replication.WALEntryToProto(e, pb.FragmentType_FULL)
		if err != nil {
			continue
		}
		resp.Entries = append(resp.Entries, pe)
	}
	s.next = ents[len(ents)-1].SequenceNumber + 1
	s.p.ap.mu.Lock()
	s.p.ap.msgLen, s.p.ap.inMsg = len(resp.Entries), 0
	s.p.ap.note(fmt.Sprintf("message %d..%d", ents[0].SequenceNumber, ents[len(ents)-1].SequenceNumber))
	s.p.ap.mu.Unlock()
	return resp, nil
}

func (s *loopStream) Header() (metadata.MD, error) {
	return metadata.Pairs("session-id", "loop-session"), nil
}
func (s *loopStream) Trailer() metadata.MD     { return nil }
func (s *loopStream) CloseSend() error         { return nil }
func (s *loopStream) Context() context.Context { return s.ctx }
func (s *loopStream) SendMsg(any) error        { return nil }
func (s *loopStream) RecvMsg(any) error        { return errors.New("use Recv") }

// loopConnector installs the in-process client (what a connector's Connect
// has to do).
type loopConnector struct {
	c pb.WALReplicationServiceClient
}

func (c *loopConnector) Connect(r *replication.Replica) error {
	r.VerifSetClient(c.c)
	return nil
}

// runLoopCase executes a loop-class case.
func runLoopCase(c *Case) (out outcome, trace []string) {
	h, err := buildHistory(&c.Prog, c.Prim, c.Repl)
	if err != nil {
		out.abandoned = err.Error()
		return
	}
	defer h.close()
	if h.nWrite == 0 || c.Loop == nil || len(c.Loop.Chunks) == 0 {
		out.abandoned = "loop case without a write or without a plan"
		return
	}
	o := newOracle(h.tr, !ev.Flag("tx_atomic_visibility"))
	ap := &loopApplier{o: o, fails: map[uint64]int{}, pos: map[string]int{}}
	for _, f := range c.Loop.Fails {
		if f.Op >= 1 && f.Op < len(h.tr.seqOf) {
			ap.fails[h.tr.seqOf[f.Op]] += f.Times
		}
	}
	slow := c.Loop.Slow != nil && c.Loop.Slow.Op >= 1 && c.Loop.Slow.Op < len(h.tr.seqOf)
	if slow {
		ap.stallSeq = h.tr.seqOf[c.Loop.Slow.Op]
		ap.stallFor = time.Duration(c.Loop.Slow.StallMs) * time.Millisecond
	}
	cfg := replication.DefaultReplicaConfig()
	cfg.CompressionSupported = c.Repl.CompressionSupported
	cfg.PreferredCodec = pb.CompressionCodec(c.Repl.PreferredCodec)
	cfg.Connection.RetryBaseDelay = time.Millisecond
	cfg.Connection.RetryMaxDelay = 2 * time.Millisecond
	rep, err := replication.NewReplica(0, ap, cfg)
	if err != nil {
		out.abandoned = err.Error()
		return
	}
	ap.rep = rep
	lp := &loopPrimary{h: h, ap: ap, chunks: c.Loop.Chunks}
	rep.SetConnector(&loopConnector{c: lp})
	start := time.Now()
	if err := rep.Start(); err != nil {
		out.abandoned = err.Error()
		return
	}
	// wait until everything is applied or the oracle failed; the bound is not a
	// verdict (a replica that does not get there is C14's business)
	converged := false
	deadline := start.Add(20 * time.Second)
	if slow {
		deadline = start.Add(60 * time.Second)
	}
	var doneAt time.Time
	for time.Now().Before(deadline) {
		ap.mu.Lock()
		failed := ap.viol != nil
		done := o.maxApplied >= h.tr.maxSeq
		stalled := ap.stallActive > 0 || (slow && !ap.stallUsed)
		grace := !ap.stallDone.IsZero() && time.Since(ap.stallDone) < 300*time.Millisecond
		ap.mu.Unlock()
		if failed {
			break
		}
		if done && (stalled || grace) {
			// the replica has caught up, but a stalled Apply call is still out (or
			// has only just returned): the case ends after it, nothing may be applied then
			converged = true
			time.Sleep(2 * time.Millisecond)
			continue
		}
		if done {
			converged = true
			if !c.Loop.Settle {
				break
			}
			// one more error/backoff/reconnect cycle: nothing may be applied again
			if doneAt.IsZero() {
				doneAt = time.Now()
			} else if time.Since(doneAt) > 260*time.Millisecond {
				break
			}
		}
		time.Sleep(2 * time.Millisecond)
	}
	stopped := make(chan struct{})
	go func() { _ = rep.Stop(); close(stopped) }()
	select {
	case <-stopped:
	case <-time.After(15 * time.Second):
		ev.R().Count("loop_stop_hung", 1)
	}
	ap.mu.Lock()
	defer ap.mu.Unlock()
	if ap.viol == nil {
		if v := o.reported(rep.GetLastAppliedSequence(), ap.ctx(), len(ap.trace)); v != nil {
			ap.viol = v
		}
	}
	if ap.viol != nil {
		ap.viol.Detail = fmt.Sprintf("real replica loop; %d streams, %d messages, %d refused applies", lp.streams, lp.nMsg, ap.nFail)
	}
	out.viol = ap.viol
	cl := []string{"variant_loop"}
	add := func(b bool, s string) {
		if b {
			cl = append(cl, s)
		}
	}
	add(ap.pos["first"] > 0, "loop_failure_at_first_entry_of_message")
	add(ap.pos["middle"] > 0, "loop_failure_in_the_middle_of_message")
	add(ap.pos["last"] > 0, "loop_failure_at_last_entry_of_message")
	add(ap.nFail >= 2, "loop_recoveries>=2")
	add(converged, "loop_converged")
	add(c.Loop.Settle, "loop_settle_cycle")
	add(slow && ap.stallUsed, "loop_slow_apply(stall>5s)")
	add(slow && ap.stallUsed && ap.stallSeq < h.tr.maxSeq, "loop_slow_apply_followed_by_later_entries")
	if slow && ap.stallUsed {
		ev.R().Count("loop_slow_apply_cases", 1)
		if ap.viol == nil {
			slowBudget--
		}
	}
	add(h.flushes > 0, "history_with_flush")
	out.nontriv = ap.pos["middle"]+ap.pos["last"] > 0 || (slow && ap.stallUsed && ap.stallSeq < h.tr.maxSeq)
	add(out.nontriv, "nontrivial")
	out.classes = cl
	ev.R().Count("loop_cases", 1)
	ev.R().Count("loop_streams", lp.streams)
	ev.R().Count("loop_messages", lp.nMsg)
	ev.R().Count("loop_refused_applies", ap.nFail)
	ev.R().Count("loop_nacks", lp.nacks)
	ev.R().Count("loop_wall_ms", int(time.Since(start).Milliseconds()))
	if !converged && ap.viol == nil {
		ev.R().Count("loop_not_converged_within_bound", 1)
	}
	ev.R().Count("entries_applied", o.applied)
	return out, ap.trace
}

// A failing loop case costs 0.3-1 s per execution (6-9 s with a slow apply),
// and the library's shrinker re-executes candidates by the hundred, well past
// its time limit. Three measures keep a FAILING run short without changing any
// verdict: the outcome of a loop case is remembered by case hash (same input,
// same verdict - also for the library's final re-run of the minimal case);
// after the first failure only two further distinct slow-apply candidates are
// executed, later ones lose their slow-apply fault (the case value says so);
// and after 30 further loop executions the remaining candidates are not
// executed at all (reported as passing, class loop_not_executed_while_shrinking).
// None of this can happen before a violation has been recorded in the process.
type loopResult struct {
	out   outcome
	trace []string
}

var (
	loopSeen         = map[uint64]loopResult{}
	loopFailed       bool
	loopRunsAfterBad int
	slowRunsAfterBad int
)

func runLoopCaseBounded(c *Case) (outcome, []string) {
	h := ev.Hash(c)
	if r, ok := loopSeen[h]; ok {
		ev.R().Count("loop_verdict_reused", 1)
		return r.out, r.trace
	}
	if loopFailed {
		if loopRunsAfterBad >= 30 {
			ev.R().Count("loop_not_executed_while_shrinking", 1)
			return outcome{classes: []string{"variant_loop", "loop_not_executed_while_shrinking"}}, nil
		}
		loopRunsAfterBad++
		if c.Loop != nil && c.Loop.Slow != nil {
			if slowRunsAfterBad >= 2 {
				ev.R().Count("loop_slow_apply_dropped_while_shrinking", 1)
				c.Loop.Slow = nil
			} else {
				slowRunsAfterBad++
			}
		}
	}
	out, trace := runLoopCase(c)
	if out.viol != nil {
		loopFailed = true
	}
	if len(loopSeen) < 5000 {
		loopSeen[h] = loopResult{out, trace}
	}
	return out, trace
}

// C13 — a replica applies the primary's log in order, exactly once.
// Generated delivery schedules against the real replica applier path
// (DESIGN.md 5/C13): a primary history produced by a real engine and its log,
// messages produced by the real primary code (pushes recorded from the log
// observer, polls/resends/initial entries through getWALEntriesFromSequence),
// delivered split, duplicated, overlapping, reordered, dropped, compressed, with
// resets and NACK-driven resends to a real replication.Replica whose applier is
// a recording model (or the real EngineApplier on a read-only engine).
package c13

import (
	"bytes"
	"encoding/json"
	"fmt"
	"io"
	"os"
	"testing"

	"github.com/KevoDB/kevo/pkg/common/log"
	"github.com/KevoDB/kevo/pkg/replication"
	"github.com/KevoDB/kevo/pkg/wal"
	pb "github.com/KevoDB/kevo/proto/kevo/replication"
	"pgregory.net/rapid"

	"verif/internal/drive"
	"verif/internal/ev"
	"verif/internal/gen"
)

const rule = "case = (primary history of 3-170 steps over put/del/tx/batch/flush run on a real engine with a real Primary on its log, " +
	"delivery schedule of up to 60 stream messages built from what that primary pushes and what it answers to poll/resend/reconnect requests, " +
	"each message optionally cut short, with an inner entry removed, or disturbed inside with first entry, last entry and length kept (an inner entry replaced by a copy of its neighbour, two inner entries or only their sequence numbers swapped), really compressed (zstd/snappy) or carrying the primary's own label, " +
	"handed to a real Replica through the streaming path or the waiting-for-data path; NACKs are answered by a resend from the requested position, " +
	"connection resets restart from the replica's expected position); oracle = after every applied entry the replica's data equals a prefix state " +
	"S_p of the program's model with p never decreasing, every applied entry is an effect of the primary operation carrying its sequence number, " +
	"operations are applied in order without skips or out-of-order repeats, GetLastAppliedSequence never decreases and never exceeds what was applied; " +
	"serialize/compress/decompress/deserialize is the identity; a minority of cases (class loop) runs the REAL replica state machine (Start, ticks, error state, " +
	"backoff, handleErrorState, reconnect) catching up with a history of 3-10 steps served in messages of generated sizes while its applier refuses generated " +
	"entries 1-3 times (transient apply failures at the first, a middle or the last entry of a message) or (one or two cases per process) the first Apply of a " +
	"generated entry stalls for 5.5-8 s before it is carried out, the case then ending only after every stalled call has returned plus a grace period; same oracle; non-trivial = the schedule delivered at " +
	"least one stale (duplicate/overlapping) message AND at least one message ahead of the replica's position (drop/reorder) or with an inner hole, or (loop class) " +
	"an apply failure hit after at least one entry of the same message had been applied, or a stalled apply followed by later entries; distinct by FNV-64 of the case JSON"

func TestMain(m *testing.M) {
	ev.Silence()
	// the replication package logs every entry through pkg/common/log, whose
	// default logger captured the real stdout at init time
	log.SetDefaultLogger(log.NewStandardLogger(log.WithOutput(io.Discard), log.WithLevel(log.LevelFatal)))
	rec := ev.Init("C13", rule)
	code := m.Run()
	rec.Flush(true)
	os.Exit(code)
}

// ExEntry is one hand-shaped entry for the encoding round trip.
type ExEntry struct {
	Type   int    `json:"type"`
	KeyLen int    `json:"key_len"`
	ValLen int    `json:"val_len"`
	ValNil bool   `json:"val_nil,omitempty"`
	Seq    uint64 `json:"seq"`
	Enc    string `json:"enc,omitempty"`
	Fill   byte   `json:"fill"`
}

// Case is one generated case (a value; also the replay document's body).
type Case struct {
	Prog      drive.Program `json:"program"`
	Prim      PrimCfg       `json:"primary"`
	Repl      ReplCfg       `json:"replica"`
	Variant   string        `json:"variant"` // model | engine | loop
	RepEngCfg drive.Cfg     `json:"replica_engine_cfg"`
	Msgs      []Msg         `json:"schedule"`
	Exotic    []ExEntry     `json:"roundtrip_entries,omitempty"`
	Loop      *LoopSpec     `json:"loop,omitempty"` // variant loop: the real replica state machine with transient apply failures
}

// Doc is the replay document.
type Doc struct {
	Property  string     `json:"property"`
	Case      Case       `json:"case"`
	Violation *violation `json:"violation,omitempty"`
	Trace     []string   `json:"trace,omitempty"` // loop class: what the replica asked for, was sent and applied
}

// ---------------------------------------------------------------- generators

func genProgram(t *rapid.T, variant string) drive.Program {
	// the memtable configuration matters little for the log; small tables (with
	// their background flushes and log rotations) stay in as a minority
	cfg := gen.Config(t)
	if rapid.IntRange(0, 3).Draw(t, "bigmem") != 0 {
		cfg.MemTableSize = 32 << 20
	}
	p := drive.Program{Cfg: cfg, Keys: gen.Keys(t, 3, 10)}
	size := rapid.SampledFrom([]string{"s", "s", "s", "s", "s", "s", "m", "m", "l"}).Draw(t, "hsize")
	var n int
	switch {
	case variant == "loop":
		n = rapid.IntRange(3, 10).Draw(t, "nsteps")
	case size == "s":
		n = rapid.IntRange(1, 25).Draw(t, "nsteps")
	case size == "m" || variant == "engine":
		n = rapid.IntRange(26, 60).Draw(t, "nsteps")
	default:
		n = rapid.IntRange(101, 170).Draw(t, "nsteps")
	}
	vo := gen.ValOpts{Big: rapid.IntRange(0, 11).Draw(t, "bigvals") == 0 && n <= 25}
	ops := []string{"put", "put", "put", "put", "put", "put", "put", "put", "put", "put", "del", "del", "del", "del",
		"tx", "tx", "tx", "batch", "batch", "flush"}
	nk := len(p.Keys)
	tag := uint32(1)
	for i := 0; i < n; i++ {
		op := rapid.SampledFrom(ops).Draw(t, "op")
		if i == 0 {
			op = "put"
		}
		if (op == "tx" || op == "batch") && !ev.Flag("primary_tx") {
			ev.R().Exclude("primary_tx")
			op = "put"
		}
		if op == "flush" && !ev.Flag("primary_flush") {
			ev.R().Exclude("primary_flush")
			op = "del"
		}
		switch op {
		case "put":
			p.Steps = append(p.Steps, drive.Step{Op: "put", K: rapid.IntRange(0, nk-1).Draw(t, "k"), V: gen.Value(t, tag, vo)})
			tag++
		case "del":
			p.Steps = append(p.Steps, drive.Step{Op: "del", K: rapid.IntRange(0, nk-1).Draw(t, "k")})
		case "tx", "batch":
			m := rapid.IntRange(1, 5).Draw(t, "ntx")
			var body []drive.TxOp
			used := map[int]bool{}
			for j := 0; j < m; j++ {
				k := rapid.IntRange(0, nk-1).Draw(t, "k")
				if op == "batch" && used[k] {
					continue
				}
				used[k] = true
				if rapid.IntRange(0, 3).Draw(t, "txdel") == 0 {
					body = append(body, drive.TxOp{Op: "del", K: k})
				} else {
					body = append(body, drive.TxOp{Op: "put", K: k, V: gen.Value(t, tag, gen.ValOpts{})})
					tag++
				}
			}
			p.Steps = append(p.Steps, drive.Step{Op: op, Tx: body, Commit: true})
		default:
			p.Steps = append(p.Steps, drive.Step{Op: "flush"})
		}
	}
	return p
}

func genExotic(t *rapid.T) []ExEntry {
	n := rapid.IntRange(2, 6).Draw(t, "nexotic")
	out := make([]ExEntry, 0, n)
	for i := 0; i < n; i++ {
		e := ExEntry{
			Type:   rapid.SampledFrom([]int{wal.OpTypePut, wal.OpTypePut, wal.OpTypeDelete, wal.OpTypeMerge}).Draw(t, "xtype"),
			KeyLen: rapid.SampledFrom([]int{0, 1, 2, 3, 7, 64, 300, 4096, 70000}).Draw(t, "xklen"),
			ValLen: rapid.SampledFrom([]int{0, 0, 1, 2, 5, 64, 1000, 32751, 70000}).Draw(t, "xvlen"),
			Seq:    rapid.SampledFrom([]uint64{0, 1, 2, 255, 256, 65536, 1<<32 - 1, 1 << 32, 1<<56 + 3, 1<<63 - 1, 1 << 63, ^uint64(0)}).Draw(t, "xseq"),
			Enc:    rapid.SampledFrom([]string{"", "zstd", "snappy"}).Draw(t, "xenc"),
			Fill:   byte(rapid.IntRange(0, 255).Draw(t, "xfill")),
		}
		if e.ValLen == 0 {
			e.ValNil = rapid.Bool().Draw(t, "xnil")
		}
		out = append(out, e)
	}
	return out
}

// genState is what the schedule generator may look at. The primary history is
// revealed gradually: `front` is the number of write operations that "have
// happened so far"; polls are cut at that frontier and an operation's pushes
// are emitted when the frontier passes it - the way a live primary behaves.
type genState struct {
	cur         uint64 // replica's expected next sequence
	front       int    // write operations visible so far
	pendingNack uint64
	afterReset  bool
	queue       []Msg // messages in flight (pushes of the latest writes, delayed messages)
	sent        []Msg
	caughtUpFor int
	long        bool
}

func decorate(t *rapid.T, m *Msg, avail int) {
	if avail > 1 && rapid.IntRange(0, 9).Draw(t, "cut") < 4 {
		m.Len = rapid.IntRange(1, avail-1).Draw(t, "len")
		avail = m.Len
	}
	if avail >= 3 && rapid.IntRange(0, 11).Draw(t, "hole") == 0 {
		if ev.Flag("noncontig_msg") {
			m.Drop = []int{rapid.IntRange(1, avail-2).Draw(t, "holepos")}
		} else {
			ev.R().Exclude("noncontig_msg")
		}
	}
	// same span, disturbed inside (takes the place of a hole)
	if avail >= 3 && len(m.Drop) == 0 && rapid.IntRange(0, 9).Draw(t, "innerfault") == 0 {
		if ev.Flag("noncontig_msg") {
			kind := rapid.SampledFrom([]string{"dup", "dup", "swap", "swap", "seqswap"}).Draw(t, "innerkind")
			i := rapid.IntRange(1, avail-2).Draw(t, "inner_i")
			f := &InnerFault{Kind: kind, I: i}
			if kind == "dup" || avail < 4 {
				f.Kind = "dup"
				f.J = i + rapid.SampledFrom([]int{-1, 1}).Draw(t, "inner_nb")
			} else {
				f.J = rapid.IntRange(1, avail-3).Draw(t, "inner_j")
				if f.J >= i {
					f.J++
				}
			}
			m.Inner = f
		} else {
			ev.R().Exclude("noncontig_msg")
		}
	}
	encs := []string{"", "", "", "zstd", "snappy"}
	if m.Src == "push" {
		encs = []string{"", "", "", "", "", "", "zstd", "snappy"}
	}
	m.Enc = rapid.SampledFrom(encs).Draw(t, "enc")
	m.Ack = rapid.IntRange(0, 9).Draw(t, "waitingpath") == 0
	if avail >= 1 && rapid.IntRange(0, 15).Draw(t, "applyerr") == 0 {
		if ev.Flag("apply_error") {
			m.FailAt = rapid.IntRange(1, min(avail, 4)).Draw(t, "failat")
		} else {
			ev.R().Exclude("apply_error")
		}
	}
}

// pollMsg builds a poll-style message (initial entries, timer poll, resend)
// from position `from`, cut at the frontier. ok=false: nothing to send.
func pollMsg(t *rapid.T, st *genState, h *history, from uint64, why string) (Msg, bool) {
	if from < 1 {
		from = 1
	}
	ents, err := h.poll(from)
	if err != nil || len(ents) == 0 {
		return Msg{}, false
	}
	lim := h.tr.seqOf[st.front]
	n := 0
	for _, e := range ents {
		if e.SequenceNumber > lim {
			break
		}
		n++
	}
	if n == 0 {
		return Msg{}, false
	}
	m := Msg{Src: "poll", From: from, Why: why}
	if n < len(ents) {
		m.Len = n
	}
	full := m.Len
	decorate(t, &m, n)
	if m.Len == 0 {
		m.Len = full
	}
	return m, true
}

// nextMsg draws the next message of the schedule; nil = the schedule ends.
func nextMsg(t *rapid.T, st *genState, h *history) *Msg {
	for tries := 0; tries < 50; tries++ {
		if len(st.queue) > 0 && rapid.IntRange(0, 5).Draw(t, "takeq") != 0 {
			m := st.queue[0]
			st.queue = st.queue[1:]
			return &m
		}
		if st.afterReset {
			st.afterReset = false
			// reconnect: StreamWAL's initial entries from the replica's expected position
			if m, ok := pollMsg(t, st, h, st.cur, "reconnect"); ok {
				return &m
			}
		}
		if st.pendingNack > 0 {
			switch d := rapid.IntRange(0, 9).Draw(t, "nackfate"); {
			case d < 7:
				from := st.pendingNack
				st.pendingNack = 0
				if m, ok := pollMsg(t, st, h, from, "resend"); ok {
					return &m
				}
			case d == 7:
				st.pendingNack = 0 // the resend is lost
			}
		}
		done := st.front >= h.nWrite
		caught := st.front > 0 && st.cur > h.tr.seqOf[st.front]
		if done && caught && len(st.queue) == 0 {
			st.caughtUpFor++
			if st.caughtUpFor > 1 && rapid.IntRange(0, 2).Draw(t, "end") == 0 {
				return nil
			}
		}
		var kinds []string
		switch {
		case st.front == 0:
			kinds = []string{"write"}
		case done:
			kinds = []string{"poll", "poll", "poll", "stale", "stale", "dup", "dup", "reset", "ahead"}
		default:
			kinds = []string{"write", "write", "write", "write", "write", "write", "write", "burst",
				"poll", "poll", "poll", "stale", "stale", "ahead", "dup", "dup", "reset"}
		}
		switch rapid.SampledFrom(kinds).Draw(t, "kind") {
		case "write", "burst":
			n := 1
			if rapid.IntRange(0, 4).Draw(t, "burst") == 0 {
				hi := 6
				if st.long {
					hi = 130
				}
				n = rapid.IntRange(2, hi).Draw(t, "nburst")
			}
			for i := 0; i < n && st.front < h.nWrite; i++ {
				st.front++
				// the log observer pushes the operation to the connected replica
				for part := range h.pushes[st.front] {
					if rapid.IntRange(0, 7).Draw(t, "pushlost") == 0 {
						continue
					}
					pm := Msg{Src: "push", Op: st.front, Part: part, Why: "push"}
					decorate(t, &pm, len(h.pushes[st.front][part].Entries))
					st.queue = append(st.queue, pm)
				}
			}
			if k := len(st.queue); k >= 2 && rapid.IntRange(0, 5).Draw(t, "swap") == 0 {
				st.queue[k-1], st.queue[k-2] = st.queue[k-2], st.queue[k-1] // overtaking
			}
		case "poll":
			if m, ok := pollMsg(t, st, h, st.cur, "progress"); ok {
				return &m
			}
		case "stale":
			d := uint64(rapid.IntRange(1, 4).Draw(t, "back"))
			from := uint64(1)
			if st.cur > d {
				from = st.cur - d
			}
			if m, ok := pollMsg(t, st, h, from, "stale"); ok {
				if rapid.IntRange(0, 3).Draw(t, "delay") == 0 {
					st.queue = append(st.queue, m)
					continue
				}
				return &m
			}
		case "ahead":
			if m, ok := pollMsg(t, st, h, st.cur+uint64(rapid.IntRange(1, 5).Draw(t, "fwd")), "ahead"); ok {
				return &m
			}
		case "dup":
			if len(st.sent) == 0 {
				continue
			}
			back := rapid.IntRange(1, min(4, len(st.sent))).Draw(t, "dupback")
			m := st.sent[len(st.sent)-back]
			m.Why = "dup"
			m.FailAt = 0
			return &m
		case "reset":
			st.afterReset = true
			st.pendingNack = 0
			st.queue = nil // messages in flight die with the connection
			return &Msg{Src: "reset"}
		}
	}
	return nil
}

// ------------------------------------------------------------ codec round trip

func (x ExEntry) entry() *wal.Entry {
	e := &wal.Entry{Type: uint8(x.Type), SequenceNumber: x.Seq}
	e.Key = make([]byte, x.KeyLen)
	for i := range e.Key {
		e.Key[i] = x.Fill + byte(i*7)
	}
	if !x.ValNil {
		e.Value = make([]byte, x.ValLen)
		for i := range e.Value {
			e.Value[i] = x.Fill ^ byte(i*13+1)
		}
	}
	return e
}

func roundTrip(cm *replication.CompressionManager, e *wal.Entry, enc string) *violation {
	fail := func(kind, msg string) *violation {
		return &violation{Kind: "codec:" + kind, Ctx: fmt.Sprintf("type%d/%s", e.Type, map[string]string{"": "plain", "zstd": "zstd", "snappy": "snappy"}[enc]), At: -1,
			Msg: fmt.Sprintf("entry type=%d seq=%d keylen=%d vallen=%d: %s", e.Type, e.SequenceNumber, len(e.Key), len(e.Value), msg)}
	}
	pe, err := replication.WALEntryToProto(e, pb.FragmentType_FULL)
	if err != nil {
		return fail("serialize-error", err.Error())
	}
	if pe.SequenceNumber != e.SequenceNumber {
		return fail("envelope-sequence", fmt.Sprintf("proto entry carries sequence %d", pe.SequenceNumber))
	}
	payload := pe.Payload
	if enc != "" {
		c, err := cm.Compress(payload, codecOf(enc))
		if err != nil {
			return fail("compress-error", err.Error())
		}
		d, err := cm.Decompress(c, codecOf(enc))
		if err != nil {
			return fail("decompress-error", err.Error())
		}
		if !bytes.Equal(d, payload) {
			return fail("compression-not-lossless", fmt.Sprintf("%d bytes in, %d bytes out", len(payload), len(d)))
		}
		payload = d
	}
	back, err := replication.DeserializeWALEntry(payload)
	if err != nil {
		return fail("deserialize-error", err.Error())
	}
	wantVal := e.Value
	if e.Type == wal.OpTypeDelete {
		wantVal = nil // a deletion carries no value
	}
	if back.Type != e.Type || back.SequenceNumber != e.SequenceNumber || !bytes.Equal(back.Key, e.Key) || !bytes.Equal(back.Value, wantVal) {
		return fail("roundtrip-differs", fmt.Sprintf("got type=%d seq=%d keylen=%d vallen=%d", back.Type, back.SequenceNumber, len(back.Key), len(back.Value)))
	}
	return nil
}

// ------------------------------------------------------------------ execution

type outcome struct {
	viol      *violation
	abandoned string
	classes   []string
	nontriv   bool
}

// runCase executes a case. next == nil replays c.Msgs; otherwise next draws
// the schedule adaptively and the realised messages are appended to c.Msgs.
func runCase(c *Case, next func(st *genState, h *history) *Msg) (out outcome) {
	h, err := buildHistory(&c.Prog, c.Prim, c.Repl)
	if err != nil {
		out.abandoned = err.Error()
		return
	}
	defer h.close()
	if h.nWrite == 0 {
		out.abandoned = "history without a write"
		return
	}
	r, err := newRunner(h, c)
	if err != nil {
		out.abandoned = err.Error()
		return
	}
	defer r.close()

	// encoding round trip on hand-shaped entries and on the history's own entries
	for _, x := range c.Exotic {
		if v := roundTrip(r.comp, x.entry(), x.Enc); v != nil {
			out.viol = v
			return
		}
		ev.R().Count("roundtrip_entries", 1)
	}
	if ents, err := h.poll(1); err == nil {
		for i, e := range ents {
			if i >= 40 {
				break
			}
			if v := roundTrip(r.comp, e, []string{"", "zstd", "snappy"}[i%3]); v != nil {
				out.viol = v
				return
			}
			ev.R().Count("roundtrip_entries", 1)
		}
	}

	st := &genState{long: h.nWrite > 100}
	maxMsgs := 60
	replay := next == nil
	caughtUp := false
	for i := 0; ; i++ {
		st.cur = r.rep.VerifExpectedNext()
		var m *Msg
		if replay {
			if i >= len(c.Msgs) {
				break
			}
			m = &c.Msgs[i]
		} else {
			if i >= maxMsgs {
				break
			}
			m = next(st, h)
			if m == nil {
				break
			}
			c.Msgs = append(c.Msgs, *m)
			if m.Src != "reset" {
				st.sent = append(st.sent, *m)
			}
		}
		nack, v, err := r.deliver(i, m)
		if err != nil {
			out.abandoned = err.Error()
			return
		}
		if v != nil {
			out.viol = v
			break
		}
		if nack > 0 {
			st.pendingNack = nack
			if m.Why == "resend" || m.Why == "reconnect" || m.Why == "progress" {
				ev.R().Count("nack_after_answering_request", 1)
			}
		}
		if m.Why == "resend" {
			r.sawNackAnswered = true
		}
		if r.rep.VerifExpectedNext() > h.tr.maxSeq {
			caughtUp = true
		}
	}
	// classification
	cl := []string{"variant_" + c.Variant}
	add := func(b bool, s string) {
		if b {
			cl = append(cl, s)
		}
	}
	add(r.sawDup, "stale_message")
	add(r.sawGap, "message_ahead")
	add(r.sawHole, "inner_hole")
	add(r.sawInner["dup"], "inner_fault_same_span(dup+drop)")
	add(r.sawInner["swap"], "inner_fault_same_span(swap)")
	add(r.sawInner["seqswap"], "inner_fault_same_span(seqswap)")
	add(len(r.sawInner) > 0, "inner_fault_same_span")
	add(r.sawReset, "reset")
	add(r.sawCompressed, "really_compressed")
	add(r.sawMislabel, "primary_label_compressed")
	add(r.sawAck, "waiting_path")
	add(r.sawNackAnswered, "nack_answered_by_resend")
	add(r.sawFail, "apply_error")
	add(r.sawSplitOp, "message_ends_inside_operation")
	add(caughtUp, "caught_up")
	add(h.flushes > 0, "history_with_flush")
	add(h.nWrite > 100, "history_over_100_entries")
	add(len(c.Msgs) >= 10, "msgs>=10")
	hasTx := false
	for p := 1; p < len(h.tr.eff); p++ {
		if len(h.tr.eff[p]) > 1 {
			hasTx = true
		}
	}
	add(hasTx, "history_with_multi_entry_operation")
	npush := 0
	for _, ps := range h.pushes {
		npush += len(ps)
	}
	add(npush > 0, "pushes_recorded")
	out.nontriv = r.sawDup && (r.sawGap || r.sawHole)
	add(out.nontriv, "nontrivial")
	out.classes = cl
	ev.R().Count("messages", r.nMsgs)
	ev.R().Count("messages_refused_or_failed", r.nErrs)
	ev.R().Count("entries_applied", r.o.applied)
	ev.R().Count("nacks", len(r.cl.nacks))
	return
}

func TestProp(t *testing.T) {
	rapid.Check(t, func(t *rapid.T) {
		var c Case
		// about 1 case in 50 is a loop case (0.3-1 s of state-machine ticks each); it sits
		// in the middle of the list because the library favours the ends of a range
		variants := make([]string, 0, 60)
		for i := 0; i < 59; i++ {
			switch {
			case i == 29:
				variants = append(variants, "loop")
			case i%5 == 4:
				variants = append(variants, "engine")
			default:
				variants = append(variants, "model")
			}
		}
		c.Variant = rapid.SampledFrom(variants).Draw(t, "variant")
		c.Prog = genProgram(t, c.Variant)
		c.Prim = PrimCfg{Codec: rapid.SampledFrom([]int{0, 0, 1, 1, 2}).Draw(t, "pcodec"), RespectTx: rapid.Bool().Draw(t, "respecttx")}
		c.Repl = ReplCfg{CompressionSupported: rapid.IntRange(0, 3).Draw(t, "rcomp") != 0, PreferredCodec: rapid.SampledFrom([]int{0, 1, 1, 2}).Draw(t, "rcodec")}
		if c.Variant == "engine" {
			c.RepEngCfg = gen.Config(t)
		}
		var out outcome
		var trace []string
		if c.Variant == "loop" {
			c.Loop = genLoop(t, &c.Prog)
			out, trace = runLoopCaseBounded(&c)
		} else {
			c.Exotic = genExotic(t)
			out = runCase(&c, func(st *genState, h *history) *Msg { return nextMsg(t, st, h) })
		}
		if out.abandoned != "" {
			ev.R().Count("abandoned_cases", 1)
			ev.R().Note("abandoned: " + out.abandoned)
		}
		ev.R().Case(ev.Hash(&c), out.nontriv, out.classes, func() any { return &c })
		if out.viol != nil {
			path := ev.R().Fail(out.viol.Signature(), out.viol.Error(), Doc{Property: "C13", Case: c, Violation: out.viol, Trace: trace})
			t.Fatalf("C13 violated: %v (replay %s)", out.viol, path)
		}
	})
}

// TestReplay re-runs a saved case without the library.
func TestReplay(t *testing.T) {
	f := os.Getenv("VERIF_REPLAY")
	if f == "" {
		t.Skip("no VERIF_REPLAY")
	}
	b, err := os.ReadFile(f)
	if err != nil {
		t.Fatal(err)
	}
	var d Doc
	if err := json.Unmarshal(b, &d); err != nil {
		t.Fatal(err)
	}
	var out outcome
	if d.Case.Variant == "loop" {
		// the real state machine runs on its own clock: repeat a passing execution
		tries := 3
		if d.Case.Loop != nil && d.Case.Loop.Slow != nil {
			tries = 1 // 6-9 s each, and nothing in it depends on the schedule
		}
		for try := 0; try < tries; try++ {
			out, _ = runLoopCase(&d.Case)
			if out.viol != nil || out.abandoned != "" {
				break
			}
		}
	} else {
		out = runCase(&d.Case, nil)
	}
	if out.abandoned != "" {
		t.Fatalf("replay could not run: %s", out.abandoned)
	}
	if out.viol != nil {
		ev.WriteReplayResult(ev.ReplayResult{File: f, Outcome: "fail", Signature: out.viol.Signature(), Message: out.viol.Error()})
		t.Logf("replay fails: %v", out.viol)
		return
	}
	ev.WriteReplayResult(ev.ReplayResult{File: f, Outcome: "pass"})
}

package c13

import (
	"context"
	"fmt"
	"os"
	"runtime"
	"sync"
	"time"

	"github.com/KevoDB/kevo/pkg/replication"
	"github.com/KevoDB/kevo/pkg/wal"
	rp "github.com/KevoDB/kevo/proto/kevo/replication"
	"google.golang.org/grpc/metadata"
	"google.golang.org/protobuf/proto"

	"verif/internal/drive"
	"verif/internal/ev"
)

// PrimCfg is the part of replication.PrimaryConfig a case varies.
type PrimCfg struct {
	Codec     int  `json:"codec"` // 0 none, 1 zstd, 2 snappy (PrimaryConfig.CompressionCodec)
	RespectTx bool `json:"respect_tx"`
}

// ReplCfg is the part of replication.ReplicaConfig a case varies (it decides
// which codecs the primary believes the session supports).
type ReplCfg struct {
	CompressionSupported bool `json:"compression_supported"`
	PreferredCodec       int  `json:"preferred_codec"`
}

// fakeStream is the server side of StreamWAL: it records what the primary
// sends. Only messages sent from the goroutine that executes the primary's
// writes are kept (those are the pushes made by the log observer inside the
// write call); the 100 ms poll timer of StreamWAL sends from its own goroutine
// and depends on the wall clock, so its messages are not recorded here - polls
// are produced on demand through Primary.VerifEntriesFrom.
type fakeStream struct {
	ctx     context.Context
	mu      sync.Mutex
	writer  uint64 // goroutine id of the writer
	curOp   int
	pushes  map[int][]*rp.WALStreamResponse
	ignored int
}

func goid() uint64 {
	var buf [64]byte
	n := runtime.Stack(buf[:], false)
	// "goroutine 123 ["
	var id uint64
	for _, c := range buf[len("goroutine "):n] {
		if c < '0' || c > '9' {
			break
		}
		id = id*10 + uint64(c-'0')
	}
	return id
}

func (s *fakeStream) Send(m *rp.WALStreamResponse) error {
	g := goid()
	s.mu.Lock()
	defer s.mu.Unlock()
	if g != s.writer || s.curOp == 0 {
		s.ignored++
		return nil
	}
	s.pushes[s.curOp] = append(s.pushes[s.curOp], proto.Clone(m).(*rp.WALStreamResponse))
	return nil
}
func (s *fakeStream) SetHeader(metadata.MD) error  { return nil }
func (s *fakeStream) SendHeader(metadata.MD) error { return nil }
func (s *fakeStream) SetTrailer(metadata.MD)       {}
func (s *fakeStream) Context() context.Context     { return s.ctx }
func (s *fakeStream) SendMsg(any) error            { return nil }
func (s *fakeStream) RecvMsg(any) error            { return fmt.Errorf("not a receiving stream") }

// history is a primary with its write history executed.
type history struct {
	dir       string
	run       *drive.Runner
	tr        *truth
	pushes    map[int][]*rp.WALStreamResponse // write operation index -> what the primary pushed while it ran
	server    *replication.Primary            // serves polls / resends / initial entries
	nWrite    int
	pc        PrimCfg
	flushes   int
	stoppedAt int // step at which a write reported an error (-1 = none)
}

func (h *history) close() {
	if h.server != nil {
		_ = h.server.Close()
	}
	if h.run != nil {
		h.run.Close()
	}
	if h.dir != "" {
		_ = os.RemoveAll(h.dir)
	}
}

func primaryConfig(pc PrimCfg) *replication.PrimaryConfig {
	c := replication.DefaultPrimaryConfig()
	c.CompressionCodec = rp.CompressionCodec(pc.Codec)
	c.EnableCompression = pc.Codec != 0
	c.RespectTxBoundaries = pc.RespectTx
	return c
}

// buildHistory runs the program on a real engine with a real Primary attached
// to its log and one registered replica session.
func buildHistory(p *drive.Program, pc PrimCfg, rc ReplCfg) (*history, error) {
	dir, err := os.MkdirTemp("", "c13p-")
	if err != nil {
		return nil, err
	}
	h := &history{dir: dir, stoppedAt: -1, pc: pc}
	r, mm := drive.NewRunner(dir, p)
	if mm != nil {
		h.close()
		return nil, fmt.Errorf("open primary engine: %v", mm)
	}
	h.run = r
	w := r.Eng.GetWAL()
	if w == nil {
		h.close()
		return nil, fmt.Errorf("primary engine has no log")
	}
	pusher, err := replication.NewPrimary(w, primaryConfig(pc))
	if err != nil {
		h.close()
		return nil, err
	}
	ctx, cancel := context.WithCancel(context.Background())
	fs := &fakeStream{ctx: ctx, writer: goid(), pushes: map[int][]*rp.WALStreamResponse{}}
	done := make(chan struct{})
	go func() {
		defer close(done)
		_ = pusher.StreamWAL(&rp.WALStreamRequest{
			StartSequence:        0,
			ProtocolVersion:      1,
			CompressionSupported: rc.CompressionSupported,
			PreferredCodec:       rp.CompressionCodec(rc.PreferredCodec),
			ListenerAddress:      "replica:0",
		}, fs)
	}()
	for i := 0; pusher.VerifSessionCount() == 0; i++ {
		if i > 200000 {
			cancel()
			h.close()
			return nil, fmt.Errorf("replica session never registered")
		}
		time.Sleep(20 * time.Microsecond)
	}

	tr := &truth{states: []drive.Model{{}}, eff: []map[string]effect{nil}, seqOf: []uint64{0}, opOf: map[uint64]int{}}
	seqBefore := r.Eng.GetWAL().GetNextSequence() - 1
	for i, s := range p.Steps {
		if s.IsWrite() {
			fs.mu.Lock()
			fs.curOp = len(tr.states)
			fs.mu.Unlock()
		}
		mmm, err := r.Do(i)
		fs.mu.Lock()
		fs.curOp = 0
		fs.mu.Unlock()
		if mmm != nil {
			cancel()
			<-done
			_ = pusher.Close()
			h.close()
			return nil, fmt.Errorf("primary step %d: %v", i, mmm)
		}
		if err != nil { // a write reported an error: the history ends before it
			h.stoppedAt = i
			break
		}
		if s.Op == "flush" {
			h.flushes++
		}
		if s.IsWrite() {
			seqAfter := r.Eng.GetWAL().GetNextSequence() - 1
			pidx := len(tr.states)
			tr.states = append(tr.states, r.Model.Clone())
			tr.eff = append(tr.eff, effectsOf(p, s))
			if seqAfter == seqBefore+1 {
				tr.seqOf = append(tr.seqOf, seqAfter)
				tr.opOf[seqAfter] = pidx
				tr.maxSeq = seqAfter
			} else {
				cancel()
				<-done
				_ = pusher.Close()
				h.close()
				return nil, fmt.Errorf("harness assumption broken: write operation %d moved the primary's sequence from %d to %d", pidx, seqBefore, seqAfter)
			}
			seqBefore = seqAfter
		}
	}
	cancel()
	<-done
	_ = pusher.Close()
	h.tr = tr
	h.pushes = fs.pushes
	h.nWrite = len(tr.states) - 1
	// the serving primary is created on the engine's current log object (after a
	// rotation the pusher above is still bound to the closed pre-rotation log)
	srv, err := replication.NewPrimary(r.Eng.GetWAL(), primaryConfig(pc))
	if err != nil {
		h.close()
		return nil, err
	}
	h.server = srv
	return h, nil
}

// poll returns what the primary sends to a replica asking from `from`.
// The engine's background flush may rotate the log at any time; a Primary stays
// bound to the log object it was created on and then only reports "WAL is
// closed" (a liveness matter, C14). The harness then does what a restart of
// the primary does: it creates a new Primary on the engine's current log.
func (h *history) poll(from uint64) ([]*wal.Entry, error) {
	ents, err := h.server.VerifEntriesFrom(from)
	if err != nil {
		ev.R().Count("serving_primary_rebound_after_rotation", 1)
		_ = h.server.Close()
		srv, err2 := replication.NewPrimary(h.run.Eng.GetWAL(), primaryConfig(h.pc))
		if err2 != nil {
			return nil, err2
		}
		h.server = srv
		ents, err = h.server.VerifEntriesFrom(from)
	}
	return ents, err
}

// C09 — the write-ahead log replays exactly what was appended, in order.
// Round trip over generated append sequences on pkg/wal (DESIGN.md 5/C09).
//
// A case is a value: sync configuration + a list of steps over
// {append, batch, sync(+replay), rotate, reopen, getfrom, badtype}. Keys and
// values are described by (length, tag, fill) or by literal bytes, never by
// megabytes of JSON. The oracle is the list of entries whose append call
// returned nil, with the sequence number that call returned.
package c09

import (
	"bytes"
	"encoding/binary"
	"encoding/json"
	"errors"
	"fmt"
	"os"
	"path/filepath"
	"sort"
	"strings"
	"syscall"
	"testing"

	"github.com/KevoDB/kevo/pkg/config"
	"github.com/KevoDB/kevo/pkg/wal"
	"pgregory.net/rapid"

	"verif/internal/ev"
)

const rule = "cases = rapid-drawn (sync mode, 1-60 steps over append put/delete/merge, AppendBatch, Sync(+replay), rotate = Close+NewWAL+UpdateNextSequence, " +
	"reopen = Close+ReuseWAL, GetEntriesFrom(s), append with an invalid type); key/value lengths 0..~330 KiB concentrated on the physical-record boundaries; " +
	"oracle = list of entries whose append returned nil with the returned sequence number: ReplayWALDir (after Sync, and after the final Close) must deliver exactly " +
	"that list (type, key, value, sequence) in order, GetEntriesFrom(s) exactly its sub-list with sequence >= s; " +
	"non-trivial = the sequence holds a fragmented entry or a batch AND the log has >= 2 files; distinct by FNV-64 of the case JSON"

func TestMain(m *testing.M) {
	ev.Silence()
	wal.DisableRecoveryLogs = true
	rec := ev.Init("C09", rule)
	code := m.Run()
	rec.Flush(true)
	os.Exit(code)
}

// ---------------------------------------------------------------------------
// case value

// Blob describes a byte string without carrying it (unless Raw is set).
type Blob struct {
	Len  int    `json:"len"`
	Tag  uint32 `json:"tag,omitempty"`
	Fill string `json:"fill,omitempty"` // "" = position/tag mix, "zero", "ff"
	Raw  []byte `json:"raw,omitempty"`  // literal bytes (then Len == len(Raw))
	Nil  bool   `json:"nil,omitempty"`  // pass a nil slice (Len must be 0)
}

// Bytes renders the blob.
func (b Blob) Bytes() []byte {
	if b.Nil {
		return nil
	}
	if b.Raw != nil {
		return append([]byte{}, b.Raw...)
	}
	out := make([]byte, b.Len)
	var hdr [4]byte
	binary.LittleEndian.PutUint32(hdr[:], b.Tag)
	for i := range out {
		switch {
		case i < 4:
			out[i] = hdr[i]
		case b.Fill == "zero":
			out[i] = 0
		case b.Fill == "ff":
			out[i] = 0xff
		default:
			out[i] = byte(uint32(i)*2654435761>>24) ^ hdr[0] ^ hdr[1]
		}
	}
	return out
}

func (b Blob) size() int {
	if b.Raw != nil {
		return len(b.Raw)
	}
	if b.Nil {
		return 0
	}
	return b.Len
}

// Ent is one logical entry handed to Append / AppendBatch.
type Ent struct {
	T uint8 `json:"t"` // 1 put, 2 delete, 3 merge (anything else: invalid, only in badtype steps)
	K Blob  `json:"k"`
	V Blob  `json:"v"` // not used for deletes
}

func (e Ent) payload() int {
	n := 13 + e.K.size()
	if e.T != wal.OpTypeDelete {
		n += 4 + e.V.size()
	}
	return n
}

func (e Ent) fragmented() bool { return e.payload() > wal.MaxRecordSize }

// carve renders key and value as adjacent sub-slices of one buffer, followed by
// 16 spare bytes: len(key) < cap(key), so a callee that appends to the key
// slice writes into the value. nil-ness is preserved.
func carve(e Ent) (k, v []byte) {
	kb := e.K.Bytes()
	var vb []byte
	if e.T != wal.OpTypeDelete {
		vb = e.V.Bytes()
	}
	arena := make([]byte, len(kb)+len(vb)+16)
	copy(arena, kb)
	copy(arena[len(kb):], vb)
	if kb != nil {
		k = arena[:len(kb)]
	}
	if vb != nil {
		v = arena[len(kb) : len(kb)+len(vb)]
	}
	return k, v
}

// Step is one step of a case.
type Step struct {
	Op    string `json:"op"` // append | batch | sync | rotate | reopen | getfrom | badtype
	E     *Ent   `json:"e,omitempty"`
	B     []Ent  `json:"b,omitempty"`
	Check bool   `json:"check,omitempty"` // sync: replay the directory afterwards
	Style int    `json:"style,omitempty"` // reopen: 0 = ReuseWAL(dir, next); 1 = ReuseWAL(dir, 1) + UpdateNextSequence(next) as the storage manager does
	Sel   int    `json:"sel,omitempty"`   // getfrom: -1 => 0, -2 => last+1, -3 => last+1000, else per-mille position in the expected list
}

// Case is one generated case.
type Case struct {
	SyncMode  int    `json:"sync_mode"` // 0 none, 1 batch, 2 immediate
	SyncBytes int64  `json:"sync_bytes"`
	MaxSize   int64  `json:"wal_max_size,omitempty"` // cfg.WALMaxSize (0 = default 64 MiB): files of the case may reach or exceed it
	Steps     []Step `json:"steps"`
}

// Mismatch is an oracle failure.
type Mismatch struct {
	Where string `json:"where"` // replay-final | replay-sync | getfrom | api
	Kind  string `json:"kind"`
	Shape string `json:"shape"`
	Step  int    `json:"step"`
	Index int    `json:"index"`
	Msg   string `json:"msg"`
}

func (m *Mismatch) Signature() string { return m.Where + "/" + m.Kind + "/" + m.Shape }
func (m *Mismatch) Error() string {
	return fmt.Sprintf("%s at step %d, entry #%d: %s", m.Signature(), m.Step, m.Index, m.Msg)
}

// Doc is the replay document.
type Doc struct {
	Property string    `json:"property"`
	Case     Case      `json:"case"`
	Mismatch *Mismatch `json:"mismatch,omitempty"`
}

// ---------------------------------------------------------------------------
// oracle

type exp struct {
	t     uint8
	k, v  []byte
	seq   uint64
	batch bool
	frag  bool
	step  int
}

func (e *exp) shape() string {
	s := "single"
	if e.batch {
		s = "batch"
	}
	if e.frag {
		s += "-frag"
	} else {
		s += "-full"
	}
	switch e.t {
	case wal.OpTypePut:
		s += "-put"
	case wal.OpTypeDelete:
		s += "-del"
	default:
		s += "-merge"
	}
	return s
}

func same(e *exp, got *wal.Entry) bool {
	return e.t == got.Type && e.seq == got.SequenceNumber && bytes.Equal(e.k, got.Key) && bytes.Equal(e.v, got.Value)
}

func brief(b []byte) string {
	if len(b) <= 10 {
		return fmt.Sprintf("%x(len %d)", b, len(b))
	}
	return fmt.Sprintf("%x..(len %d)", b[:10], len(b))
}

func describe(got *wal.Entry) string {
	return fmt.Sprintf("type=%d seq=%d key=%s value=%s", got.Type, got.SequenceNumber, brief(got.Key), brief(got.Value))
}

// comparer checks a delivered stream against want (already filtered).
type comparer struct {
	where  string
	step   int
	want   []*exp
	all    []*exp // the full expected list (to recognise duplicates / reorderings)
	failed []*exp // entries of append calls that returned an error
	i      int
	mm     *Mismatch
}

func (c *comparer) deliver(got *wal.Entry) {
	if c.mm != nil {
		return
	}
	i := c.i
	c.i++
	if i < len(c.want) && same(c.want[i], got) {
		return
	}
	mk := func(kind, shape, msg string) {
		c.mm = &Mismatch{Where: c.where, Kind: kind, Shape: shape, Step: c.step, Index: i, Msg: msg}
	}
	// is it a later expected entry (something was skipped)?
	for j := i + 1; j < len(c.want); j++ {
		if same(c.want[j], got) {
			mk("missing", c.want[i].shape(), fmt.Sprintf("expected entry #%d (step %d, seq %d, key %s) was not delivered; got #%d instead",
				i, c.want[i].step, c.want[i].seq, brief(c.want[i].k), j))
			return
		}
	}
	for _, f := range c.failed {
		if f.t == got.Type && bytes.Equal(f.k, got.Key) && bytes.Equal(f.v, got.Value) {
			mk("leftover-of-failed-append", f.shape(), fmt.Sprintf("delivered %s, which belongs to the append of step %d that returned an error", describe(got), f.step))
			return
		}
	}
	for _, e := range c.all {
		if same(e, got) {
			sh := e.shape()
			if i >= len(c.want) {
				mk("extra-duplicate", sh, "delivered again after the end of the expected list: "+describe(got))
			} else {
				mk("duplicate-or-reordered", sh, fmt.Sprintf("position %d holds %s, expected step %d seq %d", i, describe(got), c.want[i].step, c.want[i].seq))
			}
			return
		}
	}
	if i >= len(c.want) {
		mk("extra-unknown", "none", "delivered an entry that was never appended: "+describe(got))
		return
	}
	w := c.want[i]
	switch {
	case w.t != got.Type:
		mk("type", w.shape(), fmt.Sprintf("want type %d, got %s", w.t, describe(got)))
	case !bytes.Equal(w.k, got.Key):
		mk("key", w.shape(), fmt.Sprintf("want key %s, got %s", brief(w.k), describe(got)))
	case !bytes.Equal(w.v, got.Value):
		mk("value", w.shape(), fmt.Sprintf("want value %s, got %s", brief(w.v), describe(got)))
	default:
		mk("seq", w.shape(), fmt.Sprintf("want seq %d, got %s", w.seq, describe(got)))
	}
}

func (c *comparer) finish() *Mismatch {
	if c.mm != nil {
		return c.mm
	}
	if c.i < len(c.want) {
		w := c.want[c.i]
		return &Mismatch{Where: c.where, Kind: "missing-tail", Shape: w.shape(), Step: c.step, Index: c.i,
			Msg: fmt.Sprintf("delivered %d of %d expected entries; first missing: step %d seq %d key %s", c.i, len(c.want), w.step, w.seq, brief(w.k))}
	}
	return nil
}

// ---------------------------------------------------------------------------
// interpreter

type runner struct {
	cfg    *config.Config
	dir    string
	w      *wal.WAL
	want   []*exp
	failed []*exp
	files  int
	// classification gathered while running
	skippedClock bool
	// first append of a legal entry that reported an error (see refused)
	refusal *Mismatch
}

// refused notes that Append/AppendBatch reported an error for legal entries.
// No I/O fault is injected and the log API documents no size limit (entries
// above one physical record are fragmented), so a refusal means the sequence
// cannot be appended at all; it is reported at the end of the case, after the
// replays had their chance to show what the failed call left behind (which is
// the more specific signature). A full scratch file system is infrastructure.
func (r *runner) refused(step int, x *exp, err error) {
	if errors.Is(err, syscall.ENOSPC) || errors.Is(err, syscall.EDQUOT) {
		panic("scratch space exhausted: " + err.Error())
	}
	if r.refusal == nil {
		r.refusal = &Mismatch{Where: "api", Kind: "append-refused", Shape: x.shape(), Step: step, Index: -1,
			Msg: fmt.Sprintf("append of a legal entry (type %d, key len %d, value len %d) returned: %v", x.t, len(x.k), len(x.v), err)}
	}
}

// listLogs lists the *.wal files of dir in ascending name order (the harness's
// own listing: the code under test is not trusted for it).
func listLogs(dir string) []string {
	des, err := os.ReadDir(dir)
	if err != nil {
		return nil
	}
	var out []string
	for _, de := range des {
		if !de.IsDir() && strings.HasSuffix(de.Name(), ".wal") {
			out = append(out, de.Name())
		}
	}
	sort.Strings(out)
	return out
}

var errClock = errors.New("wall clock did not advance between two log files")

// newWAL creates a fresh log file; the file name is the wall clock in
// nanoseconds, so a name collision (same nanosecond) is retried and a name
// that does not sort last (clock stepped back) abandons the case — neither is
// the log's fault.
func (r *runner) newWAL() (*wal.WAL, error) {
	before := listLogs(r.dir)
	var w *wal.WAL
	var err error
	for try := 0; try < 10000; try++ {
		w, err = wal.NewWAL(r.cfg, r.dir)
		if err == nil || !errors.Is(err, os.ErrExist) {
			break
		}
	}
	if err != nil {
		return nil, err
	}
	after := listLogs(r.dir)
	if len(after) != len(before)+1 {
		return nil, fmt.Errorf("NewWAL: %d files before, %d after", len(before), len(after))
	}
	if len(before) > 0 && after[len(after)-1] == before[len(before)-1] {
		_ = w.Close()
		return nil, errClock
	}
	r.files++
	return w, nil
}

func (r *runner) replay(where string, step int) *Mismatch {
	c := &comparer{where: where, step: step, want: r.want, all: r.want, failed: r.failed}
	_, err := wal.ReplayWALDir(r.dir, func(e *wal.Entry) error { c.deliver(e); return nil })
	if mm := c.finish(); mm != nil {
		if err != nil {
			mm.Msg += " (ReplayWALDir error: " + err.Error() + ")"
		}
		return mm
	}
	if err != nil {
		return &Mismatch{Where: where, Kind: "error", Shape: "none", Step: step, Index: -1, Msg: "ReplayWALDir on an undamaged log: " + err.Error()}
	}
	return nil
}

func (r *runner) getFrom(s uint64, step int) *Mismatch {
	var sub []*exp
	for _, e := range r.want {
		if e.seq >= s {
			sub = append(sub, e)
		}
	}
	got, err := r.w.GetEntriesFrom(s)
	if err != nil {
		return &Mismatch{Where: "getfrom", Kind: "error", Shape: "none", Step: step, Index: -1, Msg: fmt.Sprintf("GetEntriesFrom(%d): %v", s, err)}
	}
	c := &comparer{where: "getfrom", step: step, want: sub, all: r.want, failed: r.failed}
	for _, e := range got {
		c.deliver(e)
	}
	if mm := c.finish(); mm != nil {
		mm.Msg = fmt.Sprintf("GetEntriesFrom(%d): %s", s, mm.Msg)
		return mm
	}
	return nil
}

func (r *runner) selSeq(sel int) uint64 {
	last := uint64(0)
	if n := len(r.want); n > 0 {
		last = r.want[n-1].seq
	}
	switch {
	case sel == -1:
		return 0
	case sel == -2:
		return last + 1
	case sel == -3:
		return last + 1000
	case len(r.want) == 0:
		return 1
	default:
		if sel < 0 {
			sel = 0
		}
		i := sel * len(r.want) / 1001
		return r.want[i].seq
	}
}

func mkExp(e Ent, step int, batch bool) *exp {
	x := &exp{t: e.T, k: e.K.Bytes(), batch: batch, frag: e.fragmented(), step: step}
	if e.T != wal.OpTypeDelete {
		x.v = e.V.Bytes()
	}
	return x
}

// runCase executes one case; nil = the property held.
func runCase(c *Case) (mm *Mismatch) {
	base, err := os.MkdirTemp("", "c09-")
	if err != nil {
		panic(err)
	}
	defer os.RemoveAll(base)
	r := &runner{dir: filepath.Join(base, "wal")}
	r.cfg = config.NewDefaultConfig(base)
	r.cfg.WALSyncMode = config.SyncMode(c.SyncMode)
	if c.SyncBytes > 0 {
		r.cfg.WALSyncBytes = c.SyncBytes
	}
	if c.MaxSize > 0 {
		r.cfg.WALMaxSize = c.MaxSize
	}
	r.w, err = r.newWAL()
	if err != nil {
		panic(err)
	}
	defer func() {
		if r.w != nil {
			_ = r.w.Close()
		}
	}()
	api := func(step int, what string, err error) *Mismatch {
		return &Mismatch{Where: "api", Kind: what, Shape: "none", Step: step, Index: -1, Msg: err.Error()}
	}
	for i, s := range c.Steps {
		switch s.Op {
		case "append", "badtype":
			x := mkExp(*s.E, i, false)
			// the caller's slices are handed over as they are (nil stays nil). Like a
			// real caller that carves key and value out of one request buffer, odd
			// steps pass sub-slices of ONE arena (the key's capacity extends over the
			// value); the expected entry x is a private rendering made before the call.
			var k, v []byte
			if i%2 == 1 {
				k, v = carve(*s.E)
			} else {
				k = s.E.K.Bytes()
				if s.E.T != wal.OpTypeDelete {
					v = s.E.V.Bytes()
				}
			}
			seq, err := r.w.Append(s.E.T, k, v)
			if err != nil {
				// an append that reports an error is not part of the expected list,
				// and must leave nothing behind in any later replay
				if s.Op == "append" {
					r.refused(i, x, err)
				}
				r.failed = append(r.failed, x)
				continue
			}
			x.seq = seq
			r.want = append(r.want, x)
		case "batch":
			ents := make([]*wal.Entry, 0, len(s.B))
			xs := make([]*exp, 0, len(s.B))
			for _, e := range s.B {
				x := mkExp(e, i, true)
				xs = append(xs, x)
				we := &wal.Entry{Type: e.T}
				if i%2 == 1 {
					we.Key, we.Value = carve(e)
				} else {
					we.Key = e.K.Bytes()
					if e.T != wal.OpTypeDelete {
						we.Value = e.V.Bytes()
					}
				}
				ents = append(ents, we)
			}
			seq, err := r.w.AppendBatch(ents)
			if err != nil {
				// "An append that returns an error must leave nothing behind": the
				// entries are remembered so a later replay that shows them is named.
				r.failed = append(r.failed, xs...)
				if len(xs) > 0 {
					r.refused(i, xs[0], err)
				}
				continue
			}
			for _, x := range xs {
				x.seq = seq
			}
			r.want = append(r.want, xs...)
		case "sync":
			if err := r.w.Sync(); err != nil {
				return api(i, "sync-error", err)
			}
			if s.Check {
				if mm := r.replay("replay-sync", i); mm != nil {
					return mm
				}
			}
		case "rotate":
			next := r.w.GetNextSequence()
			if err := r.w.Close(); err != nil {
				return api(i, "close-error", err)
			}
			r.w = nil
			nw, err := r.newWAL()
			if err == errClock {
				r.skippedClock = true
				ev.R().Count("cases_abandoned_clock", 1)
				return nil
			}
			if err != nil {
				return api(i, "newwal-error", err)
			}
			nw.UpdateNextSequence(next)
			r.w = nw
		case "reopen":
			next := r.w.GetNextSequence()
			if err := r.w.Close(); err != nil {
				return api(i, "close-error", err)
			}
			r.w = nil
			var nw *wal.WAL
			if s.Style == 0 {
				nw, err = wal.ReuseWAL(r.cfg, r.dir, next)
			} else {
				nw, err = wal.ReuseWAL(r.cfg, r.dir, 1)
			}
			if err != nil {
				return api(i, "reuse-error", err)
			}
			if nw == nil { // not reusable (too large): the storage manager then creates a new file
				ev.R().Count("reuse_declined", 1)
				nw, err = r.newWAL()
				if err == errClock {
					r.skippedClock = true
					ev.R().Count("cases_abandoned_clock", 1)
					return nil
				}
				if err != nil {
					return api(i, "newwal-error", err)
				}
			}
			nw.UpdateNextSequence(next)
			r.w = nw
		case "getfrom":
			if mm := r.getFrom(r.selSeq(s.Sel), i); mm != nil {
				return mm
			}
		default:
			panic("unknown op " + s.Op)
		}
	}
	n := len(c.Steps)
	// reading from a start sequence, on the live log: 0, 1, middle, last, last+1
	for _, sel := range []int{-1, 0, 500, 1000, -2} {
		if mm := r.getFrom(r.selSeq(sel), n); mm != nil {
			return mm
		}
	}
	if err := r.w.Close(); err != nil {
		return api(n, "close-error", err)
	}
	r.w = nil
	if mm := r.replay("replay-final", n); mm != nil {
		return mm
	}
	if r.refusal != nil {
		return r.refusal
	}
	// the file count is part of the non-trivial rule: make sure it is what classify() assumes
	files := listLogs(r.dir)
	if len(files) != r.files {
		panic(fmt.Sprintf("harness: %d files on disk, %d created", len(files), r.files))
	}
	return nil
}

// ---------------------------------------------------------------------------
// classification

const maxRec = wal.MaxRecordSize

func nearBoundary(e Ent) bool {
	p := e.payload()
	for _, b := range []int{maxRec} {
		if p >= b-2 && p <= b+2 {
			return true
		}
	}
	if p > maxRec {
		first := 13 + minInt(e.K.size(), maxRec-13)
		rem := p - first
		if m := rem % maxRec; m <= 2 || m >= maxRec-2 {
			return true
		}
	}
	return false
}

func minInt(a, b int) int {
	if a < b {
		return a
	}
	return b
}

func classify(c *Case) (nontrivial bool, classes []string) {
	files := 1
	frag, batch, reopen, boundary, longKey, delLong, bigBatch, emptyKey, emptyVal, fragInBatch, getfrom, syncReplay := false, false, false, false, false, false, false, false, false, false, false, false
	look := func(e Ent, inBatch bool) {
		if e.T < 1 || e.T > 3 {
			return
		}
		if e.fragmented() {
			frag = true
			if inBatch {
				fragInBatch = true
			}
		}
		if nearBoundary(e) {
			boundary = true
		}
		if e.K.size() > maxRec-13 {
			longKey = true
			if e.T == wal.OpTypeDelete {
				delLong = true
			}
		}
		if e.K.size() == 0 {
			emptyKey = true
		}
		if e.T != wal.OpTypeDelete && e.V.size() == 0 {
			emptyVal = true
		}
	}
	for _, s := range c.Steps {
		switch s.Op {
		case "append":
			look(*s.E, false)
		case "batch":
			if len(s.B) > 0 {
				batch = true
			}
			tot := 0
			for _, e := range s.B {
				look(e, true)
				tot += 7 + e.payload()
			}
			if tot > 64*1024 {
				bigBatch = true
			}
		case "rotate":
			files++
		case "reopen":
			reopen = true
		case "getfrom":
			getfrom = true
		case "sync":
			if s.Check {
				syncReplay = true
			}
		}
	}
	add := func(b bool, name string) {
		if b {
			classes = append(classes, name)
		}
	}
	add(frag, "has_fragmented_entry")
	add(batch, "has_batch")
	add(files >= 2, "files>=2")
	add(files >= 3, "files>=3")
	add(reopen, "has_reopen")
	add(boundary, "record_boundary_size")
	add(longKey, "key_longer_than_fragment")
	add(delLong, "delete_with_long_key")
	add(bigBatch, "batch_over_64KiB_buffer")
	add(fragInBatch, "fragmented_entry_in_batch")
	add(emptyKey, "empty_key")
	add(emptyVal, "empty_value")
	add(getfrom, "getfrom_midway")
	add(syncReplay, "replay_after_sync")
	add(c.SyncMode == 0, "sync_none")
	add(c.SyncMode == 1, "sync_batch")
	add(c.SyncMode == 2, "sync_immediate")
	nontrivial = (frag || batch) && files >= 2
	return
}

// ---------------------------------------------------------------------------
// generator

func genBlobLen(t *rapid.T, n int, tag *uint32) Blob {
	*tag++
	b := Blob{Len: n, Tag: *tag}
	switch rapid.IntRange(0, 9).Draw(t, "fill") {
	case 0:
		b.Fill = "zero"
	case 1:
		b.Fill = "ff"
	}
	return b
}

// genSmallBlob draws literal bytes (any byte values) half of the time.
func genSmallBlob(t *rapid.T, maxLen int, tag *uint32, allowNil bool) Blob {
	n := rapid.IntRange(0, maxLen).Draw(t, "slen")
	if n == 0 {
		if allowNil && rapid.Bool().Draw(t, "nil") {
			return Blob{Nil: true}
		}
		return Blob{Raw: []byte{}}
	}
	if rapid.Bool().Draw(t, "raw") {
		raw := rapid.SliceOfN(rapid.Byte(), n, n).Draw(t, "rawbytes")
		return Blob{Len: n, Raw: raw}
	}
	return genBlobLen(t, n, tag)
}

var singleShapes = weighted(map[string]int{"small": 38, "medium": 14, "full_edge": 12, "rem_edge": 12, "long_key": 9, "buf": 8, "multi": 5, "two_rec_edge": 2})
var batchShapes = weighted(map[string]int{"small": 56, "medium": 20, "full_edge": 7, "rem_edge": 6, "long_key": 4, "buf": 5, "multi": 2})

func weighted(m map[string]int) []string {
	// fixed order (not map order): names sorted by hand
	order := []string{"small", "medium", "full_edge", "rem_edge", "long_key", "buf", "multi", "two_rec_edge"}
	var out []string
	for _, k := range order {
		for i := 0; i < m[k]; i++ {
			out = append(out, k)
		}
	}
	return out
}

func genEnt(t *rapid.T, tag *uint32, shapes []string) Ent {
	typ := uint8(rapid.SampledFrom([]int{1, 1, 1, 1, 1, 1, 2, 2, 2, 3}).Draw(t, "type"))
	shape := rapid.SampledFrom(shapes).Draw(t, "shape")
	d := rapid.IntRange(-2, 2).Draw(t, "delta")
	del := typ == wal.OpTypeDelete
	e := Ent{T: typ}
	firstKeyMax := maxRec - 13 // bytes of key that fit into the first fragment
	switch shape {
	case "small":
		e.K = genSmallBlob(t, 16, tag, true)
		if !del {
			e.V = genSmallBlob(t, 64, tag, true)
		}
	case "medium":
		e.K = genBlobLen(t, rapid.IntRange(1, 300).Draw(t, "klen"), tag)
		if !del {
			e.V = genBlobLen(t, rapid.IntRange(200, 4000).Draw(t, "vlen"), tag)
		}
	case "full_edge": // payload = MaxRecordSize + d
		if del {
			e.K = genBlobLen(t, maxRec+d-13, tag)
		} else {
			kl := rapid.SampledFrom([]int{0, 1, 7, 100, 4096, maxRec - 17 - 2}).Draw(t, "klen")
			vl := maxRec + d - 17 - kl
			if vl < 0 {
				vl = 0
			}
			e.K = genBlobLen(t, kl, tag)
			e.V = genBlobLen(t, vl, tag)
		}
	case "rem_edge": // bytes after the first fragment = k*MaxRecordSize + d
		k := rapid.IntRange(1, 3).Draw(t, "nrec")
		if del {
			if k == 3 {
				k = 2
			}
			e.K = genBlobLen(t, firstKeyMax+k*maxRec+d, tag)
		} else if rapid.IntRange(0, 3).Draw(t, "keyover") == 0 {
			over := rapid.SampledFrom([]int{1, 5, 1000, maxRec - 6}).Draw(t, "over")
			vl := k*maxRec + d - 4 - over
			if vl < 0 {
				vl = 0
			}
			e.K = genBlobLen(t, firstKeyMax+over, tag)
			e.V = genBlobLen(t, vl, tag)
		} else {
			e.K = genBlobLen(t, rapid.SampledFrom([]int{0, 1, 8, 200}).Draw(t, "klen"), tag)
			e.V = genBlobLen(t, k*maxRec+d-4, tag)
		}
	case "long_key":
		kl := rapid.SampledFrom([]int{firstKeyMax + d, firstKeyMax + 3 + d, 40000, 65536 + d, 2*maxRec + d, 70000}).Draw(t, "klen")
		e.K = genBlobLen(t, kl, tag)
		if !del {
			if rapid.Bool().Draw(t, "smallv") {
				e.V = genSmallBlob(t, 64, tag, true)
			} else {
				e.V = genBlobLen(t, rapid.IntRange(1000, 40000).Draw(t, "vlen"), tag)
			}
		}
	case "buf": // crosses the 64 KiB write buffer
		if del {
			e.K = genBlobLen(t, rapid.IntRange(32*1024, 70*1024).Draw(t, "klen"), tag)
		} else {
			e.K = genSmallBlob(t, 16, tag, false)
			e.V = genBlobLen(t, rapid.IntRange(32*1024, 70*1024).Draw(t, "vlen"), tag)
		}
	case "multi":
		if del {
			e.K = genBlobLen(t, rapid.IntRange(100*1024, 200*1024).Draw(t, "klen"), tag)
		} else {
			e.K = genSmallBlob(t, 16, tag, false)
			e.V = genBlobLen(t, rapid.IntRange(100*1024, 330*1024).Draw(t, "vlen"), tag)
		}
	case "two_rec_edge": // payload = 2*MaxRecordSize + d
		if del {
			e.K = genBlobLen(t, 2*maxRec+d-13, tag)
		} else {
			kl := rapid.SampledFrom([]int{0, 3, 5000}).Draw(t, "klen")
			e.K = genBlobLen(t, kl, tag)
			e.V = genBlobLen(t, 2*maxRec+d-17-kl, tag)
		}
	}
	if del {
		e.V = Blob{}
	}
	return e
}

var stepOps = func() []string {
	w := []struct {
		op string
		n  int
	}{{"append", 50}, {"batch", 15}, {"sync", 8}, {"rotate", 12}, {"reopen", 6}, {"getfrom", 8}, {"badtype", 2}}
	var out []string
	for _, x := range w {
		for i := 0; i < x.n; i++ {
			out = append(out, x.op)
		}
	}
	return out
}()

func genCase(t *rapid.T) Case {
	c := Case{
		SyncMode:  rapid.IntRange(0, 2).Draw(t, "syncmode"),
		SyncBytes: rapid.SampledFrom([]int64{1, 4096, 1 << 20}).Draw(t, "syncbytes"),
		MaxSize:   rapid.SampledFrom([]int64{0, 0, 4096, 64 << 10, 256 << 10}).Draw(t, "walmaxsize"),
	}
	n := rapid.IntRange(1, 60).Draw(t, "nsteps")
	tag := uint32(0)
	for i := 0; i < n; i++ {
		op := rapid.SampledFrom(stepOps).Draw(t, "op")
		switch op {
		case "append":
			e := genEnt(t, &tag, singleShapes)
			c.Steps = append(c.Steps, Step{Op: op, E: &e})
		case "badtype":
			e := genEnt(t, &tag, batchShapes)
			e.T = uint8(rapid.SampledFrom([]int{0, 4, 7, 255}).Draw(t, "badtype"))
			c.Steps = append(c.Steps, Step{Op: op, E: &e})
		case "batch":
			m := rapid.IntRange(0, 8).Draw(t, "nbatch")
			b := make([]Ent, 0, m)
			for j := 0; j < m; j++ {
				b = append(b, genEnt(t, &tag, batchShapes))
			}
			c.Steps = append(c.Steps, Step{Op: op, B: b})
		case "sync":
			c.Steps = append(c.Steps, Step{Op: op, Check: rapid.Bool().Draw(t, "check")})
		case "reopen":
			c.Steps = append(c.Steps, Step{Op: op, Style: rapid.IntRange(0, 1).Draw(t, "style")})
		case "getfrom":
			c.Steps = append(c.Steps, Step{Op: op, Sel: rapid.SampledFrom([]int{-1, -2, -3, 0, 250, 500, 750, 1000}).Draw(t, "sel")})
		default:
			c.Steps = append(c.Steps, Step{Op: op})
		}
	}
	return c
}

// ---------------------------------------------------------------------------
// tests

func propRoundTrip(t *rapid.T) {
	c := genCase(t)
	nt, classes := classify(&c)
	mm := runCase(&c)
	ev.R().Case(ev.Hash(&c), nt, classes, func() any { return &c })
	if mm != nil {
		path := ev.R().Fail(mm.Signature(), mm.Error(), Doc{Property: "C09", Case: c, Mismatch: mm})
		t.Fatalf("C09 violated: %v (replay %s)", mm, path)
	}
}

func TestProp(t *testing.T) {
	rapid.Check(t, propRoundTrip)
}

// FuzzProp drives the same property (same generator, same oracle) from Go's
// native coverage-guided fuzzer: the fuzzer's bytes are the entropy rapid draws
// from (thorough tier only, bounded -fuzztime; a failing case is saved as the
// usual JSON replay by ev.Fail).
func FuzzProp(f *testing.F) {
	f.Fuzz(rapid.MakeFuzz(propRoundTrip))
}

// TestReplay re-runs a saved case without the library.
func TestReplay(t *testing.T) {
	f := os.Getenv("VERIF_REPLAY")
	if f == "" {
		t.Skip("no VERIF_REPLAY")
	}
	b, err := os.ReadFile(f)
	if err != nil {
		t.Fatal(err)
	}
	var d Doc
	if err := json.Unmarshal(b, &d); err != nil {
		t.Fatal(err)
	}
	for i, s := range d.Case.Steps {
		if (s.Op == "append" || s.Op == "badtype") && s.E == nil {
			t.Fatalf("step %d: %s without entry", i, s.Op)
		}
	}
	mm := runCase(&d.Case)
	if mm != nil {
		ev.WriteReplayResult(ev.ReplayResult{File: f, Outcome: "fail", Signature: mm.Signature(), Message: mm.Error()})
		t.Logf("replay fails: %v", mm)
		return
	}
	ev.WriteReplayResult(ev.ReplayResult{File: f, Outcome: "pass"})
}

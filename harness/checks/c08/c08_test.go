// C08 — write sequence numbers strictly increase for the life of the database
// (DESIGN.md 5/C08). Model-based over programs with rotation/reopen/recovery;
// oracles: monotonicity of the reported last sequence and a read-back of the
// log that must partition into the issued writes with increasing numbers.
package c08

import (
	"bytes"
	"encoding/json"
	"fmt"
	"io"
	"os"
	"path/filepath"
	"runtime"
	"sort"
	"strings"
	"sync"
	"sync/atomic"
	"testing"
	"time"

	"pgregory.net/rapid"

	"github.com/KevoDB/kevo/pkg/engine"
	"github.com/KevoDB/kevo/pkg/replication"
	"github.com/KevoDB/kevo/pkg/verifhook"
	"github.com/KevoDB/kevo/pkg/wal"

	"verif/internal/drive"
	"verif/internal/ev"
	"verif/internal/gen"
)

const rule = "case = rapid-drawn program of single writes, batches of 1-50 entries, transactions, explicit flushes (rotation), small memtables " +
	"(automatic rotation), clean reopen, and (TestPropCrash) crash/recover rounds in a child process; one sequential case in six runs a window " +
	"of its steps under a process file-size limit (a log write fails part-way; failed writes are not acknowledged, the history goes on); in half of the sequential cases a " +
	"replication.Primary observes the engine's log. oracle (a): after every acknowledged write GetStats()[storage_last_sequence] is strictly " +
	"greater than after the previous acknowledged write and never decreases across flush/reopen/recovery, WAL.GetNextSequence() is greater " +
	"than it, Primary.GetLastSequence() never decreases (also compared across a restart of the primary); (b) after every close the log " +
	"directory is read back with wal.ReplayWALDir: the stored entries in file order must partition into exactly the acknowledged writes in " +
	"issue order (the entries of one batch share one number) with strictly increasing numbers from write to write, across files. " +
	"TestPropConcurrent: 2-6 writers (one key each) and a flusher under a yield plan at rotation/flush hook sites: every acknowledged write is stamped above everything acknowledged before it started, each writer reads its own write back, the log read-back is strictly increasing with one entry per acknowledged write. non-trivial = a write after a rotation or reopen, or a single write directly after a multi-entry batch; distinct by case hash"

func TestMain(m *testing.M) {
	if os.Getenv("VERIF_CHILD_SPEC") != "" {
		ev.Silence()
		os.Exit(m.Run())
	}
	ev.Silence()
	rec := ev.Init("C08", rule)
	code := m.Run()
	rec.Flush(true)
	os.Exit(code)
}

func TestChild(t *testing.T) {
	sp := os.Getenv("VERIF_CHILD_SPEC")
	if sp == "" {
		t.Skip("not a child")
	}
	if err := drive.ChildMain(sp); err != nil {
		fmt.Fprintln(os.Stderr, "CHILD-ERROR:", err)
		os.Exit(3)
	}
}

// Case is a program; WithPrimary attaches a replication.Primary to the log.
type Case struct {
	Program     drive.Program      `json:"program"`
	WithPrimary bool               `json:"with_primary"`
	Rounds      []drive.CrashRound `json:"rounds,omitempty"` // crash variant
	// Fault (seq variant): while steps [From,To) run, the process's file-size
	// limit is Limit bytes, so a log write fails part-way like on a full disk
	// (synchronous logging, single-record writes only)
	Fault *FsizeFault `json:"fault,omitempty"`
}

// FsizeFault is a window of steps executed under RLIMIT_FSIZE.
type FsizeFault struct {
	Limit int64 `json:"limit"`
	From  int   `json:"from"`
	To    int   `json:"to"`
}

// Doc is the replay document.
type Doc struct {
	Property string    `json:"property"`
	Kind     string    `json:"kind"` // seq | crash
	Case     Case      `json:"case"`
	Conc     *ConcCase `json:"conc,omitempty"`
	Failure  string    `json:"failure,omitempty"`
}

type failure struct{ sig, msg string }

type ent struct {
	typ uint8
	key []byte
	val []byte
}

// entriesOf lists the log entries a write step must produce.
func entriesOf(p *drive.Program, s drive.Step) []ent {
	switch s.Op {
	case "put":
		return []ent{{wal.OpTypePut, p.Keys[s.K], s.V.Bytes()}}
	case "del":
		return []ent{{wal.OpTypeDelete, p.Keys[s.K], nil}}
	case "batch":
		var out []ent
		for _, o := range s.Tx {
			if o.Op == "put" {
				out = append(out, ent{wal.OpTypePut, p.Keys[o.K], o.V.Bytes()})
			} else if o.Op == "del" {
				out = append(out, ent{wal.OpTypeDelete, p.Keys[o.K], nil})
			}
		}
		return out
	case "tx":
		// a transaction buffers per key (last operation wins) and commits the
		// operations sorted by key
		last := map[string]ent{}
		for _, o := range s.Tx {
			k := string(p.Keys[o.K])
			if o.Op == "put" {
				last[k] = ent{wal.OpTypePut, p.Keys[o.K], o.V.Bytes()}
			} else if o.Op == "del" {
				last[k] = ent{wal.OpTypeDelete, p.Keys[o.K], nil}
			}
		}
		m := drive.Model{}
		for k := range last {
			m[k] = nil
		}
		var out []ent
		for _, k := range m.SortedKeys() {
			out = append(out, last[k])
		}
		return out
	}
	return nil
}

func lastSeq(e *engine.EngineFacade) uint64 {
	v, _ := e.GetStats()["storage_last_sequence"].(uint64)
	return v
}

// readBack compares the log directory with the acknowledged writes. When
// prefixOK is set the log may hold a prefix of the writes (plus at most the
// in-flight one) instead of all of them; it returns how many writes it holds.
func readBack(dir string, writes [][]ent, minWrites int, exact bool) (int, []uint64, *failure) {
	type stored struct {
		seq uint64
		e   ent
	}
	var got []stored
	_, err := wal.ReplayWALDir(filepath.Join(dir, "wal"), func(e *wal.Entry) error {
		got = append(got, stored{e.SequenceNumber, ent{e.Type, append([]byte{}, e.Key...), append([]byte{}, e.Value...)}})
		return nil
	})
	if err != nil {
		return 0, nil, &failure{"readback-error", err.Error()}
	}
	i := 0
	var prevSeq uint64
	var seqs []uint64
	w := 0
	for ; w < len(writes); w++ {
		es := writes[w]
		if len(es) == 0 {
			seqs = append(seqs, prevSeq)
			continue
		}
		if i >= len(got) {
			break
		}
		if i+len(es) > len(got) {
			return w, seqs, &failure{"readback-partial-write", fmt.Sprintf("write %d has %d entries, the log ends after %d of them", w, len(es), len(got)-i)}
		}
		seq := got[i].seq
		for j, x := range es {
			g := got[i+j]
			if g.e.typ != x.typ || !bytes.Equal(g.e.key, x.key) || (x.typ == wal.OpTypePut && !bytes.Equal(g.e.val, x.val)) {
				return w, seqs, &failure{"readback-content", fmt.Sprintf("log entry %d (write %d, entry %d): type %d key %q, issued type %d key %q", i+j, w, j, g.e.typ, trunc(g.e.key), x.typ, trunc(x.key))}
			}
			if g.seq != seq {
				return w, seqs, &failure{"readback-batch-seq", fmt.Sprintf("write %d: entry %d carries sequence %d, entry 0 carries %d (one batch, one number)", w, j, g.seq, seq)}
			}
		}
		if w > 0 && seq <= prevSeq && hadEntries(writes[:w]) {
			return w, seqs, &failure{"readback-not-increasing", fmt.Sprintf("write %d is stored with sequence %d, the write before it with %d", w, seq, prevSeq)}
		}
		prevSeq = seq
		seqs = append(seqs, seq)
		i += len(es)
	}
	if i < len(got) {
		return w, seqs, &failure{"readback-extra", fmt.Sprintf("the log holds %d entries beyond the %d issued writes (first extra: seq %d key %q)", len(got)-i, len(writes), got[i].seq, trunc(got[i].e.key))}
	}
	if exact && w != len(writes) {
		return w, seqs, &failure{"readback-missing", fmt.Sprintf("the log holds %d of %d acknowledged writes after a clean close", w, len(writes))}
	}
	if w < minWrites {
		return w, seqs, &failure{"readback-missing", fmt.Sprintf("the log holds %d writes, %d were acknowledged under synchronous logging", w, minWrites)}
	}
	return w, seqs, nil
}

func hadEntries(ws [][]ent) bool {
	for _, w := range ws {
		if len(w) > 0 {
			return true
		}
	}
	return false
}

func trunc(b []byte) []byte {
	if len(b) > 12 {
		return b[:12]
	}
	return b
}

func classify(p *drive.Program) (bool, []string) {
	nt := false
	afterMaint, afterBatch := false, false
	var cl []string
	rot, single := false, false
	for _, s := range p.Steps {
		switch s.Op {
		case "flush", "reopen":
			afterMaint = true
			afterBatch = false
		default:
			if s.IsWrite() {
				if afterMaint {
					nt, rot = true, true
				}
				n := len(entriesOf(p, s))
				if afterBatch && n == 1 {
					nt, single = true, true
				}
				afterBatch = n >= 2
			}
		}
	}
	if rot {
		cl = append(cl, "write_after_rotation_or_reopen")
	}
	if single {
		cl = append(cl, "single_write_after_multi_entry_batch")
	}
	if p.Cfg.MemTableSize <= 4096 {
		cl = append(cl, "automatic_rotation_likely")
	}
	return nt, cl
}

// runSeq executes the program in-process.
func runSeq(c *Case) *failure {
	dir, err := os.MkdirTemp("", "c08-")
	if err != nil {
		panic(err)
	}
	defer os.RemoveAll(dir)
	p := &c.Program
	r, mm := drive.NewRunner(dir, p)
	if mm != nil {
		return &failure{"open-error", mm.Error()}
	}
	defer func() { r.Close() }()
	var prim *replication.Primary
	attach := func() *failure {
		if !c.WithPrimary {
			return nil
		}
		pr, err := replication.NewPrimary(r.Eng.GetWAL(), nil)
		if err != nil {
			return &failure{"primary-error", err.Error()}
		}
		prim = pr
		return nil
	}
	detach := func() {
		if prim != nil {
			_ = prim.Close()
			prim = nil
		}
	}
	defer detach()
	if f := attach(); f != nil {
		return f
	}
	var writes [][]ent
	var prevAck, prevAny, primLast uint64
	acked := 0
	failedWrites := 0
	defer drive.LiftFsizeLimit()
	for i, s := range p.Steps {
		if c.Fault != nil {
			if i == c.Fault.From {
				if err := drive.SetFsizeLimit(uint64(c.Fault.Limit)); err != nil {
					panic(err)
				}
			}
			if i == c.Fault.To {
				drive.LiftFsizeLimit()
			}
		}
		if s.Op == "reopen" {
			detach()
			drive.Quiesce(r.Eng)
			_ = r.Eng.Close()
			r.Eng = nil
			if _, _, f := readBack(dir, writes, 0, true); f != nil {
				f.sig += "@close"
				f.msg = fmt.Sprintf("after clean close at step %d: %s", i, f.msg)
				return f
			}
			e, err := engine.NewEngineFacade(dir)
			if err != nil {
				return &failure{"open-error", err.Error()}
			}
			r.Eng = e
			if f := attach(); f != nil {
				return f
			}
		} else {
			mm, err := r.Do(i)
			if mm != nil {
				return &failure{"step:" + mm.Signature(), mm.Error()}
			}
			if err != nil {
				if c.Fault != nil {
					// a write that failed under (or after) the injected fault: not
					// acknowledged, nothing is expected of it; the history goes on
					failedWrites++
					ev.R().Count("writes_failed_under_fsize_fault", 1)
					if cur := lastSeq(r.Eng); cur < prevAny {
						return &failure{"stats-decreased@failed-" + s.Op, fmt.Sprintf("step %d (%s failed): storage_last_sequence went from %d to %d", i, s.Op, prevAny, cur)}
					}
					continue
				}
				ev.R().Count("cases_stopped_at_write_error", 1)
				return nil
			}
		}
		cur := lastSeq(r.Eng)
		if cur < prevAny {
			return &failure{"stats-decreased@" + s.Op, fmt.Sprintf("step %d (%s): storage_last_sequence went from %d to %d", i, s.Op, prevAny, cur)}
		}
		prevAny = cur
		if s.IsWrite() && len(entriesOf(p, s)) > 0 {
			if acked > 0 && cur <= prevAck {
				return &failure{"stats-not-increasing@" + s.Op, fmt.Sprintf("step %d (%s) acknowledged with last sequence %d, the previous acknowledged write had %d", i, s.Op, cur, prevAck)}
			}
			prevAck = cur
			acked++
			writes = append(writes, entriesOf(p, s))
			if w := r.Eng.GetWAL(); w != nil {
				if nx := w.GetNextSequence(); nx <= cur {
					return &failure{"wal-next-not-above-last@" + s.Op, fmt.Sprintf("step %d: WAL.GetNextSequence()=%d, last acknowledged sequence %d", i, nx, cur)}
				}
			}
		} else if s.IsWrite() {
			writes = append(writes, nil)
		}
		if prim != nil {
			pl := prim.GetLastSequence()
			if pl < primLast {
				return &failure{"primary-last-sequence-decreased@" + s.Op, fmt.Sprintf("step %d (%s): Primary.GetLastSequence went from %d to %d", i, s.Op, primLast, pl)}
			}
			primLast = pl
		}
	}
	detach()
	drive.Quiesce(r.Eng)
	_ = r.Eng.Close()
	r.Eng = nil
	if _, _, f := readBack(dir, writes, 0, true); f != nil {
		f.sig += "@final-close"
		return f
	}
	return nil
}

// runCrash executes crash/recover rounds; sequence numbers reported by the
// children (ack lines) and found in the log must keep increasing.
func runCrash(c *Case, replay bool) (*failure, []string) {
	root, err := os.MkdirTemp("", "c08c-")
	if err != nil {
		panic(err)
	}
	defer os.RemoveAll(root)
	dir := root + "/db"
	p := &c.Program
	var classes []string
	var writes [][]ent // writes known to be in the log, in order
	var maxAckedSeq uint64
	from := 0
	for ri := range c.Rounds {
		rd := &c.Rounds[ri]
		to := rd.To
		if to > len(p.Steps) {
			to = len(p.Steps)
		}
		if to < from {
			to = from
		}
		spec := drive.ChildSpec{Dir: dir, Program: p, From: from, To: to}
		if rd.Abandon {
			spec.NoClose = true // the process executes the segment and dies without closing
		}
		if !rd.Clean && !rd.Abandon && (!replay || rd.Site == "") {
			prof, err := drive.ProfileRound(root, dir, spec)
			if err != nil {
				return &failure{"child-error", err.Error()}, classes
			}
			// stratified by site (rare sites such as wal.frag.between get the same
			// weight as the frequent ones), then a hit number of that site
			var sites []string
			for s := range prof {
				sites = append(sites, s)
			}
			sort.Strings(sites)
			if len(sites) == 0 {
				rd.Clean = true
			} else {
				rd.Site = sites[int(rd.SelA)%len(sites)]
				rd.N = 1 + int(rd.SelB)%prof[rd.Site]
				// every third plan aims at a torn tail: die between the fragments of a
				// large entry, preferring late hits (the 64 KiB log buffer has then
				// spilled a cut record into the file)
				if fh := prof["wal.frag.between"]; fh > 0 && rd.SelA%3 == 0 {
					rd.Site = "wal.frag.between"
					rd.N = 1 + fh/2 + int(rd.SelB)%(fh-fh/2)
				}
			}
		}
		if !rd.Clean && !rd.Abandon {
			spec.CrashSite, spec.CrashN = rd.Site, rd.N
		}
		res, err := drive.RunChild(spec, root, fmt.Sprintf("r%d", ri))
		if err != nil {
			return &failure{"child-error", err.Error()}, classes
		}
		if rd.Abandon && res.ExitCode == 0 {
			res.Crashed = true
			rd.Site = "abandon-after-segment"
		}
		// (a) numbers reported at acknowledgement keep increasing, across rounds
		var issued [][]ent
		ackIdx := 0
		for i := from; i < to; i++ {
			if !p.Steps[i].IsWrite() {
				continue
			}
			es := entriesOf(p, p.Steps[i])
			if ackIdx < len(res.Acked) && res.Acked[ackIdx] == i {
				sq := res.AckedSeq[ackIdx]
				if len(es) > 0 {
					if sq <= maxAckedSeq && (p.Cfg.SyncMode == 2 || ri == 0) {
						return &failure{"acked-seq-not-increasing", fmt.Sprintf("round %d step %d acknowledged with sequence %d, an earlier acknowledged write had %d", ri, i, sq, maxAckedSeq)}, classes
					}
					if sq > maxAckedSeq {
						maxAckedSeq = sq
					}
				}
				ackIdx++
				issued = append(issued, es)
			} else if ackIdx >= len(res.Acked) {
				// in flight or never issued: at most the first of them may be in the log
				issued = append(issued, es)
				break
			}
		}
		nAcked := len(res.Acked)
		// (b) the log holds the earlier writes plus a prefix of this round's writes
		cand := append(append([][]ent{}, writes...), issued...)
		min := len(writes)
		if p.Cfg.SyncMode == 2 || !res.Crashed {
			min = len(writes) + nAcked
		}
		held, _, f := readBackPrefix(dir, cand, min)
		if f != nil {
			f.msg = fmt.Sprintf("round %d [%d,%d) crashed=%v site=%s acked=%d: %s", ri, from, to, res.Crashed, rd.Site, nAcked, f.msg)
			f.sig += "@" + siteClass(rd, res)
			return f, classes
		}
		writes = cand[:held]
		if res.Crashed {
			classes = append(classes, "crash_round")
			if strings.HasPrefix(rd.Site, "wal.frag.") {
				classes = append(classes, "crash_between_fragments")
			}
			if tornTail(dir) {
				classes = append(classes, "torn_tail_after_crash(measured)")
			}
		}
		// The next round's child does the recovery itself (a parent open in between
		// would hand the next process a clean, already repaired log and hide defects
		// of "recover and write in the same process"). Only after the LAST round the
		// parent opens the directory and checks the statistics did not fall behind.
		if ri != len(c.Rounds)-1 {
			from = to
			continue
		}
		e, err := engine.NewEngineFacade(dir)
		if err != nil {
			return &failure{"open-error@" + siteClass(rd, res), err.Error()}, classes
		}
		ls := lastSeq(e)
		if p.Cfg.SyncMode == 2 && ls < maxAckedSeq {
			_ = e.Close()
			return &failure{"stats-behind-acked-after-recovery", fmt.Sprintf("after recovery storage_last_sequence=%d, a write was acknowledged with %d before the crash", ls, maxAckedSeq)}, classes
		}
		drive.Quiesce(e)
		_ = e.Close()
		from = to
	}
	return nil, classes
}

// tornTail reports whether the newest log file does not end on an entry boundary.
func tornTail(dir string) bool {
	files, _ := wal.FindWALFiles(filepath.Join(dir, "wal"))
	if len(files) == 0 {
		return false
	}
	r, err := wal.OpenReader(files[len(files)-1])
	if err != nil {
		return false
	}
	defer r.Close()
	for {
		if _, err := r.ReadEntry(); err != nil {
			return err != io.EOF
		}
	}
}

func siteClass(rd *drive.CrashRound, res *drive.ChildResult) string {
	if !res.Crashed {
		return "clean-close"
	}
	return rd.Site
}

// readBackPrefix: the log must hold writes[0:k] for some k >= min, in order,
// with increasing numbers, and nothing else.
func readBackPrefix(dir string, writes [][]ent, min int) (int, []uint64, *failure) {
	held, seqs, f := readBack(dir, writes, min, false)
	return held, seqs, f
}

func opts() gen.ProgOpts {
	return gen.ProgOpts{MinSteps: 6, MaxSteps: 50, MaxTxOps: 50,
		Weights: map[string]int{"put": 8, "del": 3, "tx": 3, "batch": 4, "flush": 3, "reopen": 2}}
}

func TestProp(t *testing.T) {
	o := opts()
	rapid.Check(t, func(t *rapid.T) {
		var c Case
		if rapid.IntRange(0, 5).Draw(t, "fsizefault") == 0 {
			// single-record writes only (a failed multi-record batch may leave complete
			// records behind: open finding D24, C03's business), synchronous logging
			// (the failure is reported by the write that causes it)
			fo := gen.ProgOpts{MinSteps: 8, MaxSteps: 50, Weights: map[string]int{"put": 10, "del": 3, "flush": 3, "reopen": 2}}
			fo.Val.MaxSmall = rapid.SampledFrom([]int{64, 300, 2000}).Draw(t, "fmaxsmall")
			p := gen.Program(t, fo)
			p.Cfg.SyncMode = 2
			p.Cfg.MemTableSize = rapid.SampledFrom([]int64{4096, 65536, 32 << 20}).Draw(t, "fmemtable")
			from := rapid.IntRange(0, len(p.Steps)-1).Draw(t, "ffrom")
			c = Case{Program: p, Fault: &FsizeFault{
				Limit: rapid.Int64Range(2048, 20000).Draw(t, "flimit"),
				From:  from,
				To:    rapid.IntRange(from+1, len(p.Steps)).Draw(t, "fto")}}
		} else {
			c = Case{Program: gen.Program(t, o), WithPrimary: rapid.Bool().Draw(t, "primary")}
		}
		nt, classes := classify(&c.Program)
		if c.Fault != nil {
			classes = append(classes, "fsize_fault_window")
		}
		if c.WithPrimary {
			classes = append(classes, "with_primary")
		}
		f := runSeq(&c)
		ev.R().Case(ev.Hash(&c), nt, append(classes, "kind:seq"), func() any { return &c })
		if f != nil {
			path := ev.R().Fail(f.sig, f.msg, Doc{Property: "C08", Kind: "seq", Case: c, Failure: f.sig + ": " + f.msg})
			t.Fatalf("C08 violated: %s: %s (replay %s)", f.sig, f.msg, path)
		}
	})
}

func TestPropCrash(t *testing.T) {
	o := opts()
	o.MaxSteps = 30
	// values of several fragments: a crash between fragments leaves a torn tail,
	// after which the engine must start a new log file and still continue the numbering
	o.Val.Big = true
	delete(o.Weights, "reopen")
	rapid.Check(t, func(t *rapid.T) {
		p := gen.Program(t, o)
		// sprinkle entries of several fragments (100-300 KiB) so that "between fragments" exists
		nbig := rapid.IntRange(0, 3).Draw(t, "nbig")
		for i := 0; i < nbig && len(p.Steps) > 0; i++ {
			at := rapid.IntRange(0, len(p.Steps)-1).Draw(t, "bigat")
			p.Steps[at] = drive.Step{Op: "put", K: rapid.IntRange(0, len(p.Keys)-1).Draw(t, "bigk"),
				V: &drive.Val{Len: rapid.IntRange(100*1024, 300*1024).Draw(t, "biglen"), Tag: uint32(800000 + i)}}
		}
		nr := rapid.IntRange(1, 3).Draw(t, "rounds")
		var rounds []drive.CrashRound
		prev := 0
		for i := 0; i < nr; i++ {
			to := len(p.Steps)
			if i < nr-1 {
				to = rapid.IntRange(prev, len(p.Steps)).Draw(t, "to")
			}
			rounds = append(rounds, drive.CrashRound{To: to, Clean: rapid.IntRange(0, 4).Draw(t, "clean") == 0, SelA: rapid.Uint32().Draw(t, "selA"), SelB: rapid.Uint32().Draw(t, "selB")})
			prev = to
		}
		c := Case{Program: p, Rounds: rounds}
		if rapid.IntRange(0, 7).Draw(t, "bufedge") == 0 {
			// the process dies with the log file ending at / around a record header
			// or exactly between two fragments of an entry (sizes computed from the
			// 64 KiB log buffer), then recovers, writes and restarts again
			be := gen.BufEdge(t)
			c = Case{Program: be.Program, Rounds: be.Rounds}
			rounds = be.Rounds
		}
		f, classes := runCrash(&c, false)
		if len(c.Rounds) > 0 && (c.Rounds[0].Abandon || (len(c.Rounds) > 1 && c.Rounds[1].Abandon)) {
			classes = append(classes, "log_buffer_boundary_at_record_header_or_fragment_end")
		}
		nt := len(rounds) > 1
		ev.R().Case(ev.Hash(&c), nt, append(classes, "kind:crash"), func() any { return &c })
		if f != nil {
			path := ev.R().Fail("crash:"+f.sig, f.msg, Doc{Property: "C08", Kind: "crash", Case: c, Failure: f.sig + ": " + f.msg})
			t.Fatalf("C08 violated: %s: %s (replay %s)", f.sig, f.msg, path)
		}
	})
}

// ConcCase: several writers and a flusher; the log must still be ordered by
// sequence number and every acknowledged write stamped above everything
// acknowledged before it started.
type ConcCase struct {
	Cfg     drive.Cfg `json:"cfg"`
	Writers int       `json:"writers"`
	Ops     int       `json:"ops"`
	ValLen  int       `json:"val_len"`
	Flushes int       `json:"flushes"`
	Yield   []uint8   `json:"yield"`
}

func runConc(c *ConcCase) *failure {
	dir, err := os.MkdirTemp("", "c08p-")
	if err != nil {
		panic(err)
	}
	defer os.RemoveAll(dir)
	e, err := drive.Open(dir, c.Cfg)
	if err != nil {
		return &failure{"open-error", err.Error()}
	}
	var yi atomic.Uint64
	if len(c.Yield) > 0 {
		verifhook.Set(func(site string) {
			if !strings.HasPrefix(site, "storage.rotate.") && !strings.HasPrefix(site, "storage.flush") && site != "storage.put.after_wal" {
				return
			}
			switch c.Yield[int(yi.Add(1))%len(c.Yield)] {
			case 1:
				runtime.Gosched()
			case 2:
				time.Sleep(30 * time.Microsecond)
			case 3:
				time.Sleep(300 * time.Microsecond)
			}
		})
		defer verifhook.Reset()
	}
	var ackedMax atomic.Uint64 // highest last_sequence observed after any acknowledged write
	var acked atomic.Int64
	var mu sync.Mutex
	var fail *failure
	var wg sync.WaitGroup
	stop := make(chan struct{})
	for w := 0; w < c.Writers; w++ {
		wg.Add(1)
		go func(w int) {
			defer wg.Done()
			key := []byte(fmt.Sprintf("w%02d", w))
			for i := 0; i < c.Ops; i++ {
				before := ackedMax.Load() // every write acknowledged before this one started has a number <= before
				val := make([]byte, 8+c.ValLen)
				copy(val, fmt.Sprintf("%02d-%05d", w, i))
				if err := e.Put(key, val); err != nil {
					continue // a failed write is not acknowledged
				}
				acked.Add(1)
				cur := lastSeq(e)
				if cur <= before && before > 0 {
					mu.Lock()
					if fail == nil {
						fail = &failure{"conc:stats-not-above-earlier-ack", fmt.Sprintf("writer %d op %d acknowledged; storage_last_sequence is %d, a write acknowledged before this one started had already %d", w, i, cur, before)}
					}
					mu.Unlock()
					return
				}
				for {
					old := ackedMax.Load()
					if cur <= old || ackedMax.CompareAndSwap(old, cur) {
						break
					}
				}
				// read-your-write: the writer owns its key
				if got, err := e.Get(key); err != nil || !bytes.Equal(got, val) {
					mu.Lock()
					if fail == nil {
						fail = &failure{"conc:own-write-not-read", fmt.Sprintf("writer %d op %d: read back %q err=%v, wrote %q (an older write with a larger sequence number wins)", w, i, trunc(got), err, trunc(val))}
					}
					mu.Unlock()
					return
				}
			}
		}(w)
	}
	go func() {
		for i := 0; i < c.Flushes; i++ {
			select {
			case <-stop:
				return
			default:
			}
			_ = e.FlushImMemTables()
			time.Sleep(200 * time.Microsecond)
		}
	}()
	wg.Wait()
	close(stop)
	drive.Quiesce(e)
	_ = e.Close()
	if fail != nil {
		return fail
	}
	// read back: strictly increasing in file order, one entry per acknowledged write
	var prev uint64
	n := 0
	var bad *failure
	_, err = wal.ReplayWALDir(filepath.Join(dir, "wal"), func(en *wal.Entry) error {
		n++
		if en.SequenceNumber <= prev && bad == nil {
			bad = &failure{"conc:readback-not-increasing", fmt.Sprintf("log entry %d (key %q) carries sequence %d, the entry before it %d", n, trunc(en.Key), en.SequenceNumber, prev)}
		}
		prev = en.SequenceNumber
		return nil
	})
	if err != nil {
		return &failure{"conc:readback-error", err.Error()}
	}
	if bad != nil {
		return bad
	}
	if int64(n) != acked.Load() {
		return &failure{"conc:readback-count", fmt.Sprintf("the log holds %d entries, %d writes were acknowledged", n, acked.Load())}
	}
	return nil
}

func TestPropConcurrent(t *testing.T) {
	rapid.Check(t, func(t *rapid.T) {
		c := ConcCase{
			Cfg:     gen.Config(t),
			Writers: rapid.IntRange(2, 6).Draw(t, "writers"),
			Ops:     rapid.IntRange(20, 150).Draw(t, "ops"),
			ValLen:  rapid.SampledFrom([]int{0, 40, 300}).Draw(t, "vallen"),
			Flushes: rapid.IntRange(0, 40).Draw(t, "flushes"),
			Yield:   rapid.SliceOfN(rapid.Uint8Range(0, 3), 1, 10).Draw(t, "yield"),
		}
		c.Cfg.MemTableSize = rapid.SampledFrom([]int64{256, 1024, 4096}).Draw(t, "mt")
		f := runConc(&c)
		ev.R().Case(ev.Hash(&c), c.Flushes > 0 || c.Cfg.MemTableSize <= 1024, []string{"kind:concurrent"}, func() any { return &c })
		if f != nil {
			path := ev.R().Fail(f.sig, f.msg, Doc{Property: "C08", Kind: "conc", Conc: &c, Failure: f.sig + ": " + f.msg})
			t.Fatalf("C08 violated: %s: %s (replay %s)", f.sig, f.msg, path)
		}
	})
}

func TestReplay(t *testing.T) {
	fn := os.Getenv("VERIF_REPLAY")
	if fn == "" {
		t.Skip("no VERIF_REPLAY")
	}
	b, err := os.ReadFile(fn)
	if err != nil {
		t.Fatal(err)
	}
	var d Doc
	if err := json.Unmarshal(b, &d); err != nil {
		t.Fatal(err)
	}
	var f *failure
	if d.Kind == "conc" {
		for i := 0; i < 20 && f == nil; i++ {
			f = runConc(d.Conc)
		}
	} else if d.Kind == "crash" {
		f, _ = runCrash(&d.Case, true)
		if f != nil {
			f.sig = "crash:" + f.sig
		}
	} else {
		f = runSeq(&d.Case)
	}
	if f != nil {
		ev.WriteReplayResult(ev.ReplayResult{File: fn, Outcome: "fail", Signature: f.sig, Message: f.msg})
		return
	}
	ev.WriteReplayResult(ev.ReplayResult{File: fn, Outcome: "pass"})
}

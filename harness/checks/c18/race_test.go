package c18

// Data-race reports as an oracle. The binary is built with -race. The race
// runtime reads GORACE once at start-up, so TestMain re-executes the test
// binary once (same pid, same arguments) with
//   GORACE="halt_on_error=0 exitcode=0 log_path=<scratch>/c18-race"
// and every concurrent case looks at the log after its goroutines have been
// joined. A report whose stacks touch pkg/memtable is a violation of C18 (the
// structure is documented as safe for lock-free readers next to one writer);
// a report that does not is a defect of this harness and makes the process
// fail without a recorded violation (the driver then says "inconclusive").

import (
	"fmt"
	"os"
	"path/filepath"
	"sort"
	"strings"
	"syscall"
)

const raceEnv = "VERIF_C18_RACELOG"

var (
	raceBase     string
	raceConsumed = map[string]int64{}
)

// raceReexec replaces the process image once so that the race runtime logs to a file.
func raceReexec() {
	if !raceEnabled {
		return
	}
	if b := os.Getenv(raceEnv); b != "" {
		raceBase = b
		return
	}
	exe, err := os.Executable()
	if err != nil {
		fmt.Fprintln(os.Stderr, "c18: cannot find own executable, race reports go to stderr only:", err)
		return
	}
	base := filepath.Join(os.TempDir(), fmt.Sprintf("c18-race-%d", os.Getpid()))
	var env []string
	for _, e := range os.Environ() {
		if !strings.HasPrefix(e, "GORACE=") {
			env = append(env, e)
		}
	}
	env = append(env, "GORACE=halt_on_error=0 exitcode=0 log_path="+base, raceEnv+"="+base)
	err = syscall.Exec(exe, os.Args, env)
	fmt.Fprintln(os.Stderr, "c18: re-exec failed, race reports go to stderr only:", err)
}

// raceReport is one parsed "WARNING: DATA RACE" block.
type raceReport struct {
	Text     string
	Frames   [2]string // top frame inside pkg/memtable (or top frame) of the two accesses
	Memtable bool
}

func (r *raceReport) sig() string {
	f := []string{r.Frames[0], r.Frames[1]}
	sort.Strings(f)
	return "race/" + f[0] + "|" + f[1]
}

// raceNew returns the reports written since the last call.
func raceNew() []raceReport {
	if raceBase == "" {
		return nil
	}
	files, _ := filepath.Glob(raceBase + ".*")
	var out []raceReport
	for _, f := range files {
		fi, err := os.Stat(f)
		if err != nil || fi.Size() <= raceConsumed[f] {
			continue
		}
		b, err := os.ReadFile(f)
		if err != nil {
			continue
		}
		fresh := string(b[raceConsumed[f]:])
		raceConsumed[f] = int64(len(b))
		out = append(out, parseRace(fresh)...)
	}
	return out
}

func parseRace(s string) []raceReport {
	var out []raceReport
	for _, blk := range strings.Split(s, "==================") {
		if !strings.Contains(blk, "WARNING: DATA RACE") {
			continue
		}
		r := raceReport{Text: strings.TrimSpace(blk)}
		lines := strings.Split(blk, "\n")
		sec := -1
		var top [2]string
		var mem [2]string
		for i := 0; i < len(lines); i++ {
			l := lines[i]
			switch {
			case strings.Contains(l, " by goroutine ") || strings.Contains(l, " by main goroutine"):
				sec++
			case strings.HasPrefix(l, "Goroutine ") || strings.HasPrefix(l, "Location "):
				sec = 2
			case sec >= 0 && sec < 2 && strings.HasPrefix(l, "  ") && !strings.HasPrefix(l, "   ") && i+1 < len(lines):
				fn := strings.TrimSpace(l)
				if p := strings.LastIndex(fn, "("); p > 0 {
					fn = fn[:p]
				}
				fn = strings.TrimPrefix(fn, "github.com/KevoDB/kevo/pkg/")
				file := strings.TrimSpace(lines[i+1])
				if top[sec] == "" {
					top[sec] = fn
				}
				if strings.Contains(file, "/pkg/memtable/") && !strings.Contains(file, "_test.go") {
					r.Memtable = true
					if mem[sec] == "" {
						mem[sec] = fn
					}
				}
			}
		}
		for i := 0; i < 2; i++ {
			r.Frames[i] = mem[i]
			if r.Frames[i] == "" {
				r.Frames[i] = top[i]
			}
			if r.Frames[i] == "" {
				r.Frames[i] = "?"
			}
		}
		out = append(out, r)
	}
	return out
}

// raceCheck turns fresh race reports into a violation (memtable) or a harness panic.
func raceCheck() (*viol, string) {
	reps := raceNew()
	for i := range reps {
		if reps[i].Memtable {
			return &viol{reps[i].sig(), "the race detector reported a data race inside pkg/memtable during a single-writer/many-readers run"}, reps[i].Text
		}
	}
	if len(reps) > 0 {
		fmt.Fprintln(os.Stderr, reps[0].Text)
		panic("c18: data race outside pkg/memtable (harness defect), see stderr")
	}
	return nil, ""
}

// C18 — the memtable is a correct ordered multi-version map under concurrent
// readers (DESIGN.md 5/C18). Three generated searches:
//
//	TestPropTable       one MemTable, sequential, model-based
//	TestPropPool        a MemTablePool, sequential, model-based
//	TestPropConcurrent  one writer + 1-8 readers on one MemTable, invariants
//	                    over recorded observations + race detector
package c18

import (
	"encoding/json"
	"os"
	"strings"
	"testing"

	"pgregory.net/rapid"

	"verif/internal/ev"
)

const rule = "sequential: rapid-drawn histories (8-60 steps) of put/delete with arbitrary sequence numbers (monotone runs, ties, " +
	"small repeated, backwards, 0, 2^63, 2^64-2, 2^64-1) over 2-8 keys, SetImmutable, held iterators, Seek targets on/between/" +
	"outside keys, pool switch/SetActiveMemTable/Get/GetMemTables; oracle = multi-version map model (Get = highest sequence, " +
	"latest insertion among equal numbers; iterator = all versions, key ascending, sequence descending, latest insertion first " +
	"among equal numbers; immutable tables frozen; pool Get = newest table containing the key), audited after every step. " +
	"concurrent: 150-700 writer steps, 1-8 readers doing Get/Contains/Seek/scan/full iteration, each observation must contain " +
	"every entry completed before it started and only inserted entries, sorted, well-formed (one case in five instead drives a " +
	"MemTablePool with table switches and judges concurrent pool Gets against the prefix states of the history); race reports " +
	"inside pkg/memtable fail. " +
	"non-trivial = sequential case with >= 2 versions of one key in one table whose sequence numbers are not increasing in " +
	"insertion order (read back by the per-step audit), or concurrent case in which one reader was active while >= 100 writer " +
	"steps completed (measured); distinct by FNV-64 of the case JSON"

func TestMain(m *testing.M) {
	raceReexec()
	ev.Silence()
	rec := ev.Init("C18", rule)
	code := m.Run()
	if os.Getenv("VERIF_REPLAY") == "" {
		if v, text := raceCheck(); v != nil {
			rec.Fail(v.Sig+"@outside-case", v.Msg, Doc{Property: "C18", Kind: "race", Signature: v.Sig, Message: v.Msg, Race: text})
			code = 1
		}
	}
	rec.Flush(true)
	os.Exit(code)
}

// flagOn: generator feature flag. Besides the driver's VERIF_OFF (derived from
// known_findings.json) the variable VERIF_OFF_EXTRA switches flags off by hand
// (sensitivity runs through tools/run_against.sh before a finding is listed).
func flagOn(name string) bool {
	if !ev.Flag(name) {
		return false
	}
	for _, f := range strings.Split(os.Getenv("VERIF_OFF_EXTRA"), ",") {
		if f == name {
			return false
		}
	}
	return true
}

// Doc is the replay document.
type Doc struct {
	Property  string `json:"property"`
	Kind      string `json:"kind"` // "seq" | "conc" | "race"
	Seq       *SCase `json:"seq,omitempty"`
	Conc      *CCase `json:"conc,omitempty"`
	FailStep  int    `json:"fail_step,omitempty"`
	Signature string `json:"signature"`
	Message   string `json:"message"`
	Recorded  *CFail `json:"recorded_observation,omitempty"`
	Race      string `json:"race_report,omitempty"`
}

func seqProp(t *testing.T, pool bool) {
	rapid.Check(t, func(t *rapid.T) {
		c := genSCase(t, pool)
		nt, classes := classifySeq(&c)
		if pool {
			classes = append(classes, "part:pool")
		} else {
			classes = append(classes, "part:table")
		}
		v, step := runSeq(&c)
		ev.R().Case(ev.Hash(&c), nt, classes, func() any { return &c })
		if v != nil {
			sig := v.Sig
			if pool {
				sig = "pool:" + sig
			}
			path := ev.R().Fail(sig, v.Msg, Doc{Property: "C18", Kind: "seq", Seq: &c, FailStep: step, Signature: sig, Message: v.Msg})
			t.Fatalf("C18 violated at step %d: %v (replay %s)", step, v, path)
		}
	})
}

func TestPropTable(t *testing.T) { seqProp(t, false) }

func TestPropPool(t *testing.T) { seqProp(t, true) }

func TestPropConcurrent(t *testing.T) {
	rapid.Check(t, func(t *rapid.T) {
		c := genCCase(t)
		classes := append(classifyConc(&c), "part:concurrent")
		f, st := runConc(&c)
		nt := st.maxOverlap >= 100
		if nt {
			classes = append(classes, "conc:reader_overlaps>=100_writer_steps")
		}
		ev.R().Case(ev.Hash(&c), nt, classes, func() any { return &c })
		ev.R().Count("conc_reader_actions", st.actions)
		ev.R().Count("conc_seek_probes", st.probes)
		ev.R().Count("conc_reader_actions_started_while_writer_running", st.overlapping)
		if f != nil {
			path := ev.R().Fail(f.V.Sig, f.V.Msg, Doc{Property: "C18", Kind: "conc", Conc: &c, Signature: f.V.Sig, Message: f.V.Msg, Recorded: f})
			t.Fatalf("C18 violated: %v (replay %s)", f.V, path)
		}
		if v, text := raceCheck(); v != nil {
			path := ev.R().Fail(v.Sig, v.Msg, Doc{Property: "C18", Kind: "conc", Conc: &c, Signature: v.Sig, Message: v.Msg, Race: text})
			t.Fatalf("C18 violated: %v (replay %s)\n%s", v, path, text)
		}
	})
}

// TestReplay re-runs a saved case without the library. Sequential cases are a
// function of the case up to the skip list's private random node heights, so
// they are run 20 times; a concurrent case is a workload whose interleaving
// cannot be pinned: it is re-executed up to 60 times and the replay fails if
// the checker (or the race detector) rejects any of the executions.
func TestReplay(t *testing.T) {
	f := os.Getenv("VERIF_REPLAY")
	if f == "" {
		t.Skip("no VERIF_REPLAY")
	}
	b, err := os.ReadFile(f)
	if err != nil {
		t.Fatal(err)
	}
	var d Doc
	if err := json.Unmarshal(b, &d); err != nil {
		t.Fatal(err)
	}
	res := ev.ReplayResult{File: f, Outcome: "pass"}
	switch {
	case d.Seq != nil:
		for i := 0; i < 20; i++ {
			if v, step := runSeq(d.Seq); v != nil {
				sig := v.Sig
				if d.Seq.Pool {
					sig = "pool:" + sig
				}
				res = ev.ReplayResult{File: f, Outcome: "fail", Signature: sig, Message: v.Msg}
				t.Logf("replay fails at step %d: %v", step, v)
				break
			}
		}
	case d.Conc != nil:
		for i := 0; i < 60; i++ {
			fl, _ := runConc(d.Conc)
			if fl != nil {
				res = ev.ReplayResult{File: f, Outcome: "fail", Signature: fl.V.Sig, Message: fl.V.Msg}
				t.Logf("replay fails in execution %d: %v", i, fl.V)
				break
			}
			if v, text := raceCheck(); v != nil {
				res = ev.ReplayResult{File: f, Outcome: "fail", Signature: v.Sig, Message: v.Msg + "\n" + text}
				t.Logf("replay: race in execution %d: %v", i, v)
				break
			}
		}
	default:
		res = ev.ReplayResult{File: f, Outcome: "pass", Message: "document holds no case (race report outside a case)"}
	}
	ev.WriteReplayResult(res)
}

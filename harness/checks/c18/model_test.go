package c18

// Reference model of ONE memtable (a multi-version ordered map) and the pure
// checkers that compare observations (Get results, iterator output) with it.
// The same checkers serve the sequential part (lower bound == upper bound ==
// everything inserted so far) and the concurrent part (lower bound = entries
// completed before the reader started, upper bound = entries whose insertion
// can have begun before the reader finished).

import (
	"bytes"
	"fmt"
	"math"
	"sort"
)

// ent is one accepted insertion.
type ent struct {
	k   int    // index into the (sorted) key pool
	seq uint64 // sequence number given by the caller
	del bool   // deletion marker
	val string // value bytes (puts only; "" for an empty value)
	idx int    // 1-based position in the writer's history (strictly increasing)
}

// desc identifies what a reader can see of an entry. Two insertions may have
// the same desc (repeated deletes, short values); all comparisons are therefore
// done on counts of descs, never on identities.
type desc struct {
	k   int
	seq uint64
	del bool
	val string
}

func (e *ent) d() desc { return desc{e.k, e.seq, e.del, e.val} }

func (d desc) String() string {
	if d.del {
		return fmt.Sprintf("del(k%d,seq=%d)", d.k, d.seq)
	}
	return fmt.Sprintf("put(k%d,seq=%d,val=%x)", d.k, d.seq, trunc(d.val))
}

func trunc(s string) string {
	if len(s) > 12 {
		return s[:12]
	}
	return s
}

// tview is the model of one table.
type tview struct {
	keys    [][]byte       // sorted ascending, distinct: index order == byte order
	keyIdx  map[string]int // string(key) -> index
	ents    []ent          // insertion order
	ignored map[desc]int   // writes issued after the table became immutable
	nIgn    int            // number of such writes
	dirty   bool
	sorted  []int          // positions into ents in expected iteration order
	byDesc  map[desc][]int // desc -> ascending idx list
	byKey   map[int][]int  // key -> positions into ents, insertion order
}

func newView(keys [][]byte) *tview {
	v := &tview{keys: keys, keyIdx: map[string]int{}, ignored: map[desc]int{}, dirty: true}
	for i, k := range keys {
		v.keyIdx[string(k)] = i
	}
	return v
}

func (v *tview) add(e ent) {
	v.ents = append(v.ents, e)
	v.dirty = true
}

func (v *tview) addIgnored(d desc) { v.ignored[d]++; v.nIgn++ }

// last returns the history position of the newest accepted entry (0 = none).
func (v *tview) last() int {
	if len(v.ents) == 0 {
		return 0
	}
	return v.ents[len(v.ents)-1].idx
}

// build (re)computes the derived indexes. Expected iteration order: key
// ascending, sequence number descending, and among entries with the same key
// AND the same sequence number the most recently inserted first (the engine
// stamps all entries of a batch with one number and relies on "later entry of
// the batch wins": storage.Manager.ApplyBatch, WAL replay, flushMemTable keeps
// the first version an iterator yields).
func (v *tview) build() {
	if !v.dirty {
		return
	}
	v.dirty = false
	v.sorted = v.sorted[:0]
	v.byDesc = map[desc][]int{}
	v.byKey = map[int][]int{}
	for p := range v.ents {
		e := &v.ents[p]
		v.sorted = append(v.sorted, p)
		v.byDesc[e.d()] = append(v.byDesc[e.d()], e.idx)
		v.byKey[e.k] = append(v.byKey[e.k], p)
	}
	sort.SliceStable(v.sorted, func(i, j int) bool {
		a, b := &v.ents[v.sorted[i]], &v.ents[v.sorted[j]]
		if a.k != b.k {
			return a.k < b.k
		}
		if a.seq != b.seq {
			return a.seq > b.seq
		}
		return a.idx > b.idx
	})
}

// viol is an oracle failure. Sig is short, stable and specific to the kind of
// failure; Msg carries the details of this instance.
type viol struct {
	Sig string `json:"sig"`
	Msg string `json:"msg"`
}

func (x *viol) Error() string { return x.Sig + ": " + x.Msg }

// obs is one position of an iterator as seen through its accessors.
type obs struct {
	Key []byte `json:"key"`
	Seq uint64 `json:"seq"`
	Del bool   `json:"del,omitempty"`
	Val []byte `json:"val"` // nil for a marker
}

// scanObs is one recorded iterator observation: optional Seek target, the
// entries yielded from there on, and whether the scan ran into the end.
type scanObs struct {
	HasTarget bool   `json:"has_target,omitempty"`
	Target    []byte `json:"target,omitempty"`
	Y         []obs  `json:"yielded"`
	Complete  bool   `json:"complete"`          // iterated until Valid()==false
	Lo        int    `json:"lo"`                // history positions <= Lo must be visible
	Hi        int    `json:"hi"`                // only history positions <= Hi may be visible
	Mutable   bool   `json:"mutable"`           // table was mutable when the iterator was created
	WF        string `json:"wf,omitempty"`      // accessor inconsistency found while collecting
	Via       string `json:"via,omitempty"`     // "raw" | "adapter"
	Overrun   bool   `json:"overrun,omitempty"` // more positions than entries ever inserted
	// Positioned: Valid() right after SeekToFirst/Seek/SeekToLast
	Positioned bool `json:"positioned"`
}

func mutTag(m bool) string {
	if m {
		return "mutable"
	}
	return "immutable"
}

// checkScan compares one iterator observation with the model.
func (v *tview) checkScan(o *scanObs) *viol {
	v.build()
	pre := "iter/" + mutTag(o.Mutable) + "/"
	if o.WF != "" {
		return &viol{pre + "malformed-position", o.WF}
	}
	if o.Overrun {
		return &viol{pre + "does-not-terminate", fmt.Sprintf("iterator yielded more than %d positions (more than were ever inserted)", len(o.Y)-1)}
	}
	ys := make([]desc, len(o.Y))
	for i := range o.Y {
		y := &o.Y[i]
		ki, ok := v.keyIdx[string(y.Key)]
		if !ok {
			return &viol{pre + "phantom-key", fmt.Sprintf("position %d has key %x which was never inserted", i, y.Key)}
		}
		ys[i] = desc{ki, y.Seq, y.Del, string(y.Val)}
		if o.HasTarget && bytes.Compare(y.Key, o.Target) < 0 {
			return &viol{pre + "seek-before-target", fmt.Sprintf("Seek(%x) yielded smaller key %x at position %d", o.Target, y.Key, i)}
		}
	}
	for i := 1; i < len(ys); i++ {
		a, b := ys[i-1], ys[i]
		if a.k > b.k {
			return &viol{pre + "key-order", fmt.Sprintf("position %d %v comes after %v", i, b, a)}
		}
		if a.k == b.k && a.seq < b.seq {
			return &viol{pre + "seq-order", fmt.Sprintf("position %d %v (newer) comes after older version %v", i, b, a)}
		}
	}
	// nothing that was not inserted, nothing more often than inserted
	cnt := map[desc]int{}
	for _, d := range ys {
		cnt[d]++
	}
	seen := map[desc]bool{}
	for i, d := range ys {
		if seen[d] {
			continue
		}
		seen[d] = true
		lst := v.byDesc[d]
		if len(lst) == 0 {
			if v.ignored[d] > 0 {
				return &viol{"immutable-table-changed/iter", fmt.Sprintf("position %d shows %v which was written after SetImmutable", i, d)}
			}
			return &viol{pre + "phantom-entry", fmt.Sprintf("position %d shows %v which was never inserted", i, d)}
		}
		allowed := sort.SearchInts(lst, o.Hi+1) // number of idx <= Hi
		if cnt[d] > allowed {
			if cnt[d] > len(lst) {
				return &viol{pre + "duplicate-entry", fmt.Sprintf("%v yielded %d times, inserted %d times", d, cnt[d], len(lst))}
			}
			return &viol{pre + "entry-from-the-future", fmt.Sprintf("%v yielded %d times but only %d such insertions can have started (hi=%d)", d, cnt[d], allowed, o.Hi)}
		}
	}
	// completeness: everything inserted before the iterator was created
	lo := 0
	if o.HasTarget {
		lo = sort.Search(len(v.sorted), func(p int) bool {
			return bytes.Compare(v.keys[v.ents[v.sorted[p]].k], o.Target) >= 0
		})
	}
	hi := len(v.sorted)
	if !o.Complete {
		if len(ys) == 0 {
			hi = lo
		} else {
			l := ys[len(ys)-1]
			hi = sort.Search(len(v.sorted), func(p int) bool {
				e := &v.ents[v.sorted[p]]
				return e.k > l.k || (e.k == l.k && e.seq <= l.seq)
			})
		}
	}
	need := map[desc]int{}
	for p := lo; p < hi; p++ {
		e := &v.ents[v.sorted[p]]
		if e.idx <= o.Lo {
			need[e.d()]++
		}
	}
	for p := lo; p < hi; p++ {
		e := &v.ents[v.sorted[p]]
		d := e.d()
		if n, ok := need[d]; ok {
			delete(need, d)
			if cnt[d] < n {
				newer := 0
				holdsMax := "no-seq-maxuint64"
				for q := range v.ents {
					if v.ents[q].idx > e.idx && v.ents[q].idx <= o.Lo {
						newer++
					}
					if v.ents[q].seq == math.MaxUint64 && v.ents[q].idx <= o.Lo {
						// a mutable table's snapshot counter wraps to 0 at 2^64-1 (known finding)
						holdsMax = "table-holds-seq-maxuint64"
					}
				}
				kind := "missing-entry"
				if o.HasTarget || !o.Complete {
					kind = "missing-entry-after-seek"
				}
				return &viol{pre + kind + "/" + holdsMax, fmt.Sprintf(
					"%v (history position <= %d, %d later insertions also completed before the iterator was created) was inserted %d times before the iterator was created but yielded %d times; yielded %d positions, complete=%v, target=%x",
					d, o.Lo, newer, n, cnt[d], len(ys), o.Complete, o.Target)}
			}
		}
	}
	// order among entries with equal key and equal sequence number: the yielded
	// descs must embed into the expected order
	p := lo
	for i, d := range ys {
		for p < len(v.sorted) {
			e := &v.ents[v.sorted[p]]
			if e.idx <= o.Hi && e.d() == d {
				break
			}
			p++
		}
		if p == len(v.sorted) {
			return &viol{pre + "tie-order", fmt.Sprintf("position %d %v: among entries with equal key and sequence number the most recently inserted must come first", i, d)}
		}
		p++
	}
	return nil
}

// getObs is one recorded point lookup.
type getObs struct {
	K       int    `json:"k"`
	Found   bool   `json:"found"`
	Val     []byte `json:"val"` // nil = marker (or not found)
	Lo      int    `json:"lo"`
	Hi      int    `json:"hi"`
	Mutable bool   `json:"mutable"`
	Op      string `json:"op"` // "get" | "contains"
}

// checkGet: the answer must be the model's answer for SOME table state between
// "entries <= Lo" and "entries <= Hi" (Get runs atomically with respect to
// the writer, so it sees a prefix of the history).
func (v *tview) checkGet(o *getObs) *viol {
	v.build()
	pre := o.Op + "/" + mutTag(o.Mutable) + "/"
	ps := v.byKey[o.K]
	// states to consider: m = Lo, and every position of this key in (Lo, Hi]
	type state struct {
		n    int // number of entries of the key in the state
		best int // position into ents of the expected winner
		m    int // the state holds the entries with idx <= m
	}
	var states []state
	cur := state{best: -1, m: o.Lo}
	emitted := false
	for _, p := range ps {
		e := &v.ents[p]
		if e.idx > o.Hi {
			break
		}
		if e.idx > o.Lo && !emitted {
			states = append(states, cur)
			emitted = true
		}
		if cur.best < 0 || e.seq >= v.ents[cur.best].seq {
			cur.best = p // >= : later insertion wins a tie
		}
		cur.n++
		if e.idx > o.Lo {
			cur.m = e.idx
			states = append(states, cur)
		}
	}
	if !emitted {
		states = append(states, cur)
	}
	for _, s := range states {
		if s.best < 0 {
			if !o.Found {
				return nil
			}
			continue
		}
		if !o.Found {
			continue
		}
		if o.Op == "contains" {
			return nil
		}
		b := &v.ents[s.best]
		if b.del == (o.Val == nil) && (b.del || b.val == string(o.Val)) {
			return nil
		}
	}
	// classify
	st := states[len(states)-1]
	if !o.Found {
		return &viol{pre + "not-found", fmt.Sprintf("k%d not found although %d entries of it were inserted before the call (lo=%d)", o.K, states[0].n, o.Lo)}
	}
	if st.best < 0 {
		if o.Val != nil && v.ignoredHas(o.K, o.Val) {
			return &viol{"immutable-table-changed/" + o.Op, fmt.Sprintf("k%d found with value %x that was written after SetImmutable", o.K, o.Val)}
		}
		return &viol{pre + "phantom", fmt.Sprintf("k%d found (val=%x nil=%v) but never inserted (hi=%d)", o.K, o.Val, o.Val == nil, o.Hi)}
	}
	best := &v.ents[st.best]
	// does the answer match another entry of the key?
	var match *ent
	for _, p := range ps {
		e := &v.ents[p]
		if e.idx > o.Hi {
			break
		}
		if e.del == (o.Val == nil) && (e.del || e.val == string(o.Val)) {
			if match == nil || e.seq > match.seq {
				match = e
			}
		}
	}
	// is the answer one of the tied highest entries of some admissible state?
	tied := false
	for _, s := range states {
		if s.best < 0 {
			continue
		}
		for _, p := range ps {
			e := &v.ents[p]
			if e.idx > s.m {
				break
			}
			if e.seq == v.ents[s.best].seq && e.del == (o.Val == nil) && (e.del || e.val == string(o.Val)) {
				tied = true
				match, best = e, &v.ents[s.best]
			}
		}
	}
	switch {
	case match == nil:
		if o.Val != nil && v.ignoredHas(o.K, o.Val) {
			return &viol{"immutable-table-changed/" + o.Op, fmt.Sprintf("k%d returned value %x that was written after SetImmutable; expected %v", o.K, o.Val, best.d())}
		}
		if o.Val == nil && !best.del {
			return &viol{pre + "marker-instead-of-value", fmt.Sprintf("k%d reads as deleted, expected %v", o.K, best.d())}
		}
		return &viol{pre + "unknown-value", fmt.Sprintf("k%d returned val=%x which no entry of the key has; expected %v", o.K, o.Val, best.d())}
	case tied || match.seq == best.seq:
		return &viol{pre + "tie-not-latest", fmt.Sprintf("k%d returned %v; expected the most recently inserted of the entries with the highest sequence number, %v", o.K, match.d(), best.d())}
	default:
		return &viol{pre + "not-highest-seq", fmt.Sprintf("k%d returned %v; expected the entry with the highest sequence number %v", o.K, match.d(), best.d())}
	}
}

func (v *tview) ignoredHas(k int, val []byte) bool {
	for d := range v.ignored {
		if d.k == k && !d.del && d.val == string(val) {
			return true
		}
	}
	return false
}

// expectGet returns the model's answer for the full current content.
func (v *tview) expectGet(k int) (found bool, e *ent) {
	v.build()
	best := -1
	for _, p := range v.byKey[k] {
		if best < 0 || v.ents[p].seq >= v.ents[best].seq {
			best = p
		}
	}
	if best < 0 {
		return false, nil
	}
	return true, &v.ents[best]
}

// valueBytes builds the value of the write with the given tag: values of 4+
// bytes start with the tag so that a read identifies the write.
func valueBytes(tag, l int) []byte {
	if l < 0 {
		return nil
	}
	b := make([]byte, l)
	for i := range b {
		b[i] = byte(tag*7 + i*13 + 1)
	}
	if l >= 4 {
		b[0], b[1], b[2], b[3] = byte(tag>>24), byte(tag>>16), byte(tag>>8), byte(tag)
	}
	return b
}

// targets derives the Seek targets of a key pool: every key, its successor
// (key+0x00), its proper prefix, the empty target and a target above all keys.
func targets(keys [][]byte) [][]byte {
	var out [][]byte
	out = append(out, []byte{})
	for _, k := range keys {
		out = append(out, k)
		out = append(out, append(append([]byte{}, k...), 0))
		if len(k) > 1 {
			out = append(out, k[:len(k)-1])
		}
	}
	if len(keys) > 0 {
		out = append(out, append(append([]byte{}, keys[len(keys)-1]...), 0xff))
	}
	return out
}

//go:build !race

package c18

const raceEnabled = false

package c18

// Sequential, model-based part: generated operation sequences against one
// MemTable (TestPropTable) or a MemTablePool (TestPropPool), compared with the
// multi-version map model after every step.

import (
	"bytes"
	"fmt"
	"math"

	"github.com/KevoDB/kevo/pkg/config"
	"github.com/KevoDB/kevo/pkg/memtable"
	"pgregory.net/rapid"

	"verif/internal/ev"
	"verif/internal/gen"
)

// Act is one positioning + scan on an iterator.
type Act struct {
	T int `json:"t"` // index into targets(keys); -1 = SeekToFirst; -2 = adapter SeekToLast
	N int `json:"n"` // positions to read afterwards; -1 = until the end
}

// Op is one step of a sequential case (and one writer step of a concurrent case).
type Op struct {
	Op   string `json:"op"`             // put del get contains pget iter hold use imm switch setactive tables
	Tb   int    `json:"tb,omitempty"`   // pool mode: 0 = active table, i = i-th newest immutable (mod count)
	K    int    `json:"k,omitempty"`    // key index
	Seq  uint64 `json:"seq,omitempty"`  // sequence number of a write
	VL   int    `json:"vl,omitempty"`   // value length of a put; -1 = nil slice
	Slot int    `json:"slot,omitempty"` // hold/use: iterator slot
	Ad   bool   `json:"adapter,omitempty"`
	Acts []Act  `json:"acts,omitempty"`
	Pre  []Op   `json:"pre,omitempty"` // setactive: writes applied to the table before it is handed to the pool
}

// SCase is a sequential case.
type SCase struct {
	Pool bool     `json:"pool"`
	Keys [][]byte `json:"keys"`
	Ops  []Op     `json:"ops"`
}

// ---------------------------------------------------------------- generator

// Histories are drawn with rapid.SliceOfN over a Custom element generator so
// that the shrinker can delete steps in the middle of a history. Sequence
// numbers are drawn as (mode, argument) per write and resolved to concrete
// numbers afterwards, because several modes are relative to the previous write.

type seqState struct{ last uint64 }

// gOp is a drawn, not yet resolved step.
type gOp struct {
	Op   Op
	Mode string
	Arg  uint64
	Pre  []gOp
}

// drawSeqMode draws how the sequence number of a write relates to the
// previous one: monotone runs (what the engine does), ties (all entries of a
// batch share one number), small repeated/non-monotone numbers, steps
// backwards and the edges of the domain.
func drawSeqMode(t *rapid.T) (string, uint64) {
	switch m := rapid.SampledFrom([]string{"next", "next", "next", "same", "same", "small", "small", "small", "back", "edge"}).Draw(t, "seqmode"); m {
	case "small":
		return m, rapid.Uint64Range(0, 6).Draw(t, "seqsmall")
	case "back":
		return m, rapid.Uint64Range(1, 3).Draw(t, "seqback")
	case "edge":
		return m, rapid.SampledFrom([]uint64{0, 1, 1 << 32, 1 << 63, math.MaxUint64 - 1, math.MaxUint64}).Draw(t, "seqedge")
	default:
		return m, 0
	}
}

func (st *seqState) resolve(mode string, arg uint64) uint64 {
	var s uint64
	switch mode {
	case "next":
		s = st.last + 1
	case "same":
		s = st.last
	case "back":
		s = st.last - arg
		if s > st.last { // wrapped below zero
			s = 0
		}
	default:
		s = arg
	}
	if s == math.MaxUint64 && !flagOn("seq_max_uint64") {
		ev.R().Exclude("seq_max_uint64")
		s = math.MaxUint64 - 1
	}
	st.last = s
	return s
}

// resolveOps turns drawn steps into concrete ones.
func resolveOps(st *seqState, in []gOp) []Op {
	out := make([]Op, 0, len(in))
	for _, g := range in {
		o := g.Op
		if o.Op == "put" || o.Op == "del" {
			o.Seq = st.resolve(g.Mode, g.Arg)
		}
		if len(g.Pre) > 0 {
			o.Pre = resolveOps(st, g.Pre)
		}
		out = append(out, o)
	}
	return out
}

func drawVL(t *rapid.T) int {
	switch rapid.SampledFrom([]string{"tag", "tag", "tag", "tiny", "empty", "nil", "medium"}).Draw(t, "vclass") {
	case "tag":
		return rapid.IntRange(4, 16).Draw(t, "vl")
	case "tiny":
		return rapid.IntRange(1, 3).Draw(t, "vl")
	case "empty":
		return 0
	case "nil":
		return -1
	default:
		return rapid.IntRange(100, 600).Draw(t, "vl")
	}
}

func drawAct(t *rapid.T, ntg int, adapter bool) Act {
	a := Act{}
	switch rapid.SampledFrom([]string{"first", "seek", "seek", "seek", "last"}).Draw(t, "pos") {
	case "first":
		a.T = -1
	case "last":
		if adapter {
			a.T = -2
		} else {
			a.T = -1
		}
	default:
		a.T = rapid.IntRange(0, ntg-1).Draw(t, "target")
	}
	if rapid.Bool().Draw(t, "all") {
		a.N = -1
	} else {
		a.N = rapid.IntRange(0, 6).Draw(t, "n")
	}
	return a
}

func drawActs(t *rapid.T, ntg int, adapter bool) []Act {
	return rapid.SliceOfN(rapid.Custom(func(t *rapid.T) Act { return drawAct(t, ntg, adapter) }), 1, 3).Draw(t, "acts")
}

func drawWrite(t *rapid.T, nk int, hot []int) gOp {
	k := rapid.IntRange(0, nk-1).Draw(t, "k")
	if len(hot) > 0 && rapid.Bool().Draw(t, "hotkey") {
		k = hot[rapid.IntRange(0, len(hot)-1).Draw(t, "hot")]
	}
	g := gOp{}
	if rapid.IntRange(0, 9).Draw(t, "isdel") < 3 {
		g.Op = Op{Op: "del", K: k}
	} else {
		g.Op = Op{Op: "put", K: k, VL: drawVL(t)}
	}
	g.Mode, g.Arg = drawSeqMode(t)
	return g
}

func genSCase(t *rapid.T, pool bool) SCase {
	c := SCase{Pool: pool, Keys: gen.Keys(t, 2, 8)}
	nk := len(c.Keys)
	ntg := len(targets(c.Keys))
	hot := []int{rapid.IntRange(0, nk-1).Draw(t, "hot0"), rapid.IntRange(0, nk-1).Draw(t, "hot1")}
	var ops []string
	add := func(name string, w int) {
		for i := 0; i < w; i++ {
			ops = append(ops, name)
		}
	}
	add("write", 14)
	add("get", 2)
	add("contains", 1)
	add("iter", 4)
	add("hold", 2)
	add("use", 3)
	if pool {
		add("pget", 3)
		add("switch", 3)
		add("setactive", 1)
		add("tables", 1)
	} else {
		add("imm", 1)
	}
	step := rapid.Custom(func(t *rapid.T) gOp {
		switch name := rapid.SampledFrom(ops).Draw(t, "op"); name {
		case "write":
			g := drawWrite(t, nk, hot)
			if pool && rapid.IntRange(0, 6).Draw(t, "toimm") == 6 {
				g.Op.Tb = rapid.IntRange(1, 4).Draw(t, "tb")
			}
			return g
		case "get", "contains":
			o := Op{Op: name, K: rapid.IntRange(0, nk-1).Draw(t, "k")}
			if pool {
				o.Tb = rapid.IntRange(0, 4).Draw(t, "tb")
			}
			return gOp{Op: o}
		case "pget":
			return gOp{Op: Op{Op: "pget", K: rapid.IntRange(0, nk-1).Draw(t, "k")}}
		case "iter", "hold":
			o := Op{Op: name, Ad: rapid.Bool().Draw(t, "adapter")}
			if pool {
				o.Tb = rapid.IntRange(0, 4).Draw(t, "tb")
			}
			if name == "hold" {
				o.Slot = rapid.IntRange(0, 2).Draw(t, "slot")
			} else {
				o.Acts = drawActs(t, ntg, o.Ad)
			}
			return gOp{Op: o}
		case "use":
			o := Op{Op: "use", Slot: rapid.IntRange(0, 2).Draw(t, "slot")}
			o.Acts = drawActs(t, ntg, true) // -2 is degraded for raw iterators at run time
			return gOp{Op: o}
		case "setactive":
			g := gOp{Op: Op{Op: "setactive"}}
			g.Pre = rapid.SliceOfN(rapid.Custom(func(t *rapid.T) gOp { return drawWrite(t, nk, hot) }), 0, 5).Draw(t, "pre")
			return g
		default:
			return gOp{Op: Op{Op: name}}
		}
	})
	c.Ops = resolveOps(&seqState{}, rapid.SliceOfN(step, 8, 60).Draw(t, "ops"))
	return c
}

// ---------------------------------------------------------------- classification

func classifySeq(c *SCase) (nontrivial bool, classes []string) {
	type kv struct {
		k   int
		seq uint64
	}
	// a coarse replay of which table each accepted write lands in
	cur := 0           // id of the active table
	ntabs := 1         // tables in the pool
	activeEnts := 0    // entries in the active table
	immutable := false // table mode: SetImmutable seen
	lastSeq := map[[2]int]uint64{}
	seenKV := map[[2]int]map[uint64]bool{}
	keyTables := map[int]map[int]bool{}
	versions := map[[2]int]int{}
	nonmono, tie, readsAfter, marker, edge0, edgeMax, afterImm, multiTable, held, seekBetween, adapter := false, false, false, false, false, false, false, false, false, false, false
	nonmonoSeen := false
	write := func(o *Op) {
		tk := [2]int{cur, o.K}
		activeEnts++
		versions[tk]++
		if versions[tk] >= 2 && o.Seq <= lastSeq[tk] {
			nonmonoSeen = true
		}
		if o.Seq > lastSeq[tk] || versions[tk] == 1 {
			lastSeq[tk] = o.Seq
		}
		if seenKV[tk] == nil {
			seenKV[tk] = map[uint64]bool{}
		}
		if seenKV[tk][o.Seq] {
			tie = true
		}
		seenKV[tk][o.Seq] = true
		if keyTables[o.K] == nil {
			keyTables[o.K] = map[int]bool{}
		}
		keyTables[o.K][cur] = true
		if len(keyTables[o.K]) >= 2 {
			multiTable = true
		}
		if o.Op == "del" {
			marker = true
		}
		if o.Seq == 0 {
			edge0 = true
		}
		if o.Seq >= math.MaxUint64-1 {
			edgeMax = true
		}
	}
	tg := targets(c.Keys)
	isKey := map[string]bool{}
	for _, k := range c.Keys {
		isKey[string(k)] = true
	}
	for i := range c.Ops {
		o := &c.Ops[i]
		switch o.Op {
		case "put", "del":
			if (c.Pool && o.Tb > 0 && ntabs > 1) || (!c.Pool && immutable) {
				afterImm = true
				continue
			}
			write(o)
		case "imm":
			immutable = true
		case "switch":
			cur++
			ntabs++
			activeEnts = 0
		case "setactive":
			cur++
			if activeEnts > 0 {
				ntabs++
			}
			activeEnts = 0
			for j := range o.Pre {
				write(&o.Pre[j])
			}
		case "hold":
			held = true
		case "get", "contains", "pget", "iter", "use":
			if nonmonoSeen {
				nonmono = true
			}
			if immutable || ntabs > 1 {
				readsAfter = true
			}
			if o.Ad {
				adapter = true
			}
			for _, a := range o.Acts {
				if a.T >= 0 && !isKey[string(tg[a.T])] {
					seekBetween = true
				}
			}
		}
	}
	// the audit after every step reads everything, so non-monotone versions are always read back
	if nonmonoSeen {
		nonmono = true
	}
	add := func(b bool, s string) {
		if b {
			classes = append(classes, s)
		}
	}
	add(nonmono, "nonmonotone_versions_of_a_key")
	add(tie, "equal_key_and_seq_tie")
	add(marker, "has_delete_marker")
	add(edge0, "seq_zero")
	add(edgeMax, "seq_near_maxuint64")
	add(afterImm, "write_to_immutable_table")
	add(readsAfter, "reads_after_immutable_or_switch")
	add(multiTable, "key_in_several_pool_tables")
	add(held, "iterator_held_across_writes")
	add(seekBetween, "seek_target_not_a_key")
	add(adapter, "through_iterator_adapter")
	return nonmono, classes
}

// ---------------------------------------------------------------- execution

type tmodel struct {
	id        int
	real      *memtable.MemTable
	v         *tview
	imm       bool
	sizeAtImm int64
}

type held struct {
	raw     *memtable.Iterator
	ad      *memtable.IteratorAdapter
	tm      *tmodel
	lo      int
	mutable bool
}

type runner struct {
	c     *SCase
	tg    [][]byte
	pool  *memtable.MemTablePool
	tabs  []*tmodel // [0] = active, then immutable tables newest first
	slots [3]*held
	hist  int
	nextT int
	// what GetMemTables order looked like (reported, not judged here: C05)
	orderNewestFirst, orderOldestFirst int
}

func newRunner(c *SCase) *runner {
	r := &runner{c: c, tg: targets(c.Keys)}
	if c.Pool {
		cfg := config.NewDefaultConfig("/nonexistent-c18")
		r.pool = memtable.NewMemTablePool(cfg)
		mts := r.pool.GetMemTables()
		if len(mts) != 1 {
			panic("fresh pool does not have exactly one table")
		}
		r.tabs = []*tmodel{{id: 0, real: mts[0], v: newView(c.Keys)}}
	} else {
		r.tabs = []*tmodel{{id: 0, real: memtable.NewMemTable(), v: newView(c.Keys)}}
	}
	r.nextT = 1
	return r
}

func (r *runner) sel(tb int) *tmodel {
	if tb <= 0 || len(r.tabs) == 1 {
		return r.tabs[0]
	}
	return r.tabs[1+(tb-1)%(len(r.tabs)-1)]
}

// applyWrite performs a write on tm (through the pool when tm is the active
// table of a pool) and updates the model.
func (r *runner) applyWrite(tm *tmodel, o *Op, tag int, viaPool bool) {
	// the caller's buffers: a private copy of the key (and of the value) is handed
	// to the table and overwritten as soon as the call has returned, the way a
	// caller that re-uses one request buffer does. The table must have captured
	// the bytes at call time; otherwise its content changes without a write.
	key := append([]byte{}, r.c.Keys[o.K]...)
	r.hist++
	var d desc
	if o.Op == "del" {
		if viaPool {
			r.pool.Delete(key, o.Seq)
		} else {
			tm.real.Delete(key, o.Seq)
		}
		d = desc{o.K, o.Seq, true, ""}
	} else {
		val := valueBytes(tag, o.VL)
		d = desc{o.K, o.Seq, false, string(val)}
		if viaPool {
			r.pool.Put(key, val, o.Seq)
		} else {
			tm.real.Put(key, val, o.Seq)
		}
		for i := range val {
			val[i] ^= 0xA5
		}
	}
	for i := range key {
		key[i] ^= 0x5A
	}
	if tm.imm {
		tm.v.addIgnored(d)
		return
	}
	tm.v.add(ent{k: d.k, seq: d.seq, del: d.del, val: d.val, idx: r.hist})
}

const noBound = math.MaxInt32

func (r *runner) newHeld(tm *tmodel, adapter bool) *held {
	h := &held{tm: tm, lo: tm.v.last(), mutable: !tm.imm}
	h.raw = tm.real.NewIterator()
	if adapter {
		h.ad = memtable.NewIteratorAdapter(h.raw)
	}
	return h
}

// runActs executes positioning+scan actions on a held iterator and checks
// each observation: everything inserted before the iterator was created must
// be there (h.lo), nothing that was never inserted may be.
func (r *runner) runActs(h *held, acts []Act) *viol {
	for _, a := range acts {
		if a.T == -2 && (h.ad == nil || h.lo != h.tm.v.last()) {
			a.T = -1
		}
		limit := len(h.tm.v.ents) + h.tm.v.nIgn + 1
		o := scan(h.raw, h.ad, a, r.tg, limit)
		o.Lo, o.Hi, o.Mutable = h.lo, noBound, h.mutable
		if a.T == -2 {
			// SeekToLast: "positions the iterator at the last key"
			o.HasTarget = false
			if n := len(h.tm.v.ents); n > 0 {
				h.tm.v.build()
				o.HasTarget = true
				o.Target = r.c.Keys[h.tm.v.ents[h.tm.v.sorted[n-1]].k]
				if !o.Positioned {
					return &viol{"adapter/seek-to-last-empty", fmt.Sprintf("SeekToLast on a table with %d entries is not valid", n)}
				}
			}
		}
		if v := h.tm.v.checkScan(&o); v != nil {
			v.Msg = fmt.Sprintf("table#%d via %s act=%+v: %s", h.tm.id, o.Via, a, v.Msg)
			return v
		}
	}
	return nil
}

// scan positions the iterator and reads up to a.N positions.
func scan(raw *memtable.Iterator, ad *memtable.IteratorAdapter, a Act, tg [][]byte, limit int) scanObs {
	o := scanObs{Via: "raw"}
	if a.T >= 0 {
		o.HasTarget, o.Target = true, tg[a.T]
	}
	n := a.N
	if ad != nil {
		o.Via = "adapter"
		switch {
		case a.T == -1:
			ad.SeekToFirst()
		case a.T == -2:
			ad.SeekToLast()
		default:
			ok := ad.Seek(o.Target)
			if ok != ad.Valid() {
				o.WF = fmt.Sprintf("adapter.Seek returned %v but Valid() is %v", ok, ad.Valid())
				return o
			}
		}
		o.Positioned = ad.Valid()
		for n != 0 && ad.Valid() {
			k, v, tomb, s := ad.Key(), ad.Value(), ad.IsTombstone(), ad.SequenceNumber()
			if k == nil {
				o.WF = "adapter.Key()==nil at a valid position"
				return o
			}
			if (v == nil) != tomb {
				o.WF = fmt.Sprintf("adapter: Value()==nil is %v but IsTombstone() is %v (key %x seq %d)", v == nil, tomb, k, s)
				return o
			}
			o.Y = append(o.Y, obs{Key: k, Seq: s, Del: tomb, Val: v})
			if len(o.Y) > limit {
				o.Overrun = true
				return o
			}
			more := ad.Next()
			if more != ad.Valid() {
				o.WF = fmt.Sprintf("adapter.Next returned %v but Valid() is %v", more, ad.Valid())
				return o
			}
			n--
		}
		o.Complete = !ad.Valid()
		return o
	}
	if a.T >= 0 {
		raw.Seek(o.Target)
	} else {
		raw.SeekToFirst()
	}
	o.Positioned = raw.Valid()
	for n != 0 && raw.Valid() {
		k, v, vt, tomb, s := raw.Key(), raw.Value(), raw.ValueType(), raw.IsTombstone(), raw.SequenceNumber()
		switch {
		case k == nil:
			o.WF = "Key()==nil at a valid position"
		case vt != memtable.TypeValue && vt != memtable.TypeDeletion:
			o.WF = fmt.Sprintf("ValueType()=%d at a valid position (key %x)", vt, k)
		case tomb != (vt == memtable.TypeDeletion):
			o.WF = fmt.Sprintf("IsTombstone()=%v but ValueType()=%d (key %x)", tomb, vt, k)
		case (v == nil) != tomb:
			o.WF = fmt.Sprintf("Value()==nil is %v but IsTombstone() is %v (key %x seq %d)", v == nil, tomb, k, s)
		}
		if o.WF != "" {
			return o
		}
		o.Y = append(o.Y, obs{Key: k, Seq: s, Del: tomb, Val: v})
		if len(o.Y) > limit {
			o.Overrun = true
			return o
		}
		raw.Next()
		n--
	}
	o.Complete = !raw.Valid()
	return o
}

// audit compares the complete visible state with the model.
func (r *runner) audit() *viol {
	for _, tm := range r.tabs {
		if tm.real.IsImmutable() != tm.imm {
			return &viol{"immutable-flag", fmt.Sprintf("table#%d IsImmutable()=%v, expected %v", tm.id, tm.real.IsImmutable(), tm.imm)}
		}
		if tm.imm && tm.real.ApproximateSize() != tm.sizeAtImm {
			return &viol{"immutable-table-changed/size", fmt.Sprintf("table#%d ApproximateSize changed from %d to %d after it became immutable", tm.id, tm.sizeAtImm, tm.real.ApproximateSize())}
		}
		for k := range r.c.Keys {
			val, found := tm.real.Get(r.c.Keys[k])
			g := getObs{K: k, Found: found, Val: val, Lo: tm.v.last(), Hi: noBound, Mutable: !tm.imm, Op: "get"}
			if v := tm.v.checkGet(&g); v != nil {
				v.Msg = fmt.Sprintf("table#%d: %s", tm.id, v.Msg)
				return v
			}
		}
		h := r.newHeld(tm, false)
		if v := r.runActs(h, []Act{{T: -1, N: -1}}); v != nil {
			return v
		}
	}
	if r.pool != nil {
		for k := range r.c.Keys {
			if v := r.checkPoolGet(k); v != nil {
				return v
			}
		}
	}
	return nil
}

// checkPoolGet: the pool answers from the newest table that contains the key.
func (r *runner) checkPoolGet(k int) *viol {
	val, found := r.pool.Get(r.c.Keys[k])
	var exp *ent
	expTab := -1
	for i, tm := range r.tabs {
		if f, e := tm.v.expectGet(k); f {
			exp, expTab = e, i
			break
		}
	}
	if exp == nil {
		if found {
			return &viol{"pool-get/phantom", fmt.Sprintf("k%d found (val=%x) but no table of the pool contains it", k, val)}
		}
		return nil
	}
	if !found {
		return &viol{"pool-get/not-found", fmt.Sprintf("k%d not found; expected %v from table#%d", k, exp.d(), r.tabs[expTab].id)}
	}
	if exp.del == (val == nil) && (exp.del || exp.val == string(val)) {
		return nil
	}
	for i := expTab + 1; i < len(r.tabs); i++ {
		if f, e := r.tabs[i].v.expectGet(k); f && e.del == (val == nil) && (e.del || e.val == string(val)) {
			return &viol{"pool-get/older-table-wins", fmt.Sprintf("k%d: pool returned %v of the older table#%d (position %d, 0 = active) instead of %v of table#%d (position %d)",
				k, e.d(), r.tabs[i].id, i, exp.d(), r.tabs[expTab].id, expTab)}
		}
	}
	return &viol{"pool-get/wrong-value", fmt.Sprintf("k%d: pool returned val=%x nil=%v, expected %v of table#%d", k, val, val == nil, exp.d(), r.tabs[expTab].id)}
}

func (r *runner) checkTables() *viol {
	mts := r.pool.GetMemTables()
	if len(mts) != len(r.tabs) {
		return &viol{"pool-tables/count", fmt.Sprintf("GetMemTables returned %d tables, the pool holds %d", len(mts), len(r.tabs))}
	}
	pos := map[*memtable.MemTable]int{}
	for i, m := range mts {
		if _, dup := pos[m]; dup {
			return &viol{"pool-tables/duplicate", fmt.Sprintf("GetMemTables lists one table twice (position %d)", i)}
		}
		pos[m] = i
	}
	for _, tm := range r.tabs {
		if _, ok := pos[tm.real]; !ok {
			return &viol{"pool-tables/missing", fmt.Sprintf("GetMemTables does not list table#%d", tm.id)}
		}
	}
	if n := r.pool.ImmutableCount(); n != len(r.tabs)-1 {
		return &viol{"pool-tables/immutable-count", fmt.Sprintf("ImmutableCount()=%d, expected %d", n, len(r.tabs)-1)}
	}
	// order: only reported (DESIGN D3 / property C05 judge it)
	if len(r.tabs) >= 3 {
		newest, oldest := true, true
		for i, tm := range r.tabs {
			if pos[tm.real] != i {
				newest = false
			}
			if i > 0 && pos[tm.real] != len(r.tabs)-i {
				oldest = false
			}
		}
		if pos[r.tabs[0].real] != 0 {
			oldest = false
		}
		if newest {
			r.orderNewestFirst++
		}
		if oldest {
			r.orderOldestFirst++
		}
	}
	return nil
}

// step executes op i; a non-nil result is an oracle failure.
func (r *runner) step(i int) *viol {
	o := &r.c.Ops[i]
	switch o.Op {
	case "put", "del":
		tm := r.sel(o.Tb)
		r.applyWrite(tm, o, i+1, r.pool != nil && tm == r.tabs[0])
	case "get", "contains":
		tm := r.sel(o.Tb)
		g := getObs{K: o.K, Lo: tm.v.last(), Hi: noBound, Mutable: !tm.imm, Op: o.Op}
		if o.Op == "get" {
			g.Val, g.Found = tm.real.Get(r.c.Keys[o.K])
		} else {
			g.Found = tm.real.Contains(r.c.Keys[o.K])
		}
		if v := tm.v.checkGet(&g); v != nil {
			v.Msg = fmt.Sprintf("table#%d: %s", tm.id, v.Msg)
			return v
		}
	case "pget":
		if r.pool != nil {
			return r.checkPoolGet(o.K)
		}
	case "iter":
		return r.runActs(r.newHeld(r.sel(o.Tb), o.Ad), o.Acts)
	case "hold":
		r.slots[o.Slot%3] = r.newHeld(r.sel(o.Tb), o.Ad)
	case "use":
		if h := r.slots[o.Slot%3]; h != nil {
			return r.runActs(h, o.Acts)
		}
	case "imm":
		tm := r.sel(o.Tb)
		if !tm.imm {
			tm.real.SetImmutable()
			tm.imm = true
			tm.sizeAtImm = tm.real.ApproximateSize()
		}
	case "switch":
		if r.pool == nil {
			return nil
		}
		old := r.tabs[0]
		ret := r.pool.SwitchToNewMemTable()
		if ret != old.real {
			return &viol{"pool-switch/returns-other-table", "SwitchToNewMemTable did not return the previously active table"}
		}
		old.imm = true
		old.sizeAtImm = old.real.ApproximateSize()
		var act *memtable.MemTable
		known := map[*memtable.MemTable]bool{}
		for _, tm := range r.tabs {
			known[tm.real] = true
		}
		for _, m := range r.pool.GetMemTables() {
			if !known[m] {
				if act != nil {
					return &viol{"pool-tables/unknown", "GetMemTables lists more than one new table after a switch"}
				}
				act = m
			}
		}
		if act == nil {
			return &viol{"pool-switch/no-new-active", "no new active table is listed after SwitchToNewMemTable"}
		}
		nt := &tmodel{id: r.nextT, real: act, v: newView(r.c.Keys)}
		r.nextT++
		r.tabs = append([]*tmodel{nt}, r.tabs...)
		return r.checkTables()
	case "setactive":
		if r.pool == nil {
			return nil
		}
		nt := &tmodel{id: r.nextT, real: memtable.NewMemTable(), v: newView(r.c.Keys)}
		r.nextT++
		for j := range o.Pre {
			r.applyWrite(nt, &o.Pre[j], (i+1)*100+j, false)
		}
		r.pool.SetActiveMemTable(nt.real)
		old := r.tabs[0]
		if len(old.v.ents) > 0 {
			// a non-empty active table is kept as the newest immutable table
			old.imm = true
			old.sizeAtImm = old.real.ApproximateSize()
			r.tabs = append([]*tmodel{nt}, r.tabs...)
		} else {
			r.tabs = append([]*tmodel{nt}, r.tabs[1:]...)
		}
		return r.checkTables()
	case "tables":
		if r.pool != nil {
			return r.checkTables()
		}
	}
	return nil
}

// runSeq executes a sequential case. It returns the failure and the index of
// the failing step.
func runSeq(c *SCase) (*viol, int) {
	if !validSCase(c) {
		return &viol{"harness/invalid-case", "case refers to keys or targets outside the pool"}, -1
	}
	r := newRunner(c)
	for i := range c.Ops {
		if v := r.step(i); v != nil {
			return v, i
		}
		if v := r.audit(); v != nil {
			v.Sig = v.Sig + "@audit"
			return v, i
		}
	}
	if r.pool != nil {
		ev.R().Count("getmemtables_order_active_then_newest_first", r.orderNewestFirst)
		ev.R().Count("getmemtables_order_active_then_oldest_first", r.orderOldestFirst)
	}
	return nil, -1
}

func validSCase(c *SCase) bool {
	if len(c.Keys) == 0 {
		return false
	}
	for i := 1; i < len(c.Keys); i++ {
		if bytes.Compare(c.Keys[i-1], c.Keys[i]) >= 0 {
			return false
		}
	}
	ntg := len(targets(c.Keys))
	okOp := func(o *Op) bool {
		if o.K < 0 || o.K >= len(c.Keys) || o.Tb < 0 || o.Slot < 0 {
			return false
		}
		for _, a := range o.Acts {
			if a.T < -2 || a.T >= ntg {
				return false
			}
		}
		return true
	}
	for i := range c.Ops {
		if !okOp(&c.Ops[i]) {
			return false
		}
		for j := range c.Ops[i].Pre {
			if !okOp(&c.Ops[i].Pre[j]) {
				return false
			}
		}
	}
	return true
}

package c18

// Concurrent part: one writer goroutine applies a generated history to one
// MemTable and publishes a progress counter after every step; 1-8 reader
// goroutines keep doing Get / Contains / Seek / iteration. A reader that
// loaded counter c BEFORE calling Get / creating its iterator must see at
// least the entries of steps 1..c, and whatever it sees must be a
// well-formed, sorted sub-multiset of the steps whose insertion can have begun
// (1..c'+1, c' = counter loaded AFTER the observation). After the writer's
// SetImmutable step nothing may change any more.

import (
	"bytes"
	"fmt"
	"runtime"
	"sort"
	"sync"
	"sync/atomic"

	"github.com/KevoDB/kevo/pkg/config"
	"github.com/KevoDB/kevo/pkg/memtable"
	"pgregory.net/rapid"

	"verif/internal/ev"
	"verif/internal/gen"
)

// RAct is one action of a reader's repeating pattern.
type RAct struct {
	A    string `json:"a"`           // get contains iter probe misc
	T    int    `json:"t,omitempty"` // probe: first Seek target
	N    int    `json:"n,omitempty"` // probe: number of Seeks on one iterator
	S    int    `json:"s,omitempty"` // probe: target stride
	K    int    `json:"k,omitempty"` // key index (get, contains)
	Ad   bool   `json:"adapter,omitempty"`
	Acts []Act  `json:"acts,omitempty"` // iter: positioning+scan actions on ONE iterator
	Y    int    `json:"y,omitempty"`    // runtime.Gosched() calls before the action
}

// CCase is a concurrent case.
type CCase struct {
	// Pool: the writer goes through a MemTablePool (put / del / switch) and
	// the readers call MemTablePool.Get; otherwise one bare MemTable.
	Pool  bool     `json:"pool,omitempty"`
	Keys  [][]byte `json:"keys"`
	W     []Op     `json:"w"`     // writer history: put / del / imm (table) or switch (pool)
	Burst int      `json:"burst"` // the writer yields after every Burst steps (0 = never)
	// Prefill: this many leading steps of W are applied before the readers start
	Prefill int      `json:"prefill"`
	R       [][]RAct `json:"r"` // one action pattern per reader
}

func genCCase(t *rapid.T) CCase {
	c := CCase{Keys: expandKeys(gen.Keys(t, 2, 12), rapid.IntRange(0, 3).Draw(t, "keymult"))}
	nk := len(c.Keys)
	ntg := len(targets(c.Keys))
	hot := []int{rapid.IntRange(0, nk-1).Draw(t, "hot0")}
	// sequence-number regime of this history: the engine's (monotone, the
	// entries of a batch sharing a number) or arbitrary
	engineLike := rapid.Bool().Draw(t, "enginelike")
	wstep := rapid.Custom(func(t *rapid.T) gOp {
		if !engineLike {
			return drawWrite(t, nk, hot)
		}
		g := gOp{Op: Op{Op: "put", K: rapid.IntRange(0, nk-1).Draw(t, "k"), VL: rapid.IntRange(4, 12).Draw(t, "vl")}, Mode: "next"}
		switch rapid.IntRange(0, 5).Draw(t, "kind") {
		case 4:
			g.Op = Op{Op: "del", K: g.Op.K}
		case 5:
			g.Mode = "same" // next entry of the same batch
		}
		return g
	})
	c.W = resolveOps(&seqState{}, rapid.SliceOfN(wstep, 150, 700).Draw(t, "w"))
	c.Pool = rapid.IntRange(0, 4).Draw(t, "pool") == 4
	if c.Pool {
		// the pool switches tables a few times during the history
		for _, pct := range rapid.SliceOfN(rapid.IntRange(5, 95), 0, 4).Draw(t, "switchpct") {
			at := len(c.W) * pct / 100
			c.W = append(c.W[:at], append([]Op{{Op: "switch"}}, c.W[at:]...)...)
		}
	}
	// one case in three freezes the table somewhere in the last two thirds of
	// the history; the writer keeps writing (those writes must be ignored)
	if !c.Pool && rapid.IntRange(0, 2).Draw(t, "hasimm") == 2 {
		at := len(c.W) * rapid.IntRange(33, 98).Draw(t, "immpct") / 100
		c.W = append(c.W[:at], append([]Op{{Op: "imm"}}, c.W[at:]...)...)
	}
	if rapid.Bool().Draw(t, "prefilled") {
		c.Prefill = len(c.W) * rapid.IntRange(1, 30).Draw(t, "prefillpct") / 100
	}
	if !flagOn("conc_insert_behind_existing") {
		// Known finding (Iterator.Seek re-reads the level-0 link): exclude by
		// construction every insertion that lands BEHIND existing nodes while
		// readers run, i.e. first insertions of a key and sequence numbers
		// lower than an existing version of the key.
		pre := make([]Op, 0, nk)
		for k := 0; k < nk; k++ {
			pre = append(pre, Op{Op: "put", K: k, VL: 4})
		}
		c.W = append(pre, c.W...)
		if c.Prefill < nk {
			c.Prefill = nk
		} else {
			c.Prefill += nk
		}
		maxSeq := map[int]uint64{}
		changed := false
		for i := range c.W {
			o := &c.W[i]
			if o.Op == "imm" || o.Op == "switch" {
				continue
			}
			if o.Seq < maxSeq[o.K] {
				o.Seq = maxSeq[o.K]
				changed = true
			}
			maxSeq[o.K] = o.Seq
		}
		if changed {
			ev.R().Exclude("conc_insert_behind_existing")
		}
	}
	c.Burst = rapid.SampledFrom([]int{0, 0, 1, 3, 16, 64}).Draw(t, "burst")
	ract := rapid.Custom(func(t *rapid.T) RAct {
		a := RAct{Y: rapid.SampledFrom([]int{0, 0, 0, 1, 3}).Draw(t, "y")}
		switch rapid.SampledFrom([]string{"probe", "probe", "probe", "probe", "probe", "seek", "seek", "get", "get", "contains", "full", "iter", "misc"}).Draw(t, "ra") {
		case "probe":
			// many Seeks on ONE iterator (no lock taken between them), each
			// judged in O(log n): the hot loop that overlaps the writer
			a.A = "probe"
			a.T = rapid.IntRange(0, ntg-1).Draw(t, "target")
			a.N = rapid.IntRange(8, 64).Draw(t, "n")
			a.S = rapid.IntRange(0, 7).Draw(t, "stride")
		case "get":
			a.A, a.K = "get", rapid.IntRange(0, nk-1).Draw(t, "k")
		case "contains":
			a.A, a.K = "contains", rapid.IntRange(0, nk-1).Draw(t, "k")
		case "seek":
			// short scans after a Seek: the cheap, frequent probe
			a.A = "iter"
			a.Ad = rapid.IntRange(0, 3).Draw(t, "adapter") == 3
			a.Acts = []Act{{T: rapid.IntRange(0, ntg-1).Draw(t, "target"), N: rapid.IntRange(1, 4).Draw(t, "n")}}
		case "full":
			a.A = "iter"
			a.Ad = rapid.IntRange(0, 3).Draw(t, "adapter") == 3
			a.Acts = []Act{{T: -1, N: -1}}
		case "iter":
			a.A = "iter"
			a.Ad = rapid.Bool().Draw(t, "adapter")
			a.Acts = drawActs(t, ntg, false)
		default:
			a.A = "misc"
		}
		return a
	})
	if c.Pool {
		ract = rapid.Custom(func(t *rapid.T) RAct {
			a := RAct{A: "pget", Y: rapid.SampledFrom([]int{0, 0, 0, 1, 3}).Draw(t, "y"), K: rapid.IntRange(0, nk-1).Draw(t, "k")}
			if rapid.IntRange(0, 7).Draw(t, "misc") == 7 {
				a.A = "misc"
			}
			return a
		})
	}
	c.R = rapid.SliceOfN(rapid.SliceOfN(ract, 1, 5), 1, 8).Draw(t, "readers")
	return c
}

// expandKeys multiplies a key pool: every key also with 1..mult one-byte
// suffixes (more distinct keys = more distinct tower positions).
func expandKeys(base [][]byte, mult int) [][]byte {
	seen := map[string]bool{}
	var out [][]byte
	add := func(k []byte) {
		if len(k) > 4096 || seen[string(k)] {
			return
		}
		seen[string(k)] = true
		out = append(out, k)
	}
	for _, k := range base {
		add(k)
		for j := 0; j < mult; j++ {
			add(append(append([]byte{}, k...), byte('0'+j)))
		}
	}
	sort.Slice(out, func(i, j int) bool { return bytes.Compare(out[i], out[j]) < 0 })
	return out
}

// prec: from history position idx on, the first entry (in iteration order)
// at or after a Seek target that a reader must see is sorted[pos].
type prec struct{ idx, pos int }

// probeIndex precomputes, per Seek target used by a probe action, the list of
// prec records (idx ascending, pos descending).
func probeIndex(c *CCase, v *tview, tg [][]byte) map[int][]prec {
	used := map[int]bool{}
	for _, pat := range c.R {
		for _, a := range pat {
			if a.A == "probe" {
				for j := 0; j < a.N; j++ {
					used[(a.T+j*a.S)%len(tg)] = true
				}
			}
		}
	}
	posOf := make([]int, len(v.ents))
	for pos, p := range v.sorted {
		posOf[p] = pos
	}
	out := map[int][]prec{}
	for t := range used {
		lo := sort.Search(len(v.sorted), func(p int) bool {
			return bytes.Compare(v.keys[v.ents[v.sorted[p]].k], tg[t]) >= 0
		})
		var recs []prec
		cur := -1
		for p := range v.ents {
			if posOf[p] >= lo && (cur < 0 || posOf[p] < cur) {
				cur = posOf[p]
				recs = append(recs, prec{v.ents[p].idx, cur})
			}
		}
		out[t] = recs
	}
	return out
}

// firstRequired returns the position (into v.sorted) of the first entry a
// Seek to the target must not skip when everything up to history position lo
// is visible; -1 = nothing is required.
func firstRequired(recs []prec, lo int) int {
	n := sort.Search(len(recs), func(i int) bool { return recs[i].idx > lo })
	if n == 0 {
		return -1
	}
	return recs[n-1].pos
}

func classifyConc(c *CCase) []string {
	var classes []string
	lastSeq := map[int]uint64{}
	seen := map[int]map[uint64]bool{}
	nonmono, tie, imm := false, false, false
	for i := range c.W {
		o := &c.W[i]
		if o.Op == "imm" {
			imm = true
			continue
		}
		if o.Op == "switch" {
			continue
		}
		if m, ok := lastSeq[o.K]; ok && o.Seq <= m {
			nonmono = true
		}
		if o.Seq > lastSeq[o.K] {
			lastSeq[o.K] = o.Seq
		} else if _, ok := lastSeq[o.K]; !ok {
			lastSeq[o.K] = o.Seq
		}
		if seen[o.K] == nil {
			seen[o.K] = map[uint64]bool{}
		}
		if seen[o.K][o.Seq] {
			tie = true
		}
		seen[o.K][o.Seq] = true
	}
	if nonmono {
		classes = append(classes, "conc:nonmonotone_versions_of_a_key")
	}
	if tie {
		classes = append(classes, "conc:equal_key_and_seq_tie")
	}
	if imm {
		classes = append(classes, "conc:set_immutable_during_run")
	}
	if len(c.R) >= 4 {
		classes = append(classes, "conc:readers>=4")
	}
	if c.Pool {
		classes = append(classes, "conc:pool_get_during_switches")
	}
	return classes
}

// CFail is a failed observation of a concurrent run (the recorded history
// fragment that the checker rejects).
type CFail struct {
	V      *viol    `json:"violation"`
	Reader int      `json:"reader"`
	Act    RAct     `json:"action"`
	Scan   *scanObs `json:"scan,omitempty"`
	Get    *getObs  `json:"get,omitempty"`
}

type cstats struct {
	maxOverlap  int // writer steps completed during the life of the busiest reader
	overlapping int // reader actions that started while the writer was running
	actions     int
	probes      int
}

// concView builds the model of the writer history.
func concView(c *CCase) (v *tview, immStep int) {
	v = newView(c.Keys)
	immStep = len(c.W) + 1
	for i := range c.W {
		o := &c.W[i]
		step := i + 1
		if o.Op == "imm" {
			if step < immStep {
				immStep = step
			}
			continue
		}
		var d desc
		if o.Op == "del" {
			d = desc{o.K, o.Seq, true, ""}
		} else {
			val := valueBytes(step, o.VL)
			if val == nil {
				val = []byte{}
			}
			d = desc{o.K, o.Seq, false, string(val)}
		}
		if step > immStep {
			v.addIgnored(d)
		} else {
			v.add(ent{k: d.k, seq: d.seq, del: d.del, val: d.val, idx: step})
		}
	}
	v.build()
	return v, immStep
}

func validCCase(c *CCase) bool {
	s := SCase{Keys: c.Keys, Ops: c.W}
	if !validSCase(&s) || len(c.R) == 0 || len(c.R) > 64 || c.Prefill < 0 || c.Prefill > len(c.W) {
		return false
	}
	for _, o := range c.W {
		if o.Op != "put" && o.Op != "del" && !(o.Op == "imm" && !c.Pool) && !(o.Op == "switch" && c.Pool) {
			return false
		}
	}
	ntg := len(targets(c.Keys))
	for _, pat := range c.R {
		if len(pat) == 0 {
			return false
		}
		for _, a := range pat {
			if a.K < 0 || a.K >= len(c.Keys) || a.T < 0 || a.T >= ntg || a.N < 0 || a.N > 4096 || a.S < 0 {
				return false
			}
			for _, x := range a.Acts {
				if x.T < -1 || x.T >= ntg {
					return false
				}
			}
		}
	}
	return true
}

// runConc executes the case once on a fresh table.
func runConc(c *CCase) (*CFail, cstats) {
	var st cstats
	if !validCCase(c) {
		return &CFail{V: &viol{"harness/invalid-case", "malformed concurrent case"}}, st
	}
	if c.Pool {
		return runConcPool(c)
	}
	v, immStep := concView(c)
	tg := targets(c.Keys)
	total := len(c.W)
	limit := total + 1
	mt := memtable.NewMemTable()
	pidx := probeIndex(c, v, tg)
	type ks struct {
		k   int
		seq uint64
	}
	known := make(map[ks]bool, len(v.ents))
	for i := range v.ents {
		known[ks{v.ents[i].k, v.ents[i].seq}] = true
	}

	var counter atomic.Int64
	var done, stop atomic.Bool
	start := make(chan struct{})
	var wg sync.WaitGroup
	fails := make([]*CFail, len(c.R))
	overlap := make([]int, len(c.R))
	overl := make([]int, len(c.R))
	nact := make([]int, len(c.R))
	nprobe := make([]int, len(c.R))

	apply := func(i int) {
		o := &c.W[i]
		switch o.Op {
		case "imm":
			mt.SetImmutable()
		case "del":
			mt.Delete(c.Keys[o.K], o.Seq)
		default:
			mt.Put(c.Keys[o.K], valueBytes(i+1, o.VL), o.Seq)
		}
		counter.Store(int64(i + 1))
	}
	for i := 0; i < c.Prefill; i++ {
		apply(i)
	}
	wg.Add(1)
	go func() { // the single writer
		defer wg.Done()
		defer done.Store(true)
		<-start
		for i := c.Prefill; i < len(c.W); i++ {
			if stop.Load() {
				return
			}
			apply(i)
			if c.Burst > 0 && (i+1)%c.Burst == 0 {
				runtime.Gosched()
			}
		}
	}()

	for ri := range c.R {
		wg.Add(1)
		go func(ri int) {
			defer wg.Done()
			pat := c.R[ri]
			<-start
			first := -1
			for i := 0; ; i++ {
				a := pat[i%len(pat)]
				for y := 0; y < a.Y; y++ {
					runtime.Gosched()
				}
				wasDone := done.Load()
				lo := int(counter.Load())
				if first < 0 {
					first = lo
				}
				overlap[ri] = lo - first
				nact[ri]++
				if !wasDone {
					overl[ri]++
				}
				mutable := lo < immStep
				var f *CFail
				switch a.A {
				case "get", "contains":
					g := getObs{K: a.K, Lo: lo, Mutable: mutable, Op: a.A}
					if a.A == "get" {
						g.Val, g.Found = mt.Get(c.Keys[a.K])
					} else {
						g.Found = mt.Contains(c.Keys[a.K])
					}
					g.Hi = int(counter.Load()) + 1
					if x := v.checkGet(&g); x != nil {
						f = &CFail{V: x, Reader: ri, Act: a, Get: &g}
					}
				case "probe":
					it := mt.NewIterator()
					for j := 0; j < a.N && f == nil; j++ {
						t := (a.T + j*a.S) % len(tg)
						it.Seek(tg[t])
						valid := it.Valid()
						bad := false
						req := firstRequired(pidx[t], lo)
						var y obs
						if valid {
							y = obs{Key: it.Key(), Seq: it.SequenceNumber(), Del: it.IsTombstone()}
							ki, ok := v.keyIdx[string(y.Key)]
							switch {
							case !ok || !known[ks{ki, y.Seq}] || bytes.Compare(y.Key, tg[t]) < 0:
								bad = true
							case req >= 0:
								e := &v.ents[v.sorted[req]]
								bad = ki > e.k || (ki == e.k && y.Seq < e.seq)
							}
						} else {
							bad = req >= 0
						}
						nprobe[ri]++
						if !bad {
							continue
						}
						// let the general checker name the failure
						o := scanObs{HasTarget: true, Target: tg[t], Via: "raw", Positioned: valid, Complete: !valid, Lo: lo, Mutable: mutable}
						if valid {
							y.Val = it.Value()
							o.Y = []obs{y}
						}
						o.Hi = int(counter.Load()) + 1
						vv := v.checkScan(&o)
						if vv == nil {
							vv = &viol{"probe/disagrees-with-checker", fmt.Sprintf("probe of target %x rejected, general checker accepts (harness defect)", tg[t])}
						}
						f = &CFail{V: vv, Reader: ri, Act: a, Scan: &o}
					}
				case "iter":
					raw := mt.NewIterator()
					var ad *memtable.IteratorAdapter
					if a.Ad {
						ad = memtable.NewIteratorAdapter(raw)
					}
					for _, x := range a.Acts {
						o := scan(raw, ad, x, tg, limit)
						o.Lo, o.Mutable = lo, mutable
						o.Hi = int(counter.Load()) + 1
						if vv := v.checkScan(&o); vv != nil {
							f = &CFail{V: vv, Reader: ri, Act: a, Scan: &o}
							break
						}
					}
				default:
					if mt.ApproximateSize() < 0 {
						f = &CFail{V: &viol{"size/negative", "ApproximateSize() < 0"}, Reader: ri, Act: a}
					}
					if lo >= immStep && !mt.IsImmutable() {
						f = &CFail{V: &viol{"immutable-flag", "IsImmutable()==false after SetImmutable returned"}, Reader: ri, Act: a}
					}
				}
				if f != nil {
					f.V.Sig = "conc/" + f.V.Sig
					f.V.Msg = fmt.Sprintf("reader %d, action %d (%s), lower bound=step %d of %d, immutable from step %d: %s", ri, i, a.A, lo, total, immStep, f.V.Msg)
					fails[ri] = f
					stop.Store(true)
					return
				}
				if stop.Load() || (wasDone && i >= len(pat)-1) {
					return
				}
			}
		}(ri)
	}
	close(start)
	wg.Wait()

	var fail *CFail
	for ri := range c.R {
		if fails[ri] != nil && fail == nil {
			fail = fails[ri]
		}
		if overlap[ri] > st.maxOverlap {
			st.maxOverlap = overlap[ri]
		}
		st.overlapping += overl[ri]
		st.actions += nact[ri]
		st.probes += nprobe[ri]
	}
	return fail, st
}

// ---------------------------------------------------------------- pool variant

// pans is the model's MemTablePool.Get answer for one key from history
// position step on: the winner (highest sequence number, latest insertion
// among equal numbers) of the key's entries in the NEWEST table that contains
// the key. All writes go to the active table, so that table is the one the
// key's latest write went to.
type pans struct {
	step int
	d    desc
}

func poolAnswers(c *CCase) map[int][]pans {
	out := map[int][]pans{}
	best := map[int]desc{} // winner per key in the active table
	for i := range c.W {
		o := &c.W[i]
		step := i + 1
		if o.Op == "switch" {
			best = map[int]desc{}
			continue
		}
		var d desc
		if o.Op == "del" {
			d = desc{o.K, o.Seq, true, ""}
		} else {
			d = desc{o.K, o.Seq, false, string(valueBytes(step, o.VL))}
		}
		if b, ok := best[o.K]; !ok || d.seq >= b.seq {
			best[o.K] = d
		}
		out[o.K] = append(out[o.K], pans{step, best[o.K]})
	}
	return out
}

// checkPoolGetConc: the answer must be the model's for some prefix of the
// history between lo and hi.
func checkPoolGetConc(ans []pans, k int, val []byte, found bool, lo, hi int) *viol {
	match := func(d desc) bool {
		return found && d.del == (val == nil) && (d.del || d.val == string(val))
	}
	first := sort.Search(len(ans), func(i int) bool { return ans[i].step > lo }) // writes after lo
	if first == 0 {
		if !found {
			return nil
		}
	} else if match(ans[first-1].d) {
		return nil
	}
	for i := first; i < len(ans) && ans[i].step <= hi; i++ {
		if match(ans[i].d) {
			return nil
		}
	}
	switch {
	case !found:
		return &viol{"pool-get/not-found", fmt.Sprintf("k%d not found although a write to it completed before the call; expected %v", k, ans[first-1].d)}
	case first == 0 && (len(ans) == 0 || ans[0].step > hi):
		return &viol{"pool-get/phantom", fmt.Sprintf("k%d found (val=%x nil=%v) but not written yet", k, val, val == nil)}
	}
	exp := "nothing"
	if first > 0 {
		exp = ans[first-1].d.String()
	}
	for i := 0; i < first-1; i++ {
		if match(ans[i].d) {
			return &viol{"pool-get/stale", fmt.Sprintf("k%d: pool returned the superseded %v, expected %s (or a later write up to step %d)", k, ans[i].d, exp, hi)}
		}
	}
	return &viol{"pool-get/wrong-value", fmt.Sprintf("k%d: pool returned val=%x nil=%v, expected %s (or a later write up to step %d)", k, val, val == nil, exp, hi)}
}

func runConcPool(c *CCase) (*CFail, cstats) {
	var st cstats
	ans := poolAnswers(c)
	total := len(c.W)
	pool := memtable.NewMemTablePool(config.NewDefaultConfig("/nonexistent-c18"))
	var counter atomic.Int64
	var done, stop atomic.Bool
	start := make(chan struct{})
	var wg sync.WaitGroup
	fails := make([]*CFail, len(c.R))
	overlap := make([]int, len(c.R))
	overl := make([]int, len(c.R))
	nact := make([]int, len(c.R))
	switches := 0
	apply := func(i int) {
		o := &c.W[i]
		switch o.Op {
		case "switch":
			pool.SwitchToNewMemTable()
			switches++
		case "del":
			pool.Delete(c.Keys[o.K], o.Seq)
		default:
			pool.Put(c.Keys[o.K], valueBytes(i+1, o.VL), o.Seq)
		}
		counter.Store(int64(i + 1))
	}
	for i := 0; i < c.Prefill; i++ {
		apply(i)
	}
	wg.Add(1)
	go func() {
		defer wg.Done()
		defer done.Store(true)
		<-start
		for i := c.Prefill; i < len(c.W); i++ {
			if stop.Load() {
				return
			}
			apply(i)
			if c.Burst > 0 && (i+1)%c.Burst == 0 {
				runtime.Gosched()
			}
		}
	}()
	for ri := range c.R {
		wg.Add(1)
		go func(ri int) {
			defer wg.Done()
			pat := c.R[ri]
			<-start
			first := -1
			for i := 0; ; i++ {
				a := pat[i%len(pat)]
				for y := 0; y < a.Y; y++ {
					runtime.Gosched()
				}
				wasDone := done.Load()
				lo := int(counter.Load())
				if first < 0 {
					first = lo
				}
				overlap[ri] = lo - first
				nact[ri]++
				if !wasDone {
					overl[ri]++
				}
				var f *CFail
				if a.A == "pget" {
					val, found := pool.Get(c.Keys[a.K])
					hi := int(counter.Load()) + 1
					if x := checkPoolGetConc(ans[a.K], a.K, val, found, lo, hi); x != nil {
						f = &CFail{V: x, Reader: ri, Act: a, Get: &getObs{K: a.K, Found: found, Val: val, Lo: lo, Hi: hi, Mutable: true, Op: "pool-get"}}
					}
				} else {
					if n := pool.ImmutableCount(); n < 0 || n > total {
						f = &CFail{V: &viol{"pool-tables/immutable-count", fmt.Sprintf("ImmutableCount()=%d", n)}, Reader: ri, Act: a}
					}
					_ = pool.IsFlushNeeded()
					_ = pool.TotalSize()
					_ = len(pool.GetMemTables())
				}
				if f != nil {
					f.V.Sig = "conc/" + f.V.Sig
					f.V.Msg = fmt.Sprintf("reader %d, action %d (%s), lower bound=step %d of %d: %s", ri, i, a.A, lo, total, f.V.Msg)
					fails[ri] = f
					stop.Store(true)
					return
				}
				if stop.Load() || (wasDone && i >= len(pat)-1) {
					return
				}
			}
		}(ri)
	}
	close(start)
	wg.Wait()
	var fail *CFail
	for ri := range c.R {
		if fails[ri] != nil && fail == nil {
			fail = fails[ri]
		}
		if overlap[ri] > st.maxOverlap {
			st.maxOverlap = overlap[ri]
		}
		st.overlapping += overl[ri]
		st.actions += nact[ri]
	}
	return fail, st
}

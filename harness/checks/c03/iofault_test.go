// C03, fifth sub-check: a FAILED transaction leaves no trace.
//
// On the unchanged tree a commit never fails unless something below it fails,
// so the failure is provoked the way a full disk provokes it: the process's
// file-size limit (RLIMIT_FSIZE, SIGXFSZ ignored) is lowered to a generated
// number of bytes, which makes the write(2) that would grow a log file past
// that size fail with EFBIG after a partial write. Every file of the database
// is under the same limit; a log rotation (flush, full memtable) starts a new
// file that can again grow to the limit, so programs continue with successful
// writes after a failed one. The limit is lifted before anything of the
// harness writes a file.
package c03

import (
	"bytes"
	"errors"
	"fmt"
	"os"
	"testing"

	"pgregory.net/rapid"

	"verif/internal/drive"
	"verif/internal/ev"
	"verif/internal/gen"
)

// IOCase is a program executed under a file-size limit.
type IOCase struct {
	Program drive.Program `json:"program"`
	Limit   int64         `json:"limit"` // RLIMIT_FSIZE (bytes) while the engine is open
	// LiftAt > 0: the limit is lifted again right before step LiftAt (the disk has
	// room again); what a log that has failed once does with later writes is then
	// judged like everything else (acknowledged = durable and visible)
	LiftAt int `json:"lift_at,omitempty"`
}

// recordCount is the number of physical log records a write step produces at
// least (one per operation): a failed step with more than one record can be cut
// behind a complete record.
func recordCount(s drive.Step) int {
	switch s.Op {
	case "put", "del":
		return 1
	}
	n := 0
	for _, o := range s.Tx {
		if o.Op != "get" && o.Op != "last" {
			n++
		}
	}
	return n
}

// ioModel is the reference under failures: the value each key must read as
// (acknowledged writes only) plus, per key, the values a read MAY also return
// because a failed operation is allowed to have taken effect or not:
//   - mayLive: a failed plain Put/Delete (the property speaks about failed
//     transactions only);
//   - mayAfterReopen: operations of a failed multi-record transaction, only
//     while the open finding D24 (no batch boundary in the log format; a batch
//     cut behind a complete record is replayed partially) is excluded, and only
//     for what recovery shows, never for the running process.
type ioModel struct {
	m              drive.Model
	mayLive        map[string][]alt
	mayAfterReopen map[string][]alt
	failedTxVals   map[string][]alt // every value of a failed transaction (to name a failure)
}

func matchAlt(as []alt, got []byte, gotFound bool) bool {
	for _, a := range as {
		if a.found == gotFound && (!gotFound || bytes.Equal(a.val, got)) {
			return true
		}
	}
	return false
}

type alt struct {
	found bool
	val   []byte
}

func (x *ioModel) allowed(k string, got []byte, gotFound bool, recovered bool) bool {
	want, wf := x.m[k]
	if gotFound == wf && (!gotFound || bytes.Equal(got, want)) {
		return true
	}
	if matchAlt(x.mayLive[k], got, gotFound) {
		return true
	}
	return recovered && matchAlt(x.mayAfterReopen[k], got, gotFound)
}

func stepAlts(p *drive.Program, s drive.Step) map[string][]alt {
	out := map[string][]alt{}
	one := func(op string, k int, v *drive.Val) {
		key := string(p.Keys[k])
		switch op {
		case "put":
			b := v.Bytes()
			if b == nil {
				b = []byte{}
			}
			out[key] = append(out[key], alt{found: true, val: b})
		case "del":
			out[key] = append(out[key], alt{found: false})
		}
	}
	switch s.Op {
	case "put", "del":
		one(s.Op, s.K, s.V)
	default:
		for _, o := range s.Tx {
			one(o.Op, o.K, o.V)
		}
	}
	return out
}

func runIO(c *IOCase) (f *drive.Failure, classes []string, nt bool) {
	dir, err := os.MkdirTemp("", "c03io-")
	if err != nil {
		panic(err)
	}
	defer os.RemoveAll(dir)
	p := &c.Program
	if err := drive.ApplyCfg(dir, p.Cfg); err != nil {
		panic(err)
	}
	if err := drive.SetFsizeLimit(uint64(c.Limit)); err != nil {
		panic(err)
	}
	defer drive.LiftFsizeLimit()
	r, mm := drive.NewRunner(dir, p)
	if mm != nil {
		return &drive.Failure{Sig: "io:open-error", Msg: mm.Error()}, nil, false
	}
	defer r.Close()
	x := &ioModel{m: r.Model, mayLive: map[string][]alt{}, mayAfterReopen: map[string][]alt{}, failedTxVals: map[string][]alt{}}
	d24Excluded := !ev.Flag("cut_inside_batch")
	recovered := false
	failedTx, failedPlain, okAfterFail, failedMulti, reopenAfterFail := 0, 0, 0, 0, 0
	check := func(i int, when string) *drive.Failure {
		for ki, key := range p.Keys {
			got, err := r.Eng.Get(key)
			if err != nil && !drive.IsNotFound(err) {
				return &drive.Failure{Sig: "io:read-error@" + when, Msg: fmt.Sprintf("step %d: Get k%d: %v", i, ki, err)}
			}
			if x.allowed(string(key), got, err == nil, recovered) {
				continue
			}
			want, wf := x.m[string(key)]
			kind := "wrong-value"
			if matchAlt(x.failedTxVals[string(key)], got, err == nil) {
				kind = "trace-of-failed-tx"
			} else if wf && err != nil {
				kind = "acknowledged-write-lost"
			}
			return &drive.Failure{Sig: "io:" + kind + "@" + when,
				Msg: fmt.Sprintf("step %d (%s), file-size limit %d: key k%d reads found=%v len=%d, the acknowledged state is found=%v len=%d",
					i, p.Steps[i].Describe(p), c.Limit, ki, err == nil, len(got), wf, len(want))}
		}
		return nil
	}
	lifted := false
	for i := range p.Steps {
		s := p.Steps[i]
		if c.LiftAt > 0 && i == c.LiftAt && !lifted {
			drive.LiftFsizeLimit()
			lifted = true
		}
		mm, err := r.Do(i)
		if mm != nil {
			return &drive.Failure{Sig: "io:" + mm.Signature(), Msg: mm.Error()}, nil, nt
		}
		when := "live"
		switch {
		case err != nil && errors.Is(err, drive.ErrWrite):
			nt = true
			alts := stepAlts(p, s)
			if s.Op == "put" || s.Op == "del" {
				failedPlain++
				for k, a := range alts {
					x.mayLive[k] = append(x.mayLive[k], a...)
				}
			} else {
				failedTx++
				multi := recordCount(s) > 1
				if multi {
					failedMulti++
				}
				for k, a := range alts {
					x.failedTxVals[k] = append(x.failedTxVals[k], a...)
					if multi && d24Excluded {
						x.mayAfterReopen[k] = append(x.mayAfterReopen[k], a...)
					}
				}
				if multi && d24Excluded {
					ev.R().Exclude("cut_inside_batch")
				}
			}
		case err != nil:
			return &drive.Failure{Sig: "io:harness", Msg: err.Error()}, nil, nt
		case s.IsWrite():
			// acknowledged: it supersedes every earlier maybe for the keys it wrote
			for k := range stepAlts(p, s) {
				delete(x.mayLive, k)
				delete(x.mayAfterReopen, k)
				delete(x.failedTxVals, k)
			}
			if failedTx+failedPlain > 0 {
				okAfterFail++
			}
		case s.Op == "reopen":
			recovered = true
			when = "reopen"
			if failedTx+failedPlain > 0 {
				reopenAfterFail++
			}
		}
		// recovered stays true for the rest of the run: what a recovery showed may stay
		if f := check(i, when); f != nil {
			return f, nil, nt
		}
	}
	classes = []string{"kind:iofault"}
	add := func(c bool, s string) {
		if c {
			classes = append(classes, s)
		}
	}
	add(failedTx > 0, "io:failed_tx")
	add(failedMulti > 0, "io:failed_multi_record_tx")
	add(failedPlain > 0, "io:failed_plain_write")
	add(okAfterFail > 0, "io:acknowledged_write_after_failure")
	add(reopenAfterFail > 0, "io:reopen_after_failure")
	add(failedTx+failedPlain == 0, "io:limit_never_hit")
	add(lifted && failedTx+failedPlain > 0 && okAfterFail > 0, "io:limit_lifted_then_acknowledged_writes")
	return nil, classes, nt
}

func genIO(t *rapid.T) IOCase {
	p := drive.Program{Keys: gen.KeysWide(t, 3, 12)}
	p.Cfg = drive.Cfg{
		MemTableSize: rapid.SampledFrom([]int64{4096, 16384, 64 * 1024, 32 << 20}).Draw(t, "memtable"),
		MaxMemTables: rapid.SampledFrom([]int{1, 2, 4}).Draw(t, "maxmem"),
		SyncMode:     2, // the failure has to be reported by the operation that causes it
		SyncBytes:    1,
	}
	n := rapid.IntRange(3, 24).Draw(t, "nsteps")
	nk := len(p.Keys)
	tag := uint32(1)
	var cum []int64 // estimated log bytes after each step (ignoring rotation)
	total := int64(0)
	val := func(k int) *drive.Val {
		var v *drive.Val
		switch rapid.SampledFrom([]string{"small", "small", "medium", "medium", "medium", "big"}).Draw(t, "vc") {
		case "small":
			v = &drive.Val{Len: rapid.IntRange(1, 64).Draw(t, "vlen"), Tag: tag}
		case "medium":
			v = &drive.Val{Len: rapid.IntRange(200, 4000).Draw(t, "vlen"), Tag: tag}
		default:
			v = &drive.Val{Len: rapid.IntRange(30000, 70000).Draw(t, "vlen"), Tag: tag}
		}
		tag++
		total += int64(24 + len(p.Keys[k]) + v.Len)
		return v
	}
	for i := 0; i < n; i++ {
		switch rapid.SampledFrom([]string{"tx", "tx", "tx", "batch", "put", "del", "flush", "reopen"}).Draw(t, "op") {
		case "put":
			k := rapid.IntRange(0, nk-1).Draw(t, "k")
			p.Steps = append(p.Steps, drive.Step{Op: "put", K: k, V: val(k)})
		case "del":
			k := rapid.IntRange(0, nk-1).Draw(t, "k")
			total += int64(20 + len(p.Keys[k]))
			p.Steps = append(p.Steps, drive.Step{Op: "del", K: k})
		case "flush":
			p.Steps = append(p.Steps, drive.Step{Op: "flush"})
		case "reopen":
			p.Steps = append(p.Steps, drive.Step{Op: "reopen"})
		case "tx", "batch":
			op := "tx"
			if rapid.IntRange(0, 3).Draw(t, "asbatch") == 0 {
				op = "batch"
			}
			m := rapid.SampledFrom([]int{1, 1, 2, 3, 4, 6, 10}).Draw(t, "m")
			var body []drive.TxOp
			for j := 0; j < m; j++ {
				k := rapid.IntRange(0, nk-1).Draw(t, "k")
				if rapid.IntRange(0, 4).Draw(t, "txdel") == 0 {
					total += int64(20 + len(p.Keys[k]))
					body = append(body, drive.TxOp{Op: "del", K: k})
				} else {
					body = append(body, drive.TxOp{Op: "put", K: k, V: val(k)})
				}
			}
			p.Steps = append(p.Steps, drive.Step{Op: op, Tx: body, Commit: true})
		}
		cum = append(cum, total)
	}
	// the limit: at (or a few bytes around) the estimated end of a step, or
	// anywhere in the estimated byte range; never below 2 KiB (the manifest and
	// other small files of the database must fit)
	var limit int64
	if rapid.Bool().Draw(t, "limit_at_step") {
		limit = cum[rapid.IntRange(0, len(cum)-1).Draw(t, "limit_step")] + int64(rapid.IntRange(-40, 40).Draw(t, "limit_d"))
	} else {
		hi := total + 64
		if hi < 2049 {
			hi = 2049
		}
		limit = rapid.Int64Range(2048, hi).Draw(t, "limit")
	}
	if limit < 2048 {
		limit = 2048
	}
	c := IOCase{Program: p, Limit: limit}
	if rapid.IntRange(0, 2).Draw(t, "lift") == 0 {
		c.LiftAt = rapid.IntRange(1, len(p.Steps)).Draw(t, "lift_at")
	}
	return c
}

func TestPropIOFault(t *testing.T) {
	rapid.Check(t, func(t *rapid.T) {
		c := genIO(t)
		f, classes, nt := runIO(&c)
		if classes == nil {
			classes = []string{"kind:iofault"}
		}
		ev.R().Case(ev.Hash(&c), nt, classes, func() any { return &c })
		if f != nil {
			path := ev.R().Fail(f.Sig, f.Msg, Doc{Property: "C03", Kind: "iofault", IO: &c, Failure: f.Sig + ": " + f.Msg})
			t.Fatalf("C03 violated: %s: %s (replay %s)", f.Sig, f.Msg, path)
		}
	})
}

// C03, sixth sub-check: one transaction used by several goroutines (what
// the gRPC service does when a client pipelines TxPut and CommitTransaction for
// one transaction id; TransactionImpl carries a mutex for it). Every Put or
// Delete that returned nil is a write of the transaction: after a successful
// Commit all of them are visible, after a failed Commit or a Rollback none is -
// never a strict subset. A call that loses the race against the finish must be
// refused with an error.
package c03

import (
	"fmt"
	"os"
	"runtime"
	"sync"
	"testing"
	"time"

	"pgregory.net/rapid"

	"verif/internal/drive"
	"verif/internal/ev"
)

// SharedCase is one shared-transaction case.
type SharedCase struct {
	Cfg      drive.Cfg `json:"cfg"`
	Writers  int       `json:"writers"`
	MaxPuts  int       `json:"max_puts"`  // per writer
	FinishUs int       `json:"finish_us"` // the finisher waits this long before it commits / rolls back
	Commit   bool      `json:"commit"`
	ValLen   int       `json:"val_len"`
	Rounds   int       `json:"rounds"` // transactions per case (fresh keys each)
}

func runShared(c *SharedCase) (*drive.Failure, []string, bool) {
	dir, err := os.MkdirTemp("", "c03s-")
	if err != nil {
		panic(err)
	}
	defer os.RemoveAll(dir)
	e, err := drive.Open(dir, c.Cfg)
	if err != nil {
		return &drive.Failure{Sig: "shared:open-error", Msg: err.Error()}, nil, false
	}
	defer e.Close()
	raced := 0
	for round := 0; round < c.Rounds; round++ {
		tx, err := e.BeginTransaction(false)
		if err != nil {
			return &drive.Failure{Sig: "shared:begin-error", Msg: err.Error()}, nil, false
		}
		acked := make([][]int, c.Writers)
		refused := make([]int, c.Writers)
		var wg sync.WaitGroup
		start := make(chan struct{})
		for w := 0; w < c.Writers; w++ {
			wg.Add(1)
			go func(w int) {
				defer wg.Done()
				<-start
				for i := 0; i < c.MaxPuts; i++ {
					k := []byte(fmt.Sprintf("r%03d-w%02d-%05d", round, w, i))
					v := drive.Val{Len: c.ValLen, Tag: uint32(round*1000000 + w*10000 + i + 1)}.Bytes()
					if err := tx.Put(k, v); err != nil {
						refused[w]++
						return // the transaction has been finished
					}
					acked[w] = append(acked[w], i)
					if i%8 == 7 {
						runtime.Gosched()
					}
				}
			}(w)
		}
		close(start)
		if c.FinishUs > 0 {
			time.Sleep(time.Duration(c.FinishUs) * time.Microsecond)
		}
		var ferr error
		if c.Commit {
			ferr = tx.Commit()
		} else {
			ferr = tx.Rollback()
		}
		wg.Wait()
		applied := c.Commit && ferr == nil
		total := 0
		for w := range acked {
			total += len(acked[w])
			if refused[w] > 0 {
				raced++
			}
		}
		present, missing := 0, ""
		for w := range acked {
			for _, i := range acked[w] {
				k := []byte(fmt.Sprintf("r%03d-w%02d-%05d", round, w, i))
				_, err := e.Get(k)
				switch {
				case err == nil:
					present++
				case drive.IsNotFound(err):
					if missing == "" {
						missing = string(k)
					}
				default:
					return &drive.Failure{Sig: "shared:read-error", Msg: err.Error()}, nil, false
				}
			}
		}
		if applied && present != total {
			return &drive.Failure{Sig: "shared:acknowledged-write-not-committed",
				Msg: fmt.Sprintf("round %d: %d writers put into ONE transaction while it was committed (after %d us); Commit returned nil, %d puts had returned nil, only %d of them are visible (first missing %s): a strict subset of the transaction took effect",
					round, c.Writers, c.FinishUs, total, present, missing)}, nil, false
		}
		if !applied && present != 0 {
			what := "rolled back"
			if c.Commit {
				what = fmt.Sprintf("failed to commit (%v)", ferr)
			}
			return &drive.Failure{Sig: "shared:trace-of-unfinished-tx",
				Msg: fmt.Sprintf("round %d: the transaction was %s, %d of its %d acknowledged puts are visible", round, what, present, total)}, nil, false
		}
	}
	classes := []string{"kind:shared_tx"}
	if raced > 0 {
		classes = append(classes, "shared:a_put_lost_the_race_and_was_refused")
	}
	if c.Commit {
		classes = append(classes, "shared:commit")
	} else {
		classes = append(classes, "shared:rollback")
	}
	return nil, classes, raced > 0
}

func genShared(t *rapid.T) SharedCase {
	return SharedCase{
		Cfg: drive.Cfg{MemTableSize: rapid.SampledFrom([]int64{4096, 65536, 32 << 20}).Draw(t, "memtable"), MaxMemTables: 2,
			SyncMode: rapid.IntRange(0, 2).Draw(t, "sync"), SyncBytes: 4096},
		Writers:  rapid.IntRange(1, 6).Draw(t, "writers"),
		MaxPuts:  rapid.SampledFrom([]int{50, 200, 1000}).Draw(t, "maxputs"),
		FinishUs: rapid.SampledFrom([]int{0, 5, 20, 50, 100, 300, 1000}).Draw(t, "finish_us"),
		Commit:   rapid.IntRange(0, 3).Draw(t, "commit") != 0,
		ValLen:   rapid.SampledFrom([]int{1, 16, 200}).Draw(t, "vallen"),
		Rounds:   rapid.IntRange(1, 8).Draw(t, "rounds"),
	}
}

func TestPropSharedTx(t *testing.T) {
	rapid.Check(t, func(t *rapid.T) {
		c := genShared(t)
		f, classes, nt := runShared(&c)
		if classes == nil {
			classes = []string{"kind:shared_tx"}
		}
		ev.R().Case(ev.Hash(&c), nt, classes, func() any { return &c })
		if f != nil {
			path := ev.R().Fail(f.Sig, f.Msg, Doc{Property: "C03", Kind: "shared", Shared: &c, Failure: f.Sig + ": " + f.Msg})
			t.Fatalf("C03 violated: %s: %s (replay %s)", f.Sig, f.Msg, path)
		}
	})
}

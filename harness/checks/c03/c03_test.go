// C03 — transactions are all-or-nothing (DESIGN.md 5/C03).
// Five generated sub-checks: crash points inside commit (child process),
// torn final log write (truncation inside the batch's byte range),
// concurrent visibility (tag monotonicity / snapshot equality),
// last-write-wins + capture-at-call-time with reused caller buffers, and
// failed commits under an injected file-size limit (iofault_test.go).
package c03

import (
	"bytes"
	"context"
	"encoding/binary"
	"encoding/json"
	"fmt"
	"os"
	"os/exec"
	"path/filepath"
	"runtime"
	"sort"
	"strings"
	"sync"
	"sync/atomic"
	"testing"
	"time"

	"pgregory.net/rapid"

	"github.com/KevoDB/kevo/pkg/engine"
	"github.com/KevoDB/kevo/pkg/grpc/service"
	"github.com/KevoDB/kevo/pkg/verifhook"
	pb "github.com/KevoDB/kevo/proto/kevo"

	"verif/internal/drive"
	"verif/internal/ev"
	"verif/internal/gen"
)

const rule = "six sub-checks. crash: transaction-heavy programs (bodies 1-300 ops, values up to several log buffers) killed in a child at a " +
	"hit of wal.batch.*/storage.batch.*/tx.commit.*/wal.sync.* sites, prefix-state oracle (a strict subset of a transaction is not a prefix state). " +
	"torn: the newest log is cut at byte offsets inside the last committed transaction's byte range, reopen must give the state before or after " +
	"that transaction. visibility: one writer commits tagged transactions over all K keys (engine Commit or service BatchWrite) while readers " +
	"do ordered Get pairs (tag(first) <= tag(second)) and read-only transactions/scans (all tags equal), with a yield plan at batch/commit hook " +
	"sites. buffer: sequential bodies with repeated keys, put/delete mixes, commit or rollback, the caller reusing and scribbling over one key " +
	"and one value buffer; map-model oracle, also after reopen. iofault: tx/batch/put/delete/flush/reopen programs (synchronous logging) run under a " +
	"generated file-size limit (RLIMIT_FSIZE) so that a log write fails part-way like on a full disk, rotation starts a fresh file and later writes " +
	"succeed again; after every step every key must read as the acknowledged state (a failed transaction leaves no trace, an acknowledged one is " +
	"complete), also after reopen. shared: 1-6 goroutines put fresh keys into ONE transaction while another goroutine commits or rolls it back " +
	"after a drawn delay; every put that returned nil is visible after a successful commit and none after a rollback or failed commit. non-trivial: crash strictly inside the commit path / cut strictly inside the " +
	"batch / a reader observation that saw the tag change (overlapped a commit) / a body with a repeated key / at least one write failed under the limit / a put lost the race against the finish and was refused; distinct by case hash"

func TestMain(m *testing.M) {
	if os.Getenv("VERIF_CHILD_SPEC") != "" {
		ev.Silence()
		os.Exit(m.Run())
	}
	ev.Silence()
	rec := ev.Init("C03", rule)
	code := m.Run()
	rec.Flush(true)
	os.Exit(code)
}

func TestChild(t *testing.T) {
	sp := os.Getenv("VERIF_CHILD_SPEC")
	if sp == "" {
		t.Skip("not a child")
	}
	if err := drive.ChildMain(sp); err != nil {
		fmt.Fprintln(os.Stderr, "CHILD-ERROR:", err)
		os.Exit(3)
	}
}

// Doc is the replay document (exactly one of the case fields is set).
type Doc struct {
	Property string           `json:"property"`
	Kind     string           `json:"kind"` // crash | torn | visibility | buffer
	Crash    *drive.CrashCase `json:"crash,omitempty"`
	Torn     *TornCase        `json:"torn,omitempty"`
	Vis      *VisCase         `json:"vis,omitempty"`
	Buf      *BufCase         `json:"buf,omitempty"`
	IO       *IOCase          `json:"io,omitempty"`
	Shared   *SharedCase      `json:"shared,omitempty"`
	Failure  string           `json:"failure,omitempty"`
	History  []string         `json:"history,omitempty"`
}

// ---------------------------------------------------------------- crash ----

func commitSite(s string) bool {
	return strings.HasPrefix(s, "wal.batch.") || strings.HasPrefix(s, "storage.batch.") ||
		strings.HasPrefix(s, "tx.commit.") || strings.HasPrefix(s, "wal.sync.")
}

// txProgram draws a transaction-heavy program.
func txProgram(t *rapid.T, maxSteps int) drive.Program {
	p := drive.Program{Cfg: gen.Config(t), Keys: gen.KeysWide(t, 6, 40)}
	// A transaction buffers one operation per key, so the number of records in a
	// commit is bounded by the pool size: a quarter of the cases use a pool of
	// 150-400 keys so that commits of hundreds of records (several log buffers)
	// really occur.
	bigPool := rapid.IntRange(0, 3).Draw(t, "bigpool") == 0
	if bigPool {
		n := rapid.IntRange(150, 400).Draw(t, "bigpool_n")
		p.Keys = p.Keys[:0]
		for i := 0; i < n; i++ {
			p.Keys = append(p.Keys, []byte(fmt.Sprintf("key-%04d", i)))
		}
	}
	n := rapid.IntRange(2, maxSteps).Draw(t, "nsteps")
	tag := uint32(1)
	nk := len(p.Keys)
	for i := 0; i < n; i++ {
		switch rapid.SampledFrom([]string{"tx", "tx", "tx", "batch", "put", "del", "flush"}).Draw(t, "op") {
		case "put":
			p.Steps = append(p.Steps, drive.Step{Op: "put", K: rapid.IntRange(0, nk-1).Draw(t, "k"), V: gen.Value(t, tag, gen.ValOpts{})})
			tag++
		case "del":
			p.Steps = append(p.Steps, drive.Step{Op: "del", K: rapid.IntRange(0, nk-1).Draw(t, "k")})
		case "flush":
			p.Steps = append(p.Steps, drive.Step{Op: "flush"})
		case "batch", "tx":
			// body size classes: 1, few, many (up to 300), with value classes that
			// make the batch smaller or larger than the 64 KiB log buffer
			var m int
			switch rapid.SampledFrom([]string{"one", "few", "few", "few", "many"}).Draw(t, "bodyclass") {
			case "one":
				m = 1
			case "few":
				m = rapid.IntRange(2, 8).Draw(t, "m")
			default:
				m = rapid.IntRange(20, 300).Draw(t, "m")
				if bigPool {
					m = rapid.IntRange(150, 450).Draw(t, "m_big")
				}
			}
			vo := gen.ValOpts{}
			if m <= 8 {
				vo.Big = rapid.Bool().Draw(t, "bigvals")
			} else if bigPool {
				vo.MaxSmall = rapid.SampledFrom([]int{64, 300, 600, 1200}).Draw(t, "maxsmall_big")
			} else {
				vo.MaxSmall = rapid.SampledFrom([]int{8, 64, 600}).Draw(t, "maxsmall")
			}
			var body []drive.TxOp
			for j := 0; j < m; j++ {
				k := rapid.IntRange(0, nk-1).Draw(t, "k")
				if rapid.IntRange(0, 3).Draw(t, "isdel") == 0 {
					body = append(body, drive.TxOp{Op: "del", K: k})
				} else {
					vo.KeyLen = len(p.Keys[k]) // exact record-boundary sizes need the key length
					body = append(body, drive.TxOp{Op: "put", K: k, V: gen.Value(t, tag, vo)})
					tag++
				}
			}
			// (ApplyBatch with duplicate keys is allowed at engine level: entries
			// are applied in order, the last one wins, same as a transaction.)
			p.Steps = append(p.Steps, drive.Step{Op: "tx", Tx: body, Commit: rapid.IntRange(0, 5).Draw(t, "commit") != 0})
		}
	}
	return p
}

// walBatchSite: the sites inside the log append of a commit.
func walBatchSite(s string) bool {
	return strings.HasPrefix(s, "wal.batch.") || strings.HasPrefix(s, "wal.sync.") || s == "storage.batch.after_wal"
}

// genBigCommitCrash: a short prefix, then ONE commit of 150-450 records whose
// log volume exceeds the 64 KiB log buffer, and a crash late inside that
// commit's log append (the buffer may have spilled part of the batch).
func genBigCommitCrash(t *rapid.T) drive.CrashCase {
	p := drive.Program{Cfg: gen.Config(t)}
	n := rapid.IntRange(150, 450).Draw(t, "records")
	for i := 0; i < n; i++ {
		p.Keys = append(p.Keys, []byte(fmt.Sprintf("key-%04d", i)))
	}
	tag := uint32(1)
	// prefix: a few small writes so that "before" is not the empty state
	for i := 0; i < rapid.IntRange(0, 4).Draw(t, "npre"); i++ {
		p.Steps = append(p.Steps, drive.Step{Op: "put", K: rapid.IntRange(0, n-1).Draw(t, "pk"), V: &drive.Val{Len: rapid.IntRange(1, 40).Draw(t, "pl"), Tag: tag}})
		tag++
	}
	avg := rapid.SampledFrom([]int{120, 300, 700}).Draw(t, "avglen") // 150 x 300 B and up exceeds 64 KiB together with keys and headers
	var body []drive.TxOp
	for i := 0; i < n; i++ {
		if rapid.IntRange(0, 9).Draw(t, "bdel") == 0 {
			body = append(body, drive.TxOp{Op: "del", K: i})
		} else {
			body = append(body, drive.TxOp{Op: "put", K: i, V: &drive.Val{Len: rapid.IntRange(avg/2, avg*3/2).Draw(t, "bl"), Tag: tag}})
			tag++
		}
	}
	p.Steps = append(p.Steps, drive.Step{Op: "tx", Tx: body, Commit: true})
	return drive.CrashCase{Program: p, Rounds: []drive.CrashRound{{To: len(p.Steps), Late: true,
		SelA: rapid.Uint32().Draw(t, "selA"), SelB: rapid.Uint32().Draw(t, "selB")}}}
}

func genCrash(t *rapid.T) drive.CrashCase {
	p := txProgram(t, 12)
	nr := rapid.IntRange(1, 2).Draw(t, "rounds")
	var rounds []drive.CrashRound
	prev := 0
	for i := 0; i < nr; i++ {
		to := len(p.Steps)
		if i < nr-1 {
			to = rapid.IntRange(prev, len(p.Steps)).Draw(t, "to")
		}
		rounds = append(rounds, drive.CrashRound{To: to, SelA: rapid.Uint32().Draw(t, "selA"), SelB: rapid.Uint32().Draw(t, "selB")})
		prev = to
	}
	return drive.CrashCase{Program: p, Rounds: rounds, ChildVerifies: rapid.Bool().Draw(t, "childverifies")}
}

func maxBody(p *drive.Program) int {
	m := 0
	for _, s := range p.Steps {
		if len(s.Tx) > m {
			m = len(s.Tx)
		}
	}
	return m
}

// maxRecords: the largest number of distinct keys written by one committed transaction.
func maxRecords(p *drive.Program) int {
	m := 0
	for _, s := range p.Steps {
		if s.Op != "tx" || !s.Commit {
			continue
		}
		seen := map[int]bool{}
		for _, o := range s.Tx {
			if o.Op != "get" {
				seen[o.K] = true
			}
		}
		if len(seen) > m {
			m = len(seen)
		}
	}
	return m
}

func TestPropCrash(t *testing.T) {
	rapid.Check(t, func(t *rapid.T) {
		var c drive.CrashCase
		filter := drive.SiteFilter(commitSite)
		if rapid.IntRange(0, 2).Draw(t, "bigcommit") == 0 {
			c = genBigCommitCrash(t)
			filter = walBatchSite
		} else {
			c = genCrash(t)
		}
		f, classes := drive.RunCrashCase(&c, false, filter)
		nt := false
		for _, cl := range classes {
			if cl == "crash_inside_operation" {
				nt = true
			}
		}
		classes = append(classes, "kind:crash")
		if maxBody(&c.Program) >= 20 {
			classes = append(classes, "crash:body>=20")
		}
		if maxRecords(&c.Program) >= 147 {
			classes = append(classes, "crash:commit_of>=147_records")
		}
		ev.R().Case(ev.Hash(&c), nt, classes, func() any { return &c })
		if f != nil {
			path := ev.R().Fail("crash:"+f.Sig, f.Msg, Doc{Property: "C03", Kind: "crash", Crash: &c, Failure: f.Sig + ": " + f.Msg})
			t.Fatalf("C03 violated: %s: %s (replay %s)", f.Sig, f.Msg, path)
		}
	})
}

// ----------------------------------------------------------------- torn ----

// TornCase: prefix program, then one final transaction; the newest log file is
// cut at offsets inside the final transaction's byte range.
type TornCase struct {
	Program drive.Program `json:"program"` // last step is the transaction under test
	Cuts    []uint32      `json:"cuts"`    // selectors for the offsets to try (all offsets when the range is small)
	// resolved
	Offsets []int64 `json:"offsets,omitempty"`
}

func newestWAL(dir string) (string, int64) {
	m, _ := filepath.Glob(filepath.Join(dir, "wal", "*.wal"))
	sort.Strings(m)
	if len(m) == 0 {
		return "", 0
	}
	st, err := os.Stat(m[len(m)-1])
	if err != nil {
		return "", 0
	}
	return m[len(m)-1], st.Size()
}

func cpA(src, dst string) {
	if err := exec.Command("cp", "-a", src, dst).Run(); err != nil {
		panic(err)
	}
}

// recordEnds parses the byte range [from,to) of a WAL file into physical
// record end offsets (header 7 bytes: crc4 len2 type1).
func recordEnds(path string, from, to int64) []int64 {
	b, err := os.ReadFile(path)
	if err != nil {
		return nil
	}
	var ends []int64
	off := from
	for off+7 <= to && off+7 <= int64(len(b)) {
		l := int64(binary.LittleEndian.Uint16(b[off+4 : off+6]))
		off += 7 + l
		ends = append(ends, off)
	}
	return ends
}

func runTorn(c *TornCase, replay bool) (*drive.Failure, []string, bool) {
	root, err := os.MkdirTemp("", "c03t-")
	if err != nil {
		panic(err)
	}
	defer os.RemoveAll(root)
	dir := root + "/db"
	p := &c.Program
	r, mm := drive.NewRunner(dir, p)
	if mm != nil {
		return &drive.Failure{Sig: "torn:" + mm.Signature(), Msg: mm.Error()}, nil, false
	}
	last := len(p.Steps) - 1
	for i := 0; i < last; i++ {
		if mm, err := r.Do(i); mm != nil || err != nil {
			r.Close()
			if mm != nil {
				return &drive.Failure{Sig: "torn:setup:" + mm.Signature(), Msg: mm.Error()}, nil, false
			}
			ev.R().Count("torn_setup_write_error", 1)
			return nil, nil, false
		}
	}
	before := r.Model.Clone()
	wf0, sz0 := newestWAL(dir)
	if mm, err := r.Do(last); mm != nil || err != nil {
		r.Close()
		ev.R().Count("torn_final_tx_error", 1)
		return nil, nil, false
	}
	after := r.Model.Clone()
	drive.Quiesce(r.Eng)
	r.Close()
	wf1, sz1 := newestWAL(dir)
	if wf0 != wf1 || sz1 <= sz0 {
		// rotation happened around the transaction; the byte range is not in one file
		ev.R().Count("torn_range_spans_files", 1)
		return nil, []string{"torn:skipped_rotation"}, false
	}
	ends := recordEnds(wf1, sz0, sz1)
	firstEnd := sz1
	if len(ends) > 0 {
		firstEnd = ends[0]
	}
	// candidate offsets: strictly inside (sz0, sz1)
	var offs []int64
	if replay && len(c.Offsets) > 0 {
		offs = c.Offsets
	} else {
		span := sz1 - sz0
		if span <= 1 {
			return nil, []string{"torn:empty_range"}, false
		}
		hi := sz1
		if !ev.Flag("cut_inside_batch") {
			// known finding D24: only cuts that leave no complete record of the batch
			if firstEnd < hi {
				hi = firstEnd
				ev.R().Exclude("cut_inside_batch")
			}
		}
		span = hi - sz0
		if span <= 1 {
			return nil, []string{"torn:empty_range"}, false
		}
		if span <= 400 && ev.Tier() == "thorough" {
			for o := sz0 + 1; o < hi; o++ {
				offs = append(offs, o)
			}
		} else {
			seen := map[int64]bool{}
			// always include record boundaries inside the range and their neighbours
			for _, e := range ends {
				for _, o := range []int64{e - 1, e, e + 1} {
					if o > sz0 && o < hi && !seen[o] && len(offs) < 12 {
						seen[o] = true
						offs = append(offs, o)
					}
				}
			}
			for _, s := range c.Cuts {
				o := sz0 + 1 + int64(s)%(span-1)
				if !seen[o] {
					seen[o] = true
					offs = append(offs, o)
				}
			}
		}
		c.Offsets = offs
	}
	bak := root + "/bak"
	cpA(dir, bak)
	classes := []string{"kind:torn"}
	nontrivial := false
	multi := false
	for _, s := range p.Steps[last].Tx {
		_ = s
	}
	if len(ends) >= 2 {
		multi = true
		classes = append(classes, "torn:multi_record_batch")
	}
	for _, o := range offs {
		_ = os.RemoveAll(dir)
		cpA(bak, dir)
		if err := os.Truncate(wf1, o); err != nil {
			panic(err)
		}
		if o > sz0 && o < sz1 {
			nontrivial = true
		}
		where := "first-record"
		if o >= firstEnd {
			where = "after-complete-record"
		}
		_, f := drive.VerifyState(dir, p, []drive.Model{before, after}, 0, 1, "cut-"+where)
		if f != nil {
			// the state after the cut must be 'before' (or 'after' only if the cut removed nothing needed)
			f.Sig = "torn:" + f.Sig
			f.Msg = fmt.Sprintf("newest log cut at offset %d of transaction range [%d,%d) (record ends %v): %s", o, sz0, sz1, ends, f.Msg)
			c.Offsets = []int64{o}
			return f, classes, nontrivial
		}
	}
	_ = multi
	return nil, classes, nontrivial
}

func genTorn(t *rapid.T) TornCase {
	p := txProgram(t, 6)
	p.Cfg.MemTableSize = 32 << 20 // no rotation around the transaction under test
	p.Cfg.SyncMode = 2
	// final transaction: at least 2 distinct keys changed, committed
	nk := len(p.Keys)
	m := rapid.IntRange(2, 12).Draw(t, "final_m")
	var body []drive.TxOp
	tag := uint32(100000)
	vo := gen.ValOpts{Big: rapid.IntRange(0, 3).Draw(t, "final_big") == 0}
	for j := 0; j < m; j++ {
		k := (j*7 + rapid.IntRange(0, nk-1).Draw(t, "fk")) % nk
		vo.KeyLen = len(p.Keys[k])
		body = append(body, drive.TxOp{Op: "put", K: k, V: gen.Value(t, tag, vo)})
		tag++
	}
	p.Steps = append(p.Steps, drive.Step{Op: "tx", Tx: body, Commit: true})
	cuts := rapid.SliceOfN(rapid.Uint32(), 4, 10).Draw(t, "cuts")
	return TornCase{Program: p, Cuts: cuts}
}

func TestPropTorn(t *testing.T) {
	rapid.Check(t, func(t *rapid.T) {
		c := genTorn(t)
		f, classes, nt := runTorn(&c, false)
		ev.R().Case(ev.Hash(&c), nt, classes, func() any { return &c })
		if f != nil {
			path := ev.R().Fail(f.Sig, f.Msg, Doc{Property: "C03", Kind: "torn", Torn: &c, Failure: f.Sig + ": " + f.Msg})
			t.Fatalf("C03 violated: %s: %s (replay %s)", f.Sig, f.Msg, path)
		}
	})
}

// ----------------------------------------------------------- visibility ----

// VisCase is a concurrent visibility workload.
type VisCase struct {
	Cfg       drive.Cfg `json:"cfg"`
	K         int       `json:"k"`       // number of keys every transaction writes
	Txs       int       `json:"txs"`     // number of committed transactions
	ValLen    int       `json:"val_len"` // padding per value
	Readers   int       `json:"readers"` //
	Pairs     [][2]int  `json:"pairs"`   // key index pairs read in this order by the readers
	Yield     []uint8   `json:"yield"`   // yield plan consumed cyclically at hook sites (0 none, 1 Gosched, 2 sleep 20us, 3 sleep 200us)
	ViaServer bool      `json:"via_svc"` // writer uses KevoService.BatchWrite
	Deletes   bool      `json:"deletes"` // odd transactions delete key K-1 instead of writing it (all-or-nothing incl. deletes)
}

func visKey(i int) []byte { return []byte(fmt.Sprintf("vk%03d", i)) }

func visVal(tag uint32, n int) []byte {
	b := make([]byte, 4+n)
	binary.BigEndian.PutUint32(b, tag)
	for i := 4; i < len(b); i++ {
		b[i] = byte(tag) ^ byte(i)
	}
	return b
}

func tagOf(v []byte) (uint32, bool) {
	if len(v) < 4 {
		return 0, false
	}
	tag := binary.BigEndian.Uint32(v)
	for i := 4; i < len(v); i++ {
		if v[i] != byte(tag)^byte(i) {
			return 0, false
		}
	}
	return tag, true
}

func runVis(c *VisCase) (*drive.Failure, []string, bool, []string) {
	dir, err := os.MkdirTemp("", "c03v-")
	if err != nil {
		panic(err)
	}
	defer os.RemoveAll(dir)
	e, err := drive.Open(dir, c.Cfg)
	if err != nil {
		return &drive.Failure{Sig: "vis:open-error", Msg: err.Error()}, nil, false, nil
	}
	defer e.Close()
	svc := service.NewKevoServiceServer(e, nil, nil)
	var yi atomic.Uint64
	if len(c.Yield) > 0 {
		verifhook.Set(func(site string) {
			if !(strings.HasPrefix(site, "storage.batch.") || strings.HasPrefix(site, "tx.commit.") || strings.HasPrefix(site, "wal.batch.")) {
				return
			}
			switch c.Yield[int(yi.Add(1))%len(c.Yield)] {
			case 1:
				runtime.Gosched()
			case 2:
				time.Sleep(20 * time.Microsecond)
			case 3:
				time.Sleep(200 * time.Microsecond)
			}
		})
		defer verifhook.Reset()
	}
	// transaction 0: initial state, all keys tag 0 (so every read finds a tag)
	commit := func(tag uint32) error {
		delLast := c.Deletes && tag%2 == 1
		if c.ViaServer {
			req := &pb.BatchWriteRequest{}
			for i := 0; i < c.K; i++ {
				if delLast && i == c.K-1 {
					req.Operations = append(req.Operations, &pb.Operation{Type: pb.Operation_DELETE, Key: visKey(i)})
				} else {
					req.Operations = append(req.Operations, &pb.Operation{Type: pb.Operation_PUT, Key: visKey(i), Value: visVal(tag, c.ValLen)})
				}
			}
			_, err := svc.BatchWrite(context.Background(), req)
			return err
		}
		tx, err := e.BeginTransaction(false)
		if err != nil {
			return err
		}
		for i := 0; i < c.K; i++ {
			if delLast && i == c.K-1 {
				err = tx.Delete(visKey(i))
			} else {
				err = tx.Put(visKey(i), visVal(tag, c.ValLen))
			}
			if err != nil {
				_ = tx.Rollback()
				return err
			}
		}
		return tx.Commit()
	}
	if err := commit(0); err != nil {
		return &drive.Failure{Sig: "vis:commit-error", Msg: err.Error()}, nil, false, nil
	}
	var done atomic.Bool
	var failMu sync.Mutex
	var fail *drive.Failure
	var hist []string
	setFail := func(sig, msg string, h []string) {
		failMu.Lock()
		if fail == nil {
			fail = &drive.Failure{Sig: sig, Msg: msg}
			hist = h
		}
		failMu.Unlock()
		done.Store(true)
	}
	var overlaps atomic.Int64
	var wg sync.WaitGroup
	// tags of transactions whose commit reported an error: they must leave no trace
	var failedTags sync.Map
	traceOfFailed := func(tg uint32) bool {
		_, bad := failedTags.Load(tg)
		return bad
	}
	// get returns (tag, present); a deleted last key reports present=false
	get := func(i int) (uint32, bool, error) {
		v, err := e.Get(visKey(i))
		if err != nil {
			if drive.IsNotFound(err) {
				return 0, false, nil
			}
			return 0, false, err
		}
		tg, ok := tagOf(v)
		if !ok {
			return 0, false, fmt.Errorf("malformed value %x", v[:min(len(v), 12)])
		}
		return tg, true, nil
	}
	for rdr := 0; rdr < c.Readers; rdr++ {
		wg.Add(1)
		go func(rdr int) {
			defer wg.Done()
			it := rdr
			var lastSeen uint32
			for !done.Load() {
				it++
				if it%3 != 0 || len(c.Pairs) == 0 {
					// (a) ordered pair of plain gets over keys that are never deleted
					pr := c.Pairs[it%len(c.Pairs)]
					a, oka, err := get(pr[0])
					if err != nil {
						setFail("vis:read-error", err.Error(), nil)
						return
					}
					b, okb, err := get(pr[1])
					if err != nil {
						setFail("vis:read-error", err.Error(), nil)
						return
					}
					if (oka && traceOfFailed(a)) || (okb && traceOfFailed(b)) {
						setFail("vis:trace-of-failed-tx", fmt.Sprintf("a Get returned tag %d/%d of a transaction whose commit reported an error", a, b), nil)
						return
					}
					if oka && okb && a > b {
						setFail("vis:pair-order", fmt.Sprintf("Get(k%d) returned tag %d, the later Get(k%d) returned the older tag %d: a strict subset of transaction %d was visible", pr[0], a, pr[1], b, a),
							[]string{fmt.Sprintf("reader %d: get k%d -> tag %d ; then get k%d -> tag %d", rdr, pr[0], a, pr[1], b)})
						return
					}
					if oka && a != lastSeen {
						overlaps.Add(1)
						lastSeen = a
					}
				} else {
					// (b) read-only transaction: every key must show the same tag
					tx, err := e.BeginTransaction(true)
					if err != nil {
						setFail("vis:begin-error", err.Error(), nil)
						return
					}
					var tags []string
					first, have := uint32(0), false
					bad := false
					for i := 0; i < c.K; i++ {
						v, err := tx.Get(visKey(i))
						if err != nil {
							if drive.IsNotFound(err) {
								tags = append(tags, "absent")
								continue
							}
							_ = tx.Rollback()
							setFail("vis:read-error", err.Error(), nil)
							return
						}
						tg, ok := tagOf(v)
						tags = append(tags, fmt.Sprint(tg))
						if !ok {
							bad = true
						} else if !have {
							first, have = tg, true
						} else if tg != first {
							bad = true
						}
					}
					// scan inside the same transaction
					iter := tx.NewIterator()
					var stags []string
					for iter.SeekToFirst(); iter.Valid(); iter.Next() {
						if iter.IsTombstone() || !bytes.HasPrefix(iter.Key(), []byte("vk")) {
							continue
						}
						tg, ok := tagOf(iter.Value())
						stags = append(stags, fmt.Sprint(tg))
						if !ok || (have && tg != first) {
							bad = true
						}
					}
					// with Deletes, the last key is absent exactly in odd transactions
					if c.Deletes && have {
						lastAbsent := tags[len(tags)-1] == "absent"
						if lastAbsent != (first%2 == 1) {
							bad = true
						}
					}
					_ = tx.Rollback()
					if have && traceOfFailed(first) {
						setFail("vis:trace-of-failed-tx", fmt.Sprintf("a read-only transaction saw tag %d of a transaction whose commit reported an error", first), nil)
						return
					}
					if bad {
						setFail("vis:snapshot-mixed", fmt.Sprintf("read-only transaction saw tags %v (scan %v): not one committed state", tags, stags),
							[]string{fmt.Sprintf("reader %d read-only tx: gets %v scan %v", rdr, tags, stags)})
						return
					}
					if have && first != lastSeen {
						overlaps.Add(1)
						lastSeen = first
					}
				}
			}
		}(rdr)
	}
	commitErrors := 0
	for tag := uint32(1); tag <= uint32(c.Txs) && !done.Load(); tag++ {
		if err := commit(tag); err != nil {
			// a failed commit is allowed (e.g. it raced a log rotation); it must leave no
			// trace: from now on no reader may see its tag (and the final state must not)
			failedTags.Store(tag, true)
			commitErrors++
			ev.R().Note("commit error during visibility run: " + err.Error())
			continue
		}
	}
	done.Store(true)
	wg.Wait()
	ev.R().Count("vis_commit_errors", commitErrors)
	if fail == nil {
		// quiescent end state: no key shows a failed transaction's tag
		for i := 0; i < c.K; i++ {
			if tg, ok, err := get(i); err == nil && ok && traceOfFailed(tg) {
				fail = &drive.Failure{Sig: "vis:trace-of-failed-tx", Msg: fmt.Sprintf("after the run key k%d holds tag %d of a transaction whose commit reported an error", i, tg)}
			}
		}
	}
	classes := []string{"kind:visibility"}
	if c.ViaServer {
		classes = append(classes, "vis:via_service_batchwrite")
	}
	nt := overlaps.Load() >= 2
	if nt {
		classes = append(classes, "vis:reader_saw_tag_change")
	}
	if fail != nil {
		return fail, classes, nt, hist
	}
	// final: all keys carry the last tag
	return nil, classes, nt, nil
}

func genVis(t *rapid.T) VisCase {
	c := VisCase{
		Cfg:       gen.Config(t),
		K:         rapid.SampledFrom([]int{2, 3, 4, 8, 16, 64}).Draw(t, "K"),
		Txs:       rapid.IntRange(10, 60).Draw(t, "txs"),
		ValLen:    rapid.SampledFrom([]int{0, 8, 100, 1200, 9000}).Draw(t, "vallen"),
		Readers:   rapid.IntRange(1, 4).Draw(t, "readers"),
		ViaServer: rapid.IntRange(0, 3).Draw(t, "svc") == 0,
		Deletes:   rapid.Bool().Draw(t, "deletes"),
	}
	if c.K*c.ValLen > 300000 {
		c.ValLen = 1200
	}
	hiKey := c.K - 1
	if c.Deletes && hiKey > 0 {
		hiKey-- // pairs only over keys that are never deleted
	}
	np := rapid.IntRange(1, 6).Draw(t, "npairs")
	for i := 0; i < np; i++ {
		c.Pairs = append(c.Pairs, [2]int{rapid.IntRange(0, hiKey).Draw(t, "pa"), rapid.IntRange(0, hiKey).Draw(t, "pb")})
	}
	c.Yield = rapid.SliceOfN(rapid.Uint8Range(0, 3), 1, 12).Draw(t, "yield")
	return c
}

func TestPropVisibility(t *testing.T) {
	rapid.Check(t, func(t *rapid.T) {
		c := genVis(t)
		f, classes, nt, hist := runVis(&c)
		ev.R().Case(ev.Hash(&c), nt, classes, func() any { return &c })
		if f != nil {
			path := ev.R().Fail(f.Sig, f.Msg, Doc{Property: "C03", Kind: "visibility", Vis: &c, Failure: f.Sig + ": " + f.Msg, History: hist})
			t.Fatalf("C03 violated: %s: %s (replay %s)", f.Sig, f.Msg, path)
		}
	})
}

// --------------------------------------------------------------- buffer ----

// BufOp is one call inside a transaction body.
type BufOp struct {
	Del bool   `json:"del,omitempty"`
	K   int    `json:"k"`
	Len int    `json:"len"`
	Tag uint32 `json:"tag"`
}

// BufTx is one transaction.
type BufTx struct {
	Ops    []BufOp `json:"ops"`
	Commit bool    `json:"commit"`
}

// BufCase: transactions executed with ONE reused key buffer and ONE reused
// value buffer, scribbled over after every call.
type BufCase struct {
	Cfg    drive.Cfg `json:"cfg"`
	Keys   [][]byte  `json:"keys"`
	Txs    []BufTx   `json:"txs"`
	Reopen bool      `json:"reopen"`
}

func runBuf(c *BufCase) (*drive.Failure, []string, bool) {
	dir, err := os.MkdirTemp("", "c03b-")
	if err != nil {
		panic(err)
	}
	defer os.RemoveAll(dir)
	e, err := drive.Open(dir, c.Cfg)
	if err != nil {
		return &drive.Failure{Sig: "buf:open-error", Msg: err.Error()}, nil, false
	}
	defer func() {
		if e != nil {
			e.Close()
		}
	}()
	model := drive.Model{}
	kbuf := make([]byte, 0, 4200)
	vbuf := make([]byte, 0, 70000)
	nt := false
	commitFailed := false
	check := func(when string) *drive.Failure {
		for i, k := range c.Keys {
			got, err := e.Get(k)
			want, wf := model[string(k)]
			if err != nil && !drive.IsNotFound(err) {
				return &drive.Failure{Sig: "buf:read-error", Msg: err.Error()}
			}
			if (err == nil) != wf || (err == nil && !bytes.Equal(got, want)) {
				kind := "wrong-value"
				if wf && err != nil {
					kind = "lost"
				} else if !wf {
					kind = "trace-of-unfinished-or-deleted"
				}
				return &drive.Failure{Sig: "buf:" + kind + "@" + when,
					Msg: fmt.Sprintf("%s: key k%d: found=%v len=%d want found=%v len=%d", when, i, err == nil, len(got), wf, len(want))}
			}
		}
		return nil
	}
	for ti, txc := range c.Txs {
		tx, err := e.BeginTransaction(false)
		if err != nil {
			return &drive.Failure{Sig: "buf:begin-error", Msg: err.Error()}, nil, nt
		}
		pending := map[string][]byte{}
		pendDel := map[string]bool{}
		seen := map[int]bool{}
		for _, op := range txc.Ops {
			if seen[op.K] {
				nt = true
			}
			seen[op.K] = true
			kbuf = append(kbuf[:0], c.Keys[op.K]...)
			if op.Del {
				if err := tx.Delete(kbuf); err != nil {
					return &drive.Failure{Sig: "buf:delete-error", Msg: err.Error()}, nil, nt
				}
				delete(pending, string(c.Keys[op.K]))
				pendDel[string(c.Keys[op.K])] = true
			} else {
				val := drive.Val{Len: op.Len, Tag: op.Tag}.Bytes()
				vbuf = append(vbuf[:0], val...)
				if err := tx.Put(kbuf, vbuf); err != nil {
					return &drive.Failure{Sig: "buf:put-error", Msg: err.Error()}, nil, nt
				}
				pending[string(c.Keys[op.K])] = val
				delete(pendDel, string(c.Keys[op.K]))
				// scribble over the value buffer
				for i := range vbuf {
					vbuf[i] ^= 0xA5
				}
			}
			// scribble over the key buffer: the caller may reuse it
			for i := range kbuf {
				kbuf[i] ^= 0x5A
			}
		}
		if txc.Commit {
			if err := tx.Commit(); err != nil {
				// the property does not say that a commit cannot fail; a FAILED
				// transaction leaves no trace: the model stays as it is, and the
				// comparisons below (also after the reopen) judge that
				ev.R().Count("buffer_commits_that_reported_an_error", 1)
				commitFailed = true
			} else {
				for k, v := range pending {
					model[k] = v
				}
				for k := range pendDel {
					delete(model, k)
				}
			}
		} else {
			if err := tx.Rollback(); err != nil {
				return &drive.Failure{Sig: "buf:rollback-error", Msg: err.Error()}, nil, nt
			}
		}
		drive.Quiesce(e)
		when := "after-commit"
		if !txc.Commit {
			when = "after-rollback"
		}
		if f := check(when); f != nil {
			f.Msg = fmt.Sprintf("tx %d: %s", ti, f.Msg)
			return f, nil, nt
		}
	}
	// no invented keys (scribbled keys must not exist): full scan = model keys
	snap := drive.Observe(e, &drive.Program{Keys: c.Keys})
	if d := snap.EqualModel(model, &drive.Program{Keys: c.Keys}); d != "" {
		return &drive.Failure{Sig: "buf:scan-differs", Msg: d}, nil, nt
	}
	if c.Reopen {
		drive.Quiesce(e)
		_ = e.Close()
		e = nil
		e2, err := engine.NewEngineFacade(dir)
		if err != nil {
			return &drive.Failure{Sig: "buf:open-error", Msg: err.Error()}, nil, nt
		}
		e = e2
		if f := check("after-reopen"); f != nil {
			return f, nil, nt
		}
		snap := drive.Observe(e, &drive.Program{Keys: c.Keys})
		if d := snap.EqualModel(model, &drive.Program{Keys: c.Keys}); d != "" {
			return &drive.Failure{Sig: "buf:scan-differs-after-reopen", Msg: d}, nil, nt
		}
	}
	classes := []string{"kind:buffer"}
	if nt {
		classes = append(classes, "buf:repeated_key_in_body")
	}
	if commitFailed {
		classes = append(classes, "buf:a_commit_reported_an_error")
	}
	return nil, classes, nt
}

func genBuf(t *rapid.T) BufCase {
	c := BufCase{Cfg: gen.Config(t), Keys: gen.KeysWide(t, 3, 8), Reopen: rapid.Bool().Draw(t, "reopen")}
	ntx := rapid.IntRange(1, 6).Draw(t, "ntx")
	tag := uint32(1)
	for i := 0; i < ntx; i++ {
		var tx BufTx
		m := rapid.IntRange(1, 10).Draw(t, "m")
		for j := 0; j < m; j++ {
			op := BufOp{K: rapid.IntRange(0, len(c.Keys)-1).Draw(t, "k")}
			if rapid.IntRange(0, 2).Draw(t, "del") == 0 {
				op.Del = true
			} else {
				op.Len = rapid.SampledFrom([]int{0, 1, 3, 8, 40, 300, 5000, 40000, -1, -1}).Draw(t, "len")
				if op.Len < 0 {
					// the entry's log payload (17 + key + value bytes) lands on, or a few
					// bytes around, the largest unfragmented record (32768)
					op.Len = 32768 - 17 - len(c.Keys[op.K]) + rapid.IntRange(-8, 3).Draw(t, "edge_d")
					if op.Len < 0 { // a key that is itself longer than a record
						op.Len = 1
					}
				}
				op.Tag = tag
				tag++
			}
			tx.Ops = append(tx.Ops, op)
		}
		tx.Commit = rapid.IntRange(0, 3).Draw(t, "commit") != 0
		c.Txs = append(c.Txs, tx)
	}
	return c
}

func TestPropBuffer(t *testing.T) {
	rapid.Check(t, func(t *rapid.T) {
		c := genBuf(t)
		f, classes, nt := runBuf(&c)
		if classes == nil {
			classes = []string{"kind:buffer"}
		}
		ev.R().Case(ev.Hash(&c), nt, classes, func() any { return &c })
		if f != nil {
			path := ev.R().Fail(f.Sig, f.Msg, Doc{Property: "C03", Kind: "buffer", Buf: &c, Failure: f.Sig + ": " + f.Msg})
			t.Fatalf("C03 violated: %s: %s (replay %s)", f.Sig, f.Msg, path)
		}
	})
}

// --------------------------------------------------------------- replay ----

func TestReplay(t *testing.T) {
	fn := os.Getenv("VERIF_REPLAY")
	if fn == "" {
		t.Skip("no VERIF_REPLAY")
	}
	b, err := os.ReadFile(fn)
	if err != nil {
		t.Fatal(err)
	}
	var d Doc
	if err := json.Unmarshal(b, &d); err != nil {
		t.Fatal(err)
	}
	var f *drive.Failure
	switch d.Kind {
	case "crash":
		f, _ = drive.RunCrashCase(d.Crash, true, commitSite)
		if f != nil {
			f.Sig = "crash:" + f.Sig
		}
	case "torn":
		f, _, _ = runTorn(d.Torn, true)
	case "visibility":
		// schedule dependent: re-execute the workload several times
		for i := 0; i < 20 && f == nil; i++ {
			f, _, _, _ = runVis(d.Vis)
		}
	case "buffer":
		f, _, _ = runBuf(d.Buf)
	case "iofault":
		f, _, _ = runIO(d.IO)
	case "shared":
		// schedule dependent: re-execute
		for i := 0; i < 30 && f == nil; i++ {
			f, _, _ = runShared(d.Shared)
		}
	default:
		t.Fatalf("unknown kind %q", d.Kind)
	}
	if f != nil {
		ev.WriteReplayResult(ev.ReplayResult{File: fn, Outcome: "fail", Signature: f.Sig, Message: f.Msg})
		return
	}
	ev.WriteReplayResult(ev.ReplayResult{File: fn, Outcome: "pass"})
}

// C15 — replicas cannot stall or fail the primary.
// Fault sequences against a live primary: a generated client workload (puts
// totalling several MiB, gets, transaction commits, optionally a second client
// goroutine issuing Gets) runs on a real engine with a real replication.Manager
// in primary mode while a fault-injected replica and 0-2 healthy replicas
// (real managers) are attached over loopback TCP (DESIGN.md 5/C15). Every case
// runs in its own child process; the verdict is written before teardown.
//
// Oracle clauses
//  1. every primary client call (Put / Get / transaction commit) returns
//     within 10 s (measured normal: well below 50 ms) and reports no error;
//  2. the fault-injected session is no longer listed by Manager.GetNodeInfo
//     (the topology the primary reports to clients) 10 x the configured
//     heartbeat timeout after the end of the workload - judged for the classes
//     whose replica is gone or unresponsive for good (never reads, blackholed or
//     reset connection, never acknowledges); a replica that is merely slow but
//     keeps applying and acknowledging is observed, not judged;
//  3. the healthy replicas still converge to the primary (C14's oracle).
package c15

import (
	"bytes"
	"encoding/json"
	"fmt"
	"os"
	"os/exec"
	"path/filepath"
	"strings"
	"sync"
	"syscall"
	"testing"
	"time"

	"pgregory.net/rapid"

	"verif/internal/ev"
)

const rule = "case = rapid-drawn (in half of the cases a pre-history of the primary's directory: 1-3 rounds of 1-15 writes + flush (log rotation), " +
	"0-10 more writes, clean close, reopen, so that the log directory holds older files and log retention has work; primary log sync none / batch / immediate; " +
	"0-2 acknowledging raw replicas; key pool, 120-400 primary client steps: puts of 2-24 KiB (several MiB in total), gets, 2-4 key transaction commits, " +
	"rare sleeps of 5-1200 ms; optional second client goroutine issuing a Get every 2 ms; heartbeat interval 100-500 ms / timeout 1-2 s with or without " +
	"empty heartbeat messages; 0-2 healthy replicas (real replication.Manager + engine) attached before the first step; one fault-injected replica " +
	"attached before a drawn step of the first third: stalled_reader (StreamWAL opened, Recv never called), tcp_stall (real replica behind a TCP proxy " +
	"that stops reading and forwarding at a drawn step, sockets left open), tcp_reset (proxy resets every socket), no_ack (reads, never acknowledges), " +
	"slow_apply (real Replica whose applier sleeps 5-100 ms per entry), tcp_stall_quiet (blackholed right after registration and before the first write; " +
	"clause 2 judged before the workload), " +
	"nack_sender (raw replica that reads its stream and keeps calling NegativeAcknowledge with its session id every 0.2-5 ms from 1-3 goroutines for " +
	"sequence 1 / its last sequence / a future sequence, or follows the protocol but drops every 2nd-7th message and NACKs the gap; with or without " +
	"acknowledgements; clause 2 observed only), reconnect_storm (1-4 goroutines opening and cancelling StreamWAL in a tight loop while the " +
	"heartbeat monitor runs every 1-5 ms), flapping_acker (raw replica living short lives: 4-8 goroutines acknowledging back to back, connection " +
	"closed abruptly after 1-20 ms with acknowledgements in flight, repeated until the end of the workload), none); executed in a child process over loopback TCP; " +
	"oracle = (1) every Put/Get/Commit on the primary returns within 10 s without error, (2) GetNodeInfo no longer lists the faulty replica " +
	"10 x heartbeat timeout after the workload (classes stalled_reader, tcp_stall, tcp_reset, no_ack, tcp_stall_quiet), (3) every healthy replica equals the primary " +
	"(gets + full scan) within 60 s + 3 s per 100 steps and still 2 s later. " +
	"non-trivial = a fault class other than none with more than 2 MiB of payload written after the fault became active; distinct by FNV-64 of the case JSON"

func TestMain(m *testing.M) {
	if os.Getenv("VERIF_CHILD_SPEC") != "" {
		ev.Silence()
		os.Exit(m.Run())
	}
	ev.Silence()
	rec := ev.Init("C15", rule)
	code := m.Run()
	rec.Flush(true)
	os.Exit(code)
}

// TestChild is the entry point of the re-executed child.
func TestChild(t *testing.T) {
	sp := os.Getenv("VERIF_CHILD_SPEC")
	if sp == "" {
		t.Skip("not a child")
	}
	childMain(sp)
}

// Doc is the replay document.
type Doc struct {
	Property  string `json:"property"`
	Signature string `json:"signature,omitempty"`
	Case      Case   `json:"case"`
	// Cases (optional, replay files only): further cases that belong to the same
	// document; TestReplay executes all of them side by side and fails with the
	// signature of the first one (in order: Case, Cases...) that fails.
	Cases   []Case  `json:"cases,omitempty"`
	Message string  `json:"message,omitempty"`
	Result  *Result `json:"child_result,omitempty"`
	Note    string  `json:"note,omitempty"`
}

func infra(msg string) {
	fmt.Fprintln(os.Stderr, "C15 infrastructure error:", msg)
	ev.R().Note("infrastructure: " + clip(msg, 300))
	ev.R().Flush(false)
	os.Exit(3)
}

func clip(s string, n int) string {
	if len(s) > n {
		return s[:n] + "..."
	}
	return s
}

func tailStr(s string, n int) string {
	if len(s) > n {
		return s[len(s)-n:]
	}
	return s
}

// runChild executes one case in a child process.
func runChild(c *Case) *Result {
	base, err := os.MkdirTemp("", "c15-")
	if err != nil {
		return &Result{Verdict: "infra", Msg: err.Error()}
	}
	defer os.RemoveAll(base)
	spec := ChildSpec{Case: *c, Out: filepath.Join(base, "result.json"), Base: base, LogTo: os.Getenv("VERIF_C15_LOG")}
	sp := filepath.Join(base, "spec.json")
	b, _ := json.Marshal(&spec)
	if err := os.WriteFile(sp, b, 0o644); err != nil {
		return &Result{Verdict: "infra", Msg: err.Error()}
	}
	cmd := exec.Command(os.Args[0], "-test.run", "^TestChild$", "-test.timeout", "0")
	cmd.Env = append(os.Environ(), "VERIF_CHILD_SPEC="+sp, fmt.Sprintf("VERIF_CHILD_CAP_S=%d", int(capFor(c).Seconds())+20))
	var stderr bytes.Buffer
	cmd.Stderr = &stderr
	cmd.Stdout = nil
	// the child dies with this process (driver timeout, kill) and, independently,
	// ends itself after the cap
	cmd.SysProcAttr = &syscall.SysProcAttr{Pdeathsig: syscall.SIGKILL}
	if err := cmd.Start(); err != nil {
		return &Result{Verdict: "infra", Msg: "start child: " + err.Error()}
	}
	done := make(chan error, 1)
	go func() { done <- cmd.Wait() }()
	limit := capFor(c)
	var werr error
	select {
	case werr = <-done:
	case <-time.After(limit):
		_ = cmd.Process.Kill()
		<-done
		if r := readResult(spec.Out); r != nil {
			return r
		}
		return &Result{Verdict: "infra", Msg: fmt.Sprintf("child exceeded %v without a verdict; stderr: %s", limit, clip(stderr.String(), 1500))}
	}
	if r := readResult(spec.Out); r != nil {
		return r
	}
	if r := processDied(stderr.String()); r != nil {
		return r
	}
	return &Result{Verdict: "infra", Msg: fmt.Sprintf("child ended without a result (%v); stderr: %s", werr, tailStr(stderr.String(), 1500))}
}

func readResult(path string) *Result {
	b, err := os.ReadFile(path)
	if err != nil {
		return nil
	}
	var r Result
	if json.Unmarshal(b, &r) != nil {
		return nil
	}
	return &r
}

func record(c *Case, r *Result) {
	ev.R().Count("primary_calls", r.Calls)
	ev.R().Count("reader_gets", r.ReaderGets)
	ev.R().Count("payload_bytes_written", r.BytesWritten)
	worst := int64(0)
	for _, v := range r.MaxUs {
		if v > worst {
			worst = v
		}
	}
	switch {
	case worst < 50_000:
		ev.R().Count("worst_call_<50ms", 1)
	case worst < 1_000_000:
		ev.R().Count("worst_call_50ms-1s", 1)
	default:
		ev.R().Count("worst_call_>=1s", 1)
		ev.R().Note(fmt.Sprintf("slow primary call: %d us (fault %s, healthy %d)", worst, c.Fault.Class, c.Healthy))
	}
	if c.Fault.Class != "none" {
		if r.DropMs >= 0 {
			ev.R().Count("faulty_session_dropped:"+c.Fault.Class, 1)
		} else if r.Verdict == "ok" {
			ev.R().Count("faulty_session_still_listed(not judged):"+c.Fault.Class, 1)
		}
	}
	if c.Fault.Class == "flapping_acker" && r.FaultyStats != nil {
		for _, k := range []string{"lives", "acks"} {
			if v, ok := r.FaultyStats[k].(float64); ok {
				ev.R().Count("flapping_acker_"+k, int(v))
			}
		}
	}
	if c.Fault.Class == "reconnect_storm" && r.FaultyStats != nil {
		if v, ok := r.FaultyStats["storm_cycles"].(float64); ok {
			ev.R().Count("storm_register_unregister_cycles", int(v))
		}
	}
	if c.Fault.Class == "nack_sender" && r.FaultyStats != nil {
		for _, k := range []string{"nacks", "acks", "dropped_msgs"} {
			if v, ok := r.FaultyStats[k].(float64); ok {
				ev.R().Count("nack_sender_"+k, int(v))
			}
		}
	}
	ev.R().Count("acker_acks", int(r.AckerAcks))
	if r.LogFilesAtStart >= 2 {
		ev.R().Count("old_log_files_at_start", r.LogFilesAtStart-1)
		if r.LogFilesAtEnd > 0 && r.LogFilesAtEnd < r.LogFilesAtStart {
			ev.R().Count("log_files_removed_by_retention", r.LogFilesAtStart-r.LogFilesAtEnd)
		}
	}
	if c.Healthy > 0 && r.Verdict == "ok" {
		ev.R().Count("healthy_converge_ms_total", int(r.ConvergeMs))
		if r.ConvergeMs >= 15000 {
			ev.R().Note(fmt.Sprintf("slow convergence of a healthy replica: %d ms", r.ConvergeMs))
		}
	}
	if r.Verdict == "abandon" {
		ev.R().Count("abandoned:"+r.Sig, 1)
		ev.R().Note("abandoned: " + r.Sig + ": " + clip(r.Msg, 200))
	}
	if d := os.Getenv("VERIF_C15_KEEP"); d != "" {
		b, _ := json.MarshalIndent(Doc{Property: "C15", Signature: r.Sig, Case: *c, Message: r.Msg, Result: r}, "", " ")
		_ = os.WriteFile(filepath.Join(d, fmt.Sprintf("%s-%s-%d.json", r.Verdict, c.Fault.Class, time.Now().UnixNano())), b, 0o644)
	}
}

func TestProp(t *testing.T) {
	rapid.Check(t, func(t *rapid.T) {
		c := genCase(t)
		r := runChild(&c)
		if r.Verdict == "infra" {
			infra(r.Msg)
		}
		nt, classes := classify(&c)
		if r.LogFilesAtStart >= 2 {
			classes = append(classes, "primary_log_dir_has_old_files(observed)")
		}
		if r.LogFilesAtEnd > 0 && r.LogFilesAtEnd < r.LogFilesAtStart {
			classes = append(classes, "retention_removed_log_files(observed)")
		}
		if c.Fault.Class == "no_ack" && !ev.Flag("missing_ack_drop") {
			ev.R().Exclude("missing_ack_drop")
		}
		ev.R().Case(ev.Hash(&c), nt, classes, func() any { return slim(&c) })
		record(&c, r)
		if r.Verdict == "violation" {
			path := ev.R().Fail(r.Sig, clip(r.Msg, 6000), Doc{Property: "C15", Signature: r.Sig, Case: c, Message: clip(r.Msg, 20000), Result: r})
			t.Fatalf("C15 violated: %s (replay %s)", r.Sig, path)
		}
	})
}

// slim renders a case for the evidence samples without its step list.
func slim(c *Case) any {
	return map[string]any{"keys": len(c.Keys), "steps": len(c.Steps), "payload_bytes": bytesAfter(c, 0), "fault": c.Fault,
		"healthy": c.Healthy, "hb": c.HB, "reader": c.Reader, "first_steps": c.Steps[:min(6, len(c.Steps))]}
}

// TestReplay re-executes a saved case without the library, up to 3 times (the
// verdict depends on the schedule); it fails as soon as one execution fails.
func TestReplay(t *testing.T) {
	f := os.Getenv("VERIF_REPLAY")
	if f == "" {
		t.Skip("no VERIF_REPLAY")
	}
	b, err := os.ReadFile(f)
	if err != nil {
		t.Fatal(err)
	}
	var d Doc
	if err := json.Unmarshal(b, &d); err != nil {
		t.Fatal(err)
	}
	const n = 3
	cases := append([]Case{d.Case}, d.Cases...)
	// all executions run side by side (every child owns its engines, directories
	// and ports); the verdict of one execution depends on the schedule, so each
	// case is executed n times and the replay fails if any execution fails
	results := make([][]*Result, len(cases))
	var wg sync.WaitGroup
	for ci := range cases {
		results[ci] = make([]*Result, n)
		for i := 0; i < n; i++ {
			wg.Add(1)
			go func(ci, i int) {
				defer wg.Done()
				results[ci][i] = runChild(&cases[ci])
			}(ci, i)
		}
	}
	wg.Wait()
	var msgs []string
	for ci := range cases {
		for i, r := range results[ci] {
			if r.Verdict == "infra" {
				t.Fatalf("infrastructure: %s", r.Msg)
			}
			if os.Getenv("VERIF_VERBOSE") != "" {
				r2 := *r
				r2.Msg = clip(r2.Msg, 1500)
				rb, _ := json.Marshal(&r2)
				fmt.Fprintf(os.Stderr, "case %d execution %d: %s\n", ci, i+1, rb)
			}
		}
	}
	for ci := range cases {
		for i, r := range results[ci] {
			if r.Verdict == "violation" {
				ev.WriteReplayResult(ev.ReplayResult{File: f, Outcome: "fail", Signature: r.Sig,
					Message: fmt.Sprintf("case %d of %d, execution %d of %d: %s", ci+1, len(cases), i+1, n, clip(r.Msg, 3000))})
				t.Logf("replay fails (case %d, execution %d): %s", ci+1, i+1, r.Sig)
				return
			}
			msgs = append(msgs, summary(r))
		}
	}
	ev.WriteReplayResult(ev.ReplayResult{File: f, Outcome: "pass", Message: strings.Join(msgs, " ")})
}

func summary(r *Result) string {
	return fmt.Sprintf("%s/worst=%v/drop=%dms/conv=%dms", r.Verdict, r.MaxUs, r.DropMs, r.ConvergeMs)
}

// capFor is the parent's cap for one child: workload on a loaded machine
// (incl. a wedged driver step, 90 s) + drop clause (<= 20 s) + convergence
// bound + slack.
func capFor(c *Case) time.Duration {
	return convBound(c) + 30*time.Second + 120*time.Second + 60*time.Second
}

// processDied turns a child that was killed by the Go runtime (fatal error or
// unrecovered panic) inside repository code into a violation: the process that
// hosts the primary (and the replicas) died. The goroutine that crashed is the
// first one of the dump; it must have a repository frame, otherwise the death
// is the harness's own problem (infrastructure).
func processDied(stderr string) *Result {
	i := strings.Index(stderr, "fatal error: ")
	if j := strings.Index(stderr, "panic: "); j >= 0 && (i < 0 || j < i) {
		i = j
	}
	if i < 0 {
		return nil
	}
	rest := stderr[i:]
	first := rest
	if k := strings.IndexByte(first, '\n'); k >= 0 {
		first = first[:k]
	}
	// the crashing goroutine: from the first "goroutine " header to the next blank line
	g := rest
	if k := strings.Index(g, "\ngoroutine "); k >= 0 {
		g = g[k+1:]
	}
	if k := strings.Index(g, "\n\n"); k >= 0 {
		g = g[:k]
	}
	if !strings.Contains(g, "github.com/KevoDB/kevo/") {
		return nil
	}
	who := "primary"
	if strings.Contains(g, "replication.(*Replica)") {
		who = "replica"
	}
	if len(rest) > 6000 {
		rest = rest[:6000]
	}
	return &Result{Verdict: "violation", Sig: who + "-process-died:" + clip(first, 120),
		Msg: "the process hosting the primary and its replicas was killed by the Go runtime:\n" + rest}
}

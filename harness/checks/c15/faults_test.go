package c15

// Fault-injected replicas: raw gRPC clients, a TCP proxy, a sleeping applier.

import (
	"context"
	"fmt"
	"net"
	"strconv"
	"sync"
	"sync/atomic"
	"time"

	"google.golang.org/grpc"
	"google.golang.org/grpc/credentials/insecure"

	"github.com/KevoDB/kevo/pkg/engine"
	"github.com/KevoDB/kevo/pkg/replication"
	"github.com/KevoDB/kevo/pkg/wal"
	rpb "github.com/KevoDB/kevo/proto/kevo/replication"

	"verif/internal/drive"
)

// rawClient opens StreamWAL the way a replica does (start sequence 1 = "from
// the beginning", what replication.Manager requests at every start).
type rawClient struct {
	conn   *grpc.ClientConn
	stream rpb.WALReplicationService_StreamWALClient
	cancel context.CancelFunc
	recvd  atomic.Int64 // bytes of payload received (no_ack reader)
	msgs   atomic.Int64
}

func dialRaw(addr, listener string) (*rawClient, error) {
	ctx, cancel := context.WithTimeout(context.Background(), 10*time.Second)
	defer cancel()
	conn, err := grpc.DialContext(ctx, addr, grpc.WithTransportCredentials(insecure.NewCredentials()), grpc.WithBlock(),
		grpc.WithDefaultCallOptions(grpc.MaxCallRecvMsgSize(64<<20)))
	if err != nil {
		return nil, fmt.Errorf("dial %s: %w", addr, err)
	}
	sctx, scancel := context.WithCancel(context.Background())
	st, err := rpb.NewWALReplicationServiceClient(conn).StreamWAL(sctx, &rpb.WALStreamRequest{
		StartSequence: 1, ProtocolVersion: 1, CompressionSupported: true, PreferredCodec: rpb.CompressionCodec_ZSTD, ListenerAddress: listener})
	if err != nil {
		scancel()
		return nil, fmt.Errorf("StreamWAL: %w", err)
	}
	if _, err := st.Header(); err != nil {
		scancel()
		return nil, fmt.Errorf("stream header: %w", err)
	}
	return &rawClient{conn: conn, stream: st, cancel: scancel}, nil
}

// readForever is the healthy reader that never acknowledges.
func (c *rawClient) readForever() {
	go func() {
		for {
			m, err := c.stream.Recv()
			if err != nil {
				return
			}
			n := 0
			for _, e := range m.Entries {
				n += len(e.Payload)
			}
			c.recvd.Add(int64(n))
			c.msgs.Add(1)
		}
	}()
}

// proxy is a TCP forwarder in front of the primary. stall(): stop reading and
// forwarding in both directions while every socket stays open (what a cut
// without FIN/RST looks like to both ends); reset(): close every socket with
// SO_LINGER 0 (RST) and stop listening.
type proxy struct {
	l      net.Listener
	target string
	mu     sync.Mutex
	conns  []*net.TCPConn
	mode   atomic.Int32 // 0 forward, 1 stalled, 2 reset
	hold   chan struct{}
	bytes  atomic.Int64 // primary -> replica bytes forwarded
}

func startProxy(target string) (*proxy, string, error) {
	win := shardWindow()
	var lastErr error
	for try := 0; try < 100; try++ {
		port := win + int(portCursor.Add(1)%100)
		addr := "127.0.0.1:" + strconv.Itoa(port)
		l, err := net.Listen("tcp", addr)
		if err != nil {
			lastErr = err
			continue
		}
		p := &proxy{l: l, target: target, hold: make(chan struct{})}
		go p.acceptLoop()
		return p, addr, nil
	}
	return nil, "", fmt.Errorf("no port for the proxy: %v", lastErr)
}

func (p *proxy) acceptLoop() {
	for {
		c, err := p.l.Accept()
		if err != nil {
			return
		}
		if p.mode.Load() != 0 {
			// stalled: accept and ignore (the SYN is answered, nothing else happens)
			p.track(c.(*net.TCPConn))
			continue
		}
		up, err := net.DialTimeout("tcp", p.target, 5*time.Second)
		if err != nil {
			_ = c.Close()
			continue
		}
		p.track(c.(*net.TCPConn))
		p.track(up.(*net.TCPConn))
		go p.pipe(up, c, true)
		go p.pipe(c, up, false)
	}
}

func (p *proxy) track(c *net.TCPConn) {
	p.mu.Lock()
	p.conns = append(p.conns, c)
	p.mu.Unlock()
}

func (p *proxy) pipe(src, dst net.Conn, fromPrimary bool) {
	buf := make([]byte, 32*1024)
	for {
		if p.mode.Load() == 1 {
			<-p.hold // never closed: the goroutine parks, the sockets stay open and unread
		}
		n, err := src.Read(buf)
		if p.mode.Load() == 1 {
			<-p.hold
		}
		if n > 0 {
			if fromPrimary {
				p.bytes.Add(int64(n))
			}
			if _, werr := dst.Write(buf[:n]); werr != nil {
				return
			}
		}
		if err != nil {
			if p.mode.Load() == 0 {
				_ = dst.Close()
				_ = src.Close()
			}
			return
		}
	}
}

func (p *proxy) stall() { p.mode.Store(1) }

func (p *proxy) reset() {
	p.mode.Store(2)
	_ = p.l.Close()
	p.mu.Lock()
	for _, c := range p.conns {
		_ = c.SetLinger(0)
		_ = c.Close()
	}
	p.mu.Unlock()
}

// slowApplier is a replica applier that sleeps before every entry.
type slowApplier struct {
	inner *replication.EngineApplier
	sleep time.Duration
	n     atomic.Int64
}

func (s *slowApplier) Apply(e *wal.Entry) error {
	time.Sleep(s.sleep)
	s.n.Add(1)
	return s.inner.Apply(e)
}

func (s *slowApplier) Sync() error { return s.inner.Sync() }

// startSlowReplica starts a real replication.Replica whose applier sleeps.
func startSlowReplica(dir string, cfg drive.Cfg, primaryAddr, ownAddr string, sleep time.Duration) (*engine.EngineFacade, *replication.Replica, *slowApplier, error) {
	eng, err := drive.Open(dir, cfg)
	if err != nil {
		return nil, nil, nil, err
	}
	eng.SetReadOnly(true)
	rc := replicaConfig()
	rc.Connection.PrimaryAddress = primaryAddr
	rc.ReplicationListenerAddr = ownAddr
	ap := &slowApplier{inner: replication.NewEngineApplier(eng), sleep: sleep}
	r, err := replication.NewReplica(0, ap, rc)
	if err != nil {
		return nil, nil, nil, err
	}
	if err := r.Start(); err != nil {
		return nil, nil, nil, err
	}
	return eng, r, ap, nil
}

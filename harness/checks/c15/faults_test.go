package c15

// Fault-injected replicas: raw gRPC clients, a TCP proxy, a sleeping applier.

import (
	"context"
	"fmt"
	"net"
	"strconv"
	"sync"
	"sync/atomic"
	"time"

	"google.golang.org/grpc"
	"google.golang.org/grpc/credentials/insecure"
	"google.golang.org/grpc/metadata"

	"github.com/KevoDB/kevo/pkg/engine"
	"github.com/KevoDB/kevo/pkg/replication"
	"github.com/KevoDB/kevo/pkg/wal"
	rpb "github.com/KevoDB/kevo/proto/kevo/replication"

	"verif/internal/drive"
)

// rawClient opens StreamWAL the way a replica does (start sequence 1 = "from
// the beginning", what replication.Manager requests at every start).
type rawClient struct {
	conn   *grpc.ClientConn
	stream rpb.WALReplicationService_StreamWALClient
	cancel context.CancelFunc
	recvd  atomic.Int64 // bytes of payload received (no_ack reader)
	msgs   atomic.Int64
}

func dialRaw(addr, listener string) (*rawClient, error) {
	ctx, cancel := context.WithTimeout(context.Background(), 10*time.Second)
	defer cancel()
	conn, err := grpc.DialContext(ctx, addr, grpc.WithTransportCredentials(insecure.NewCredentials()), grpc.WithBlock(),
		grpc.WithDefaultCallOptions(grpc.MaxCallRecvMsgSize(64<<20)))
	if err != nil {
		return nil, fmt.Errorf("dial %s: %w", addr, err)
	}
	sctx, scancel := context.WithCancel(context.Background())
	st, err := rpb.NewWALReplicationServiceClient(conn).StreamWAL(sctx, &rpb.WALStreamRequest{
		StartSequence: 1, ProtocolVersion: 1, CompressionSupported: true, PreferredCodec: rpb.CompressionCodec_ZSTD, ListenerAddress: listener})
	if err != nil {
		scancel()
		return nil, fmt.Errorf("StreamWAL: %w", err)
	}
	if _, err := st.Header(); err != nil {
		scancel()
		return nil, fmt.Errorf("stream header: %w", err)
	}
	return &rawClient{conn: conn, stream: st, cancel: scancel}, nil
}

// readForever is the healthy reader that never acknowledges.
func (c *rawClient) readForever() {
	go func() {
		for {
			m, err := c.stream.Recv()
			if err != nil {
				return
			}
			n := 0
			for _, e := range m.Entries {
				n += len(e.Payload)
			}
			c.recvd.Add(int64(n))
			c.msgs.Add(1)
		}
	}()
}

// proxy is a TCP forwarder in front of the primary. stall(): stop reading and
// forwarding in both directions while every socket stays open (what a cut
// without FIN/RST looks like to both ends); reset(): close every socket with
// SO_LINGER 0 (RST) and stop listening.
type proxy struct {
	l      net.Listener
	target string
	mu     sync.Mutex
	conns  []*net.TCPConn
	mode   atomic.Int32 // 0 forward, 1 stalled, 2 reset
	hold   chan struct{}
	bytes  atomic.Int64 // primary -> replica bytes forwarded
}

func startProxy(target string) (*proxy, string, error) {
	win := shardWindow()
	var lastErr error
	for try := 0; try < 100; try++ {
		port := win + int(portCursor.Add(1)%100)
		addr := "127.0.0.1:" + strconv.Itoa(port)
		l, err := net.Listen("tcp", addr)
		if err != nil {
			lastErr = err
			continue
		}
		p := &proxy{l: l, target: target, hold: make(chan struct{})}
		go p.acceptLoop()
		return p, addr, nil
	}
	return nil, "", fmt.Errorf("no port for the proxy: %v", lastErr)
}

func (p *proxy) acceptLoop() {
	for {
		c, err := p.l.Accept()
		if err != nil {
			return
		}
		if p.mode.Load() != 0 {
			// stalled: accept and ignore (the SYN is answered, nothing else happens)
			p.track(c.(*net.TCPConn))
			continue
		}
		up, err := net.DialTimeout("tcp", p.target, 5*time.Second)
		if err != nil {
			_ = c.Close()
			continue
		}
		p.track(c.(*net.TCPConn))
		p.track(up.(*net.TCPConn))
		go p.pipe(up, c, true)
		go p.pipe(c, up, false)
	}
}

func (p *proxy) track(c *net.TCPConn) {
	p.mu.Lock()
	p.conns = append(p.conns, c)
	p.mu.Unlock()
}

func (p *proxy) pipe(src, dst net.Conn, fromPrimary bool) {
	buf := make([]byte, 32*1024)
	for {
		if p.mode.Load() == 1 {
			<-p.hold // never closed: the goroutine parks, the sockets stay open and unread
		}
		n, err := src.Read(buf)
		if p.mode.Load() == 1 {
			<-p.hold
		}
		if n > 0 {
			if fromPrimary {
				p.bytes.Add(int64(n))
			}
			if _, werr := dst.Write(buf[:n]); werr != nil {
				return
			}
		}
		if err != nil {
			if p.mode.Load() == 0 {
				_ = dst.Close()
				_ = src.Close()
			}
			return
		}
	}
}

func (p *proxy) stall() { p.mode.Store(1) }

func (p *proxy) reset() {
	p.mode.Store(2)
	_ = p.l.Close()
	p.mu.Lock()
	for _, c := range p.conns {
		_ = c.SetLinger(0)
		_ = c.Close()
	}
	p.mu.Unlock()
}

// slowApplier is a replica applier that sleeps before every entry.
type slowApplier struct {
	inner *replication.EngineApplier
	sleep time.Duration
	n     atomic.Int64
}

func (s *slowApplier) Apply(e *wal.Entry) error {
	time.Sleep(s.sleep)
	s.n.Add(1)
	return s.inner.Apply(e)
}

func (s *slowApplier) Sync() error { return s.inner.Sync() }

// startSlowReplica starts a real replication.Replica whose applier sleeps.
func startSlowReplica(dir string, cfg drive.Cfg, primaryAddr, ownAddr string, sleep time.Duration) (*engine.EngineFacade, *replication.Replica, *slowApplier, error) {
	eng, err := drive.Open(dir, cfg)
	if err != nil {
		return nil, nil, nil, err
	}
	eng.SetReadOnly(true)
	rc := replicaConfig()
	rc.Connection.PrimaryAddress = primaryAddr
	rc.ReplicationListenerAddr = ownAddr
	ap := &slowApplier{inner: replication.NewEngineApplier(eng), sleep: sleep}
	r, err := replication.NewReplica(0, ap, rc)
	if err != nil {
		return nil, nil, nil, err
	}
	if err := r.Start(); err != nil {
		return nil, nil, nil, err
	}
	return eng, r, ap, nil
}

// nackClient is a raw replica that reads its stream and keeps sending
// NegativeAcknowledge (and, optionally, Acknowledge) calls with its session id.
//
//	spam   N sender goroutines call NegativeAcknowledge every EveryMs for sequence 1, for the
//	       last sequence received, for a sequence that does not exist yet, or a mix of them
//	lossy  follows the replica's protocol (expected-next bookkeeping, NACK(expected) when a
//	       message does not start at the expected sequence, acknowledgement after every applied
//	       message) but silently drops every DropEvery-th message, so the real
//	       gap / NACK / resend path runs while the workload writes
type nackClient struct {
	raw     *rawClient
	sid     string
	cli     rpb.WALReplicationServiceClient
	lastSeq atomic.Uint64
	nacks   atomic.Int64
	nackErr atomic.Int64
	acks    atomic.Int64
	drops   atomic.Int64
	stop    chan struct{}
}

func startNackClient(addr, listener string, spec NackSpec) (*nackClient, error) {
	raw, err := dialRaw(addr, listener)
	if err != nil {
		return nil, err
	}
	md, err := raw.stream.Header()
	if err != nil {
		return nil, err
	}
	ids := md.Get("session-id")
	if len(ids) == 0 {
		return nil, fmt.Errorf("no session-id in the stream header")
	}
	n := &nackClient{raw: raw, sid: ids[0], cli: rpb.NewWALReplicationServiceClient(raw.conn), stop: make(chan struct{})}
	ctx := metadata.NewOutgoingContext(context.Background(), metadata.Pairs("session-id", n.sid))
	call := func(f func(context.Context) error) {
		cctx, cancel := context.WithTimeout(ctx, 30*time.Second)
		defer cancel()
		if err := f(cctx); err != nil {
			n.nackErr.Add(1)
		}
	}
	nack := func(seq uint64) {
		n.nacks.Add(1)
		call(func(c context.Context) error {
			_, err := n.cli.NegativeAcknowledge(c, &rpb.Nack{MissingFromSequence: seq})
			return err
		})
	}
	ack := func(seq uint64) {
		n.acks.Add(1)
		call(func(c context.Context) error {
			_, err := n.cli.Acknowledge(c, &rpb.Ack{AcknowledgedUpTo: seq})
			return err
		})
	}
	switch spec.Mode {
	case "lossy":
		// the RPCs are issued by a worker so that the reader never stops reading
		// (a replica that stops reading while it waits for its NACK is the
		// stalled-reader class)
		type rpc struct {
			nack bool
			seq  uint64
		}
		work := make(chan rpc, 256)
		go func() {
			for w := range work {
				if w.nack {
					nack(w.seq)
				} else {
					ack(w.seq)
				}
			}
		}()
		submit := func(w rpc) {
			select {
			case work <- w:
			default:
			}
		}
		go func() {
			expected := uint64(1)
			count := 0
			for {
				m, err := raw.stream.Recv()
				if err != nil {
					return
				}
				raw.msgs.Add(1)
				if len(m.Entries) == 0 {
					continue
				}
				count++
				if spec.DropEvery > 0 && count%spec.DropEvery == 0 {
					n.drops.Add(1)
					continue
				}
				first, last := m.Entries[0].SequenceNumber, m.Entries[len(m.Entries)-1].SequenceNumber
				if first != expected {
					submit(rpc{true, expected})
					continue
				}
				expected = last + 1
				n.lastSeq.Store(last)
				if spec.Ack {
					submit(rpc{false, last})
				}
			}
		}()
	default: // spam
		go func() {
			for {
				m, err := raw.stream.Recv()
				if err != nil {
					return
				}
				raw.msgs.Add(1)
				if k := len(m.Entries); k > 0 {
					if s := m.Entries[k-1].SequenceNumber; s > n.lastSeq.Load() {
						n.lastSeq.Store(s)
					}
				}
			}
		}()
		senders := spec.Senders
		if senders < 1 {
			senders = 1
		}
		for g := 0; g < senders; g++ {
			go func(g int) {
				i := g
				for {
					select {
					case <-n.stop:
						return
					case <-time.After(time.Duration(spec.EveryUs) * time.Microsecond):
					}
					target := spec.Target
					if target == "mix" {
						target = []string{"first", "last", "future"}[i%3]
					}
					last := n.lastSeq.Load()
					switch target {
					case "first":
						nack(1)
					case "last":
						if last == 0 {
							last = 1
						}
						nack(last)
					default:
						nack(last + 1000)
					}
					if spec.Ack && i%4 == 0 && last > 0 {
						ack(last)
					}
					i++
				}
			}(g)
		}
	}
	return n, nil
}

// stormClient: goroutines that open StreamWAL (the primary registers a session),
// wait for the stream header and cancel the stream at once (the handler returns
// and unregisters the session), in a tight loop over one connection each.
type stormClient struct {
	conns  []*grpc.ClientConn
	stop   chan struct{}
	cycles atomic.Int64
	errs   atomic.Int64
}

func startStorm(addr, listener string, goroutines int) (*stormClient, error) {
	st := &stormClient{stop: make(chan struct{})}
	for g := 0; g < goroutines; g++ {
		ctx, cancel := context.WithTimeout(context.Background(), 10*time.Second)
		conn, err := grpc.DialContext(ctx, addr, grpc.WithTransportCredentials(insecure.NewCredentials()), grpc.WithBlock())
		cancel()
		if err != nil {
			return nil, fmt.Errorf("storm dial: %w", err)
		}
		st.conns = append(st.conns, conn)
		go func(conn *grpc.ClientConn) {
			cli := rpb.NewWALReplicationServiceClient(conn)
			for {
				select {
				case <-st.stop:
					return
				default:
				}
				sctx, scancel := context.WithCancel(context.Background())
				// far behind the end of the log: the session is wanted, not the data
				s, err := cli.StreamWAL(sctx, &rpb.WALStreamRequest{StartSequence: 1 << 62, ProtocolVersion: 1, ListenerAddress: listener})
				if err == nil {
					_, err = s.Header()
				}
				scancel()
				if err != nil {
					st.errs.Add(1)
					time.Sleep(time.Millisecond)
					continue
				}
				st.cycles.Add(1)
			}
		}(conn)
	}
	return st, nil
}

func (st *stormClient) halt() { close(st.stop) }

// flapper: a raw replica that lives many short lives. Each life: new
// connection, StreamWAL, session id from the header, a reader, and several
// goroutines that call Acknowledge with that session id back to back; after
// 1-20 ms the CONNECTION is closed abruptly while acknowledgements are in
// flight (the primary unregisters the session while late acks still arrive).
type flapper struct {
	stop  chan struct{}
	done  chan struct{}
	lives atomic.Int64
	acks  atomic.Int64
	errs  atomic.Int64
}

func startFlapper(addr, listener string, ackers int, lifeUs []int) *flapper {
	f := &flapper{stop: make(chan struct{}), done: make(chan struct{})}
	go func() {
		defer close(f.done)
		for n := 0; ; n++ {
			select {
			case <-f.stop:
				return
			default:
			}
			ctx, cancel := context.WithTimeout(context.Background(), 5*time.Second)
			conn, err := grpc.DialContext(ctx, addr, grpc.WithTransportCredentials(insecure.NewCredentials()), grpc.WithBlock(),
				grpc.WithDefaultCallOptions(grpc.MaxCallRecvMsgSize(64<<20)))
			cancel()
			if err != nil {
				f.errs.Add(1)
				time.Sleep(5 * time.Millisecond)
				continue
			}
			cli := rpb.NewWALReplicationServiceClient(conn)
			st, err := cli.StreamWAL(context.Background(), &rpb.WALStreamRequest{StartSequence: 1, ProtocolVersion: 1, ListenerAddress: listener})
			var sid string
			if err == nil {
				if md, herr := st.Header(); herr == nil {
					if ids := md.Get("session-id"); len(ids) > 0 {
						sid = ids[0]
					}
				}
			}
			if sid == "" {
				f.errs.Add(1)
				_ = conn.Close()
				continue
			}
			var last atomic.Uint64
			go func() {
				for {
					m, err := st.Recv()
					if err != nil {
						return
					}
					if k := len(m.Entries); k > 0 {
						last.Store(m.Entries[k-1].SequenceNumber)
					}
				}
			}()
			actx := metadata.NewOutgoingContext(context.Background(), metadata.Pairs("session-id", sid))
			for g := 0; g < ackers; g++ {
				go func() {
					for {
						cctx, ccancel := context.WithTimeout(actx, 2*time.Second)
						_, err := cli.Acknowledge(cctx, &rpb.Ack{AcknowledgedUpTo: last.Load() + 1})
						ccancel()
						if err != nil {
							return // connection closed
						}
						f.acks.Add(1)
					}
				}()
			}
			time.Sleep(time.Duration(lifeUs[n%len(lifeUs)]) * time.Microsecond)
			_ = conn.Close() // abrupt: acknowledgements are in flight
			f.lives.Add(1)
		}
	}()
	return f
}

func (f *flapper) halt() {
	close(f.stop)
	select {
	case <-f.done:
	case <-time.After(10 * time.Second):
	}
}

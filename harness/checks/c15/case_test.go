package c15

import (
	"fmt"

	"pgregory.net/rapid"

	"verif/internal/drive"
	"verif/internal/ev"
	"verif/internal/gen"
)

// Step is one client call on the primary.
type Step struct {
	Op string       `json:"op"` // put | get | tx | sleep
	K  int          `json:"k,omitempty"`
	V  *drive.Val   `json:"v,omitempty"`
	Tx []drive.TxOp `json:"tx,omitempty"`
	Ms int          `json:"ms,omitempty"` // sleep
}

// Fault describes the misbehaving replica.
//
//	stalled_reader  gRPC client that opens StreamWAL and never calls Recv
//	tcp_stall       real replica manager behind a TCP proxy that, at TriggerAt, stops reading and
//	                forwarding in both directions while all sockets stay open (cut without FIN/RST)
//	tcp_reset       same, but the proxy closes every socket with RST and stops listening
//	no_ack          gRPC client that reads its stream but never acknowledges
//	slow_apply      real replication.Replica whose applier sleeps SleepMs before every entry
//	tcp_stall_quiet real replica manager behind the proxy, blackholed right after its session was registered and
//	                BEFORE the first write: clause 2 is judged first (nothing is outstanding, so only the
//	                heartbeat timeout can detect the silent peer), then the workload runs
//	nack_sender     raw gRPC replica that reads its stream and keeps calling NegativeAcknowledge with its
//	                session id while the workload runs (spam: at a drawn rate for sequence 1 / its last
//	                received sequence / a future sequence; lossy: protocol-following reader that drops
//	                every n-th message and NACKs the gap), optionally acknowledging
//	reconnect_storm 1-4 goroutines that open StreamWAL and cancel it again in a tight loop (sessions are
//	                registered and unregistered hundreds of times per second) from AttachAt until the end of
//	                the workload, with a heartbeat interval of 1-5 ms (no empty heartbeat messages), so that
//	                the heartbeat monitor walks the session table continuously
//	flapping_acker  raw replica living many short lives (new connection, stream, 4-8 goroutines acknowledging
//	                back to back with the session id, connection closed abruptly after 1-20 ms with acks in
//	                flight) from AttachAt until the end of the workload
//	none            no faulty replica (baseline for the latency oracle)
type Fault struct {
	Class     string    `json:"class"`
	AttachAt  int       `json:"attach_at"`  // attached (and registered at the primary) before this step
	TriggerAt int       `json:"trigger_at"` // tcp_*: the proxy misbehaves before this step (>= AttachAt)
	SleepMs   int       `json:"sleep_ms,omitempty"`
	Nack      *NackSpec `json:"nack,omitempty"`
	Storm     int       `json:"storm,omitempty"`   // reconnect_storm: goroutines; flapping_acker: acknowledging goroutines per life
	LifeUs    []int     `json:"life_us,omitempty"` // flapping_acker: cycle of life lengths
}

// NackSpec parameterises the nack_sender class.
type NackSpec struct {
	Mode      string `json:"mode"` // spam | lossy
	EveryUs   int    `json:"every_us,omitempty"`
	Senders   int    `json:"senders,omitempty"`
	Target    string `json:"target,omitempty"` // first | last | future | mix
	Ack       bool   `json:"ack"`
	DropEvery int    `json:"drop_every,omitempty"`
}

// HB is the primary's heartbeat configuration.
type HB struct {
	IntervalMs int  `json:"interval_ms"`
	TimeoutMs  int  `json:"timeout_ms"`
	SendEmpty  bool `json:"send_empty"`
}

// Case is one generated case.
// PreHistory is an earlier lifetime of the primary's database directory, lived
// before the replication primary is started: Rounds x (Writes puts/deletes,
// then FlushImMemTables, which rotates the log), Tail more writes, clean close,
// reopen. The log directory then holds older log files next to the current one,
// so the primary's log retention (run from every Acknowledge) has real work.
// At most 60 log entries: a replica that connects before the first replicated
// write receives the whole pre-history in its first catch-up message.
type PreHistory struct {
	Rounds int `json:"rounds"`
	Writes int `json:"writes"`
	Tail   int `json:"tail"`
}

type Case struct {
	Keys    [][]byte    `json:"keys"`
	Steps   []Step      `json:"steps"`
	Pre     *PreHistory `json:"pre,omitempty"`
	Sync    int         `json:"sync"`   // primary's log sync mode: 0 none, 1 batch (4 KiB), 2 immediate
	Ackers  int         `json:"ackers"` // well-behaved raw replicas (read, follow the protocol, acknowledge every message), attached before the first step
	Fault   Fault       `json:"fault"`
	Healthy int         `json:"healthy"` // healthy replicas (real managers), attached before the first step
	HB      HB          `json:"hb"`
	Reader  bool        `json:"reader"` // a second client goroutine issues Gets (every 2 ms) while the steps run
}

// faultFlag maps a fault class to the generator flag that excludes it.
var faultFlag = map[string]string{
	"stalled_reader": "stalled_reader",
	"tcp_stall":      "stalled_tcp",
	"tcp_reset":      "abrupt_disconnect",
	"no_ack":         "missing_ack",
	"slow_apply":     "slow_apply",
	// tcp_stall_quiet has no flag of its own: with empty heartbeat messages on it
	// belongs to the stalled_tcp family (see genCase)
}

func genCase(t *rapid.T) Case {
	var c Case
	c.Keys = gen.Keys(t, 6, 24)
	nk := len(c.Keys)
	classes := []string{"stalled_reader", "stalled_reader", "tcp_stall", "tcp_stall", "tcp_reset", "tcp_reset", "no_ack", "no_ack", "slow_apply", "slow_apply", "tcp_stall_quiet", "tcp_stall_quiet", "nack_sender", "nack_sender", "nack_sender", "nack_sender", "reconnect_storm", "reconnect_storm", "reconnect_storm", "flapping_acker", "flapping_acker", "flapping_acker", "flapping_acker", "none"}
	cls := rapid.SampledFrom(classes).Draw(t, "fault")
	if f := faultFlag[cls]; f != "" && !ev.Flag(f) {
		ev.R().Exclude(f)
		// redirect to the classes that are still allowed
		allowed := []string{"none"}
		for _, alt := range []string{"tcp_reset", "tcp_reset", "no_ack", "no_ack", "slow_apply", "slow_apply", "tcp_stall", "tcp_stall", "stalled_reader", "stalled_reader", "tcp_stall_quiet", "tcp_stall_quiet", "nack_sender", "nack_sender", "nack_sender", "nack_sender", "reconnect_storm", "reconnect_storm", "reconnect_storm", "flapping_acker", "flapping_acker", "flapping_acker", "flapping_acker"} {
			if faultFlag[alt] == "" || ev.Flag(faultFlag[alt]) {
				allowed = append(allowed, alt)
			}
		}
		cls = rapid.SampledFrom(allowed).Draw(t, "fault_alt")
	}
	// workload: the bulk are puts of 2-24 KiB so that several MiB are pushed
	n := rapid.IntRange(120, 400).Draw(t, "nsteps")
	tag := uint32(1)
	for i := 0; i < n; i++ {
		switch rapid.SampledFrom([]string{"put", "put", "put", "put", "put", "put", "get", "get", "tx", "sleep"}).Draw(t, "op") {
		case "put":
			c.Steps = append(c.Steps, Step{Op: "put", K: rapid.IntRange(0, nk-1).Draw(t, "k"),
				V: &drive.Val{Len: rapid.IntRange(2048, 24*1024).Draw(t, "vlen"), Tag: tag}})
			tag++
		case "get":
			c.Steps = append(c.Steps, Step{Op: "get", K: rapid.IntRange(0, nk-1).Draw(t, "k")})
		case "tx":
			if !ev.Flag("primary_tx") {
				// D18: a transaction never reaches a replica; keep the healthy-replica clause decidable
				ev.R().Exclude("primary_tx")
				c.Steps = append(c.Steps, Step{Op: "put", K: rapid.IntRange(0, nk-1).Draw(t, "k"),
					V: &drive.Val{Len: rapid.IntRange(2048, 24*1024).Draw(t, "vlen"), Tag: tag}})
				tag++
				continue
			}
			m := rapid.IntRange(2, 4).Draw(t, "ntx")
			var body []drive.TxOp
			for j := 0; j < m; j++ {
				k := rapid.IntRange(0, nk-1).Draw(t, "k")
				if rapid.IntRange(0, 3).Draw(t, "txdel") == 0 {
					body = append(body, drive.TxOp{Op: "del", K: k})
				} else {
					body = append(body, drive.TxOp{Op: "put", K: k, V: &drive.Val{Len: rapid.IntRange(100, 8*1024).Draw(t, "vlen"), Tag: tag}})
					tag++
				}
			}
			c.Steps = append(c.Steps, Step{Op: "tx", Tx: body})
		case "sleep":
			// rare and short: lets heartbeats, acks and the replica state machine interleave
			if rapid.IntRange(0, 3).Draw(t, "dosleep") == 0 {
				c.Steps = append(c.Steps, Step{Op: "sleep", Ms: rapid.SampledFrom([]int{5, 50, 300, 1200}).Draw(t, "ms")})
			} else {
				c.Steps = append(c.Steps, Step{Op: "get", K: rapid.IntRange(0, nk-1).Draw(t, "k")})
			}
		}
	}
	c.Fault.Class = cls
	if cls != "none" {
		// attach in the first third so that most of the data is pushed afterwards
		c.Fault.AttachAt = rapid.IntRange(0, len(c.Steps)/3).Draw(t, "attach")
		c.Fault.TriggerAt = c.Fault.AttachAt
		if cls == "tcp_stall" || cls == "tcp_reset" {
			c.Fault.TriggerAt = rapid.IntRange(c.Fault.AttachAt, len(c.Steps)/2).Draw(t, "trigger")
		}
		if cls == "nack_sender" {
			ns := &NackSpec{Mode: rapid.SampledFrom([]string{"spam", "spam", "lossy"}).Draw(t, "nackmode"), Ack: rapid.Bool().Draw(t, "nackack")}
			if ns.Mode == "spam" {
				ns.EveryUs = rapid.SampledFrom([]int{200, 1000, 5000}).Draw(t, "nackevery")
				ns.Senders = rapid.IntRange(1, 3).Draw(t, "nacksenders")
				ns.Target = rapid.SampledFrom([]string{"first", "last", "future", "mix", "mix"}).Draw(t, "nacktarget")
			} else {
				ns.DropEvery = rapid.IntRange(2, 7).Draw(t, "dropevery")
			}
			c.Fault.Nack = ns
		}
		if cls == "slow_apply" {
			c.Fault.SleepMs = rapid.SampledFrom([]int{5, 20, 100}).Draw(t, "sleepms")
			if c.Fault.SleepMs > 20 && !ev.Flag("stalled_reader") {
				// same open finding as the stalled reader: while the applier works through a
				// batch (up to 100 entries x sleep) the replica does not read, the stream's
				// flow-control window fills and the primary's Put waits (measured: 6.2 s at 100 ms)
				ev.R().Exclude("stalled_reader")
				c.Fault.SleepMs = 20
			}
		}
	}
	// by construction: more than 2 MiB of payload are written after the fault
	// became active (rapid's small-value bias would otherwise keep most
	// workloads below that); top-up puts of 16-32 KiB
	for bytesAfter(&c, c.Fault.TriggerAt) < 2<<20+200<<10 {
		c.Steps = append(c.Steps, Step{Op: "put", K: rapid.IntRange(0, nk-1).Draw(t, "k_top"),
			V: &drive.Val{Len: rapid.IntRange(16*1024, 32*1024).Draw(t, "vlen_top"), Tag: tag}})
		tag++
		if len(c.Steps)%5 == 0 {
			c.Steps = append(c.Steps, Step{Op: "get", K: rapid.IntRange(0, nk-1).Draw(t, "k_topget")})
		}
	}
	c.Healthy = rapid.IntRange(0, 2).Draw(t, "healthy")
	c.HB.IntervalMs = rapid.SampledFrom([]int{100, 200, 500}).Draw(t, "hbint")
	c.HB.TimeoutMs = rapid.SampledFrom([]int{1000, 1000, 2000}).Draw(t, "hbto")
	c.HB.SendEmpty = rapid.IntRange(0, 3).Draw(t, "hbempty") != 0
	if cls == "flapping_acker" {
		c.Fault.Storm = rapid.IntRange(4, 8).Draw(t, "flap_ackers")
		n := rapid.IntRange(3, 8).Draw(t, "flap_nlives")
		for i := 0; i < n; i++ {
			c.Fault.LifeUs = append(c.Fault.LifeUs, rapid.SampledFrom([]int{1000, 2000, 5000, 10000, 20000}).Draw(t, "flap_life"))
		}
	}
	if cls == "reconnect_storm" {
		c.Fault.Storm = rapid.IntRange(1, 4).Draw(t, "storm_goroutines")
		c.HB.IntervalMs = rapid.IntRange(1, 5).Draw(t, "hbint_storm")
		c.HB.TimeoutMs = 2000
		c.HB.SendEmpty = false // thousands of empty messages per second would only measure the replicas' read rate
	}
	if cls == "tcp_stall_quiet" {
		c.Fault.AttachAt, c.Fault.TriggerAt = 0, 0
		c.HB.SendEmpty = rapid.Bool().Draw(t, "hbempty_quiet")
		if c.HB.SendEmpty && !ev.Flag("stalled_tcp") {
			// open finding: empty heartbeats that still fit into the flow-control window of a
			// blackholed connection refresh the session's last-activity time, so it is not dropped
			ev.R().Exclude("stalled_tcp")
			c.HB.SendEmpty = false
		}
	}
	c.Reader = rapid.IntRange(0, 3).Draw(t, "reader") != 0
	c.Sync = rapid.SampledFrom([]int{0, 1, 2, 2}).Draw(t, "psync")
	if rapid.Bool().Draw(t, "prehistory") {
		c.Pre = &PreHistory{Rounds: rapid.IntRange(1, 3).Draw(t, "pre_rounds"), Writes: rapid.IntRange(1, 15).Draw(t, "pre_writes"), Tail: rapid.IntRange(0, 10).Draw(t, "pre_tail")}
		c.Ackers = rapid.SampledFrom([]int{0, 1, 1, 2}).Draw(t, "ackers")
		if cls == "tcp_stall_quiet" && !ev.Flag("stalled_tcp") {
			// with a pre-history the blackholed replica is NOT quiet: its unacknowledged
			// pre-history window is re-sent every 100 ms, fills the 64 KiB flow-control
			// window within seconds, the StreamWAL handler blocks in Send holding
			// session.mu and heartbeatManager.checkSessions blocks behind it for every
			// session (open finding, stalled_tcp family)
			ev.R().Exclude("stalled_tcp")
			c.Pre = nil
		}
	} else {
		c.Ackers = rapid.SampledFrom([]int{0, 0, 1}).Draw(t, "ackers")
	}
	return c
}

// preOps renders the pre-history deterministically from the case (no draws:
// the content does not matter, only that old log files with real entries exist).
func preOps(c *Case) (ops []Step, flushAfter map[int]bool) {
	flushAfter = map[int]bool{}
	if c.Pre == nil {
		return
	}
	tag := uint32(1 << 30)
	add := func(i int) {
		k := (i * 7) % len(c.Keys)
		if i%5 == 4 {
			ops = append(ops, Step{Op: "del", K: k})
			return
		}
		ops = append(ops, Step{Op: "put", K: k, V: &drive.Val{Len: 10 + (i*37)%400, Tag: tag + uint32(i)}})
	}
	n := 0
	for r := 0; r < c.Pre.Rounds; r++ {
		for i := 0; i < c.Pre.Writes; i++ {
			add(n)
			n++
		}
		flushAfter[len(ops)-1] = true
	}
	for i := 0; i < c.Pre.Tail; i++ {
		add(n)
		n++
	}
	return
}

// bytesAfter returns the payload bytes written by the steps from index i on.
func bytesAfter(c *Case, i int) int {
	n := 0
	for _, s := range c.Steps[i:] {
		switch s.Op {
		case "put":
			n += s.V.Len
		case "tx":
			for _, x := range s.Tx {
				if x.V != nil {
					n += x.V.Len
				}
			}
		}
	}
	return n
}

// classify: non-trivial (DESIGN.md 5/C15) = a fault is injected while writes
// are in flight and more than 2 MiB are written afterwards.
func classify(c *Case) (bool, []string) {
	cl := []string{"fault=" + c.Fault.Class, fmt.Sprintf("healthy=%d", c.Healthy)}
	after := 0
	if c.Fault.Class != "none" {
		after = bytesAfter(c, c.Fault.TriggerAt)
	}
	nt := c.Fault.Class != "none" && after > 2<<20
	if nt {
		cl = append(cl, "fault_then_>2MiB")
	}
	if bytesAfter(c, 0) > 4<<20 {
		cl = append(cl, "workload>4MiB")
	}
	txs := 0
	for _, s := range c.Steps {
		if s.Op == "tx" {
			txs++
		}
	}
	if txs > 0 {
		cl = append(cl, "has_tx_commits")
	}
	if c.Fault.Nack != nil {
		cl = append(cl, "nack_"+c.Fault.Nack.Mode)
	}
	if c.Pre != nil {
		cl = append(cl, "prehistory(flush+reopen_before_replication)")
	}
	if c.Ackers > 0 {
		cl = append(cl, "acking_raw_replicas")
	}
	cl = append(cl, fmt.Sprintf("primary_sync=%d", c.Sync))
	if c.Reader {
		cl = append(cl, "concurrent_reader")
	}
	if !c.HB.SendEmpty {
		cl = append(cl, "hb_no_empty_responses")
	}
	return nt, cl
}

package c15

import (
	"encoding/json"
	"fmt"
	"os"
	"path/filepath"
	"regexp"
	"runtime"
	"sort"
	"strconv"
	"strings"
	"sync"
	"time"

	"github.com/KevoDB/kevo/pkg/engine"
	"github.com/KevoDB/kevo/pkg/replication"

	"verif/internal/drive"
	"verif/internal/ev"
)

const (
	callBound = 10 * time.Second // every primary client call must return within this
	bigMem    = 64 << 20         // no memtable flush, hence no log rotation, on any engine (D18 is C14's subject)
)

// Result is what the child writes BEFORE any teardown.
type Result struct {
	Verdict string `json:"verdict"` // ok | violation | abandon | infra
	Sig     string `json:"sig,omitempty"`
	Msg     string `json:"msg,omitempty"`
	// measurements
	Calls           int              `json:"calls"`
	MaxUs           map[string]int64 `json:"max_us"` // per op
	P99Us           map[string]int64 `json:"p99_us"`
	ReaderGets      int              `json:"reader_gets"`
	BytesWritten    int              `json:"bytes_written"`
	BytesAtBlock    int              `json:"bytes_after_attach_at_block,omitempty"`
	DropMs          int64            `json:"drop_ms"` // end of workload -> faulty session absent (-1: still present)
	DropBoundMs     int64            `json:"drop_bound_ms"`
	ConvergeMs      int64            `json:"converge_ms"`
	ProxyBytes      int64            `json:"proxy_bytes,omitempty"`
	FaultyStats     map[string]any   `json:"faulty_stats,omitempty"`
	Sessions        []string         `json:"sessions_at_end,omitempty"`
	WorkMs          int64            `json:"work_ms"`
	PreEntries      int              `json:"pre_entries,omitempty"`
	LogFilesAtStart int              `json:"log_files_at_start"` // primary's log directory when the replication primary started
	LogFilesAtEnd   int              `json:"log_files_at_end"`   // ... at the verdict (no rotation happens in between: the difference was removed by retention)
	AckerAcks       int64            `json:"acker_acks,omitempty"`
}

// ChildSpec is the input of a child.
type ChildSpec struct {
	Case  Case   `json:"case"`
	Out   string `json:"out"`
	Base  string `json:"base"`
	LogTo string `json:"log_to"`
}

func writeResult(path string, r *Result) {
	b, _ := json.Marshal(r)
	tmp := path + ".tmp"
	_ = os.WriteFile(tmp, b, 0o644)
	_ = os.Rename(tmp, path)
}

func childMain(specPath string) {
	b, err := os.ReadFile(specPath)
	if err != nil {
		fmt.Fprintln(os.Stderr, "child: read spec:", err)
		os.Exit(3)
	}
	var spec ChildSpec
	if err := json.Unmarshal(b, &spec); err != nil {
		fmt.Fprintln(os.Stderr, "child: parse spec:", err)
		os.Exit(3)
	}
	if spec.LogTo != "" {
		if f, err := os.Create(spec.LogTo); err == nil {
			os.Stdout = f
			quietLogs(f)
		}
	} else {
		quietLogs(nil)
	}
	if v, err := strconv.Atoi(os.Getenv("VERIF_CHILD_CAP_S")); err == nil && v > 0 {
		// never outlive the parent's cap, whatever happens to the parent
		time.AfterFunc(time.Duration(v)*time.Second, func() { os.Exit(4) })
	}
	res := runCase(&spec)
	writeResult(spec.Out, res)
	os.Exit(0)
}

// calls in flight, looked at by the watchdog.
type flight struct {
	op    string
	gid   string
	since time.Time
}

type runner struct {
	spec *ChildSpec
	c    *Case
	res  *Result
	prim *Node

	mu       sync.Mutex
	inflight map[int]*flight
	nextID   int
	lat      map[string][]int64
	attached bool
	bytesAtt int // payload bytes written since the faulty replica was attached

	step      string // what the driver itself is doing outside client calls
	stepSince time.Time
}

func (r *runner) setStep(s string) {
	r.mu.Lock()
	r.step, r.stepSince = s, time.Now()
	r.mu.Unlock()
}

var gidRe = regexp.MustCompile(`^goroutine (\d+) `)

func curGID() string {
	buf := make([]byte, 64)
	buf = buf[:runtime.Stack(buf, false)]
	if m := gidRe.FindSubmatch(buf); m != nil {
		return string(m[1])
	}
	return "?"
}

func (r *runner) begin(op string) int {
	r.mu.Lock()
	defer r.mu.Unlock()
	r.nextID++
	r.inflight[r.nextID] = &flight{op: op, gid: curGID(), since: time.Now()}
	return r.nextID
}

func (r *runner) end(id int) {
	r.mu.Lock()
	f := r.inflight[id]
	delete(r.inflight, id)
	r.lat[f.op] = append(r.lat[f.op], time.Since(f.since).Microseconds())
	r.mu.Unlock()
}

// watchdog turns a primary client call that is in flight for more than
// callBound into the verdict, at once (the call may never return).
func (r *runner) watchdog() {
	for {
		time.Sleep(100 * time.Millisecond)
		r.mu.Lock()
		var late *flight
		// on an oversubscribed machine the bound is stretched (ev.LoadFactor: 1 on a
		// machine that runs one check at a time), and a call whose goroutine is
		// runnable at the bound - starved, not blocked - gets three bounds at least
		lf := ev.LoadFactor()
		bound := time.Duration(float64(callBound) * lf)
		for _, f := range r.inflight {
			if time.Since(f.since) > bound && (late == nil || f.since.Before(late.since)) {
				late = f
			}
		}
		var others []string
		if late != nil {
			for _, f := range r.inflight {
				if f != late {
					others = append(others, fmt.Sprintf("%s for %d ms", f.op, time.Since(f.since).Milliseconds()))
				}
			}
		}
		bytesAtt := r.bytesAtt
		step, stepSince := r.step, r.stepSince
		r.mu.Unlock()
		if late == nil && step != "" && time.Since(stepSince) > 90*time.Second {
			// the driver itself is stuck (Status(), a scan, ...): not a client call of
			// the property, reported unjudged with the dump
			buf := make([]byte, 2<<20)
			buf = buf[:runtime.Stack(buf, true)]
			res := *r.res
			res.Verdict, res.Sig = "abandon", "driver-step-hang:"+step
			res.Msg = fmt.Sprintf("driver step %q did not return within 90 s\n%s", step, interesting(string(buf)))
			writeResult(r.spec.Out, &res)
			os.Exit(0)
		}
		if late == nil {
			continue
		}
		buf := make([]byte, 2<<20)
		buf = buf[:runtime.Stack(buf, true)]
		where := blockedAt(string(buf), late.gid)
		if (strings.HasSuffix(where, "[runnable]") || strings.HasSuffix(where, "[running]")) && time.Since(late.since) < 3*callBound {
			continue
		}
		res := *r.res
		res.Verdict = "violation"
		res.Sig = fmt.Sprintf("primary-call-blocked:fault=%s:%s:at=%s", r.c.Fault.Class, late.op, where)
		res.BytesAtBlock = bytesAtt
		res.Msg = fmt.Sprintf("primary %s did not return within %v (fault class %s, healthy replicas %d, %d payload bytes written since the faulty replica was attached); "+
			"blocked at %s; other calls in flight: %v\n%s", late.op, bound.Round(time.Second), r.c.Fault.Class, r.c.Healthy, bytesAtt, where, others, interesting(string(buf)))
		r.finishStats(&res)
		writeResult(r.spec.Out, &res)
		os.Exit(0)
	}
}

// blockedAt names the innermost repository frame of goroutine gid plus its
// wait reason, e.g. "replication.(*Primary).sendToReplica[sync.Mutex.Lock]".
func blockedAt(dump, gid string) string {
	for _, g := range strings.Split(dump, "\n\n") {
		if !strings.HasPrefix(g, "goroutine "+gid+" ") {
			continue
		}
		lines := strings.Split(g, "\n")
		reason := ""
		if i := strings.IndexByte(lines[0], '['); i >= 0 {
			reason = strings.TrimSuffix(strings.TrimSpace(lines[0][i+1:]), "]:")
			if j := strings.IndexByte(reason, ','); j >= 0 {
				reason = reason[:j]
			}
		}
		for _, l := range lines[1:] {
			if strings.HasPrefix(l, "github.com/KevoDB/kevo/pkg/") {
				fn := strings.TrimPrefix(l, "github.com/KevoDB/kevo/pkg/")
				if k := strings.LastIndexByte(fn, '('); k > 0 {
					fn = fn[:k]
				}
				return fn + "[" + reason + "]"
			}
		}
		return "?[" + reason + "]"
	}
	return "?"
}

// interesting keeps the goroutines of a dump that have a repository frame.
func interesting(dump string) string {
	var keep []string
	for _, g := range strings.Split(dump, "\n\n") {
		if strings.Contains(g, "KevoDB/kevo") || strings.Contains(g, "checks/c1") {
			keep = append(keep, g)
		}
	}
	s := strings.Join(keep, "\n\n")
	if len(s) > 40000 {
		s = s[:40000]
	}
	return s
}

func (r *runner) finishStats(res *Result) {
	r.mu.Lock()
	defer r.mu.Unlock()
	res.MaxUs, res.P99Us = map[string]int64{}, map[string]int64{}
	res.Calls = 0
	for op, l := range r.lat {
		s := append([]int64(nil), l...)
		sort.Slice(s, func(i, j int) bool { return s[i] < s[j] })
		if len(s) > 0 {
			res.MaxUs[op] = s[len(s)-1]
			res.P99Us[op] = s[len(s)*99/100]
		}
		res.Calls += len(s)
	}
}

func convBound(c *Case) time.Duration {
	return 60*time.Second + 3*time.Second*time.Duration(1+len(c.Steps)/100)
}

// dropRequired: for which fault classes the "dropped from the topology"
// clause is judged (see the package comment in c15_test.go).
func dropRequired(class string) bool {
	switch class {
	case "stalled_reader", "tcp_stall", "tcp_reset", "tcp_stall_quiet", "reconnect_storm", "flapping_acker":
		return true
	case "no_ack":
		// open finding (a session that is read but never acknowledged is never
		// dropped): with the flag off the class is still generated and judged by
		// clauses 1 and 3; the drop is observed and counted only
		return ev.Flag("missing_ack_drop")
	}
	return false
}

const faultyAddr = "faulty.test:7001"

func runCase(spec *ChildSpec) *Result {
	c := &spec.Case
	res := &Result{DropMs: -1, DropBoundMs: int64(10 * c.HB.TimeoutMs)}
	r := &runner{spec: spec, c: c, res: res, inflight: map[int]*flight{}, lat: map[string][]int64{}}
	infra := func(format string, a ...any) *Result {
		res.Verdict, res.Msg = "infra", fmt.Sprintf(format, a...)
		return res
	}
	pc := replication.DefaultPrimaryConfig()
	pc.HeartbeatConfig = &replication.HeartbeatConfig{
		Interval: time.Duration(c.HB.IntervalMs) * time.Millisecond, Timeout: time.Duration(c.HB.TimeoutMs) * time.Millisecond,
		SendEmptyResponses: c.HB.SendEmpty}
	cfg := drive.Cfg{MemTableSize: bigMem, MaxMemTables: 4, SyncMode: 0, SyncBytes: 4096}
	pcfg := cfg
	pcfg.SyncMode = c.Sync
	pdir := mkdir(spec.Base, "primary")
	preEntries := 0
	if c.Pre != nil {
		// the earlier lifetime of the primary's directory (no replication yet)
		e, err := drive.Open(pdir, pcfg)
		if err != nil {
			return infra("pre-history open: %v", err)
		}
		ops, flushAfter := preOps(c)
		for i, o := range ops {
			if o.Op == "put" {
				err = e.Put(c.Keys[o.K], o.V.Bytes())
			} else {
				err = e.Delete(c.Keys[o.K])
			}
			if err != nil {
				return infra("pre-history op %d: %v", i, err)
			}
			if flushAfter[i] {
				if err := e.FlushImMemTables(); err != nil {
					return infra("pre-history flush: %v", err)
				}
				drive.Quiesce(e)
			}
		}
		preEntries = len(ops)
		drive.Quiesce(e)
		if err := e.Close(); err != nil {
			return infra("pre-history close: %v", err)
		}
	}
	prim, err := startPrimary(pdir, pcfg, pc)
	if err != nil {
		return infra("%v", err)
	}
	r.prim = prim
	walFiles := func() int {
		m, _ := filepath.Glob(filepath.Join(pdir, "wal", "*.wal"))
		return len(m)
	}
	res.LogFilesAtStart = walFiles()
	res.PreEntries = preEntries
	var healthy []*Node
	for i := 0; i < c.Healthy; i++ {
		name := fmt.Sprintf("healthy%d", i)
		n, err := startReplica(name, mkdir(spec.Base, name), cfg, prim.Addr, fmt.Sprintf("healthy-%d.test:7000", i), nil)
		if err != nil {
			return infra("%v", err)
		}
		healthy = append(healthy, n)
	}
	go r.watchdog()
	r.setStep("wait-healthy-sessions")
	for _, n := range healthy {
		for dl := time.Now().Add(10 * time.Second); time.Now().Before(dl) && !hasSession(prim.Mgr, n.Addr); time.Sleep(5 * time.Millisecond) {
		}
	}
	if preEntries > 0 {
		// every healthy replica holds the pre-history before the first replicated
		// write and before anything is acknowledged: from then on it only needs
		// entries of the current log file, which retention never removes (a replica
		// that still needed a removed file could not catch up without a bootstrap,
		// which is outside this property)
		r.setStep("wait-prehistory-delivered")
		for _, n := range healthy {
			ok := false
			for dl := time.Now().Add(30 * time.Second); time.Now().Before(dl); time.Sleep(10 * time.Millisecond) {
				if v, _ := replicaStatus(n.Mgr)["entries_applied"].(uint64); v >= uint64(preEntries) {
					ok = true
					break
				}
			}
			if !ok {
				res.Verdict, res.Sig = "abandon", "prehistory-not-delivered"
				res.Msg = fmt.Sprintf("%s did not apply the %d pre-history entries within 30 s of connecting: %v", n.Name, preEntries, replicaStatus(n.Mgr))
				return res
			}
		}
	}
	var ackers []*nackClient
	for i := 0; i < c.Ackers; i++ {
		a, err := startNackClient(prim.Addr, fmt.Sprintf("acker-%d.test:7002", i), NackSpec{Mode: "lossy", Ack: true})
		if err != nil {
			return infra("acker: %v", err)
		}
		ackers = append(ackers, a)
	}
	r.setStep("")
	finishLog := func() {
		res.LogFilesAtEnd = walFiles()
		for _, a := range ackers {
			res.AckerAcks += a.acks.Load()
		}
	}
	defer finishLog()

	// ---- fault injection ---------------------------------------------------
	var (
		px      *proxy
		raw     *rawClient
		slow    *slowApplier
		slowRep *replication.Replica
		faulty  *Node
		nk      *nackClient
		storm   *stormClient
		flap    *flapper
	)
	attach := func() *Result {
		var err error
		r.setStep("attach-faulty")
		defer r.setStep("")
		switch c.Fault.Class {
		case "stalled_reader":
			raw, err = dialRaw(prim.Addr, faultyAddr)
		case "flapping_acker":
			flap = startFlapper(prim.Addr, faultyAddr, c.Fault.Storm, c.Fault.LifeUs)
			r.mu.Lock()
			r.attached = true
			r.mu.Unlock()
			return nil
		case "reconnect_storm":
			storm, err = startStorm(prim.Addr, faultyAddr, c.Fault.Storm)
			if err == nil {
				// sessions come and go: registration is not waited for
				r.mu.Lock()
				r.attached = true
				r.mu.Unlock()
				return nil
			}
		case "nack_sender":
			nk, err = startNackClient(prim.Addr, faultyAddr, *c.Fault.Nack)
		case "no_ack":
			raw, err = dialRaw(prim.Addr, faultyAddr)
			if err == nil {
				raw.readForever()
			}
		case "tcp_stall", "tcp_reset", "tcp_stall_quiet":
			var paddr string
			px, paddr, err = startProxy(prim.Addr)
			if err == nil {
				faulty, err = startReplica("faulty", mkdir(spec.Base, "faulty"), cfg, paddr, faultyAddr, nil)
			}
		case "slow_apply":
			_, slowRep, slow, err = startSlowReplica(mkdir(spec.Base, "faulty"), cfg, prim.Addr, faultyAddr, time.Duration(c.Fault.SleepMs)*time.Millisecond)
		}
		if err != nil {
			return infra("attach %s: %v", c.Fault.Class, err)
		}
		registered := false
		for dl := time.Now().Add(15 * time.Second); time.Now().Before(dl); time.Sleep(5 * time.Millisecond) {
			if hasSession(prim.Mgr, faultyAddr) {
				registered = true
				break
			}
		}
		if !registered {
			res.Verdict, res.Sig, res.Msg = "abandon", "faulty-replica-never-registered", "the primary did not report the session of the fault-injected replica within 15 s"
			return res
		}
		r.mu.Lock()
		r.attached = true
		r.mu.Unlock()
		return nil
	}
	trigger := func() {
		switch c.Fault.Class {
		case "tcp_stall", "tcp_stall_quiet":
			px.stall()
		case "tcp_reset":
			px.reset()
		}
	}
	_ = slowRep

	// ---- workload ----------------------------------------------------------
	stopReader := make(chan struct{})
	readerDone := make(chan struct{})
	var readerErr error
	if c.Reader {
		go func() {
			defer close(readerDone)
			i := 0
			for {
				select {
				case <-stopReader:
					return
				default:
				}
				id := r.begin("get(reader)")
				_, err := prim.Eng.Get(c.Keys[i%len(c.Keys)])
				r.end(id)
				if err != nil && !drive.IsNotFound(err) && readerErr == nil {
					readerErr = err
				}
				i++
				r.mu.Lock()
				res.ReaderGets = i
				r.mu.Unlock()
				time.Sleep(2 * time.Millisecond)
			}
		}()
	} else {
		close(readerDone)
	}
	t0 := time.Now()
	for i, s := range c.Steps {
		if c.Fault.Class != "none" && i == c.Fault.AttachAt {
			if rr := attach(); rr != nil {
				return rr
			}
		}
		if c.Fault.Class != "none" && i == c.Fault.TriggerAt {
			trigger()
			if c.Fault.Class == "tcp_stall_quiet" {
				// clause 2 first: nothing has been written, nothing is outstanding
				r.setStep("quiet-drop-wait")
				q0 := time.Now()
				for time.Since(q0) <= time.Duration(res.DropBoundMs)*time.Millisecond {
					if present, ok := inTopology(prim.Mgr, faultyAddr, 5*time.Second); ok && !present {
						res.DropMs = time.Since(q0).Milliseconds()
						break
					}
					time.Sleep(50 * time.Millisecond)
				}
				r.setStep("")
				if res.DropMs < 0 {
					res.Sessions = sessionsTimed(prim.Mgr, 5*time.Second)
					res.Verdict = "violation"
					res.Sig = fmt.Sprintf("faulty-session-not-dropped:fault=%s:hb_empty=%v", c.Fault.Class, c.HB.SendEmpty)
					res.Msg = fmt.Sprintf("%d ms after its connection was blackholed on an idle primary (10 x heartbeat timeout %d ms) GetNodeInfo still lists the replica %s; sessions in Status(): %v; its session: %s",
						time.Since(q0).Milliseconds(), c.HB.TimeoutMs, faultyAddr, res.Sessions, sessionInfo(prim.Mgr, faultyAddr)) + "\n" + primaryStacks()
					if c.Pre != nil {
						res.Sig += ":prehistory"
					}
					return res
				}
			}
		}
		if s.Op == "sleep" {
			time.Sleep(time.Duration(s.Ms) * time.Millisecond)
			continue
		}
		id := r.begin(s.Op)
		n, err := doStep(prim.Eng, c, s)
		r.end(id)
		if err != nil {
			res.Verdict = "violation"
			res.Sig = fmt.Sprintf("primary-call-failed:fault=%s:%s:%s", c.Fault.Class, s.Op, errClass(err))
			res.Msg = fmt.Sprintf("step %d (%s) on the primary returned an error with fault class %s attached: %v", i, s.Op, c.Fault.Class, err)
			r.finishStats(res)
			return res
		}
		r.mu.Lock()
		res.BytesWritten += n
		if r.attached {
			r.bytesAtt += n
		}
		r.mu.Unlock()
	}
	if storm != nil {
		storm.halt()
	}
	if flap != nil {
		flap.halt()
	}
	close(stopReader)
	<-readerDone
	res.WorkMs = time.Since(t0).Milliseconds()
	if readerErr != nil {
		res.Verdict = "violation"
		res.Sig = fmt.Sprintf("primary-call-failed:fault=%s:get(reader):%s", c.Fault.Class, errClass(readerErr))
		res.Msg = "a concurrent Get on the primary returned an error: " + readerErr.Error()
		r.finishStats(res)
		return res
	}
	r.finishStats(res)

	// ---- clause 2: the faulty session leaves the reported topology -----------
	endWork := time.Now()
	r.setStep("judge")
	if c.Fault.Class != "none" && c.Fault.Class != "tcp_stall_quiet" {
		bound := time.Duration(res.DropBoundMs) * time.Millisecond
		if !dropRequired(c.Fault.Class) {
			bound = 0 // observed once, not judged
		}
		for {
			present, ok := inTopology(prim.Mgr, faultyAddr, 5*time.Second)
			if ok && !present {
				res.DropMs = time.Since(endWork).Milliseconds()
				break
			}
			if time.Since(endWork) > bound {
				break
			}
			time.Sleep(50 * time.Millisecond)
		}
		res.Sessions = sessionsTimed(prim.Mgr, 5*time.Second)
		if px != nil {
			res.ProxyBytes = px.bytes.Load()
		}
		if raw != nil {
			res.FaultyStats = map[string]any{"msgs_read": raw.msgs.Load(), "payload_bytes_read": raw.recvd.Load()}
		}
		if slow != nil {
			res.FaultyStats = map[string]any{"entries_applied": slow.n.Load()}
		}
		if flap != nil {
			res.FaultyStats = map[string]any{"lives": flap.lives.Load(), "acks": flap.acks.Load(), "errors": flap.errs.Load()}
		}
		if storm != nil {
			res.FaultyStats = map[string]any{"storm_cycles": storm.cycles.Load(), "storm_errors": storm.errs.Load()}
		}
		if nk != nil {
			res.FaultyStats = map[string]any{"nacks": nk.nacks.Load(), "acks": nk.acks.Load(), "rpc_errors": nk.nackErr.Load(),
				"msgs_read": nk.raw.msgs.Load(), "dropped_msgs": nk.drops.Load(), "last_seq": nk.lastSeq.Load()}
		}
		if faulty != nil {
			res.FaultyStats = replicaStatus(faulty.Mgr)
		}
		if dropRequired(c.Fault.Class) && res.DropMs < 0 {
			res.Verdict = "violation"
			res.Sig = fmt.Sprintf("faulty-session-not-dropped:fault=%s:hb_empty=%v", c.Fault.Class, c.HB.SendEmpty)
			res.Msg = fmt.Sprintf("%d ms after the end of the workload (10 x heartbeat timeout %d ms) GetNodeInfo still lists the %s replica %s; sessions in Status(): %v; its session: %s",
				time.Since(endWork).Milliseconds(), c.HB.TimeoutMs, c.Fault.Class, faultyAddr, res.Sessions, sessionInfo(prim.Mgr, faultyAddr)) + "\n" + primaryStacks()
			return res
		}
	}

	// ---- clause 3: healthy replicas still converge (C14 oracle) --------------
	if len(healthy) > 0 {
		prog := &drive.Program{Keys: c.Keys}
		want := drive.Observe(prim.Eng, prog)
		if want.Err != "" {
			return infra("primary scan: %s", want.Err)
		}
		start := time.Now()
		deadline := start.Add(convBound(c))
		diff, idx := "", -1
		for {
			diff, idx = "", -1
			for i, n := range healthy {
				got := drive.Observe(n.Eng, prog)
				if d := diffSnap(c.Keys, want, got, "primary", n.Name); d != "" {
					diff, idx = d, i
					break
				}
			}
			if diff == "" || time.Now().After(deadline) {
				break
			}
			time.Sleep(50 * time.Millisecond)
		}
		res.ConvergeMs = time.Since(start).Milliseconds()
		if diff != "" {
			res.Verdict = "violation"
			res.Sig = fmt.Sprintf("healthy-replica-no-convergence:fault=%s", c.Fault.Class)
			res.Msg = fmt.Sprintf("healthy replica %d differs from the primary %d ms after the last write (bound %d ms) with a %s replica attached: %s; status %v",
				idx, res.ConvergeMs, convBound(c).Milliseconds(), c.Fault.Class, diff, replicaStatus(healthy[idx].Mgr))
			return res
		}
		time.Sleep(2 * time.Second)
		for i, n := range healthy {
			got := drive.Observe(n.Eng, prog)
			if d := diffSnap(c.Keys, want, got, "primary", n.Name); d != "" {
				res.Verdict = "violation"
				res.Sig = fmt.Sprintf("healthy-replica-left-converged-state:fault=%s", c.Fault.Class)
				res.Msg = fmt.Sprintf("healthy replica %d equalled the primary after %d ms but differs 2 s later: %s", i, res.ConvergeMs, d)
				return res
			}
		}
	}
	res.Verdict = "ok"
	return res
}

// inTopology asks GetNodeInfo (the topology the primary reports to clients)
// whether addr is listed; ok=false: the call itself did not return in time.
func inTopology(m *replication.Manager, addr string, limit time.Duration) (present, ok bool) {
	ch := make(chan bool, 1)
	go func() {
		_, _, reps, _, _ := m.GetNodeInfo()
		for _, r := range reps {
			if r.Address == addr {
				ch <- true
				return
			}
		}
		ch <- false
	}()
	select {
	case p := <-ch:
		return p, true
	case <-time.After(limit):
		return true, false
	}
}

func sessionsTimed(m *replication.Manager, limit time.Duration) []string {
	ch := make(chan []string, 1)
	go func() { ch <- sessions(m) }()
	select {
	case s := <-ch:
		return s
	case <-time.After(limit):
		return []string{"(Status() did not return)"}
	}
}

func errClass(err error) string {
	s := err.Error()
	for _, k := range []string{"read-only", "closed", "rotating", "timeout", "deadline"} {
		if strings.Contains(s, k) {
			return k
		}
	}
	if len(s) > 40 {
		s = s[:40]
	}
	return s
}

// doStep runs one client call; n = payload bytes written.
func doStep(e *engine.EngineFacade, c *Case, s Step) (int, error) {
	switch s.Op {
	case "put":
		return s.V.Len, e.Put(c.Keys[s.K], s.V.Bytes())
	case "get":
		_, err := e.Get(c.Keys[s.K])
		if err != nil && drive.IsNotFound(err) {
			err = nil
		}
		return 0, err
	case "tx":
		tx, err := e.BeginTransaction(false)
		if err != nil {
			return 0, err
		}
		n := 0
		for _, x := range s.Tx {
			if x.Op == "put" {
				err = tx.Put(c.Keys[x.K], x.V.Bytes())
				n += x.V.Len
			} else {
				err = tx.Delete(c.Keys[x.K])
			}
			if err != nil {
				_ = tx.Rollback()
				return 0, err
			}
		}
		return n, tx.Commit()
	}
	return 0, fmt.Errorf("unknown op %q", s.Op)
}

// sessionInfo renders what Status() says about the sessions of one listener address.
func sessionInfo(m *replication.Manager, addr string) string {
	ch := make(chan string, 1)
	go func() {
		st := m.Status()
		reps, _ := st["replicas"].([]map[string]interface{})
		out := fmt.Sprintf("current_wal_sequence=%v;", st["current_wal_sequence"])
		for _, r := range reps {
			if r["listener_address"] == addr {
				out += fmt.Sprintf(" {connected=%v active=%v last_ack=%v start=%v idle_s=%.2f}", r["connected"], r["active"], r["last_ack_sequence"], r["start_sequence"], r["idle_time_seconds"])
			}
		}
		ch <- out
	}()
	select {
	case s := <-ch:
		return s
	case <-time.After(5 * time.Second):
		return "(Status() did not return)"
	}
}

// primaryStacks returns the goroutines of the primary's replication code
// (stream handlers, heartbeat monitor) for drop-clause messages.
func primaryStacks() string {
	buf := make([]byte, 2<<20)
	buf = buf[:runtime.Stack(buf, true)]
	var keep []string
	for _, g := range strings.Split(string(buf), "\n\n") {
		if strings.Contains(g, "replication.(*heartbeatManager)") || strings.Contains(g, "replication.(*Primary)") {
			keep = append(keep, g)
		}
	}
	out := strings.Join(keep, "\n\n")
	if len(out) > 12000 {
		out = out[:12000]
	}
	return out
}

// C02 — acknowledged writes survive a crash; recovery yields a history prefix.
// Crash-point enumeration with a child process per crash (DESIGN.md 5/C02).
package c02

import (
	"encoding/json"
	"fmt"
	"os"
	"os/exec"
	"sort"
	"strings"
	"testing"

	"pgregory.net/rapid"

	"github.com/KevoDB/kevo/pkg/engine"

	"verif/internal/drive"
	"verif/internal/ev"
	"verif/internal/gen"
)

const rule = "case = rapid-drawn write program (puts, deletes, transactions, batches, explicit flushes, compactions; all sync modes, " +
	"small memtables, MaxMemTables 1-8) cut into 1-3 rounds; each round runs in a child process that dies (os.Exit, no cleanup) at a " +
	"(hook site, n-th hit) chosen from the profile of that round, or closes cleanly; oracle = after reopening, Get of every pool key " +
	"and a full scan equal prefix state S_p of the issued history with lower <= p <= acked+1 (lower = acked under SyncImmediate and " +
	"after a clean close); then the next round continues on the same directory; last: clean close + reopen is exact. " +
	"non-trivial = a crash strictly inside an operation (site is not an idle point) or a reopen with more log than one memtable; " +
	"distinct by (program hash, resolved crash points). TestPropExhaustive enumerates ALL (site, hit) crash points of small programs."

func TestMain(m *testing.M) {
	if os.Getenv("VERIF_CHILD_SPEC") != "" {
		// crash child: no evidence, no silence games beyond stdout
		ev.Silence()
		os.Exit(m.Run())
	}
	ev.Silence()
	rec := ev.Init("C02", rule)
	code := m.Run()
	rec.Flush(true)
	os.Exit(code)
}

// TestChild is the entry point of the re-executed crash child.
func TestChild(t *testing.T) {
	sp := os.Getenv("VERIF_CHILD_SPEC")
	if sp == "" {
		t.Skip("not a child")
	}
	if err := drive.ChildMain(sp); err != nil {
		fmt.Fprintln(os.Stderr, "CHILD-ERROR:", err)
		os.Exit(3)
	}
}

// Round is one process lifetime.
type Round struct {
	To    int    `json:"to"`    // executes steps [prev.To, To)
	Clean bool   `json:"clean"` // close cleanly instead of crashing
	SelA  uint32 `json:"sel_a"` // selects the site from the round's profile
	SelB  uint32 `json:"sel_b"` // selects the hit number
	// resolved by the run (recorded for replay and evidence)
	Site string `json:"site,omitempty"`
	N    int    `json:"n,omitempty"`
}

// Case is a program with a crash plan.
type Case struct {
	Program drive.Program `json:"program"`
	Rounds  []Round       `json:"rounds"`
}

// Doc is the replay document.
type Doc struct {
	Property string `json:"property"`
	Case     Case   `json:"case"`
	Failure  string `json:"failure,omitempty"`
}

type failure struct {
	sig, msg string
}

func copyDir(src, dst string) error {
	return exec.Command("cp", "-a", src, dst).Run()
}

// verify opens dir in-process and compares with the candidate prefix states.
// It returns the index of the matching state.
func verify(dir string, p *drive.Program, states []drive.Model, lower, upper int, site string) (int, *failure) {
	e, err := engine.NewEngineFacade(dir)
	if err != nil {
		return 0, &failure{"open-error@" + site, "reopen after " + site + ": " + err.Error()}
	}
	snap := drive.Observe(e, p)
	_ = e.Close()
	first := ""
	for q := upper; q >= lower; q-- {
		d := snap.EqualModel(states[q], p)
		if d == "" {
			return q, nil
		}
		if q == upper {
			first = d
		}
	}
	// classify: does it equal a state outside the window?
	for q := range states {
		if snap.EqualModel(states[q], p) == "" {
			if q < lower {
				return 0, &failure{"acked-write-lost@" + site,
					fmt.Sprintf("state after %s equals prefix %d but %d writes were acknowledged (window %d..%d)", site, q, lower, lower, upper)}
			}
			return 0, &failure{"future-state@" + site, fmt.Sprintf("state equals prefix %d beyond the issued window %d..%d", q, lower, upper)}
		}
	}
	return 0, &failure{"not-a-prefix@" + site, fmt.Sprintf("state after %s equals no prefix state (window %d..%d); vs newest candidate: %s", site, lower, upper, first)}
}

func idleSite(site string) bool {
	// sites that lie between operations rather than inside one
	return site == "" || site == "storage.put.after_mem" || site == "storage.batch.after_mem"
}

// runCase executes the plan. resolved reports the crash points actually used.
func runCase(c *Case, replay bool) (*failure, []string) {
	root, err := os.MkdirTemp("", "c02-")
	if err != nil {
		panic(err)
	}
	defer os.RemoveAll(root)
	dir := root + "/db"
	p := &c.Program
	var classes []string
	base := drive.Model{}
	from := 0
	for ri := range c.Rounds {
		rd := &c.Rounds[ri]
		to := rd.To
		if to > len(p.Steps) {
			to = len(p.Steps)
		}
		if to < from {
			to = from
		}
		// prefix states of this round's segment
		states := []drive.Model{base.Clone()}
		var writeIdx []int
		cur := base.Clone()
		for i := from; i < to; i++ {
			if p.Steps[i].IsWrite() {
				cur.Apply(p, p.Steps[i])
				states = append(states, cur.Clone())
				writeIdx = append(writeIdx, i)
			}
		}
		spec := drive.ChildSpec{Dir: dir, Program: p, From: from, To: to}
		site := "clean-close"
		if !rd.Clean {
			if !replay || rd.Site == "" {
				// profile this round on a copy of the directory
				pdir := root + "/prof"
				_ = os.RemoveAll(pdir)
				if _, err := os.Stat(dir); err == nil {
					if err := copyDir(dir, pdir); err != nil {
						panic(err)
					}
					// the manifest stores absolute wal/sst paths: profile in place instead
					_ = os.RemoveAll(pdir)
				}
				prof, err := profileRound(root, dir, spec)
				if err != nil {
					return &failure{"child-error@profile", err.Error()}, classes
				}
				sites := make([]string, 0, len(prof))
				for s := range prof {
					sites = append(sites, s)
				}
				sort.Strings(sites)
				if len(sites) == 0 {
					rd.Clean = true
				} else {
					rd.Site = sites[int(rd.SelA)%len(sites)]
					rd.N = 1 + int(rd.SelB)%prof[rd.Site]
				}
			}
		}
		if !rd.Clean {
			spec.CrashSite, spec.CrashN = rd.Site, rd.N
			site = rd.Site
		}
		res, err := drive.RunChild(spec, root, fmt.Sprintf("r%d", ri))
		if err != nil {
			return &failure{"child-error@" + site, err.Error()}, classes
		}
		if res.WriteError != "" {
			ev.R().Count("rounds_with_write_error", 1)
			ev.R().Note("write error in child: " + res.WriteError)
		}
		acked := len(res.Acked)
		upper := acked + 1
		if upper > len(states)-1 {
			upper = len(states) - 1
		}
		lower := 0
		if !res.Crashed {
			// clean close: exactly what was acknowledged
			lower, upper = acked, acked
			if res.WriteError != "" {
				upper = acked + 1
				if upper > len(states)-1 {
					upper = len(states) - 1
				}
			}
			if !rd.Clean {
				ev.R().Count("crash_point_not_reached", 1)
			}
			site = "clean-close"
		} else if p.Cfg.SyncMode == 2 {
			lower = acked
		}
		if res.Crashed {
			classes = append(classes, "crash:"+strings.SplitN(site, ".", 2)[0])
			if !idleSite(site) {
				classes = append(classes, "crash_inside_operation")
			}
		} else {
			classes = append(classes, "clean_round")
		}
		q, f := verify(dir, p, states, lower, upper, site)
		if f != nil {
			f.msg = fmt.Sprintf("round %d steps [%d,%d) acked=%d: %s", ri, from, to, acked, f.msg)
			return f, classes
		}
		base = states[q]
		from = to
		if res.Crashed {
			// steps of this segment after the crash were never issued; continue with the next segment
			_ = writeIdx
		}
	}
	// final: open, close cleanly, reopen: exact
	for k := 0; k < 2; k++ {
		if _, f := verify(dir, p, []drive.Model{base}, 0, 0, "final-clean-reopen"); f != nil {
			f.msg = fmt.Sprintf("final reopen %d: %s", k, f.msg)
			return f, classes
		}
	}
	return nil, classes
}

// profileRound runs the round's segment in profile mode on a scratch copy of
// the database. The manifest holds absolute paths, so the copy is made by
// moving the real directory aside and restoring it afterwards.
func profileRound(root, dir string, spec drive.ChildSpec) (map[string]int, error) {
	bak := root + "/bak"
	_ = os.RemoveAll(bak)
	had := false
	if _, err := os.Stat(dir); err == nil {
		had = true
		if err := copyDir(dir, bak); err != nil {
			return nil, err
		}
	}
	spec.Profile = true
	res, err := drive.RunChild(spec, root, "prof")
	// restore
	_ = os.RemoveAll(dir)
	if had {
		if err2 := os.Rename(bak, dir); err2 != nil {
			return nil, err2
		}
	}
	if err != nil {
		return nil, err
	}
	if res.Profile == nil {
		return nil, fmt.Errorf("no profile written; stderr: %s", res.Stderr)
	}
	return res.Profile, nil
}

func progOpts() gen.ProgOpts {
	o := gen.ProgOpts{MinSteps: 5, MaxSteps: 40,
		Weights: map[string]int{"put": 10, "del": 4, "tx": 4, "batch": 2, "flush": 2, "compact": 1}}
	o.Val.Big = true
	return o
}

func genCase(t *rapid.T) Case {
	o := progOpts()
	p := gen.Program(t, o)
	// bias towards configurations in which the log outgrows the memtable budget
	if rapid.Bool().Draw(t, "tight") {
		p.Cfg.MemTableSize = rapid.SampledFrom([]int64{256, 1024}).Draw(t, "mt")
		p.Cfg.MaxMemTables = rapid.IntRange(1, 2).Draw(t, "mm")
	}
	nr := rapid.IntRange(1, 3).Draw(t, "rounds")
	var rounds []Round
	prev := 0
	for i := 0; i < nr; i++ {
		to := len(p.Steps)
		if i < nr-1 {
			to = rapid.IntRange(prev, len(p.Steps)).Draw(t, "to")
		}
		rounds = append(rounds, Round{
			To:    to,
			Clean: rapid.IntRange(0, 5).Draw(t, "clean") == 0,
			SelA:  rapid.Uint32().Draw(t, "selA"),
			SelB:  rapid.Uint32().Draw(t, "selB"),
		})
		prev = to
	}
	return Case{Program: p, Rounds: rounds}
}

func TestProp(t *testing.T) {
	rapid.Check(t, func(t *rapid.T) {
		c := genCase(t)
		f, classes := runCase(&c, false)
		nt := false
		for _, cl := range classes {
			if cl == "crash_inside_operation" {
				nt = true
			}
		}
		if len(c.Rounds) > 1 {
			classes = append(classes, "multi_round")
		}
		if c.Program.Cfg.SyncMode == 2 {
			classes = append(classes, "sync_immediate")
		}
		ev.R().Case(ev.Hash(&c), nt, classes, func() any { return &c })
		if f != nil {
			path := ev.R().Fail(f.sig, f.msg, Doc{Property: "C02", Case: c, Failure: f.sig + ": " + f.msg})
			t.Fatalf("C02 violated: %s: %s (replay %s)", f.sig, f.msg, path)
		}
	})
}

// TestPropExhaustive enumerates every crash point of small single-round programs.
func TestPropExhaustive(t *testing.T) {
	if ev.Tier() != "thorough" {
		t.Skip("thorough tier only")
	}
	o := progOpts()
	o.MinSteps, o.MaxSteps = 3, 15
	o.Val.Big = false
	budget := 12 // programs per process (each costs one child per crash point)
	if v := os.Getenv("VERIF_EXH_PROGRAMS"); v != "" {
		fmt.Sscanf(v, "%d", &budget)
	}
	done := 0
	rapid.Check(t, func(t *rapid.T) {
		if done >= budget {
			return
		}
		done++
		p := gen.Program(t, o)
		root, err := os.MkdirTemp("", "c02x-")
		if err != nil {
			panic(err)
		}
		prof, err := profileRound(root, root+"/db", drive.ChildSpec{Dir: root + "/db", Program: &p, From: 0, To: len(p.Steps)})
		os.RemoveAll(root)
		if err != nil {
			t.Fatalf("profile: %v", err)
		}
		pts := drive.AllCrashPoints(prof)
		for _, pt := range pts {
			c := Case{Program: p, Rounds: []Round{{To: len(p.Steps), Site: pt.Site, N: pt.N}}}
			f, classes := runCase(&c, true)
			ev.R().Case(ev.Hash(&c), !idleSite(pt.Site), append(classes, "exhaustive"), func() any { return &c })
			if f != nil {
				path := ev.R().Fail(f.sig, f.msg, Doc{Property: "C02", Case: c, Failure: f.sig + ": " + f.msg})
				t.Fatalf("C02 violated: %s: %s (replay %s)", f.sig, f.msg, path)
			}
		}
		ev.R().Count("exhaustive_programs", 1)
		ev.R().Count("exhaustive_crash_points", len(pts))
	})
}

// TestReplay re-runs a saved case without the library.
func TestReplay(t *testing.T) {
	fn := os.Getenv("VERIF_REPLAY")
	if fn == "" {
		t.Skip("no VERIF_REPLAY")
	}
	b, err := os.ReadFile(fn)
	if err != nil {
		t.Fatal(err)
	}
	var d Doc
	if err := json.Unmarshal(b, &d); err != nil {
		t.Fatal(err)
	}
	f, _ := runCase(&d.Case, true)
	if f != nil {
		ev.WriteReplayResult(ev.ReplayResult{File: fn, Outcome: "fail", Signature: f.sig, Message: f.msg})
		return
	}
	ev.WriteReplayResult(ev.ReplayResult{File: fn, Outcome: "pass"})
}

// C02 — acknowledged writes survive a crash; recovery yields a history prefix.
// Crash-point enumeration with a child process per crash (DESIGN.md 5/C02).
package c02

import (
	"encoding/json"
	"fmt"
	"os"
	"testing"

	"pgregory.net/rapid"

	"verif/internal/drive"
	"verif/internal/ev"
	"verif/internal/gen"
)

const rule = "case = rapid-drawn write program (puts, deletes, transactions, batches, explicit flushes, compactions; all sync modes, " +
	"small memtables, MaxMemTables 1-8) cut into 1-3 rounds; each round runs in a child process that dies (os.Exit, no cleanup) at a " +
	"(hook site, n-th hit) chosen from the profile of that round, or closes cleanly; oracle = after reopening, Get of every pool key " +
	"and a full scan equal prefix state S_p of the issued history with lower <= p <= acked+1 (lower = acked under SyncImmediate and " +
	"after a clean close); then the next round continues on the same directory; last: clean close + reopen is exact. " +
	"non-trivial = a crash strictly inside an operation (site is not an idle point) or a reopen with more log than one memtable; " +
	"distinct by (program hash, resolved crash points). One case in eight is built so that the process dies with the log file ending at or " +
	"within a few bytes of a record header (sizes computed so that the 64 KiB log buffer is written out exactly there). " +
	"TestPropConcurrentCrash: 2-5 client goroutines put fresh keys while a maintenance goroutine flushes, the process dies at a drawn " +
	"(site, hit) after an optional pause of the dying goroutine; oracle over the write(2) log of issue/ack events: survivors are exactly " +
	"issued bytes, a prefix per client, every acknowledged write under synchronous logging, and no write survives when a write " +
	"acknowledged before it was issued is lost; non-trivial there = died at the site with acknowledged writes and cross-client pairs to judge. " +
	"TestPropExhaustive enumerates ALL (site, hit) crash points of small programs."

func TestMain(m *testing.M) {
	if os.Getenv("VERIF_CHILD_SPEC") != "" || os.Getenv("VERIF_CONC_SPEC") != "" {
		// crash child: no evidence, no silence games beyond stdout
		ev.Silence()
		os.Exit(m.Run())
	}
	ev.Silence()
	rec := ev.Init("C02", rule)
	code := m.Run()
	rec.Flush(true)
	os.Exit(code)
}

// TestChild is the entry point of the re-executed crash child.
func TestChild(t *testing.T) {
	if cs := os.Getenv("VERIF_CONC_SPEC"); cs != "" {
		if err := concChildMain(cs); err != nil {
			fmt.Fprintln(os.Stderr, "CHILD-ERROR:", err)
			os.Exit(3)
		}
		return
	}
	sp := os.Getenv("VERIF_CHILD_SPEC")
	if sp == "" {
		t.Skip("not a child")
	}
	if err := drive.ChildMain(sp); err != nil {
		fmt.Fprintln(os.Stderr, "CHILD-ERROR:", err)
		os.Exit(3)
	}
}

// Doc is the replay document.
type Doc struct {
	Property string          `json:"property"`
	Case     drive.CrashCase `json:"case"`
	Conc     *ConcCase       `json:"conc,omitempty"` // concurrent variant (conc_test.go); Case is unused then
	Failure  string          `json:"failure,omitempty"`
}

func progOpts() gen.ProgOpts {
	o := gen.ProgOpts{MinSteps: 5, MaxSteps: 40,
		Weights: map[string]int{"put": 10, "del": 4, "tx": 4, "batch": 2, "flush": 2, "compact": 1}}
	o.Val.Big = true
	return o
}

func genCase(t *rapid.T) drive.CrashCase {
	if rapid.IntRange(0, 7).Draw(t, "bufedge") == 0 {
		return gen.BufEdge(t)
	}
	o := progOpts()
	p := gen.Program(t, o)
	// bias towards configurations in which the log outgrows the memtable budget
	if rapid.Bool().Draw(t, "tight") {
		p.Cfg.MemTableSize = rapid.SampledFrom([]int64{256, 1024}).Draw(t, "mt")
		p.Cfg.MaxMemTables = rapid.IntRange(1, 2).Draw(t, "mm")
	}
	nr := rapid.IntRange(1, 3).Draw(t, "rounds")
	var rounds []drive.CrashRound
	prev := 0
	for i := 0; i < nr; i++ {
		to := len(p.Steps)
		if i < nr-1 {
			to = rapid.IntRange(prev, len(p.Steps)).Draw(t, "to")
		}
		rounds = append(rounds, drive.CrashRound{
			To:    to,
			Clean: rapid.IntRange(0, 5).Draw(t, "clean") == 0,
			SelA:  rapid.Uint32().Draw(t, "selA"),
			SelB:  rapid.Uint32().Draw(t, "selB"),
		})
		prev = to
	}
	return drive.CrashCase{Program: p, Rounds: rounds, ChildVerifies: rapid.Bool().Draw(t, "childverifies")}
}

func TestProp(t *testing.T) {
	rapid.Check(t, func(t *rapid.T) {
		c := genCase(t)
		f, classes := drive.RunCrashCase(&c, false, nil)
		nt := false
		for _, cl := range classes {
			if cl == "crash_inside_operation" {
				nt = true
			}
		}
		if len(c.Rounds) > 1 {
			classes = append(classes, "multi_round")
		}
		for _, rd := range c.Rounds {
			if rd.Abandon {
				classes = append(classes, "log_buffer_boundary_at_record_header_or_fragment_end")
				break
			}
		}
		if c.Program.Cfg.SyncMode == 2 {
			classes = append(classes, "sync_immediate")
		}
		ev.R().Case(ev.Hash(&c), nt, classes, func() any { return &c })
		if f != nil {
			path := ev.R().Fail(f.Sig, f.Msg, Doc{Property: "C02", Case: c, Failure: f.Sig + ": " + f.Msg})
			t.Fatalf("C02 violated: %s: %s (replay %s)", f.Sig, f.Msg, path)
		}
	})
}

// TestPropExhaustive enumerates every crash point of small single-round programs.
func TestPropExhaustive(t *testing.T) {
	if ev.Tier() != "thorough" {
		t.Skip("thorough tier only")
	}
	o := progOpts()
	o.MinSteps, o.MaxSteps = 3, 15
	o.Val.Big = false
	budget := 12 // programs per process (each costs one child per crash point)
	if v := os.Getenv("VERIF_EXH_PROGRAMS"); v != "" {
		fmt.Sscanf(v, "%d", &budget)
	}
	done := 0
	rapid.Check(t, func(t *rapid.T) {
		if done >= budget {
			return
		}
		done++
		p := gen.Program(t, o)
		root, err := os.MkdirTemp("", "c02x-")
		if err != nil {
			panic(err)
		}
		prof, err := drive.ProfileRound(root, root+"/db", drive.ChildSpec{Dir: root + "/db", Program: &p, From: 0, To: len(p.Steps)})
		os.RemoveAll(root)
		if err != nil {
			t.Fatalf("profile: %v", err)
		}
		pts := drive.AllCrashPoints(prof)
		for _, pt := range pts {
			c := drive.CrashCase{Program: p, Rounds: []drive.CrashRound{{To: len(p.Steps), Site: pt.Site, N: pt.N}}}
			f, classes := drive.RunCrashCase(&c, true, nil)
			ev.R().Case(ev.Hash(&c), !drive.IdleSite(pt.Site), append(classes, "exhaustive"), func() any { return &c })
			if f != nil {
				path := ev.R().Fail(f.Sig, f.Msg, Doc{Property: "C02", Case: c, Failure: f.Sig + ": " + f.Msg})
				t.Fatalf("C02 violated: %s: %s (replay %s)", f.Sig, f.Msg, path)
			}
		}
		ev.R().Count("exhaustive_programs", 1)
		ev.R().Count("exhaustive_crash_points", len(pts))
	})
}

// TestReplay re-runs a saved case without the library.
func TestReplay(t *testing.T) {
	fn := os.Getenv("VERIF_REPLAY")
	if fn == "" {
		t.Skip("no VERIF_REPLAY")
	}
	b, err := os.ReadFile(fn)
	if err != nil {
		t.Fatal(err)
	}
	var d Doc
	if err := json.Unmarshal(b, &d); err != nil {
		t.Fatal(err)
	}
	var f *drive.Failure
	if d.Conc != nil {
		// schedule dependent: re-execute the workload with the recorded crash point
		for i := 0; i < 12 && f == nil; i++ {
			f, _, _ = runConc(d.Conc, true)
		}
	} else {
		f, _ = drive.RunCrashCase(&d.Case, true, nil)
	}
	if f != nil {
		ev.WriteReplayResult(ev.ReplayResult{File: fn, Outcome: "fail", Signature: f.Sig, Message: f.Msg})
		return
	}
	ev.WriteReplayResult(ev.ReplayResult{File: fn, Outcome: "pass"})
}

// C02, concurrent variant: several client goroutines write while a maintenance
// goroutine flushes; the process dies at a (hook site, n-th hit) - after an
// optional pause of the dying goroutine during which everybody else keeps
// running (a crash does not wait for an idle moment) - and the recovered state
// must be a prefix of the issued history "in issue order". With concurrent
// clients issue order is the partial order of real time, observed through one
// append-only file of plain write(2) lines ("I w i" before a Put is issued,
// "A w i" after it returned):
//
//	(a) every key that exists was issued, with exactly the issued bytes;
//	(b) per client the surviving writes are a prefix of that client's writes;
//	(c) with synchronous logging every acknowledged write survives;
//	(d) if write b survives and write a was acknowledged before b was issued,
//	    a survives too (nothing is reordered across clients);
//	(e) a clean close + reopen afterwards shows exactly the same state.
//
// Every writer puts its own fresh keys, so survival is plain presence.
package c02

import (
	"bytes"
	"encoding/json"
	"fmt"
	"os"
	"os/exec"
	"sort"
	"strings"
	"sync"
	"testing"
	"time"

	"pgregory.net/rapid"

	"github.com/KevoDB/kevo/pkg/engine"
	"github.com/KevoDB/kevo/pkg/verifhook"

	"verif/internal/drive"
	"verif/internal/ev"
)

// ConcCase is one concurrent crash case.
type ConcCase struct {
	Cfg     drive.Cfg `json:"cfg"`
	Writers [][]int   `json:"writers"`  // per writer: value length of each put
	Think   []int     `json:"think_us"` // per writer: pause between puts (microseconds)
	Maint   []int     `json:"maint_us"` // maintenance goroutine: pause before each FlushImMemTables call
	// crash plan
	Group   string `json:"group"` // rotate | flush | wal | any : which hook sites may be chosen
	SelA    uint32 `json:"sel_a"`
	SelB    uint32 `json:"sel_b"`
	PauseUs int    `json:"pause_us"` // the goroutine that reaches the crash point sleeps this long, then the process exits
	// resolved by the run (kept for replay)
	Site string `json:"site,omitempty"`
	N    int    `json:"n,omitempty"`
}

type concSpec struct {
	Dir     string    `json:"dir"`
	Case    *ConcCase `json:"case"`
	Profile bool      `json:"profile"`
	AckFile string    `json:"ack_file"`
	ProfOut string    `json:"prof_out"`
}

func concKey(w, i int) []byte { return []byte(fmt.Sprintf("w%02d-%05d", w, i)) }
func concVal(w, i, n int) []byte {
	return drive.Val{Len: n, Tag: uint32(w*100000 + i + 1)}.Bytes()
}

// concChildMain runs in the re-executed test binary.
func concChildMain(specPath string) error {
	b, err := os.ReadFile(specPath)
	if err != nil {
		return err
	}
	var spec concSpec
	if err := json.Unmarshal(b, &spec); err != nil {
		return err
	}
	c := spec.Case
	var mu sync.Mutex
	counts := map[string]int{}
	verifhook.Set(func(site string) {
		mu.Lock()
		counts[site]++
		n := counts[site]
		mu.Unlock()
		if !spec.Profile && site == c.Site && n == c.N {
			if c.PauseUs > 0 {
				time.Sleep(time.Duration(c.PauseUs) * time.Microsecond)
			}
			os.Exit(drive.ChildExitCrash)
		}
	})
	ack, err := os.OpenFile(spec.AckFile, os.O_CREATE|os.O_WRONLY|os.O_APPEND, 0o644)
	if err != nil {
		return err
	}
	e, err := drive.Open(spec.Dir, c.Cfg)
	if err != nil {
		return fmt.Errorf("child open: %v", err)
	}
	var wg sync.WaitGroup
	start := make(chan struct{})
	done := make(chan struct{})
	for w := range c.Writers {
		wg.Add(1)
		go func(w int) {
			defer wg.Done()
			<-start
			for i, n := range c.Writers[w] {
				if t := c.Think[w]; t > 0 {
					time.Sleep(time.Duration(t) * time.Microsecond)
				}
				_, _ = ack.Write([]byte(fmt.Sprintf("I %d %d\n", w, i)))
				if err := e.Put(concKey(w, i), concVal(w, i, n)); err != nil {
					_, _ = ack.Write([]byte(fmt.Sprintf("E %d %d %s\n", w, i, strings.ReplaceAll(err.Error(), "\n", " "))))
					return // this client stops at its first failed write
				}
				_, _ = ack.Write([]byte(fmt.Sprintf("A %d %d\n", w, i)))
			}
		}(w)
	}
	var mwg sync.WaitGroup
	mwg.Add(1)
	go func() {
		defer mwg.Done()
		<-start
		for _, p := range c.Maint {
			select {
			case <-done:
				return
			case <-time.After(time.Duration(p) * time.Microsecond):
			}
			_ = e.FlushImMemTables()
		}
	}()
	close(start)
	wg.Wait()
	close(done)
	mwg.Wait()
	if spec.Profile {
		drive.Quiesce(e)
		_ = e.Close()
		verifhook.Reset()
		mu.Lock()
		pb, _ := json.Marshal(counts)
		mu.Unlock()
		return os.WriteFile(spec.ProfOut, pb, 0o644)
	}
	// crash point not reached: die anyway, without closing
	os.Exit(0)
	return nil
}

type concRun struct {
	crashed bool
	lines   []string
	profile map[string]int
	stderr  string
}

func runConcChild(spec concSpec, scratch, tag string) (*concRun, error) {
	spec.AckFile = fmt.Sprintf("%s/cack-%s", scratch, tag)
	spec.ProfOut = fmt.Sprintf("%s/cprof-%s", scratch, tag)
	_ = os.Remove(spec.AckFile)
	_ = os.Remove(spec.ProfOut)
	sp := fmt.Sprintf("%s/cspec-%s.json", scratch, tag)
	b, _ := json.Marshal(&spec)
	if err := os.WriteFile(sp, b, 0o644); err != nil {
		return nil, err
	}
	cmd := exec.Command(os.Args[0], "-test.run", "^TestChild$", "-test.timeout", "120s")
	cmd.Env = append(os.Environ(), "VERIF_CONC_SPEC="+sp)
	var stderr bytes.Buffer
	cmd.Stderr = &stderr
	err := cmd.Run()
	res := &concRun{stderr: stderr.String()}
	code := 0
	if err != nil {
		ee, ok := err.(*exec.ExitError)
		if !ok {
			return nil, err
		}
		code = ee.ExitCode()
	}
	if code != 0 && code != drive.ChildExitCrash {
		return nil, fmt.Errorf("child exit %d: %s", code, res.stderr)
	}
	res.crashed = code == drive.ChildExitCrash
	if ab, err := os.ReadFile(spec.AckFile); err == nil {
		for _, ln := range strings.Split(string(ab), "\n") {
			if ln != "" {
				res.lines = append(res.lines, ln)
			}
		}
	}
	if pb, err := os.ReadFile(spec.ProfOut); err == nil {
		_ = json.Unmarshal(pb, &res.profile)
	}
	return res, nil
}

func siteInGroup(site, g string) bool {
	switch g {
	case "rotate":
		return strings.HasPrefix(site, "storage.rotate.")
	case "flush":
		return strings.HasPrefix(site, "storage.flush") || strings.HasPrefix(site, "storage.scheduleflush") || strings.HasPrefix(site, "sstable.")
	case "wal":
		return strings.HasPrefix(site, "wal.")
	}
	return true
}

// observeConc reads every issued key and scans; returns per-writer presence.
func observeConc(dir string, c *ConcCase, issued map[string]bool) (present []map[int]bool, f *drive.Failure) {
	e, err := engine.NewEngineFacade(dir)
	if err != nil {
		return nil, &drive.Failure{Sig: "conc:open-error", Msg: err.Error()}
	}
	defer e.Close()
	present = make([]map[int]bool, len(c.Writers))
	for w := range c.Writers {
		present[w] = map[int]bool{}
		for i, n := range c.Writers[w] {
			got, err := e.Get(concKey(w, i))
			if err != nil {
				if drive.IsNotFound(err) {
					continue
				}
				return nil, &drive.Failure{Sig: "conc:read-error", Msg: err.Error()}
			}
			if !bytes.Equal(got, concVal(w, i, n)) {
				return nil, &drive.Failure{Sig: "conc:wrong-value", Msg: fmt.Sprintf("key %s holds %d bytes that are not the %d bytes put under it", concKey(w, i), len(got), n)}
			}
			if !issued[string(concKey(w, i))] {
				return nil, &drive.Failure{Sig: "conc:invented", Msg: fmt.Sprintf("key %s exists but its put was never issued", concKey(w, i))}
			}
			present[w][i] = true
		}
	}
	it, err := e.GetIterator()
	if err != nil {
		return nil, &drive.Failure{Sig: "conc:iterator-error", Msg: err.Error()}
	}
	seen := 0
	for it.SeekToFirst(); it.Valid(); it.Next() {
		if it.IsTombstone() {
			continue
		}
		seen++
		if !issued[string(it.Key())] {
			return nil, &drive.Failure{Sig: "conc:invented", Msg: fmt.Sprintf("the scan returns key %q that nobody put", it.Key())}
		}
	}
	total := 0
	for w := range present {
		total += len(present[w])
	}
	if seen != total {
		return nil, &drive.Failure{Sig: "conc:scan-differs", Msg: fmt.Sprintf("Get finds %d keys, the scan %d", total, seen)}
	}
	return present, nil
}

func runConc(c *ConcCase, replay bool) (*drive.Failure, []string, bool) {
	root, err := os.MkdirTemp("", "c02c-")
	if err != nil {
		panic(err)
	}
	defer os.RemoveAll(root)
	dir := root + "/db"
	if !replay || c.Site == "" {
		pr, err := runConcChild(concSpec{Dir: root + "/prof", Case: c, Profile: true}, root, "prof")
		if err != nil {
			return &drive.Failure{Sig: "conc:child-error@profile", Msg: err.Error()}, nil, false
		}
		_ = os.RemoveAll(root + "/prof")
		var sites []string
		for s := range pr.profile {
			if siteInGroup(s, c.Group) {
				sites = append(sites, s)
			}
		}
		if len(sites) == 0 {
			for s := range pr.profile {
				sites = append(sites, s)
			}
		}
		sort.Strings(sites)
		if len(sites) == 0 {
			return nil, []string{"conc:no_sites"}, false
		}
		c.Site = sites[int(c.SelA)%len(sites)]
		c.N = 1 + int(c.SelB)%pr.profile[c.Site]
	}
	res, err := runConcChild(concSpec{Dir: dir, Case: c}, root, "run")
	if err != nil {
		return &drive.Failure{Sig: "conc:child-error", Msg: err.Error()}, nil, false
	}
	// parse the observation log
	issued := map[string]bool{}
	type ev3 struct {
		kind byte
		w, i int
	}
	var log []ev3
	nAcked, nErr := 0, 0
	for _, ln := range res.lines {
		var k string
		var w, i int
		if n, _ := fmt.Sscanf(ln, "%s %d %d", &k, &w, &i); n < 3 || w < 0 || w >= len(c.Writers) {
			continue
		}
		log = append(log, ev3{k[0], w, i})
		switch k[0] {
		case 'I':
			issued[string(concKey(w, i))] = true
		case 'A':
			nAcked++
		case 'E':
			nErr++
		}
	}
	present, f := observeConc(dir, c, issued)
	if f != nil {
		f.Sig += "@" + c.Site
		return f, nil, false
	}
	hist := func() string {
		var sb strings.Builder
		for w := range present {
			m := 0
			for present[w][m] {
				m++
			}
			fmt.Fprintf(&sb, " w%d:%d/%d", w, m, len(c.Writers[w]))
		}
		return sb.String()
	}
	// (b) per client prefix
	m := make([]int, len(present))
	for w := range present {
		for present[w][m[w]] {
			m[w]++
		}
		if len(present[w]) != m[w] {
			hi := 0
			for i := range present[w] {
				if i > hi {
					hi = i
				}
			}
			return &drive.Failure{Sig: "conc:hole-in-a-clients-history@" + c.Site,
				Msg: fmt.Sprintf("crash at %s #%d (pause %dus): client %d's put %d survived but its earlier put %d did not (survivors:%s)", c.Site, c.N, c.PauseUs, w, hi, m[w], hist())}, nil, false
		}
	}
	// (c) and (d)
	ackedUpTo := make([]int, len(present))
	for w := range ackedUpTo {
		ackedUpTo[w] = -1
	}
	crossChecked := 0
	for _, e := range log {
		switch e.kind {
		case 'A':
			if e.i > ackedUpTo[e.w] {
				ackedUpTo[e.w] = e.i
			}
			if c.Cfg.SyncMode == 2 && e.i >= m[e.w] {
				return &drive.Failure{Sig: "conc:acked-write-lost@" + c.Site,
					Msg: fmt.Sprintf("crash at %s #%d (pause %dus), synchronous logging: client %d's put %d was acknowledged and is gone (survivors:%s)", c.Site, c.N, c.PauseUs, e.w, e.i, hist())}, nil, false
			}
		case 'I':
			if e.i >= m[e.w] {
				continue // b did not survive
			}
			for w2 := range ackedUpTo {
				if w2 == e.w {
					continue
				}
				crossChecked++
				if ackedUpTo[w2] >= m[w2] {
					return &drive.Failure{Sig: "conc:later-write-survived-earlier-lost@" + c.Site,
						Msg: fmt.Sprintf("crash at %s #%d (pause %dus): client %d's put %d survived although client %d's put %d, acknowledged BEFORE that put was issued, did not: the recovered state is not a prefix of the history (survivors:%s)",
							c.Site, c.N, c.PauseUs, e.w, e.i, w2, ackedUpTo[w2], hist())}, nil, false
				}
			}
		}
	}
	// (e) the observation above closed cleanly: a second open must agree
	present2, f := observeConc(dir, c, issued)
	if f != nil {
		f.Sig += "@second-open"
		return f, nil, false
	}
	for w := range present {
		if len(present[w]) != len(present2[w]) {
			return &drive.Failure{Sig: "conc:state-changed-by-clean-reopen@" + c.Site,
				Msg: fmt.Sprintf("client %d: %d surviving puts after the recovery, %d after a further clean close and reopen", w, len(present[w]), len(present2[w]))}, nil, false
		}
	}
	classes := []string{"kind:concurrent_crash", "conc:site:" + strings.SplitN(c.Site, ".", 3)[0] + "." + strings.SplitN(c.Site+"..", ".", 3)[1]}
	if res.crashed {
		classes = append(classes, "conc:crashed_at_site")
	} else {
		classes = append(classes, "conc:site_not_reached(abandoned)")
	}
	lost := 0
	for w := range m {
		lost += len(c.Writers[w]) - m[w]
	}
	if lost > 0 {
		classes = append(classes, "conc:some_writes_lost")
	}
	if nErr > 0 {
		classes = append(classes, "conc:write_errors")
	}
	if c.PauseUs > 0 {
		classes = append(classes, "conc:pause_before_death")
	}
	nt := res.crashed && nAcked > 0 && crossChecked > 0
	return nil, classes, nt
}

func genConc(t *rapid.T) ConcCase {
	c := ConcCase{
		Cfg: drive.Cfg{
			MemTableSize: rapid.SampledFrom([]int64{512, 1024, 2048, 4096, 16384}).Draw(t, "memtable"),
			MaxMemTables: rapid.SampledFrom([]int{1, 2, 4}).Draw(t, "maxmem"),
			SyncMode:     rapid.IntRange(0, 2).Draw(t, "sync"),
			SyncBytes:    rapid.SampledFrom([]int64{1, 4096, 1 << 20}).Draw(t, "syncbytes"),
		},
		Group:   rapid.SampledFrom([]string{"rotate", "rotate", "flush", "wal", "any"}).Draw(t, "group"),
		SelA:    rapid.Uint32().Draw(t, "selA"),
		SelB:    rapid.Uint32().Draw(t, "selB"),
		PauseUs: rapid.SampledFrom([]int{0, 0, 200, 1000, 3000, 10000}).Draw(t, "pause"),
	}
	nw := rapid.IntRange(2, 5).Draw(t, "writers")
	for w := 0; w < nw; w++ {
		n := rapid.IntRange(10, 80).Draw(t, "nputs")
		maxLen := rapid.SampledFrom([]int{16, 100, 400, 9000}).Draw(t, "maxlen")
		var lens []int
		for i := 0; i < n; i++ {
			lens = append(lens, rapid.IntRange(1, maxLen).Draw(t, "len"))
		}
		c.Writers = append(c.Writers, lens)
		c.Think = append(c.Think, rapid.SampledFrom([]int{0, 0, 0, 20, 100}).Draw(t, "think"))
	}
	for i, n := 0, rapid.IntRange(0, 10).Draw(t, "nmaint"); i < n; i++ {
		c.Maint = append(c.Maint, rapid.SampledFrom([]int{0, 100, 500, 2000}).Draw(t, "mpause"))
	}
	return c
}

func TestPropConcurrentCrash(t *testing.T) {
	rapid.Check(t, func(t *rapid.T) {
		c := genConc(t)
		f, classes, nt := runConc(&c, false)
		if classes == nil {
			classes = []string{"kind:concurrent_crash"}
		}
		ev.R().Case(ev.Hash(&c), nt, classes, func() any { return &c })
		if f != nil {
			path := ev.R().Fail(f.Sig, f.Msg, Doc{Property: "C02", Conc: &c, Failure: f.Sig + ": " + f.Msg})
			t.Fatalf("C02 violated: %s: %s (replay %s)", f.Sig, f.Msg, path)
		}
	})
}

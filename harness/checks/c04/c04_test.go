// C04 — transactions are serializable with respect to each other.
// Concurrent transaction histories recorded from the real embedded engine, each
// transaction one operation [invoke(begin), return(commit|rollback)], checked
// with porcupine against "state = map, step = replay the script" (DESIGN.md 5/C04).
package c04

import (
	"bytes"
	"encoding/binary"
	"encoding/json"
	"fmt"
	"os"
	"runtime"
	"sort"
	"strings"
	"sync"
	"sync/atomic"
	"testing"
	"time"

	"github.com/KevoDB/kevo/pkg/common/iterator"
	"github.com/KevoDB/kevo/pkg/transaction"
	"github.com/KevoDB/kevo/pkg/verifhook"
	"github.com/KevoDB/kevo/pkg/wal"
	"pgregory.net/rapid"

	"verif/internal/drive"
	"verif/internal/ev"
)

const rule = "case = rapid-drawn (configuration, 3-5 keys, optional setup transaction, 2-8 client goroutines each running 1-6 " +
	"transactions one after another; a transaction = read-only or read-write script of gets, puts with unique values, deletes, " +
	"full and range scans, reads of own writes, think times, then commit or rollback; yield/sleep plan consumed cyclically at the " +
	"tx.begin.*/tx.commit.*/storage.batch.*/wal.batch.* hook sites); plain writes are excluded as the property says; every " +
	"transaction is recorded as one operation [begin invoked, commit/rollback returned] with everything it read; optional reaper " +
	"goroutine that calls Rollback on other clients' OPEN transactions from outside at drawn moments (what the registry's stale " +
	"sweep, connection cleanup and shutdown do; such a transaction counts as rolled back, its calls that fail with the closed error " +
	"end it, every read that returned successfully still has to be explained), optionally with the storage backend of the " +
	"transaction manager wrapped so that the plan can delay the entry of a storage read; oracle = direct " +
	"invariants (own writes seen, repeatable reads, no value of a rolled-back or not-yet-committing transaction, scans ordered and " +
	"in bounds) and porcupine linearizability of the transactions against 'replay the script on a map, verify every read, apply " +
	"writes iff committed' (strict serializability), including a final read-only transaction of the harness; non-trivial = at " +
	"least two transactions overlap in real time and touch a common key, at least one of them writing it; distinct by FNV-64 of " +
	"the case JSON"

func TestMain(m *testing.M) {
	ev.Silence()
	rec := ev.Init("C04", rule)
	code := m.Run()
	rec.Flush(true)
	os.Exit(code)
}

// ------------------------------------------------------------------ case ----

// Step is one call inside a transaction.
type Step struct {
	Op    string `json:"op"` // get | put | del | scan
	K     int    `json:"k"`
	A     int    `json:"a,omitempty"` // scan: [keys[A], keys[B]) ; -1 = unbounded
	B     int    `json:"b,omitempty"`
	Len   int    `json:"len,omitempty"`   // put: value length
	Think uint8  `json:"think,omitempty"` // before the call: 0 nothing, 1 Gosched, 2 sleep 20us, 3 sleep 150us
}

// Tx is one transaction script.
type Tx struct {
	RO     bool   `json:"ro,omitempty"`
	Steps  []Step `json:"steps"`
	Commit bool   `json:"commit"`
	Think  uint8  `json:"think,omitempty"` // before begin
}

func (t *Tx) hasWrite() bool {
	for _, s := range t.Steps {
		if s.Op == "put" || s.Op == "del" {
			return true
		}
	}
	return false
}

// Case is a complete generated case.
type Case struct {
	Cfg     drive.Cfg `json:"cfg"`
	Keys    [][]byte  `json:"keys"`            // sorted ascending: index order = byte order
	Setup   *Tx       `json:"setup,omitempty"` // committed before the clients start
	Clients [][]Tx    `json:"clients"`
	Groups  []string  `json:"groups"`
	Plan    []uint16  `json:"plan"` // 0 nothing, 1 Gosched, n >= 10 sleep n microseconds
	// Reaper: a goroutine that, after each pause, calls Rollback from outside on the open transaction of
	// client Client (or of the next client that has one open)
	Reaper []ReapOp `json:"reaper,omitempty"`
	// Backend: transactions are begun on a transaction.Manager whose StorageBackend is the engine's real storage
	// manager behind a pass-through wrapper that consults the plan (group "backend") before each call; false =
	// EngineFacade.BeginTransaction
	Backend bool `json:"backend,omitempty"`
}

// ReapOp is one action of the reaper goroutine.
type ReapOp struct {
	PauseUs int `json:"pause_us"`
	Client  int `json:"client"`
}

// ReapRec records one Rollback issued by the reaper.
type ReapRec struct {
	C    int    `json:"c"`
	T    int    `json:"t"`
	Call int64  `json:"call"`
	Ret  int64  `json:"ret"`
	Err  string `json:"err,omitempty"`
}

// Doc is the replay document.
type Doc struct {
	Property string         `json:"property"`
	Mode     string         `json:"mode"` // "history" | "rerun"
	Runs     int            `json:"runs,omitempty"`
	Case     Case           `json:"case"`
	Verdict  *Verdict       `json:"verdict,omitempty"`
	History  []TxRec        `json:"history,omitempty"`
	Reaps    []ReapRec      `json:"reaps,omitempty"`
	Seq      *drive.Program `json:"seq,omitempty"` // mode "sequential" (seq_test.go)
}

var finalTx = Tx{RO: true, Commit: true}

func (c *Case) txOf(cl, t int) *Tx {
	switch {
	case cl == -1:
		return c.Setup
	case cl == -2:
		f := finalTx
		for k := range c.Keys {
			f.Steps = append(f.Steps, Step{Op: "get", K: k})
		}
		f.Steps = append(f.Steps, Step{Op: "scan", A: -1, B: -1})
		return &f
	case cl >= 0 && cl < len(c.Clients) && t >= 0 && t < len(c.Clients[cl]):
		return &c.Clients[cl][t]
	}
	return nil
}

// valueID is the unique id of the value written by step s of transaction t of client cl.
func (c *Case) valueID(cl, t, s int) uint32 { return uint32(((cl+1)*64+t)*32 + s + 1) }

func (c *Case) splitID(id uint32) (cl, t, s int) {
	id--
	return int(id/32/64) - 1, int(id / 32 % 64), int(id % 32)
}

func valueBytes(id uint32, n int) []byte {
	if n < 8 {
		n = 8
	}
	b := make([]byte, n)
	binary.BigEndian.PutUint32(b, id)
	for j := 4; j < n; j++ {
		b[j] = byte(id*131 + uint32(j)*7)
	}
	return b
}

func (c *Case) decode(v []byte) int64 {
	if len(v) < 8 {
		return -1
	}
	id := binary.BigEndian.Uint32(v)
	if id == 0 {
		return -1
	}
	cl, t, s := c.splitID(id)
	tx := c.txOf(cl, t)
	if cl == -2 || tx == nil || s >= len(tx.Steps) || tx.Steps[s].Op != "put" {
		return -1
	}
	if !bytes.Equal(v, valueBytes(id, tx.Steps[s].Len)) {
		return -1
	}
	return int64(id)
}

func (c *Case) keyIndex(k []byte) int {
	for i := range c.Keys {
		if bytes.Equal(c.Keys[i], k) {
			return i
		}
	}
	return -1
}

// ------------------------------------------------------------- generator ----

var allGroups = []string{"begin", "commit", "batch", "backend"}

func groupOf(site string) string {
	switch {
	case strings.HasPrefix(site, "tx.begin."):
		return "begin"
	case strings.HasPrefix(site, "tx.commit."):
		return "commit"
	case strings.HasPrefix(site, "storage.batch."), strings.HasPrefix(site, "wal.batch."):
		return "batch"
	case strings.HasPrefix(site, "backend."):
		return "backend"
	}
	return ""
}

func genKeys(t *rapid.T) [][]byte {
	n := rapid.IntRange(3, 5).Draw(t, "nkeys")
	var pool [][]byte
	switch rapid.SampledFrom([]string{"plain", "plain", "nested"}).Draw(t, "keyshape") {
	case "plain":
		for i := 0; i < 5; i++ {
			pool = append(pool, []byte(fmt.Sprintf("key%d", i)))
		}
	default:
		pool = [][]byte{[]byte("a"), {'a', 0}, {'a', 0, 1}, {'a', 0xff}, []byte("ab")}
	}
	pool = pool[:n]
	sort.Slice(pool, func(i, j int) bool { return bytes.Compare(pool[i], pool[j]) < 0 })
	return pool
}

func genTx(t *rapid.T, nk int, maxLen int, thinks []uint8) Tx {
	tx := Tx{RO: rapid.IntRange(0, 2).Draw(t, "ro") == 0, Think: rapid.SampledFrom(thinks).Draw(t, "tthink")}
	kinds := []string{"get", "get", "get", "put", "put", "put", "del", "scan"}
	if tx.RO {
		kinds = []string{"get", "get", "get", "scan"}
	}
	n := rapid.IntRange(1, 7).Draw(t, "nsteps")
	for i := 0; i < n; i++ {
		s := Step{Op: rapid.SampledFrom(kinds).Draw(t, "op"), Think: rapid.SampledFrom(thinks).Draw(t, "think")}
		switch s.Op {
		case "scan":
			switch rapid.IntRange(0, 3).Draw(t, "scankind") {
			case 0:
				s.A, s.B = -1, -1
			case 1:
				s.A, s.B = rapid.IntRange(0, nk-1).Draw(t, "a"), -1
			case 2:
				s.A, s.B = -1, rapid.IntRange(1, nk-1).Draw(t, "b")
			default:
				s.A = rapid.IntRange(0, nk-2).Draw(t, "a")
				s.B = rapid.IntRange(s.A+1, nk-1).Draw(t, "b")
			}
		case "put":
			s.K = rapid.IntRange(0, nk-1).Draw(t, "k")
			s.Len = rapid.IntRange(8, maxLen).Draw(t, "len")
		default:
			s.K = rapid.IntRange(0, nk-1).Draw(t, "k")
		}
		tx.Steps = append(tx.Steps, s)
	}
	tx.Commit = rapid.IntRange(0, 3).Draw(t, "commit") != 0
	return tx
}

func genCase(t *rapid.T) Case {
	c := Case{
		Cfg: drive.Cfg{
			MemTableSize: rapid.SampledFrom([]int64{256, 1024, 4096, 32 << 20}).Draw(t, "memtable"),
			MaxMemTables: rapid.SampledFrom([]int{1, 2, 4}).Draw(t, "maxmem"),
			SyncMode:     rapid.IntRange(0, 2).Draw(t, "sync"),
			SyncBytes:    rapid.SampledFrom([]int64{1, 4096}).Draw(t, "syncbytes"),
		},
		Keys: genKeys(t),
	}
	nk := len(c.Keys)
	maxLen := rapid.SampledFrom([]int{16, 16, 120}).Draw(t, "maxlen")
	thinks := []uint8{0, 0, 0, 1, 1, 2, 2, 3}
	if rapid.Bool().Draw(t, "setup") {
		st := Tx{Commit: true}
		for k := 0; k < nk; k++ {
			if rapid.Bool().Draw(t, "preload") {
				st.Steps = append(st.Steps, Step{Op: "put", K: k, Len: rapid.IntRange(8, maxLen).Draw(t, "len")})
			}
		}
		if len(st.Steps) > 0 {
			c.Setup = &st
		}
	}
	ncl := rapid.IntRange(2, 8).Draw(t, "clients")
	for cl := 0; cl < ncl; cl++ {
		n := rapid.IntRange(1, 6).Draw(t, "ntx")
		txs := make([]Tx, n)
		for i := range txs {
			txs[i] = genTx(t, nk, maxLen, thinks)
		}
		c.Clients = append(c.Clients, txs)
	}
	if rapid.IntRange(0, 2).Draw(t, "reaper") != 0 {
		n := rapid.IntRange(1, 10).Draw(t, "nreap")
		for i := 0; i < n; i++ {
			c.Reaper = append(c.Reaper, ReapOp{
				PauseUs: rapid.SampledFrom([]int{0, 20, 50, 100, 200, 400, 800, 1500}).Draw(t, "rpause"),
				Client:  rapid.IntRange(0, ncl-1).Draw(t, "rclient"),
			})
		}
	}
	c.Backend = rapid.Bool().Draw(t, "backend")
	mask := rapid.IntRange(0, 1<<len(allGroups)-1).Draw(t, "groups")
	if c.Backend && len(c.Reaper) > 0 {
		mask |= 1 << 3 // delay storage reads at their entry: a forced rollback then likely meets a call in flight
	}
	for i, g := range allGroups {
		if mask&(1<<i) != 0 {
			c.Groups = append(c.Groups, g)
		}
	}
	np := rapid.IntRange(3, 24).Draw(t, "nplan")
	for i := 0; i < np; i++ {
		var d uint16
		switch rapid.SampledFrom([]string{"none", "none", "yield", "yield", "short", "short", "mid", "long"}).Draw(t, "pkind") {
		case "yield":
			d = 1
		case "short":
			d = uint16(rapid.IntRange(10, 60).Draw(t, "us"))
		case "mid":
			d = uint16(rapid.IntRange(100, 400).Draw(t, "us"))
		case "long":
			d = uint16(rapid.IntRange(500, 2000).Draw(t, "us"))
		}
		c.Plan = append(c.Plan, d)
	}
	return c
}

// ---------------------------------------------------------------- runner ----

func think(n uint8) {
	switch n {
	case 1:
		runtime.Gosched()
	case 2:
		time.Sleep(20 * time.Microsecond)
	case 3:
		time.Sleep(150 * time.Microsecond)
	}
}

// readIter consumes an iterator the way the service's scan does.
func (c *Case) readIter(it iterator.Iterator) [][2]int64 {
	var out [][2]int64
	it.SeekToFirst()
	for it.Valid() {
		if !it.IsTombstone() {
			out = append(out, [2]int64{int64(c.keyIndex(it.Key())), c.decode(it.Value())})
		}
		it.Next()
	}
	return out
}

func (c *Case) bound(i int) []byte {
	if i < 0 {
		return nil
	}
	return c.Keys[i]
}

// txHandle is what the harness uses of a transaction.
type txHandle interface {
	Get(key []byte) ([]byte, error)
	Put(key, value []byte) error
	Delete(key []byte) error
	NewIterator() iterator.Iterator
	NewRangeIterator(startKey, endKey []byte) iterator.Iterator
	Commit() error
	Rollback() error
}

// openTx is what a client publishes while one of its transactions is open.
type openTx struct {
	h     txHandle
	cl, t int
}

// slowBackend passes every call through to the engine's real storage manager
// after consulting the perturbation plan.
type slowBackend struct {
	real    transaction.StorageBackend
	perturb func(site string)
}

func (b *slowBackend) Get(key []byte) ([]byte, error) {
	b.perturb("backend.get")
	return b.real.Get(key)
}
func (b *slowBackend) ApplyBatch(entries []*wal.Entry) error {
	b.perturb("backend.apply")
	return b.real.ApplyBatch(entries)
}
func (b *slowBackend) GetIterator() (iterator.Iterator, error) {
	b.perturb("backend.iter")
	return b.real.GetIterator()
}
func (b *slowBackend) GetRangeIterator(start, end []byte) (iterator.Iterator, error) {
	b.perturb("backend.iter")
	return b.real.GetRangeIterator(start, end)
}

type runEnv struct {
	begin func(ro bool) (txHandle, error)
	now   func() int64
	slots []atomic.Pointer[openTx] // per client: the open transaction, nil = none
}

// runTx executes one transaction script and records it.
func (c *Case) runTx(env *runEnv, cl, t int, tx *Tx) TxRec {
	now := env.now
	r := TxRec{C: cl, T: t}
	think(tx.Think)
	r.Call = now()
	h, err := env.begin(tx.RO)
	r.Begun = now()
	if err != nil {
		r.EndCall, r.Ret, r.EndErr = r.Begun, r.Begun, "begin: "+err.Error()
		return r
	}
	if cl >= 0 {
		env.slots[cl].Store(&openTx{h: h, cl: cl, t: t})
	}
	for si, s := range tx.Steps {
		think(s.Think)
		var o Obs
		var cerr error
		o.S = now()
		switch s.Op {
		case "get":
			v, err := h.Get(c.Keys[s.K])
			switch {
			case err == nil:
				o.R = c.decode(v)
			case drive.IsNotFound(err):
			default:
				cerr = err
			}
		case "put":
			cerr = h.Put(c.Keys[s.K], valueBytes(c.valueID(cl, t, si), s.Len))
		case "del":
			cerr = h.Delete(c.Keys[s.K])
		case "scan":
			if s.A < 0 && s.B < 0 {
				o.Scan = c.readIter(h.NewIterator())
			} else {
				o.Scan = c.readIter(h.NewRangeIterator(c.bound(s.A), c.bound(s.B)))
			}
		}
		o.At = now()
		if cerr != nil {
			if isClosedErr(cerr.Error()) {
				// the transaction was closed under us: this is its end, nothing was observed
				r.ClosedAt = si + 1
				break
			}
			o.Err = cerr.Error()
		}
		r.Obs = append(r.Obs, o)
	}
	r.EndCall = now()
	if tx.Commit {
		err = h.Commit()
		r.Applied = err == nil
	} else {
		err = h.Rollback()
	}
	r.Ret = now()
	if cl >= 0 {
		env.slots[cl].Store(nil)
	}
	if err != nil {
		r.EndErr = err.Error()
	}
	return r
}

// runCase executes the case once and returns the recorded history and the reaper's actions.
func runCase(c *Case) ([]TxRec, []ReapRec) {
	dir, err := os.MkdirTemp("", "c04-")
	if err != nil {
		panic(err)
	}
	defer os.RemoveAll(dir)
	e, err := drive.Open(dir, c.Cfg)
	if err != nil {
		panic("C04: cannot open a fresh engine: " + err.Error())
	}
	defer e.Close()
	enabled := map[string]bool{}
	for _, g := range c.Groups {
		enabled[g] = true
	}
	var ctr atomic.Int64
	perturb := func(site string) {
		if len(c.Plan) == 0 || !enabled[groupOf(site)] {
			return
		}
		switch d := c.Plan[int(ctr.Add(1))%len(c.Plan)]; {
		case d == 0:
		case d < 10:
			runtime.Gosched()
		default:
			time.Sleep(time.Duration(d) * time.Microsecond)
		}
	}
	if len(c.Plan) > 0 && len(c.Groups) > 0 {
		verifhook.Set(perturb)
		defer verifhook.Reset()
	}
	base := time.Now()
	env := &runEnv{now: func() int64 { return int64(time.Since(base)) }, slots: make([]atomic.Pointer[openTx], len(c.Clients))}
	if c.Backend {
		mgr := transaction.NewManager(&slowBackend{real: e.VerifStorage(), perturb: perturb}, nil)
		env.begin = func(ro bool) (txHandle, error) { return mgr.BeginTransaction(ro) }
	} else {
		env.begin = func(ro bool) (txHandle, error) { return e.BeginTransaction(ro) }
	}
	var all []TxRec
	if c.Setup != nil {
		all = append(all, c.runTx(env, -1, 0, c.Setup))
	}
	hist := make([][]TxRec, len(c.Clients))
	start := make(chan struct{})
	var wg, rwg sync.WaitGroup
	var done atomic.Bool
	for cl := range c.Clients {
		wg.Add(1)
		go func(cl int) {
			defer wg.Done()
			<-start
			// one transaction at a time per goroutine (documented limitation of the single lock)
			for t := range c.Clients[cl] {
				hist[cl] = append(hist[cl], c.runTx(env, cl, t, &c.Clients[cl][t]))
			}
		}(cl)
	}
	var reaps []ReapRec
	if len(c.Reaper) > 0 {
		rwg.Add(1)
		go func() {
			defer rwg.Done()
			<-start
			for _, op := range c.Reaper {
				if op.PauseUs > 0 {
					time.Sleep(time.Duration(op.PauseUs) * time.Microsecond)
				} else {
					runtime.Gosched()
				}
				if done.Load() {
					return
				}
				for i := 0; i < len(c.Clients); i++ {
					o := env.slots[(op.Client+i)%len(c.Clients)].Load()
					if o == nil {
						continue
					}
					rr := ReapRec{C: o.cl, T: o.t, Call: env.now()}
					err := o.h.Rollback()
					rr.Ret = env.now()
					if err != nil {
						rr.Err = err.Error()
					}
					reaps = append(reaps, rr)
					break
				}
			}
		}()
	}
	close(start)
	wg.Wait()
	done.Store(true)
	rwg.Wait()
	for _, h := range hist {
		all = append(all, h...)
	}
	// a Rollback of the reaper that returned nil is the one that closed the transaction
	for _, rr := range reaps {
		if rr.Err != "" {
			continue
		}
		for i := range all {
			r := &all[i]
			if r.C != rr.C || r.T != rr.T {
				continue
			}
			r.Forced, r.ForcedCall, r.ForcedRet = true, rr.Call, rr.Ret
			// iterators are used outside the transaction's mutex: a scan that had not finished when the
			// forced rollback was invoked is not a read of the transaction any more
			tx := c.txOf(r.C, r.T)
			for si := range r.Obs {
				if tx.Steps[si].Op == "scan" && r.Obs[si].At >= rr.Call {
					r.Obs[si].Void = true
				}
			}
		}
	}
	all = append(all, c.runTx(env, -2, 0, c.txOf(-2, 0)))
	drive.Quiesce(e)
	return all, reaps
}

// Stats are measurements of one recorded history.
type Stats struct {
	Conflicts   int // pairs of transactions overlapping in real time that touch a common key, one of them writing it
	ROvsRW      int // ... of which one is read-only
	CommitErrs  int
	Forced      int // transactions closed by the reaper
	ForcedBusy  int // ... while a call of that transaction was in flight
	ForcedInGet int // ... while a Get that went on to return successfully was in flight
	VoidScans   int
	Txs         int
	LockWaiters int // transactions that were invoked while another one held (or waited for) the lock
}

func touched(tx *Tx, nk int) (reads, writes [maxKeys]bool) {
	for _, s := range tx.Steps {
		switch s.Op {
		case "get":
			reads[s.K] = true
		case "put", "del":
			writes[s.K] = true
		case "scan":
			lo, hi := 0, nk
			if s.A >= 0 {
				lo = s.A
			}
			if s.B >= 0 {
				hi = s.B
			}
			for k := lo; k < hi; k++ {
				reads[k] = true
			}
		}
	}
	return
}

func measure(c *Case, h []TxRec) Stats {
	var st Stats
	nk := len(c.Keys)
	st.Txs = len(h)
	for i := range h {
		if h[i].EndErr != "" && !(h[i].Forced && isClosedErr(h[i].EndErr)) {
			st.CommitErrs++
		}
		if h[i].Forced {
			st.Forced++
			busy, inGet := false, false
			tx := c.txOf(h[i].C, h[i].T)
			for si, o := range h[i].Obs {
				if o.Void {
					st.VoidScans++
				}
				// in flight at some moment of the forced Rollback call
				if o.S <= h[i].ForcedRet && o.At >= h[i].ForcedCall {
					busy = true
					if tx.Steps[si].Op == "get" {
						inGet = true
					}
				}
			}
			if busy {
				st.ForcedBusy++
			}
			if inGet {
				st.ForcedInGet++
			}
		}
		if h[i].C < 0 {
			continue
		}
		ti := c.txOf(h[i].C, h[i].T)
		ri, wi := touched(ti, nk)
		over := false
		for j := range h {
			if j == i || h[j].C < 0 {
				continue
			}
			if h[j].Call < h[i].Call && h[j].Ret > h[i].Call {
				over = true
			}
			if j < i || !(h[i].Call <= h[j].Ret && h[j].Call <= h[i].Ret) {
				continue
			}
			tj := c.txOf(h[j].C, h[j].T)
			rj, wj := touched(tj, nk)
			for k := 0; k < nk; k++ {
				if (wi[k] && (rj[k] || wj[k])) || (wj[k] && (ri[k] || wi[k])) {
					st.Conflicts++
					if ti.RO || tj.RO {
						st.ROvsRW++
					}
					break
				}
			}
		}
		if over {
			st.LockWaiters++
		}
	}
	return st
}

func evaluate(c *Case) (*Verdict, []TxRec, []ReapRec, Stats, bool) {
	h, reaps := runCase(c)
	st := measure(c, h)
	res := checkHistory(c, h, 10*time.Second)
	return res.V, h, reaps, st, res.Inconclusive
}

func record(c *Case, st Stats, inconclusive bool) {
	var cl []string
	nt := st.Conflicts >= 1
	if nt {
		cl = append(cl, "overlapping_conflicting_transactions")
	}
	if st.Conflicts >= 5 {
		cl = append(cl, "conflicts>=5")
	}
	if st.ROvsRW >= 1 {
		cl = append(cl, "read_only_overlaps_writer_of_its_keys")
	}
	if len(c.Clients) >= 4 {
		cl = append(cl, "clients>=4")
	}
	if c.Setup != nil {
		cl = append(cl, "preloaded")
	}
	hasScan, hasRollback, ryw := false, false, false
	for _, txs := range c.Clients {
		for i := range txs {
			if !txs[i].Commit && txs[i].hasWrite() {
				hasRollback = true
			}
			var w [maxKeys]bool
			for _, s := range txs[i].Steps {
				switch s.Op {
				case "scan":
					hasScan = true
					ryw = ryw || w != [maxKeys]bool{}
				case "put", "del":
					w[s.K] = true
				case "get":
					ryw = ryw || w[s.K]
				}
			}
		}
	}
	if hasScan {
		cl = append(cl, "has_scan")
	}
	if hasRollback {
		cl = append(cl, "has_rollback_with_writes")
	}
	if ryw {
		cl = append(cl, "reads_own_writes")
	}
	if len(c.Groups) > 0 {
		cl = append(cl, "perturbed")
	}
	if len(c.Reaper) > 0 {
		cl = append(cl, "reaper")
	}
	if c.Backend {
		cl = append(cl, "wrapped_storage_backend")
	}
	if st.Forced > 0 {
		cl = append(cl, "forced_rollback")
	}
	if st.ForcedBusy > 0 {
		cl = append(cl, "forced_rollback_while_call_in_flight")
	}
	if st.ForcedInGet > 0 {
		cl = append(cl, "forced_rollback_while_successful_get_in_flight")
	}
	ev.R().Case(ev.Hash(c), nt, cl, func() any { return c })
	ev.R().Count("transactions", st.Txs)
	ev.R().Count("conflicting_overlapping_pairs", st.Conflicts)
	ev.R().Count("transactions_invoked_while_another_was_open", st.LockWaiters)
	ev.R().Count("commit_or_rollback_errors", st.CommitErrs)
	ev.R().Count("forced_rollbacks", st.Forced)
	ev.R().Count("forced_rollbacks_while_call_in_flight", st.ForcedBusy)
	ev.R().Count("forced_rollbacks_while_successful_get_in_flight", st.ForcedInGet)
	ev.R().Count("scans_voided_by_forced_rollback", st.VoidScans)
	if inconclusive {
		ev.R().Count("porcupine_timeouts_inconclusive", 1)
	}
}

func TestProp(t *testing.T) {
	rapid.Check(t, func(t *rapid.T) {
		c := genCase(t)
		v, h, reaps, st, inc := evaluate(&c)
		record(&c, st, inc)
		if v != nil {
			path := ev.R().Fail(v.Sig, v.Msg, Doc{Property: "C04", Mode: "history", Case: c, Verdict: v, History: h, Reaps: reaps})
			t.Fatalf("C04 violated: %s: %s (replay %s)", v.Sig, v.Msg, path)
		}
	})
}

// TestReplay re-checks a saved history with the same oracle (mode "history";
// the workload is also executed again a few times, best effort) or executes the
// saved workload Runs times (mode "rerun").
func TestReplay(t *testing.T) {
	f := os.Getenv("VERIF_REPLAY")
	if f == "" {
		t.Skip("no VERIF_REPLAY")
	}
	b, err := os.ReadFile(f)
	if err != nil {
		t.Fatal(err)
	}
	var d Doc
	if err := json.Unmarshal(b, &d); err != nil {
		t.Fatal(err)
	}
	if d.Mode == "sequential" && d.Seq != nil {
		if mm := runSeqProgram(d.Seq); mm != nil {
			ev.WriteReplayResult(ev.ReplayResult{File: f, Outcome: "fail", Signature: "sequential:" + mm.Signature(), Message: mm.Error()})
			return
		}
		ev.WriteReplayResult(ev.ReplayResult{File: f, Outcome: "pass"})
		return
	}
	runs, again := 20, 0
	if d.Runs > 0 {
		runs = d.Runs
	}
	var v, first *Verdict
	if d.Mode != "rerun" && len(d.History) > 0 {
		v = checkHistory(&d.Case, d.History, 60*time.Second).V
	}
	for i := 0; i < runs; i++ {
		if rv, _, _, _, _ := evaluate(&d.Case); rv != nil {
			again++
			if first == nil {
				first = rv
			}
		}
	}
	if v == nil {
		v = first
	}
	if v != nil {
		ev.WriteReplayResult(ev.ReplayResult{File: f, Outcome: "fail", Signature: v.Sig,
			Message: fmt.Sprintf("%s (the workload failed in %d of %d fresh executions)", v.Msg, again, runs)})
		t.Logf("replay fails: %s: %s", v.Sig, v.Msg)
		return
	}
	ev.WriteReplayResult(ev.ReplayResult{File: f, Outcome: "pass"})
}

// C04 — transactions are serializable with respect to each other.
// Concurrent transaction histories recorded from the real embedded engine, each
// transaction one operation [invoke(begin), return(commit|rollback)], checked
// with porcupine against "state = map, step = replay the script" (DESIGN.md 5/C04).
package c04

import (
	"bytes"
	"encoding/binary"
	"encoding/json"
	"fmt"
	"os"
	"runtime"
	"sort"
	"strings"
	"sync"
	"sync/atomic"
	"testing"
	"time"

	"github.com/KevoDB/kevo/pkg/common/iterator"
	"github.com/KevoDB/kevo/pkg/engine"
	"github.com/KevoDB/kevo/pkg/verifhook"
	"pgregory.net/rapid"

	"verif/internal/drive"
	"verif/internal/ev"
)

const rule = "case = rapid-drawn (configuration, 3-5 keys, optional setup transaction, 2-8 client goroutines each running 1-6 " +
	"transactions one after another; a transaction = read-only or read-write script of gets, puts with unique values, deletes, " +
	"full and range scans, reads of own writes, think times, then commit or rollback; yield/sleep plan consumed cyclically at the " +
	"tx.begin.*/tx.commit.*/storage.batch.*/wal.batch.* hook sites); plain writes are excluded as the property says; every " +
	"transaction is recorded as one operation [begin invoked, commit/rollback returned] with everything it read; oracle = direct " +
	"invariants (own writes seen, repeatable reads, no value of a rolled-back or not-yet-committing transaction, scans ordered and " +
	"in bounds) and porcupine linearizability of the transactions against 'replay the script on a map, verify every read, apply " +
	"writes iff committed' (strict serializability), including a final read-only transaction of the harness; non-trivial = at " +
	"least two transactions overlap in real time and touch a common key, at least one of them writing it; distinct by FNV-64 of " +
	"the case JSON"

func TestMain(m *testing.M) {
	ev.Silence()
	rec := ev.Init("C04", rule)
	code := m.Run()
	rec.Flush(true)
	os.Exit(code)
}

// ------------------------------------------------------------------ case ----

// Step is one call inside a transaction.
type Step struct {
	Op    string `json:"op"` // get | put | del | scan
	K     int    `json:"k"`
	A     int    `json:"a,omitempty"` // scan: [keys[A], keys[B]) ; -1 = unbounded
	B     int    `json:"b,omitempty"`
	Len   int    `json:"len,omitempty"`   // put: value length
	Think uint8  `json:"think,omitempty"` // before the call: 0 nothing, 1 Gosched, 2 sleep 20us, 3 sleep 150us
}

// Tx is one transaction script.
type Tx struct {
	RO     bool   `json:"ro,omitempty"`
	Steps  []Step `json:"steps"`
	Commit bool   `json:"commit"`
	Think  uint8  `json:"think,omitempty"` // before begin
}

func (t *Tx) hasWrite() bool {
	for _, s := range t.Steps {
		if s.Op == "put" || s.Op == "del" {
			return true
		}
	}
	return false
}

// Case is a complete generated case.
type Case struct {
	Cfg     drive.Cfg `json:"cfg"`
	Keys    [][]byte  `json:"keys"`            // sorted ascending: index order = byte order
	Setup   *Tx       `json:"setup,omitempty"` // committed before the clients start
	Clients [][]Tx    `json:"clients"`
	Groups  []string  `json:"groups"`
	Plan    []uint16  `json:"plan"` // 0 nothing, 1 Gosched, n >= 10 sleep n microseconds
}

// Doc is the replay document.
type Doc struct {
	Property string   `json:"property"`
	Mode     string   `json:"mode"` // "history" | "rerun"
	Runs     int      `json:"runs,omitempty"`
	Case     Case     `json:"case"`
	Verdict  *Verdict `json:"verdict,omitempty"`
	History  []TxRec  `json:"history,omitempty"`
}

var finalTx = Tx{RO: true, Commit: true}

func (c *Case) txOf(cl, t int) *Tx {
	switch {
	case cl == -1:
		return c.Setup
	case cl == -2:
		f := finalTx
		for k := range c.Keys {
			f.Steps = append(f.Steps, Step{Op: "get", K: k})
		}
		f.Steps = append(f.Steps, Step{Op: "scan", A: -1, B: -1})
		return &f
	case cl >= 0 && cl < len(c.Clients) && t >= 0 && t < len(c.Clients[cl]):
		return &c.Clients[cl][t]
	}
	return nil
}

// valueID is the unique id of the value written by step s of transaction t of client cl.
func (c *Case) valueID(cl, t, s int) uint32 { return uint32(((cl+1)*64+t)*32 + s + 1) }

func (c *Case) splitID(id uint32) (cl, t, s int) {
	id--
	return int(id/32/64) - 1, int(id / 32 % 64), int(id % 32)
}

func valueBytes(id uint32, n int) []byte {
	if n < 8 {
		n = 8
	}
	b := make([]byte, n)
	binary.BigEndian.PutUint32(b, id)
	for j := 4; j < n; j++ {
		b[j] = byte(id*131 + uint32(j)*7)
	}
	return b
}

func (c *Case) decode(v []byte) int64 {
	if len(v) < 8 {
		return -1
	}
	id := binary.BigEndian.Uint32(v)
	if id == 0 {
		return -1
	}
	cl, t, s := c.splitID(id)
	tx := c.txOf(cl, t)
	if cl == -2 || tx == nil || s >= len(tx.Steps) || tx.Steps[s].Op != "put" {
		return -1
	}
	if !bytes.Equal(v, valueBytes(id, tx.Steps[s].Len)) {
		return -1
	}
	return int64(id)
}

func (c *Case) keyIndex(k []byte) int {
	for i := range c.Keys {
		if bytes.Equal(c.Keys[i], k) {
			return i
		}
	}
	return -1
}

// ------------------------------------------------------------- generator ----

var allGroups = []string{"begin", "commit", "batch"}

func groupOf(site string) string {
	switch {
	case strings.HasPrefix(site, "tx.begin."):
		return "begin"
	case strings.HasPrefix(site, "tx.commit."):
		return "commit"
	case strings.HasPrefix(site, "storage.batch."), strings.HasPrefix(site, "wal.batch."):
		return "batch"
	}
	return ""
}

func genKeys(t *rapid.T) [][]byte {
	n := rapid.IntRange(3, 5).Draw(t, "nkeys")
	var pool [][]byte
	switch rapid.SampledFrom([]string{"plain", "plain", "nested"}).Draw(t, "keyshape") {
	case "plain":
		for i := 0; i < 5; i++ {
			pool = append(pool, []byte(fmt.Sprintf("key%d", i)))
		}
	default:
		pool = [][]byte{[]byte("a"), {'a', 0}, {'a', 0, 1}, {'a', 0xff}, []byte("ab")}
	}
	pool = pool[:n]
	sort.Slice(pool, func(i, j int) bool { return bytes.Compare(pool[i], pool[j]) < 0 })
	return pool
}

func genTx(t *rapid.T, nk int, maxLen int, thinks []uint8) Tx {
	tx := Tx{RO: rapid.IntRange(0, 2).Draw(t, "ro") == 0, Think: rapid.SampledFrom(thinks).Draw(t, "tthink")}
	kinds := []string{"get", "get", "get", "put", "put", "put", "del", "scan"}
	if tx.RO {
		kinds = []string{"get", "get", "get", "scan"}
	}
	n := rapid.IntRange(1, 7).Draw(t, "nsteps")
	for i := 0; i < n; i++ {
		s := Step{Op: rapid.SampledFrom(kinds).Draw(t, "op"), Think: rapid.SampledFrom(thinks).Draw(t, "think")}
		switch s.Op {
		case "scan":
			switch rapid.IntRange(0, 3).Draw(t, "scankind") {
			case 0:
				s.A, s.B = -1, -1
			case 1:
				s.A, s.B = rapid.IntRange(0, nk-1).Draw(t, "a"), -1
			case 2:
				s.A, s.B = -1, rapid.IntRange(1, nk-1).Draw(t, "b")
			default:
				s.A = rapid.IntRange(0, nk-2).Draw(t, "a")
				s.B = rapid.IntRange(s.A+1, nk-1).Draw(t, "b")
			}
		case "put":
			s.K = rapid.IntRange(0, nk-1).Draw(t, "k")
			s.Len = rapid.IntRange(8, maxLen).Draw(t, "len")
		default:
			s.K = rapid.IntRange(0, nk-1).Draw(t, "k")
		}
		tx.Steps = append(tx.Steps, s)
	}
	tx.Commit = rapid.IntRange(0, 3).Draw(t, "commit") != 0
	return tx
}

func genCase(t *rapid.T) Case {
	c := Case{
		Cfg: drive.Cfg{
			MemTableSize: rapid.SampledFrom([]int64{256, 1024, 4096, 32 << 20}).Draw(t, "memtable"),
			MaxMemTables: rapid.SampledFrom([]int{1, 2, 4}).Draw(t, "maxmem"),
			SyncMode:     rapid.IntRange(0, 2).Draw(t, "sync"),
			SyncBytes:    rapid.SampledFrom([]int64{1, 4096}).Draw(t, "syncbytes"),
		},
		Keys: genKeys(t),
	}
	nk := len(c.Keys)
	maxLen := rapid.SampledFrom([]int{16, 16, 120}).Draw(t, "maxlen")
	thinks := []uint8{0, 0, 0, 1, 1, 2, 2, 3}
	if rapid.Bool().Draw(t, "setup") {
		st := Tx{Commit: true}
		for k := 0; k < nk; k++ {
			if rapid.Bool().Draw(t, "preload") {
				st.Steps = append(st.Steps, Step{Op: "put", K: k, Len: rapid.IntRange(8, maxLen).Draw(t, "len")})
			}
		}
		if len(st.Steps) > 0 {
			c.Setup = &st
		}
	}
	ncl := rapid.IntRange(2, 8).Draw(t, "clients")
	for cl := 0; cl < ncl; cl++ {
		n := rapid.IntRange(1, 6).Draw(t, "ntx")
		txs := make([]Tx, n)
		for i := range txs {
			txs[i] = genTx(t, nk, maxLen, thinks)
		}
		c.Clients = append(c.Clients, txs)
	}
	mask := rapid.IntRange(0, 1<<len(allGroups)-1).Draw(t, "groups")
	for i, g := range allGroups {
		if mask&(1<<i) != 0 {
			c.Groups = append(c.Groups, g)
		}
	}
	np := rapid.IntRange(3, 24).Draw(t, "nplan")
	for i := 0; i < np; i++ {
		var d uint16
		switch rapid.SampledFrom([]string{"none", "none", "yield", "yield", "short", "short", "mid", "long"}).Draw(t, "pkind") {
		case "yield":
			d = 1
		case "short":
			d = uint16(rapid.IntRange(10, 60).Draw(t, "us"))
		case "mid":
			d = uint16(rapid.IntRange(100, 400).Draw(t, "us"))
		case "long":
			d = uint16(rapid.IntRange(500, 2000).Draw(t, "us"))
		}
		c.Plan = append(c.Plan, d)
	}
	return c
}

// ---------------------------------------------------------------- runner ----

func think(n uint8) {
	switch n {
	case 1:
		runtime.Gosched()
	case 2:
		time.Sleep(20 * time.Microsecond)
	case 3:
		time.Sleep(150 * time.Microsecond)
	}
}

// readIter consumes an iterator the way the service's scan does.
func (c *Case) readIter(it iterator.Iterator) [][2]int64 {
	var out [][2]int64
	it.SeekToFirst()
	for it.Valid() {
		if !it.IsTombstone() {
			out = append(out, [2]int64{int64(c.keyIndex(it.Key())), c.decode(it.Value())})
		}
		it.Next()
	}
	return out
}

func (c *Case) bound(i int) []byte {
	if i < 0 {
		return nil
	}
	return c.Keys[i]
}

// runTx executes one transaction script and records it.
func (c *Case) runTx(e *engine.EngineFacade, cl, t int, tx *Tx, now func() int64) TxRec {
	r := TxRec{C: cl, T: t}
	think(tx.Think)
	r.Call = now()
	h, err := e.BeginTransaction(tx.RO)
	r.Begun = now()
	if err != nil {
		r.EndCall, r.Ret, r.EndErr = r.Begun, r.Begun, "begin: "+err.Error()
		return r
	}
	for si, s := range tx.Steps {
		think(s.Think)
		var o Obs
		switch s.Op {
		case "get":
			v, err := h.Get(c.Keys[s.K])
			switch {
			case err == nil:
				o.R = c.decode(v)
			case drive.IsNotFound(err):
			default:
				o.Err = err.Error()
			}
		case "put":
			if err := h.Put(c.Keys[s.K], valueBytes(c.valueID(cl, t, si), s.Len)); err != nil {
				o.Err = err.Error()
			}
		case "del":
			if err := h.Delete(c.Keys[s.K]); err != nil {
				o.Err = err.Error()
			}
		case "scan":
			if s.A < 0 && s.B < 0 {
				o.Scan = c.readIter(h.NewIterator())
			} else {
				o.Scan = c.readIter(h.NewRangeIterator(c.bound(s.A), c.bound(s.B)))
			}
		}
		o.At = now()
		r.Obs = append(r.Obs, o)
	}
	r.EndCall = now()
	if tx.Commit {
		err = h.Commit()
		r.Applied = err == nil
	} else {
		err = h.Rollback()
	}
	r.Ret = now()
	if err != nil {
		r.EndErr = err.Error()
	}
	return r
}

// runCase executes the case once and returns the recorded history.
func runCase(c *Case) []TxRec {
	dir, err := os.MkdirTemp("", "c04-")
	if err != nil {
		panic(err)
	}
	defer os.RemoveAll(dir)
	e, err := drive.Open(dir, c.Cfg)
	if err != nil {
		panic("C04: cannot open a fresh engine: " + err.Error())
	}
	defer e.Close()
	enabled := map[string]bool{}
	for _, g := range c.Groups {
		enabled[g] = true
	}
	var ctr atomic.Int64
	if len(c.Plan) > 0 && len(c.Groups) > 0 {
		verifhook.Set(func(site string) {
			if !enabled[groupOf(site)] {
				return
			}
			switch d := c.Plan[int(ctr.Add(1))%len(c.Plan)]; {
			case d == 0:
			case d < 10:
				runtime.Gosched()
			default:
				time.Sleep(time.Duration(d) * time.Microsecond)
			}
		})
		defer verifhook.Reset()
	}
	base := time.Now()
	now := func() int64 { return int64(time.Since(base)) }
	var all []TxRec
	if c.Setup != nil {
		all = append(all, c.runTx(e, -1, 0, c.Setup, now))
	}
	hist := make([][]TxRec, len(c.Clients))
	start := make(chan struct{})
	var wg sync.WaitGroup
	for cl := range c.Clients {
		wg.Add(1)
		go func(cl int) {
			defer wg.Done()
			<-start
			// one transaction at a time per goroutine (documented limitation of the single lock)
			for t := range c.Clients[cl] {
				hist[cl] = append(hist[cl], c.runTx(e, cl, t, &c.Clients[cl][t], now))
			}
		}(cl)
	}
	close(start)
	wg.Wait()
	for _, h := range hist {
		all = append(all, h...)
	}
	all = append(all, c.runTx(e, -2, 0, c.txOf(-2, 0), now))
	drive.Quiesce(e)
	return all
}

// Stats are measurements of one recorded history.
type Stats struct {
	Conflicts   int // pairs of transactions overlapping in real time that touch a common key, one of them writing it
	ROvsRW      int // ... of which one is read-only
	CommitErrs  int
	Txs         int
	LockWaiters int // transactions that were invoked while another one held (or waited for) the lock
}

func touched(tx *Tx, nk int) (reads, writes [maxKeys]bool) {
	for _, s := range tx.Steps {
		switch s.Op {
		case "get":
			reads[s.K] = true
		case "put", "del":
			writes[s.K] = true
		case "scan":
			lo, hi := 0, nk
			if s.A >= 0 {
				lo = s.A
			}
			if s.B >= 0 {
				hi = s.B
			}
			for k := lo; k < hi; k++ {
				reads[k] = true
			}
		}
	}
	return
}

func measure(c *Case, h []TxRec) Stats {
	var st Stats
	nk := len(c.Keys)
	st.Txs = len(h)
	for i := range h {
		if h[i].EndErr != "" {
			st.CommitErrs++
		}
		if h[i].C < 0 {
			continue
		}
		ti := c.txOf(h[i].C, h[i].T)
		ri, wi := touched(ti, nk)
		over := false
		for j := range h {
			if j == i || h[j].C < 0 {
				continue
			}
			if h[j].Call < h[i].Call && h[j].Ret > h[i].Call {
				over = true
			}
			if j < i || !(h[i].Call <= h[j].Ret && h[j].Call <= h[i].Ret) {
				continue
			}
			tj := c.txOf(h[j].C, h[j].T)
			rj, wj := touched(tj, nk)
			for k := 0; k < nk; k++ {
				if (wi[k] && (rj[k] || wj[k])) || (wj[k] && (ri[k] || wi[k])) {
					st.Conflicts++
					if ti.RO || tj.RO {
						st.ROvsRW++
					}
					break
				}
			}
		}
		if over {
			st.LockWaiters++
		}
	}
	return st
}

func evaluate(c *Case) (*Verdict, []TxRec, Stats, bool) {
	h := runCase(c)
	st := measure(c, h)
	res := checkHistory(c, h, 10*time.Second)
	return res.V, h, st, res.Inconclusive
}

func record(c *Case, st Stats, inconclusive bool) {
	var cl []string
	nt := st.Conflicts >= 1
	if nt {
		cl = append(cl, "overlapping_conflicting_transactions")
	}
	if st.Conflicts >= 5 {
		cl = append(cl, "conflicts>=5")
	}
	if st.ROvsRW >= 1 {
		cl = append(cl, "read_only_overlaps_writer_of_its_keys")
	}
	if len(c.Clients) >= 4 {
		cl = append(cl, "clients>=4")
	}
	if c.Setup != nil {
		cl = append(cl, "preloaded")
	}
	hasScan, hasRollback, ryw := false, false, false
	for _, txs := range c.Clients {
		for i := range txs {
			if !txs[i].Commit && txs[i].hasWrite() {
				hasRollback = true
			}
			var w [maxKeys]bool
			for _, s := range txs[i].Steps {
				switch s.Op {
				case "scan":
					hasScan = true
					ryw = ryw || w != [maxKeys]bool{}
				case "put", "del":
					w[s.K] = true
				case "get":
					ryw = ryw || w[s.K]
				}
			}
		}
	}
	if hasScan {
		cl = append(cl, "has_scan")
	}
	if hasRollback {
		cl = append(cl, "has_rollback_with_writes")
	}
	if ryw {
		cl = append(cl, "reads_own_writes")
	}
	if len(c.Groups) > 0 {
		cl = append(cl, "perturbed")
	}
	ev.R().Case(ev.Hash(c), nt, cl, func() any { return c })
	ev.R().Count("transactions", st.Txs)
	ev.R().Count("conflicting_overlapping_pairs", st.Conflicts)
	ev.R().Count("transactions_invoked_while_another_was_open", st.LockWaiters)
	ev.R().Count("commit_or_rollback_errors", st.CommitErrs)
	if inconclusive {
		ev.R().Count("porcupine_timeouts_inconclusive", 1)
	}
}

func TestProp(t *testing.T) {
	rapid.Check(t, func(t *rapid.T) {
		c := genCase(t)
		v, h, st, inc := evaluate(&c)
		record(&c, st, inc)
		if v != nil {
			path := ev.R().Fail(v.Sig, v.Msg, Doc{Property: "C04", Mode: "history", Case: c, Verdict: v, History: h})
			t.Fatalf("C04 violated: %s: %s (replay %s)", v.Sig, v.Msg, path)
		}
	})
}

// TestReplay re-checks a saved history with the same oracle (mode "history";
// the workload is also executed again a few times, best effort) or executes the
// saved workload Runs times (mode "rerun").
func TestReplay(t *testing.T) {
	f := os.Getenv("VERIF_REPLAY")
	if f == "" {
		t.Skip("no VERIF_REPLAY")
	}
	b, err := os.ReadFile(f)
	if err != nil {
		t.Fatal(err)
	}
	var d Doc
	if err := json.Unmarshal(b, &d); err != nil {
		t.Fatal(err)
	}
	runs, again := 20, 0
	if d.Runs > 0 {
		runs = d.Runs
	}
	var v, first *Verdict
	if d.Mode != "rerun" && len(d.History) > 0 {
		v = checkHistory(&d.Case, d.History, 60*time.Second).V
	}
	for i := 0; i < runs; i++ {
		if rv, _, _, _ := evaluate(&d.Case); rv != nil {
			again++
			if first == nil {
				first = rv
			}
		}
	}
	if v == nil {
		v = first
	}
	if v != nil {
		ev.WriteReplayResult(ev.ReplayResult{File: f, Outcome: "fail", Signature: v.Sig,
			Message: fmt.Sprintf("%s (the workload failed in %d of %d fresh executions)", v.Msg, again, runs)})
		t.Logf("replay fails: %s: %s", v.Sig, v.Msg)
		return
	}
	ev.WriteReplayResult(ev.ReplayResult{File: f, Outcome: "pass"})
}

package c04

import (
	"fmt"
	"sort"
	"strings"
	"time"

	"github.com/anishathalye/porcupine"
)

const maxKeys = 8

// Obs is what one step of a transaction observed.
type Obs struct {
	S    int64      `json:"s"`              // monotonic time right before the step was invoked
	Void bool       `json:"void,omitempty"` // scan that had not finished when a forced rollback of its transaction was invoked: not an observation
	At   int64      `json:"at"`             // monotonic time right after the step returned
	R    int64      `json:"r,omitempty"`    // get: id of the value read, 0 = absent, -1 = bytes nobody wrote
	Scan [][2]int64 `json:"scan,omitempty"` // scan: (key index or -1 for a key outside the pool, value id) in iteration order
	Err  string     `json:"err,omitempty"`
}

// TxRec is one recorded transaction = ONE operation of the history:
// invoked when BeginTransaction is called, returned when Commit/Rollback returns.
type TxRec struct {
	C       int    `json:"c"` // client; -1 = the setup transaction, -2 = the final read-only transaction of the harness
	T       int    `json:"t"` // index in the client's list
	Call    int64  `json:"call"`
	Begun   int64  `json:"begun"`    // BeginTransaction returned
	EndCall int64  `json:"end_call"` // Commit/Rollback invoked
	Ret     int64  `json:"ret"`
	Applied bool   `json:"applied"` // Commit was requested and returned nil
	EndErr  string `json:"end_err,omitempty"`
	Obs     []Obs  `json:"obs"` // one per step that returned without the closed error; shorter than the script when the transaction was closed under the client
	// forced rollback by the reaper goroutine (what the registry's stale sweep / connection cleanup do)
	Forced     bool  `json:"forced,omitempty"`      // the reaper's Rollback returned nil: it closed the transaction, which counts as rolled back
	ForcedCall int64 `json:"forced_call,omitempty"` // the reaper invoked Rollback
	ForcedRet  int64 `json:"forced_ret,omitempty"`  // ... and it returned
	ClosedAt   int   `json:"closed_at,omitempty"`   // 1 + index of the step that failed with ErrTransactionClosed (0 = none)
}

func isClosedErr(s string) bool { return strings.Contains(s, "already committed or rolled back") }

func (r *TxRec) name() string {
	switch r.C {
	case -1:
		return "setup"
	case -2:
		return "final"
	}
	return fmt.Sprintf("c%d.t%d", r.C, r.T)
}

// Verdict is the result of checking a history.
type Verdict struct {
	Sig string `json:"sig"`
	Msg string `json:"msg"`
}

type state [maxKeys]uint32

type txIn struct {
	c   *Case
	tx  *Tx
	rec *TxRec
}

// scanWant renders what a scan over [a,b) must return in the given view.
func scanWant(view *[maxKeys]int64, nk, a, b int) [][2]int64 {
	lo, hi := 0, nk
	if a >= 0 {
		lo = a
	}
	if b >= 0 {
		hi = b
	}
	var out [][2]int64
	for k := lo; k < hi; k++ {
		if view[k] != 0 {
			out = append(out, [2]int64{int64(k), view[k]})
		}
	}
	return out
}

func sameScan(a, b [][2]int64) bool {
	if len(a) != len(b) {
		return false
	}
	for i := range a {
		if a[i] != b[i] {
			return false
		}
	}
	return true
}

// replay runs the script of one transaction against a database state: every
// observed read and scan must be what the state with the transaction's own
// writes overlaid gives. It returns the index of the first step that disagrees
// (-1 = none) and the state after the transaction (writes applied iff the
// commit succeeded).
func replay(st state, in *txIn) (int, state) {
	nk := len(in.c.Keys)
	var view [maxKeys]int64
	for k := 0; k < nk; k++ {
		view[k] = int64(st[k])
	}
	for i, s := range in.tx.Steps {
		if i >= len(in.rec.Obs) {
			break
		}
		o := &in.rec.Obs[i]
		switch s.Op {
		case "put":
			view[s.K] = int64(in.c.valueID(in.rec.C, in.rec.T, i))
		case "del":
			view[s.K] = 0
		case "get":
			if o.R != view[s.K] {
				return i, st
			}
		case "scan":
			if !o.Void && !sameScan(o.Scan, scanWant(&view, nk, s.A, s.B)) {
				return i, st
			}
		}
	}
	if in.rec.Applied {
		for k := 0; k < nk; k++ {
			st[k] = uint32(view[k])
		}
	}
	return -1, st
}

var txModel = porcupine.Model{
	Init: func() interface{} { return state{} },
	Step: func(s, input, output interface{}) (bool, interface{}) {
		bad, next := replay(s.(state), input.(*txIn))
		return bad < 0, next
	},
	Equal: func(a, b interface{}) bool { return a.(state) == b.(state) },
	DescribeOperation: func(in, out interface{}) string {
		return in.(*txIn).rec.name()
	},
}

// CheckResult carries counters next to the verdict.
type CheckResult struct {
	V            *Verdict
	Inconclusive bool
}

// checkHistory is the oracle of C04: direct invariants first (specific
// signatures), then strict serializability of the whole history.
func checkHistory(c *Case, h []TxRec, timeout time.Duration) CheckResult {
	var res CheckResult
	nk := len(c.Keys)
	recOf := map[[2]int]*TxRec{}
	for i := range h {
		recOf[[2]int{h[i].C, h[i].T}] = &h[i]
	}
	fail := func(sig, msg string) CheckResult {
		res.V = &Verdict{Sig: sig, Msg: msg}
		return res
	}
	for i := range h {
		r := &h[i]
		tx := c.txOf(r.C, r.T)
		if tx == nil {
			return fail("malformed-history", fmt.Sprintf("no script for %s", r.name()))
		}
		mode := "rw"
		if tx.RO {
			mode = "ro"
		}
		switch {
		case r.EndErr == "":
		case isClosedErr(r.EndErr):
			if !r.Forced {
				return fail("closed-error-but-nobody-closed-it:end:"+mode, fmt.Sprintf("%s: commit/rollback reported %q although no other party closed the transaction", r.name(), r.EndErr))
			}
		case !tx.hasWrite():
			return fail("end-error:"+mode, fmt.Sprintf("%s: commit/rollback of a transaction without writes failed: %s", r.name(), r.EndErr))
		}
		if r.ClosedAt > 0 && !r.Forced {
			return fail("closed-error-but-nobody-closed-it:step:"+mode, fmt.Sprintf("%s: step %d failed with the closed-transaction error although no other party closed the transaction", r.name(), r.ClosedAt-1))
		}
		if r.Forced && r.Applied {
			return fail("forced-rollback-and-commit-both-succeeded:"+mode, fmt.Sprintf("%s: a Rollback from another goroutine and the client's Commit both returned nil", r.name()))
		}
		// per-key knowledge inside this transaction
		var own [maxKeys]int64  // own overlay: -1 untouched, 0 deleted, >0 id
		var seen [maxKeys]int64 // last observation of the underlying (not own) value, -2 = none yet
		for k := range own {
			own[k], seen[k] = -1, -2
		}
		observe := func(step, k int, val int64, via string) *Verdict {
			if val < 0 {
				return &Verdict{Sig: "read-of-unwritten-bytes:" + via, Msg: fmt.Sprintf("%s step %d: %s of k%d returned bytes that nobody wrote", r.name(), step, via, k)}
			}
			if own[k] >= 0 {
				if val != own[k] {
					return &Verdict{Sig: "own-write-not-seen:" + via, Msg: fmt.Sprintf("%s step %d: %s of k%d returned %s, the transaction's own uncommitted write is %s",
						r.name(), step, via, k, vname(val), vname(own[k]))}
				}
				return nil
			}
			if val > 0 {
				wc, wt, ws := c.splitID(uint32(val))
				w := recOf[[2]int{wc, wt}]
				wtx := c.txOf(wc, wt)
				if wtx == nil || ws >= len(wtx.Steps) || wtx.Steps[ws].Op != "put" || wtx.Steps[ws].K != k {
					return &Verdict{Sig: "read-of-foreign-value:" + via, Msg: fmt.Sprintf("%s step %d: %s of k%d returned %s, which was never put under that key", r.name(), step, via, k, vname(val))}
				}
				if wc == r.C && wt == r.T {
					return &Verdict{Sig: "own-write-resurfaced:" + via, Msg: fmt.Sprintf("%s step %d: %s of k%d returned %s, an own write that was overwritten or deleted later in the same transaction",
						r.name(), step, via, k, vname(val))}
				}
				if w == nil || !wtx.Commit || (w.Forced && !w.Applied) {
					how := "rolled back"
					if w != nil && w.Forced {
						how = "was rolled back by force"
					}
					return &Verdict{Sig: "dirty-read:rolled-back:" + mode + ":" + via, Msg: fmt.Sprintf("%s step %d: %s of k%d returned %s, written by a transaction that %s",
						r.name(), step, via, k, vname(val), how)}
				}
				if !w.Applied {
					return &Verdict{Sig: "dirty-read:failed-commit:" + mode + ":" + via, Msg: fmt.Sprintf("%s step %d: %s of k%d returned %s, written by %s whose commit reported %q",
						r.name(), step, via, k, vname(val), w.name(), w.EndErr)}
				}
				if at := r.Obs[step].At; at < w.EndCall {
					return &Verdict{Sig: "dirty-read:uncommitted:" + mode + ":" + via, Msg: fmt.Sprintf("%s step %d: %s of k%d returned %s at t=%d, but %s called Commit only at t=%d",
						r.name(), step, via, k, vname(val), at, w.name(), w.EndCall)}
				}
			}
			if val > 0 && r.Forced {
				wc, wt, _ := c.splitID(uint32(val))
				if w := recOf[[2]int{wc, wt}]; w != nil && w.EndCall > r.ForcedRet {
					return &Verdict{Sig: "read-after-forced-rollback:" + mode + ":" + via, Msg: fmt.Sprintf(
						"%s step %d: %s of k%d returned %s successfully, but %s called Commit (t=%d) only after the forced Rollback of %s had returned (t=%d): the read saw a state committed after its transaction was closed",
						r.name(), step, via, k, vname(val), w.name(), w.EndCall, r.name(), r.ForcedRet)}
				}
			}
			if seen[k] != -2 && seen[k] != val {
				return &Verdict{Sig: "non-repeatable-read:" + mode + ":" + via, Msg: fmt.Sprintf("%s step %d: %s of k%d returned %s, an earlier read in the same transaction returned %s (no own write in between)",
					r.name(), step, via, k, vname(val), vname(seen[k]))}
			}
			seen[k] = val
			return nil
		}
		for si, s := range tx.Steps {
			if si >= len(r.Obs) {
				break
			}
			o := &r.Obs[si]
			if o.Err != "" {
				return fail("step-error:"+s.Op+":"+mode, fmt.Sprintf("%s step %d (%s): %s", r.name(), si, s.Op, o.Err))
			}
			switch s.Op {
			case "put":
				own[s.K] = int64(c.valueID(r.C, r.T, si))
			case "del":
				own[s.K] = 0
			case "get":
				if v := observe(si, s.K, o.R, "get"); v != nil {
					res.V = v
					return res
				}
			case "scan":
				if o.Void {
					continue
				}
				lo, hi := 0, nk
				if s.A >= 0 {
					lo = s.A
				}
				if s.B >= 0 {
					hi = s.B
				}
				got := map[int]int64{}
				prev := -1
				for _, e := range o.Scan {
					k := int(e[0])
					if k < 0 || k < lo || k >= hi {
						return fail("scan-out-of-bounds:"+mode, fmt.Sprintf("%s step %d: scan [%d,%d) returned key index %d", r.name(), si, s.A, s.B, k))
					}
					if k <= prev {
						return fail("scan-order:"+mode, fmt.Sprintf("%s step %d: scan returned key k%d after k%d", r.name(), si, k, prev))
					}
					prev = k
					got[k] = e[1]
				}
				for k := lo; k < hi; k++ {
					if v := observe(si, k, got[k], "scan"); v != nil {
						res.V = v
						return res
					}
				}
			}
		}
	}
	// strict serializability: transactions as operations
	ops := make([]porcupine.Operation, 0, len(h))
	for i := range h {
		r := &h[i]
		ops = append(ops, porcupine.Operation{ClientId: clientID(r.C), Input: &txIn{c: c, tx: c.txOf(r.C, r.T), rec: r}, Call: r.Call, Return: r.Ret})
	}
	switch porcupine.CheckOperationsTimeout(txModel, ops, timeout) {
	case porcupine.Unknown:
		res.Inconclusive = true
	case porcupine.Illegal:
		// is there a serial order at all when real time is ignored?
		relaxed := make([]porcupine.Operation, len(ops))
		copy(relaxed, ops)
		for i := range relaxed {
			relaxed[i].Call, relaxed[i].Return = 0, 1
		}
		kind := "no-serial-order"
		if porcupine.CheckOperationsTimeout(txModel, relaxed, timeout) != porcupine.Illegal {
			kind = "serial-order-contradicts-real-time"
		}
		return fail("not-serializable:"+kind, "no order of the transactions consistent with real time explains every observed read: "+render(c, h))
	}
	return res
}

func clientID(c int) int {
	if c < 0 {
		return 100 - c
	}
	return c
}

func vname(v int64) string {
	if v == 0 {
		return "absent"
	}
	return fmt.Sprintf("v%d", v)
}

// render prints the history compactly (transactions in invocation order).
func render(c *Case, h []TxRec) string {
	idx := make([]int, len(h))
	for i := range idx {
		idx[i] = i
	}
	sort.Slice(idx, func(a, b int) bool { return h[idx[a]].Call < h[idx[b]].Call })
	out := ""
	for _, i := range idx {
		r := &h[i]
		tx := c.txOf(r.C, r.T)
		s := r.name()
		if tx.RO {
			s += "(ro)"
		}
		s += fmt.Sprintf("[%d..%d]{", r.Call/1000, r.Ret/1000)
		for si, st := range tx.Steps {
			if si >= len(r.Obs) {
				break
			}
			switch st.Op {
			case "put":
				s += fmt.Sprintf("w k%d=v%d;", st.K, c.valueID(r.C, r.T, si))
			case "del":
				s += fmt.Sprintf("d k%d;", st.K)
			case "get":
				s += fmt.Sprintf("r k%d=%s;", st.K, vname(r.Obs[si].R))
			case "scan":
				if r.Obs[si].Void {
					s += "scan(void);"
				} else {
					s += fmt.Sprintf("scan[%d,%d)=%v;", st.A, st.B, r.Obs[si].Scan)
				}
			}
		}
		switch {
		case r.Forced:
			s += fmt.Sprintf("}FORCED-ROLLBACK@%d..%d ", r.ForcedCall/1000, r.ForcedRet/1000)
		case r.Applied:
			s += "}commit "
		case tx.Commit:
			s += "}commit-error "
		default:
			s += "}rollback "
		}
		out += s
		if len(out) > 3000 {
			return out + "..."
		}
	}
	return out
}

// C04, sequential sub-check: the trivial schedule. One client runs generated
// transactions one after the other (puts, deletes and gets, repeated keys,
// often putting back exactly the bytes the database already holds; commit or
// rollback); every get inside a transaction must return the transaction's own
// latest write or else the state committed before it began, and after every
// transaction every key must read as the serial execution says. The concurrent
// sub-check cannot generate value re-use (its oracle identifies writers by
// unique value ids); this one does.
package c04

import (
	"errors"
	"os"
	"testing"

	"pgregory.net/rapid"

	"verif/internal/drive"
	"verif/internal/ev"
	"verif/internal/gen"
)

func runSeqProgram(p *drive.Program) *drive.Mismatch {
	dir, err := os.MkdirTemp("", "c04s-")
	if err != nil {
		panic(err)
	}
	defer os.RemoveAll(dir)
	r, mm := drive.NewRunner(dir, p)
	if mm != nil {
		return mm
	}
	defer r.Close()
	for i := range p.Steps {
		mm, err := r.Do(i)
		if mm != nil {
			return mm
		}
		if err != nil {
			if errors.Is(err, drive.ErrWrite) {
				ev.R().Count("seq_cases_stopped_at_write_error", 1)
				return nil
			}
			if errors.Is(err, drive.ErrRetireRaced) {
				ev.R().Count("seq_cases_dropped_harness_retention_overlapped_rotation", 1)
				return nil
			}
			panic(err)
		}
		if mm := r.CheckAll(i); mm != nil {
			return mm
		}
	}
	return nil
}

func TestPropSequential(t *testing.T) {
	o := gen.ProgOpts{MinSteps: 4, MaxSteps: 40, MaxTxOps: 10, TxGets: true,
		Weights: map[string]int{"tx": 12, "put": 3, "del": 1, "flush": 1, "reopen": 1}}
	rapid.Check(t, func(t *rapid.T) {
		p := gen.Program(t, o)
		restore, repeated := false, false
		last := map[int]*drive.Val{}
		for _, s := range p.Steps {
			seen := map[int]bool{}
			for _, op := range s.Tx {
				if op.Op == "get" || op.Op == "last" {
					continue
				}
				if seen[op.K] {
					repeated = true
				}
				seen[op.K] = true
				if op.Op == "put" && last[op.K] != nil && *last[op.K] == *op.V {
					restore = true
				}
			}
			switch {
			case s.Op == "put":
				if last[s.K] != nil && *last[s.K] == *s.V {
					restore = true
				}
				last[s.K] = s.V
			case s.Op == "del":
				delete(last, s.K)
			case s.Op == "tx" && s.Commit:
				for _, op := range s.Tx {
					if op.Op == "put" {
						last[op.K] = op.V
					} else if op.Op == "del" {
						delete(last, op.K)
					}
				}
			}
		}
		classes := []string{"kind:sequential"}
		if restore {
			classes = append(classes, "seq:committed_value_written_back")
		}
		if repeated {
			classes = append(classes, "seq:key_written_twice_in_one_transaction")
		}
		mm := runSeqProgram(&p)
		ev.R().Case(ev.Hash(&p), repeated || restore, classes, func() any { return &p })
		if mm != nil {
			sig := "sequential:" + mm.Signature()
			path := ev.R().Fail(sig, mm.Error(), Doc{Property: "C04", Mode: "sequential", Seq: &p})
			t.Fatalf("C04 violated: %s: %v (replay %s)", sig, mm, path)
		}
	})
}
